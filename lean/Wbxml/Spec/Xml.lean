/-
  Well-formed XML documents — Extensible Markup Language (XML) 1.0 (Fifth Edition), W3C
  Recommendation 26 November 2008 — for the constructs the XML printer of libwbxml can emit, written
  from the text of the Recommendation and independent of the structure of the C printer and of its
  model. A STRICT reader of octets (UTF-8):

      [1]  document    ::= prolog element Misc*                 (Misc: white space only)
      [22] prolog      ::= XMLDecl? Misc* (doctypedecl Misc*)?
      [23] XMLDecl     ::= '<?xml' VersionInfo S? '?>'           (no EncodingDecl / SDDecl)
      [24] VersionInfo ::= S 'version' Eq ("'" VersionNum "'" | '"' VersionNum '"')
      [26] VersionNum  ::= '1.0'                                 (the only version of this Recommendation
                                                                  a 1.0 processor is required to accept)
      [28] doctypedecl ::= '<!DOCTYPE' S Name (S ExternalID)? S? '>'       (no internal subset)
      [75] ExternalID  ::= 'SYSTEM' S SystemLiteral | 'PUBLIC' S PubidLiteral S SystemLiteral
      [11] SystemLiteral, [12] PubidLiteral, [13] PubidChar
      [39] element     ::= EmptyElemTag | STag content ETag      (WFC: Element Type Match)
      [40] STag        ::= '<' Name (S Attribute)* S? '>'        (WFC: Unique Att Spec)
      [44] EmptyElemTag::= '<' Name (S Attribute)* S? '/>'
      [41] Attribute   ::= Name Eq AttValue                      (WFC: No < in Attribute Values)
      [25] Eq          ::= S? '=' S?
      [10] AttValue    ::= '"' ([^<&"] | Reference)* '"' | "'" ([^<&'] | Reference)* "'"
      [42] ETag        ::= '</' Name S? '>'
      [43] content     ::= CharData? ((element | Reference | CDSect) CharData?)*
      [14] CharData    ::= [^<&]* - ([^<&]* ']]>' [^<&]*)
      [18] CDSect      ::= '<![CDATA[' CData ']]>'       [20] CData ::= (Char* - (Char* ']]>' Char*))
      [67] Reference   ::= EntityRef | CharRef
      [66] CharRef     ::= '&#' [0-9]+ ';' | '&#x' [0-9a-fA-F]+ ';'          (WFC: Legal Character)
      [68] EntityRef   ::= '&' Name ';'          (WFC: Entity Declared — only lt gt amp apos quot, §4.6)
      [5]  Name, [4] NameStartChar, [4a] NameChar, [3] S, [2] Char

  Outside the subset (the reader refuses them; the printer emits none): comments, processing
  instructions, an internal DTD subset, encoding and standalone declarations, a byte order mark,
  encodings other than UTF-8.

  What a document denotes (`XDoc`): the version of its XML declaration, its document type
  declaration (root name, public identifier, system identifier — literals as written), and its root
  element: name, attribute list in document order (values normalised as §3.3.3 prescribes for CDATA
  attributes: a literal TAB, LF or CR becomes a space; characters given by character references are
  kept), content as a list of elements and character data. Adjacent character data, references and
  CDATA sections form ONE text item (none when empty). Line ends are handled as in §2.11: CR LF and a
  lone CR in the input stand for LF.
-/
import Wbxml.Prim.Basic
import Wbxml.Spec.Utf8
namespace Wbxml.Spec.Xml
open Wbxml Wbxml.Spec

/-! ## Characters -/

/-- [2] Char ::= #x9 | #xA | #xD | [#x20-#xD7FF] | [#xE000-#xFFFD] | [#x10000-#x10FFFF] -/
def isChar (c : Nat) : Bool :=
  c == 0x9 || c == 0xA || c == 0xD || (0x20 ≤ c && c ≤ 0xD7FF) || (0xE000 ≤ c && c ≤ 0xFFFD) ||
  (0x10000 ≤ c && c ≤ 0x10FFFF)

/-- [4] NameStartChar -/
def isNameStartChar (c : Nat) : Bool :=
  c == 0x3A || (0x41 ≤ c && c ≤ 0x5A) || c == 0x5F || (0x61 ≤ c && c ≤ 0x7A) ||
  (0xC0 ≤ c && c ≤ 0xD6) || (0xD8 ≤ c && c ≤ 0xF6) || (0xF8 ≤ c && c ≤ 0x2FF) ||
  (0x370 ≤ c && c ≤ 0x37D) || (0x37F ≤ c && c ≤ 0x1FFF) || (0x200C ≤ c && c ≤ 0x200D) ||
  (0x2070 ≤ c && c ≤ 0x218F) || (0x2C00 ≤ c && c ≤ 0x2FEF) || (0x3001 ≤ c && c ≤ 0xD7FF) ||
  (0xF900 ≤ c && c ≤ 0xFDCF) || (0xFDF0 ≤ c && c ≤ 0xFFFD) || (0x10000 ≤ c && c ≤ 0xEFFFF)

/-- [4a] NameChar ::= NameStartChar | "-" | "." | [0-9] | #xB7 | [#x0300-#x036F] | [#x203F-#x2040] -/
def isNameChar (c : Nat) : Bool :=
  isNameStartChar c || c == 0x2D || c == 0x2E || (0x30 ≤ c && c ≤ 0x39) || c == 0xB7 ||
  (0x300 ≤ c && c ≤ 0x36F) || (0x203F ≤ c && c ≤ 0x2040)

/-- A UTF-8 continuation octet `10xxxxxx` (RFC 3629 §4, UTF8-tail = %x80-BF). -/
def isTail (b : UInt8) : Bool := 0x80 ≤ b.toNat && b.toNat ≤ 0xBF

def tailBits (b : UInt8) : Nat := b.toNat - 0x80

/-- The character numbers of a UTF-8 octet sequence, strictly as RFC 3629 §4 defines the syntax
    (shortest form only, no surrogates, nothing above U+10FFFF); `none` for anything else.

        UTF8-1 = %x00-7F                       UTF8-2 = %xC2-DF UTF8-tail
        UTF8-3 = %xE0 %xA0-BF UTF8-tail / %xE1-EC 2( UTF8-tail ) / %xED %x80-9F UTF8-tail / %xEE-EF 2( UTF8-tail )
        UTF8-4 = %xF0 %x90-BF 2( UTF8-tail ) / %xF1-F3 3( UTF8-tail ) / %xF4 %x80-8F 2( UTF8-tail ) -/
def decode : Bytes → Option (List Nat)
  | [] => some []
  | a :: r =>
    if a.toNat < 0x80 then (decode r).map (a.toNat :: ·)
    else if a.toNat < 0xC2 then none
    else if a.toNat < 0xE0 then
      match r with
      | b :: r =>
        if isTail b then (decode r).map (((a.toNat - 0xC0) * 64 + tailBits b) :: ·) else none
      | _ => none
    else if a.toNat < 0xF0 then
      match r with
      | b :: c :: r =>
        if isTail b && isTail c && (a.toNat != 0xE0 || 0xA0 ≤ b.toNat) && (a.toNat != 0xED || b.toNat ≤ 0x9F) then
          (decode r).map ((((a.toNat - 0xE0) * 64 + tailBits b) * 64 + tailBits c) :: ·)
        else none
      | _ => none
    else if a.toNat < 0xF5 then
      match r with
      | b :: c :: d :: r =>
        if isTail b && isTail c && isTail d && (a.toNat != 0xF0 || 0x90 ≤ b.toNat) && (a.toNat != 0xF4 || b.toNat ≤ 0x8F) then
          (decode r).map (((((a.toNat - 0xF0) * 64 + tailBits b) * 64 + tailBits c) * 64 + tailBits d) :: ·)
        else none
      | _ => none
    else none

/-- The octets are the UTF-8 form of a sequence of XML characters ([2] Char). -/
def xmlChars (bs : Bytes) : Bool :=
  match decode bs with
  | some cs => cs.all isChar
  | none => false

/-- [5] Name ::= NameStartChar (NameChar)*, in UTF-8. -/
def isName (bs : Bytes) : Bool :=
  match decode bs with
  | some (c :: cs) => isNameStartChar c && cs.all isNameChar
  | _ => false

/-! ## What a document denotes -/

inductive XItem where
  | text (s : Bytes)
  | elem (name : Bytes) (attrs : List (Bytes × Bytes)) (content : List XItem)
  deriving Repr, Inhabited

mutual
/-- Equality of items, as a function (the type is a nested inductive). -/
def XItem.same : XItem → XItem → Bool
  | .text a, .text b => a == b
  | .elem n a k, .elem n' a' k' => n == n' && a == a' && XItem.sameL k k'
  | _, _ => false
def XItem.sameL : List XItem → List XItem → Bool
  | [], [] => true
  | x :: r, y :: r' => XItem.same x y && XItem.sameL r r'
  | _, _ => false
end

structure XDoctype where
  name : Bytes
  pubid : Option Bytes
  sysid : Option Bytes
  deriving Repr, DecidableEq, Inhabited

structure XDoc where
  version : Option Bytes
  doctype : Option XDoctype
  root : XItem
  deriving Repr, Inhabited

/-- Character data in front of a content list: it joins a text item that follows immediately. -/
def addText (s : Bytes) : List XItem → List XItem
  | .text t :: r => .text (s ++ t) :: r
  | r => if s.isEmpty then r else .text s :: r

/-! ## Lexical level -/

/-- [3] S: space, TAB, CR, LF. -/
def isS (b : UInt8) : Bool := b == 0x20 || b == 0x9 || b == 0xD || b == 0xA

/-- `S?` -/
def skipS (bs : Bytes) : Bytes := bs.dropWhile isS

/-- `S` -/
def reqS : Bytes → Option Bytes
  | b :: r => if isS b then some (skipS r) else none
  | [] => none

/-- A literal string. -/
def strip : Bytes → Bytes → Option Bytes
  | [], bs => some bs
  | _ :: _, [] => none
  | a :: p, b :: bs => if a == b then strip p bs else none

/-- An octet that can be part of a Name: an ASCII NameChar, or part of a multi-octet character. -/
def isNameByte (b : UInt8) : Bool := 0x80 ≤ b.toNat || isNameChar b.toNat

/-- [5] Name: the longest run of octets that can be part of a name must be a Name (wherever the
    grammar has a Name, it is followed by S or by one of `= > / ;`, none of which can be part of one). -/
def name (bs : Bytes) : Option (Bytes × Bytes) :=
  let n := bs.takeWhile isNameByte
  if isName n then some (n, bs.drop n.length) else none

def isDigit (b : UInt8) : Bool := 0x30 ≤ b.toNat && b.toNat ≤ 0x39
def isHexDigit (b : UInt8) : Bool :=
  isDigit b || (0x41 ≤ b.toNat && b.toNat ≤ 0x46) || (0x61 ≤ b.toNat && b.toNat ≤ 0x66)

def digitVal (b : UInt8) : Nat :=
  if isDigit b then b.toNat - 0x30 else if b.toNat ≤ 0x46 then b.toNat - 0x41 + 10 else b.toNat - 0x61 + 10

def numVal (base : Nat) (ds : Bytes) : Nat := ds.foldl (fun v d => v * base + digitVal d) 0

/-- [66] CharRef with WFC Legal Character: the character must match Char. -/
def charRef (c : Nat) : Option Bytes := if isChar c then some (utf8 c) else none

/-- What stands between `&` and `;`. §4.6: `lt gt amp apos quot` are the predefined entities; no other
    entity can be declared without a DTD subset (WFC: Entity Declared). -/
def refValue (body : Bytes) : Option Bytes :=
  if body == b!"lt" then some b!"<"
  else if body == b!"gt" then some b!">"
  else if body == b!"amp" then some b!"&"
  else if body == b!"apos" then some b!"'"
  else if body == b!"quot" then some b!"\""
  else
    match body with
    | 0x23 :: 0x78 :: hs => if !hs.isEmpty && hs.all isHexDigit then charRef (numVal 16 hs) else none
    | 0x23 :: ds => if !ds.isEmpty && ds.all isDigit then charRef (numVal 10 ds) else none
    | _ => none

/-- [67] Reference, the `&` already read: the octets it denotes and what follows the `;`. -/
def reference (bs : Bytes) : Option (Bytes × Bytes) :=
  let body := bs.takeWhile (· != 0x3B)
  match bs.drop body.length with
  | 0x3B :: rest => (refValue body).map (·, rest)
  | _ => none

/-- [10] AttValue after the opening quote `q`, normalised as §3.3.3 says: a character reference
    appends the referenced character; a literal white space character (#x20, #xD, #xA, #x9) appends a
    space — #xD #xA being one line end (§2.11) —; other characters are appended as they are. -/
def attValue (q : UInt8) : Nat → Bytes → Option (Bytes × Bytes)
  | 0, _ => none
  | _ + 1, [] => none
  | f + 1, b :: r =>
    if b == q then some ([], r)
    else if b == 0x3C then none
    else if b == 0x26 then do
      let (c, r) ← reference r
      let (v, r) ← attValue q f r
      pure (c ++ v, r)
    else if b == 0xD then
      match r with
      | 0xA :: r => (attValue q f r).map fun (v, r) => (0x20 :: v, r)
      | r => (attValue q f r).map fun (v, r) => (0x20 :: v, r)
    else if b == 0xA || b == 0x9 then (attValue q f r).map fun (v, r) => (0x20 :: v, r)
    else (attValue q f r).map fun (v, r) => (b :: v, r)

/-- `"…"` or `'…'` around something read by `inner` (which is told the quote). -/
def quoted {α : Type} (inner : UInt8 → Bytes → Option (α × Bytes)) : Bytes → Option (α × Bytes)
  | 0x22 :: r => inner 0x22 r
  | 0x27 :: r => inner 0x27 r
  | _ => none

/-- [25] Eq ::= S? '=' S? -/
def eq (bs : Bytes) : Option Bytes := (strip b!"=" (skipS bs)).map skipS

/-- `(S Attribute)* S?` and the end of the tag: the attributes in document order, whether the tag is
    an empty-element tag (`/>`) or a start tag (`>`), and what follows. -/
def attributes : Nat → Bytes → Option (List (Bytes × Bytes) × Bool × Bytes)
  | 0, _ => none
  | f + 1, bs =>
    let r := skipS bs
    match strip b!">" r with
    | some r => some ([], false, r)
    | none =>
      match strip b!"/>" r with
      | some r => some ([], true, r)
      | none =>
        if bs.head?.any isS then do
          let (n, r) ← name r
          let r ← eq r
          let (v, r) ← quoted (fun q r => attValue q (r.length + 1) r) r
          let (as, e, r) ← attributes f r
          pure ((n, v) :: as, e, r)
        else none

/-- [20] CData and the closing `]]>`, the opening `<![CDATA[` already read (line ends as in §2.11). -/
def cdSect : Bytes → Option (Bytes × Bytes)
  | [] => none
  | b :: r =>
    if b == 0x5D && r.take 2 == [0x5D, 0x3E] then some ([], r.drop 2)
    else if b == 0xD then
      match r with
      | 0xA :: r => (cdSect r).map fun (d, r) => (0xA :: d, r)
      | r => (cdSect r).map fun (d, r) => (0xA :: d, r)
    else (cdSect r).map fun (d, r) => (b :: d, r)

/-! ## Elements -/

def nodup : List Bytes → Bool
  | [] => true
  | a :: r => !r.contains a && nodup r

mutual
/-- [39] element. The budget `fuel` only has to exceed the number of octets (every call consumes
    at least one). -/
def element : Nat → Bytes → Option (XItem × Bytes)
  | 0, _ => none
  | f + 1, bs => do
    let r ← strip b!"<" bs
    let (n, r) ← name r
    let (as, empty, r) ← attributes (r.length + 1) r
    if !nodup (as.map (·.1)) then none                       -- WFC: Unique Att Spec
    else if empty then pure (.elem n as [], r)
    else do
      let (items, r) ← content f r
      let r ← strip (b!"</" ++ n) r                          -- WFC: Element Type Match
      let r ← strip b!">" (skipS r)
      pure (.elem n as items, r)

/-- [43] content, up to the `</` of the end tag of the enclosing element. -/
def content : Nat → Bytes → Option (List XItem × Bytes)
  | 0, _ => none
  | _ + 1, [] => none
  | f + 1, b :: r =>
    if b == 0x3C then
      if r.head? == some 0x2F then some ([], b :: r)          -- `</`: the end tag of the enclosing element
      else if r.head? == some 0x21 then do                    -- `<!`: a CDATA section
        let r ← strip b!"![CDATA[" r
        let (d, r) ← cdSect r
        let (items, r) ← content f r
        pure (addText d items, r)
      else do
        let (e, r) ← element f (b :: r)
        let (items, r) ← content f r
        pure (e :: items, r)
    else if b == 0x26 then do
      let (c, r) ← reference r
      let (items, r) ← content f r
      pure (addText c items, r)
    else if b == 0x5D && r.take 2 == [0x5D, 0x3E] then none   -- `]]>` in character data
    else if b == 0xD then
      match r with
      | 0xA :: r => (content f r).map fun (items, r) => (addText [0xA] items, r)
      | r => (content f r).map fun (items, r) => (addText [0xA] items, r)
    else (content f r).map fun (items, r) => (addText [b] items, r)
end

/-! ## Prolog and document -/

/-- [13] PubidChar ::= #x20 | #xD | #xA | [a-zA-Z0-9] | [-'()+,./:=?;!*#@$_%] -/
def isPubidChar (b : UInt8) : Bool :=
  b == 0x20 || b == 0xD || b == 0xA || (0x61 ≤ b.toNat && b.toNat ≤ 0x7A) || (0x41 ≤ b.toNat && b.toNat ≤ 0x5A) ||
  isDigit b || b!"-'()+,./:=?;!*#@$_%".contains b

/-- A quoted literal whose characters satisfy `p`: everything up to the same quote. -/
def literal (p : UInt8 → Bool) (q : UInt8) (bs : Bytes) : Option (Bytes × Bytes) :=
  let s := bs.takeWhile (· != q)
  match bs.drop s.length with
  | _ :: rest => if s.all p then some (s, rest) else none
  | [] => none

/-- [75] ExternalID -/
def externalId (bs : Bytes) : Option (Option Bytes × Bytes × Bytes) :=
  match strip b!"SYSTEM" bs with
  | some r => do
    let r ← reqS r
    let (sys, r) ← quoted (literal fun _ => true) r
    pure (none, sys, r)
  | none => do
    let r ← strip b!"PUBLIC" bs
    let r ← reqS r
    let (pub, r) ← quoted (literal isPubidChar) r
    let r ← reqS r
    let (sys, r) ← quoted (literal fun _ => true) r
    pure (some pub, sys, r)

/-- [28] doctypedecl, the `<!DOCTYPE` already read. -/
def doctypeDecl (bs : Bytes) : Option (XDoctype × Bytes) := do
  let r ← reqS bs
  let (n, r) ← name r
  match strip b!">" (skipS r) with
  | some r => pure ({ name := n, pubid := none, sysid := none }, r)
  | none => do
    let r ← reqS r
    let (pub, sys, r) ← externalId r
    let r ← strip b!">" (skipS r)
    pure ({ name := n, pubid := pub, sysid := some sys }, r)

/-- [23] XMLDecl, the `<?xml` already read. -/
def xmlDecl (bs : Bytes) : Option (Bytes × Bytes) := do
  let r ← reqS bs
  let r ← strip b!"version" r
  let r ← eq r
  let (v, r) ← quoted (literal fun _ => true) r
  if v != b!"1.0" then none
  else do
    let r ← strip b!"?>" (skipS r)
    pure (v, r)

/-- [1] document -/
def document (bs : Bytes) : Option XDoc := do
  let (version, r) ←
    match strip b!"<?xml" bs with
    | some r => (xmlDecl r).map fun (v, r) => (some v, r)
    | none => pure (none, bs)
  let r := skipS r
  let (doctype, r) ←
    match strip b!"<!DOCTYPE" r with
    | some r => (doctypeDecl r).map fun (d, r) => (some d, skipS r)
    | none => pure (none, r)
  let (root, r) ← element (r.length + 1) r
  if (skipS r).isEmpty then pure { version := version, doctype := doctype, root := root } else none

/-- **The reader**: the octets are UTF-8 for a sequence of XML characters and form a document. -/
def read (bs : Bytes) : Option XDoc :=
  if xmlChars bs then document bs else none

end Wbxml.Spec.Xml
