/-
  C18 lemmas, part 1: the heap primitives of `Model/TreeHeap.lean` seen through the *view*
  `St.cellAt : Nat → Option Cell` (the live cell at an address), and the ghost shape `BT`
  (first-child / next-sibling binary tree of addresses) with the local predicate `Loc` from which
  the link invariant (`Match`) is built.
-/
import Wbxml.Model.TreeHeap
namespace Wbxml.Model.TreeHeap
open Wbxml Wbxml.Model

/-! ### Views -/

abbrev View := Nat → Option Cell

def vset (v : View) (i : Nat) (c : Cell) : View := fun j => if j = i then some c else v j
def vdel (v : View) (i : Nat) : View := fun j => if j = i then none else v j

@[simp] theorem vset_self (v : View) (i : Nat) (c : Cell) : vset v i c i = some c := by simp [vset]
theorem vset_ne (v : View) {i j : Nat} (c : Cell) (h : j ≠ i) : vset v i c j = v j := by simp [vset, h]
@[simp] theorem vdel_self (v : View) (i : Nat) : vdel v i i = none := by simp [vdel]
theorem vdel_ne (v : View) {i j : Nat} (h : j ≠ i) : vdel v i j = v j := by simp [vdel, h]

/-- The payload at an address (anything for a dead address; only used under liveness facts). -/
def payOf (v : View) (i : Nat) : Pay :=
  match v i with
  | some c => c.pay
  | none => .cdata

theorem payOf_vset_self (v : View) (i : Nat) (c : Cell) : payOf (vset v i c) i = c.pay := by simp [payOf]
theorem payOf_vset_ne (v : View) {i j : Nat} (c : Cell) (h : j ≠ i) : payOf (vset v i c) j = payOf v j := by
  simp [payOf, vset_ne _ _ h]
theorem payOf_vdel_ne (v : View) {i j : Nat} (h : j ≠ i) : payOf (vdel v i) j = payOf v j := by
  simp [payOf, vdel_ne _ h]
theorem payOf_vset_same {v : View} {i : Nat} {c0 c : Cell} (h : v i = some c0) (hp : c.pay = c0.pay) (j : Nat) :
    payOf (vset v i c) j = payOf v j := by
  by_cases hj : j = i
  · subst hj; simp [payOf, h, hp]
  · exact payOf_vset_ne v c hj

/-- `s.heap.set i c` with the other fields kept. -/
def St.setCell (s : St) (i : Nat) (c : Cell) : St := { s with heap := s.heap.set i c }

@[simp] theorem setCell_root (s : St) (i : Nat) (c : Cell) : (s.setCell i c).root = s.root := rfl
@[simp] theorem setCell_lang (s : St) (i : Nat) (c : Cell) : (s.setCell i c).lang = s.lang := rfl
@[simp] theorem setCell_charset (s : St) (i : Nat) (c : Cell) : (s.setCell i c).charset = s.charset := rfl
@[simp] theorem setCell_curPage (s : St) (i : Nat) (c : Cell) : (s.setCell i c).curPage = s.curPage := rfl
@[simp] theorem setCell_len (s : St) (i : Nat) (c : Cell) : (s.setCell i c).heap.length = s.heap.length := by
  simp [St.setCell]

theorem cellAt_lt {s : St} {i : Nat} {c : Cell} (h : s.cellAt i = some c) : i < s.heap.length := by
  unfold St.cellAt at h
  cases hg : s.heap[i]? with
  | none => simp [hg] at h
  | some x =>
    have := List.getElem?_eq_some_iff.mp hg
    exact this.1

theorem cellAt_live {s : St} {i : Nat} {c : Cell} (h : s.cellAt i = some c) : c.live = true := by
  unfold St.cellAt at h
  cases hg : s.heap[i]? with
  | none => simp [hg] at h
  | some x =>
    simp only [hg] at h
    by_cases hl : x.live
    · simp [hl] at h; subst h; exact hl
    · simp [hl] at h

theorem deref_eq_ok {s : St} {i : Nat} {c : Cell} : s.deref i = .ok c ↔ s.cellAt i = some c := by
  unfold St.deref St.cellAt
  cases hg : s.heap[i]? with
  | none => simp
  | some x =>
    by_cases hl : x.live <;> simp [hl]

theorem deref_of_cellAt {s : St} {i : Nat} {c : Cell} (h : s.cellAt i = some c) : s.deref i = .ok c :=
  deref_eq_ok.mpr h

/-- Dereferencing an address that holds no live cell is the model's `Err.ub`. -/
theorem deref_none_ub {s : St} {i : Nat} (h : s.cellAt i = none) : ∃ w, s.deref i = .error (.ub w) := by
  unfold St.deref
  unfold St.cellAt at h
  cases hg : s.heap[i]? with
  | none => exact ⟨_, rfl⟩
  | some x =>
    simp only [hg] at h
    by_cases hl : x.live
    · simp [hl] at h
    · simp only [hl]; exact ⟨_, rfl⟩

theorem upd_ok {s : St} {i : Nat} {c : Cell} (h : s.cellAt i = some c) (f : Cell → Cell) :
    s.upd i f = .ok (s.setCell i (f c)) := by
  unfold St.upd
  rw [deref_of_cellAt h]
  rfl

theorem cellAt_setCell {s : St} {i : Nat} (hi : i < s.heap.length) (c : Cell) (hl : c.live = true) :
    (s.setCell i c).cellAt = vset s.cellAt i c := by
  funext j
  unfold St.cellAt St.setCell vset
  simp only [List.getElem?_set]
  by_cases hj : j = i
  · subst hj; simp [hi, hl]
  · have : ¬ i = j := fun h => hj h.symm
    simp [hj, this]

theorem cellAt_setCell_dead {s : St} {i : Nat} (hi : i < s.heap.length) (c : Cell) (hl : c.live = false) :
    (s.setCell i c).cellAt = vdel s.cellAt i := by
  funext j
  unfold St.cellAt St.setCell vdel
  simp only [List.getElem?_set]
  by_cases hj : j = i
  · subst hj; simp [hi, hl]
  · have : ¬ i = j := fun h => hj h.symm
    simp [hj, this]

/-- `upd` on a live cell with a function that keeps it live: the view changes at that address only. -/
theorem upd_view {s : St} {i : Nat} {c : Cell} (h : s.cellAt i = some c) (f : Cell → Cell)
    (hl : (f c).live = true) :
    ∃ s', s.upd i f = .ok s' ∧ s'.cellAt = vset s.cellAt i (f c) ∧ s'.root = s.root ∧ s'.lang = s.lang ∧
      s'.charset = s.charset ∧ s'.curPage = s.curPage ∧ s'.heap.length = s.heap.length :=
  ⟨_, upd_ok h f, cellAt_setCell (cellAt_lt h) _ hl, rfl, rfl, rfl, rfl, by simp⟩

theorem free_view {s : St} {i : Nat} {c : Cell} (h : s.cellAt i = some c) :
    ∃ s', s.free i = .ok s' ∧ s'.cellAt = vdel s.cellAt i ∧ s'.root = s.root ∧ s'.lang = s.lang ∧
      s'.charset = s.charset ∧ s'.curPage = s.curPage ∧ s'.heap.length = s.heap.length :=
  ⟨_, upd_ok h _, cellAt_setCell_dead (cellAt_lt h) _ rfl, rfl, rfl, rfl, rfl, by simp⟩

/-- Freeing twice (or freeing a wild pointer) is `Err.ub`. -/
theorem free_dead_ub {s : St} {i : Nat} (h : s.cellAt i = none) : ∃ w, s.free i = .error (.ub w) := by
  obtain ⟨w, hw⟩ := deref_none_ub h
  exact ⟨w, by unfold St.free St.upd; rw [hw]⟩

theorem alloc_view (s : St) (p : Pay) :
    (s.alloc p).1 = s.heap.length ∧
    (s.alloc p).2.cellAt = vset s.cellAt s.heap.length { pay := p } ∧
    (s.alloc p).2.root = s.root ∧ (s.alloc p).2.lang = s.lang ∧ (s.alloc p).2.charset = s.charset ∧
    (s.alloc p).2.curPage = s.curPage ∧ (s.alloc p).2.heap.length = s.heap.length + 1 := by
  refine ⟨rfl, ?_, rfl, rfl, rfl, rfl, by simp [St.alloc]⟩
  funext j
  unfold St.cellAt St.alloc vset
  simp only [List.getElem?_append]
  by_cases hj : j = s.heap.length
  · subst hj; simp
  · by_cases hlt : j < s.heap.length
    · simp [hj, hlt]
    · have hge : s.heap.length < j := by omega
      have h1 : s.heap[j]? = none := by
        apply List.getElem?_eq_none; omega
      have h2 : ([({ pay := p } : Cell)])[j - s.heap.length]? = none := by
        apply List.getElem?_eq_none; simp; omega
      simp [hj, hlt, h1, h2]

/-! ### Ghost shape: first-child / next-sibling tree of addresses -/

inductive BT where
  | nil
  | node (id : Nat) (ch : BT) (nx : BT)
  deriving Repr, DecidableEq, Inhabited

namespace BT

/-- The address at the head of a sibling chain (`none` for the empty chain). -/
def rid : BT → Option Nat
  | nil => none
  | node i _ _ => some i

/-- All addresses, in document order. -/
def ids : BT → List Nat
  | nil => []
  | node i ch nx => i :: (ch.ids ++ nx.ids)

def size : BT → Nat
  | nil => 0
  | node _ ch nx => 1 + ch.size + nx.size

theorem ids_length (t : BT) : t.ids.length = t.size := by
  induction t with
  | nil => rfl
  | node i ch nx ih1 ih2 => simp [ids, size, ih1, ih2]; omega

@[simp] theorem rid_nil : rid nil = none := rfl
@[simp] theorem rid_node (i : Nat) (c n : BT) : rid (node i c n) = some i := rfl
@[simp] theorem ids_nil : ids nil = [] := rfl
@[simp] theorem ids_node (i : Nat) (c n : BT) : ids (node i c n) = i :: (c.ids ++ n.ids) := rfl

theorem mem_node {j i : Nat} {ch nx : BT} : j ∈ (node i ch nx).ids ↔ j = i ∨ j ∈ ch.ids ∨ j ∈ nx.ids := by
  simp only [ids_node, List.mem_cons, List.mem_append]

theorem nodup_node {i : Nat} {ch nx : BT} : (node i ch nx).ids.Nodup ↔
    i ∉ ch.ids ∧ i ∉ nx.ids ∧ ch.ids.Nodup ∧ nx.ids.Nodup ∧ ∀ a, a ∈ ch.ids → a ∉ nx.ids := by
  simp only [ids_node, List.nodup_cons, List.mem_append, not_or, List.nodup_append]
  constructor
  · rintro ⟨⟨h1, h2⟩, h3, h4, h5⟩
    exact ⟨h1, h2, h3, h4, fun a ha hb => h5 a ha a hb rfl⟩
  · rintro ⟨h1, h2, h3, h4, h5⟩
    exact ⟨⟨h1, h2⟩, h3, h4, fun a ha b hb e => h5 a ha (e ▸ hb)⟩

theorem rid_mem {t : BT} {i : Nat} (h : t.rid = some i) : i ∈ t.ids := by
  cases t with
  | nil => simp at h
  | node j c n => simp at h; subst h; simp

theorem rid_none {t : BT} (h : t.rid = none) : t = nil := by
  cases t with
  | nil => rfl
  | node j c n => simp at h

end BT

/-- A predicate on shapes that is built from a local condition `A par prv i first next` on each
    node (its parent, its previous sibling, itself, the head of its children, its next sibling). -/
def Loc (A : Option Nat → Option Nat → Nat → Option Nat → Option Nat → Prop) :
    Option Nat → Option Nat → BT → Prop
  | _, _, .nil => True
  | par, prv, .node i ch nx => A par prv i ch.rid nx.rid ∧ Loc A (some i) none ch ∧ Loc A par (some i) nx

/-- A local condition may be exchanged for another one that it implies on the addresses of the shape. -/
theorem Loc.mono {A B : Option Nat → Option Nat → Nat → Option Nat → Option Nat → Prop} :
    ∀ (t : BT) (par prv : Option Nat),
      (∀ i, i ∈ t.ids → ∀ par prv f n, A par prv i f n → B par prv i f n) →
      Loc A par prv t → Loc B par prv t
  | .nil, _, _, _, _ => trivial
  | .node i ch nx, par, prv, h, ⟨ha, hc, hn⟩ =>
    ⟨h i (by simp) _ _ _ _ ha,
     Loc.mono ch _ _ (fun j hj => h j (by simp [hj])) hc,
     Loc.mono nx _ _ (fun j hj => h j (by simp [hj])) hn⟩

/-- The link condition of one cell. Leaf kinds (text, nested document) have no children. -/
def LinkOK (v : View) (par prv : Option Nat) (i : Nat) (f n : Option Nat) : Prop :=
  ∃ c, v i = some c ∧ c.parent = par ∧ c.prev = prv ∧ c.first = f ∧ c.next = n ∧
    (c.pay.isBranch = true ∨ f = none)

/-- The cells of the shape are live and linked exactly as the shape says. -/
def Match (v : View) : Option Nat → Option Nat → BT → Prop := Loc (LinkOK v)

theorem Match.frame {v v' : View} (t : BT) (par prv : Option Nat)
    (h : ∀ i, i ∈ t.ids → v' i = v i) (m : Match v par prv t) : Match v' par prv t :=
  Loc.mono t par prv (fun i hi _ _ _ _ ⟨c, hc, r⟩ => ⟨c, by rw [h i hi]; exact hc, r⟩) m

/-- Every cell of a matched shape is live. -/
theorem Match.live {v : View} : ∀ (t : BT) (par prv : Option Nat), Match v par prv t →
    ∀ i, i ∈ t.ids → ∃ c, v i = some c
  | .nil, _, _, _, i, hi => by simp at hi
  | .node j ch nx, par, prv, ⟨⟨c, hc, _⟩, mc, mn⟩, i, hi => by
    simp only [BT.ids_node, List.mem_cons, List.mem_append] at hi
    rcases hi with rfl | hi | hi
    · exact ⟨c, hc⟩
    · exact Match.live ch _ _ mc i hi
    · exact Match.live nx _ _ mn i hi

/-- Below a parent every cell has that parent or a deeper one: never NULL. -/
theorem Match.parent_some {v : View} : ∀ (t : BT) (p : Nat) (prv : Option Nat), Match v (some p) prv t →
    ∀ i, i ∈ t.ids → ∃ c q, v i = some c ∧ c.parent = some q
  | .nil, _, _, _, i, hi => by simp at hi
  | .node j ch nx, p, prv, ⟨⟨c, hc, hp, _⟩, mc, mn⟩, i, hi => by
    simp only [BT.ids_node, List.mem_cons, List.mem_append] at hi
    rcases hi with rfl | hi | hi
    · exact ⟨c, p, hc, hp⟩
    · exact Match.parent_some ch _ _ mc i hi
    · exact Match.parent_some nx _ _ mn i hi

end Wbxml.Model.TreeHeap
