/-
  C16 — `wbxml_strtbl_initialize` as a whole.

  The function is cut in two (`strtblInitialize_eq`): `initPrefix` = everything up to and including
  the destruction of the first `one_ref` (list creation, `wbxml_strtbl_collect_strings`, first
  `wbxml_strtbl_check_references`, `wbxml_strtbl_collect_words`), `initSuffix` = the second
  `wbxml_strtbl_check_references` whose failure the code ignores on purpose.  The request numbers
  issued by `initSuffix` are exactly those above `(run (initPrefix e texts) s).2.next`.
-/
import Wbxml.Lemmas.AllocTbl
namespace Wbxml.Model.Alloc
open Wbxml
set_option linter.unusedSimpArgs false
set_option linter.unusedVariables false
set_option linter.unnecessarySimpa false

theorem Prog.bind_assoc (p : Prog α) (f : α → Prog β) (g : β → Prog γ) :
    (p.bind f).bind g = p.bind (fun a => (f a).bind g) := by
  induction p with
  | ret a => rfl
  | malloc k ih => simp only [Prog.bind]; congr 1; funext q; exact ih q
  | realloc q k ih => simp only [Prog.bind]; congr 1; funext q; exact ih q
  | free q k ih => simp only [Prog.bind]; congr 1
  | deref q k ih => simp only [Prog.bind]; congr 1
  | ub w => rfl

/-- `wbxml_strtbl_initialize` up to the point where the second `wbxml_strtbl_check_references` is
    called: `.inl (encoder, code)` — the function returns here with that code; `.inr (encoder, words)`
    — it goes on with the list of words. -/
def initPrefix (e : AEnc) (texts : List ABuf) : Prog (Sum (AEnc × Nat) (AEnc × AList ABuf)) := do
  let strings ← listCreate (ι := ABuf)
  match strings with
  | none => pure (.inl (e, ENOMEM))
  | some strings => do
    let strings ← collectStrings strings texts
    let (e, ret, strings, oneRef) ← checkReferences e strings true
    if ret != OK then do
      listDestroy strings (fun _ => pure ())
      pure (.inl (e, ret))
    else match oneRef with
      | none => ub "check_references returned OK without one_ref"
      | some oneRef => do
        let (ret, words) ← collectWords oneRef
        if ret != OK then do
          listDestroy (some oneRef) (fun x => strEltDestroy (some x))
          pure (.inl (e, ret))
        else do
          listDestroy (some oneRef) (fun x => strEltDestroy (some x))
          match words with
          | none => pure (.inl (e, OK))
          | some words => pure (.inr (e, words))

/-- The rest: the second `wbxml_strtbl_check_references` (words shared by several strings); its
    result code is ignored. -/
def initSuffix : Sum (AEnc × Nat) (AEnc × AList ABuf) → Prog (AEnc × Nat)
  | .inl r => pure r
  | .inr (e, words) => do
    let (e, ret2, words', oneRef2) ← checkReferences e words false
    if ret2 != OK then listDestroy words' (fun b => bufDestroy (some b))
    listDestroy oneRef2 (fun x => strEltDestroy (some x))
    pure (e, OK)

theorem strtblInitialize_eq (e : AEnc) (texts : List ABuf) :
    strtblInitialize e texts = Prog.bind (initPrefix e texts) initSuffix := by
  unfold strtblInitialize initPrefix
  simp only [bind_eq, pure_eq, Prog.bind_assoc]
  congr 1; funext strings
  cases strings with
  | none => rfl
  | some strings =>
    simp only [Prog.bind_assoc]
    congr 1; funext strings'
    congr 1; funext r
    obtain ⟨e1, ret, strs, oneRef⟩ := r
    simp only
    split
    · simp only [Prog.bind_assoc]; rfl
    · cases oneRef with
      | none => rfl
      | some oneRef =>
        simp only [Prog.bind_assoc]
        congr 1; funext r2
        obtain ⟨ret4, words⟩ := r2
        simp only
        split
        · simp only [Prog.bind_assoc]; rfl
        · simp only [Prog.bind_assoc]
          congr 1; funext _
          cases words with
          | none => rfl
          | some words => rfl

/-! ### Small facts -/

theorem strOi_true : strOi true = fun _ => ([] : List Nat) := by funext b; simp [strOi]
theorem strOi_false : strOi false = ABuf.owned := by funext b; simp [strOi]

theorem cellsOwned_nop {ι : Type} (cells : List (Nat × ι)) :
    cellsOwned (fun _ => ([] : List Nat)) cells = cells.map (·.1) := by
  induction cells with
  | nil => rfl
  | cons c r ih =>
    show c.1 :: ([] ++ cellsOwned (fun _ => ([] : List Nat)) r) = c.1 :: r.map (·.1)
    rw [List.nil_append, ih]

theorem mem_cellsOwned_hdr {cells : List (Nat × StrElt)} {x : StrElt} (hx : x ∈ cells.map (·.2)) :
    x.hdr ∈ cellsOwned StrElt.owned cells := by
  obtain ⟨c, hc, rfl⟩ := List.mem_map.1 hx
  exact List.mem_flatMap.2 ⟨c, hc, by simp [StrElt.owned]⟩

theorem fails_of_sched {s s' : Ledger} (h : s'.sched = s.sched) (k : Nat) : s'.fails k = s.fails k := by
  simp [Ledger.fails, h]

theorem listCreate_req {ι : Type} (s : Ledger) :
    Good (listCreate (ι := ι)) s (fun _ s' => s'.next = s.next + 1) := by
  unfold Good listCreate
  simp only [bind_eq, pure_eq, malloc, Prog.bind, run]
  by_cases hf : s.fails (s.next + 1) = true <;> simp [hf]

theorem always_ub {R : α → Prop} (w : String) : Always (Wbxml.Model.Alloc.ub w : Prog α) R := by
  intro s; simp only [Wbxml.Model.Alloc.ub, run]

/-- The request numbers of the `wbxml_list_append` calls of `wbxml_strtbl_collect_strings`, when
    `wbxml_strtbl_initialize` starts in ledger `s`: one request for the list, then one per
    collectable text node. -/
def collectWindow (texts : List ABuf) (s : Ledger) (k : Nat) : Prop :=
  s.next + 1 < k ∧ k ≤ s.next + 1 + (texts.filter collectable).length

def prefEnc : Sum (AEnc × Nat) (AEnc × AList ABuf) → AEnc
  | .inl x => x.1
  | .inr x => x.1

def prefExtra : Sum (AEnc × Nat) (AEnc × AList ABuf) → List Nat
  | .inl _ => []
  | .inr x => bufListOwned (some x.2)

/-- The table only gained entries that own their string. -/
def TblGrew (e e' : AEnc) : Prop :=
  ∀ l', e'.strstbl = some l' → ∀ x ∈ l'.items, (∃ l, e.strstbl = some l ∧ x ∈ l.items) ∨ x.stat = false

theorem TblGrew.trans {e e1 e2 : AEnc} (h1 : TblGrew e e1) (h2 : TblGrew e1 e2) : TblGrew e e2 := by
  intro l' hl' x hx
  rcases h2 l' hl' x hx with ⟨l, hl, hxl⟩ | h
  · exact h1 l hl x hxl
  · exact Or.inr h

/-! ### The first part -/

theorem initPrefix_spec (e : AEnc) (texts : List ABuf) (s : Ledger) (wf : s.WF) (own : Owns s e.owned)
    (htx : ∀ t ∈ texts, t.hdr ∈ s.live ∧ t.hdr ∉ e.owned) :
    Good (initPrefix e texts) s (fun r s' =>
      (prefEnc r).hdr = e.hdr ∧ (prefEnc r).output = e.output ∧ (prefEnc r).useStrtbl = e.useStrtbl ∧
      Clean s s' e.owned ((prefEnc r).owned ++ prefExtra r) ∧ TblGrew e (prefEnc r) ∧
      (∀ k, s.fails k = true → s.next < k → k ≤ s'.next → ¬ collectWindow texts s k →
        ∃ x, r = .inl x ∧ x.2 ≠ OK)) := by
  unfold initPrefix
  simp only [bind_eq, pure_eq]
  refine Good.bind ((listCreate_spec (ι := ABuf) s wf).and (listCreate_req s)).with_run ?_
  intro strings s1 ⟨⟨⟨c1, h1, e1⟩, n1⟩, hr1⟩
  cases strings with
  | none =>
    have cE1 : Clean s s1 e.owned e.owned := by
      simpa using Clean.frame_l e.owned wf c1 (by simpa using own)
    simp only [good_ret, prefEnc, prefExtra]
    exact ⟨by simp, by simp, by simp, by simpa using cE1, fun l' hl' x hx => Or.inl ⟨l', hl', hx⟩,
      fun k _ _ _ _ => ⟨_, rfl, by simp [ENOMEM, OK]⟩⟩
  | some strings =>
    have cE1 : Clean s s1 e.owned (e.owned ++ [strings.hdr]) := by
      simpa using Clean.frame_l e.owned wf c1 (by simpa using own)
    simp only at cE1 ⊢
    have hno1 : ¬ s.hits < s1.hits := by intro hh; have := h1 hh; simp at this
    have hwA : ∀ k, s.fails k = true → s.next < k → ¬ k ≤ s1.next :=
      fun k hf a b => hno1 (hits_of_fail hr1 hf a b)
    have hsc := e1 strings rfl
    have htx1 : ∀ t ∈ texts, t.hdr ∈ s1.live := fun t ht => cE1.stays (htx t ht).1 (htx t ht).2
    refine Good.bind (collectStrings_spec texts strings s1 c1.wf (cE1.owns.2 _ (by simp)) htx1) ?_
    intro strings2 s2 ⟨eh2, newc, hcells2, c2, sub2, _, n2⟩
    have hSO : stringsOwned true strings2.hdr strings2.cells = strings.hdr :: newc.map (·.1) := by
      simp [stringsOwned, eh2, hcells2, hsc, strOi_true, cellsOwned_nop]
    have cE2 : Clean s s2 e.owned (e.owned ++ stringsOwned true strings2.hdr strings2.cells) := by
      rw [hSO]
      have := Clean.step_l (e.owned ++ [strings.hdr]) wf (by simpa using cE1) c2
      simpa [List.append_assoc] using this
    have hmem2 : ∀ b ∈ strings2.cells.map (·.2), b ∈ texts := by
      intro b hb
      rw [hcells2, hsc] at hb; simp only [List.nil_append] at hb
      exact (List.mem_filter.1 (sub2.subset hb)).1
    have hbor2 : true = true → ∀ b ∈ strings2.cells.map (·.2),
        b.hdr ∈ s2.live ∧ b.hdr ∉ e.owned ++ stringsOwned true strings2.hdr strings2.cells := by
      intro _ b hb
      obtain ⟨hl, hn⟩ := htx b (hmem2 b hb)
      refine ⟨cE2.stays hl hn, fun hm => ?_⟩
      rcases cE2.prod_old_or_new hm with h | h
      · exact hn h
      · have := wf _ hl; omega
    refine Good.bind (((checkReferences_spec e strings2 true s2 c2.wf cE2.owns hbor2).and_always
      (checkReferences_always e strings2 true)).with_run) ?_
    intro r3 s3 ⟨⟨⟨eh3, eo3, eu3, cC, hne3, hok3, hh3, hp3⟩, _, hprov3⟩, hr3⟩
    obtain ⟨e3, ret, strs, oneRef⟩ := r3
    simp only at eh3 eo3 eu3 cC hne3 hok3 hh3 hp3 hprov3 ⊢
    have cE3 := Clean.trans_recycle wf cE2 cC
    have hsched2 : s2.sched = s.sched := cE2.sched
    have hnx1 := c1.next; have hnx2 := c2.next; have hnx3 := cC.next
    by_cases hret : ret = OK
    · subst hret
      simp only [bne_self_eq_false, Bool.false_eq_true, if_false]
      obtain ⟨hstrs, hsome⟩ := hok3 rfl
      subst hstrs
      cases oneRef with
      | none => simp at hsome
      | some one =>
        simp only at cE3 ⊢
        have cE3' : Clean s s3 e.owned (e3.owned ++ refsOwned one) := by simpa using cE3
        have hnoC : ¬ s2.hits < s3.hits := fun hh => hh3 hh rfl
        have hwC : ∀ k, s.fails k = true → s2.next < k → ¬ k ≤ s3.next :=
          fun k hf a b => hnoC (hits_of_fail hr3 (by rw [fails_of_sched hsched2]; exact hf) a b)
        have own3 := cE3'.owns
        have hitems : ∀ x ∈ one.items, x.hdr ∈ s3.live ∧ x.string.hdr ∈ s3.live := by
          intro x hx
          refine ⟨own3.2 _ (List.mem_append_right _ (List.mem_cons_of_mem _ (mem_cellsOwned_hdr hx))), ?_⟩
          obtain ⟨_, hin⟩ := hprov3 one rfl x hx
          obtain ⟨hl, hn⟩ := htx _ (hmem2 _ hin)
          exact cE3'.stays hl hn
        refine Good.bind (collectWords_spec one s3 cC.wf (own3.2 _ (List.mem_append_right _ (by simp))) hitems).with_run ?_
        intro r4 s4 ⟨⟨c4, e4, h4⟩, hr4⟩
        obtain ⟨ret4, words⟩ := r4
        simp only at c4 e4 h4 ⊢
        have hnx4 := c4.next
        have cE4 : Clean s s4 e.owned ((e3.owned ++ bufListOwned words) ++ refsOwned one) := by
          refine (Clean.step_l (e3.owned ++ refsOwned one) wf (by simpa using cE3') c4).prod_perm ?_
          perm_count
        have hd : Good (listDestroy (some one) (fun x => strEltDestroy (some x))) s4 (fun _ s5 =>
            Clean s s5 e.owned (e3.owned ++ bufListOwned words) ∧ s5.next = s4.next) := by
          refine (listDestroy_spec StrElt.owned _ elt_destroys (some one) s4 c4.wf
            (by simpa [listOwned] using cE4.owns.right)).mono ?_
          intro _ s5 ⟨d5, _, n5⟩
          have d5' : Clean s4 s5 (refsOwned one) [] := by simpa [listOwned] using d5
          exact ⟨by simpa using Clean.step_l (e3.owned ++ bufListOwned words) wf cE4 d5', n5⟩
        by_cases hret4 : ret4 = OK
        · subst hret4
          simp only [bne_self_eq_false, Bool.false_eq_true, if_false]
          refine Good.bind hd ?_
          intro _ s5 ⟨cE5, n5⟩
          have hnoD : ¬ s3.hits < s4.hits := fun hh => h4 hh rfl
          have hsched3 : s3.sched = s.sched := by rw [cC.sched, hsched2]
          have hwD : ∀ k, s.fails k = true → s3.next < k → ¬ k ≤ s4.next :=
            fun k hf a b => hnoD (hits_of_fail hr4 (by rw [fails_of_sched hsched3]; exact hf) a b)
          have hrep : ∀ k, s.fails k = true → s.next < k → k ≤ s5.next → ¬ collectWindow texts s k → False := by
            intro k hf a b hw
            by_cases k1 : k ≤ s1.next
            · exact hwA k hf a k1
            · by_cases k2 : k ≤ s2.next
              · exact hw ⟨by omega, by omega⟩
              · by_cases k3 : k ≤ s3.next
                · exact hwC k hf (by omega) k3
                · exact hwD k hf (by omega) (by omega)
          cases words with
          | none =>
            simp only [good_ret, prefEnc, prefExtra]
            exact ⟨eh3, eo3, eu3, by simpa [bufListOwned, listOwned] using cE5, hp3,
              fun k hf a b hw => (hrep k hf a b hw).elim⟩
          | some words =>
            simp only [good_ret, prefEnc, prefExtra]
            exact ⟨eh3, eo3, eu3, cE5, hp3, fun k hf a b hw => (hrep k hf a b hw).elim⟩
        · have hb : (ret4 != OK) = true := by simpa using hret4
          simp only [hb, if_true]
          refine Good.bind hd ?_
          intro _ s5 ⟨cE5, n5⟩
          have hw0 := e4 hret4
          subst hw0
          simp only [good_ret, prefEnc, prefExtra]
          exact ⟨eh3, eo3, eu3, by simpa [bufListOwned, listOwned] using cE5, hp3,
            fun k _ _ _ _ => ⟨_, rfl, hret4⟩⟩
    · have hb : (ret != OK) = true := by simpa using hret
      simp only [hb, if_true]
      have hone := hne3 hret
      subst hone
      have cE3' : Clean s s3 e.owned (e3.owned ++ listOwned (fun _ => ([] : List Nat)) strs) := by
        cases strs <;> simpa [listOwned, stringsOwned, strOi_true] using cE3
      refine Good.bind (listDestroy_spec (fun _ => ([] : List Nat)) _ nop_destroys strs s3 cC.wf cE3'.owns.right) ?_
      intro _ s4 ⟨d4, _, _⟩
      simp only [good_ret, prefEnc, prefExtra]
      exact ⟨eh3, eo3, eu3, by simpa using Clean.step_l e3.owned wf cE3' d4, hp3,
        fun k _ _ _ _ => ⟨_, rfl, hret⟩⟩

/-! ### The second part -/

theorem initSuffix_spec (a : Sum (AEnc × Nat) (AEnc × AList ABuf)) (s : Ledger) (wf : s.WF)
    (own : Owns s ((prefEnc a).owned ++ prefExtra a)) :
    Good (initSuffix a) s (fun r s' =>
      r.1.hdr = (prefEnc a).hdr ∧ r.1.output = (prefEnc a).output ∧ r.1.useStrtbl = (prefEnc a).useStrtbl ∧
      Clean s s' ((prefEnc a).owned ++ prefExtra a) r.1.owned ∧ TblGrew (prefEnc a) r.1 ∧
      (match a with | .inl x => r.2 = x.2 | .inr _ => r.2 = OK)) := by
  cases a with
  | inl x =>
    simp only [initSuffix, pure_eq, good_ret, prefEnc, prefExtra]
    exact ⟨by simp, by simp, by simp, by simpa [prefEnc, prefExtra] using Clean.id wf own,
      fun l' hl' y hy => Or.inl ⟨l', hl', hy⟩, trivial⟩
  | inr x =>
    obtain ⟨e1, words⟩ := x
    simp only [prefEnc, prefExtra] at own ⊢
    have hSO : stringsOwned false words.hdr words.cells = bufListOwned (some words) := by
      simp [stringsOwned, bufListOwned, listOwned, strOi_false]
    unfold initSuffix
    simp only [bind_eq, pure_eq]
    refine Good.bind (checkReferences_spec e1 words false s wf (by rw [hSO]; exact own) (fun h => by cases h)) ?_
    intro r s1 ⟨eh, eo, eu, cC, hne, hok, hh, hp⟩
    obtain ⟨e2, ret2, words', oneRef2⟩ := r
    simp only at eh eo eu cC hne hok hh hp ⊢
    have cC : Clean s s1 (e1.owned ++ bufListOwned (some words))
        (e2.owned ++ (bufListOwned words' ++ listOwned StrElt.owned oneRef2)) := by
      rw [hSO] at cC
      cases words' <;> cases oneRef2 <;> simpa [stringsOwned, bufListOwned, listOwned, strOi_false] using cC
    -- the common tail: destroy `one_ref`, return OK
    have hfin : ∀ (t : Ledger), Clean s t (e1.owned ++ bufListOwned (some words)) (e2.owned ++ listOwned StrElt.owned oneRef2) →
        Good ((listDestroy oneRef2 (fun x => strEltDestroy (some x))).bind fun _ => Prog.ret (e2, OK)) t (fun r s' =>
          r.1.hdr = e1.hdr ∧ r.1.output = e1.output ∧ r.1.useStrtbl = e1.useStrtbl ∧
          Clean s s' (e1.owned ++ bufListOwned (some words)) r.1.owned ∧ TblGrew e1 r.1 ∧ r.2 = OK) := by
      intro t ct
      refine Good.bind (listDestroy_spec StrElt.owned _ elt_destroys oneRef2 t ct.wf ct.owns.right) ?_
      intro _ t2 ⟨d, _, _⟩
      simp only [good_ret]
      exact ⟨eh, eo, eu, by simpa using Clean.step_l e2.owned wf ct d, hp, by simp⟩
    split
    · have cC' : Clean s s1 (e1.owned ++ bufListOwned (some words))
          ((e2.owned ++ listOwned StrElt.owned oneRef2) ++ bufListOwned words') := by
        refine cC.prod_perm ?_
        perm_count
      refine Good.bind (listDestroy_spec ABuf.owned _ buf_destroys words' s1 cC.wf cC'.owns.right) ?_
      intro _ s2 ⟨d2, _, _⟩
      exact hfin s2 (by simpa using Clean.step_l (e2.owned ++ listOwned StrElt.owned oneRef2) wf cC' d2)
    · rename_i hret
      have hret' : ret2 = OK := by simpa using hret
      obtain ⟨hw, _⟩ := hok hret'
      subst hw
      exact hfin s1 (by simpa [bufListOwned, listOwned] using cC)

/-! ### `wbxml_strtbl_initialize` -/

theorem strtblInitialize_always (e : AEnc) (texts : List ABuf) :
    Always (strtblInitialize e texts) (fun r => TblInv e → TblInv r.1) := by
  unfold strtblInitialize
  simp only [bind_eq, pure_eq]
  refine Always.seq fun strings => ?_
  cases strings with
  | none => exact Always.ret id
  | some strings =>
    simp only
    refine Always.seq fun strings2 => ?_
    refine Always.bind (checkReferences_always e strings2 true) ?_
    intro r ⟨h1, _⟩
    obtain ⟨e1, ret, strs, oneRef⟩ := r
    simp only at h1 ⊢
    split
    · exact Always.seq fun _ => Always.ret h1
    · cases oneRef with
      | none => exact always_ub _
      | some one =>
        simp only
        refine Always.seq fun r4 => ?_
        obtain ⟨ret4, words⟩ := r4
        simp only
        split
        · exact Always.seq fun _ => Always.ret h1
        · refine Always.seq fun _ => ?_
          cases words with
          | none => exact Always.ret h1
          | some words =>
            simp only
            refine Always.bind (checkReferences_always e1 words false) ?_
            intro r ⟨h2, _⟩
            obtain ⟨e2, ret2, words', oneRef2⟩ := r
            simp only at h2 ⊢
            split
            · exact Always.seq fun _ => Always.seq fun _ => Always.ret fun h => h2 (h1 h)
            · exact Always.seq fun _ => Always.ret fun h => h2 (h1 h)

/-- `wbxml_strtbl_initialize`, for every list of text nodes and every schedule: never a fault; every
    block the run allocates ends up owned by the encoder (in its string table) or is released; the
    text buffers of the tree are only read; the string table stays well-formed (`TblInv`) and only
    gains entries that own their string; and every failed request is reported as an error — except
    the requests of the two places whose failure the code ignores on purpose: the
    `wbxml_list_append` calls of `wbxml_strtbl_collect_strings` (`collectWindow`) and everything the
    second `wbxml_strtbl_check_references` asks for (the requests after `initPrefix`). -/
theorem strtblInitialize_spec (e : AEnc) (texts : List ABuf) (s : Ledger) (wf : s.WF) (own : Owns s e.owned)
    (htx : ∀ t ∈ texts, t.hdr ∈ s.live ∧ t.hdr ∉ e.owned) :
    Good (strtblInitialize e texts) s (fun r s' =>
      r.1.hdr = e.hdr ∧ r.1.output = e.output ∧ r.1.useStrtbl = e.useStrtbl ∧
      Clean s s' e.owned r.1.owned ∧ TblGrew e r.1 ∧ (TblInv e → TblInv r.1) ∧
      (∀ k, s.fails k = true → s.next < k → k ≤ s'.next → ¬ collectWindow texts s k →
        ¬ (run (initPrefix e texts) s).2.next < k → r.2 ≠ OK)) := by
  have hmain : Good (strtblInitialize e texts) s (fun r s' =>
      r.1.hdr = e.hdr ∧ r.1.output = e.output ∧ r.1.useStrtbl = e.useStrtbl ∧
      Clean s s' e.owned r.1.owned ∧ TblGrew e r.1 ∧
      (∀ k, s.fails k = true → s.next < k → k ≤ s'.next → ¬ collectWindow texts s k →
        ¬ (run (initPrefix e texts) s).2.next < k → r.2 ≠ OK)) := ?_
  · exact (hmain.and_always (strtblInitialize_always e texts)).mono
      (fun r s' ⟨⟨a, b, c, d, g, h⟩, i⟩ => ⟨a, b, c, d, g, i, h⟩)
  rw [strtblInitialize_eq]
  refine Good.bind (initPrefix_spec e texts s wf own htx).with_run ?_
  intro a s4 ⟨⟨eh, eo, eu, cP, gP, hrep⟩, hrun⟩
  refine (initSuffix_spec a s4 cP.wf cP.owns).mono ?_
  intro r s5 ⟨fh, fo, fu, cS, gS, hres⟩
  refine ⟨fh.trans eh, fo.trans eo, fu.trans eu, Clean.trans_recycle wf cP cS, gP.trans gS, ?_⟩
  intro k hf a1 a2 hw hk
  rw [hrun] at hk
  obtain ⟨x, hx, hne⟩ := hrep k hf a1 (by simpa using Nat.le_of_not_lt hk) hw
  subst hx
  simp only at hres
  rw [hres]; exact hne

end Wbxml.Model.Alloc
