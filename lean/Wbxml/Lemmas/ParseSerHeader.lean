/-
  `parse_ser`, layer 4: the header. `parseHeader` on `serHeader h ++ body` consumes exactly the
  header, installs the string table, and selects the character set and language the
  specification says the header denotes (numeric identifier, textual identifier through the
  string table, forced language).
-/
import Wbxml.Lemmas.ParseSerBasic
namespace Wbxml.Lemmas.ParseSer
open Wbxml Wbxml.Model Wbxml.Spec

/-! ### Header -/

theorem mb_head (v : Nat) (h0 : 0 < v) (hv : v < 4294967296) : ∃ b r, mb v = b :: r ∧ (b == 0) = false := by
  cases hm : mb v with
  | nil =>
    have := mbLoop_ser v hv []
    rw [hm] at this
    simp [Model.mbLoop] at this
  | cons b r =>
    refine ⟨b, r, rfl, ?_⟩
    by_cases hb : b = 0
    · subst hb
      have := mbLoop_ser v hv []
      rw [hm] at this
      simp [Model.mbLoop] at this
      omega
    · simp [hb]

theorem tblBytes_last (es : List Bytes) (h : tblBytes es ≠ []) : (tblBytes es).getLast? = some 0 := by
  induction es with
  | nil => simp [tblBytes] at h
  | cons e es ih =>
    simp only [tblBytes]
    rw [List.getLast?_append]
    by_cases hes : tblBytes es = []
    · simp [hes]
    · simp [ih hes, List.getLast?_cons]

theorem headerCtx_ok (cfg : PCfg) (h : Header) (l : Lang) (hwf : wfHeader cfg h = true) :
    (headerCtx cfg h l).ok = true := by
  simp only [wfHeader, Bool.and_eq_true, decide_eq_true_eq] at hwf
  simp only [Ctx.ok, headerCtx, Bool.and_eq_true, Bool.or_eq_true, beq_iff_eq]
  refine ⟨decide_eq_true hwf.2, ?_⟩
  by_cases he : tblBytes h.strtbl = []
  · left; simp [he]
  · right; exact tblBytes_last _ he

theorem strtblRef_of (s : PState) (tbl : Bytes) (h1 : s.strtbl = some tbl) (hcs : s.charset = 3 ∨ s.charset = 106)
    (off : Nat) (hoff : off < tbl.length) (hlast : tbl.getLast? = some 0) :
    strtblRef s off = .ok (strAt tbl off) := by
  have hm := zero_mem_drop tbl off hoff hlast
  have hn : ¬ (off ≥ tbl.length) := by omega
  simp only [strtblRef, h1, hn, ↓reduceIte, convTerm_of_mem s.charset hcs _ hm, strAt]
  rfl

/-- `parse_strtbl` on `length *byte` where the octets are a list of terminated entries. -/
theorem parseStrtbl_ser (s : PState) (es : List Bytes) (body : Bytes)
    (hlen : (tblBytes es).length < 4294967296)
    (hs : s.rest = mb (tblBytes es).length ++ (tblBytes es ++ body)) (hnone : s.strtbl = none) :
    parseStrtbl s = Except.ok ({ s with rest := body, strtbl := (if (tblBytes es).isEmpty then none else some (tblBytes es)) } : PState) := by
  simp only [parseStrtbl, hs, mbLoop_ser _ hlen]
  by_cases he : tblBytes es = []
  · simp [he, hnone]
  · have hl : ¬ ((tblBytes es).length = 0) := by simpa using he
    have hl2 : ¬ ((tblBytes es).length > (tblBytes es ++ body).length) := by simp
    have hemp : (tblBytes es).isEmpty = false := by simpa using he
    simp only [beq_iff_eq, hl, ↓reduceIte, hl2, List.take_left, List.drop_left, tblBytes_last es he,
      hemp, Bool.false_eq_true]

/-- `check_public_id` selects what the specification says, for a numeric identifier … -/
theorem checkPublicId_num (cfg : PCfg) (h : Header) (s : PState) (id : Nat) (hp : h.pubid = .num id) :
    checkPublicId cfg s (if (cfg.langForced != 0) = true then publicIdOfLang cfg.main cfg.langForced else id) none =
      headerLang cfg h := by
  unfold checkPublicId headerLang
  by_cases hf : cfg.langForced = 0
  · by_cases h1 : id = 1
    · simp [hf, hp, h1]
    · simp [hf, hp, h1]
  · simp [hf]

/-- … and for a textual identifier in the string table. -/
theorem checkPublicId_str (cfg : PCfg) (h : Header) (s : PState) (idx : Nat) (hp : h.pubid = .str idx)
    (hs1 : s.strtbl = if (tblBytes h.strtbl).isEmpty then none else some (tblBytes h.strtbl))
    (hs2 : s.charset = headerCharset cfg h) (hpub : wfPubid cfg h = true) :
    checkPublicId cfg s (if (cfg.langForced != 0) = true then publicIdOfLang cfg.main cfg.langForced else 1)
      (some idx) = headerLang cfg h := by
  unfold checkPublicId headerLang
  by_cases hf : cfg.langForced = 0
  · simp only [wfPubid, hp, hf, bne_self_eq_false, Bool.false_or, Bool.and_eq_true, decide_eq_true_eq,
      Bool.or_eq_true, beq_iff_eq] at hpub
    obtain ⟨_, hidx, hcs⟩ := hpub
    have hne : tblBytes h.strtbl ≠ [] := by intro e; rw [e] at hidx; simp at hidx
    have hemp : (tblBytes h.strtbl).isEmpty = false := by simpa using hne
    rw [hemp] at hs1
    have href := strtblRef_of s _ hs1 (by rw [hs2]; exact hcs) idx hidx (tblBytes_last _ hne)
    simp [hf, hp, href] <;> congr 1
  · simp [hf]

theorem parseHeader_ser (cfg : PCfg) (h : Header) (hwf : wfHeader cfg h = true) (l : Lang)
    (hl : headerLang cfg h = some l) (body : Bytes) :
    parseHeader cfg (serHeader h ++ body) = .ok (st (headerCtx cfg h l) h.version body 0 0 none, l) := by
  simp only [wfHeader, Bool.and_eq_true, decide_eq_true_eq, Bool.or_eq_true, beq_iff_eq] at hwf
  obtain ⟨⟨⟨hver, hpub⟩, hcs⟩, htl⟩ := hwf
  have hpub' := hpub
  unfold parseHeader
  simp only [serHeader, List.cons_append, List.isEmpty_cons, Bool.false_eq_true, ↓reduceIte, parseU8, bind,
    Except.bind, byte_toNat _ hver, List.append_assoc]
  cases hp : h.pubid
  case' num id =>
    simp only [wfPubid, hp, Bool.and_eq_true, decide_eq_true_eq] at hpub
    obtain ⟨b, r, hbr, hb0⟩ := mb_head id hpub.1 hpub.2
    have hmb := mbLoop_ser id hpub.2 ((if h.version = 0 then [] else mb h.charset) ++
      (mb (List.length (tblBytes h.strtbl)) ++ (tblBytes h.strtbl ++ body)))
    rw [hbr, List.cons_append] at hmb
    simp only [serPubid, hbr, List.cons_append, hb0, Bool.false_eq_true, ↓reduceIte, parseMb, hmb, bind,
      Except.bind, pure, Except.pure]
  case' str idx =>
    simp only [wfPubid, hp, Bool.and_eq_true, decide_eq_true_eq] at hpub
    have hne : (idx == 4294967295) = false := by
      have := hpub.1; simp; omega
    simp only [serPubid, List.cons_append, beq_self_eq_true, ↓reduceIte, parseMb,
      mbLoop_ser idx (by have := hpub.1; omega), bind, Except.bind, pure, Except.pure, hne, Bool.false_eq_true]
  all_goals
    by_cases hv0 : h.version = 0
    · have hcse : headerCharset cfg h = if (cfg.metaCharset != 0) = true then cfg.metaCharset else 106 := by
        simp [headerCharset, hv0]
      simp only [hv0, bne_self_eq_false, Bool.false_eq_true, ↓reduceIte, List.nil_append, beq_self_eq_true]
      rw [parseStrtbl_ser _ h.strtbl body htl rfl rfl]
      simp only []
      first
        | rw [checkPublicId_num cfg h _ _ hp, hl]
        | rw [checkPublicId_str cfg h _ _ hp rfl hcse.symm hpub', hl]
      simp only [headerCtx, hcse]
      rfl
    · have hcs' : h.charset < 4294967296 ∧ cfg.charsets.contains (headerCharset cfg h) = true := by
        rcases hcs with hcs | hcs
        · exact absurd hcs hv0
        · exact hcs
      have hvne : (h.version != 0) = true := by simpa using hv0
      have hcse : (if (h.charset == 0) = true then if (cfg.metaCharset != 0) = true then cfg.metaCharset else 106
          else h.charset) = headerCharset cfg h := by
        by_cases hc0 : h.charset = 0 <;> simp [headerCharset, hv0, hc0]
      have hnz : (headerCharset cfg h == 0) = false := by
        by_cases hc0 : h.charset = 0
        · by_cases hm : cfg.metaCharset = 0 <;> simp [headerCharset, hv0, hc0, hm]
        · simp [headerCharset, hv0, hc0]
      simp only [hv0, hvne, ↓reduceIte, mbLoop_ser h.charset hcs'.1, hcse, hcs'.2, hnz,
        Bool.false_eq_true]
      rw [parseStrtbl_ser _ h.strtbl body htl rfl rfl]
      simp only []
      first
        | rw [checkPublicId_num cfg h _ _ hp, hl]
        | rw [checkPublicId_str cfg h _ _ hp rfl rfl hpub', hl]
      simp only [headerCtx]
      rfl

end Wbxml.Lemmas.ParseSer
