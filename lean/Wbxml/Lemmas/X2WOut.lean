/-
  C02, bounds, encoder half: the WBXML octets `treeToWbxml` produces are linearly bounded by the tree.

  Potential of an encoder state: `wpot st = |output| + declared string-table length + |CDATA buffer|`.
  Every step of the node walk raises it by at most a constant more than the octets the item carries:

    inline string  +2        table reference ≤ 6        opaque ≤ 6 + length
    tag token ≤ 3 (page switch included), literal tag ≤ 6 + its string-table entry (name + 1)
    attribute start likewise, attribute value tokens ≤ 3, extension tokens ≤ 3

  A text of `n` octets that is cut up by value tokens / table references costs at most `8 n + 2`
  (`vpot`: every cut removes at least one octet and adds one token and one string frame), typed
  content (base64, integers, date-times) only shrinks, and the SyncML `+xml` → `+wbxml` label is two
  octets longer. The string table collected before the walk holds only strings of the tree
  (`strtblInitialize_len`). Result: `encNode_pot`, `wpot st' + lsize n ≤ wpot st + 10 * size n + hdr n`.
-/
import Wbxml.Lemmas.X2WSize
import Wbxml.Lemmas.EncWTbl
import Wbxml.Lemmas.EncWHeader

namespace Wbxml.Model

mutual
/-- Size of a sub-tree without the contents of embedded documents (a document node counts 1). -/
def Node.lsize : Node → Nat
  | .elt n a kids => 1 + n.size + attrsSize a + Node.lsizeL kids
  | .text s => 1 + s.length
  | .cdata kids => 1 + Node.lsizeL kids
  | .tree _ _ _ => 1
def Node.lsizeL : List Node → Nat
  | [] => 0
  | n :: rest => n.lsize + Node.lsizeL rest
end

mutual
/-- Sum of `w lang` over the embedded documents of a sub-tree (at every depth). -/
def Node.hdr (w : Option Lang → Nat) : Node → Nat
  | .elt _ _ kids => Node.hdrL w kids
  | .text _ => 0
  | .cdata kids => Node.hdrL w kids
  | .tree l _ none => w l
  | .tree l _ (some r) => w l + r.hdr w
def Node.hdrL (w : Option Lang → Nat) : List Node → Nat
  | [] => 0
  | n :: rest => n.hdr w + Node.hdrL w rest
end

def Tree.hdr (w : Option Lang → Nat) (t : Tree) : Nat := (Node.tree t.lang t.origCharset t.root).hdr w

/-- Octets of a language's XML public identifier. -/
def pubLen (l : Lang) : Nat := (l.pub.xmlId.getD []).length

/-- What one document costs besides its nodes: header (version, public id, charset, table length:
    ≤ 14 octets with the terminator of a textual id), the public identifier text, and the OPAQUE
    frame of an embedded document (≤ 6). -/
def docW : Option Lang → Nat
  | some l => pubLen l + 20
  | none => 20

end Wbxml.Model

namespace Wbxml.Lemmas.X2W
open Wbxml Wbxml.Model Wbxml.Lemmas.ParserSafe
open Wbxml.Model.Codec (mbEncode b64DecodeE)
open Wbxml.Model.Typed (encodeDatetime encodeWvInt encodeWvDate wvEncKind WvKind WvItem)

/-! ### The measures -/

mutual
theorem sizeW_eq (w : Option Lang → Nat) : ∀ (n : Node), n.sizeW w = n.size + n.hdr w
  | .elt name a kids => by
    have := sizeWL_eq w kids
    simp only [Node.size, Node.sizeL, Node.sizeW, Node.hdr] at this ⊢
    omega
  | .text s => by simp [Node.size, Node.sizeW, Node.hdr]
  | .cdata kids => by
    have := sizeWL_eq w kids
    simp only [Node.size, Node.sizeL, Node.sizeW, Node.hdr] at this ⊢
    omega
  | .tree l cs none => by simp [Node.size, Node.sizeW, Node.hdr]
  | .tree l cs (some r) => by
    have := sizeW_eq w r
    simp only [Node.size, Node.sizeW, Node.hdr] at this ⊢
    omega
theorem sizeWL_eq (w : Option Lang → Nat) : ∀ (l : List Node), Node.sizeWL w l = Node.sizeL l + Node.hdrL w l
  | [] => by simp [Node.sizeL, Node.sizeWL, Node.hdrL]
  | n :: rest => by
    have h1 := sizeW_eq w n
    have h2 := sizeWL_eq w rest
    simp only [Node.size, Node.sizeL, Node.sizeWL, Node.hdrL] at h1 h2 ⊢
    omega
end

mutual
theorem lsize_le : ∀ (n : Node), n.lsize ≤ n.size
  | .elt name a kids => by
    have := lsizeL_le kids
    simp only [Node.size, Node.sizeL, Node.sizeW, Node.lsize] at this ⊢
    omega
  | .text s => by simp [Node.size, Node.sizeW, Node.lsize]
  | .cdata kids => by
    have := lsizeL_le kids
    simp only [Node.size, Node.sizeL, Node.sizeW, Node.lsize] at this ⊢
    omega
  | .tree l cs none => by simp only [Node.size, Node.sizeW, Node.lsize]; omega
  | .tree l cs (some r) => by simp only [Node.size, Node.sizeW, Node.lsize]; omega
theorem lsizeL_le : ∀ (l : List Node), Node.lsizeL l ≤ Node.sizeL l
  | [] => by simp [Node.sizeL, Node.sizeWL, Node.lsizeL]
  | n :: rest => by
    have h1 := lsize_le n
    have h2 := lsizeL_le rest
    simp only [Node.size, Node.sizeL, Node.sizeWL, Node.lsizeL] at h1 h2 ⊢
    omega
end

theorem size_elt (name : Name) (a : List Attr) (kids : List Node) :
    (Node.elt name a kids).size = 1 + name.size + attrsSize a + Node.sizeL kids := by
  simp [Node.size, Node.sizeL, Node.sizeW]
theorem size_text (s : Bytes) : (Node.text s).size = 1 + s.length := by simp [Node.size, Node.sizeW]
theorem size_cdata (kids : List Node) : (Node.cdata kids).size = 1 + Node.sizeL kids := by
  simp [Node.size, Node.sizeL, Node.sizeW]
theorem size_tree_some (l : Option Lang) (cs : Nat) (r : Node) : (Node.tree l cs (some r)).size = 1 + r.size := by
  simp [Node.size, Node.sizeW]
theorem size_tree_none (l : Option Lang) (cs : Nat) : (Node.tree l cs none).size = 1 := by
  simp [Node.size, Node.sizeW]
theorem sizeL_cons (n : Node) (rest : List Node) : Node.sizeL (n :: rest) = n.size + Node.sizeL rest := by
  simp [Node.size, Node.sizeL, Node.sizeWL]
theorem sizeL_nil : Node.sizeL [] = 0 := rfl

/-! ### Emission primitives -/

/-- Potential of an encoder state. -/
def wpot (st : WSt) : Nat := st.out.length + st.strtblLen + contentLen st.cdata

theorem mbEncodeLoop_length : ∀ (s v : Nat) (acc : Bytes), (Codec.mbEncodeLoop s v acc).length ≤ s + acc.length
  | 0, v, acc => by simp [Codec.mbEncodeLoop]
  | s + 1, v, acc => by
    unfold Codec.mbEncodeLoop
    split
    · have := mbEncodeLoop_length s (v / 128) (UInt8.ofNat (0x80 ||| v % 128) :: acc)
      simp only [List.length_cons] at this
      omega
    · omega

theorem mbEncode_length (n : Nat) : (mbEncode n).length ≤ 5 := by
  unfold Codec.mbEncode
  have := mbEncodeLoop_length 4 (n % 2 ^ 32 / 128) [UInt8.ofNat (n % 2 ^ 32 % 128)]
  simpa using this

theorem opaqueW_length (d : Bytes) : (opaqueW d).length ≤ 6 + d.length := by
  have := mbEncode_length d.length
  simp only [opaqueW, List.length_cons, List.length_append]
  omega

theorem inlineW_length (s : Bytes) : (inlineW s).length = s.length + 2 := by
  simp [inlineW]

theorem tablerefW_length (o : Nat) : (tablerefW o).length ≤ 6 := by
  have := mbEncode_length o
  simp only [tablerefW, List.length_cons]
  omega

theorem extW_length (t : Nat) : (extW t).length ≤ 6 := by
  have := mbEncode_length (t % 256)
  simp only [extW, List.length_cons]
  omega

theorem wpot_emit (st : WSt) (bs : Bytes) : wpot (st.emit bs) = wpot st + bs.length := by
  simp only [wpot, WSt.emit, List.length_append]
  omega

theorem attrTokenW_pot (t p : Nat) (st : WSt) : wpot (attrTokenW t p st) ≤ wpot st + 3 := by
  unfold attrTokenW
  split
  · simp only [wpot, WSt.emit, List.length_append, List.length_cons, List.length_nil]; omega
  · simp only [wpot, WSt.emit, List.length_append, List.length_cons, List.length_nil]; omega

theorem tagTokenW_pot (t p : Nat) (st : WSt) : wpot (tagTokenW t p st) ≤ wpot st + 3 := by
  unfold tagTokenW
  split
  · simp only [wpot, WSt.emit, List.length_append, List.length_cons, List.length_nil]; omega
  · simp only [wpot, WSt.emit, List.length_append, List.length_cons, List.length_nil]; omega

theorem strtblAdd_pot (st : WSt) (s : Bytes) (a : Option Nat) :
    wpot (strtblAdd st s a).1 ≤ wpot st + s.length + 1 := by
  unfold strtblAdd
  split
  · simp only; omega
  · simp only [wpot]; omega

theorem aliasWrite_pot (st : WSt) (k : Nat) (s : Bytes) : wpot (st.aliasWrite k s) = wpot st := rfl

/-! ### Value elements -/

/-- What a value element may still cost: a string of `n` octets at most `8 n + 2` (each cut removes
    an octet and adds a token of ≤ 6 octets and a string frame of 2), a token at most 6. -/
def vpot : VElt → Nat
  | .str s => 8 * s.length + 2
  | _ => 6

def vpotL : List VElt → Nat
  | [] => 0
  | e :: r => vpot e + vpotL r

theorem vpot_str (s : Bytes) : vpot (.str s) = 8 * s.length + 2 := rfl

theorem vpotL_append : ∀ (a b : List VElt), vpotL (a ++ b) = vpotL a + vpotL b
  | [], b => by simp [vpotL]
  | e :: a, b => by simp only [List.cons_append, vpotL, vpotL_append a b]; omega

theorem emitVElt_pot (st : WSt) (e : VElt) : wpot (emitVElt st e) ≤ wpot st + vpot e := by
  cases e with
  | str s =>
    simp only [emitVElt, vpot]
    split
    · rw [wpot_emit, inlineW_length]; omega
    · omega
  | ref o =>
    simp only [emitVElt, vpot]
    rw [wpot_emit]
    have := tablerefW_length o
    omega
  | ext r =>
    simp only [emitVElt, vpot]
    rw [wpot_emit]
    have := extW_length r.token
    omega
  | tok r =>
    simp only [emitVElt, vpot]
    have := attrTokenW_pot r.token r.page st
    omega

theorem emitVElts_pot : ∀ (l : List VElt) (st : WSt), wpot (emitVElts st l) ≤ wpot st + vpotL l
  | [], st => by simp [emitVElts, vpotL]
  | e :: r, st => by
    have h1 := emitVElt_pot st e
    have h2 := emitVElts_pot r (emitVElt st e)
    unfold emitVElts at h2 ⊢
    simp only [List.foldl_cons, vpotL]
    omega

/-- **One search pass never raises the potential** (non-empty needle). -/
theorem splitPass_pot (needle : Bytes) (mk : VElt) (hn : needle ≠ []) (hmk : vpot mk ≤ 6) :
    ∀ (f : Nat) (done l res : List VElt), splitPass needle mk f done l = .ok res →
      vpotL res ≤ vpotL done + vpotL l := by
  have hlen : 1 ≤ needle.length := by
    cases needle with
    | nil => exact absurd rfl hn
    | cons _ _ => simp
  intro f
  induction f with
  | zero => intro done l res h; simp [splitPass] at h
  | succ f ih =>
    intro done l res h
    cases l with
    | nil =>
      simp only [splitPass] at h
      injection h with h
      subst h
      simp [vpotL]
    | cons e rest =>
      cases e with
      | str s =>
        simp only [splitPass] at h
        split at h
        · have := ih _ _ _ h
          simp only [vpotL_append, vpotL] at this ⊢
          omega
        · rename_i idx hfind
          obtain ⟨k, hk, hkl, _⟩ := Wbxml.Lemmas.EncW.findSub_spec needle s 0 idx hfind
          have hidx : idx + needle.length ≤ s.length := by omega
          split at h
          · rename_i hlt
            have hp : ptrAdd "value element remainder" s (idx + needle.length) = .ok (s.drop (idx + needle.length)) := by
              simp [ptrAdd, Nat.le_of_lt hlt]
            simp only [hp, bind, Except.bind] at h
            have := ih _ _ _ h
            have ht : (s.take idx).length = idx := by rw [List.length_take]; omega
            simp only [vpotL_append, vpotL, vpot_str, ht, List.length_drop] at this ⊢
            omega
          · have := ih _ _ _ h
            have ht : (s.take idx).length = idx := by rw [List.length_take]; omega
            simp only [vpotL_append, vpotL, vpot_str, ht] at this ⊢
            omega
      | ext r =>
        simp only [splitPass] at h
        have := ih _ _ _ h
        simp only [vpotL_append, vpotL] at this ⊢
        omega
      | tok r =>
        simp only [splitPass] at h
        have := ih _ _ _ h
        simp only [vpotL_append, vpotL] at this ⊢
        omega
      | ref o =>
        simp only [splitPass] at h
        have := ih _ _ _ h
        simp only [vpotL_append, vpotL] at this ⊢
        omega

theorem splitByValues_pot : ∀ (rows : List ValRow) (l res : List VElt), (∀ r ∈ rows, r.name ≠ []) →
    splitByValues rows l = .ok res → vpotL res ≤ vpotL l
  | [], l, res, _, h => by
    simp only [splitByValues] at h
    injection h with h; subst h; exact Nat.le_refl _
  | r :: rs, l, res, hr, h => by
    simp only [splitByValues] at h
    obtain ⟨l1, h1, h2⟩ := Wbxml.Lemmas.EncW.bind_ok' h
    have a := splitPass_pot r.name (.tok r) (hr r (by simp)) (by simp [vpot]) _ _ _ _ h1
    have b := splitByValues_pot rs l1 res (fun x hx => hr x (by simp [hx])) h2
    simp only [vpotL] at a
    omega

theorem splitByStrtbl_pot : ∀ (es : List StrEntry) (l res : List VElt), (∀ e ∈ es, e.str ≠ []) →
    splitByStrtbl es l = .ok res → vpotL res ≤ vpotL l
  | [], l, res, _, h => by
    simp only [splitByStrtbl] at h
    injection h with h; subst h; exact Nat.le_refl _
  | e :: es, l, res, hr, h => by
    simp only [splitByStrtbl] at h
    obtain ⟨l1, h1, h2⟩ := Wbxml.Lemmas.EncW.bind_ok' h
    have a := splitPass_pot e.str (.ref e.offset) (hr e (by simp)) (by simp [vpot]) _ _ _ _ h1
    have b := splitByStrtbl_pot es l1 res (fun x hx => hr x (by simp [hx])) h2
    simp only [vpotL] at a
    omega

theorem extPass_pot (r : ExtRow) : ∀ (l : List VElt), vpotL (extPass r l) ≤ vpotL l
  | [] => by simp [extPass, vpotL]
  | e :: rest => by
    have ih := extPass_pot r rest
    unfold extPass at ih ⊢
    simp only [List.flatMap_cons, vpotL_append, vpotL]
    cases e with
    | str s =>
      simp only
      split
      · rename_i hc
        simp only [Bool.and_eq_true, decide_eq_true_eq, beq_iff_eq] at hc
        rw [hc.2]
        simp only [vpotL, vpot, List.length_nil]
        omega
      · simp only [vpotL]; omega
    | ext _ => simp only [vpotL]; omega
    | tok _ => simp only [vpotL]; omega
    | ref _ => simp only [vpotL]; omega

theorem splitByExts_pot : ∀ (exts : List ExtRow) (l : List VElt), vpotL (splitByExts exts l) ≤ vpotL l
  | [], l => by simp [splitByExts]
  | r :: rs, l => by
    have h1 := extPass_pot r l
    have h2 := splitByExts_pot rs (extPass r l)
    unfold splitByExts at h2 ⊢
    simp only [List.foldl_cons]
    omega

/-! ### Typed content only shrinks -/

theorem mbLoop_length : ∀ (k v : Nat) (acc : Bytes), (Typed.mbLoop k v acc).length ≤ k + acc.length
  | 0, v, acc => by simp [Typed.mbLoop]
  | k + 1, v, acc => by
    unfold Typed.mbLoop
    split
    · have := mbLoop_length k (v / 128) (UInt8.ofNat (0x80 + v % 128) :: acc)
      simp only [List.length_cons] at this
      omega
    · omega

theorem opaqueItem_length (p : Bytes) : (Typed.opaqueItem p).length ≤ 6 + p.length := by
  have := mbLoop_length 4 (p.length / 128) [UInt8.ofNat (p.length % 128)]
  simp only [Typed.opaqueItem, Typed.mbEnc, List.length_cons, List.length_append, List.length_nil] at this ⊢
  omega

theorem dtFilter_length : ∀ (s d : Bytes), Typed.dtFilter s = .ok d → d.length ≤ s.length
  | [], d, h => by simp only [Typed.dtFilter] at h; injection h with h; subst h; simp
  | c :: cs, d, h => by
    unfold Typed.dtFilter at h
    split at h
    · cases hr : Typed.dtFilter cs with
      | error e => rw [hr] at h; cases h
      | ok r =>
        rw [hr] at h
        simp only [Except.map] at h
        injection h with h
        subst h
        have := dtFilter_length cs r hr
        simp only [List.length_cons]
        omega
    · split at h
      · have := dtFilter_length cs d h
        simp only [List.length_cons]
        omega
      · cases h

theorem hexPairs_length : ∀ (d : Bytes), (Typed.hexPairs d).length ≤ d.length
  | [] => by simp [Typed.hexPairs]
  | [_] => by simp [Typed.hexPairs]
  | a :: b :: rest => by
    have := hexPairs_length rest
    simp only [Typed.hexPairs, List.length_cons]
    omega

theorem stripZeros_length (bs : Bytes) : (Typed.stripZeros bs).length ≤ bs.length := by
  unfold Typed.stripZeros
  have := (List.dropWhile_sublist (l := bs.reverse) (fun x => x == 0)).length_le
  simpa using this

/-- SI / EMN `%Datetime`: an OPAQUE of at most half the digits. -/
theorem encodeDatetime_length (s item : Bytes) (h : encodeDatetime s = .ok item) : item.length ≤ 6 + s.length := by
  unfold encodeDatetime Typed.datetimePayload at h
  cases hd : Typed.dtFilter s with
  | error e => rw [hd] at h; cases h
  | ok d =>
    rw [hd] at h
    simp only [Except.map] at h
    injection h with h
    subst h
    have h1 := dtFilter_length s d hd
    have h2 := hexPairs_length d
    have h3 := stripZeros_length (Typed.hexPairs d)
    have h4 := opaqueItem_length (Typed.stripZeros (Typed.hexPairs d))
    omega

theorem beLoop_length : ∀ (k v : Nat) (acc : Bytes), (Typed.beLoop k v acc).length ≤ k + acc.length
  | 0, v, acc => by simp [Typed.beLoop]
  | k + 1, v, acc => by
    unfold Typed.beLoop
    split
    · have := beLoop_length k (v / 256) (UInt8.ofNat (v % 256) :: acc)
      simp only [List.length_cons] at this
      omega
    · omega

/-- Wireless-Village integer: an OPAQUE of at most four octets. -/
theorem encodeWvInt_length (s item : Bytes) (h : encodeWvInt s = .ok (some item)) : item.length ≤ 10 := by
  unfold encodeWvInt at h
  split at h
  · cases h
  · rename_i v _
    split at h
    · cases h
    · injection h with h
      injection h with h
      subst h
      have h1 := beLoop_length 4 v []
      have h2 := opaqueItem_length (Typed.wvIntOctets v)
      unfold Typed.wvIntOctets at h2 ⊢
      simp only [List.length_nil] at h1
      omega

theorem wvPack_length (y m d h mi s : Nat) (z : UInt8) : (Typed.wvPack y m d h mi s z).length = 6 := by
  simp [Typed.wvPack, Typed.wvOctets]

theorem wvDateOpaque_shape (s : Bytes) (item : WvItem) (h : Typed.wvDateOpaque s = .ok item) :
    item = .inline s ∨ ∃ p, item = .opaque p ∧ p.length = 6 := by
  unfold Typed.wvDateOpaque at h
  extract_lets len0 tmp len zr at h
  split at h
  · cases h
  · split at h
    · cases h
    · cases hz : zr with
      | error e => rw [hz] at h; cases h
      | ok p =>
        obtain ⟨zone, t1⟩ := p
        rw [hz] at h
        simp only at h
        split at h
        · cases h
        · split at h
          · injection h with h; exact Or.inl h.symm
          · injection h with h
            exact Or.inr ⟨_, h.symm, wvPack_length _ _ _ _ _ _ _⟩

/-- Wireless-Village date-time: the text itself inline, or a six-octet OPAQUE. -/
theorem encodeWvDate_length (s : Bytes) (item : WvItem) (h : encodeWvDate s = .ok item) :
    item.bytes.length ≤ s.length + 12 := by
  unfold encodeWvDate at h
  split at h
  · cases h
  · have hshape : item = .inline s ∨ ∃ p, item = .opaque p ∧ p.length = 6 := by
      split at h
      · injection h with h; exact Or.inl h.symm
      · exact wvDateOpaque_shape s item h
    rcases hshape with rfl | ⟨p, rfl, hp⟩
    · simp [WvItem.bytes, Typed.strItem]
    · have := opaqueItem_length p
      simp only [WvItem.bytes]
      omega

theorem b64TextW_length (s : Bytes) : (b64TextW s).length ≤ s.length := by
  unfold b64TextW
  exact List.length_filter_le _ _

theorem cstrOf_length (s : Bytes) : (cstrOf s).length ≤ s.length := by
  unfold cstrOf
  simp only [List.length_take]
  omega

theorem stripBlanks_length (s : Bytes) : (stripBlanks s).length ≤ s.length := by
  unfold stripBlanks
  have h1 := (List.dropWhile_sublist (l := s) isSpaceC).length_le
  have h2 := (List.dropWhile_sublist (l := (s.dropWhile isSpaceC).reverse) isSpaceC).length_le
  simp only [List.length_reverse] at h2 ⊢
  omega

theorem caseEq_length (a b : Bytes) (h : caseEq a b = true) : a.length = b.length := by
  unfold caseEq at h
  have := congrArg List.length (eq_of_beq h)
  simpa using this

/-- The SyncML media-type relabelling adds two octets to a text of 32 / 33 octets. -/
theorem syncmlTypeText_pot (id : Nat) (s : Bytes) : 8 * (syncmlTypeText id s).length + 2 ≤ 9 * s.length + 9 := by
  unfold syncmlTypeText
  split
  · simp only
    split
    · rename_i h2
      have := caseEq_length _ _ h2
      have e1 : (b!"application/vnd.syncml.dmtnds+xml").length = 33 := by decide
      have e2 : (b!"application/vnd.syncml.dmtnds+wbxml").length = 35 := by decide
      rw [e2]
      rw [e1] at this
      omega
    · split
      · rename_i h1
        have := caseEq_length _ _ h1
        have e1 : (b!"application/vnd.syncml-devinf+xml").length = 33 := by decide
        have e2 : (b!"application/vnd.syncml-devinf+wbxml").length = 35 := by decide
        rw [e2]
        rw [e1] at this
        omega
      · omega
  · omega

/-! ### Values -/

theorem otaIconW_pot (na : Option (List Attr)) (s : Bytes) (st st' : WSt) (h : otaIconW na s st = .ok (some st')) :
    wpot st' ≤ wpot st + 6 + s.length := by
  unfold otaIconW at h
  split at h
  · split at h
    · obtain ⟨d, hd, h⟩ := Wbxml.Lemmas.EncW.bind_ok' h
      have h := Wbxml.Lemmas.EncW.ok_inj h
      injection h with h
      subst h
      have h1 := b64DecodeE_length _ _ hd
      have h2 := b64TextW_length s
      have h3 := opaqueW_length d
      rw [wpot_emit]
      omega
    · cases h
  · cases h

theorem attrSpecialW_pot (c : WCfg) (na : Option (List Attr)) (s : Bytes) (st st' : WSt)
    (h : attrSpecialW c na s st = .ok (some st')) : wpot st' ≤ wpot st + 6 + s.length := by
  have hdt : ∀ (x : Except Err (Option WSt)),
      x = (do let item ← encodeDatetime s; pure (some (st.emit item))) → x = .ok (some st') →
      wpot st' ≤ wpot st + 6 + s.length := by
    intro x hx h
    rw [hx] at h
    obtain ⟨item, hi, h⟩ := Wbxml.Lemmas.EncW.bind_ok' h
    have h := Wbxml.Lemmas.EncW.ok_inj h
    injection h with h
    subst h
    have := encodeDatetime_length s item hi
    rw [wpot_emit]
    omega
  unfold attrSpecialW at h
  split at h
  · split at h
    · cases h
    · split at h
      · exact hdt _ rfl h
      · cases h
  · split at h
    · split at h
      · cases h
      · split at h
        · exact hdt _ rfl h
        · cases h
    · split at h
      · split at h
        · cases h
        · split at h
          · exact otaIconW_pot na s st st' h
          · cases h
      · cases h

theorem encAttrValueW_pot (c : WCfg) (hc : CfgOk c) (na : Option (List Attr)) (s : Bytes) (st st' : WSt)
    (hst : StOk st) (h : encAttrValueW c na s st = .ok st') : wpot st' ≤ wpot st + 8 * s.length + 2 := by
  unfold encAttrValueW at h
  split at h
  · have h := Wbxml.Lemmas.EncW.ok_inj h
    subst h; omega
  · rename_i hs
    have hs1 : 1 ≤ s.length := by
      cases s with
      | nil => simp at hs
      | cons _ _ => simp
    obtain ⟨r, hr, h⟩ := Wbxml.Lemmas.EncW.bind_ok' h
    cases r with
    | some st1 =>
      have h := Wbxml.Lemmas.EncW.ok_inj h
      subst h
      have := attrSpecialW_pot c na s st st1 hr
      omega
    | none =>
      simp only at h
      obtain ⟨l1, h1, h⟩ := Wbxml.Lemmas.EncW.bind_ok' h
      obtain ⟨l2, h2, h⟩ := Wbxml.Lemmas.EncW.bind_ok' h
      have h := Wbxml.Lemmas.EncW.ok_inj h
      subst h
      have a1 : vpotL l1 ≤ vpotL [VElt.str s] := by
        split at h1
        · rename_i vals hv
          exact splitByValues_pot vals _ _ (fun r hr => langNames_values hc.names hv hr) h1
        · have h1 := Wbxml.Lemmas.EncW.ok_inj h1
          subst h1; exact Nat.le_refl _
      have a2 : vpotL l2 ≤ vpotL l1 := by
        split at h2
        · exact splitByStrtbl_pot _ _ _ (fun e he => (hst e he).2) h2
        · have h2 := Wbxml.Lemmas.EncW.ok_inj h2
          subst h2; exact Nat.le_refl _
      have a3 := emitVElts_pot l2 st
      simp only [vpotL, vpot] at a1
      omega

theorem wvContentW_pot (c : WCfg) (s : Bytes) (st st' : WSt) (h : wvContentW c s st = .ok (some st')) :
    wpot st' ≤ wpot st + s.length + 12 := by
  unfold wvContentW at h
  simp only at h
  split at h
  · obtain ⟨r, hr, h⟩ := Wbxml.Lemmas.EncW.bind_ok' h
    cases r with
    | some item =>
      have h := Wbxml.Lemmas.EncW.ok_inj h
      injection h with h
      subst h
      have := encodeWvInt_length s item hr
      rw [wpot_emit]
      omega
    | none =>
      have h := Wbxml.Lemmas.EncW.ok_inj h
      cases h
  · obtain ⟨item, hi, h⟩ := Wbxml.Lemmas.EncW.bind_ok' h
    have h := Wbxml.Lemmas.EncW.ok_inj h
    injection h with h
    subst h
    have := encodeWvDate_length s item hi
    rw [wpot_emit]
    omega
  · split at h
    · cases h
    · split at h
      · rename_i r _
        have h := Wbxml.Lemmas.EncW.ok_inj h
        injection h with h
        subst h
        have := extW_length r.token
        rw [wpot_emit]
        omega
      · cases h

theorem drmrelContentW_pot (parent : Option Name) (s : Bytes) (st st' : WSt)
    (h : drmrelContentW parent s st = .ok (some st')) : wpot st' ≤ wpot st + 6 + s.length := by
  unfold drmrelContentW at h
  split at h
  · split at h
    · obtain ⟨d, hd, h⟩ := Wbxml.Lemmas.EncW.bind_ok' h
      have h := Wbxml.Lemmas.EncW.ok_inj h
      injection h with h
      subst h
      have h1 := b64DecodeE_length _ _ hd
      have h2 := b64TextW_length s
      have h3 := opaqueW_length d
      rw [wpot_emit]
      omega
    · cases h
  · cases h

/-- **Content text**: at most `9 n + 9` for `n` octets. -/
theorem encContentValueW_pot (c : WCfg) (parent : Option Name) (s : Bytes) (st st' : WSt) (hst : StOk st)
    (h : encContentValueW c parent s st = .ok st') : wpot st' ≤ wpot st + 9 * s.length + 9 := by
  unfold encContentValueW at h
  split at h
  · have h := Wbxml.Lemmas.EncW.ok_inj h
    subst h; omega
  · rename_i hs
    have hs1 : 1 ≤ s.length := by
      cases s with
      | nil => simp at hs
      | cons _ _ => simp
    obtain ⟨r1, hr1, h⟩ := Wbxml.Lemmas.EncW.bind_ok' h
    cases r1 with
    | some st1 =>
      have h := Wbxml.Lemmas.EncW.ok_inj h
      subst h
      split at hr1
      · have := wvContentW_pot c s st st1 hr1
        omega
      · have hr1 := Wbxml.Lemmas.EncW.ok_inj hr1
        cases hr1
    | none =>
      simp only at h
      obtain ⟨r2, hr2, h⟩ := Wbxml.Lemmas.EncW.bind_ok' h
      cases r2 with
      | some st2 =>
        have h := Wbxml.Lemmas.EncW.ok_inj h
        subst h
        split at hr2
        · have := drmrelContentW_pot parent s st st2 hr2
          omega
        · have hr2 := Wbxml.Lemmas.EncW.ok_inj hr2
          cases hr2
      | none =>
        simp only at h
        obtain ⟨l2, h2, h⟩ := Wbxml.Lemmas.EncW.bind_ok' h
        have h := Wbxml.Lemmas.EncW.ok_inj h
        subst h
        have a0 := syncmlTypeText_pot c.lang.id s
        have a1 : ∀ l0, l0 = (match c.lang.exts with
            | some exts => splitByExts exts [VElt.str (syncmlTypeText c.lang.id s)]
            | none => [VElt.str (syncmlTypeText c.lang.id s)]) →
            vpotL l0 ≤ vpotL [VElt.str (syncmlTypeText c.lang.id s)] := by
          intro l0 e
          subst e
          split
          · exact splitByExts_pot _ _
          · exact Nat.le_refl _
        have a1 := a1 _ rfl
        have a2 : vpotL l2 ≤ vpotL (match c.lang.exts with
            | some exts => splitByExts exts [VElt.str (syncmlTypeText c.lang.id s)]
            | none => [VElt.str (syncmlTypeText c.lang.id s)]) := by
          split at h2
          · exact splitByStrtbl_pot _ _ _ (fun e he => (hst e he).2) h2
          · have h2 := Wbxml.Lemmas.EncW.ok_inj h2
            subst h2; exact Nat.le_refl _
        have a3 := emitVElts_pot l2 st
        simp only [vpotL, vpot] at a1
        omega

/-! ### Attributes -/

theorem attrLiteralW_pot (c : WCfg) (name : Bytes) (st st' : WSt) (h : attrLiteralW c name st = .ok st') :
    wpot st' ≤ wpot st + name.length + 7 := by
  rw [Wbxml.Lemmas.EncW.attrLiteralW_eq] at h
  split at h
  · injection h with h
    subst h
    have h1 := strtblAdd_pot st name none
    have h2 := mbEncode_length (strtblAdd st name none).2
    rw [wpot_emit]
    simp only [List.length_cons]
    omega
  · cases h

theorem attrStartW_pot (c : WCfg) (a : Attr) (v : Bytes) (st st' : WSt) (rest : Option Bytes)
    (h : attrStartW c a v st = .ok (rest, st')) :
    wpot st' ≤ wpot st + a.name.size + 7 ∧ ∀ r, rest = some r → r.length ≤ v.length := by
  unfold attrStartW at h
  split at h
  · rename_i r hname
    simp only at h
    split at h
    · have h := Wbxml.Lemmas.EncW.ok_inj h
      injection h with e1 e2
      subst e1 e2
      have := attrTokenW_pot r.token r.page { st with curAttr := some r }
      refine ⟨?_, fun r' hr' => by injection hr' with hr'; subst hr'; exact Nat.le_refl _⟩
      have e : wpot ({ st with curAttr := some r } : WSt) = wpot st := rfl
      omega
    · rename_i p _
      split at h
      · split at h
        · obtain ⟨rest1, hp, h⟩ := Wbxml.Lemmas.EncW.bind_ok' h
          have h := Wbxml.Lemmas.EncW.ok_inj h
          injection h with e1 e2
          subst e1 e2
          have := attrTokenW_pot r.token r.page { st with curAttr := some r }
          have e : wpot ({ st with curAttr := some r } : WSt) = wpot st := rfl
          refine ⟨by omega, fun r' hr' => ?_⟩
          injection hr' with hr'
          subst hr'
          unfold ptrAdd at hp
          split at hp
          · injection hp with hp; subst hp; simp only [List.length_drop]; omega
          · cases hp
        · have h := Wbxml.Lemmas.EncW.ok_inj h
          injection h with e1 e2
          subst e1 e2
          have := attrTokenW_pot r.token r.page { st with curAttr := some r }
          have e : wpot ({ st with curAttr := some r } : WSt) = wpot st := rfl
          exact ⟨by omega, fun r' hr' => by cases hr'⟩
      · obtain ⟨st1, hl, h⟩ := Wbxml.Lemmas.EncW.bind_ok' h
        have h := Wbxml.Lemmas.EncW.ok_inj h
        injection h with e1 e2
        subst e1 e2
        have := attrLiteralW_pot c r.name _ _ hl
        refine ⟨?_, fun r' hr' => by injection hr' with hr'; subst hr'; exact Nat.le_refl _⟩
        simp only [hname, AName.size, wpot] at this ⊢
        omega
  · rename_i sname hname
    simp only at h
    split at h
    · obtain ⟨st1, hl, h⟩ := Wbxml.Lemmas.EncW.bind_ok' h
      have h := Wbxml.Lemmas.EncW.ok_inj h
      injection h with e1 e2
      subst e1 e2
      have hlit := attrLiteralW_pot c (cstrOf sname) _ _ hl
      have := cstrOf_length sname
      refine ⟨?_, fun r' hr' => by injection hr' with hr'; subst hr'; exact Nat.le_refl _⟩
      simp only [hname, AName.size, wpot] at hlit ⊢
      omega
    · rename_i r _
      have h := Wbxml.Lemmas.EncW.ok_inj h
      injection h with e1 e2
      subst e1 e2
      have := attrTokenW_pot r.token r.page { st with curAttr := some r }
      have e : wpot ({ st with curAttr := some r } : WSt) = wpot st := rfl
      exact ⟨by omega, fun r' hr' => by cases hr'⟩
    · rename_i r comp _
      obtain ⟨rest1, hp, h⟩ := Wbxml.Lemmas.EncW.bind_ok' h
      have h := Wbxml.Lemmas.EncW.ok_inj h
      injection h with e1 e2
      subst e1 e2
      have := attrTokenW_pot r.token r.page { st with curAttr := some r }
      have e : wpot ({ st with curAttr := some r } : WSt) = wpot st := rfl
      refine ⟨by omega, fun r' hr' => ?_⟩
      injection hr' with hr'
      subst hr'
      unfold ptrAdd at hp
      split at hp
      · injection hp with hp; subst hp; simp only [List.length_drop]; omega
      · cases hp

/-- **One attribute**: at most nine octets per unit of its size. -/
theorem encAttrW_pot (c : WCfg) (hc : CfgOk c) (na : Option (List Attr)) (a : Attr) (ha : anameOk a.name = true)
    (st st' : WSt) (hst : StOk st) (h : encAttrW c na a st = .ok st') : wpot st' ≤ wpot st + 9 * a.size := by
  have hok := attrStartW_ok c hc a ha (cstrOf a.value) st hst
  unfold encAttrW at h
  split at h
  · have h := Wbxml.Lemmas.EncW.ok_inj h
    subst h; omega
  · obtain ⟨p, hp, h⟩ := Wbxml.Lemmas.EncW.bind_ok' h
    obtain ⟨rest, st1⟩ := p
    have hst1 : StOk st1 := (hok.of_ok hp).1
    obtain ⟨h1, h2⟩ := attrStartW_pot c a (cstrOf a.value) st st1 rest hp
    have hv := cstrOf_length a.value
    simp only at h
    obtain ⟨st2, hv2, h⟩ := Wbxml.Lemmas.EncW.bind_ok' h
    have h := Wbxml.Lemmas.EncW.ok_inj h
    subst h
    have e : wpot ({ st2 with curAttr := none } : WSt) = wpot st2 := rfl
    rw [e]
    simp only [Attr.size]
    cases rest with
    | none =>
      have hv2 := Wbxml.Lemmas.EncW.ok_inj hv2
      subst hv2
      omega
    | some s =>
      simp only at hv2
      have := encAttrValueW_pot c hc na s st1 st2 hst1 hv2
      have := h2 s rfl
      omega

theorem encAttrsW_pot (c : WCfg) (hc : CfgOk c) (na : Option (List Attr)) :
    ∀ (attrs : List Attr), attrs.all (fun a => anameOk a.name) = true → ∀ (st st' : WSt), StOk st →
      encAttrsW c na attrs st = .ok st' → wpot st' ≤ wpot st + 9 * attrsSize attrs
  | [], _, st, st', _, h => by
    simp only [encAttrsW] at h
    have h := Wbxml.Lemmas.EncW.ok_inj h
    subst h; simp [attrsSize]
  | a :: rest, ha, st, st', hst, h => by
    simp only [List.all_cons, Bool.and_eq_true] at ha
    simp only [encAttrsW] at h
    obtain ⟨st1, h1, h⟩ := Wbxml.Lemmas.EncW.bind_ok' h
    have hst1 : StOk st1 := (encAttrW_ok c hc na a ha.1 st hst).of_ok h1
    have a1 := encAttrW_pot c hc na a ha.1 st st1 hst h1
    have a2 := encAttrsW_pot c hc na rest ha.2 st1 st' hst1 h
    simp only [attrsSize]
    omega

/-! ### Tags -/

theorem tagLiteralW_pot (c : WCfg) (name : Bytes) (mask : Nat) (st st' : WSt) (h : tagLiteralW c name mask st = .ok st') :
    wpot st' ≤ wpot st + name.length + 7 := by
  rw [Wbxml.Lemmas.EncW.tagLiteralW_eq] at h
  split at h
  · injection h with h
    subst h
    have h1 := strtblAdd_pot st name none
    have h2 := mbEncode_length (strtblAdd st name none).2
    rw [wpot_emit]
    simp only [List.length_cons]
    omega
  · cases h

theorem cName_length (name : Name) : name.cName.length ≤ name.size := by
  cases name with
  | token r => exact Nat.le_refl _
  | literal s => exact cstrOf_length s

theorem encTagCore_pot (c : WCfg) (cname : Bytes) (t p : Nat) (hc ha : Bool) (st1 st' : WSt)
    (h : Wbxml.Lemmas.EncW.encTagCore c cname t p hc ha st1 = .ok st') : wpot st' ≤ wpot st1 + cname.length + 7 := by
  unfold Wbxml.Lemmas.EncW.encTagCore at h
  simp only at h
  generalize (t ||| (if hc = true then 64 else 0) ||| if ha = true then 128 else 0) = token at h
  split at h
  · exact tagLiteralW_pot c _ _ _ _ h
  · have h := Wbxml.Lemmas.EncW.ok_inj h
    subst h
    have := tagTokenW_pot token p st1
    omega

theorem encTagW_pot (c : WCfg) (name : Name) (hc ha : Bool) (st st' : WSt) (h : encTagW c name hc ha st = .ok st') :
    wpot st' ≤ wpot st + name.size + 7 := by
  rw [Wbxml.Lemmas.EncW.encTagW_eq] at h
  have := encTagCore_pot c _ _ _ _ _ _ _ h
  have hn := cName_length name
  simp only [wpot] at this ⊢
  omega

theorem encElementStartW_pot (c : WCfg) (hc : CfgOk c) (na : Option (List Attr)) (name : Name)
    (hn : nameOk name = true) (attrs : List Attr) (ha : attrs.all (fun a => anameOk a.name) = true)
    (hasContent : Bool) (st st' : WSt) (hst : StOk st)
    (h : encElementStartW c na name attrs hasContent st = .ok st') :
    wpot st' ≤ wpot st + name.size + 8 + 9 * attrsSize attrs := by
  unfold encElementStartW at h
  simp only at h
  obtain ⟨st1, h1, h⟩ := Wbxml.Lemmas.EncW.bind_ok' h
  obtain ⟨st2, h2, h⟩ := Wbxml.Lemmas.EncW.bind_ok' h
  have h := Wbxml.Lemmas.EncW.ok_inj h
  subst h
  have hst1 : StOk st1 := (encTagW_ok c name hn hasContent _ st hst).of_ok h1
  have a1 := encTagW_pot c name _ _ st st1 h1
  have a2 := encAttrsW_pot c hc na attrs ha st1 st2 hst1 h2
  split
  · rw [wpot_emit]
    simp only [List.length_cons, List.length_nil]
    omega
  · omega

/-! ### Text -/

/-- **One text node**: at most `9 n + 9` for `n` octets. -/
theorem encTextW_pot (c : WCfg) (parent : Option Name) (s : Bytes) (st st' : WSt) (hst : StOk st)
    (h : encTextW c parent s st = .ok st') : wpot st' ≤ wpot st + 9 * s.length + 9 := by
  unfold encTextW at h
  extract_lets k st1 strip s' st2 fix s'' st3 at h
  have e1 : wpot st1 = wpot st := rfl
  have hst1 : StOk st1 := hst.of_eq rfl
  have hs' : s'.length ≤ s.length := by
    unfold s'
    split
    · exact stripBlanks_length s
    · exact Nat.le_refl _
  have e2 : wpot st2 = wpot st := by
    unfold st2
    split
    · rw [aliasWrite_pot]; exact e1
    · exact e1
  have hst2 : StOk st2 := by
    unfold st2
    split
    · exact aliasWrite_ok _ _ _ hst1
    · exact hst1
  have e2c : st2.cdata = st.cdata := by
    unfold st2
    split <;> rfl
  have hs'' : s''.length ≤ s.length + 1 := by
    unfold s''
    split
    · rename_i hf
      have hf' : s' = [0x0a] := by
        unfold fix at hf
        simp only [Bool.and_eq_true, beq_iff_eq] at hf
        exact hf.2
      rw [hf'] at hs'
      simp only [List.length_cons, List.length_nil] at hs' ⊢
      omega
    · omega
  have e3 : wpot st3 = wpot st := by
    unfold st3
    split
    · rw [aliasWrite_pot, e2]
    · exact e2
  have e3c : st3.cdata = st.cdata := by
    unfold st3
    split
    · exact e2c
    · exact e2c
  split at h
  · have h := Wbxml.Lemmas.EncW.ok_inj h
    subst h
    have := opaqueW_length s
    rw [wpot_emit]
    omega
  · split at h
    · have h := Wbxml.Lemmas.EncW.ok_inj h
      subst h
      omega
    · split at h
      · split at h
        · cases h
        · rename_i cd hcd
          have h := Wbxml.Lemmas.EncW.ok_inj h
          subst h
          have hc0 : contentLen st.cdata = cd.length := by
            rw [← e2c, hcd]; rfl
          have : wpot ({ st3 with cdata := some (cd ++ s'') } : WSt) + contentLen st3.cdata =
              wpot st3 + (cd ++ s'').length := by
            simp only [wpot, contentLen]
            omega
          rw [e3c, hc0, e3] at this
          simp only [List.length_append] at this
          omega
      · have := encContentValueW_pot c parent (cstrOf s') st2 st' hst2 h
        have := cstrOf_length s'
        omega

/-! ### The string table collected before the walk -/

def candTot : List Cand → Nat
  | [] => 0
  | c :: r => c.str.length + 1 + candTot r

def refTot : List Ref → Nat
  | [] => 0
  | c :: r => c.str.length + 1 + refTot r

theorem candTot_append : ∀ (a b : List Cand), candTot (a ++ b) = candTot a + candTot b
  | [], b => by simp [candTot]
  | c :: a, b => by simp only [List.cons_append, candTot, candTot_append a b]; omega

theorem refTot_append : ∀ (a b : List Ref), refTot (a ++ b) = refTot a + refTot b
  | [], b => by simp [refTot]
  | c :: a, b => by simp only [List.cons_append, refTot, refTot_append a b]; omega

theorem collectAttr_tot (lang : Lang) (a : Attr) : candTot (collectAttr lang a) ≤ a.size := by
  unfold collectAttr
  split
  · simp only
    split <;> (split <;> simp only [candTot, Attr.size] <;> omega)
  · simp [candTot]

theorem collectAttrs_tot (lang : Lang) : ∀ (attrs : List Attr), candTot (collectAttrs lang attrs) ≤ attrsSize attrs
  | [] => by simp [collectAttrs, candTot, attrsSize]
  | a :: rest => by
    have h1 := collectAttr_tot lang a
    have h2 := collectAttrs_tot lang rest
    unfold collectAttrs at h2 ⊢
    simp only [List.flatMap_cons, candTot_append, attrsSize]
    omega

mutual
theorem collectNode_tot (lang : Lang) : ∀ (n : Node) (c : Coll),
    candTot (collectNode lang n c).cands ≤ candTot c.cands + n.lsize
  | .text s, c => by
    simp only [collectNode, Node.lsize]
    split
    · simp only [candTot_append, candTot]; omega
    · omega
  | .elt _ attrs kids, c => by
    have h1 := collectNodes_tot lang kids { c with cands := c.cands ++ collectAttrs lang attrs }
    have h2 := collectAttrs_tot lang attrs
    simp only [candTot_append] at h1
    simp only [collectNode, Node.lsize]
    omega
  | .cdata kids, c => by
    have h1 := collectNodes_tot lang kids c
    simp only [collectNode, Node.lsize]
    omega
  | .tree _ _ _, c => by simp only [collectNode, Node.lsize]; omega
theorem collectNodes_tot (lang : Lang) : ∀ (l : List Node) (c : Coll),
    candTot (collectNodes lang l c).cands ≤ candTot c.cands + Node.lsizeL l
  | [], c => by simp [collectNodes, Node.lsizeL]
  | n :: rest, c => by
    have h1 := collectNode_tot lang n c
    have h2 := collectNodes_tot lang rest (collectNode lang n c)
    simp only [collectNodes, Node.lsizeL]
    omega
end

theorem bumpRef_tot (c : Cand) : ∀ (refs : List Ref), refTot (bumpRef c refs) ≤ refTot refs + c.str.length + 1
  | [] => by simp [bumpRef, refTot]
  | r :: rs => by
    have ih := bumpRef_tot c rs
    unfold bumpRef
    split
    · simp only [refTot]; omega
    · simp only [refTot]; omega

theorem countRefs_tot : ∀ (cs : List Cand) (refs : List Ref),
    refTot (cs.foldl (fun refs c => bumpRef c refs) refs) ≤ refTot refs + candTot cs
  | [], refs => by simp [candTot]
  | c :: cs, refs => by
    have h1 := bumpRef_tot c refs
    have h2 := countRefs_tot cs (bumpRef c refs)
    simp only [List.foldl_cons, candTot]
    omega

theorem strtblAdd_len (st : WSt) (s : Bytes) (a : Option Nat) :
    (strtblAdd st s a).1.strtblLen ≤ st.strtblLen + s.length + 1 := by
  unfold strtblAdd
  split
  · simp only; omega
  · simp only; omega

theorem keepRefs_tot : ∀ (rs : List Ref) (st : WSt) (one : List Ref),
    (keepRefs rs st one).1.strtblLen + refTot (keepRefs rs st one).2 ≤ st.strtblLen + refTot one + refTot rs
  | [], st, one => by simp [keepRefs, refTot]
  | r :: rs, st, one => by
    unfold keepRefs
    split
    · have h1 := keepRefs_tot rs (strtblAdd st r.str none).1 one
      have h2 := strtblAdd_len st r.str none
      simp only [refTot]
      omega
    · have h1 := keepRefs_tot rs st (one ++ [r])
      simp only [refTot_append, refTot] at h1 ⊢
      omega

def wordsTot : List Bytes → Nat
  | [] => 0
  | w :: r => w.length + 1 + wordsTot r

theorem splitWordsGo_tot : ∀ (s cur : Bytes), wordsTot (splitWordsGo s cur) ≤ s.length + cur.length + 1
  | [], cur => by
    unfold splitWordsGo
    split <;> simp [wordsTot]
  | b :: r, cur => by
    unfold splitWordsGo
    split
    · have ih := splitWordsGo_tot r []
      split
      · simp only [List.length_cons, List.length_nil] at ih ⊢; omega
      · simp only [wordsTot, List.length_cons, List.length_nil] at ih ⊢; omega
    · have ih := splitWordsGo_tot r (cur ++ [b])
      simp only [List.length_cons, List.length_append, List.length_nil] at ih ⊢
      omega

theorem candTot_words : ∀ (l : List Bytes), candTot (l.map fun w => ({ str := w } : Cand)) = wordsTot l
  | [] => rfl
  | w :: r => by simp only [List.map_cons, candTot, wordsTot, candTot_words r]

theorem collectWords_tot : ∀ (one : List Ref), candTot (collectWords one) ≤ refTot one
  | [] => by simp [collectWords, candTot, refTot]
  | r :: rest => by
    have ih := collectWords_tot rest
    have h1 : wordsTot (splitWords r.str) ≤ r.str.length + 1 := by
      unfold splitWords
      simpa using splitWordsGo_tot r.str []
    unfold collectWords at ih ⊢
    simp only [List.flatMap_cons, candTot_append, candTot_words, refTot]
    omega

/-- **The table built before the walk holds only strings of the tree**: its declared length is at
    most the size of the nodes outside embedded documents. -/
theorem strtblInitialize_len (lang : Lang) (root : Node) :
    (strtblInitialize lang root {}).strtblLen ≤ root.lsize := by
  have h0 := collectNode_tot lang root {}
  have h1 := countRefs_tot (collectNode lang root {}).cands []
  have h2 := keepRefs_tot (countRefs (collectNode lang root {}).cands) {} []
  have h3 := collectWords_tot (keepRefs (countRefs (collectNode lang root {}).cands) {} []).2
  have h4 := countRefs_tot (collectWords (keepRefs (countRefs (collectNode lang root {}).cands) {} []).2) []
  have h5 := keepRefs_tot (countRefs (collectWords (keepRefs (countRefs (collectNode lang root {}).cands) {} []).2))
    (keepRefs (countRefs (collectNode lang root {}).cands) {} []).1 []
  have e : (strtblInitialize lang root {}).strtblLen =
      (keepRefs (countRefs (collectWords (keepRefs (countRefs (collectNode lang root {}).cands) {} []).2))
        (keepRefs (countRefs (collectNode lang root {}).cands) {} []).1 []).1.strtblLen := rfl
  rw [e]
  unfold countRefs at h1 h2 h3 h4 h5 ⊢
  have z : ({} : WSt).strtblLen = 0 := rfl
  have z2 : candTot ({} : Coll).cands = 0 := rfl
  simp only [refTot] at h1 h2 h4 h5
  omega

theorem docStartW_pot (c : WCfg) (r : Node) : wpot (docStartW c r) ≤ r.lsize := by
  obtain ⟨ho, _, _, _, hcd, _⟩ := Wbxml.Lemmas.EncW.docStartW_fields c r
  have hl : (docStartW c r).strtblLen ≤ r.lsize := by
    unfold docStartW
    split
    · exact strtblInitialize_len _ _
    · exact Nat.zero_le _
  simp only [wpot, ho, hcd, contentLen, List.length_nil]
  omega

/-! ### The header -/

theorem nestedCfg_lang (c : WCfg) (l : Lang) : (nestedCfg c l).lang = l := by
  unfold nestedCfg
  rw [Wbxml.Lemmas.EncW.deriveCfg_lang]

/-- **Header and body of one document**: at most 14 octets, the textual public identifier, the
    string table and the body. -/
theorem buildResultW_length (c : WCfg) (st : WSt) (hinv : Wbxml.Lemmas.EncW.StrInv st) :
    (buildResultW c st).length ≤ 14 + pubLen c.lang + wpot st := by
  have hver : (if c.version == 0 then ([] : Bytes) else [0x6A]).length ≤ 1 := by split <;> simp
  have htbl : (strtblBytes st.strtbl).length = st.strtblLen := by
    rw [Wbxml.Lemmas.EncW.strtblBytes_length, hinv.len]
  unfold buildResultW fillHeaderW
  simp only []
  generalize (if c.anonymous = true then 1 else c.lang.pub.wbxmlId) = pubId
  split
  · rename_i p hp
    have hpl : p.length = pubLen c.lang := by
      split at hp
      · unfold pubLen; rw [hp]; rfl
      · cases hp
    split
    · have hinv' := Wbxml.Lemmas.EncW.strtblAdd_inv st p hinv
      have h1 := strtblAdd_len st p none
      generalize hadd : strtblAdd st p none = q at hinv' h1
      obtain ⟨st1, idx⟩ := q
      simp only at hinv' h1 ⊢
      have h2 : (strtblBytes st1.strtbl).length = st1.strtblLen := by
        rw [Wbxml.Lemmas.EncW.strtblBytes_length, hinv'.len]
      have h3 := mbEncode_length idx
      have h4 := mbEncode_length st1.strtblLen
      simp only [List.length_append, List.length_cons, List.length_nil, wpot, h2]
      omega
    · have h3 := mbEncode_length 0
      have h4 := mbEncode_length (p.length + 1)
      simp only [List.length_append, List.length_cons, List.length_nil, wpot]
      omega
  · have h3 := mbEncode_length pubId
    have h4 := mbEncode_length st.strtblLen
    have h5 : (if c.useStrtbl = true then strtblBytes st.strtbl else []).length ≤ st.strtblLen := by
      split
      · rw [htbl]; exact Nat.le_refl _
      · simp
    simp only [List.length_append, List.length_cons, List.length_nil, wpot]
    omega

/-! ### The node walk -/

mutual
/-- **`parse_node`**: the potential rises by at most ten octets per unit of size, plus `docW` for
    every embedded document; `lsize n` of that is slack handed to the enclosing document for its
    string table. -/
theorem encNodeG_pot : ∀ (n : Node) (c : WCfg), CfgOk c → ∀ (parent : Option Name) (encEnd : Bool),
    nodeOk n = true → ∀ (st : WSt), StOk st → ∀ (st' : WSt), encNodeG c parent encEnd n st = .ok st' →
      wpot st' + n.lsize ≤ wpot st + 10 * n.size + n.hdr docW
  | .elt name attrs kids, c, hc, parent, encEnd, hn, st, hst, st', h => by
    simp only [nodeOk, Bool.and_eq_true] at hn
    simp only [encNodeG] at h
    obtain ⟨st1, h1, h⟩ := Wbxml.Lemmas.EncW.bind_ok' h
    obtain ⟨st2, h2, h⟩ := Wbxml.Lemmas.EncW.bind_ok' h
    have hX := Wbxml.Lemmas.EncW.ok_inj h
    have hst1 : StOk st1 := (encElementStartW_ok c hc (some attrs) name hn.1.1 attrs hn.1.2 _ st hst).of_ok h1
    have a1 := encElementStartW_pot c hc (some attrs) name hn.1.1 attrs hn.1.2 _ st st1 hst h1
    have a2 := encNodesW_pot kids c hc (some name) hn.2 st1 hst1 st2 h2
    have a3 : wpot st' ≤ wpot st2 + 1 := by
      rw [← hX]
      simp only [wpot]
      split
      · simp only [WSt.emit, List.length_append, List.length_cons, List.length_nil]; omega
      · omega
    rw [size_elt]
    simp only [Node.lsize, Node.hdr]
    omega
  | .text s, c, hc, parent, encEnd, hn, st, hst, st', h => by
    simp only [encNodeG] at h
    obtain ⟨st1, h1, h⟩ := Wbxml.Lemmas.EncW.bind_ok' h
    have hX := Wbxml.Lemmas.EncW.ok_inj h
    have a1 := encTextW_pot c parent s st st1 hst h1
    have e : wpot st' = wpot st1 := by rw [← hX]; rfl
    rw [size_text, e]
    simp only [Node.lsize, Node.hdr]
    omega
  | .cdata kids, c, hc, parent, encEnd, hn, st, hst, st', h => by
    simp only [nodeOk] at hn
    simp only [encNodeG] at h
    split at h
    · cases h
    · rename_i hcd
      obtain ⟨st2, h2, h⟩ := Wbxml.Lemmas.EncW.bind_ok' h
      have a2 := encNodesW_pot kids c hc none hn { st with inCdata := true, cdata := some [] } (hst.of_eq rfl) st2 h2
      have e0 : wpot ({ st with inCdata := true, cdata := some [] } : WSt) = wpot st := by
        simp only [wpot, hcd, contentLen, List.length_nil]
      split at h
      · cases h
      · rename_i cd hcd2
        have hX := Wbxml.Lemmas.EncW.ok_inj h
        have hc2 : contentLen st2.cdata = cd.length := by
          have : st2.cdata = some cd := hcd2
          rw [this]; rfl
        have a3 : wpot st' ≤ wpot st2 + 6 := by
          have := opaqueW_length cd
          rw [← hX]
          simp only [wpot]
          split
          · simp only [WSt.emit, List.length_append, contentLen] at hc2 ⊢
            omega
          · simp only [contentLen] at hc2 ⊢
            omega
        rw [size_cdata]
        simp only [Node.lsize, Node.hdr]
        omega
  | .tree lang cs root, c, hc, parent, encEnd, hn, st, hst, st', h => by
    cases lang with
    | none => unfold encNodeG at h; simp at h
    | some l =>
      cases root with
      | none => unfold nodeOk at hn; simp at hn
      | some r =>
        unfold nodeOk at hn
        simp only [Bool.and_eq_true] at hn
        unfold encNodeG at h
        simp only at h
        obtain ⟨st2, h2, h⟩ := Wbxml.Lemmas.EncW.bind_ok' h
        have hX := Wbxml.Lemmas.EncW.ok_inj h
        have a2 := encNodeG_pot r (nestedCfg c l) (cfgOk_nested c l hn.1) none true hn.2 _ (docStartW_ok _ r) st2 h2
        have a0 := docStartW_pot (nestedCfg c l) r
        have hinv := (Wbxml.Lemmas.EncW.doc_final_inv (nestedCfg c l) r st2 h2).1
        have a3 := buildResultW_length (nestedCfg c l) st2 hinv
        rw [nestedCfg_lang] at a3
        have a4 := opaqueW_length (buildResultW (nestedCfg c l) st2)
        have e : wpot st' = wpot st + (opaqueW (buildResultW (nestedCfg c l) st2)).length := by
          rw [← hX]; exact wpot_emit _ _
        rw [e, size_tree_some]
        simp only [Node.lsize, Node.hdr, docW]
        omega

theorem encNodesW_pot : ∀ (l : List Node) (c : WCfg), CfgOk c → ∀ (parent : Option Name),
    nodesOk l = true → ∀ (st : WSt), StOk st → ∀ (st' : WSt), encNodesW c parent l st = .ok st' →
      wpot st' + Node.lsizeL l ≤ wpot st + 10 * Node.sizeL l + Node.hdrL docW l
  | [], c, hc, parent, hl, st, hst, st', h => by
    simp only [encNodesW] at h
    have h := Wbxml.Lemmas.EncW.ok_inj h
    subst h
    simp [Node.lsizeL, Node.hdrL, sizeL_nil]
  | n :: rest, c, hc, parent, hl, st, hst, st', h => by
    simp only [nodesOk, Bool.and_eq_true] at hl
    simp only [encNodesW] at h
    obtain ⟨st1, h1, h⟩ := Wbxml.Lemmas.EncW.bind_ok' h
    have hst1 : StOk st1 := (encNodeG_ok n c hc parent true hl.1 st hst).of_ok h1
    have a1 := encNodeG_pot n c hc parent true hl.1 st hst st1 h1
    have a2 := encNodesW_pot rest c hc parent hl.2 st1 hst1 st' h
    rw [sizeL_cons]
    simp only [Node.lsizeL, Node.hdrL]
    omega
end

/-! ### The document -/

/-- **Output bound on every well-named tree** (`treeOk`: what `treeOfXml` delivers, and any tree
    built through the API with non-empty names): at most ten octets per unit of tree size plus, for
    the document and every embedded document, its public identifier and 20 octets. -/
theorem treeToWbxml_length (cfg : X2WCfg) (t : Tree) (ht : treeOk t = true) (bs : Bytes)
    (h : treeToWbxml cfg t = .ok bs) : bs.length ≤ 10 * t.size + t.hdr docW := by
  obtain ⟨lang, r, st, hl, hr, henc, hbs⟩ := Wbxml.Lemmas.EncW.treeToWbxml_ok h
  unfold treeOk at ht
  rw [hl, hr] at ht
  unfold nodeOk at ht
  simp only [Bool.and_eq_true] at ht
  have hc : CfgOk (Wbxml.Lemmas.EncW.dcfgOf cfg lang) := cfgOk_derive _ ht.1
  have a2 := encNodeG_pot r _ hc none true ht.2 _ (docStartW_ok _ r) st henc
  have a0 := docStartW_pot (Wbxml.Lemmas.EncW.dcfgOf cfg lang) r
  have hinv := (Wbxml.Lemmas.EncW.doc_final_inv _ r st henc).1
  have a3 := buildResultW_length (Wbxml.Lemmas.EncW.dcfgOf cfg lang) st hinv
  rw [Wbxml.Lemmas.EncW.dcfgOf_lang] at a3
  have e : bs = buildResultW (Wbxml.Lemmas.EncW.dcfgOf cfg lang) st := hbs
  rw [e]
  simp only [Tree.size, Tree.sizeW, Tree.hdr, hl, hr, Node.hdr, docW]
  have e2 : (Node.tree (some lang) t.origCharset (some r)).sizeW (fun _ => 0) = 1 + r.size := by
    simp [Node.sizeW, Node.size]
  rw [e2]
  omega

/-- The potential of the final encoder state — output octets so far plus the declared string table —
    obeys the same bound (the string table is one of the bounded objects). -/
theorem treeToWbxml_state (cfg : X2WCfg) (t : Tree) (ht : treeOk t = true) (bs : Bytes)
    (h : treeToWbxml cfg t = .ok bs) :
    ∃ lang r st, t.lang = some lang ∧ t.root = some r ∧
      encNodeG (Wbxml.Lemmas.EncW.dcfgOf cfg lang) none true r (docStartW (Wbxml.Lemmas.EncW.dcfgOf cfg lang) r) = .ok st ∧
      bs = (fillHeaderW (Wbxml.Lemmas.EncW.dcfgOf cfg lang) st).1 ++ st.out ∧
      st.out.length + st.strtblLen ≤ 10 * r.size + r.hdr docW := by
  obtain ⟨lang, r, st, hl, hr, henc, hbs⟩ := Wbxml.Lemmas.EncW.treeToWbxml_ok h
  refine ⟨lang, r, st, hl, hr, henc, hbs, ?_⟩
  unfold treeOk at ht
  rw [hl, hr] at ht
  unfold nodeOk at ht
  simp only [Bool.and_eq_true] at ht
  have hc : CfgOk (Wbxml.Lemmas.EncW.dcfgOf cfg lang) := cfgOk_derive _ ht.1
  have a2 := encNodeG_pot r _ hc none true ht.2 _ (docStartW_ok _ r) st henc
  have a0 := docStartW_pot (Wbxml.Lemmas.EncW.dcfgOf cfg lang) r
  simp only [wpot] at a2 a0 ⊢
  omega

/-! ### Languages of the trees `treeOfXml` delivers -/

/-- The language of a delivered tree is an entry of the main table (so its public identifier is
    one of the table's). -/
theorem treeOfXml_lang_mem (main : List Lang) (env : List (Bytes × ExpatRun)) (hm : MainOk main) (he : EnvWf env) :
    ∀ (f : Nat) (xml : Bytes) (t : Tree), treeOfXml main env f xml = .ok t → ∀ l, t.lang = some l → l ∈ main
  | 0, xml, t, h => by rw [treeOfXml] at h; cases h
  | f + 1, xml, t, h => by
    have hsub := subOk_of main env f (treeOfXml_ok main env hm he f)
    rw [treeOfXml_succ] at h
    split at h
    · cases h
    · split at h
      · cases h
      · rename_i k run hfind
        have hmem : (k, run) ∈ env := List.mem_of_find?_eq_some hfind
        simp only at h
        split at h
        · split at h <;> cases h
        · split at h
          · cases h
          · rename_i hok
            have hok' : run.ok = true := by simpa using hok
            have hw : WfDoc run.events := he _ hmem hok'
            have hb := fold_ok (main := main) xml hsub run.events {} (bOk_init main) (wfDoc_named hw)
            split at h
            · cases h
            · injection h with h
              subst h
              intro l hl
              exact hb.lang l hl

/-- Longest XML public identifier of the table. -/
def pubMax : List Lang → Nat
  | [] => 0
  | l :: rest => max (pubLen l) (pubMax rest)

theorem pubLen_le_pubMax : ∀ (main : List Lang) (l : Lang), l ∈ main → pubLen l ≤ pubMax main
  | [], l, h => by cases h
  | x :: rest, l, h => by
    simp only [pubMax]
    rcases List.mem_cons.mp h with rfl | h
    · omega
    · have := pubLen_le_pubMax rest l h
      omega

theorem docW_le (main : List Lang) (lang : Option Lang) (h : ∀ l, lang = some l → l ∈ main) :
    1 + docW lang ≤ pubMax main + 21 := by
  cases lang with
  | none => simp only [docW]; omega
  | some l =>
    have := pubLen_le_pubMax main l (h l rfl)
    simp only [docW]
    omega

theorem tree_sizeW_eq (w : Option Lang → Nat) (t : Tree) : t.sizeW w = t.size + t.hdr w := by
  simp only [Tree.sizeW, Tree.size, Tree.hdr]
  exact sizeW_eq w _

end Wbxml.Lemmas.X2W
