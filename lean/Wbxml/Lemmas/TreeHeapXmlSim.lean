/-
  C18 lemmas, part 18: the simulation.  The XML front end keeps a stack of open frames, each with the
  list of its CLOSED children, and attaches a node to its parent when it is closed; the API history
  links every node into the heap at once.  `Open` relates the two while the root element is open
  (the heap has the shape of a spine, `TreeHeapSpine.lean`), `Done` after the root was closed.
-/
import Wbxml.Lemmas.TreeHeapFresh
import Wbxml.Lemmas.TreeHeapXmlStep
set_option linter.unusedSimpArgs false
set_option linter.unusedVariables false
namespace Wbxml.Model.TreeHeap
open Wbxml Wbxml.Model

/-! ### Frames and cells -/

def kindPay : FrameKind → Pay
  | .elt n a => .elt n a
  | .cdata => .cdata

theorem close_eq (f : XFrame) : f.close = mkNode (kindPay f.kind) f.kids := by
  unfold XFrame.close; cases f.kind <;> rfl

theorem kindPay_branch (k : FrameKind) : (kindPay k).isBranch = true := by cases k <;> rfl

theorem addKid_close (ks : List Node) (f : XFrame) : addKid ks f.close = ks ++ [f.close] := by
  unfold addKid XFrame.close
  cases f.kind <;> rfl

/-- What `plainEvents` remembers about an open node is true of the frame. -/
def POpen.ok (p : POpen) (k : FrameKind) : Prop :=
  match p with
  | .elt ok => ∃ n a, k = .elt n a ∧ (ok = true → isBinaryName n = false ∧ (n.xmlName == b!"Data") = false)
  | .cdata => k = .cdata

/-- An open frame of the front end and the open node at address `a` with closed children `C`. -/
structure FRel (v : View) (f : XFrame) (p : POpen) (a : Nat) (C : BT) : Prop where
  content : f.content = none
  kids : absBT v C = f.kids
  pay : payOf v a = kindPay f.kind
  kind : p.ok f.kind

def SRel (v : View) : List XFrame → List POpen → List (Nat × BT) → Prop
  | [], [], [] => True
  | f :: fs, p :: ps, (a, C) :: rs => FRel v f p a C ∧ SRel v fs ps rs
  | _, _, _ => False

theorem FRel.frame {v v' : View} {f : XFrame} {p : POpen} {a : Nat} {C : BT} (h : FRel v f p a C)
    (hp : ∀ j, j = a ∨ j ∈ C.ids → payOf v' j = payOf v j) : FRel v' f p a C :=
  ⟨h.content, by rw [absBT_frame C (fun j hj => hp j (Or.inr hj))]; exact h.kids,
   by rw [hp a (Or.inl rfl)]; exact h.pay, h.kind⟩

theorem SRel.cons_inv {v : View} {fs : List XFrame} {p : POpen} {ps : List POpen} {rs : List (Nat × BT)}
    (h : SRel v fs (p :: ps) rs) :
    ∃ f fs' a C rs', fs = f :: fs' ∧ rs = (a, C) :: rs' ∧ FRel v f p a C ∧ SRel v fs' ps rs' := by
  cases fs with
  | nil => cases rs <;> simp [SRel] at h
  | cons f fs' =>
    cases rs with
    | nil => simp [SRel] at h
    | cons x rs' =>
      obtain ⟨a, C⟩ := x
      exact ⟨f, fs', a, C, rs', rfl, rfl, h.1, h.2⟩

theorem SRel.nil_inv {v : View} {fs : List XFrame} {rs : List (Nat × BT)} (h : SRel v fs [] rs) :
    fs = [] ∧ rs = [] := by
  cases fs with
  | nil =>
    cases rs with
    | nil => exact ⟨rfl, rfl⟩
    | cons x rs' => simp [SRel] at h
  | cons f fs' => cases rs <;> simp [SRel] at h

theorem SRel.frame {v v' : View} : ∀ (fs : List XFrame) (ps : List POpen) (rs : List (Nat × BT)),
    SRel v fs ps rs → (∀ j, j ∈ spineIds rs → payOf v' j = payOf v j) → SRel v' fs ps rs
  | fs, [], rs, h, _ => by
    obtain ⟨h1, h2⟩ := h.nil_inv
    subst h1; subst h2; trivial
  | fs, p :: ps, rs, h, hp => by
    obtain ⟨f, fs', a, C, rs', e1, e2, hf, hr⟩ := h.cons_inv
    subst e1; subst e2
    refine ⟨hf.frame ?_, SRel.frame fs' ps rs' hr ?_⟩
    · intro j hj
      apply hp
      simp only [spineIds, List.mem_cons, List.mem_append]
      rcases hj with hj | hj
      · exact Or.inl hj
      · exact Or.inr (Or.inl hj)
    · intro j hj
      apply hp
      simp only [spineIds, List.mem_cons, List.mem_append]
      exact Or.inr (Or.inr hj)

/-! ### The relations -/

/-- Before the root start tag: the API side is still the empty tree. -/
structure Prolog (L : Lang) (b : XBState) (s : St) : Prop where
  heap : s.heap = []
  sroot : s.root = none
  slang : s.lang = some L
  stack : b.stack = []
  broot : b.root = none
  quiet : XQuiet b

/-- While the root element is open. -/
structure Open (L : Lang) (b : XBState) (s : St) (stk : List POpen) (frames : List (Nat × BT)) : Prop where
  forest : Forest s (spineAux .nil frames)
  rel : SRel s.cellAt b.stack stk frames
  broot : b.root = none
  sroot : frames ≠ [] → s.root.isSome = true
  slang : s.lang = some L
  blang : b.lang = some L
  quiet : XQuiet b

/-- After the root element was closed. -/
structure Done (b : XBState) (s : St) : Prop where
  ex : ∃ r K, Forest s (.node r K .nil) ∧ s.root = some r ∧
    b.root = some (mkNode (payOf s.cellAt r) (absBT s.cellAt K))
  stack : b.stack = []
  quiet : XQuiet b

theorem Done.abs {b : XBState} {s : St} (h : Done b s) :
    Inv s ∧ absTree s = .ok { lang := s.lang, origCharset := s.charset, root := b.root } := by
  obtain ⟨r, K, hF, hr, hb⟩ := h.ex
  refine ⟨⟨_, hF⟩, ?_⟩
  obtain ⟨c, hc, habs⟩ := absNode_top hF (n := r) (by simp [BT.tops])
  have hck : BT.chainKids r (.node r K .nil) = K := by simp [BT.chainKids]
  rw [hck] at habs
  have hp : payOf s.cellAt r = c.pay := by simp [payOf, hc]
  unfold absTree
  rw [hr]
  simp only [habs, hb, hp]

/-! ### One call of the history -/

theorem run_step {s s1 : St} {op : Op} {r : Ret} (rest : List Op) (h : stepChecked s op = .ok (r, s1)) :
    run s (op :: rest) = run s1 rest := by
  simp only [run, h]

/-- The event `e` takes the API side from `s` (open nodes `frames`) to `s1` (open nodes `frames1`). -/
def StepTo (s : St) (frames : List (Nat × BT)) (e : XEvent) (s1 : St) (frames1 : List (Nat × BT)) : Prop :=
  (∀ es, run s (histGo s.heap.length (frames.map (·.1)) (e :: es)) =
      run s1 (histGo s1.heap.length (frames1.map (·.1)) es)) ∧
  s1.lang = s.lang ∧ s1.charset = s.charset

variable (main : List Lang) (input : Bytes) (sub : Bytes → Option (Except Nat Tree))

/-- What `Open` gives about the innermost open node. -/
theorem Open.top {L : Lang} {b : XBState} {s : St} {p : POpen} {ps : List POpen} {frames : List (Nat × BT)}
    (hO : Open L b s (p :: ps) frames) :
    ∃ f fs a C rs cP, b.stack = f :: fs ∧ frames = (a, C) :: rs ∧ FRel s.cellAt f p a C ∧ SRel s.cellAt fs ps rs ∧
      Forest s (spineAux (.node a C .nil) rs) ∧ s.cellAt a = some cP ∧ cP.pay.isBranch = true ∧
      BT.kidsOf a (spineAux (.node a C .nil) rs) = C ∧
      (∀ j, j ∈ spineIds rs → j ∈ (spineAux (.node a C .nil) rs).ids ∧ j ≠ a ∧ j ∉ C.ids) := by
  obtain ⟨f, fs, a, C, rs, hs, hfr, hf, hrest⟩ := hO.rel.cons_inv
  have hF := hO.forest
  rw [hfr, spineAux_nil_cons] at hF
  obtain ⟨_, hdisj⟩ := nodup_spineAux rs _ hF.nodup
  have haG : a ∈ (spineAux (.node a C .nil) rs).ids := (mem_spineAux a rs _).mpr (Or.inl (by simp))
  obtain ⟨cP, hcP⟩ := hF.live haG
  have hbr : cP.pay.isBranch = true := by
    have := hf.pay
    simp only [payOf, hcP] at this
    rw [this]; exact kindPay_branch _
  refine ⟨f, fs, a, C, rs, cP, hs, hfr, hf, hrest, hF, hcP, hbr, spine_kidsOf a C rs hF.nodup, ?_⟩
  intro j hj
  refine ⟨(mem_spineAux j rs _).mpr (Or.inr hj), ?_, ?_⟩
  · intro e; subst e; exact hdisj j (by simp) hj
  · intro hC; exact hdisj j (by simp [hC]) hj

theorem open_pi {L : Lang} {b : XBState} {s : St} {stk : List POpen} {frames : List (Nat × BT)}
    (hO : Open L b s stk frames) :
    StepTo s frames .pi s frames ∧ Open L (xbuildStep main input sub b .pi) s stk frames := by
  rw [xstep_pi]
  exact ⟨⟨fun es => by simp only [histGo], rfl, rfl⟩, hO⟩

theorem open_xmlDecl {L : Lang} {b : XBState} {s : St} {stk : List POpen} {frames : List (Nat × BT)}
    (hO : Open L b s stk frames) (ver enc : Option Bytes) :
    StepTo s frames (.xmlDecl ver enc) s frames ∧
      Open L (xbuildStep main input sub b (.xmlDecl ver enc)) s stk frames := by
  obtain ⟨cs, e⟩ := xstep_xmlDecl main input sub b ver enc
  rw [e]
  exact ⟨⟨fun es => by simp only [histGo], rfl, rfl⟩,
    ⟨hO.forest, hO.rel, hO.broot, hO.sroot, hO.slang, hO.blang, ⟨hO.quiet.err, hO.quiet.skip, hO.quiet.need⟩⟩⟩

/-- A start tag below the root. -/
theorem open_start {L : Lang} {b : XBState} {s : St} {ok : Bool} {ps : List POpen} {frames : List (Nat × BT)}
    (hO : Open L b s (.elt ok :: ps) frames) (name : Bytes) (attrs : List (Bytes × Bytes)) (idx : Nat)
    (hne : embeddedName name = false) (hat : attrs.all attrPlain = true) :
    ∃ s1 frames1, StepTo s frames (.startElt name attrs idx) s1 frames1 ∧
      Open L (xbuildStep main input sub b (.startElt name attrs idx)) s1
        (.elt (textPlain L name) :: .elt ok :: ps) frames1 := by
  obtain ⟨f, fs, a, C, rs, cP, hs, hfr, hf, hrest, hF, hcP, hbr, hkids, hrs⟩ := hO.top
  obtain ⟨s1, e1, hF1, hr1, hl1, hc1, hlen1, hfresh, hp1, ho1⟩ := api_xml_elt_under hF hcP hbr hO.slang name attrs
  rw [hkids, spine_setKids a C _ rs hF.nodup] at hF1
  refine ⟨s1, (s.heap.length, .nil) :: frames, ⟨?_, hl1, hc1⟩, ?_⟩
  · intro es
    rw [hfr]
    simp only [histGo, List.map_cons, List.head?_cons]
    rw [run_step _ e1, hlen1]
  · rw [xstep_start_inner main input sub hO.quiet hs hO.blang name attrs idx hne, xmlElt_plain L name attrs hat]
    have hold : ∀ j, j ∈ spineIds frames → payOf s1.cellAt j = payOf s.cellAt j := by
      intro j hj
      apply ho1
      intro e
      apply hfresh
      rw [← e]
      rw [hfr] at hj
      simp only [spineIds, List.mem_cons, List.mem_append] at hj
      rcases hj with hj | hj | hj
      · rw [hj]; exact (mem_spineAux a rs _).mpr (Or.inl (by simp))
      · exact (mem_spineAux j rs _).mpr (Or.inl (by simp [hj]))
      · exact (hrs j hj).1
    refine ⟨?_, ?_, hO.broot, ?_, hl1.trans hO.slang, hO.blang, ⟨hO.quiet.err, hO.quiet.skip, hO.quiet.need⟩⟩
    · rw [hfr]
      simp only [spineAux, BT.snoc, BT.snoc_nil]
      exact hF1
    · refine ⟨⟨rfl, rfl, hp1, ?_⟩, ?_⟩
      · refine ⟨_, _, rfl, ?_⟩
        intro h
        unfold textPlain at h
        simp only [Bool.and_eq_true, Bool.not_eq_true'] at h
        exact h
      · exact SRel.frame _ _ _ hO.rel hold
    · intro _
      rw [hr1]
      exact hO.sroot (by rw [hfr]; simp)

/-- The start of a CDATA section. -/
theorem open_startCdata {L : Lang} {b : XBState} {s : St} {ok : Bool} {ps : List POpen} {frames : List (Nat × BT)}
    (hO : Open L b s (.elt ok :: ps) frames) :
    ∃ s1 frames1, StepTo s frames .startCdata s1 frames1 ∧
      Open L (xbuildStep main input sub b .startCdata) s1 (.cdata :: .elt ok :: ps) frames1 := by
  obtain ⟨f, fs, a, C, rs, cP, hs, hfr, hf, hrest, hF, hcP, hbr, hkids, hrs⟩ := hO.top
  obtain ⟨s1, e1, hF1, hr1, hl1, hc1, hlen1, hfresh, hp1, ho1⟩ := api_cdata_under hF hcP hbr
  rw [hkids, spine_setKids a C _ rs hF.nodup] at hF1
  refine ⟨s1, (s.heap.length, .nil) :: frames, ⟨?_, hl1, hc1⟩, ?_⟩
  · intro es
    rw [hfr]
    simp only [histGo, List.map_cons, List.head?_cons]
    rw [run_step _ e1, hlen1]
  · rw [xstep_startCdata main input sub hO.quiet]
    have hold : ∀ j, j ∈ spineIds frames → payOf s1.cellAt j = payOf s.cellAt j := by
      intro j hj
      apply ho1
      intro e
      apply hfresh
      rw [← e]
      rw [hfr] at hj
      simp only [spineIds, List.mem_cons, List.mem_append] at hj
      rcases hj with hj | hj | hj
      · rw [hj]; exact (mem_spineAux a rs _).mpr (Or.inl (by simp))
      · exact (mem_spineAux j rs _).mpr (Or.inl (by simp [hj]))
      · exact (hrs j hj).1
    refine ⟨?_, ?_, hO.broot, ?_, hl1.trans hO.slang, hO.blang, ⟨hO.quiet.err, hO.quiet.skip, hO.quiet.need⟩⟩
    · rw [hfr]
      simp only [spineAux, BT.snoc, BT.snoc_nil]
      exact hF1
    · refine ⟨⟨rfl, rfl, hp1, rfl⟩, ?_⟩
      exact SRel.frame _ _ _ hO.rel hold
    · intro _
      rw [hr1]
      exact hO.sroot (by rw [hfr]; simp)

/-- An end tag / the end of a CDATA section below the root: the closed node becomes a closed child of
    the frame below (no call). -/
theorem open_close {L : Lang} {b : XBState} {s : St} {p p' : POpen} {ps : List POpen} {frames : List (Nat × BT)}
    (hO : Open L b s (p :: p' :: ps) frames) (b1 : XBState)
    (hb1 : ∀ f fs, b.stack = f :: fs → b1 = ({ b with stack := fs } : XBState).attach f.close) :
    ∃ frames1, frames.tail.map (·.1) = frames1.map (·.1) ∧ Open L b1 s (p' :: ps) frames1 := by
  obtain ⟨f, fs, a, C, rs, cP, hs, hfr, hf, hrest, hF, hcP, hbr, hkids, hrs⟩ := hO.top
  obtain ⟨g, fs', a', C', rs', hs', hfr', hg, hrest'⟩ := hrest.cons_inv
  subst hs'; subst hfr'
  refine ⟨(a', BT.snoc C' (.node a C .nil)) :: rs', by rw [hfr]; rfl, ?_⟩
  rw [hb1 f (g :: fs') hs, xattach_cons (f := g) (rest := fs') rfl, addKid_close]
  refine ⟨?_, ?_, hO.broot, fun _ => hO.sroot (by rw [hfr]; simp), hO.slang, hO.blang,
    ⟨hO.quiet.err, hO.quiet.skip, hO.quiet.need⟩⟩
  · have := hO.forest
    rw [hfr] at this
    simp only [spineAux, BT.snoc_nil] at this ⊢
    exact this
  · refine ⟨⟨hg.content, ?_, hg.pay, hg.kind⟩, hrest'⟩
    simp only [absBT_snoc, absBT, hg.kids, hf.kids, hf.pay, close_eq, List.append_nil]

/-- The end tag of the root. -/
theorem open_close_root {L : Lang} {b : XBState} {s : St} {p : POpen} {frames : List (Nat × BT)}
    (hO : Open L b s [p] frames) (b1 : XBState)
    (hb1 : ∀ f fs, b.stack = f :: fs → b1 = ({ b with stack := fs } : XBState).attach f.close) :
    Done b1 s := by
  obtain ⟨f, fs, a, C, rs, cP, hs, hfr, hf, hrest, hF, hcP, hbr, hkids, hrs⟩ := hO.top
  obtain ⟨e1, e2⟩ := hrest.nil_inv
  subst e1; subst e2
  rw [hb1 f [] hs, xattach_root (b := { b with stack := [] }) rfl hO.broot]
  have hroot : s.root = some a := by
    have h1 := hO.sroot (by rw [hfr]; simp)
    cases hr : s.root with
    | none => rw [hr] at h1; cases h1
    | some r =>
      have := hF.root r hr
      simp only [spineAux, BT.tops, List.mem_cons, List.not_mem_nil, or_false] at this
      rw [this]
  refine ⟨⟨a, C, hF, hroot, ?_⟩, rfl, ⟨hO.quiet.err, hO.quiet.skip, hO.quiet.need⟩⟩
  simp only [close_eq, hf.pay, hf.kids]

/-- Character data where `plainEvents` allows it. -/
theorem open_chars {L : Lang} {b : XBState} {s : St} {stk : List POpen} {frames : List (Nat × BT)}
    (hO : Open L b s stk frames) (ht : textAllowed stk = true) (t : Bytes) :
    ∃ s1 frames1, StepTo s frames (.chars t) s1 frames1 ∧
      Open L (xbuildStep main input sub b (.chars t)) s1 stk frames1 := by
  -- the shape of the stack
  have hshape : ∃ p ps, stk = p :: ps := by
    cases stk with
    | nil => simp [textAllowed] at ht
    | cons p ps => exact ⟨p, ps, rfl⟩
  obtain ⟨p, ps, hstk⟩ := hshape
  subst hstk
  obtain ⟨f, fs, a, C, rs, cP, hs, hfr, hf, hrest, hF, hcP, hbr, hkids, hrs⟩ := hO.top
  -- the front end sees a plain text position
  have hplain : syncmlDataType (xStackFrames b.stack) = .normal ∧
      (∀ n at', f.kind = .elt n at' → isBinaryName n = false) := by
    rw [hs]
    cases p with
    | elt ok =>
      have hok : ok = true := by simpa [textAllowed] using ht
      obtain ⟨n, at', hk, hn⟩ := hf.kind
      obtain ⟨hb, hd⟩ := hn hok
      refine ⟨?_, ?_⟩
      · exact syncml_normal_elt (f := { kind := f.kind, kids := f.kids }) (rest := xStackFrames fs) hk hd
      · intro n' a' hk'
        rw [hk] at hk'; injection hk' with h1 h2; subst h1; exact hb
    | cdata =>
      have hfk : f.kind = .cdata := hf.kind
      cases ps with
      | nil => simp [textAllowed] at ht
      | cons p' ps' =>
        cases p' with
        | cdata => simp [textAllowed] at ht
        | elt ok =>
          have hok : ok = true := by simpa [textAllowed] using ht
          obtain ⟨g, fs', a', C', rs', hs', hfr', hg, hrest'⟩ := hrest.cons_inv
          subst hs'
          obtain ⟨n, at', hk, hn⟩ := hg.kind
          obtain ⟨hb, hd⟩ := hn hok
          refine ⟨?_, ?_⟩
          · exact syncml_normal_cdata (f := { kind := f.kind, kids := f.kids }) (g := { kind := g.kind, kids := g.kids })
              (rest := xStackFrames fs') hfk hk hd
          · intro n' a'' hk'
            rw [hfk] at hk'; cases hk'
  obtain ⟨s1, K', e1, hF1, hr1, hl1, hc1, hlen1, habs, hpay⟩ := api_text_under hF hcP hbr t
  rw [hkids] at habs hpay
  rw [spine_setKids a C K' rs hF.nodup] at hF1
  have hKnd := BT.kidsOf_nodup a _ hF.nodup
  rw [hkids] at hKnd
  refine ⟨s1, (a, K') :: rs, ⟨?_, hl1, hc1⟩, ?_⟩
  · intro es
    rw [hfr]
    simp only [histGo, List.map_cons, List.head?_cons]
    rw [run_step _ e1, hlen1]
  · rw [xstep_chars_plain main input sub hO.quiet hs hplain.1 hplain.2 t]
    refine ⟨?_, ?_, hO.broot, ?_, hl1.trans hO.slang, hO.blang, ⟨hO.quiet.err, hO.quiet.skip, hO.quiet.need⟩⟩
    · rw [spineAux_nil_cons]; exact hF1
    · refine ⟨⟨hf.content, ?_, ?_, hf.kind⟩, ?_⟩
      · rw [habs, hf.kids]
      · rw [hpay a ((mem_spineAux a rs _).mpr (Or.inl (by simp))) hKnd.2]; exact hf.pay
      · exact SRel.frame _ _ _ hrest (fun j hj => hpay j (hrs j hj).1 (hrs j hj).2.2)
    · intro _
      rw [hr1]
      exact hO.sroot (by rw [hfr]; simp)

/-- The root start tag. -/
theorem prolog_start {L : Lang} {b : XBState} {s : St} (hP : Prolog L b s)
    (name : Bytes) (attrs : List (Bytes × Bytes)) (idx : Nat) (hat : attrs.all attrPlain = true)
    (hlang : (xbuildStep main input sub b (.startElt name attrs idx)).lang = some L)
    (herr : (xbuildStep main input sub b (.startElt name attrs idx)).error = none) :
    ∃ s1 frames1, StepTo s [] (.startElt name attrs idx) s1 frames1 ∧
      Open L (xbuildStep main input sub b (.startElt name attrs idx)) s1 [.elt (textPlain L name)] frames1 := by
  obtain ⟨L', e⟩ := xstep_start_root main input sub hP.quiet hP.stack hP.broot name attrs idx herr
  rw [e] at hlang
  have hLL : L' = L := by
    have : some L' = some L := hlang
    injection this
  subst hLL
  obtain ⟨s1, e1, hF1, hr1, hl1, hc1, hlen1, hp1⟩ := api_xml_elt_root hP.heap hP.sroot hP.slang name attrs
  have hlen : s.heap.length = 0 := by rw [hP.heap]; rfl
  refine ⟨s1, [(0, .nil)], ⟨?_, hl1, hc1⟩, ?_⟩
  · intro es
    simp only [histGo, List.map_nil, List.head?_nil, List.map_cons, hlen]
    rw [run_step _ e1, hlen1]
  · rw [e, xmlElt_plain L' name attrs hat]
    refine ⟨?_, ?_, hP.broot, ?_, hl1.trans hP.slang, rfl, ⟨hP.quiet.err, hP.quiet.skip, hP.quiet.need⟩⟩
    · simp only [spineAux, BT.snoc]; exact hF1
    · refine ⟨⟨rfl, rfl, hp1, ?_⟩, trivial⟩
      refine ⟨_, _, rfl, ?_⟩
      intro h
      unfold textPlain at h
      simp only [Bool.and_eq_true, Bool.not_eq_true'] at h
      exact h
    · intro _; rw [hr1]; rfl

end Wbxml.Model.TreeHeap
