/-
  C02, bounds, tree half: the tree `treeOfXml` builds is linearly bounded by the events Expat
  reported.

  * `Node.sizeW w`: number of nodes and attributes plus all octets of names, values and text; every
    document node (`.tree`) additionally weighs `w lang` (`w = 0`: the plain size `Node.size`; the
    encoder bound uses `w lang = |XML public id| + 20`, the cost of a document header).
  * `evSize`: number of events and attributes plus all octets of element names, attribute names and
    values and character data — "the length of the document after entity expansion" as far as the
    model sees it (Expat is a parameter).
  * `step_size`: one callback adds at most `2 * evSize1 e` to the builder's state, plus the tree of
    the embedded document it asked for.
  * `expSize` / `expDocs`: events / documents of a run with the runs of all embedded documents
    (DevInf, DM-DDF) it re-parses, recursively, as `treeOfXml` visits them.
  * `treeOfXml_sizeW`: `sizeW w t ≤ 2 * expSize + D * expDocs` when `1 + w lang ≤ D`.
-/
import Wbxml.Lemmas.X2WFuel
import Wbxml.Lemmas.CodecBase64

namespace Wbxml.Model

/-- Octets a tag name carries (the row's XML name for a token). -/
def Name.size : Name → Nat
  | .token r => r.name.length
  | .literal s => s.length

def AName.size : AName → Nat
  | .token r => r.name.length
  | .literal s => s.length

/-- One attribute: itself, its name, its value buffer. -/
def Attr.size (a : Attr) : Nat := 1 + a.name.size + a.value.length

def attrsSize : List Attr → Nat
  | [] => 0
  | a :: r => a.size + attrsSize r

mutual
/-- Nodes, attributes and octets of a sub-tree; a document node weighs `1 + w lang` plus its root. -/
def Node.sizeW (w : Option Lang → Nat) : Node → Nat
  | .elt n a kids => 1 + n.size + attrsSize a + Node.sizeWL w kids
  | .text s => 1 + s.length
  | .cdata kids => 1 + Node.sizeWL w kids
  | .tree l _ none => 1 + w l
  | .tree l _ (some r) => 1 + w l + r.sizeW w
def Node.sizeWL (w : Option Lang → Nat) : List Node → Nat
  | [] => 0
  | n :: rest => n.sizeW w + Node.sizeWL w rest
end

/-- The plain size: nodes + attributes + octets. -/
def Node.size (n : Node) : Nat := n.sizeW (fun _ => 0)
def Node.sizeL (l : List Node) : Nat := Node.sizeWL (fun _ => 0) l

/-- A document: its `WBXMLTree` object (one unit) and its nodes. -/
def Tree.sizeW (w : Option Lang → Nat) (t : Tree) : Nat := (Node.tree t.lang t.origCharset t.root).sizeW w
def Tree.size (t : Tree) : Nat := t.sizeW (fun _ => 0)

end Wbxml.Model

namespace Wbxml.Lemmas.X2W
open Wbxml Wbxml.Model

/-! ### Size of an event list -/

def attrsOctets : List (Bytes × Bytes) → Nat
  | [] => 0
  | p :: r => 1 + p.1.length + p.2.length + attrsOctets r

/-- One event: itself, its attributes (one unit each), and the octets of the names, attribute values
    and character data it carries. -/
def evSize1 : XEvent → Nat
  | .xmlDecl _ _ => 1
  | .doctype _ _ => 1
  | .startElt name attrs _ => 1 + name.length + attrsOctets attrs
  | .endElt name _ => 1 + name.length
  | .startCdata => 1
  | .endCdata => 1
  | .chars s => 1 + s.length
  | .pi => 1

def evSize : List XEvent → Nat
  | [] => 0
  | e :: r => evSize1 e + evSize r

theorem evSize1_pos (e : XEvent) : 1 ≤ evSize1 e := by
  cases e <;> simp only [evSize1] <;> omega

theorem evSize_append (a b : List XEvent) : evSize (a ++ b) = evSize a + evSize b := by
  induction a with
  | nil => simp [evSize]
  | cons e r ih => simp only [List.cons_append, evSize, ih]; omega

theorem length_le_evSize : ∀ (evs : List XEvent), evs.length ≤ evSize evs
  | [] => Nat.le_refl _
  | e :: r => by
    have := evSize1_pos e
    have := length_le_evSize r
    simp only [List.length_cons, evSize]; omega

/-! ### List facts about `sizeWL` -/

theorem sizeWL_append (w : Option Lang → Nat) : ∀ (a b : List Node),
    Node.sizeWL w (a ++ b) = Node.sizeWL w a + Node.sizeWL w b
  | [], b => by simp [Node.sizeWL]
  | n :: a, b => by simp only [List.cons_append, Node.sizeWL, sizeWL_append w a b]; omega

theorem sizeW_text (w : Option Lang → Nat) (s : Bytes) : (Node.text s).sizeW w = 1 + s.length := by
  simp [Node.sizeW]

theorem addKid_size (w : Option Lang → Nat) (kids : List Node) (n : Node) :
    Node.sizeWL w (addKid kids n) ≤ Node.sizeWL w kids + n.sizeW w := by
  unfold addKid
  split
  · rename_i s t hl
    obtain ⟨ys, hk⟩ := List.getLast?_eq_some_iff.mp hl
    subst hk
    rw [List.dropLast_concat, sizeWL_append, sizeWL_append]
    simp only [Node.sizeWL, Node.sizeW, List.length_append]
    omega
  · rw [sizeWL_append]
    simp [Node.sizeWL]

/-! ### Size of the builder's state -/

def kindSize : FrameKind → Nat
  | .elt n a => 1 + n.size + attrsSize a
  | .cdata => 1

def contentLen : Option Bytes → Nat
  | some c => c.length
  | none => 0

/-- An open frame: its node, the children attached so far, the cached base64 text. -/
def frameSize (w : Option Lang → Nat) (f : XFrame) : Nat :=
  kindSize f.kind + Node.sizeWL w f.kids + contentLen f.content

def stackSize (w : Option Lang → Nat) : List XFrame → Nat
  | [] => 0
  | f :: r => frameSize w f + stackSize w r

def rootSize (w : Option Lang → Nat) : Option Node → Nat
  | some r => r.sizeW w
  | none => 0

def stSize (w : Option Lang → Nat) (b : XBState) : Nat := stackSize w b.stack + rootSize w b.root

theorem close_size (w : Option Lang → Nat) (f : XFrame) : f.close.sizeW w ≤ frameSize w f := by
  unfold XFrame.close frameSize
  cases f.kind with
  | elt n a => simp only [Node.sizeW, kindSize]; omega
  | cdata => simp only [Node.sizeW, kindSize]; omega

theorem frameSize_addKid (w : Option Lang → Nat) (f : XFrame) (n : Node) :
    frameSize w { f with kids := addKid f.kids n } ≤ frameSize w f + n.sizeW w := by
  unfold frameSize
  have := addKid_size w f.kids n
  simp only
  omega

theorem attach_size (w : Option Lang → Nat) (b : XBState) (n : Node) :
    stSize w (b.attach n) ≤ stSize w b + n.sizeW w := by
  unfold XBState.attach
  split
  · rename_i f rest hs
    have := frameSize_addKid w f n
    simp only [stSize, hs, stackSize]
    omega
  · rename_i hs
    split
    · rename_i hr
      simp only [stSize, hs, hr, stackSize, rootSize]
      omega
    · simp only [stSize]
      omega

theorem xPop_size (w : Option Lang → Nat) (b : XBState) : stSize w (xPop b) ≤ stSize w b := by
  unfold xPop
  cases hs : b.stack with
  | nil => simp only [stSize, hs]; omega
  | cons f rest =>
    simp only
    have h4 := close_size w f
    cases hk : f.kind with
    | elt n a =>
      simp only
      have h1 := attach_size w ({ b with stack := rest } : XBState) f.close
      simp only [stSize, hs, stackSize] at h1 ⊢
      omega
    | cdata =>
      cases rest with
      | nil => simp only [stSize, hs]; omega
      | cons g rest' =>
        simp only
        have h1 := attach_size w ({ b with stack := rest' } : XBState)
          ({ g with kids := addKid g.kids f.close } : XFrame).close
        have h2 := close_size w ({ g with kids := addKid g.kids f.close } : XFrame)
        have h3 := frameSize_addKid w g f.close
        simp only [stSize, hs, stackSize] at h1 ⊢
        omega

/-! ### Base64: decoding never lengthens -/

theorem b64DecodeLoop_length : ∀ (p : Bytes), (Codec.b64DecodeLoop p).length ≤ p.length
  | a :: b :: c :: d :: e :: rest => by
    have := b64DecodeLoop_length (e :: rest)
    simp only [Codec.b64DecodeLoop, List.length_cons] at this ⊢
    omega
  | [a, b, c, d] => by simp [Codec.b64DecodeLoop]
  | [a, b, c] => by simp [Codec.b64DecodeLoop]
  | [a, b] => by simp [Codec.b64DecodeLoop]
  | [_] => by simp [Codec.b64DecodeLoop]
  | [] => by simp [Codec.b64DecodeLoop]

theorem b64DecodeE_length (s d : Bytes) (h : Codec.b64DecodeE s = .ok d) : d.length ≤ s.length := by
  rw [Wbxml.Lemmas.Codec.b64DecodeE_eq] at h
  injection h with h
  subst h
  have h1 := b64DecodeLoop_length (Codec.b64Scan s)
  have h2 : (Codec.b64Scan s).length ≤ s.length := by
    unfold Codec.b64Scan
    exact (List.takeWhile_sublist _).length_le
  omega

theorem b64Decode_length (s d : Bytes) (h : Codec.b64Decode s = some d) : d.length ≤ s.length := by
  unfold Codec.b64Decode at h
  cases hr : Codec.b64DecodeE s with
  | error e => rw [hr] at h; cases h
  | ok r =>
    rw [hr] at h
    cases r with
    | nil => cases h
    | cons x xs =>
      injection h with h
      subst h
      exact b64DecodeE_length s _ hr

theorem base64NoSpaces_length (s : Bytes) : (base64NoSpaces s).length ≤ s.length := by
  unfold base64NoSpaces
  exact List.length_filter_le _ _

theorem decodeTop_size (w : Option Lang → Nat) (b : XBState) : stSize w (decodeTop b) ≤ stSize w b + 1 := by
  unfold decodeTop
  split
  · rename_i f rest hs
    split
    · rename_i n a c hk hc
      split
      · simp only
        have hfs : frameSize w ({ f with content := none } : XFrame) + c.length = frameSize w f := by
          simp only [frameSize, hc, contentLen]
          omega
        split
        · simp only [stSize, hs, stackSize]
          omega
        · rename_i d hd
          have h1 := attach_size w ({ b with stack := { f with content := none } :: rest } : XBState) (.text d)
          have h2 := b64Decode_length _ _ hd
          have h3 := base64NoSpaces_length c
          rw [sizeW_text] at h1
          simp only [stSize, hs, stackSize] at h1 ⊢
          omega
      · omega
    · omega
  · omega

/-! ### The element frame built from an XML name -/

theorem localName_length (name : Bytes) : (localName name).length ≤ name.length := by
  unfold localName
  split
  · simp only [List.length_drop]; omega
  · exact Nat.le_refl _

theorem xmlNsUri_length : xmlNsUri.length = 37 := by decide

theorem xmlAttrName_length (n : Bytes) :
    (if xmlNsUri.isPrefixOf n = true then b!"xml:" ++ n.drop xmlNsUri.length else n).length ≤ n.length := by
  split
  · rename_i hp
    have := (List.isPrefixOf_iff_prefix.mp hp).length_le
    rw [xmlNsUri_length] at this
    simp only [List.length_append, List.length_drop, xmlNsUri_length]
    have : (b!"xml:").length = 4 := by decide
    omega
  · exact Nat.le_refl _

theorem attrsSize_map_le (g : Bytes × Bytes → Attr) (hg : ∀ p, (g p).size ≤ 1 + p.1.length + p.2.length) :
    ∀ (l : List (Bytes × Bytes)), attrsSize (l.map g) ≤ attrsOctets l
  | [] => by simp [attrsSize, attrsOctets]
  | p :: rest => by
    have := hg p
    have := attrsSize_map_le g hg rest
    simp only [List.map_cons, attrsSize, attrsOctets]
    omega

/-- the obligation `attrsSize_map_le` leaves for the attribute conversion of `xmlEltCore` -/
local macro "attr_tac" : tactic => `(tactic| (
  intro p
  obtain ⟨n, v⟩ := p
  have hx := xmlAttrName_length n
  simp only [Attr.size]
  generalize (if xmlNsUri.isPrefixOf n = true then b!"xml:" ++ n.drop xmlNsUri.length else n) = n' at hx ⊢
  split
  · split
    · rename_i r k he
      simp only [AName.size]
      rw [encAttr_name _ _ _ _ _ he]
      omega
    · simp only [AName.size]; omega
  · simp only [AName.size]; omega))

theorem xmlEltCore_size (w : Option Lang → Nat) (lang : Lang) (nsName eltName : Bytes) (attrs : List (Bytes × Bytes)) :
    frameSize w (xmlEltCore lang nsName eltName attrs).1 ≤ 1 + eltName.length + attrsOctets attrs := by
  have hshape : ∃ tag page as, xmlEltCore lang nsName eltName attrs = ({ kind := .elt tag as, kids := [] }, page) ∧
      tag.size = eltName.length ∧ attrsSize as ≤ attrsOctets attrs := by
    unfold xmlEltCore
    have hattrs := fun (g : Bytes × Bytes → Attr) hg => attrsSize_map_le g hg attrs
    cases ht : lang.tags with
    | none =>
      exact ⟨_, _, _, rfl, rfl, hattrs _ (by attr_tac)⟩
    | some tags =>
      simp only
      split
      · rename_i r he
        refine ⟨_, _, _, rfl, ?_, hattrs _ (by attr_tac)⟩
        simp only [Name.size]; rw [encTag_name _ _ _ _ he]
      · exact ⟨_, _, _, rfl, rfl, hattrs _ (by attr_tac)⟩
  obtain ⟨tag, page, as, e, h1, h2⟩ := hshape
  rw [e]
  simp only [frameSize, kindSize, Node.sizeWL, contentLen]
  omega

theorem xmlElt_size (w : Option Lang → Nat) (lang : Lang) (name : Bytes) (attrs : List (Bytes × Bytes)) :
    frameSize w (xmlElt lang name attrs).1 ≤ 1 + name.length + attrsOctets attrs := by
  obtain ⟨nsName, e⟩ := xmlElt_eq lang name attrs
  rw [e]
  have := xmlEltCore_size w lang nsName (localName name) attrs
  have := localName_length name
  omega

/-! ### One callback -/

/-- What the trees of embedded documents may weigh: `S doc` bounds the tree `sub` answers for `doc`. -/
def SubSize (w : Option Lang → Nat) (sub : Bytes → Option (Except Nat Tree)) (S : Bytes → Nat) : Prop :=
  ∀ doc t, sub doc = some (.ok t) → t.sizeW w ≤ S doc

def queryCost (S : Bytes → Nat) : Option Bytes → Nat
  | some d => S d
  | none => 0

theorem answer_size (w : Option Lang → Nat) {sub : Bytes → Option (Except Nat Tree)} {S : Bytes → Nat}
    (hsub : SubSize w sub S) (b : XBState) (doc : Bytes) :
    stSize w (answer b doc (sub doc)) ≤ stSize w b + S doc := by
  cases hs : sub doc with
  | none => simp only [answer, stSize]; omega
  | some r =>
    cases r with
    | error e => simp only [answer, stSize]; omega
    | ok t =>
      simp only [answer]
      have h1 := attach_size w ({ b with skipLvl := 0 } : XBState) (.tree t.lang t.origCharset t.root)
      have h2 := hsub doc t hs
      simp only [Tree.sizeW] at h2
      simp only [stSize] at h1 ⊢
      omega

theorem endTailNQ_size (w : Option Lang → Nat) (b : XBState) (name : Bytes) :
    stSize w (endTailNQ b name) ≤ stSize w b := by
  unfold endTailNQ
  split
  · exact Nat.le_refl _
  · split
    · exact Nat.le_refl _
    · split
      · split <;> exact Nat.le_refl _
      · exact xPop_size w b

/-- **One callback**: the builder's state grows by at most twice the size of the event, plus the
    tree of the embedded document the callback asked for. -/
theorem step_size (w : Option Lang → Nat) (main : List Lang) (input : Bytes)
    {sub : Bytes → Option (Except Nat Tree)} {S : Bytes → Nat} (hsub : SubSize w sub S)
    (b : XBState) (e : XEvent) :
    stSize w (xbuildStep main input sub b e) ≤
      stSize w b + 2 * evSize1 e + queryCost S (queryOf main input b e) := by
  by_cases hneed : b.need.isSome = true
  · rw [step_need _ _ _ _ _ hneed]; omega
  have hnone : b.need = none := by cases hb : b.need with | none => rfl | some d => simp [hb] at hneed
  cases e with
  | endElt name idx =>
    rw [step_endElt _ _ _ _ _ _ hnone, endTail_eq]
    have hd := decodeTop_size w b
    simp only [queryOf, hnone, Option.isSome_none, Bool.false_eq_true, ↓reduceIte, evSize1]
    cases hq : queryTail main input (decodeTop b) name idx with
    | none =>
      simp only [queryCost]
      have := endTailNQ_size w (decodeTop b) name
      omega
    | some doc =>
      simp only [queryCost]
      have := answer_size w hsub (decodeTop b) doc
      omega
  | xmlDecl v enc =>
    unfold xbuildStep
    rw [if_neg hneed]
    simp only [queryOf, queryCost]
    split
    · split
      · simp only [stSize]; omega
      · omega
    · omega
  | doctype sysid pubid =>
    unfold xbuildStep
    rw [if_neg hneed]
    simp only [queryOf, queryCost]
    split
    · simp only [stSize]; omega
    · omega
  | pi =>
    unfold xbuildStep
    rw [if_neg hneed]
    simp only [queryOf, queryCost]
    omega
  | startCdata =>
    unfold xbuildStep
    rw [if_neg hneed]
    simp only [queryOf, queryCost, evSize1]
    split
    · omega
    · simp only [stSize, stackSize, frameSize, kindSize, Node.sizeWL, contentLen]
      omega
  | endCdata =>
    unfold xbuildStep
    rw [if_neg hneed]
    simp only [queryOf, queryCost, evSize1]
    split
    · omega
    · split
      · simp only [stSize]; omega
      · rename_i f rest hs
        have h1 := attach_size w ({ b with stack := rest } : XBState) f.close
        have h2 := close_size w f
        simp only [stSize, hs, stackSize] at h1 ⊢
        omega
  | chars s =>
    unfold xbuildStep
    rw [if_neg hneed]
    simp (config := { zeta := false }) only [queryOf, queryCost, evSize1]
    split
    · omega
    · extract_lets ty s' b1
      have hs' : 2 + s'.length ≤ 2 * (1 + s.length) := by
        unfold s'
        split
        · rename_i hc
          simp only [Bool.and_eq_true, beq_iff_eq] at hc
          rw [hc.2]
          decide
        · omega
      have hb1 : stSize w b1 ≤ stSize w b + 1 := by
        unfold b1
        split
        · split
          · extract_lets fic
            split
            · omega
            · split
              · omega
              · simp only [stSize, stackSize, frameSize, kindSize, Node.sizeWL, contentLen]
                omega
          · omega
        · omega
      split
      · rename_i f rest hs
        split
        · split
          · have hf : frameSize w ({ f with content := some (f.content.getD [] ++ s') } : XFrame) =
                frameSize w f + s'.length := by
              simp only [frameSize]
              cases f.content <;> simp [contentLen, Nat.add_assoc]
            simp only [stSize, hs, stackSize, hf] at hb1 ⊢
            omega
          · have h1 := attach_size w b1 (.text s')
            rw [sizeW_text] at h1
            omega
        · have h1 := attach_size w b1 (.text s')
          rw [sizeW_text] at h1
          omega
      · simp only [stSize] at hb1 ⊢
        omega
  | startElt name attrs idx =>
    unfold xbuildStep
    rw [if_neg hneed]
    simp (config := { zeta := false }) only [queryOf, queryCost, evSize1]
    split
    · omega
    · split
      · simp only [stSize]; omega
      · extract_lets isRoot b1
        have hb1 : stSize w b1 = stSize w b := by
          unfold b1
          split
          · split <;> rfl
          · rfl
        split
        · omega
        · split
          · simp only [stSize] at hb1 ⊢; omega
          · split
            · simp only [stSize] at hb1 ⊢; omega
            · rename_i lang _
              split
              · simp only [stSize] at hb1 ⊢; omega
              · have hfr := xmlElt_size w lang name attrs
                simp only [stSize, stackSize] at hb1 ⊢
                omega

/-! ### A run -/

/-- What a run may add to the builder's state, callback by callback. -/
def runCost (main : List Lang) (input : Bytes) (sub : Bytes → Option (Except Nat Tree)) (S : Bytes → Nat) :
    List XEvent → XBState → Nat
  | [], _ => 0
  | e :: evs, b =>
    2 * evSize1 e + queryCost S (queryOf main input b e) +
      runCost main input sub S evs (xbuildStep main input sub b e)

theorem fold_size (w : Option Lang → Nat) (main : List Lang) (input : Bytes)
    {sub : Bytes → Option (Except Nat Tree)} {S : Bytes → Nat} (hsub : SubSize w sub S) :
    ∀ (evs : List XEvent) (b : XBState),
      stSize w (evs.foldl (xbuildStep main input sub) b) ≤ stSize w b + runCost main input sub S evs b
  | [], b => by simp [runCost]
  | e :: evs, b => by
    have h1 := step_size w main input hsub b e
    have h2 := fold_size w main input hsub evs (xbuildStep main input sub b e)
    simp only [List.foldl_cons, runCost]
    omega

theorem runCost_eq (main : List Lang) (input : Bytes) (sub : Bytes → Option (Except Nat Tree)) (S : Bytes → Nat) :
    ∀ (evs : List XEvent) (b : XBState),
      runCost main input sub S evs b = 2 * evSize evs + ((queries main input sub evs b).map S).sum
  | [], b => by simp [runCost, evSize, queries]
  | e :: evs, b => by
    have ih := runCost_eq main input sub S evs (xbuildStep main input sub b e)
    simp only [runCost, evSize, queries, List.map_append, List.sum_append, ih]
    cases queryOf main input b e with
    | none => simp only [queryCost, List.map_nil, List.sum_nil]; omega
    | some d => simp only [queryCost, List.map_cons, List.map_nil, List.sum_cons, List.sum_nil]; omega

/-- Every request belongs to one end-element event. -/
theorem queries_length_le (main : List Lang) (input : Bytes) (sub : Bytes → Option (Except Nat Tree)) :
    ∀ (evs : List XEvent) (b : XBState), (queries main input sub evs b).length ≤ evs.length
  | [], b => by simp [queries]
  | e :: evs, b => by
    have ih := queries_length_le main input sub evs (xbuildStep main input sub b e)
    simp only [queries, List.length_append, List.length_cons]
    cases queryOf main input b e with
    | none => simp only [List.length_nil]; omega
    | some d => simp only [List.length_cons, List.length_nil]; omega

/-! ### Sums over the requests of a run -/

theorem sum_map_lin (a b : Bytes → Nat) (D : Nat) : ∀ (l : List Bytes),
    (l.map (fun d => 2 * a d + D * b d)).sum = 2 * (l.map a).sum + D * (l.map b).sum
  | [] => by simp
  | x :: l => by
    simp only [List.map_cons, List.sum_cons, sum_map_lin a b D l, Nat.mul_add]
    omega

theorem sum_map_succ (a : Bytes → Nat) : ∀ (l : List Bytes),
    (l.map (fun d => 1 + a d)).sum = l.length + (l.map a).sum
  | [] => by simp
  | x :: l => by
    simp only [List.map_cons, List.sum_cons, sum_map_succ a l, List.length_cons]
    omega

theorem sum_map_le (a b : Bytes → Nat) : ∀ (l : List Bytes), (∀ d ∈ l, a d ≤ b d) →
    (l.map a).sum ≤ (l.map b).sum
  | [], _ => by simp
  | x :: l, h => by
    have h1 := h x (by simp)
    have h2 := sum_map_le a b l (fun d hd => h d (by simp [hd]))
    simp only [List.map_cons, List.sum_cons]
    omega

/-! ### The whole recursion: a document with the embedded documents it re-parses -/

/-- Events of the run of `xml` and of the runs of all embedded documents the builder asks for
    while processing it, recursively (the recursion `treeOfXml` performs, with its fuel). -/
def expSize (main : List Lang) (env : List (Bytes × ExpatRun)) : Nat → Bytes → Nat
  | 0, _ => 0
  | f + 1, xml =>
    match env.find? (fun p => p.1 == xml) with
    | none => 0
    | some (_, run) =>
      evSize run.events +
        ((queries main xml (subOf main env f) run.events {}).map (expSize main env f)).sum

/-- Number of documents visited: the document and, recursively, every embedded one. -/
def expDocs (main : List Lang) (env : List (Bytes × ExpatRun)) : Nat → Bytes → Nat
  | 0, _ => 0
  | f + 1, xml =>
    match env.find? (fun p => p.1 == xml) with
    | none => 0
    | some (_, run) =>
      1 + ((queries main xml (subOf main env f) run.events {}).map (expDocs main env f)).sum

/-- Every embedded document is paid for by the end-element event that closes it. -/
theorem expDocs_le (main : List Lang) (env : List (Bytes × ExpatRun)) :
    ∀ (f : Nat) (xml : Bytes), expDocs main env f xml ≤ 1 + expSize main env f xml
  | 0, xml => by simp [expDocs]
  | f + 1, xml => by
    simp only [expDocs, expSize]
    split
    · omega
    · rename_i k run hfind
      have h1 := sum_map_le (expDocs main env f) (fun d => 1 + expSize main env f d)
        (queries main xml (subOf main env f) run.events {}) (fun d _ => expDocs_le main env f d)
      rw [sum_map_succ] at h1
      have h2 := queries_length_le main xml (subOf main env f) run.events {}
      have h3 := length_le_evSize run.events
      omega

/-- A document that embeds nothing: just its events. -/
theorem expSize_plain (main : List Lang) (env : List (Bytes × ExpatRun)) (f : Nat) (xml k : Bytes) (run : ExpatRun)
    (hfind : env.find? (fun p => p.1 == xml) = some (k, run))
    (hq : queries main xml (subOf main env f) run.events {} = []) :
    expSize main env (f + 1) xml = evSize run.events ∧ expDocs main env (f + 1) xml = 1 := by
  simp [expSize, expDocs, hfind, hq]

/-- **The tree is linear in the events**: with `1 + w lang ≤ D` for the language of every document
    `treeOfXml` delivers, `sizeW w t ≤ 2 * expSize + D * expDocs`. -/
theorem treeOfXml_sizeW (main : List Lang) (env : List (Bytes × ExpatRun)) (w : Option Lang → Nat) (D : Nat)
    (hw : ∀ f xml t, treeOfXml main env f xml = .ok t → 1 + w t.lang ≤ D) :
    ∀ (f : Nat) (xml : Bytes) (t : Tree), treeOfXml main env f xml = .ok t →
      t.sizeW w ≤ 2 * expSize main env f xml + D * expDocs main env f xml
  | 0, xml, t, h => by rw [treeOfXml] at h; cases h
  | f + 1, xml, t, h => by
    have hwt := hw (f + 1) xml t h
    rw [treeOfXml_succ] at h
    split at h
    · cases h
    · split at h
      · cases h
      · rename_i k run hfind
        simp only at h
        split at h
        · split at h <;> cases h
        · split at h
          · cases h
          · split at h
            · cases h
            · injection h with h
              subst h
              have hsub : SubSize w (subOf main env f)
                  (fun d => 2 * expSize main env f d + D * expDocs main env f d) := by
                intro doc t' ht'
                have : treeOfXml main env f doc = .ok t' := by
                  unfold subOf at ht'
                  cases hr : treeOfXml main env f doc with
                  | ok t'' => rw [hr] at ht'; injection ht' with ht'; injection ht' with ht'; rw [ht']
                  | err e => rw [hr] at ht'; injection ht' with ht'; cases ht'
                  | need d => rw [hr] at ht'; cases ht'
                exact treeOfXml_sizeW main env w D hw f doc t' this
              have hfold := fold_size w main xml hsub run.events {}
              rw [runCost_eq, sum_map_lin] at hfold
              have h0 : stSize w ({} : XBState) = 0 := rfl
              simp only [expSize, expDocs, hfind, Nat.mul_add, Nat.mul_one]
              simp only at hwt
              generalize (List.foldl (xbuildStep main xml (subOf main env f)) {} run.events) = bf at hfold hwt ⊢
              have hroot : Tree.sizeW w { lang := bf.lang, origCharset := bf.charset, root := bf.root } ≤
                  1 + w bf.lang + stSize w bf := by
                simp only [Tree.sizeW, stSize]
                cases bf.root with
                | none => simp only [Node.sizeW, rootSize]; omega
                | some r => simp only [Node.sizeW, rootSize]; omega
              omega

end Wbxml.Lemmas.X2W
