/-
  C16 — specifications of `wbxml_strtbl_check_references` (both loops) in the ledger monad.
-/
import Wbxml.Lemmas.AllocEnc
namespace Wbxml.Model.Alloc
open Wbxml
set_option linter.unusedSimpArgs false
set_option linter.unusedVariables false
set_option linter.unnecessarySimpa false

theorem bumpCount_owned (bytes : Bytes) (cells cells' : List (Nat × StrElt)) (h : bumpCount bytes cells = some cells') :
    cellsOwned StrElt.owned cells' = cellsOwned StrElt.owned cells := by
  induction cells generalizing cells' with
  | nil => simp [bumpCount] at h
  | cons x rest ih =>
    obtain ⟨c, r⟩ := x
    simp only [bumpCount] at h
    split at h
    · cases h; simp [cellsOwned, StrElt.owned]
    · cases hb : bumpCount bytes rest with
      | none => simp [hb] at h
      | some rest' =>
        simp only [hb, Option.map_some, Option.some.injEq] at h
        subst h
        have := ih rest' hb
        simp only [cellsOwned, List.flatMap_cons] at this ⊢
        rw [this]

theorem bumpCount_items (bytes : Bytes) (cells cells' : List (Nat × StrElt)) (h : bumpCount bytes cells = some cells') :
    ∀ x ∈ cells'.map (·.2), ∃ y ∈ cells.map (·.2), y.string = x.string ∧ y.stat = x.stat := by
  induction cells generalizing cells' with
  | nil => simp [bumpCount] at h
  | cons a rest ih =>
    obtain ⟨c, r⟩ := a
    simp only [bumpCount] at h
    split at h
    · cases h
      intro x hx
      simp only [List.map_cons, List.mem_cons] at hx
      rcases hx with rfl | hx
      · exact ⟨r, by simp, rfl, rfl⟩
      · exact ⟨x, by simp [hx], rfl, rfl⟩
    · cases hb : bumpCount bytes rest with
      | none => simp [hb] at h
      | some rest' =>
        simp only [hb, Option.map_some, Option.some.injEq] at h
        subst h
        intro x hx
        simp only [List.map_cons, List.mem_cons] at hx
        rcases hx with hx | hx
        · exact ⟨r, by simp, by rw [hx], by rw [hx]⟩
        · obtain ⟨y, hy, e1, e2⟩ := ih rest' hb x hx
          exact ⟨y, by simp [hy], e1, e2⟩

/-- Blocks of the list `*strings` during the counting loop: its struct and the cells still in it
    (with their strings when those are owned, i.e. `stat = false`). -/
abbrev stringsOwned (stat : Bool) (sHdr : Nat) (cells : List (Nat × ABuf)) : List Nat :=
  sHdr :: cellsOwned (strOi stat) cells

abbrev refsOwned (l : AList StrElt) : List Nat := l.hdr :: cellsOwned StrElt.owned l.cells

/-- First loop of `wbxml_strtbl_check_references` (repaired): either every string ends up in exactly
    one reference element (or is destroyed as a duplicate), or — on any failed allocation — the
    remaining strings, the string in hand, the references and both lists are all released. -/
theorem countRefs_spec (Bor : Nat → Prop) (stat : Bool) (sHdr : Nat) (cells : List (Nat × ABuf)) (referenced : AList StrElt)
    (s : Ledger) (wf : s.WF) (own : Owns s (stringsOwned stat sHdr cells ++ refsOwned referenced))
    (hbR : ∀ y ∈ referenced.cells.map (·.2), y.stat = true → Bor y.string.hdr)
    (hbC : stat = true → ∀ b ∈ cells.map (·.2), Bor b.hdr) :
    Good (countRefs stat sHdr referenced cells) s (fun r s' =>
      Clean s s' (stringsOwned stat sHdr cells ++ refsOwned referenced)
        (match r with | none => [] | some ref' => sHdr :: refsOwned ref') ∧
      (s.hits < s'.hits → r = none) ∧
      (∀ ref', r = some ref' → ∀ x ∈ ref'.cells.map (·.2), x.stat = true → Bor x.string.hdr)) := by
  induction cells generalizing referenced s with
  | nil =>
    simp only [countRefs, pure_eq, good_ret]
    refine ⟨?_, by simp, fun ref' h => by cases h; exact hbR⟩
    simpa [stringsOwned, cellsOwned] using Clean.id wf own
  | cons x rest ih =>
    obtain ⟨c, string⟩ := x
    have hX : stringsOwned stat sHdr ((c, string) :: rest) ++ refsOwned referenced =
        sHdr :: ((c :: strOi stat string) ++ (cellsOwned (strOi stat) rest ++ refsOwned referenced)) := by
      simp [stringsOwned, cellsOwned, List.flatMap_cons]
    rw [hX] at own ⊢
    obtain ⟨hsl, hsn, own'⟩ := Owns.cons_iff.1 own
    obtain ⟨ownCO, ownRR, dCO⟩ := Owns.append_iff.1 own'
    obtain ⟨hcl, hcn, ownO⟩ := Owns.cons_iff.1 ownCO
    obtain ⟨ownRest, ownR, dRR⟩ := Owns.append_iff.1 ownRR
    have hold : ∀ i ∈ sHdr :: ((c :: strOi stat string) ++ (cellsOwned (strOi stat) rest ++ refsOwned referenced)), i ≤ s.next :=
      fun i hi => wf i (own.2 i hi)
    unfold countRefs
    simp only [bind_eq, pure_eq]
    refine Good.bind (deref_spec sHdr s hsl) ?_
    intro _ s0 e0; subst e0
    refine Good.bind (deref_spec c s0 hcl) ?_
    intro _ s0' e0'; have e0'' := e0'.symm; subst e0''
    refine Good.bind (free_spec (some c) s0 wf (by intro a ha; cases ha; exact hcl)) ?_
    intro _ s1 ⟨c1, h1, n1⟩
    have c1' : Clean s0 s1 [c] [] := by simpa using c1
    have hn1 := c1'.next; have hh1 := c1'.hits
    -- what is still owned after the cell has been released
    have keep1 : ∀ Y : List Nat, Owns s0 Y → c ∉ Y → Owns s1 Y :=
      fun Y oY hY => c1'.keeps oY (by intro i hi hm; simp at hm; subst hm; exact hY hi)
    have hcO : c ∉ strOi stat string := hcn
    have hcRest : c ∉ cellsOwned (strOi stat) rest := fun hm => dCO c (by simp) (List.mem_append_left _ hm)
    have hcR : c ∉ refsOwned referenced := fun hm => dCO c (by simp) (List.mem_append_right _ hm)
    have ownO1 : Owns s1 (strOi stat string) := keep1 _ ownO hcO
    have ownRest1 : Owns s1 (cellsOwned (strOi stat) rest) := keep1 _ ownRest hcRest
    have ownR1 : Owns s1 (refsOwned referenced) := keep1 _ ownR hcR
    have hsl1 : sHdr ∈ s1.live := (c1'.live _).2 (Or.inl ⟨hsl, by simp; intro h; subst h; exact hsn (by simp)⟩)
    have dORest : ∀ i ∈ strOi stat string, i ∉ cellsOwned (strOi stat) rest :=
      fun i hi hm => dCO i (List.mem_cons_of_mem _ hi) (List.mem_append_left _ hm)
    have dOR : ∀ i ∈ strOi stat string, i ∉ refsOwned referenced :=
      fun i hi hm => dCO i (List.mem_cons_of_mem _ hi) (List.mem_append_right _ hm)
    have hsO : sHdr ∉ strOi stat string := fun hm => hsn (List.mem_append_left _ (List.mem_cons_of_mem _ hm))
    have hsRest : sHdr ∉ cellsOwned (strOi stat) rest := fun hm => hsn (List.mem_append_right _ (List.mem_append_left _ hm))
    have hsR : sHdr ∉ refsOwned referenced := fun hm => hsn (List.mem_append_right _ (List.mem_append_right _ hm))
    -- "release everything": the common tail of the two failure exits, from a ledger `t` in which the
    -- references and the rest of `strings` are still owned
    have hfail : ∀ (t : Ledger), t.WF → Owns t (refsOwned referenced) → Owns t (stringsOwned stat sHdr rest) →
        (∀ i ∈ refsOwned referenced, i ∉ stringsOwned stat sHdr rest) →
        Good (Prog.bind (listDestroy (some referenced) (fun x => strEltDestroy (some x)))
              (fun _ => Prog.bind (listDestroy (some (⟨sHdr, rest⟩ : AList ABuf)) (destroyString stat))
                (fun _ => Prog.ret (none : Option (AList StrElt))))) t (fun r t' =>
          r = none ∧ (∀ i, i ∈ t'.live ↔ i ∈ t.live ∧ i ∉ refsOwned referenced ∧ i ∉ stringsOwned stat sHdr rest) ∧
          t'.sched = t.sched ∧ t'.next = t.next ∧ t'.hits = t.hits ∧ t'.WF) := by
      intro t wft oR oS dRS
      refine Good.bind (listDestroy_spec StrElt.owned _ elt_destroys (some referenced) t wft (by simpa [listOwned] using oR)) ?_
      intro _ t1 ⟨d1, hd1, nd1⟩
      have d1' : Clean t t1 (refsOwned referenced) [] := by simpa [listOwned] using d1
      have oS1 : Owns t1 (stringsOwned stat sHdr rest) := d1'.keeps oS (fun i hi hm => dRS i hm hi)
      refine Good.bind (listDestroy_spec (strOi stat) _ (string_destroys stat) (some ⟨sHdr, rest⟩) t1 d1.wf (by simpa [listOwned] using oS1)) ?_
      intro _ t2 ⟨d2, hd2, nd2⟩
      have d2' : Clean t1 t2 (stringsOwned stat sHdr rest) [] := by simpa [listOwned] using d2
      simp only [good_ret]
      refine ⟨by simp, ?_, by rw [d2.sched, d1.sched], by omega, by omega, d2.wf⟩
      intro i
      rw [d2'.live, d1'.live]
      simp only [List.not_mem_nil, or_false]
      grind
    have ownS1 : Owns s1 (stringsOwned stat sHdr rest) := Owns.cons_iff.2 ⟨hsl1, hsRest, ownRest1⟩
    have dRS : ∀ i ∈ refsOwned referenced, i ∉ stringsOwned stat sHdr rest := by
      intro i hi hm
      rcases List.mem_cons.1 hm with h | h
      · subst h; exact hsR hi
      · exact dRR i h hi
    cases hb : bumpCount string.bytes referenced.cells with
    | some cells' =>
      simp only
      refine Good.bind (string_destroys stat string s1 c1'.wf ownO1) ?_
      intro _ s2 ⟨c2, h2, n2⟩
      have hR' : refsOwned ({ referenced with cells := cells' } : AList StrElt) = refsOwned referenced := by
        simp [refsOwned, bumpCount_owned _ _ _ hb]
      have own2 : Owns s2 (stringsOwned stat sHdr rest ++ refsOwned ({ referenced with cells := cells' } : AList StrElt)) := by
        rw [hR']
        refine Owns.append_iff.2 ⟨c2.keeps ownS1 ?_, c2.keeps ownR1 (fun i hi hm => dOR i hm hi), fun i hi hm => dRS i hm hi⟩
        intro i hi hm
        rcases List.mem_cons.1 hi with h | h
        · subst h; exact hsO hm
        · exact dORest i hm h
      have hbR' : ∀ y ∈ ({ referenced with cells := cells' } : AList StrElt).cells.map (·.2), y.stat = true → Bor y.string.hdr := by
        intro y hy hst
        obtain ⟨z, hz, e1, e2⟩ := bumpCount_items _ _ _ hb y hy
        have := hbR z hz (by rw [e2]; exact hst)
        rwa [e1] at this
      refine (ih { referenced with cells := cells' } s2 c2.wf own2 hbR' (fun h b hb' => hbC h b (by simp only [List.map_cons, List.mem_cons]; exact Or.inr hb'))).mono ?_
      intro r s3 ⟨c3, h3, p3⟩
      rw [hR'] at c3
      have hn3 := c3.next; have hh3 := c3.hits
      refine ⟨⟨?_, ?_, c3.nodup, by rw [c3.sched, c2.sched, c1'.sched], by omega, by omega, c3.wf⟩, fun hh => h3 (by omega), p3⟩
      · intro i
        rw [c3.live, c2.live, c1'.live]
        have a1 := hold i
        simp only [stringsOwned, List.mem_cons, List.mem_append, List.mem_singleton, List.not_mem_nil, or_false] at *
        generalize (match r with | none => [] | some ref' => sHdr :: refsOwned ref') = P at *
        generalize cellsOwned (strOi stat) rest = RS at *
        generalize refsOwned referenced = RR at *
        generalize strOi stat string = O at *
        clear ih hfail c1 c1' c2 c3 own own' ownCO ownRR ownO ownRest ownR keep1 ownO1 ownRest1 ownR1 ownS1 own2 hold hR' hb
        grind
      · intro i hi
        have a0 := c3.fresh i hi
        simp only [stringsOwned, List.mem_cons, List.mem_append] at *
        generalize (match r with | none => [] | some ref' => sHdr :: refsOwned ref') = P at *
        clear ih hfail c1 c1' c2 c3 own own' ownCO ownRR ownO ownRest ownR keep1 ownO1 ownRest1 ownR1 ownS1 own2 hold hR' hb
        grind
    | none =>
      simp only
      refine Good.bind (strEltCreate_spec string stat s1 c1'.wf) ?_
      intro ref s2 ⟨c2, h2, e2⟩
      have hn2 := c2.next; have hh2 := c2.hits
      have keep2 : ∀ Y : List Nat, Owns s1 Y → Owns s2 Y := fun Y oY => c2.keeps oY (by simp)
      cases ref with
      | none =>
        simp only
        refine Good.bind (string_destroys stat string s2 c2.wf (keep2 _ ownO1)) ?_
        intro _ s3 ⟨c3, h3, n3⟩
        have oR3 : Owns s3 (refsOwned referenced) := c3.keeps (keep2 _ ownR1) (fun i hi hm => dOR i hm hi)
        have oS3 : Owns s3 (stringsOwned stat sHdr rest) := by
          refine c3.keeps (keep2 _ ownS1) ?_
          intro i hi hm
          rcases List.mem_cons.1 hi with h | h
          · subst h; exact hsO hm
          · exact dORest i hm h
        refine (hfail s3 c3.wf oR3 oS3 dRS).mono ?_
        intro r s4 ⟨er, l4, sc4, n4, hh4, wf4⟩
        subst er
        refine ⟨⟨?_, by simp, by simp, by rw [sc4, c3.sched, c2.sched, c1'.sched], by omega, by omega, wf4⟩, by simp, by simp⟩
        intro i
        rw [l4, c3.live, c2.live, c1'.live]
        have a1 := hold i
        simp only [stringsOwned, List.mem_cons, List.mem_append, List.mem_singleton, List.not_mem_nil, or_false, not_false_eq_true, and_true] at *
        generalize cellsOwned (strOi stat) rest = RS at *
        generalize refsOwned referenced = RR at *
        generalize strOi stat string = O at *
        clear ih hfail c1 c1' c2 c3 own own' ownCO ownRR ownO ownRest ownR keep1 keep2 ownO1 ownRest1 ownR1 ownS1 hold hb oR3 oS3
        grind
      | some ref0 =>
        simp only
        obtain ⟨es0, et0⟩ := e2 ref0 rfl
        have hfh : s1.next < ref0.hdr ∧ ref0.hdr ≤ s2.next := by have := c2.fresh ref0.hdr (by simp); simpa using this
        have hh2' : ¬ s1.hits < s2.hits := by intro hh; have := h2 hh; simp at this
        -- the new reference owns its struct and (when not static) the string
        have hRefOwned : ({ ref0 with count := ref0.count + 1 } : StrElt).owned = ref0.hdr :: strOi stat string := by
          simp [StrElt.owned, es0, et0, strOi]
        have hhl2 : ref0.hdr ∈ s2.live := (c2.live _).2 (Or.inr (by simp))
        have hold1 : ∀ i, i ∈ s0.live → i ≤ s0.next := fun i hi => wf i hi
        have hhO : ref0.hdr ∉ strOi stat string := by
          intro hm; have := hold _ (List.mem_cons_of_mem _ (List.mem_append_left _ (List.mem_cons_of_mem _ hm))); omega
        have hhR : ref0.hdr ∉ refsOwned referenced := by
          intro hm; have := hold _ (List.mem_cons_of_mem _ (List.mem_append_right _ (List.mem_append_right _ hm))); omega
        have hhS : ref0.hdr ∉ stringsOwned stat sHdr rest := by
          intro hm
          rcases List.mem_cons.1 hm with h | h
          · have := hold sHdr (by simp); omega
          · have := hold _ (List.mem_cons_of_mem _ (List.mem_append_right _ (List.mem_append_left _ h))); omega
        have ownRef2 : Owns s2 ({ ref0 with count := ref0.count + 1 } : StrElt).owned := by
          rw [hRefOwned]; exact Owns.cons_iff.2 ⟨hhl2, hhO, keep2 _ ownO1⟩
        have hrl2 : referenced.hdr ∈ s2.live := (keep2 _ ownR1).2 _ (by simp [refsOwned])
        refine Good.bind (listAppend_spec referenced { ref0 with count := ref0.count + 1 } s2 c2.wf hrl2) ?_
        intro r3 s3 ⟨eh3, h3, hcase⟩
        obtain ⟨ref3, ok3⟩ := r3
        simp only at eh3 h3 hcase ⊢
        rcases hcase with ⟨hok, hl3, c3⟩ | ⟨hok, cid, hcells, c3⟩
        · subst hok
          simp only [Bool.not_false, if_true, hl3]
          have hn3 := c3.next; have hh3 := c3.hits
          have keep3 : ∀ Y : List Nat, Owns s2 Y → Owns s3 Y := fun Y oY => c3.keeps oY (by simp)
          refine Good.bind (strEltDestroy_spec (some { ref0 with count := ref0.count + 1 }) s3 c3.wf (by simpa [ownedEltOpt] using keep3 _ ownRef2)) ?_
          intro _ s4 ⟨c4, h4, n4⟩
          have c4' : Clean s3 s4 (ref0.hdr :: strOi stat string) [] := by simpa [ownedEltOpt, hRefOwned] using c4
          have oR4 : Owns s4 (refsOwned referenced) := by
            refine c4'.keeps (keep3 _ (keep2 _ ownR1)) ?_
            intro i hi hm
            rcases List.mem_cons.1 hm with h | h
            · subst h; exact hhR hi
            · exact dOR i h hi
          have oS4 : Owns s4 (stringsOwned stat sHdr rest) := by
            refine c4'.keeps (keep3 _ (keep2 _ ownS1)) ?_
            intro i hi hm
            rcases List.mem_cons.1 hm with h | h
            · subst h; exact hhS hi
            · rcases List.mem_cons.1 hi with h' | h'
              · subst h'; exact hsO h
              · exact dORest i h h'
          refine (hfail s4 c4.wf oR4 oS4 dRS).mono ?_
          intro r s5 ⟨er, l5, sc5, n5, hh5, wf5⟩
          subst er
          refine ⟨⟨?_, by simp, by simp, by rw [sc5, c4.sched, c3.sched, c2.sched, c1'.sched], by omega, by omega, wf5⟩, by simp, by simp⟩
          intro i
          rw [l5, c4'.live, c3.live, c2.live, c1'.live]
          have a1 := hold i
          simp only [stringsOwned, List.mem_cons, List.mem_append, List.mem_singleton, List.not_mem_nil, or_false, not_false_eq_true, and_true] at *
          generalize cellsOwned (strOi stat) rest = RS at *
          generalize refsOwned referenced = RR at *
          generalize strOi stat string = O at *
          clear ih hfail c1 c1' c2 c3 c4 c4' own own' ownCO ownRR ownO ownRest ownR keep1 keep2 keep3 ownO1 ownRest1 ownR1 ownS1 hold hb oR4 oS4 ownRef2 hRefOwned
          grind
        · subst hok
          simp only [Bool.not_true, Bool.false_eq_true, if_false]
          have hn3 := c3.next; have hh3 := c3.hits
          have hfc : s2.next < cid ∧ cid ≤ s3.next := by have := c3.fresh cid (by simp); simpa using this
          have keep3 : ∀ Y : List Nat, Owns s2 Y → Owns s3 Y := fun Y oY => c3.keeps oY (by simp)
          have hR3 : ∀ i, i ∈ refsOwned ref3 ↔ i ∈ refsOwned referenced ∨ i = cid ∨ i = ref0.hdr ∨ i ∈ strOi stat string := by
            intro i
            simp only [refsOwned, eh3, hcells, cellsOwned_append, List.mem_cons, List.mem_append]
            simp only [cellsOwned, List.flatMap_cons, List.flatMap_nil, List.append_nil, List.mem_cons, hRefOwned]
            grind
          have own3 : Owns s3 (stringsOwned stat sHdr rest ++ refsOwned ref3) := by
            have oS3 := keep3 _ (keep2 _ ownS1)
            have oR3 := keep3 _ (keep2 _ ownR1)
            have oRef3 := keep3 _ ownRef2
            rw [hRefOwned] at oRef3
            have hcidl : cid ∈ s3.live := (c3.live _).2 (Or.inr (by simp))
            refine Owns.append_iff.2 ⟨oS3, ⟨?_, ?_⟩, ?_⟩
            · have hnR := ownR.1
              have hnRef := oRef3.1
              simp only [refsOwned, eh3, hcells, cellsOwned_append] at hnR ⊢
              simp only [cellsOwned, List.flatMap_cons, List.flatMap_nil, List.append_nil, hRefOwned] at hnR ⊢
              have b1 := hold
              simp only [refsOwned, cellsOwned, stringsOwned] at b1 hhR hhO dOR
              simp only [List.nodup_cons, List.nodup_append, List.mem_append, List.mem_cons] at hnR hnRef b1 hhR hhO dOR ⊢
              clear ih hfail c1 c1' c2 c3 own own' ownCO ownRR ownO ownRest ownR keep1 keep2 keep3 ownO1 ownRest1 ownR1 ownS1 hb oS3 oR3 oRef3 ownRef2 hR3
              grind
            · intro i hi
              rcases (hR3 i).1 hi with h | h | h | h
              · exact oR3.2 i h
              · subst h; exact hcidl
              · subst h; exact oRef3.2 _ (by simp)
              · exact oRef3.2 _ (List.mem_cons_of_mem _ h)
            · intro i hi hm
              rcases (hR3 i).1 hm with h | h | h | h
              · exact dRS i h hi
              · subst h
                have := c2.wf _ ((keep2 _ ownS1).2 _ hi); omega
              · subst h; exact hhS hi
              · rcases List.mem_cons.1 hi with h' | h'
                · subst h'; exact hsO h
                · exact dORest i h h'
          have hbR3 : ∀ y ∈ ref3.cells.map (·.2), y.stat = true → Bor y.string.hdr := by
            intro y hy hst
            simp only [hcells, List.map_append, List.map_cons, List.map_nil, List.mem_append, List.mem_singleton] at hy
            rcases hy with hy | hy
            · exact hbR y hy hst
            · subst hy
              simp only at hst ⊢
              rw [es0]
              exact hbC (by rw [← et0]; exact hst) string (by simp)
          refine (ih ref3 s3 c3.wf own3 hbR3 (fun h b hb' => hbC h b (by simp only [List.map_cons, List.mem_cons]; exact Or.inr hb'))).mono ?_
          intro r s4 ⟨c4, h4, p4⟩
          have hn4 := c4.next; have hh4 := c4.hits
          refine ⟨⟨?_, ?_, c4.nodup, by rw [c4.sched, c3.sched, c2.sched, c1'.sched], by omega, by omega, c4.wf⟩, ?_, p4⟩
          · intro i
            rw [c4.live, c3.live, c2.live, c1'.live]
            have a1 := hold i; have a2 := hR3 i
            simp only [stringsOwned, List.mem_cons, List.mem_append, List.mem_singleton, List.not_mem_nil, or_false, not_false_eq_true, and_true] at *
            generalize (match r with | none => [] | some ref' => sHdr :: refsOwned ref') = P at *
            generalize cellsOwned (strOi stat) rest = RS at *
            generalize refsOwned referenced = RR at *
            generalize refsOwned ref3 = R3 at *
            generalize strOi stat string = O at *
            clear ih hfail c1 c1' c2 c3 c4 own own' ownCO ownRR ownO ownRest ownR keep1 keep2 keep3 ownO1 ownRest1 ownR1 ownS1 hold hb own3 ownRef2 hRefOwned hR3
            grind
          · intro i hi
            have a0 := c4.fresh i hi; have a2 := hR3 i
            simp only [stringsOwned, List.mem_cons, List.mem_append] at *
            generalize (match r with | none => [] | some ref' => sHdr :: refsOwned ref') = P at *
            generalize cellsOwned (strOi stat) rest = RS at *
            generalize refsOwned referenced = RR at *
            generalize refsOwned ref3 = R3 at *
            generalize strOi stat string = O at *
            clear ih hfail c1 c1' c2 c3 c4 own own' ownCO ownRR ownO ownRest ownR keep1 keep2 keep3 ownO1 ownRest1 ownR1 ownS1 hold hb own3 ownRef2 hRefOwned hR3
            grind
          · intro hh
            by_cases hA : s3.hits < s4.hits
            · exact h4 hA
            · exfalso
              have b3 := h3; simp at b3
              omega

abbrev refCellsOwned (rHdr : Nat) (cells : List (Nat × StrElt)) : List Nat :=
  rHdr :: cellsOwned StrElt.owned cells

/-- Second loop of `wbxml_strtbl_check_references` (with the copy of shared text-node buffers):
    every reference ends up in the string table, in `one_ref`, or is destroyed; on a failed
    allocation the reference in hand, the remaining references and `one_ref` are released and the
    string table keeps what it had been given so far. -/
theorem splitRefs_spec (rHdr : Nat) (cells : List (Nat × StrElt)) (e : AEnc) (result : AList StrElt)
    (s : Ledger) (wf : s.WF)
    (own : Owns s (e.owned ++ (refCellsOwned rHdr cells ++ refsOwned result)))
    (hbor : ∀ x ∈ cells.map (·.2), x.stat = true →
      x.string.hdr ∈ s.live ∧ x.string.hdr ∉ e.owned ++ (refCellsOwned rHdr cells ++ refsOwned result)) :
    Good (splitRefs e rHdr result cells) s (fun r s' =>
      r.1.hdr = e.hdr ∧ r.1.output = e.output ∧ r.1.useStrtbl = e.useStrtbl ∧
      Clean s s' (e.owned ++ (refCellsOwned rHdr cells ++ refsOwned result))
        (r.1.owned ++ (match r.2 with | none => [] | some one => rHdr :: refsOwned one)) ∧
      (s.hits < s'.hits → r.2 = none) ∧
      (∀ l', r.1.strstbl = some l' → ∀ x ∈ l'.items, (∃ l, e.strstbl = some l ∧ x ∈ l.items) ∨ x.stat = false)) := by
  induction cells generalizing e result s with
  | nil =>
    simp only [splitRefs, pure_eq, good_ret]
    refine ⟨by simp, by simp, by simp, ?_, by simp, fun l' hl' x hx => Or.inl ⟨l', hl', hx⟩⟩
    have := Clean.id wf own
    simpa [refCellsOwned, cellsOwned] using this
  | cons x rest ih =>
    obtain ⟨c, ref⟩ := x
    have hX : e.owned ++ (refCellsOwned rHdr ((c, ref) :: rest) ++ refsOwned result) =
        e.owned ++ (rHdr :: ((c :: ref.owned) ++ (cellsOwned StrElt.owned rest ++ refsOwned result))) := by
      simp [refCellsOwned, cellsOwned, List.flatMap_cons]
    rw [hX] at own hbor ⊢
    obtain ⟨ownE, ownT, dE⟩ := Owns.append_iff.1 own
    obtain ⟨hrl, hrn, ownT'⟩ := Owns.cons_iff.1 ownT
    obtain ⟨ownCR, ownRR, dCR⟩ := Owns.append_iff.1 ownT'
    obtain ⟨hcl, hcn, ownRef⟩ := Owns.cons_iff.1 ownCR
    obtain ⟨ownRest, ownRes, dRR⟩ := Owns.append_iff.1 ownRR
    have hold : ∀ i ∈ e.owned ++ (rHdr :: ((c :: ref.owned) ++ (cellsOwned StrElt.owned rest ++ refsOwned result))), i ≤ s.next :=
      fun i hi => wf i (own.2 i hi)
    have hrefl : ref.hdr ∈ s.live := ownRef.2 _ (by simp [StrElt.owned])
    unfold splitRefs
    simp only [bind_eq, pure_eq]
    refine Good.bind (deref_spec rHdr s hrl) ?_
    intro _ s0 e0; subst e0
    refine Good.bind (deref_spec c s0 hcl) ?_
    intro _ s0' e0'; have e0'' := e0'.symm; subst e0''
    refine Good.bind (free_spec (some c) s0 wf (by intro a ha; cases ha; exact hcl)) ?_
    intro _ s1 ⟨c1, h1, n1⟩
    have c1' : Clean s0 s1 [c] [] := by simpa using c1
    have hn1 := c1'.next; have hh1 := c1'.hits
    have keep1 : ∀ Y : List Nat, Owns s0 Y → c ∉ Y → Owns s1 Y :=
      fun Y oY hY => c1'.keeps oY (by intro i hi hm; simp at hm; subst hm; exact hY hi)
    have hcE : c ∉ e.owned := fun hm => dE c hm (List.mem_cons_of_mem _ (List.mem_append_left _ (by simp)))
    have hcRef : c ∉ ref.owned := hcn
    have hcRest : c ∉ cellsOwned StrElt.owned rest := fun hm => dCR c (by simp) (List.mem_append_left _ hm)
    have hcRes : c ∉ refsOwned result := fun hm => dCR c (by simp) (List.mem_append_right _ hm)
    have hcr : c ≠ rHdr := fun h => hrn (by rw [← h]; simp)
    have ownE1 := keep1 _ ownE hcE
    have ownRef1 := keep1 _ ownRef hcRef
    have ownRest1 := keep1 _ ownRest hcRest
    have ownRes1 := keep1 _ ownRes hcRes
    have hrl1 : rHdr ∈ s1.live := (c1'.live _).2 (Or.inl ⟨hrl, by simp; exact fun h => hcr h.symm⟩)
    have hrefl1 : ref.hdr ∈ s1.live := ownRef1.2 _ (by simp [StrElt.owned])
    refine Good.bind (deref_spec ref.hdr s1 hrefl1) ?_
    intro _ s1' e1'; have e1'' := e1'.symm; subst e1''
    -- disjointness facts read off the precondition
    have dRefRest : ∀ i ∈ ref.owned, i ∉ cellsOwned StrElt.owned rest :=
      fun i hi hm => dCR i (List.mem_cons_of_mem _ hi) (List.mem_append_left _ hm)
    have dRefRes : ∀ i ∈ ref.owned, i ∉ refsOwned result :=
      fun i hi hm => dCR i (List.mem_cons_of_mem _ hi) (List.mem_append_right _ hm)
    have dERef : ∀ i ∈ e.owned, i ∉ ref.owned :=
      fun i hi hm => dE i hi (List.mem_cons_of_mem _ (List.mem_append_left _ (List.mem_cons_of_mem _ hm)))
    have dERest : ∀ i ∈ e.owned, i ∉ cellsOwned StrElt.owned rest :=
      fun i hi hm => dE i hi (List.mem_cons_of_mem _ (List.mem_append_right _ (List.mem_append_left _ hm)))
    have dERes : ∀ i ∈ e.owned, i ∉ refsOwned result :=
      fun i hi hm => dE i hi (List.mem_cons_of_mem _ (List.mem_append_right _ (List.mem_append_right _ hm)))
    have hrE : rHdr ∉ e.owned := fun hm => dE rHdr hm (by simp)
    have hrRef : rHdr ∉ ref.owned := fun hm => hrn (List.mem_append_left _ (List.mem_cons_of_mem _ hm))
    have hrRest : rHdr ∉ cellsOwned StrElt.owned rest := fun hm => hrn (List.mem_append_right _ (List.mem_append_left _ hm))
    have hrRes : rHdr ∉ refsOwned result := fun hm => hrn (List.mem_append_right _ (List.mem_append_right _ hm))
    have ownRC1 : Owns s1 (refCellsOwned rHdr rest) := Owns.cons_iff.2 ⟨hrl1, hrRest, ownRest1⟩
    have dRCRes : ∀ i ∈ refCellsOwned rHdr rest, i ∉ refsOwned result := by
      intro i hi hm
      rcases List.mem_cons.1 hi with h | h
      · subst h; exact hrRes hm
      · exact dRR i h hm
    -- borrowed strings of the remaining references stay live and foreign
    have hborRest : ∀ (t : Ledger) (Xt : List Nat), (∀ i, i ∈ s0.live → i ∉ e.owned ++ (rHdr :: ((c :: ref.owned) ++ (cellsOwned StrElt.owned rest ++ refsOwned result))) → i ∈ t.live) →
        (∀ i ∈ Xt, i ∈ e.owned ++ (rHdr :: ((c :: ref.owned) ++ (cellsOwned StrElt.owned rest ++ refsOwned result))) ∨ s0.next < i) →
        ∀ x ∈ rest.map (·.2), x.stat = true → x.string.hdr ∈ t.live ∧ x.string.hdr ∉ Xt := by
      intro t Xt hkeep hXt x hx hst
      obtain ⟨hl, hn⟩ := hbor x (by simp only [List.map_cons, List.mem_cons]; exact Or.inr hx) hst
      refine ⟨hkeep _ hl hn, fun hm => ?_⟩
      rcases hXt _ hm with h | h
      · exact hn h
      · have := wf _ hl; omega
    -- "release the rest": the common tail of the failure exits
    have hfail : ∀ (t : Ledger) (e' : AEnc), t.WF → Owns t (refCellsOwned rHdr rest) → Owns t (refsOwned result) →
        Good (Prog.bind (listDestroy (some (⟨rHdr, rest⟩ : AList StrElt)) (fun x => strEltDestroy (some x)))
              (fun _ => Prog.bind (listDestroy (some result) (fun x => strEltDestroy (some x)))
                (fun _ => Prog.ret ((e', none) : AEnc × Option (AList StrElt))))) t (fun r t' =>
          r = (e', none) ∧ (∀ i, i ∈ t'.live ↔ i ∈ t.live ∧ i ∉ refCellsOwned rHdr rest ∧ i ∉ refsOwned result) ∧
          t'.sched = t.sched ∧ t'.next = t.next ∧ t'.hits = t.hits ∧ t'.WF) := by
      intro t e' wft oRC oRes
      refine Good.bind (listDestroy_spec StrElt.owned _ elt_destroys (some ⟨rHdr, rest⟩) t wft (by simpa [listOwned] using oRC)) ?_
      intro _ t1 ⟨d1, hd1, nd1⟩
      have d1' : Clean t t1 (refCellsOwned rHdr rest) [] := by simpa [listOwned] using d1
      have oRes1 : Owns t1 (refsOwned result) := d1'.keeps oRes (fun i hi hm => dRCRes i hm hi)
      refine Good.bind (listDestroy_spec StrElt.owned _ elt_destroys (some result) t1 d1.wf (by simpa [listOwned] using oRes1)) ?_
      intro _ t2 ⟨d2, hd2, nd2⟩
      have d2' : Clean t1 t2 (refsOwned result) [] := by simpa [listOwned] using d2
      simp only [good_ret]
      refine ⟨by simp, ?_, by rw [d2.sched, d1.sched], by omega, by omega, d2.wf⟩
      intro i
      rw [d2'.live, d1'.live]
      simp only [List.not_mem_nil, or_false]
      grind
    have hX0 : ∀ i, i ∈ e.owned ++ (rHdr :: ((c :: ref.owned) ++ (cellsOwned StrElt.owned rest ++ refsOwned result))) ↔
        i ∈ e.owned ∨ i = rHdr ∨ i = c ∨ i ∈ ref.owned ∨ i ∈ cellsOwned StrElt.owned rest ∨ i ∈ refsOwned result := by
      intro i; simp only [List.mem_append, List.mem_cons]; grind
    split
    · -- the reference goes to the string table
      -- (1) make the table own the string
      have hrefstep : Good (if ref.stat = true then
            (bufDuplicate (some ref.string)).bind fun copy =>
              match copy with
              | none => Prog.ret none
              | some c => Prog.ret (some { ref with string := c, stat := false })
          else Prog.ret (some ref)) s1 (fun r' t =>
          t.WF ∧ t.sched = s1.sched ∧ s1.next ≤ t.next ∧ s1.hits ≤ t.hits ∧
          ∃ N : List Nat, (∀ i, i ∈ t.live ↔ i ∈ s1.live ∨ i ∈ N) ∧ (∀ i ∈ N, s1.next < i ∧ i ≤ t.next) ∧ N.Nodup ∧
            match r' with
            | none => N = []
            | some ref2 => ref2.hdr = ref.hdr ∧ ref2.stat = false ∧ (∀ i, i ∈ ref2.owned ↔ i ∈ ref.owned ∨ i ∈ N) ∧
                ref2.owned.Nodup ∧ t.hits = s1.hits) := by
        cases hst : ref.stat with
        | false =>
          simp only [Bool.false_eq_true, if_false, good_ret]
          exact ⟨c1'.wf, by simp, Nat.le_refl _, Nat.le_refl _, [], by simp, by simp, by simp, by simp, by simp [hst], by simp, ownRef.1, by simp⟩
        | true =>
          simp only [if_true]
          have hsl : ref.string.hdr ∈ s1.live := by
            obtain ⟨hl, hn⟩ := hbor ref (by simp) hst
            refine (c1'.live _).2 (Or.inl ⟨hl, ?_⟩)
            simp; intro h; exact hn (by rw [h]; simp)
          refine Good.bind (bufDuplicate_spec (some ref.string) s1 c1'.wf (fun x hx => by cases hx; exact hsl)) ?_
          intro cp t ⟨cc, hc, hk, _⟩
          have hfN : ∀ i ∈ ownedBufOpt cp, s1.next < i ∧ i ≤ t.next := by
            intro i hi; have := cc.fresh i hi; simpa using this
          cases cp with
          | none =>
            simp only [good_ret]
            exact ⟨cc.wf, cc.sched, cc.next, cc.hits, [], by intro i; rw [cc.live]; simp [ownedBufOpt], by simp, by simp, rfl⟩
          | some cp =>
            simp only [good_ret]
            have hno : ¬ s1.hits < t.hits := by intro hh; have := hc hh; simp at this
            have hro : ref.owned = [ref.hdr] := by simp [StrElt.owned, hst]
            refine ⟨cc.wf, cc.sched, cc.next, cc.hits, cp.owned, by intro i; rw [cc.live]; simp [ownedBufOpt], by simpa [ownedBufOpt] using hfN,
              by simpa [ownedBufOpt] using cc.nodup, by simp, by simp, ?_, ?_, by have := cc.hits; omega⟩
            · intro i; simp [StrElt.owned, hst]
            · simp only [StrElt.owned, Bool.false_eq_true, if_false, List.nodup_cons]
              refine ⟨?_, by simpa [ownedBufOpt] using cc.nodup⟩
              intro hm
              have := hfN _ (by simpa [ownedBufOpt] using hm)
              have := c1'.wf _ hrefl1; omega
      refine Good.bind hrefstep ?_
      intro r' t ⟨wft, sct, nxt, hht, N, lt, fN, ndN, hr'⟩
      -- facts about `t` relative to `s0`
      have lt0 : ∀ i, i ∈ t.live ↔ (i ∈ s0.live ∧ i ≠ c) ∨ i ∈ N := by
        intro i; rw [lt, c1'.live]; simp
      have fN0 : ∀ i ∈ N, s0.next < i := fun i hi => by have := fN i hi; omega
      have keepT : ∀ Y : List Nat, Owns s1 Y → Owns t Y := fun Y oY => ⟨oY.1, fun i hi => (lt i).2 (Or.inl (oY.2 i hi))⟩
      cases r' with
      | none =>
        simp only at hr' ⊢
        subst hr'
        refine Good.bind (strEltDestroy_spec (some ref) t wft (by simpa [ownedEltOpt] using keepT _ ownRef1)) ?_
        intro _ t2 ⟨d2, hd2, nd2⟩
        have d2' : Clean t t2 ref.owned [] := by simpa [ownedEltOpt] using d2
        have oRC2 : Owns t2 (refCellsOwned rHdr rest) := by
          refine d2'.keeps (keepT _ ownRC1) ?_
          intro i hi hm
          rcases List.mem_cons.1 hi with h | h
          · subst h; exact hrRef hm
          · exact dRefRest i hm h
        have oRes2 : Owns t2 (refsOwned result) := d2'.keeps (keepT _ ownRes1) (fun i hi hm => dRefRes i hm hi)
        refine (hfail t2 e d2.wf oRC2 oRes2).mono ?_
        intro r t3 ⟨er, l3, sc3, n3, hh3, wf3⟩
        subst er
        simp only [List.append_nil]
        refine ⟨by simp, by simp, by simp, ⟨?_, fun i hi => Or.inl (List.mem_append_left _ hi), ownE.1, by rw [sc3, d2.sched, sct, c1'.sched],
          by omega, by omega, wf3⟩, by simp, fun l' hl' x hx => Or.inl ⟨l', hl', hx⟩⟩
        intro i
        rw [l3, d2'.live, lt0, hX0]
        have a1 := ownE.2 i; have a2 := dERef i; have a3 := dERest i; have a4 := dERes i
        simp only [refCellsOwned, List.mem_cons, List.not_mem_nil, or_false] at *
        clear ih hfail hborRest hrefstep c1 c1' d2 d2' own ownE ownT ownT' ownCR ownRR ownRef ownRest ownRes keep1 keepT ownE1 ownRef1 ownRest1 ownRes1 ownRC1 oRC2 oRes2 hold hbor hX0 lt lt0
        grind
      | some ref2 =>
        obtain ⟨eh2, est2, hown2, nd2, hnh⟩ := hr'
        simp only
        have hE_t : Owns t e.owned := keepT _ ownE1
        have hRef2_t : Owns t ref2.owned := ⟨nd2, fun i hi => by
          rcases (hown2 i).1 hi with h | h
          · exact (keepT _ ownRef1).2 i h
          · exact (lt i).2 (Or.inr h)⟩
        have dERef2 : ∀ i ∈ e.owned, i ∉ ref2.owned := by
          intro i hi hm
          rcases (hown2 i).1 hm with h | h
          · exact dERef i hi h
          · have := fN0 i h; have := hold i (List.mem_append_left _ hi); omega
        refine Good.bind (strtblAddElement_spec e ref2 t wft (Owns.append_iff.2 ⟨hE_t, hRef2_t, dERef2⟩)) ?_
        intro r3 t2 ⟨eh3, eo3, eu3, ca, hha, hadd, hprov⟩
        obtain ⟨e3, ok3, added3⟩ := r3
        simp only at eh3 eo3 eu3 ca hha hadd hprov ⊢
        have hn2 := ca.next; have hh2 := ca.hits
        have hprov' : ∀ l', e3.strstbl = some l' → ∀ x ∈ l'.items, (∃ l, e.strstbl = some l ∧ x ∈ l.items) ∨ x.stat = false := by
          intro l' hl' x hx
          rcases hprov l' hl' x hx with h | ⟨h, _⟩
          · exact Or.inl h
          · exact Or.inr (by rw [h, est2])
        -- the rest of the references and `one_ref` survive the call
        have dXrest : ∀ i ∈ refCellsOwned rHdr rest ++ refsOwned result, i ∉ e.owned ++ ref2.owned := by
          intro i hi hm
          have hle : i ≤ s0.next := by
            rcases List.mem_append.1 hi with h | h
            · rcases List.mem_cons.1 h with h' | h'
              · subst h'; exact wf _ hrl
              · exact hold i (List.mem_append_right _ (List.mem_cons_of_mem _ (List.mem_append_right _ (List.mem_append_left _ h'))))
            · exact hold i (List.mem_append_right _ (List.mem_cons_of_mem _ (List.mem_append_right _ (List.mem_append_right _ h))))
          rcases List.mem_append.1 hm with h | h
          · rcases List.mem_append.1 hi with h' | h'
            · rcases List.mem_cons.1 h' with h'' | h''
              · subst h''; exact hrE h
              · exact dERest i h h''
            · exact dERes i h h'
          · rcases (hown2 i).1 h with h2 | h2
            · rcases List.mem_append.1 hi with h' | h'
              · rcases List.mem_cons.1 h' with h'' | h''
                · subst h''; exact hrRef h2
                · exact dRefRest i h2 h''
              · exact dRefRes i h2 h'
            · have := fN0 i h2; omega
        have oRC_t2 : Owns t2 (refCellsOwned rHdr rest) :=
          ca.keeps (keepT _ ownRC1) (fun i hi => dXrest i (List.mem_append_left _ hi))
        have oRes_t2 : Owns t2 (refsOwned result) :=
          ca.keeps (keepT _ ownRes1) (fun i hi => dXrest i (List.mem_append_right _ hi))
        -- facts shared by the continuations: what is live in `t2`, in terms of `s0`
        have lt2 : ∀ i, i ∈ t2.live ↔ (((i ∈ s0.live ∧ i ≠ c) ∨ i ∈ N) ∧ i ∉ e.owned ++ ref2.owned) ∨
            i ∈ e3.owned ++ (if added3 = true then [] else ref2.owned) := by
          intro i; rw [ca.live, lt0]
        have fE3 : ∀ i ∈ e3.owned, i ∈ e.owned ∨ i ∈ ref.owned ∨ s0.next < i := by
          intro i hi
          rcases ca.fresh i (List.mem_append_left _ hi) with h | h
          · rcases List.mem_append.1 h with h' | h'
            · exact Or.inl h'
            · rcases (hown2 i).1 h' with h'' | h''
              · exact Or.inr (Or.inl h'')
              · exact Or.inr (Or.inr (fN0 i h''))
          · exact Or.inr (Or.inr (by omega))
        have oE3_t2 : Owns t2 e3.owned := (Owns.append_iff.1 ca.owns).1
        have dE3rest : ∀ i ∈ e3.owned, i ∉ refCellsOwned rHdr rest ++ refsOwned result := by
          intro i hi hm
          have hle : i ≤ s0.next := by
            rcases List.mem_append.1 hm with h | h
            · exact wf _ (ownRC1.2 i h |> fun hh => ((c1'.live i).1 hh).elim (fun x => x.1) (fun x => by simp at x))
            · exact wf _ (ownRes.2 i h)
          rcases fE3 i hi with h | h | h
          · exact dXrest i hm (List.mem_append_left _ h)
          · exact dXrest i hm (List.mem_append_right _ ((hown2 i).2 (Or.inl h)))
          · omega
        -- the recursive call from a ledger `u` in which exactly `e3`, the rest and `one_ref` are ours
        have hrec : ∀ (u : Ledger), u.WF → u.sched = s0.sched → s0.next ≤ u.next → u.hits = s0.hits →
            (∀ i, i ∈ u.live ↔ (i ∈ s0.live ∧ i ∉ e.owned ∧ i ≠ c ∧ i ∉ ref.owned) ∨ i ∈ e3.owned) →
            Good (splitRefs e3 rHdr result rest) u (fun r s' =>
              r.1.hdr = e.hdr ∧ r.1.output = e.output ∧ r.1.useStrtbl = e.useStrtbl ∧
              Clean s0 s' (e.owned ++ (rHdr :: ((c :: ref.owned) ++ (cellsOwned StrElt.owned rest ++ refsOwned result))))
                (r.1.owned ++ (match r.2 with | none => [] | some one => rHdr :: refsOwned one)) ∧
              (s0.hits < s'.hits → r.2 = none) ∧
              (∀ l', r.1.strstbl = some l' → ∀ x ∈ l'.items, (∃ l, e.strstbl = some l ∧ x ∈ l.items) ∨ x.stat = false)) := by
          intro u wfu scu nxu hhu lu
          have oE3u : Owns u e3.owned := ⟨oE3_t2.1, fun i hi => (lu i).2 (Or.inr hi)⟩
          have liveOld : ∀ i, i ∈ refCellsOwned rHdr rest ++ refsOwned result → i ∈ u.live := by
            intro i hi
            refine (lu i).2 (Or.inl ⟨?_, ?_, ?_, ?_⟩)
            · rcases List.mem_append.1 hi with h | h
              · exact ((c1'.live i).1 (ownRC1.2 i h)).elim (fun x => x.1) (fun x => by simp at x)
              · exact ownRes.2 i h
            · exact fun hm => dXrest i hi (List.mem_append_left _ hm)
            · intro hc; subst hc
              rcases List.mem_append.1 hi with h | h
              · rcases List.mem_cons.1 h with h' | h'
                · exact hcr h'
                · exact hcRest h'
              · exact hcRes h
            · exact fun hm => dXrest i hi (List.mem_append_right _ ((hown2 i).2 (Or.inl hm)))
          have ownU : Owns u (e3.owned ++ (refCellsOwned rHdr rest ++ refsOwned result)) := by
            refine Owns.append_iff.2 ⟨oE3u, ⟨(Owns.append_iff.2 ⟨ownRC1, ownRes1, dRCRes⟩).1, liveOld⟩, dE3rest⟩
          have hborU := hborRest u (e3.owned ++ (refCellsOwned rHdr rest ++ refsOwned result))
            (by
              intro i hi hn
              refine (lu i).2 (Or.inl ⟨hi, ?_, ?_, ?_⟩)
              · exact fun hm => hn (List.mem_append_left _ hm)
              · intro hc; subst hc; exact hn ((hX0 _).2 (Or.inr (Or.inr (Or.inl rfl))))
              · exact fun hm => hn ((hX0 _).2 (Or.inr (Or.inr (Or.inr (Or.inl hm))))))
            (by
              intro i hi
              rcases List.mem_append.1 hi with h | h
              · rcases fE3 i h with h' | h' | h'
                · exact Or.inl ((hX0 _).2 (Or.inl h'))
                · exact Or.inl ((hX0 _).2 (Or.inr (Or.inr (Or.inr (Or.inl h')))))
                · exact Or.inr h'
              · rcases List.mem_append.1 h with h' | h'
                · rcases List.mem_cons.1 h' with h'' | h''
                  · exact Or.inl ((hX0 _).2 (Or.inr (Or.inl h'')))
                  · exact Or.inl ((hX0 _).2 (Or.inr (Or.inr (Or.inr (Or.inr (Or.inl h''))))))
                · exact Or.inl ((hX0 _).2 (Or.inr (Or.inr (Or.inr (Or.inr (Or.inr h')))))))
          refine (ih e3 result u wfu ownU hborU).mono ?_
          intro r s' ⟨a1, a2, a3, cu, hu, pu⟩
          have hnu := cu.next; have hhu' := cu.hits
          refine ⟨a1.trans eh3, a2.trans eo3, a3.trans eu3, ⟨?_, ?_, cu.nodup, by rw [cu.sched, scu], by omega, by omega, cu.wf⟩, ?_, ?_⟩
          · intro i
            rw [cu.live, lu, hX0]
            have b1 := fE3 i; have b2 := hold i; have b3 := dE3rest i; have b4 := ownE.2 i; have b5 := ownRef.2 i
            have b6 := dERef i; have b7 := wf i
            generalize (match r.2 with | none => [] | some one => rHdr :: refsOwned one) = P at *
            simp only [refCellsOwned] at *
            generalize cellsOwned StrElt.owned rest = RS at *
            generalize refsOwned result = RR at *
            simp only [refCellsOwned, List.mem_cons, List.mem_append] at b2 b3 ⊢
            clear ih hfail hborRest hrefstep c1 c1' ca own ownE ownT ownT' ownCR ownRR ownRef ownRest ownRes keep1 keepT ownE1 ownRef1 ownRest1 ownRes1 ownRC1 oRC_t2 oRes_t2 hold hbor hX0 lt lt0 lt2 cu lu ownU hborU liveOld oE3u oE3_t2 fE3 dE3rest dXrest hRef2_t hE_t hprov hprov' pu hown2
            grind
          · intro i hi
            have b0 := cu.fresh i hi; have b1 := fE3 i; have b7 := wf i; have b8 := nxu
            have b9 : i ∈ e3.owned → i ≤ u.next := fun h => wfu i (oE3u.2 i h)
            generalize (match r.2 with | none => [] | some one => rHdr :: refsOwned one) = P at *
            simp only [refCellsOwned] at *
            generalize cellsOwned StrElt.owned rest = RS at *
            generalize refsOwned result = RR at *
            simp only [refCellsOwned, List.mem_cons, List.mem_append] at b0 ⊢
            clear ih hfail hborRest hrefstep c1 c1' ca own ownE ownT ownT' ownCR ownRR ownRef ownRest ownRes keep1 keepT ownE1 ownRef1 ownRest1 ownRes1 ownRC1 oRC_t2 oRes_t2 hold hbor hX0 lt lt0 lt2 cu lu ownU hborU liveOld oE3u oE3_t2 dE3rest dXrest hRef2_t hE_t hprov hprov' pu hown2
            grind
          · intro hh
            exact hu (by omega)
          · intro l' hl' x hx
            rcases pu l' hl' x hx with ⟨l, hl, hxl⟩ | h
            · exact hprov' l hl x hxl
            · exact Or.inr h
        have hNref2 : ∀ i ∈ N, i ∈ ref2.owned := fun i hi => (hown2 i).2 (Or.inr hi)
        cases ok3 with
        | false =>
          have hadd3 : added3 = false := by
            cases added3 with
            | false => rfl
            | true => have := hadd rfl; simp at this
          subst hadd3
          simp only [Bool.not_false, if_true]
          have ca' : Clean t t2 (e.owned ++ ref2.owned) (e3.owned ++ ref2.owned) := by simpa using ca
          have oRef2_t2 : Owns t2 ref2.owned := (Owns.append_iff.1 ca'.owns).2.1
          refine Good.bind (strEltDestroy_spec (some ref2) t2 ca.wf (by simpa [ownedEltOpt] using oRef2_t2)) ?_
          intro _ t3 ⟨d3, hd3, nd3⟩
          have d3' : Clean t2 t3 ref2.owned [] := by simpa [ownedEltOpt] using d3
          have oRC3 : Owns t3 (refCellsOwned rHdr rest) :=
            d3'.keeps oRC_t2 (fun i hi hm => dXrest i (List.mem_append_left _ hi) (List.mem_append_right _ hm))
          have oRes3 : Owns t3 (refsOwned result) :=
            d3'.keeps oRes_t2 (fun i hi hm => dXrest i (List.mem_append_right _ hi) (List.mem_append_right _ hm))
          refine (hfail t3 e3 d3.wf oRC3 oRes3).mono ?_
          intro r t4 ⟨er, l4, sc4, n4, hh4, wf4⟩
          subst er
          simp only [List.append_nil]
          refine ⟨eh3, eo3, eu3, ⟨?_, ?_, oE3_t2.1, by rw [sc4, d3.sched, ca.sched, sct, c1'.sched], by omega, by omega, wf4⟩, by simp, hprov'⟩
          · intro i
            rw [l4, d3'.live, ca'.live, lt0, hX0]
            have b1 := fE3 i; have b2 := hold i; have b3 := dE3rest i; have b4 := ownE.2 i; have b5 := ownRef.2 i
            have b6 := dERef i; have b7 := wf i; have b8 := hown2 i; have b9 := fN0 i
            have b10 : i ∈ e3.owned → i ∉ ref2.owned := fun h1 h2 => (Owns.append_iff.1 ca'.owns).2.2 i h1 h2
            simp only [refCellsOwned] at *
            generalize cellsOwned StrElt.owned rest = RS at *
            generalize refsOwned result = RR at *
            simp only [List.mem_cons, List.mem_append, List.not_mem_nil, or_false] at b2 b3 ⊢
            clear ih hfail hborRest hrefstep hrec c1 c1' ca ca' d3 d3' own ownE ownT ownT' ownCR ownRR ownRef ownRest ownRes keep1 keepT ownE1 ownRef1 ownRest1 ownRes1 ownRC1 oRC_t2 oRes_t2 oRC3 oRes3 hold hbor hX0 lt lt0 lt2 oE3_t2 fE3 dE3rest dXrest hRef2_t hE_t hprov hprov' hown2 oRef2_t2 hNref2 fN fN0
            grind
          · intro i hi
            rcases fE3 i hi with h | h | h
            · exact Or.inl ((hX0 i).2 (Or.inl h))
            · exact Or.inl ((hX0 i).2 (Or.inr (Or.inr (Or.inr (Or.inl h)))))
            · exact Or.inr ⟨h, by have := ca.wf i (oE3_t2.2 i hi); omega⟩
        | true =>
          simp only [Bool.not_true, Bool.false_eq_true, if_false]
          have hnohit2 : t2.hits = s0.hits := by
            have : ¬ t.hits < t2.hits := by intro hh; have := hha hh; simp at this
            omega
          cases added3 with
          | true =>
            simp only [Bool.not_true, Bool.false_eq_true, if_false]
            have ca' : Clean t t2 (e.owned ++ ref2.owned) e3.owned := by simpa using ca
            simp only [Prog.bind]
            refine hrec t2 ca.wf (by rw [ca.sched, sct, c1'.sched]) (by omega) hnohit2 ?_
            intro i
            rw [ca'.live, lt0]
            have b1 := fE3 i; have b7 := wf i; have b8 := hown2 i; have b9 := fN0 i
            simp only [List.mem_append]
            clear ih hfail hborRest hrefstep hrec c1 c1' ca ca' own ownE ownT ownT' ownCR ownRR ownRef ownRest ownRes keep1 keepT ownE1 ownRef1 ownRest1 ownRes1 ownRC1 oRC_t2 oRes_t2 hold hbor hX0 lt lt0 lt2 oE3_t2 fE3 dE3rest dXrest hRef2_t hE_t hprov hprov' hown2 hNref2 fN fN0
            grind
          | false =>
            simp only [Bool.not_false, if_true]
            have ca' : Clean t t2 (e.owned ++ ref2.owned) (e3.owned ++ ref2.owned) := by simpa using ca
            have oRef2_t2 : Owns t2 ref2.owned := (Owns.append_iff.1 ca'.owns).2.1
            refine Good.bind (strEltDestroy_spec (some ref2) t2 ca.wf (by simpa [ownedEltOpt] using oRef2_t2)) ?_
            intro _ t3 ⟨d3, hd3, nd3⟩
            have d3' : Clean t2 t3 ref2.owned [] := by simpa [ownedEltOpt] using d3
            refine hrec t3 d3.wf (by rw [d3.sched, ca.sched, sct, c1'.sched]) (by omega) (by omega) ?_
            intro i
            rw [d3'.live, ca'.live, lt0]
            have b1 := fE3 i; have b7 := wf i; have b8 := hown2 i; have b9 := fN0 i
            have b10 : i ∈ e3.owned → i ∉ ref2.owned := fun h1 h2 => (Owns.append_iff.1 ca'.owns).2.2 i h1 h2
            simp only [List.mem_append, List.not_mem_nil, or_false]
            clear ih hfail hborRest hrefstep hrec c1 c1' ca ca' d3 d3' own ownE ownT ownT' ownCR ownRR ownRef ownRest ownRes keep1 keepT ownE1 ownRef1 ownRest1 ownRes1 ownRC1 oRC_t2 oRes_t2 hold hbor hX0 lt lt0 lt2 oE3_t2 fE3 dE3rest dXrest hRef2_t hE_t hprov hprov' hown2 oRef2_t2 hNref2 fN fN0
            grind
    · -- the reference goes to `one_ref`
      have hresl1 : result.hdr ∈ s1.live := ownRes1.2 _ (by simp [refsOwned])
      refine Good.bind (listAppend_spec result ref s1 c1'.wf hresl1) ?_
      intro r2 s2 ⟨eh2, hh2', hcase⟩
      obtain ⟨res2, ok2⟩ := r2
      simp only at eh2 hh2' hcase ⊢
      rcases hcase with ⟨hok, hl2, c2⟩ | ⟨hok, cid, hcells, c2⟩
      · subst hok
        simp only [Bool.not_false, if_true, hl2]
        have hn2 := c2.next; have hh2 := c2.hits
        have keep2 : ∀ Y : List Nat, Owns s1 Y → Owns s2 Y := fun Y oY => c2.keeps oY (by simp)
        refine Good.bind (strEltDestroy_spec (some ref) s2 c2.wf (by simpa [ownedEltOpt] using keep2 _ ownRef1)) ?_
        intro _ s3 ⟨d3, hd3, nd3⟩
        have d3' : Clean s2 s3 ref.owned [] := by simpa [ownedEltOpt] using d3
        have oRC3 : Owns s3 (refCellsOwned rHdr rest) := by
          refine d3'.keeps (keep2 _ ownRC1) ?_
          intro i hi hm
          rcases List.mem_cons.1 hi with h | h
          · subst h; exact hrRef hm
          · exact dRefRest i hm h
        have oRes3 : Owns s3 (refsOwned result) := d3'.keeps (keep2 _ ownRes1) (fun i hi hm => dRefRes i hm hi)
        refine (hfail s3 e d3.wf oRC3 oRes3).mono ?_
        intro r s4 ⟨er, l4, sc4, n4, hh4, wf4⟩
        subst er
        simp only [List.append_nil]
        refine ⟨by simp, by simp, by simp, ⟨?_, fun i hi => Or.inl (List.mem_append_left _ hi), ownE.1, by rw [sc4, d3.sched, c2.sched, c1'.sched],
          by omega, by omega, wf4⟩, by simp, fun l' hl' x hx => Or.inl ⟨l', hl', hx⟩⟩
        intro i
        rw [l4, d3'.live, c2.live, c1'.live, hX0]
        have a1 := ownE.2 i; have a2 := dERef i; have a3 := dERest i; have a4 := dERes i
        simp only [refCellsOwned] at *
        generalize cellsOwned StrElt.owned rest = RS at *
        generalize refsOwned result = RR at *
        simp only [List.mem_cons, List.mem_singleton, List.not_mem_nil, or_false, not_false_eq_true, and_true]
        clear ih hfail hborRest c1 c1' c2 d3 d3' own ownE ownT ownT' ownCR ownRR ownRef ownRest ownRes keep1 keep2 ownE1 ownRef1 ownRest1 ownRes1 ownRC1 oRC3 oRes3 hold hbor hX0
        grind
      · subst hok
        simp only [Bool.not_true, Bool.false_eq_true, if_false]
        have hn2 := c2.next; have hh2 := c2.hits
        have hfc : s1.next < cid ∧ cid ≤ s2.next := by have := c2.fresh cid (by simp); simpa using this
        have keep2 : ∀ Y : List Nat, Owns s1 Y → Owns s2 Y := fun Y oY => c2.keeps oY (by simp)
        have hR2 : ∀ i, i ∈ refsOwned res2 ↔ i ∈ refsOwned result ∨ i = cid ∨ i ∈ ref.owned := by
          intro i
          simp only [refsOwned, eh2, hcells, cellsOwned_append, List.mem_cons, List.mem_append]
          simp only [cellsOwned, List.flatMap_cons, List.flatMap_nil, List.append_nil, List.mem_cons]
          grind
        have hnohit : ¬ s1.hits < s2.hits := by intro hh; have := hh2' hh; simp at this
        have own2 : Owns s2 (e.owned ++ (refCellsOwned rHdr rest ++ refsOwned res2)) := by
          have oE2 := keep2 _ ownE1
          have oRC2 := keep2 _ ownRC1
          have oRes2 := keep2 _ ownRes1
          have oRef2 := keep2 _ ownRef1
          have hcidl : cid ∈ s2.live := (c2.live _).2 (Or.inr (by simp))
          have hcidOld : ∀ i, i ∈ s0.live → i ≠ cid := fun i hi h => by have := wf i hi; omega
          have oR2 : Owns s2 (refsOwned res2) := by
            refine ⟨?_, fun i hi => ?_⟩
            · have hnR := ownRes.1
              have hnRef := ownRef.1
              simp only [refsOwned, eh2, hcells, cellsOwned_append] at hnR ⊢
              simp only [cellsOwned, List.flatMap_cons, List.flatMap_nil, List.append_nil] at hnR ⊢
              have b1 : ∀ i ∈ refsOwned result, i ≠ cid := fun i hi => hcidOld i (ownRes.2 i hi)
              have b2 : ∀ i ∈ ref.owned, i ≠ cid := fun i hi => hcidOld i (ownRef.2 i hi)
              have b3 := dRefRes
              simp only [refsOwned, cellsOwned] at b1 b3
              simp only [List.nodup_cons, List.nodup_append, List.mem_append, List.mem_cons] at hnR hnRef b1 b2 b3 ⊢
              clear ih hfail hborRest c1 c1' c2 own ownE ownT ownT' ownCR ownRR ownRef ownRest ownRes keep1 keep2 ownE1 ownRef1 ownRest1 ownRes1 ownRC1 hold hbor hX0 oE2 oRC2 oRes2 oRef2 hR2
              grind
            · rcases (hR2 i).1 hi with h | h | h
              · exact oRes2.2 i h
              · subst h; exact hcidl
              · exact oRef2.2 i h
          refine Owns.append_iff.2 ⟨oE2, Owns.append_iff.2 ⟨oRC2, oR2, ?_⟩, ?_⟩
          · intro i hi hm
            rcases (hR2 i).1 hm with h | h | h
            · exact dRCRes i hi h
            · subst h; have := c1'.wf _ (ownRC1.2 _ hi); omega
            · rcases List.mem_cons.1 hi with h' | h'
              · subst h'; exact hrRef h
              · exact dRefRest i h h'
          · intro i hi hm
            rcases List.mem_append.1 hm with h | h
            · rcases List.mem_cons.1 h with h' | h'
              · subst h'; exact hrE hi
              · exact dERest i hi h'
            · rcases (hR2 i).1 h with h' | h' | h'
              · exact dERes i hi h'
              · subst h'; have := wf _ (ownE.2 _ hi); omega
              · exact dERef i hi h'
        have hbor2 := hborRest s2 (e.owned ++ (refCellsOwned rHdr rest ++ refsOwned res2))
          (by
            intro i hi hn
            refine (c2.live i).2 (Or.inl ⟨(c1'.live i).2 (Or.inl ⟨hi, ?_⟩), by simp⟩)
            simp; intro hc; subst hc; exact hn ((hX0 _).2 (Or.inr (Or.inr (Or.inl rfl)))))
          (by
            intro i hi
            rcases List.mem_append.1 hi with h | h
            · exact Or.inl ((hX0 _).2 (Or.inl h))
            · rcases List.mem_append.1 h with h' | h'
              · rcases List.mem_cons.1 h' with h'' | h''
                · exact Or.inl ((hX0 _).2 (Or.inr (Or.inl h'')))
                · exact Or.inl ((hX0 _).2 (Or.inr (Or.inr (Or.inr (Or.inr (Or.inl h''))))))
              · rcases (hR2 i).1 h' with h'' | h'' | h''
                · exact Or.inl ((hX0 _).2 (Or.inr (Or.inr (Or.inr (Or.inr (Or.inr h''))))))
                · subst h''; exact Or.inr (by omega)
                · exact Or.inl ((hX0 _).2 (Or.inr (Or.inr (Or.inr (Or.inl h''))))))
        refine (ih e res2 s2 c2.wf own2 hbor2).mono ?_
        intro r s3 ⟨a1, a2, a3, c3, h3, p3⟩
        have hn3 := c3.next; have hh3 := c3.hits
        refine ⟨a1, a2, a3, ⟨?_, ?_, c3.nodup, by rw [c3.sched, c2.sched, c1'.sched], by omega, by omega, c3.wf⟩, ?_, p3⟩
        · intro i
          rw [c3.live, c2.live, c1'.live, hX0]
          have b1 := hR2 i; have b2 := hold i; have b7 := wf i
          generalize (match r.2 with | none => [] | some one => rHdr :: refsOwned one) = P at *
          simp only [refCellsOwned] at *
          generalize cellsOwned StrElt.owned rest = RS at *
          generalize refsOwned result = RR at *
          generalize refsOwned res2 = R2 at *
          simp only [List.mem_cons, List.mem_append, List.mem_singleton, List.not_mem_nil, or_false, not_false_eq_true, and_true] at b2 ⊢
          clear ih hfail hborRest c1 c1' c2 c3 own ownE ownT ownT' ownCR ownRR ownRef ownRest ownRes keep1 keep2 ownE1 ownRef1 ownRest1 ownRes1 ownRC1 hold hbor hX0 own2 hbor2 hR2 p3
          grind
        · intro i hi
          have b0 := c3.fresh i hi; have b1 := hR2 i
          generalize (match r.2 with | none => [] | some one => rHdr :: refsOwned one) = P at *
          simp only [refCellsOwned] at *
          generalize cellsOwned StrElt.owned rest = RS at *
          generalize refsOwned result = RR at *
          generalize refsOwned res2 = R2 at *
          simp only [List.mem_cons, List.mem_append] at b0 ⊢
          clear ih hfail hborRest c1 c1' c2 c3 own ownE ownT ownT' ownCR ownRR ownRef ownRest ownRes keep1 keep2 ownE1 ownRef1 ownRest1 ownRes1 ownRC1 hold hbor hX0 own2 hbor2 hR2 p3
          grind
        · intro hh
          exact h3 (by omega)

/-- `wbxml_strtbl_check_references` (repaired): whatever fails, every string, every reference
    element and the three temporary lists are accounted for — moved to the string table, returned
    in `one_ref`, or released. `*strings` is left alone only when the very first allocation fails
    (and then nothing else happened); otherwise it is destroyed and reset. -/
theorem checkReferences_spec (e : AEnc) (strings : AList ABuf) (stat : Bool) (s : Ledger) (wf : s.WF)
    (own : Owns s (e.owned ++ stringsOwned stat strings.hdr strings.cells))
    (hbor : stat = true → ∀ b ∈ strings.cells.map (·.2),
      b.hdr ∈ s.live ∧ b.hdr ∉ e.owned ++ stringsOwned stat strings.hdr strings.cells) :
    Good (checkReferences e strings stat) s (fun r s' =>
      r.1.hdr = e.hdr ∧ r.1.output = e.output ∧ r.1.useStrtbl = e.useStrtbl ∧
      Clean s s' (e.owned ++ stringsOwned stat strings.hdr strings.cells)
        (r.1.owned ++ ((match r.2.2.1 with | none => [] | some l => stringsOwned stat l.hdr l.cells) ++
          (match r.2.2.2 with | none => [] | some one => refsOwned one))) ∧
      (r.2.1 ≠ OK → r.2.2.2 = none) ∧ (r.2.1 = OK → r.2.2.1 = none ∧ r.2.2.2.isSome) ∧
      (s.hits < s'.hits → r.2.1 ≠ OK) ∧
      (∀ l', r.1.strstbl = some l' → ∀ x ∈ l'.items, (∃ l, e.strstbl = some l ∧ x ∈ l.items) ∨ x.stat = false)) := by
  obtain ⟨ownE, ownS, dES⟩ := Owns.append_iff.1 own
  have hold : ∀ i ∈ e.owned ++ stringsOwned stat strings.hdr strings.cells, i ≤ s.next := fun i hi => wf i (own.2 i hi)
  unfold checkReferences
  simp only [bind_eq, pure_eq]
  refine Good.bind (listCreate_spec (ι := StrElt) s wf) ?_
  intro referenced s1 ⟨c1, h1, e1⟩
  have hn1 := c1.next; have hh1 := c1.hits
  cases referenced with
  | none =>
    simp only [good_ret, List.append_nil]
    refine ⟨by simp, by simp, by simp, ?_, by simp, by simp [ENOMEM, OK], by simp [ENOMEM, OK], fun l' hl' x hx => Or.inl ⟨l', hl', hx⟩⟩
    have cid := Clean.id wf own
    refine ⟨?_, fun i hi => Or.inl hi, cid.nodup, c1.sched, c1.next, c1.hits, c1.wf⟩
    intro i; rw [c1.live]; have := cid.live i; simp only [List.not_mem_nil, or_false, not_false_eq_true, and_true] at *; grind
  | some referenced =>
    simp only
    have hrc := e1 referenced rfl
    have hh1' : ¬ s.hits < s1.hits := by intro hh; have := h1 hh; simp at this
    have hfr : s.next < referenced.hdr ∧ referenced.hdr ≤ s1.next := by
      have := c1.fresh referenced.hdr (by simp); simpa using this
    have c1' : Clean s s1 [] [referenced.hdr] := by simpa using c1
    have keep1 : ∀ Y : List Nat, Owns s Y → Owns s1 Y := fun Y oY => c1'.keeps oY (by simp)
    have hRef0 : refsOwned referenced = [referenced.hdr] := by simp [refsOwned, hrc, cellsOwned]
    have ownC : Owns s1 (stringsOwned stat strings.hdr strings.cells ++ refsOwned referenced) := by
      rw [hRef0]
      refine Owns.append_iff.2 ⟨keep1 _ ownS, c1'.owns, ?_⟩
      intro i hi hm; simp at hm; subst hm
      have := hold _ (List.mem_append_right _ hi); omega
    refine Good.bind (countRefs_spec (fun b => b ∈ s.live ∧ b ∉ e.owned ++ stringsOwned stat strings.hdr strings.cells)
      stat strings.hdr strings.cells referenced s1 c1.wf ownC (by simp [hrc]) hbor) ?_
    intro ref' s2 ⟨cc, hc, pc⟩
    rw [hRef0] at cc
    have hn2 := cc.next; have hh2 := cc.hits
    -- `e` is untouched by the counting loop
    have dEC : ∀ i ∈ e.owned, i ∉ stringsOwned stat strings.hdr strings.cells ++ [referenced.hdr] := by
      intro i hi hm
      rcases List.mem_append.1 hm with h | h
      · exact dES i hi h
      · simp at h; subst h; have := hold _ (List.mem_append_left _ hi); omega
    have ownE2 : Owns s2 e.owned := cc.keeps (keep1 _ ownE) dEC
    cases ref' with
    | none =>
      simp only [good_ret, List.append_nil]
      refine ⟨by simp, by simp, by simp, ⟨?_, fun i hi => Or.inl (List.mem_append_left _ hi), ownE.1, by rw [cc.sched, c1.sched], by omega, by omega, cc.wf⟩,
        by simp, by simp [ENOMEM, OK], by simp [ENOMEM, OK], fun l' hl' x hx => Or.inl ⟨l', hl', hx⟩⟩
      intro i
      rw [cc.live, c1'.live]
      have a1 := ownE.2 i; have a2 := dES i; have a3 := hold i; have a9 := ownS.2 i; have a10 := wf i
      simp only [List.mem_append, List.mem_singleton, List.not_mem_nil, or_false, not_false_eq_true, and_true] at *
      generalize stringsOwned stat strings.hdr strings.cells = SS at *
      clear c1 c1' cc own ownE ownS ownC keep1 ownE2 dEC hold hbor pc
      grind
    | some ref' =>
      simp only
      have hp := pc ref' rfl
      have ccP : Clean s1 s2 (stringsOwned stat strings.hdr strings.cells ++ [referenced.hdr]) (strings.hdr :: refsOwned ref') := by simpa using cc
      obtain ⟨hsl2, hsn2, ownR2⟩ := Owns.cons_iff.1 ccP.owns
      -- ids of the references: old string blocks or younger than `s`
      have hfR : ∀ i ∈ refsOwned ref', i ∈ stringsOwned stat strings.hdr strings.cells ∨ s.next < i := by
        intro i hi
        rcases ccP.fresh i (List.mem_cons_of_mem _ hi) with h | h
        · rcases List.mem_append.1 h with h' | h'
          · exact Or.inl h'
          · simp at h'; subst h'; exact Or.inr hfr.1
        · exact Or.inr (by omega)
      have dER : ∀ i ∈ e.owned, i ∉ refsOwned ref' := by
        intro i hi hm
        rcases hfR i hm with h | h
        · exact dES i hi h
        · have := hold _ (List.mem_append_left _ hi); omega
      refine Good.bind (listDestroy_spec (fun _ => ([] : List Nat)) _ (fun it t wft _ => by simp only [pure_eq, good_ret]; exact ⟨Clean.rfl wft, by simp, by simp⟩)
        (some (⟨strings.hdr, []⟩ : AList ABuf)) s2 cc.wf (by simpa [listOwned, cellsOwned] using (Owns.cons_iff.2 ⟨hsl2, by simp, Owns.nil s2⟩))) ?_
      intro _ s3 ⟨d3, hd3, nd3⟩
      have d3' : Clean s2 s3 [strings.hdr] [] := by simpa [listOwned, cellsOwned] using d3
      have keep3 : ∀ Y : List Nat, Owns s2 Y → strings.hdr ∉ Y → Owns s3 Y :=
        fun Y oY hY => d3'.keeps oY (by intro i hi hm; simp at hm; subst hm; exact hY hi)
      have ownE3 : Owns s3 e.owned := keep3 _ ownE2 (fun hm => dES _ hm (by simp [stringsOwned]))
      have ownR3 : Owns s3 (refsOwned ref') := keep3 _ ownR2 hsn2
      refine Good.bind (listCreate_spec (ι := StrElt) s3 d3.wf) ?_
      intro result s4 ⟨c4, h4, e4⟩
      have hn4 := c4.next; have hh4 := c4.hits
      have keep4 : ∀ Y : List Nat, Owns s3 Y → Owns s4 Y := fun Y oY => c4.keeps oY (by simp)
      cases result with
      | none =>
        simp only
        refine Good.bind (listDestroy_spec StrElt.owned _ elt_destroys (some ref') s4 c4.wf (by simpa [listOwned] using keep4 _ ownR3)) ?_
        intro _ s5 ⟨d5, hd5, nd5⟩
        have d5' : Clean s4 s5 (refsOwned ref') [] := by simpa [listOwned] using d5
        simp only [good_ret, List.append_nil]
        refine ⟨by simp, by simp, by simp, ⟨?_, fun i hi => Or.inl (List.mem_append_left _ hi), ownE.1,
          by rw [d5.sched, c4.sched, d3.sched, cc.sched, c1.sched], by omega, by omega, d5.wf⟩,
          by simp, by simp [ENOMEM, OK], by simp [ENOMEM, OK], fun l' hl' x hx => Or.inl ⟨l', hl', hx⟩⟩
        intro i
        rw [d5'.live, c4.live, d3'.live, ccP.live, c1'.live]
        have a1 := ownE.2 i; have a2 := dES i; have a3 := hold i; have a4 := dER i; have a9 := ownS.2 i; have a10 := wf i; have a11 := hfR i
        have a5 : strings.hdr ∉ e.owned := fun hm => dES _ hm (by simp [stringsOwned])
        have a12 : strings.hdr ∈ stringsOwned stat strings.hdr strings.cells := by simp [stringsOwned]
        simp only [List.mem_append, List.mem_singleton, List.mem_cons, List.not_mem_nil, or_false, not_false_eq_true, and_true] at *
        generalize stringsOwned stat strings.hdr strings.cells = SS at *
        generalize refsOwned ref' = RR at *
        clear c1 c1' cc ccP d3 d3' c4 d5 d5' own ownE ownS ownC keep1 keep3 keep4 ownE2 ownE3 ownR2 ownR3 dEC hold hbor pc hp hfR dER
        grind
      | some result =>
        simp only
        have hrc4 := e4 result rfl
        have hh4' : ¬ s3.hits < s4.hits := by intro hh; have := h4 hh; simp at this
        have hfres : s3.next < result.hdr ∧ result.hdr ≤ s4.next := by
          have := c4.fresh result.hdr (by simp); simpa using this
        have c4' : Clean s3 s4 [] [result.hdr] := by simpa using c4
        have hRes0 : refsOwned result = [result.hdr] := by simp [refsOwned, hrc4, cellsOwned]
        have ownSp : Owns s4 (e.owned ++ (refCellsOwned ref'.hdr ref'.cells ++ refsOwned result)) := by
          rw [hRes0]
          refine Owns.append_iff.2 ⟨keep4 _ ownE3, Owns.append_iff.2 ⟨keep4 _ ownR3, c4'.owns, ?_⟩, ?_⟩
          · intro i hi hm; simp at hm; subst hm
            have := d3.wf _ (ownR3.2 _ hi); omega
          · intro i hi hm
            rcases List.mem_append.1 hm with h | h
            · exact dER i hi h
            · simp at h; subst h; have := hold _ (List.mem_append_left _ hi); omega
        have hborSp : ∀ x ∈ ref'.cells.map (·.2), x.stat = true →
            x.string.hdr ∈ s4.live ∧ x.string.hdr ∉ e.owned ++ (refCellsOwned ref'.hdr ref'.cells ++ refsOwned result) := by
          intro x hx hst
          obtain ⟨hl, hn⟩ := hp x hx hst
          have hle := wf _ hl
          have hnS : x.string.hdr ∉ stringsOwned stat strings.hdr strings.cells := fun hm => hn (List.mem_append_right _ hm)
          have hnE : x.string.hdr ∉ e.owned := fun hm => hn (List.mem_append_left _ hm)
          refine ⟨?_, ?_⟩
          · refine (c4'.live _).2 (Or.inl ⟨(d3'.live _).2 (Or.inl ⟨(ccP.live _).2 (Or.inl ⟨(c1'.live _).2 (Or.inl ⟨hl, by simp⟩), ?_⟩), ?_⟩), by simp⟩)
            · intro hm
              rcases List.mem_append.1 hm with h | h
              · exact hnS h
              · simp at h; omega
            · simp; intro h; exact hnS (by rw [h]; simp [stringsOwned])
          · intro hm
            rcases List.mem_append.1 hm with h | h
            · exact hnE h
            · rcases List.mem_append.1 h with h' | h'
              · rcases hfR _ h' with h'' | h''
                · exact hnS h''
                · omega
              · rw [hRes0] at h'; simp at h'; omega
        refine Good.bind (splitRefs_spec ref'.hdr ref'.cells e result s4 c4.wf ownSp hborSp) ?_
        intro r5 s5 ⟨eh5, eo5, eu5, cs, h5, p5⟩
        obtain ⟨e5, oneRef⟩ := r5
        simp only at eh5 eo5 eu5 cs h5 p5 ⊢
        rw [hRes0] at cs
        have hn5 := cs.next; have hh5 := cs.hits
        have hfE5 : ∀ i ∈ e5.owned, i ∈ e.owned ∨ i ∈ stringsOwned stat strings.hdr strings.cells ∨ s.next < i := by
          intro i hi
          rcases cs.fresh i (List.mem_append_left _ hi) with h | h
          · rcases List.mem_append.1 h with h' | h'
            · exact Or.inl h'
            · rcases List.mem_append.1 h' with h'' | h''
              · rcases hfR i h'' with h3 | h3
                · exact Or.inr (Or.inl h3)
                · exact Or.inr (Or.inr h3)
              · simp at h''; subst h''; exact Or.inr (Or.inr (by omega))
          · exact Or.inr (Or.inr (by omega))
        cases oneRef with
        | none =>
          simp only [good_ret, List.append_nil] at cs ⊢
          refine ⟨eh5, eo5, eu5, ⟨?_, ?_, (Owns.append_iff.1 (by simpa using cs.owns : Owns s5 (e5.owned ++ []))).1.1,
            by rw [cs.sched, c4.sched, d3.sched, cc.sched, c1.sched], by omega, by omega, cs.wf⟩,
            by simp, by simp [ENOMEM, OK], by simp [ENOMEM, OK], p5⟩
          · intro i
            rw [cs.live, c4'.live, d3'.live, ccP.live, c1'.live]
            have a1 := ownE.2 i; have a2 := dES i; have a3 := hold i; have a4 := dER i; have a6 := hfE5 i; have a7 := wf i; have a11 := hfR i
            have a5 : strings.hdr ∉ e.owned := fun hm => dES _ hm (by simp [stringsOwned])
            have a12 : strings.hdr ∈ stringsOwned stat strings.hdr strings.cells := by simp [stringsOwned]
            have a8 := ownS.2 i
            simp only [refCellsOwned] at *
            generalize stringsOwned stat strings.hdr strings.cells = SS at *
            generalize hRR : refsOwned ref' = RR at *
            simp only [refsOwned] at hRR
            rw [hRR]
            simp only [List.mem_append, List.mem_singleton, List.mem_cons, List.not_mem_nil, or_false, not_false_eq_true, and_true] at *
            clear c1 c1' cc ccP d3 d3' c4 c4' cs own ownE ownS ownC keep1 keep3 keep4 ownE2 ownE3 ownR2 ownR3 dEC hold hbor pc hp hfR dER ownSp hborSp hfE5 p5 hRR
            grind
          · intro i hi
            rcases hfE5 i hi with h | h | h
            · exact Or.inl (List.mem_append_left _ h)
            · exact Or.inl (List.mem_append_right _ h)
            · exact Or.inr ⟨h, by have := cs.wf i ((cs.live i).2 (Or.inr (by simpa using hi))); omega⟩
        | some one =>
          simp only at cs ⊢
          have ownAll5 : Owns s5 (e5.owned ++ (ref'.hdr :: refsOwned one)) := cs.owns
          obtain ⟨ownE5, ownT5, dE5⟩ := Owns.append_iff.1 ownAll5
          obtain ⟨hrl5, hrn5, ownOne5⟩ := Owns.cons_iff.1 ownT5
          refine Good.bind (listDestroy_spec StrElt.owned _ elt_destroys (some (⟨ref'.hdr, []⟩ : AList StrElt)) s5 cs.wf
            (by simpa [listOwned, cellsOwned] using (Owns.cons_iff.2 ⟨hrl5, by simp, Owns.nil s5⟩))) ?_
          intro _ s6 ⟨d6, hd6, nd6⟩
          have d6' : Clean s5 s6 [ref'.hdr] [] := by simpa [listOwned, cellsOwned] using d6
          simp only [good_ret, List.nil_append]
          have hfOne : ∀ i ∈ refsOwned one, i ∈ e.owned ∨ i ∈ stringsOwned stat strings.hdr strings.cells ∨ s.next < i := by
            intro i hi
            rcases cs.fresh i (List.mem_append_right _ (List.mem_cons_of_mem _ hi)) with h | h
            · rcases List.mem_append.1 h with h' | h'
              · exact Or.inl h'
              · rcases List.mem_append.1 h' with h'' | h''
                · rcases hfR i h'' with h3 | h3
                  · exact Or.inr (Or.inl h3)
                  · exact Or.inr (Or.inr h3)
                · simp at h''; subst h''; exact Or.inr (Or.inr (by omega))
            · exact Or.inr (Or.inr (by omega))
          have dE5One : ∀ i ∈ e5.owned, i ∉ refsOwned one := fun i hi hm => dE5 i hi (List.mem_cons_of_mem _ hm)
          have hn6 := d6'.next; have hh6 := d6'.hits
          refine ⟨eh5, eo5, eu5, ⟨?_, ?_, (Owns.append_iff.2 ⟨ownE5, ownOne5, dE5One⟩).1,
            by rw [d6.sched, cs.sched, c4.sched, d3.sched, cc.sched, c1.sched], by omega, by omega, d6.wf⟩,
            by simp, by simp, ?_, p5⟩
          · intro i
            rw [d6'.live, cs.live, c4'.live, d3'.live, ccP.live, c1'.live]
            have a1 := ownE.2 i; have a2 := dES i; have a3 := hold i; have a4 := dER i; have a6 := hfE5 i; have a7 := wf i; have a11 := hfR i
            have a5 : strings.hdr ∉ e.owned := fun hm => dES _ hm (by simp [stringsOwned])
            have a12 : strings.hdr ∈ stringsOwned stat strings.hdr strings.cells := by simp [stringsOwned]
            have a8 := ownS.2 i; have a13 := hfOne i
            have a14 : ref'.hdr ∉ refsOwned one := hrn5
            have a15 : ref'.hdr ∉ e5.owned := fun hm => dE5 _ hm (by simp)
            have a16 := dE5One i
            have a17 : ref'.hdr ∈ refsOwned ref' := by simp [refsOwned]
            simp only [refCellsOwned] at *
            generalize stringsOwned stat strings.hdr strings.cells = SS at *
            generalize refsOwned one = RO at *
            generalize hRR : refsOwned ref' = RR at *
            simp only [refsOwned] at hRR
            rw [hRR]
            simp only [List.mem_append, List.mem_singleton, List.mem_cons, List.not_mem_nil, or_false, not_false_eq_true, and_true, false_or] at *
            clear c1 c1' cc ccP d3 d3' c4 c4' cs d6 d6' own ownE ownS ownC keep1 keep3 keep4 ownE2 ownE3 ownR2 ownR3 dEC hold hbor pc hp hfR dER ownSp hborSp hfE5 p5 hRR ownAll5 ownE5 ownT5 ownOne5 dE5 hfOne dE5One
            grind
          · intro i hi
            rcases List.mem_append.1 hi with h | h
            · rcases hfE5 i h with h' | h' | h'
              · exact Or.inl (List.mem_append_left _ h')
              · exact Or.inl (List.mem_append_right _ h')
              · exact Or.inr ⟨h', by have := cs.wf i (ownE5.2 i h); omega⟩
            · have h2 : i ∈ refsOwned one := by simpa using h
              rcases hfOne i h2 with h' | h' | h'
              · exact Or.inl (List.mem_append_left _ h')
              · exact Or.inl (List.mem_append_right _ h')
              · exact Or.inr ⟨h', by have := cs.wf i (ownOne5.2 i h2); omega⟩
          · intro hh
            exfalso
            have b1 := h1; have b4 := h4; have b5 := h5; have bc := hc
            simp at b1 b4 b5 bc
            omega

end Wbxml.Model.Alloc
