/-
  C16 — tree building on the ledger, part B: `wbxml_tree_add_node` (element / CDATA node; text node
  with the join of adjacent text nodes), `wbxml_tree_add_elt`, `wbxml_tree_node_add_attrs`,
  `wbxml_tree_extract_node`, `wbxml_tree_add_elt_with_attrs`, `wbxml_tree_add_cdata`,
  `wbxml_tree_add_text`.
-/
import Wbxml.Lemmas.AllocTreeA
namespace Wbxml.Model.Alloc
open Wbxml
set_option linter.unusedSimpArgs false
set_option linter.unusedVariables false
set_option linter.unnecessarySimpa false

/-! ### Pushing a new open node -/

def pushFrame (c : TCtx) (kind : NKind) (node : ANode) : TCtx := { c with frames := ⟨kind, node, []⟩ :: c.frames }

theorem pushFrame_perm (c : TCtx) (kind : NKind) (node : ANode) :
    (pushFrame c kind node).owned.Perm (c.owned ++ node.owned) := by
  simp only [pushFrame, TCtx.owned, List.flatMap_cons, Frame.owned, List.flatMap_nil, List.append_nil]
  perm_count

theorem pushFrame_ok (c : TCtx) (kind : NKind) (node : ANode) (h : c.ok) (hn : nodeOk node) (hk : kind ≠ .text)
    (hr : c.frames = [] → c.root = none) : (pushFrame c kind node).ok := by
  refine ⟨fun _ => ?_, h.2.1, ?_⟩
  · by_cases hf : c.frames = []
    · exact hr hf
    · exact h.1 hf
  · intro f hf
    simp only [pushFrame, List.mem_cons] at hf
    rcases hf with rfl | hf
    · exact ⟨hn, hk, by simp⟩
    · exact h.2.2 f hf

/-- `wbxml_tree_add_node` for an element or CDATA node: nothing is requested or released; it fails
    only when there is no parent although the tree has a root. -/
theorem addOpen_spec (c : TCtx) (kind : NKind) (node : ANode) (s : Ledger)
    (own : Owns s (c.owned ++ node.owned)) :
    Good (addOpen c kind node) s (fun r s' => s' = s ∧
      ((r.2 = false ∧ r.1 = c) ∨
       (r.2 = true ∧ r.1 = pushFrame c kind node ∧ (c.frames = [] → c.root = none)))) := by
  obtain ⟨ownC, ownN, _⟩ := Owns.append_iff.1 own
  have hnl : node.hdr ∈ s.live := ownN.2 _ (hdr_mem_owned node)
  unfold addOpen
  simp only [bind_eq, pure_eq]
  refine Good.bind (deref_spec node.hdr s hnl) ?_
  intro _ s0 e0; subst e0
  rcases hf : c.frames with _ | ⟨f, rest⟩
  · simp only
    refine Good.bind (deref_spec c.tree s0 (ownC.2 _ (tree_mem_owned c))) ?_
    intro _ s0' e0'; have e0'' := e0'.symm; subst e0''
    cases hr : c.root with
    | some k => simp only [Option.isSome_some, if_true, good_ret]; exact ⟨trivial, Or.inl ⟨trivial, trivial⟩⟩
    | none =>
      simp only [Option.isSome_none, Bool.false_eq_true, if_false, good_ret]
      exact ⟨trivial, Or.inr ⟨trivial, by simp [pushFrame, hf, hr], fun _ => trivial⟩⟩
  · simp only
    have hfm : f ∈ c.frames := by simp [hf]
    refine Good.bind (deref_spec f.node.hdr s0 (ownC.2 _ (frame_mem_owned c hfm (by simp [Frame.owned, hdr_mem_owned])))) ?_
    intro _ s0' e0'; have e0'' := e0'.symm; subst e0''
    refine Good.bind (walkKids_spec f.kids s0 (fun k hk => ownC.2 _ (frame_mem_owned c hfm (kid_hdr_mem f hk)))) ?_
    intro _ s0' e0'; have e0'' := e0'.symm; subst e0''
    refine Good.bind (deref_spec node.hdr s0 hnl) ?_
    intro _ s0' e0'; have e0'' := e0'.symm; subst e0''
    simp only [good_ret]
    exact ⟨trivial, Or.inr ⟨trivial, by simp [pushFrame, hf], fun h => by simp at h⟩⟩

/-! ### The last child of the current node -/

/-- What the context owns apart from the last closed child of the head frame. -/
def ctxRest (c : TCtx) (f : Frame) (rest : List Frame) (init : List Kid) : List Nat :=
  c.tree :: (ownedKidOpt c.root ++ ((f.node.owned ++ init.flatMap Kid.owned) ++ rest.flatMap Frame.owned))

def setKids (c : TCtx) (f : Frame) (rest : List Frame) (kids : List Kid) : TCtx :=
  { c with frames := { f with kids := kids } :: rest }

theorem setKids_perm (c : TCtx) (f : Frame) (rest : List Frame) (init : List Kid) (k : Kid) :
    (setKids c f rest (init ++ [k])).owned.Perm (k.owned ++ ctxRest c f rest init) := by
  simp only [setKids, ctxRest, TCtx.owned, List.flatMap_cons, Frame.owned, List.flatMap_append, List.flatMap_nil,
    List.append_nil]
  perm_count

theorem setKids_self (c : TCtx) (f : Frame) (rest : List Frame) (hf : c.frames = f :: rest) : setKids c f rest f.kids = c := by
  cases c; simp only [setKids] at hf ⊢; simp [hf]

theorem setKids_ok (c : TCtx) (f : Frame) (rest : List Frame) (hf : c.frames = f :: rest) (h : c.ok) (kids : List Kid)
    (hk : ∀ k ∈ kids, k.ok) : (setKids c f rest kids).ok := by
  have hfo := h.2.2 f (by simp [hf])
  refine ⟨fun _ => h.1 (by simp [hf]), h.2.1, ?_⟩
  intro x hx
  simp only [setKids, List.mem_cons] at hx
  rcases hx with rfl | hx
  · exact ⟨hfo.1, hfo.2.1, hk⟩
  · exact h.2.2 x (by simp [hf, hx])

theorem getLast_split {α : Type} (l : List α) (x : α) (h : l.getLast? = some x) : l = l.dropLast ++ [x] := by
  induction l with
  | nil => simp at h
  | cons a r ih =>
    cases r with
    | nil => simp at h; simp [h]
    | cons b r' =>
      have h' : (b :: r').getLast? = some x := by simpa [List.getLast?_cons_cons] using h
      have := ih h'
      simp only [List.dropLast_cons_cons, List.cons_append]
      rw [← this]

def mkText (n : ANode) : Kid := ⟨.text, n, [], s!"({headSig .text n})"⟩

theorem mkText_ok (n : ANode) (h : nodeOk n) : (mkText n).ok := ⟨h, fun _ => rfl⟩

theorem mkText_owned (n : ANode) : (mkText n).owned = n.owned := by simp [mkText, Kid.owned]

/-! ### `wbxml_tree_add_node` for a text node -/

/-- The text node is appended, or joined with the text node before it (whose buffer grows and is
    handed over to the new node, the old node being destroyed).  On failure the context keeps what it
    had and the node stays the caller's. -/
theorem addText_spec (c : TCtx) (node : ANode) (s : Ledger) (wf : s.WF) (hok : c.ok) (hn : nodeOk node)
    (own : Owns s (c.owned ++ node.owned)) :
    Good (addText c node) s (fun r s' =>
      r.1.tree = c.tree ∧ r.1.error = c.error ∧ r.1.ok ∧ (s.hits < s'.hits → r.2 = false) ∧
      (r.2 = true → Clean s s' (c.owned ++ node.owned) r.1.owned) ∧
      (r.2 = false → Clean s s' (c.owned ++ node.owned) (r.1.owned ++ node.owned))) := by
  obtain ⟨ownC, ownN, _⟩ := Owns.append_iff.1 own
  have hnl : node.hdr ∈ s.live := ownN.2 _ (hdr_mem_owned node)
  have hsame : ∀ ok : Bool, (fun (r : TCtx × Bool) (s' : Ledger) =>
      r.1.tree = c.tree ∧ r.1.error = c.error ∧ r.1.ok ∧ (s.hits < s'.hits → r.2 = false) ∧
      (r.2 = true → Clean s s' (c.owned ++ node.owned) r.1.owned) ∧
      (r.2 = false → Clean s s' (c.owned ++ node.owned) (r.1.owned ++ node.owned))) (c, false) s :=
    fun _ => ⟨rfl, rfl, hok, fun h => absurd h (Nat.lt_irrefl _), fun h => Bool.noConfusion h, fun _ => Clean.id wf own⟩
  unfold addText
  simp only [bind_eq, pure_eq]
  refine Good.bind (deref_spec node.hdr s hnl) ?_
  intro _ s0 e0; subst e0
  rcases hf : c.frames with _ | ⟨f, rest⟩
  · simp only
    refine Good.bind (deref_spec c.tree s0 (ownC.2 _ (tree_mem_owned c))) ?_
    intro _ s0' e0'; have e0'' := e0'.symm; subst e0''
    cases hr : c.root with
    | some k => simp only [Option.isSome_some, if_true]; exact good_ret.2 (hsame true)
    | none =>
      simp only [Option.isSome_none, Bool.false_eq_true, if_false]
      have hkok : ∀ k, some (mkText node) = some k → k.ok := by
        intro k hk
        simp only [Option.some.injEq] at hk
        subst hk
        exact mkText_ok node hn
      have hperm : (c.owned ++ node.owned).Perm ({ c with root := some (mkText node), frames := [] } : TCtx).owned := by
        simp only [TCtx.owned, hf, hr, ownedKidOpt, mkText_owned, List.flatMap_nil, List.append_nil]
        perm_count
      exact good_ret.2 ⟨rfl, rfl, ⟨fun h => by simp [hf] at h, hkok, by simp [hf]⟩, fun h => absurd h (Nat.lt_irrefl _),
        fun _ => (Clean.id wf own).prod_perm hperm, fun h => Bool.noConfusion h⟩
  · simp only
    have hfm : f ∈ c.frames := by simp [hf]
    have hfo := hok.2.2 f hfm
    refine Good.bind (deref_spec f.node.hdr s0 (ownC.2 _ (frame_mem_owned c hfm (by simp [Frame.owned, hdr_mem_owned])))) ?_
    intro _ s0' e0'; have e0'' := e0'.symm; subst e0''
    refine Good.bind (walkKids_spec f.kids s0 (fun k hk => ownC.2 _ (frame_mem_owned c hfm (kid_hdr_mem f hk)))) ?_
    intro _ s0' e0'; have e0'' := e0'.symm; subst e0''
    cases hlast : f.kids.getLast? with
    | none =>
      simp only
      have hk0 : f.kids = [] := by simpa using hlast
      have hc : c = setKids c f rest [] := by rw [← hk0]; exact (setKids_self c f rest hf).symm
      have hperm : (c.owned ++ node.owned).Perm (setKids c f rest [mkText node]).owned := ?_
      · exact good_ret.2 ⟨rfl, rfl, setKids_ok c f rest hf hok _ (by intro k hk; simp at hk; subst hk; exact mkText_ok node hn),
          fun h => absurd h (Nat.lt_irrefl _), fun _ => (Clean.id wf own).prod_perm hperm, fun h => Bool.noConfusion h⟩
      have h1 := setKids_perm c f rest [] (mkText node)
      have h2 : c.owned.Perm (ctxRest c f rest []) := by
        rw [TCtx.owned_cons c f rest hf]
        simp only [ctxRest, Frame.owned, hk0, List.flatMap_nil, List.append_nil]
        perm_count
      simp only [List.nil_append] at h1
      refine List.Perm.trans ?_ h1.symm
      rw [mkText_owned]
      exact (List.perm_append_comm).trans (List.Perm.append_left _ h2)
    | some last =>
      simp only
      have hsplit := getLast_split f.kids last hlast
      have hlm : last ∈ f.kids := by rw [hsplit]; simp
      have hlo := hfo.2.2 last hlm
      have hll : last.node.hdr ∈ s0.live := ownC.2 _ (frame_mem_owned c hfm (kid_hdr_mem f hlm))
      refine Good.bind (deref_spec node.hdr s0 hnl) ?_
      intro _ s0' e0'; have e0'' := e0'.symm; subst e0''
      refine Good.bind (deref_spec last.node.hdr s0 hll) ?_
      intro _ s0' e0'; have e0'' := e0'.symm; subst e0''
      -- the context around the last child
      have hc : c = setKids c f rest (f.kids.dropLast ++ [last]) := by rw [← hsplit]; exact (setKids_self c f rest hf).symm
      have hcp : c.owned.Perm (last.owned ++ ctxRest c f rest f.kids.dropLast) := by
        have := setKids_perm c f rest f.kids.dropLast last
        rwa [← hc] at this
      have hinit : ∀ k ∈ f.kids.dropLast, k.ok := fun k hk => hfo.2.2 k (by rw [hsplit]; simp [hk])
      by_cases hkt : last.kind = .text
      · rw [if_pos hkt]
        have hbelow : last.below = [] := hlo.2 hkt
        cases hcont : last.node.content with
        | none => simp only; exact good_ret.2 (hsame true)
        | some dest =>
          simp only
          have hdok : dest.ok := hlo.1 dest hcont
          -- footprint with the joined buffer in front
          have hLO : last.owned = last.node.hdr :: (ownedNameOpt last.node.name ++ attrsOwned last.node.attrs ++ dest.owned) := by
            simp [Kid.owned, hbelow, ANode.owned_eq, hcont, ownedBufOpt]
          have hX : (c.owned ++ node.owned).Perm (dest.owned ++ ((last.node.hdr :: (ownedNameOpt last.node.name ++ attrsOwned last.node.attrs)) ++
              (node.owned ++ ctxRest c f rest f.kids.dropLast))) := by
            refine (List.Perm.append_right _ hcp).trans ?_
            rw [hLO]
            perm_count
          have ownX := own.perm hX
          have hsrc : ∀ x, node.content = some x → x.hdr ∈ s0.live := by
            intro x hx
            exact ownN.2 _ (by simp [ANode.owned_eq, hx, ownedBufOpt, ABuf.owned])
          refine Good.bind (bufAppend_spec dest node.content s0 wf ownX.left hdok hsrc) ?_
          intro r s1 ⟨eh, es, cb, hb, hko⟩
          obtain ⟨dest', ok⟩ := r
          simp only at eh es cb hb hko ⊢
          have cX1 : Clean s0 s1 (c.owned ++ node.owned) (dest'.owned ++ ((last.node.hdr :: (ownedNameOpt last.node.name ++ attrsOwned last.node.attrs)) ++
              (node.owned ++ ctxRest c f rest f.kids.dropLast))) :=
            (Clean.frame_r _ wf cb ownX).cons_congr (fun i => hX.mem_iff)
          have hlast'ok : ({ last with node := { last.node with content := some dest' } } : Kid).ok :=
            ⟨fun b hb' => by simp only [Option.some.injEq] at hb'; subst hb'; exact hko hdok, fun _ => hbelow⟩
          have hL'O : ({ last with node := { last.node with content := some dest' } } : Kid).owned =
              last.node.hdr :: (ownedNameOpt last.node.name ++ attrsOwned last.node.attrs ++ dest'.owned) := by
            simp [Kid.owned, hbelow, ANode.owned_eq, ownedBufOpt]
          cases ok with
          | false =>
            simp only [Bool.not_false, if_true]
            refine good_ret.2 ⟨rfl, rfl, setKids_ok c f rest hf hok _ ?_, fun _ => rfl, fun h => Bool.noConfusion h, fun _ => ?_⟩
            · intro k hk
              simp only [List.mem_append, List.mem_singleton] at hk
              rcases hk with hk | rfl
              · exact hinit k hk
              · exact hlast'ok
            · refine cX1.prod_perm ?_
              have h1 := setKids_perm c f rest f.kids.dropLast { last with node := { last.node with content := some dest' } }
              refine List.Perm.trans ?_ (List.Perm.append_right _ h1.symm)
              rw [hL'O]
              perm_count
          | true =>
            simp only [Bool.not_true, Bool.false_eq_true, if_false]
            have hno : ¬ s0.hits < s1.hits := by intro hh; have := hb hh; simp at this
            have hll1 : last.node.hdr ∈ s1.live := cX1.owns.2 _ (by simp)
            refine Good.bind (deref_spec last.node.hdr s1 hll1) ?_
            intro _ s1' e1'; have e1'' := e1'.symm; subst e1''
            have hprev : Good (match f.kids.dropLast.getLast? with
                | none => Prog.ret ()
                | some prev => deref (some prev.node.hdr)) s1 (fun _ s' => s' = s1) := by
              cases hp : f.kids.dropLast.getLast? with
              | none => simp only [good_ret]
              | some prev =>
                simp only
                have hpm : prev ∈ f.kids.dropLast := by
                  have := getLast_split _ prev hp; rw [this]; simp
                refine deref_spec prev.node.hdr s1 (cX1.owns.2 _ ?_)
                simp only [ctxRest, List.mem_append, List.mem_cons, List.mem_flatMap]
                exact Or.inr (Or.inr (Or.inr (Or.inr (Or.inr (Or.inl (Or.inr ⟨prev, hpm, by simp [Kid.owned, hdr_mem_owned]⟩))))))
            refine Good.bind hprev ?_
            intro _ s1' e1'; have e1'' := e1'.symm; subst e1''
            -- release the new node's own buffer
            have hNO : node.owned = node.hdr :: (ownedNameOpt node.name ++ attrsOwned node.attrs ++ ownedBufOpt node.content) :=
              ANode.owned_eq node
            have cX1' : Clean s0 s1 (c.owned ++ node.owned) (ownedBufOpt node.content ++
                ((last.node.hdr :: (ownedNameOpt last.node.name ++ attrsOwned last.node.attrs)) ++
                  ((node.hdr :: (ownedNameOpt node.name ++ attrsOwned node.attrs ++ dest'.owned)) ++ ctxRest c f rest f.kids.dropLast))) := by
              refine cX1.prod_perm ?_
              rw [hNO]
              perm_count
            refine Good.bind (bufDestroy_spec node.content s1 cb.wf cX1'.owns.left) ?_
            intro _ s2 ⟨d2, hd2, nd2⟩
            have cX2 := Clean.step_r _ wf cX1' d2
            simp only [List.nil_append] at cX2
            -- destroy the old text node (its buffer has been handed over)
            have hshell : ({ last.node with content := none } : ANode).owned =
                last.node.hdr :: (ownedNameOpt last.node.name ++ attrsOwned last.node.attrs) := by
              simp [ANode.owned_eq, ownedBufOpt]
            have ownSh : Owns s2 ({ last.node with content := none } : ANode).owned := by rw [hshell]; exact cX2.owns.left
            refine Good.bind (nodeDestroy_spec (some { last.node with content := none }) s2 d2.wf ownSh) ?_
            intro _ s3 ⟨d3, hd3, nd3⟩
            have d3' : Clean s2 s3 ({ last.node with content := none } : ANode).owned [] := d3
            rw [hshell] at d3'
            have cX3 := Clean.step_r _ wf cX2 d3'
            simp only [List.nil_append] at cX3
            have hnode'ok : nodeOk ({ node with content := some dest' } : ANode) := by
              intro b hb'; simp only [Option.some.injEq] at hb'; subst hb'; exact hko hdok
            have hh1 := cb.hits
            refine good_ret.2 ⟨rfl, rfl, setKids_ok c f rest hf hok _ ?_, fun hh => by exfalso; omega, fun _ => ?_, fun h => Bool.noConfusion h⟩
            · intro k hk
              simp only [List.mem_append, List.mem_singleton] at hk
              rcases hk with hk | rfl
              · exact hinit k hk
              · exact mkText_ok _ hnode'ok
            · refine cX3.prod_perm ?_
              have h1 := setKids_perm c f rest f.kids.dropLast (mkText { node with content := some dest' })
              refine List.Perm.trans ?_ h1.symm
              rw [mkText_owned, ANode.owned_eq]
              simp only [ownedBufOpt]
              perm_count
      · rw [if_neg hkt]
        refine Good.bind (deref_spec last.node.hdr s0 hll) ?_
        intro _ s0' e0'; have e0'' := e0'.symm; subst e0''
        refine good_ret.2 ⟨rfl, rfl, setKids_ok c f rest hf hok _ ?_, fun h => absurd h (Nat.lt_irrefl _), fun _ => ?_, fun h => Bool.noConfusion h⟩
        · intro k hk
          simp only [List.mem_append, List.mem_singleton] at hk
          rcases hk with hk | rfl
          · exact hfo.2.2 k hk
          · exact mkText_ok node hn
        · refine (Clean.id wf own).prod_perm ?_
          have h1 := setKids_perm c f rest f.kids (mkText node)
          have h2 : c.owned.Perm (ctxRest c f rest f.kids) := by
            rw [TCtx.owned_cons c f rest hf]
            simp only [ctxRest, Frame.owned]
            perm_count
          refine List.Perm.trans ?_ h1.symm
          rw [mkText_owned]
          exact (List.perm_append_comm).trans (List.Perm.append_left _ h2)

end Wbxml.Model.Alloc
