/-
  Parser safety, part 5: the tree stage and the XML generation stage of `wbxml2xml`
  (`Model/EncXml.lean`) as far as totality is concerned.
-/
import Wbxml.Lemmas.ParserSafeMain
import Wbxml.Model.EncXml
namespace Wbxml.Lemmas.ParserSafe
open Wbxml Wbxml.Model

-- The error-code constants are literals (none of them is 0 = `WBXML_OK`).
attribute [local simp] E.badDatetime E.internal E.langTableUndefined E.tagTableUndefined E.b64Enc
  E.wvDatetimeFormat E.noCharsetConv E.charsetStrLen E.charsetNotFound E.attrTableUndefined
  E.attrValueTableUndefined E.badOpaqueLength E.emptyWbxml E.endOfBuffer E.extValueTableUndefined
  E.invalidStrtblIndex E.nullStringTable E.stringExpected E.strtblLength E.unknownAttrValue
  E.unknownExtensionToken E.unknownPublicId E.unvalidMbUint32 E.wvIntegerOverflow E.invalidUnicode

/-- The tree builder's only error code is 13 (`WBXML_ERROR_INTERNAL`). -/
theorem attach_error (b : BState) (n : Node) :
    (b.attach n).error = b.error ∨ (b.attach n).error = some E.internal := by
  unfold BState.attach
  repeat' split
  all_goals first | exact Or.inl rfl | exact Or.inr rfl

/-- Leaving a CDATA section touches the stack only. -/
theorem leaveCdata_error (b : BState) : b.leaveCdata.error = b.error := by
  unfold BState.leaveCdata
  repeat' split
  all_goals rfl

theorem leaveCdata_root (b : BState) : b.leaveCdata.root = b.root := by
  unfold BState.leaveCdata
  repeat' split
  all_goals rfl

theorem buildStep_error (main : List Lang) (emb : Nat → Bytes → Option Tree) (b : BState) (e : Event) :
    (buildStep main emb b e).error = b.error ∨ (buildStep main emb b e).error = some E.internal := by
  unfold buildStep
  split
  · exact Or.inl rfl
  · cases e with
    | startElt n attrs =>
      dsimp only
      split
      · exact Or.inr rfl
      · exact Or.inl (leaveCdata_error b)
    | _ =>
      dsimp only
      repeat' split
      all_goals first | exact Or.inl rfl | exact Or.inr rfl | exact attach_error _ _

theorem run_error (main : List Lang) (emb : Nat → Bytes → Option Tree) : ∀ (es : List Event) (b : BState),
    (b.error = none ∨ b.error = some E.internal) →
    ((es.foldl (buildStep main emb) b).error = none ∨ (es.foldl (buildStep main emb) b).error = some E.internal)
  | [], _, h => h
  | e :: es, b, h => by
    rw [List.foldl_cons]
    refine run_error main emb es _ ?_
    rcases buildStep_error main emb b e with h1 | h1
    · rw [h1]; exact h
    · exact Or.inr h1

/-- `wbxml_tree_from_wbxml` with at least one unit of fuel returns a tree or an error code: the
    verdict is the parser's, or the tree builder's error code. -/
theorem treeOfWbxml_safe (main : List Lang) (f lang cs : Nat) (bs : Bytes) :
    Safe (treeOfWbxml main (f + 1) lang cs bs) := by
  rw [treeOfWbxml]
  have hp := parse_result_ok { main := main, langForced := lang, metaCharset := cs } bs
  split
  · rename_i e he
    rw [he] at hp
    cases e <;> first | exact hp | exact True.intro
  · split
    · rename_i e he
      rcases run_error main _ _ {} (Or.inl rfl) with h | h
      · rw [h] at he; cases he
      · rw [h] at he; cases he; simp
    · simp

/-- A parser error is the tree stage's error. -/
theorem treeOfWbxml_of_parse_error (main : List Lang) (f lang cs : Nat) (bs : Bytes) (e : Err)
    (h : (parse { main := main, langForced := lang, metaCharset := cs } bs).result = .error e) :
    treeOfWbxml main (f + 1) lang cs bs = .error e := by
  rw [treeOfWbxml]
  simp only [h]

/-- `parse_text`/`xml_encode_text`: success or error 18 (base64 of an empty buffer). -/
theorem xmlText_safe (c : XCfg) (s : Bytes) (st : XSt) : Safe (xmlText c s st) := by
  unfold xmlText
  dsimp only
  repeat' split
  all_goals simp

/-! The shape condition under which XML generation of a node is total with fuel `f`: the nesting
    (elements, sibling chains, embedded documents) fits into `f` units — `xmlNode` spends one unit per
    level and `xmlNodes` one per sibling — and no embedded document with a language lacks its root
    (the only `Err.ub` flag of the generator). Independent of options and printer state. -/
mutual
def okNode : Nat → Node → Bool
  | 0, _ => false
  | f + 1, .elt _ _ kids => okList f kids
  | _ + 1, .text _ => true
  | f + 1, .cdata kids => okList f kids
  | _ + 1, .tree none _ _ => true
  | _ + 1, .tree (some _) _ none => false
  | f + 1, .tree (some _) _ (some r) => okNode f r
def okList : Nat → List Node → Bool
  | 0, _ => false
  | _ + 1, [] => true
  | f + 1, n :: rest => okNode f n && okList f rest
end

theorem xml_ok : ∀ (f : Nat),
    (∀ (c : XCfg) (p : Parent) (n : Node) (st : XSt), okNode f n = true → Safe (xmlNode c p f n st)) ∧
    (∀ (c : XCfg) (p : Parent) (ns : List Node) (st : XSt), okList f ns = true → Safe (xmlNodes c p f ns st))
  | 0 => ⟨fun _ _ _ _ h => by simp [okNode] at h, fun _ _ _ _ h => by simp [okList] at h⟩
  | f + 1 => by
    obtain ⟨ihN, ihL⟩ := xml_ok f
    constructor
    · intro c p n st h
      cases n with
      | elt name attrs kids =>
        simp only [okNode] at h
        simp only [xmlNode]
        refine Ok.bind (ihL c _ kids _ h) ?_
        intro st' _
        simp
      | text s =>
        simp only [xmlNode]
        refine Ok.bind (xmlText_safe c s st) ?_
        intro st' _
        simp
      | cdata kids =>
        simp only [okNode] at h
        simp only [xmlNode]
        refine Ok.bind (ihL c _ kids _ h) ?_
        intro st' _
        simp
      | tree lang cs root =>
        cases lang with
        | none => simp [xmlNode]
        | some l =>
          cases root with
          | none => simp [okNode] at h
          | some r =>
            simp only [okNode] at h
            simp only [xmlNode]
            refine Ok.bind (ihN _ _ r _ h) ?_
            intro st' _
            simp
    · intro c p ns st h
      cases ns with
      | nil => simp [xmlNodes]
      | cons n rest =>
        simp only [xmlNodes]
        simp only [okList, Bool.and_eq_true] at h
        refine Ok.bind (ihN c p n st h.1) ?_
        intro st' _
        exact ihL c p rest st' h.2

theorem xmlNode_safe {f : Nat} {n : Node} (c : XCfg) (p : Parent) (st : XSt) (h : okNode f n = true) :
    Safe (xmlNode c p f n st) := (xml_ok f).1 c p n st h

/-- More fuel never hurts. -/
theorem ok_mono : ∀ (f : Nat),
    (∀ (n : Node) (f' : Nat), f ≤ f' → okNode f n = true → okNode f' n = true) ∧
    (∀ (ns : List Node) (f' : Nat), f ≤ f' → okList f ns = true → okList f' ns = true)
  | 0 => ⟨fun _ _ _ h => by simp [okNode] at h, fun _ _ _ h => by simp [okList] at h⟩
  | f + 1 => by
    obtain ⟨ihN, ihL⟩ := ok_mono f
    constructor
    · intro n f' hf h
      cases f' with
      | zero => omega
      | succ f' =>
        have hf' : f ≤ f' := by omega
        cases n with
        | elt name attrs kids => simp only [okNode] at h ⊢; exact ihL kids f' hf' h
        | text s => rfl
        | cdata kids => simp only [okNode] at h ⊢; exact ihL kids f' hf' h
        | tree lang cs root =>
          cases lang with
          | none => rfl
          | some l =>
            cases root with
            | none => simp [okNode] at h
            | some r => simp only [okNode] at h ⊢; exact ihN r f' hf' h
    · intro ns f' hf h
      cases f' with
      | zero => omega
      | succ f' =>
        have hf' : f ≤ f' := by omega
        cases ns with
        | nil => rfl
        | cons n rest =>
          simp only [okList, Bool.and_eq_true] at h ⊢
          exact ⟨ihN n f' hf' h.1, ihL rest f' hf' h.2⟩

/-! The structural budget `Node.xmlFuel` (`Model/EncXml.lean`) is exactly what `okNode` asks for: the
    only way `okNode n.xmlFuel n` can fail is the shape defect (an embedded document with a language
    and no root), which no amount of fuel repairs. -/
theorem ok_xmlFuel_of_ok : ∀ (f : Nat),
    (∀ (n : Node), okNode f n = true → okNode n.xmlFuel n = true) ∧
    (∀ (ns : List Node), okList f ns = true → okList (Node.xmlFuelL ns) ns = true)
  | 0 => ⟨fun _ h => by simp [okNode] at h, fun _ h => by simp [okList] at h⟩
  | f + 1 => by
    obtain ⟨ihN, ihL⟩ := ok_xmlFuel_of_ok f
    constructor
    · intro n h
      cases n with
      | elt name attrs kids => simp only [okNode] at h; simp only [Node.xmlFuel, okNode]; exact ihL kids h
      | text s => rfl
      | cdata kids => simp only [okNode] at h; simp only [Node.xmlFuel, okNode]; exact ihL kids h
      | tree lang cs root =>
        cases root with
        | none =>
          cases lang with
          | none => rfl
          | some l => simp [okNode] at h
        | some r =>
          cases lang with
          | none => simp only [Node.xmlFuel, okNode]
          | some l => simp only [okNode] at h; simp only [Node.xmlFuel, okNode]; exact ihN r h
    · intro ns h
      cases ns with
      | nil => rfl
      | cons n rest =>
        simp only [okList, Bool.and_eq_true] at h
        simp only [Node.xmlFuelL, okList, Bool.and_eq_true]
        exact ⟨(ok_mono _).1 n _ (Nat.le_max_left _ _) (ihN n h.1),
               (ok_mono _).2 rest _ (Nat.le_max_right _ _) (ihL rest h.2)⟩

/-- If any fuel makes `okNode` true, the structural budget does. -/
theorem okNode_xmlFuel_of_ok {f : Nat} {n : Node} (h : okNode f n = true) : okNode n.xmlFuel n = true :=
  (ok_xmlFuel_of_ok f).1 n h

theorem okList_xmlFuelL_of_ok {f : Nat} {ns : List Node} (h : okList f ns = true) :
    okList (Node.xmlFuelL ns) ns = true :=
  (ok_xmlFuel_of_ok f).2 ns h

/-! The shape defect on its own, without any fuel: `rootedN n` says that no embedded document in `n`
    that has a language lacks its root. -/
mutual
def rootedN : Node → Bool
  | .elt _ _ kids => rootedL kids
  | .text _ => true
  | .cdata kids => rootedL kids
  | .tree none _ _ => true
  | .tree (some _) _ none => false
  | .tree (some _) _ (some r) => rootedN r
def rootedL : List Node → Bool
  | [] => true
  | n :: rest => rootedN n && rootedL rest
end

mutual
/-- **The structural budget suffices**: for every node without the shape defect, `okNode` holds at
    `n.xmlFuel`. -/
theorem okNode_xmlFuel : ∀ (n : Node), rootedN n = true → okNode n.xmlFuel n = true
  | .elt _ _ kids, h => by
    simp only [rootedN] at h; simp only [Node.xmlFuel, okNode]; exact okList_xmlFuelL kids h
  | .text _, _ => rfl
  | .cdata kids, h => by
    simp only [rootedN] at h; simp only [Node.xmlFuel, okNode]; exact okList_xmlFuelL kids h
  | .tree none _ none, _ => rfl
  | .tree none _ (some _), _ => by simp only [Node.xmlFuel, okNode]
  | .tree (some _) _ none, h => by simp [rootedN] at h
  | .tree (some _) _ (some r), h => by
    simp only [rootedN] at h; simp only [Node.xmlFuel, okNode]; exact okNode_xmlFuel r h
theorem okList_xmlFuelL : ∀ (ns : List Node), rootedL ns = true → okList (Node.xmlFuelL ns) ns = true
  | [], _ => rfl
  | n :: rest, h => by
    simp only [rootedL, Bool.and_eq_true] at h
    simp only [Node.xmlFuelL, okList, Bool.and_eq_true]
    exact ⟨(ok_mono _).1 n _ (Nat.le_max_left _ _) (okNode_xmlFuel n h.1),
           (ok_mono _).2 rest _ (Nat.le_max_right _ _) (okList_xmlFuelL rest h.2)⟩
end

/-- `okNode` at any fuel implies the absence of the shape defect. -/
theorem rooted_of_ok : ∀ (f : Nat),
    (∀ (n : Node), okNode f n = true → rootedN n = true) ∧
    (∀ (ns : List Node), okList f ns = true → rootedL ns = true)
  | 0 => ⟨fun _ h => by simp [okNode] at h, fun _ h => by simp [okList] at h⟩
  | f + 1 => by
    obtain ⟨ihN, ihL⟩ := rooted_of_ok f
    constructor
    · intro n h
      cases n with
      | elt name attrs kids => simp only [okNode] at h; simp only [rootedN]; exact ihL kids h
      | text s => rfl
      | cdata kids => simp only [okNode] at h; simp only [rootedN]; exact ihL kids h
      | tree lang cs root =>
        cases lang with
        | none => simp only [rootedN]
        | some l =>
          cases root with
          | none => simp [okNode] at h
          | some r => simp only [okNode] at h; simp only [rootedN]; exact ihN r h
    · intro ns h
      cases ns with
      | nil => rfl
      | cons n rest =>
        simp only [okList, Bool.and_eq_true] at h
        simp only [rootedL, Bool.and_eq_true]
        exact ⟨ihN n h.1, ihL rest h.2⟩

/-- `okNode` is "no shape defect" plus "enough fuel", and `xmlFuel` is enough. -/
theorem exists_ok_iff_rooted (n : Node) : (∃ f, okNode f n = true) ↔ rootedN n = true :=
  ⟨fun ⟨f, h⟩ => (rooted_of_ok f).1 n h, fun h => ⟨_, okNode_xmlFuel n h⟩⟩

/-- `wbxml_tree_to_xml`: total on a tree without language (error 12) and on a tree whose root
    satisfies the shape condition. -/
theorem treeToXml_safe (cfg : W2XCfg) (fuel : Nat) (t : Tree)
    (h : t.lang = none ∨ ∃ r, t.root = some r ∧ okNode fuel r = true) : Safe (treeToXml cfg fuel t) := by
  unfold treeToXml
  split
  · simp
  · rename_i lang hl hr
    rcases h with h | ⟨r, h, _⟩
    · rw [hl] at h; cases h
    · rw [hr] at h; cases h
  · rename_i lang root hl hr
    rcases h with h | ⟨r, h, hok⟩
    · rw [hl] at h; cases h
    · rw [hr] at h; cases h
      refine Ok.bind (xmlNode_safe _ _ _ hok) ?_
      intro st _
      simp

/-- The anatomy of `wbxml2xml`: empty input is error 12; otherwise the tree stage yields an error
    code or a tree, and the result is that of the XML stage on this tree. -/
theorem wbxml2xml_anatomy (cfg : W2XCfg) (bs : Bytes) :
    (bs = [] ∧ wbxml2xml cfg bs = .error (.code 12)) ∨
    (∃ c, c ≠ 0 ∧ treeOfWbxml cfg.main (bs.length + 1) cfg.lang cfg.charset bs = .error (.code c) ∧
        wbxml2xml cfg bs = .error (.code c)) ∨
    (∃ t, treeOfWbxml cfg.main (bs.length + 1) cfg.lang cfg.charset bs = .ok t ∧
        wbxml2xml cfg bs = treeToXml cfg t.xmlFuel t) := by
  unfold wbxml2xml
  cases bs with
  | nil => exact Or.inl ⟨rfl, rfl⟩
  | cons b r =>
    refine Or.inr ?_
    have h1 : (b :: r).isEmpty = false := rfl
    simp only [h1, Bool.false_eq_true, if_false]
    rcases (treeOfWbxml_safe cfg.main (b :: r).length cfg.lang cfg.charset (b :: r)).cases with
      ⟨t, ht, _⟩ | ⟨c, hc, hc0⟩
    · exact Or.inr ⟨t, ht, by rw [ht]; rfl⟩
    · exact Or.inl ⟨c, hc0, hc, by rw [hc]; rfl⟩

end Wbxml.Lemmas.ParserSafe
