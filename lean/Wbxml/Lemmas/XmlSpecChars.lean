/-
  What the printer writes for character data is UTF-8 for XML characters whenever the data is:
  escaping (`xmlEscape`) and the CDATA form (`cdataText`) only touch or insert ASCII octets.
-/
import Wbxml.Lemmas.XmlSpecCdata
namespace Wbxml.Lemmas.XmlSpec
open Wbxml Wbxml.Model Wbxml.Spec Wbxml.Spec.Xml Wbxml.Lemmas.EncW

theorem xmlChars_cons_ascii (b : UInt8) (r : Bytes) (hb : b.toNat < 0x80) :
    xmlChars (b :: r) = (isChar b.toNat && xmlChars r) := allCp_ascii isChar b r hb

theorem allCp_multi (p : Nat → Bool) (ch : Bytes) (c : Nat) (hd : ∀ t, decode (ch ++ t) = (decode t).map (c :: ·))
    (hp : p c = true) (Y : Bytes) (hY : allCp p Y = true) : allCp p (ch ++ Y) = true := by
  unfold allCp at hY ⊢
  rw [hd]
  cases hr : decode Y with
  | none => rw [hr] at hY; simp at hY
  | some cs => rw [hr] at hY; simp [hp, hY]

theorem high_ne (b k : UInt8) (h : 0x80 ≤ b.toNat) (hk : k.toNat < 0x80) : b ≠ k := by
  intro e; subst e; omega

theorem esc1_high (c : Bool) (b : UInt8) (h : 0x80 ≤ b.toNat) : esc1 c b = [b] := by
  have h60 := high_ne b 60 h (by decide)
  have h62 := high_ne b 62 h (by decide)
  have h38 := high_ne b 38 h (by decide)
  have h34 := high_ne b 34 h (by decide)
  have h39 := high_ne b 39 h (by decide)
  have h13 := high_ne b 13 h (by decide)
  have h10 := high_ne b 10 h (by decide)
  have h9 := high_ne b 9 h (by decide)
  simp [esc1, h60, h62, h38, h34, h39, h13, h10, h9]

theorem xmlEscape_append (c : Bool) (a b : Bytes) : xmlEscape c (a ++ b) = xmlEscape c a ++ xmlEscape c b := by
  simp [xmlEscape, List.flatMap_append]

theorem xmlEscape_high (c : Bool) (ch : Bytes) (h : ∀ b ∈ ch, 0x80 ≤ b.toNat) : xmlEscape c ch = ch := by
  induction ch with
  | nil => rfl
  | cons b r ih =>
    rw [xmlEscape_cons, esc1_high c b (h b List.mem_cons_self), ih (fun x hx => h x (List.mem_cons_of_mem _ hx))]
    rfl

theorem xmlChars_esc1 (c : Bool) (a : UInt8) (ha : a.toNat < 0x80) (hc : isChar a.toNat = true) :
    xmlChars (esc1 c a) = true := by
  unfold esc1
  split; · decide
  split; · decide
  split; · decide
  split; · decide
  split; · decide
  split; · decide
  split; · decide
  split; · decide
  rw [xmlChars_cons_ascii a [] ha, hc]; rfl

/-- Escaped character data is UTF-8 for XML characters when the data is. -/
theorem xmlChars_escape (c : Bool) (s : Bytes) (h : xmlChars s = true) : xmlChars (xmlEscape c s) = true := by
  revert h
  refine allCp_induct isChar (fun s => xmlChars (xmlEscape c s) = true) rfl ?_ ?_ s
  · intro a r ha hp _ ih
    rw [xmlEscape_cons]
    exact xmlChars_append _ _ (xmlChars_esc1 c a ha hp) ih
  · intro ch cp r _ hch hd _ hp _ ih
    rw [xmlEscape_append, xmlEscape_high c ch hch]
    exact allCp_multi isChar ch cp hd hp _ ih

theorem cdataText_high (ch r : Bytes) (h : ∀ b ∈ ch, 0x80 ≤ b.toNat) : cdataText (ch ++ r) = ch ++ cdataText r := by
  induction ch with
  | nil => rfl
  | cons b t ih =>
    have hb := high_ne b 93 (h b List.mem_cons_self) (by decide)
    rw [List.cons_append, cdataText_cons b _ (fun hh => hb hh.1), ih (fun x hx => h x (List.mem_cons_of_mem _ hx))]
    rfl

/-- The text of a CDATA node as it is written is UTF-8 for XML characters when the text is. -/
theorem xmlChars_cdataText (s : Bytes) (h : xmlChars s = true) : xmlChars (cdataText s) = true := by
  revert h
  refine allCp_induct isChar (fun s => xmlChars (cdataText s) = true) rfl ?_ ?_ s
  · intro a r ha hp _ ih
    by_cases h93 : a = 93 ∧ ∃ r', r = 93 :: 62 :: r'
    · obtain ⟨rfl, r', rfl⟩ := h93
      rw [cdataText_cons 93 _ (by simp), cdataText_cons 62 _ (by simp),
        xmlChars_cons_ascii 93 _ (by decide), xmlChars_cons_ascii 62 _ (by decide)] at ih
      simp only [Bool.and_eq_true] at ih
      have : cdataText (93 :: 93 :: 62 :: r') = b!"]]]]><![CDATA[>" ++ cdataText r' := by simp [cdataText]
      rw [this]
      exact xmlChars_append _ _ (by decide) ih.2.2
    · rw [cdataText_cons a r h93, xmlChars_cons_ascii a _ ha, hp, ih]; rfl
  · intro ch cp r _ hch hd _ hp _ ih
    rw [cdataText_high ch r hch]
    exact allCp_multi isChar ch cp hd hp _ ih

end Wbxml.Lemmas.XmlSpec
