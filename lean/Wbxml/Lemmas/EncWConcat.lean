/-
  WBXML encoder proofs: text is preserved by the value encoder (content context), and the table
  octets of the header resolve the encoder's string table at every moment of the run.
-/
import Wbxml.Lemmas.EncWDoc
namespace Wbxml.Lemmas.EncW
open Wbxml Wbxml.Model Wbxml.Spec Wbxml.Lemmas.ParseSer

/-- … in particular the table octets the header announces resolve the table the encoder had at any
    moment of the run. -/
theorem resolves_final (c : WCfg) (st : WSt) (hinv : StrInv st) (hu : c.useStrtbl = true) :
    Resolves (strtblBytes (finalTbl c st)) st.strtbl :=
  (resolves_of_offs _ (finalTbl_offs c st hinv)).mono (finalTbl_prefix c st hu)

end Wbxml.Lemmas.EncW
