/-
  WBXML encoder proofs: text is preserved by the value encoder (content context), and the table
  octets of the header resolve the encoder's string table at every moment of the run.
-/
import Wbxml.Lemmas.EncWDoc
namespace Wbxml.Lemmas.EncW
open Wbxml Wbxml.Model Wbxml.Spec Wbxml.Lemmas.ParseSer

/-- … in particular the table octets the header announces resolve the table the encoder had at any
    moment of the run. -/
theorem resolves_final (c : WCfg) (st : WSt) (hinv : StrInv st) (hu : c.useStrtbl = true) :
    Resolves (strtblBytes (finalTbl c st)) st.strtbl :=
  (resolves_of_offs _ (finalTbl_offs c st hinv)).mono (finalTbl_prefix c st hu)


/-! ### Reading the whole document back -/

/-- The reader context a header selects resolves the encoder's final table. -/
theorem DocRes.resolves {cfg lang r bs d st} (h : DocRes cfg lang r bs d st) (pcfg : PCfg) :
    Resolves (headerCtx pcfg d.hdr lang).tbl st.strtbl := by
  have htb : (headerCtx pcfg d.hdr lang).tbl = strtblBytes (finalTbl (dcfgOf cfg lang) st) := h.tblBytes
  rw [htb]
  intro e he hn
  exact resolves_of_offs _ (finalTbl_offs _ _ h.inv) e (finalTbl_mem_of_body _ _ h.no e he) hn

/-- **The specification's reading of the output is the source view** — plain trees (no CDATA, no
    embedded document) of plain languages (no typed content, alias-free tables). -/
theorem DocRes.denotes {cfg lang r bs d st} (h : DocRes cfg lang r bs d st) (hl : langOk lang = true)
    (hpn : plainNode r = true) (hpl : plainLang lang = true) (hnta : noTypedAttr lang.id = true)
    (hvs : valSemOk lang = true) (has : attrSemOk lang = true) (hts : tagSemOk lang = true)
    (han : attrNameSemOk lang = true)
    (pcfg : PCfg) (hlang : headerLang pcfg d.hdr = some lang) :
    opqsDoc d = [] ∧ (Spec.events pcfg d).flatMap toks = srcToks (dcfgOf cfg lang) r := by
  have hf := docStartW_fields (dcfgOf cfg lang) r
  obtain ⟨_, hnoq, hview⟩ := h.view hpn (by rw [dcfgOf_lang]; exact hpl) (by rw [dcfgOf_lang]; exact hnta)
    hf.2.2.2.2.2 (by rw [hf.2.2.2.1]; rfl)
  have hrd : Rd (dcfgOf cfg lang) st.strtbl (headerCtx pcfg d.hdr lang) :=
    ⟨by simp [headerCtx], h.resolves pcfg, by rw [dcfgOf_lang]; exact hl, by rw [dcfgOf_lang]; exact hvs,
      by rw [dcfgOf_lang]; exact has, by rw [dcfgOf_lang]; exact hts, by rw [dcfgOf_lang]; exact han,
      by rw [dcfgOf_lang]; exact hnta⟩
  constructor
  · unfold opqsDoc
    rw [h.pre, h.post]
    rw [opqsItems_single, opqsItem_elem] at hnoq
    simp [opqsAttrs, hnoq]
  · have hv := hview (headerCtx pcfg d.hdr lang) hrd none
    rw [hf.2.1, hf.2.2.1, evItems_single_events, evItem_elem] at hv
    unfold Spec.events
    rw [hlang, h.pre, h.post]
    simp only [evPis, List.nil_append, List.flatMap_cons, List.flatMap_append, List.flatMap_nil, toks,
      List.append_nil, hv]


/-- The source view depends on the options only through the language and the white-space policy. -/
theorem srcToks_congr (c c' : WCfg) (hl : c.lang = c'.lang) (hi : c.ignoreEmpty = c'.ignoreEmpty)
    (hr : c.removeBlanks = c'.removeBlanks) :
    (∀ n, srcToks c n = srcToks c' n) ∧ (∀ l, srcToksL c l = srcToksL c' l) := by
  apply srcToks.mutual_induct (motive_1 := fun n => srcToks c n = srcToks c' n)
    (motive_2 := fun l => srcToksL c l = srcToksL c' l)
  · intro name attrs kids ih
    rw [srcToks, srcToks, ih]
    simp only [srcAttrsView, hl]
  · intro s
    rw [srcToks, srcToks]
    simp only [normText, hl, hi, hr]
  · intro kids; rw [srcToks, srcToks]
  · intro l cs r; rw [srcToks, srcToks]
  · rw [srcToksL, srcToksL]
  · intro n r h1 h2; rw [srcToksL, srcToksL, h1, h2]

theorem dcfgOf_view_fields (cfg : X2WCfg) (lang : Lang) :
    (dcfgOf cfg lang).ignoreEmpty = !cfg.keepWs ∧ (dcfgOf cfg lang).removeBlanks = !cfg.keepWs := by
  unfold dcfgOf
  rw [deriveCfg_ignoreEmpty, deriveCfg_removeBlanks]
  exact ⟨rfl, rfl⟩

end Wbxml.Lemmas.EncW
