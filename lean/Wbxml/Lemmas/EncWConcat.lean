/-
  WBXML encoder proofs: text is preserved by the value encoder (content context), and the table
  octets of the header resolve the encoder's string table at every moment of the run.
-/
import Wbxml.Lemmas.EncWDoc
namespace Wbxml.Lemmas.EncW
open Wbxml Wbxml.Model Wbxml.Spec Wbxml.Lemmas.ParseSer

/-- … in particular the table octets the header announces resolve the table the encoder had at any
    moment of the run. -/
theorem resolves_final (c : WCfg) (st : WSt) (hinv : StrInv st) (hu : c.useStrtbl = true) :
    Resolves (strtblBytes (finalTbl c st)) st.strtbl :=
  (resolves_of_offs _ (finalTbl_offs c st hinv)).mono (finalTbl_prefix c st hu)


/-! ### Reading the whole document back -/

/-- The reader context a header selects resolves the encoder's final table. -/
theorem DocRes.resolves {cfg lang r bs d st} (h : DocRes cfg lang r bs d st) (pcfg : PCfg) :
    Resolves (headerCtx pcfg d.hdr lang).tbl st.strtbl := by
  have htb : (headerCtx pcfg d.hdr lang).tbl = strtblBytes (finalTbl (dcfgOf cfg lang) st) := h.tblBytes
  rw [htb]
  intro e he hn
  exact resolves_of_offs _ (finalTbl_offs _ _ h.inv) e (finalTbl_mem_of_body _ _ h.no e he) hn

/-- **The specification's reading of the output is the source view** — plain trees (no CDATA, no
    embedded document) of plain languages (no typed content, alias-free tables). -/
theorem DocRes.denotes {cfg lang r bs d st} (h : DocRes cfg lang r bs d st) (hl : langOk lang = true)
    (hpn : plainNode r = true) (hpl : plainLang lang = true) (hnta : noTypedAttr lang.id = true)
    (hvs : valSemOk lang = true) (has : attrSemOk lang = true) (hts : tagSemOk lang = true)
    (han : attrNameSemOk lang = true)
    (pcfg : PCfg) (hlang : headerLang pcfg d.hdr = some lang) :
    opqsDoc d = [] ∧ (Spec.events pcfg d).flatMap toks = srcToks (dcfgOf cfg lang) r := by
  have hf := docStartW_fields (dcfgOf cfg lang) r
  obtain ⟨_, hnoq, hview⟩ := h.view hpn (by rw [dcfgOf_lang]; exact hpl) (by rw [dcfgOf_lang]; exact hnta)
    hf.2.2.2.2.2 (by rw [hf.2.2.2.1]; rfl)
  have hrd : Rd (dcfgOf cfg lang) st.strtbl (headerCtx pcfg d.hdr lang) :=
    ⟨by simp [headerCtx], h.resolves pcfg, by rw [dcfgOf_lang]; exact hl, by rw [dcfgOf_lang]; exact hvs,
      by rw [dcfgOf_lang]; exact has, by rw [dcfgOf_lang]; exact hts, by rw [dcfgOf_lang]; exact han,
      by rw [dcfgOf_lang]; exact hnta⟩
  constructor
  · unfold opqsDoc
    rw [h.pre, h.post]
    rw [opqsItems_single, opqsItem_elem] at hnoq
    simp [opqsAttrs, hnoq]
  · have hv := hview (headerCtx pcfg d.hdr lang) hrd none
    rw [hf.2.1, hf.2.2.1, evItems_single_events, evItem_elem] at hv
    unfold Spec.events
    rw [hlang, h.pre, h.post]
    simp only [evPis, List.nil_append, List.flatMap_cons, List.flatMap_append, List.flatMap_nil, toks,
      List.append_nil, hv]


/-- The typed source view of a whole tree: no parent, no `current_tag`, tag page 0. -/
def vTree (c : WCfg) (r : Node) : List Tok := (vNode c none none 0 r).1

/-- **The specification's reading of the output is the TYPED source view** — plain trees (no CDATA,
    no embedded document) of every language but Wireless Village and OTA settings (for those two
    the string table is never used and `DocRes.sameWalk` applies): typed attribute values, DRMREL
    `ds:KeyValue` text, binary-flagged elements and aliased tag names (ActiveSync) included. -/
theorem DocRes.denotesT {cfg lang r bs d st} (h : DocRes cfg lang r bs d st) (hl : langOk lang = true)
    (htl : typedLangOk lang = true)
    (hpn : plainNode r = true) (hnw : isWv lang.id = false) (hno : (lang.id == 1901) = false)
    (hvs : valSemOk lang = true) (has : attrSemOk lang = true) (han : attrNameSemOk lang = true)
    (pcfg : PCfg) (hlang : headerLang pcfg d.hdr = some lang) :
    (Spec.events pcfg d).flatMap toks = vTree (dcfgOf cfg lang) r := by
  have hf := docStartW_fields (dcfgOf cfg lang) r
  obtain ⟨_, _, hview⟩ := h.viewT hpn (by rw [dcfgOf_lang]; exact hnw) (by rw [dcfgOf_lang]; exact hno) hf.2.2.2.2.2
  have hrd : RdT (dcfgOf cfg lang) st.strtbl (headerCtx pcfg d.hdr lang) :=
    ⟨by simp [headerCtx], h.resolves pcfg, by rw [dcfgOf_lang]; exact hl, by rw [dcfgOf_lang]; exact hvs,
      by rw [dcfgOf_lang]; exact has, by rw [dcfgOf_lang]; exact han, by rw [dcfgOf_lang]; exact htl⟩
  have hpos : Pos (dcfgOf cfg lang) (headerCtx pcfg d.hdr lang) none
      (docStartW (dcfgOf cfg lang) r).curTag false true none none := by
    rw [hf.2.2.2.1]; exact Pos.root _ _ true
  have hv := hview (headerCtx pcfg d.hdr lang) hrd false true none none hpos
  rw [hf.2.1, hf.2.2.1, hf.2.2.2.1, evItems_single_events, evItem_elem] at hv
  unfold Spec.events
  rw [hlang, h.pre, h.post]
  simp only [evPis, List.nil_append, List.flatMap_cons, List.flatMap_append, List.flatMap_nil, toks,
    List.append_nil, hv, vTree]

theorem vAttr_congr (c c' : WCfg) (hl : c.lang = c'.lang) (a : Attr) : vAttr c a = vAttr c' a := by
  unfold vAttr vAttrValue startRow
  rw [hl]

theorem vAttrs_congr (c c' : WCfg) (hl : c.lang = c'.lang) (attrs : List Attr) : vAttrs c attrs = vAttrs c' attrs := by
  unfold vAttrs
  rw [hl]
  congr 1
  exact List.map_congr_left (fun a _ => vAttr_congr c c' hl a)

theorem vText_congr (c c' : WCfg) (hl : c.lang = c'.lang) (hi : c.ignoreEmpty = c'.ignoreEmpty)
    (hr : c.removeBlanks = c'.removeBlanks) (parent : Option Name) (cur : Option TagRow) (s : Bytes) :
    vText c parent cur s = vText c' parent cur s := by
  unfold vText textSilent textArg normText
  rw [hl, hi, hr]

mutual
/-- The typed source view depends on the options only through the language and the white-space policy. -/
theorem vNode_congr (c c' : WCfg) (hl : c.lang = c'.lang) (hi : c.ignoreEmpty = c'.ignoreEmpty)
    (hr : c.removeBlanks = c'.removeBlanks) :
    ∀ (n : Node) (parent : Option Name) (cur : Option TagRow) (tp : Nat),
      vNode c parent cur tp n = vNode c' parent cur tp n
  | .elt name attrs kids, parent, cur, tp => by
    simp only [vNode, vNodes_congr c c' hl hi hr kids, vAttrs_congr c c' hl, hl]
  | .text s, parent, cur, tp => by simp only [vNode, vText_congr c c' hl hi hr]
  | .cdata _, parent, cur, tp => by simp only [vNode]
  | .tree _ _ _, parent, cur, tp => by simp only [vNode]
theorem vNodes_congr (c c' : WCfg) (hl : c.lang = c'.lang) (hi : c.ignoreEmpty = c'.ignoreEmpty)
    (hr : c.removeBlanks = c'.removeBlanks) :
    ∀ (l : List Node) (parent : Option Name) (cur : Option TagRow) (tp : Nat),
      vNodes c parent cur tp l = vNodes c' parent cur tp l
  | [], parent, cur, tp => by simp only [vNodes]
  | n :: r, parent, cur, tp => by
    simp only [vNodes, vNode_congr c c' hl hi hr n, vNodes_congr c c' hl hi hr r]
end

theorem textSilent_congr (c c' : WCfg) (hi : c.ignoreEmpty = c'.ignoreEmpty) (hr : c.removeBlanks = c'.removeBlanks)
    (s : Bytes) : textSilent c s = textSilent c' s ∧ textArg c s = textArg c' s := by
  unfold textSilent textArg
  rw [hi, hr]
  exact ⟨rfl, rfl⟩

mutual
/-- The source hypotheses that mention the options depend on them only through the language and
    the white-space policy. -/
theorem b64TextDecodes_congr (c c' : WCfg) (hl : c.lang = c'.lang) (hi : c.ignoreEmpty = c'.ignoreEmpty)
    (hr : c.removeBlanks = c'.removeBlanks) :
    ∀ (n : Node) (parent : Option Name), b64TextDecodes c parent n = b64TextDecodes c' parent n
  | .elt nm attrs kids, parent => by
    rw [b64TextDecodes, b64TextDecodes, b64TextDecodesL_congr c c' hl hi hr kids, hl]
  | .text s, parent => by
    rw [b64TextDecodes, b64TextDecodes, (textSilent_congr c c' hi hr s).1, (textSilent_congr c c' hi hr s).2, hl]
  | .cdata kids, parent => by rw [b64TextDecodes, b64TextDecodes, b64TextDecodesL_congr c c' hl hi hr kids]
  | .tree _ _ _, parent => by rw [b64TextDecodes, b64TextDecodes]
theorem b64TextDecodesL_congr (c c' : WCfg) (hl : c.lang = c'.lang) (hi : c.ignoreEmpty = c'.ignoreEmpty)
    (hr : c.removeBlanks = c'.removeBlanks) :
    ∀ (l : List Node) (parent : Option Name), b64TextDecodesL c parent l = b64TextDecodesL c' parent l
  | [], parent => by rw [b64TextDecodesL, b64TextDecodesL]
  | n :: r, parent => by
    rw [b64TextDecodesL, b64TextDecodesL, b64TextDecodes_congr c c' hl hi hr n, b64TextDecodesL_congr c c' hl hi hr r]
end

mutual
theorem keyValueTextFirst_congr (c c' : WCfg) (hl : c.lang = c'.lang) (hi : c.ignoreEmpty = c'.ignoreEmpty)
    (hr : c.removeBlanks = c'.removeBlanks) :
    ∀ (n : Node) (parent : Option Name) (pre : Bool), keyValueTextFirst c parent pre n = keyValueTextFirst c' parent pre n
  | .elt nm attrs kids, parent, pre => by
    rw [keyValueTextFirst, keyValueTextFirst, keyValueTextFirstL_congr c c' hl hi hr kids]
  | .text s, parent, pre => by
    rw [keyValueTextFirst, keyValueTextFirst, (textSilent_congr c c' hi hr s).1, hl]
  | .cdata kids, parent, pre => by rw [keyValueTextFirst, keyValueTextFirst, keyValueTextFirstL_congr c c' hl hi hr kids]
  | .tree _ _ _, parent, pre => by rw [keyValueTextFirst, keyValueTextFirst]
theorem keyValueTextFirstL_congr (c c' : WCfg) (hl : c.lang = c'.lang) (hi : c.ignoreEmpty = c'.ignoreEmpty)
    (hr : c.removeBlanks = c'.removeBlanks) :
    ∀ (l : List Node) (parent : Option Name) (pre : Bool), keyValueTextFirstL c parent pre l = keyValueTextFirstL c' parent pre l
  | [], parent, pre => by rw [keyValueTextFirstL, keyValueTextFirstL]
  | n :: r, parent, pre => by
    rw [keyValueTextFirstL, keyValueTextFirstL, keyValueTextFirst_congr c c' hl hi hr n,
      keyValueTextFirstL_congr c c' hl hi hr r]
end

mutual
theorem noNested_of_plain : ∀ (n : Node), plainNode n = true → noNested n = true
  | .elt _ _ kids, h => by rw [plainNode] at h; rw [noNested]; exact noNestedL_of_plain kids h
  | .text _, _ => by rw [noNested]
  | .cdata _, h => by rw [plainNode] at h; cases h
  | .tree _ _ _, h => by rw [plainNode] at h; cases h
theorem noNestedL_of_plain : ∀ (l : List Node), plainNodes l = true → noNestedL l = true
  | [], _ => by rw [noNestedL]
  | n :: r, h => by
    rw [plainNodes, Bool.and_eq_true] at h
    rw [noNestedL, noNested_of_plain n h.1, noNestedL_of_plain r h.2]; rfl
end

/-- The source view depends on the options only through the language and the white-space policy. -/
theorem srcToks_congr (c c' : WCfg) (hl : c.lang = c'.lang) (hi : c.ignoreEmpty = c'.ignoreEmpty)
    (hr : c.removeBlanks = c'.removeBlanks) :
    (∀ n, srcToks c n = srcToks c' n) ∧ (∀ l, srcToksL c l = srcToksL c' l) := by
  apply srcToks.mutual_induct (motive_1 := fun n => srcToks c n = srcToks c' n)
    (motive_2 := fun l => srcToksL c l = srcToksL c' l)
  · intro name attrs kids ih
    rw [srcToks, srcToks, ih]
    simp only [srcAttrsView, hl]
  · intro s
    rw [srcToks, srcToks]
    simp only [normText, hl, hi, hr]
  · intro kids; rw [srcToks, srcToks]
  · intro l cs r; rw [srcToks, srcToks]
  · rw [srcToksL, srcToksL]
  · intro n r h1 h2; rw [srcToksL, srcToksL, h1, h2]

theorem dcfgOf_view_fields (cfg : X2WCfg) (lang : Lang) :
    (dcfgOf cfg lang).ignoreEmpty = !cfg.keepWs ∧ (dcfgOf cfg lang).removeBlanks = !cfg.keepWs := by
  unfold dcfgOf
  rw [deriveCfg_ignoreEmpty, deriveCfg_removeBlanks]
  exact ⟨rfl, rfl⟩

end Wbxml.Lemmas.EncW
