/-
  C16 — tree building on the ledger, part D: the call-backs `wbxml_tree_clb_wbxml_start_element`,
  `_end_element`, `_characters`, one event, a list of events, and the tree side of
  `wbxml_tree_from_wbxml` (`treeFromEvents`).
-/
import Wbxml.Lemmas.AllocTreeC
namespace Wbxml.Model.Alloc
open Wbxml
set_option linter.unusedSimpArgs false
set_option linter.unusedVariables false
set_option linter.unnecessarySimpa false

/-- What a call-back guarantees: the context keeps owning exactly its blocks (old ones or new ones),
    stays consistent, and every failed request leaves an error code in the context; an error code
    is never cleared. -/
def CbStep (c : TCtx) (s : Ledger) (c' : TCtx) (s' : Ledger) : Prop :=
  c'.tree = c.tree ∧ c'.ok ∧ Clean s s' c.owned c'.owned ∧ (s.hits < s'.hits → c'.error ≠ OK) ∧
  (c.error ≠ OK → c'.error ≠ OK)

theorem CbStep.refl {c : TCtx} {s : Ledger} (wf : s.WF) (hok : c.ok) (own : Owns s c.owned) : CbStep c s c s :=
  ⟨rfl, hok, Clean.id wf own, fun h => absurd h (Nat.lt_irrefl _), id⟩

/-- A context that owns the same blocks (up to order) can stand in. -/
theorem CbStep.of_perm {c c' : TCtx} {s : Ledger} (wf : s.WF) (own : Owns s c.owned) (hp : c'.owned.Perm c.owned)
    (ht : c'.tree = c.tree) (hok : c'.ok) (he : c.error ≠ OK → c'.error ≠ OK) : CbStep c s c' s :=
  ⟨ht, hok, (Clean.id wf own).prod_perm hp.symm, fun h => absurd h (Nat.lt_irrefl _), he⟩

theorem bne_ok_true {e : Nat} : (e != OK) = true ↔ e ≠ OK := by simp

/-- The objects an event refers to (they stay the parser's). -/
def evObjs : TEvent → List (List Nat)
  | .start tag attrs => tag.owned :: attrs.map AAttr.owned
  | _ => []

/-- The objects of the event are owned by somebody else: live, and older than `b`. -/
def EvReady (b : Nat) (s : Ledger) (e : TEvent) : Prop := ∀ X ∈ evObjs e, Owns s X ∧ ∀ i ∈ X, i ≤ b

/-- `wbxml_tree_clb_wbxml_start_element`. -/
theorem clbStartElement_spec (c : TCtx) (tag : AName) (attrs : List AAttr) (s : Ledger) (wf : s.WF) (hok : c.ok)
    (own : Owns s c.owned) (otag : Owns s tag.owned)
    (hat : ∀ a ∈ attrs, Owns s a.owned ∧ ∀ i ∈ a.owned, i ∉ c.owned) :
    Good (clbStartElement c tag attrs) s (CbStep c s) := by
  unfold clbStartElement
  by_cases herr : c.error = OK
  · have hb : (c.error != OK) = false := by simp [herr]
    simp only [hb, Bool.false_eq_true, if_false, bind_eq, pure_eq]
    -- leaving a CDATA section
    have hpre : Good (match c.frames with
        | f :: _ => (deref (some f.node.hdr)).bind fun _ => if f.kind = NKind.cdata then Prog.ret (popFrame c) else Prog.ret c
        | [] => Prog.ret c) s (fun c1 s' => s' = s ∧ (c1 = c ∨ c1 = popFrame c)) := by
      rcases hf : c.frames with _ | ⟨f, rest⟩
      · exact good_ret.2 ⟨rfl, Or.inl rfl⟩
      · simp only
        have hfm : f ∈ c.frames := by simp [hf]
        refine Good.bind (deref_spec f.node.hdr s (own.2 _ (frame_mem_owned c hfm (by simp [Frame.owned, hdr_mem_owned])))) ?_
        intro _ s0 e0; subst e0
        split
        · exact good_ret.2 ⟨rfl, Or.inr rfl⟩
        · exact good_ret.2 ⟨rfl, Or.inl rfl⟩
    refine Good.bind hpre ?_
    intro c1 s0 ⟨e0, hc1⟩
    subst e0
    have h1 : c1.owned.Perm c.owned ∧ c1.ok ∧ c1.tree = c.tree ∧ c1.error = c.error := by
      rcases hc1 with rfl | rfl
      · exact ⟨List.Perm.refl _, hok, rfl, rfl⟩
      · exact ⟨popFrame_perm c hok, popFrame_ok c hok, popFrame_tree c, popFrame_error c⟩
    obtain ⟨hp1, hok1, ht1, he1⟩ := h1
    have hat1 : ∀ a ∈ attrs, Owns s0 a.owned ∧ ∀ i ∈ a.owned, i ∉ c1.owned :=
      fun a ha => ⟨(hat a ha).1, fun i hi hm => (hat a ha).2 i hi (hp1.mem_iff.1 hm)⟩
    refine Good.bind (treeAddEltWithAttrs_spec c1 tag attrs s0 wf hok1 (own.perm hp1.symm) otag hat1) ?_
    intro r s1 ⟨et, ee, ok2, c2, h2⟩
    obtain ⟨c2x, ok⟩ := r
    simp only at et ee ok2 c2 h2 ⊢
    have cX : Clean s0 s1 c.owned c2x.owned := c2.cons_congr (fun i => hp1.mem_iff.symm)
    cases ok with
    | false =>
      simp only [Bool.not_false, if_true]
      obtain ⟨dp, dok, dt, de, _⟩ := dropCurrent_spec c2x ok2
      exact good_ret.2 ⟨dt.trans (et.trans ht1), dok, cX.prod_perm dp.symm, fun _ => by simp [ENOMEM, OK], fun _ => by simp [ENOMEM, OK]⟩
    | true =>
      simp only [Bool.not_true, Bool.false_eq_true, if_false]
      refine good_ret.2 ⟨et.trans ht1, ok2, cX, fun hh => ?_, fun h => absurd herr h⟩
      have := h2 hh; simp at this
  · have hb : (c.error != OK) = true := by simp [herr]
    simp only [hb, if_true, pure_eq]
    exact good_ret.2 (CbStep.refl wf hok own)

/-- `wbxml_tree_clb_wbxml_end_element`: `current` moves up; nothing is requested or released. -/
theorem clbEndElement_spec (c : TCtx) (s : Ledger) (wf : s.WF) (hok : c.ok) (own : Owns s c.owned) :
    Good (clbEndElement c) s (CbStep c s) := by
  unfold clbEndElement
  by_cases herr : c.error = OK
  · have hb : (c.error != OK) = false := by simp [herr]
    simp only [hb, Bool.false_eq_true, if_false, bind_eq, pure_eq]
    rcases hf : c.frames with _ | ⟨f, _ | ⟨g, rest⟩⟩
    · simp only
      have hp : ({ tree := c.tree, root := c.root, frames := [], error := EINTERNAL } : TCtx).owned.Perm c.owned := by
        simp [TCtx.owned, hf]
      have hok' : ({ tree := c.tree, root := c.root, frames := [], error := EINTERNAL } : TCtx).ok :=
        ⟨fun h => absurd rfl h, hok.2.1, fun f hf' => by cases hf'⟩
      exact good_ret.2 (CbStep.of_perm wf own hp rfl hok' (fun _ => by simp [EINTERNAL, OK]))
    · simp only
      have hfm : f ∈ c.frames := by simp [hf]
      refine Good.bind (deref_spec f.node.hdr s (own.2 _ (frame_mem_owned c hfm (by simp [Frame.owned, hdr_mem_owned])))) ?_
      intro _ s0 e0; subst e0
      refine Good.bind (deref_spec c.tree s0 (own.2 _ (tree_mem_owned c))) ?_
      intro _ s0' e0'; have e0'' := e0'.symm; subst e0''
      exact good_ret.2 (CbStep.refl wf hok own)
    · simp only
      have hfm : f ∈ c.frames := by simp [hf]
      refine Good.bind (deref_spec f.node.hdr s (own.2 _ (frame_mem_owned c hfm (by simp [Frame.owned, hdr_mem_owned])))) ?_
      intro _ s0 e0; subst e0
      -- the context after the optional step out of the CDATA section
      have hmid : ∀ c1 : TCtx, c1.owned.Perm c.owned → c1.ok → c1.tree = c.tree → c1.error = c.error →
          Good (match c1.frames with
            | [] => Prog.ret c1
            | g :: _ => (deref (some g.node.hdr)).bind fun _ => Prog.ret (popFrame c1)) s0 (CbStep c s0) := by
        intro c1 hp1 hok1 ht1 he1
        rcases hf1 : c1.frames with _ | ⟨g1, rest1⟩
        · exact good_ret.2 (CbStep.of_perm wf own hp1 ht1 hok1 (fun h => by rw [he1]; exact h))
        · simp only
          have hgm : g1 ∈ c1.frames := by simp [hf1]
          have own1 := own.perm hp1.symm
          refine Good.bind (deref_spec g1.node.hdr s0 (own1.2 _ (frame_mem_owned c1 hgm (by simp [Frame.owned, hdr_mem_owned])))) ?_
          intro _ s0' e0'; have e0'' := e0'.symm; subst e0''
          exact good_ret.2 (CbStep.of_perm wf own ((popFrame_perm c1 hok1).trans hp1) ((popFrame_tree c1).trans ht1)
            (popFrame_ok c1 hok1) (fun h => by rw [popFrame_error, he1]; exact h))
      by_cases hk : f.kind = .cdata
      · simp only [hk, if_true]
        exact hmid (popFrame c) (popFrame_perm c hok) (popFrame_ok c hok) (popFrame_tree c) (popFrame_error c)
      · simp only [hk, if_false]
        exact hmid c (List.Perm.refl _) hok rfl rfl
  · have hb : (c.error != OK) = true := by simp [herr]
    simp only [hb, if_true, pure_eq]
    exact good_ret.2 (CbStep.refl wf hok own)

/-- `wbxml_tree_clb_wbxml_characters` (text node, possibly inside a new CDATA section). -/
theorem clbCharacters_spec (c : TCtx) (text : Bytes) (cd : Bool) (s : Ledger) (wf : s.WF) (hok : c.ok)
    (own : Owns s c.owned) :
    Good (clbCharacters c text cd) s (CbStep c s) := by
  unfold clbCharacters
  by_cases herr : c.error = OK
  · have hb : (c.error != OK) = false := by simp [herr]
    simp only [hb, Bool.false_eq_true, if_false, bind_eq, pure_eq]
    have hfirst : Good (if (cd && match c.frames with | f :: _ => f.kind != NKind.cdata | [] => false) = true
        then treeAddCdata c else Prog.ret (c, true)) s (TreeStep c s) := by
      by_cases hcond : (cd && match c.frames with | f :: _ => f.kind != NKind.cdata | [] => false) = true
      · rw [if_pos hcond]
        exact treeAddCdata_spec c s wf hok own
      · rw [if_neg hcond]
        exact good_ret.2 ⟨rfl, rfl, hok, Clean.id wf own, fun h => absurd h (Nat.lt_irrefl _)⟩
    refine Good.bind hfirst ?_
    intro r s1 ⟨et, ee, ok1, c1, h1⟩
    obtain ⟨c1x, ok⟩ := r
    simp only at et ee ok1 c1 h1 ⊢
    have hh1 := c1.hits
    cases ok with
    | false =>
      simp only [Bool.not_false, if_true]
      obtain ⟨dp, dok, dt, de, _⟩ := dropCurrent_spec c1x ok1
      exact good_ret.2 ⟨dt.trans et, dok, c1.prod_perm dp.symm, fun _ => by simp [ENOMEM, OK], fun _ => by simp [ENOMEM, OK]⟩
    | true =>
      simp only [Bool.not_true, Bool.false_eq_true, if_false]
      have hno1 : ¬ s.hits < s1.hits := by intro hh; have := h1 hh; simp at this
      refine Good.bind (treeAddText_spec c1x text s1 c1.wf ok1 c1.owns) ?_
      intro r2 s2 ⟨et2, ee2, ok2, c2, h2⟩
      obtain ⟨c2x, ok'⟩ := r2
      simp only at et2 ee2 ok2 c2 h2 ⊢
      have cX := Clean.trans_recycle wf c1 c2
      cases ok' with
      | false =>
        simp only [Bool.not_false, if_true]
        exact good_ret.2 ⟨et2.trans et, ok2, cX, fun _ => by simp [ENOMEM, OK], fun _ => by simp [ENOMEM, OK]⟩
      | true =>
        simp only [Bool.not_true, Bool.false_eq_true, if_false]
        refine good_ret.2 ⟨et2.trans et, ok2, cX, fun hh => ?_, fun h => absurd herr h⟩
        exfalso
        by_cases hA : s1.hits < s2.hits
        · have := h2 hA; simp at this
        · omega
  · have hb : (c.error != OK) = true := by simp [herr]
    simp only [hb, if_true, pure_eq]
    exact good_ret.2 (CbStep.refl wf hok own)

/-- One event. -/
theorem clbEvent_spec (c : TCtx) (e : TEvent) (s : Ledger) (wf : s.WF) (hok : c.ok) (own : Owns s c.owned)
    (b : Nat) (hb : ∀ i ∈ c.owned, b < i) (hr : EvReady b s e) :
    Good (clbEvent c e) s (CbStep c s) := by
  cases e with
  | start tag attrs =>
    simp only [clbEvent]
    refine clbStartElement_spec c tag attrs s wf hok own (hr _ (by simp [evObjs])).1 ?_
    intro a ha
    obtain ⟨oa, ba⟩ := hr a.owned (by simp only [evObjs, List.mem_cons, List.mem_map]; exact Or.inr ⟨a, ha, rfl⟩)
    exact ⟨oa, fun i hi hm => by have := ba i hi; have := hb i hm; omega⟩
  | stop => simp only [clbEvent]; exact clbEndElement_spec c s wf hok own
  | chars text cd => simp only [clbEvent]; exact clbCharacters_spec c text cd s wf hok own

theorem CbStep.trans {c c1 c2 : TCtx} {s s1 s2 : Ledger} (wf : s.WF) (h1 : CbStep c s c1 s1) (h2 : CbStep c1 s1 c2 s2) :
    CbStep c s c2 s2 := by
  obtain ⟨t1, ok1, cl1, e1, p1⟩ := h1
  obtain ⟨t2, ok2, cl2, e2, p2⟩ := h2
  have := cl1.hits; have := cl2.hits
  refine ⟨t2.trans t1, ok2, Clean.trans_recycle wf cl1 cl2, fun hh => ?_, fun h => p2 (p1 h)⟩
  by_cases hA : s.hits < s1.hits
  · exact p2 (e1 hA)
  · exact e2 (by omega)

/-- A list of events, by induction: whatever fails, the context keeps owning exactly its blocks, and
    a failed request leaves an error code. -/
theorem clbEvents_spec (events : List TEvent) (c : TCtx) (s : Ledger) (wf : s.WF) (hok : c.ok) (own : Owns s c.owned)
    (b : Nat) (hbs : b ≤ s.next) (hb : ∀ i ∈ c.owned, b < i) (hr : ∀ e ∈ events, EvReady b s e) :
    Good (clbEvents c events) s (CbStep c s) := by
  induction events generalizing c s with
  | nil => simp only [clbEvents, pure_eq]; exact good_ret.2 (CbStep.refl wf hok own)
  | cons e rest ih =>
    unfold clbEvents
    simp only [bind_eq]
    refine Good.bind (clbEvent_spec c e s wf hok own b hb (hr e (by simp))) ?_
    intro c1 s1 h1
    obtain ⟨t1, ok1, cl1, e1, p1⟩ := h1
    have hb1 : ∀ i ∈ c1.owned, b < i := by
      intro i hi
      rcases cl1.prod_old_or_new hi with h | h
      · exact hb i h
      · omega
    have hr1 : ∀ e' ∈ rest, EvReady b s1 e' := by
      intro e' he' X hX
      obtain ⟨oX, bX⟩ := hr e' (by simp [he']) X hX
      exact ⟨cl1.keeps oX (fun i hi hm => by have := bX i hi; have := hb i hm; omega), bX⟩
    have hn1 := cl1.next
    refine (ih c1 s1 cl1.wf ok1 cl1.owns (by omega) hb1 hr1).mono ?_
    intro c2 s2 h2
    exact CbStep.trans wf ⟨t1, ok1, cl1, e1, p1⟩ h2

def ownedCtxOpt : Option TCtx → List Nat
  | none => []
  | some c => c.owned

theorem treeCreate_spec (s : Ledger) (wf : s.WF) :
    Good treeCreate s (fun r s' => Clean s s' [] (ownedCtxOpt r) ∧ (s.hits < s'.hits → r = none) ∧
      (∀ c, r = some c → ∃ t, c = ⟨t, none, [], OK⟩)) := by
  unfold treeCreate
  simp only [bind_eq, pure_eq]
  refine Good.bind (malloc_spec s wf) ?_
  intro t s1 ⟨c1, h1⟩
  cases t with
  | none => simp only; exact good_ret.2 ⟨by simpa [ownedCtxOpt] using c1, fun _ => rfl, fun c h => by cases h⟩
  | some t =>
    simp only
    exact good_ret.2 ⟨by simpa [ownedCtxOpt, TCtx.owned, ownedKidOpt] using c1, fun hh => by have := h1 hh; simp at this,
      fun c h => by cases h; exact ⟨t, rfl⟩⟩

/-- `tree_from_wbxml_events`: the tree side of `wbxml_tree_from_wbxml` for the events of a parse.
    Whatever fails: no fault; the tree (with everything built so far) is destroyed and an error code
    returned, or the finished tree is returned and owns everything that was allocated; the objects
    the parser passed are untouched. -/
theorem treeFromEvents_spec (events : List TEvent) (s : Ledger) (wf : s.WF)
    (hr : ∀ e ∈ events, ∀ X ∈ evObjs e, Owns s X) :
    Good (treeFromEvents events) s (fun r s' =>
      Clean s s' [] (ownedCtxOpt r.2) ∧ (r.1 ≠ OK → r.2 = none) ∧ (s.hits < s'.hits → r.1 ≠ OK) ∧
      (∀ c, r.2 = some c → c.ok ∧ c.error = OK)) := by
  unfold treeFromEvents
  simp only [bind_eq, pure_eq]
  refine Good.bind (treeCreate_spec s wf) ?_
  intro c0 s1 ⟨c1, h1, hshape⟩
  have hh1 := c1.hits; have hn1 := c1.next
  cases c0 with
  | none =>
    simp only
    exact good_ret.2 ⟨by simpa [ownedCtxOpt] using c1, fun _ => rfl, fun _ => by simp [ENOMEM, OK], fun c h => by cases h⟩
  | some c0 =>
    simp only
    obtain ⟨t, hc0⟩ := hshape c0 rfl
    subst hc0
    have hno1 : ¬ s.hits < s1.hits := by intro hh; have := h1 hh; simp at this
    have hown0 : (⟨t, none, [], OK⟩ : TCtx).owned = [t] := by simp [TCtx.owned, ownedKidOpt]
    have c1' : Clean s s1 [] [t] := by simpa [ownedCtxOpt, hown0] using c1
    have hft : s.next < t := by have := c1'.fresh t (by simp); simp at this; exact this.1
    have hok0 : (⟨t, none, [], OK⟩ : TCtx).ok := by unfold TCtx.ok; simp
    have hr1 : ∀ e ∈ events, EvReady s.next s1 e := by
      intro e he X hX
      have oX := hr e he X hX
      exact ⟨c1'.keeps oX (by simp), fun i hi => wf _ (oX.2 i hi)⟩
    refine Good.bind (clbEvents_spec events ⟨t, none, [], OK⟩ s1 c1.wf hok0 (by rw [hown0]; exact c1'.owns) s.next hn1
      (by rw [hown0]; intro i hi; simp at hi; subst hi; exact hft) hr1) ?_
    intro c2 s2 ⟨t2, ok2, cl2, e2, _⟩
    rw [hown0] at cl2
    have cX := Clean.trans_recycle wf c1' cl2
    have hh2 := cl2.hits
    by_cases herr : c2.error = OK
    · have hb : (c2.error != OK) = false := by simp [herr]
      simp only [hb, Bool.false_eq_true, if_false]
      refine good_ret.2 ⟨cX, fun h => absurd rfl h, fun hh => ?_, fun c h => by cases h; exact ⟨ok2, herr⟩⟩
      exfalso
      exact e2 (by omega) herr
    · have hb : (c2.error != OK) = true := by simp [herr]
      simp only [hb, if_true]
      refine Good.bind (treeDestroy_spec c2 s2 cl2.wf cX.owns) ?_
      intro _ s3 ⟨d3, hd3, _⟩
      exact good_ret.2 ⟨by simpa [ownedCtxOpt] using Clean.trans_recycle wf cX d3, fun _ => rfl, fun _ => herr, fun c h => by cases h⟩

end Wbxml.Model.Alloc
