/-
  C18 lemmas, part 12: what `wbxml_tree_add_node` does to the ABSTRACT children list of the parent —
  it is `Model.addKid` (append, or merge into a trailing text node), for every state satisfying the
  invariant.
-/
import Wbxml.Lemmas.TreeHeapAbs
set_option linter.unusedSimpArgs false
set_option linter.unusedVariables false
namespace Wbxml.Model.TreeHeap
open Wbxml Wbxml.Model

theorem absBT_ne_nil (v : View) (i : Nat) (c m : BT) : absBT v (.node i c m) ≠ [] := by
  simp [absBT]

theorem absBT_replLast {v v' : View} (n : Nat) : ∀ (K : BT) (l : Nat), K.ids.Nodup → K.lastId = some l →
    (∀ j, j ∈ K.ids → j ≠ l → payOf v' j = payOf v j) →
    absBT v' (BT.replLast n K) = (absBT v K).dropLast ++ [mkNode (payOf v' n) []]
  | .nil, l, _, h, _ => by simp [BT.lastId] at h
  | .node i ch .nil, l, _, h, _ => by
    simp [BT.replLast, absBT]
  | .node i ch (.node a c m), l, hnd, h, hf => by
    obtain ⟨hi1, hi2, hcn, hnn, hd⟩ := BT.nodup_node.mp hnd
    have hl : (BT.node a c m).lastId = some l := by simpa [BT.lastId] using h
    have hlm : l ∈ (BT.node a c m).ids := BT.tops_sub _ _ (BT.lastId_mem _ _ hl)
    have hil : i ≠ l := fun e => hi2 (e ▸ hlm)
    have e : BT.replLast n (.node i ch (.node a c m)) = .node i ch (BT.replLast n (.node a c m)) := rfl
    have ih := absBT_replLast (v := v) (v' := v') n (.node a c m) l hnn hl
      (fun j hj hjl => hf j (BT.mem_node.mpr (Or.inr (Or.inr hj))) hjl)
    have hch : absBT v' ch = absBT v ch := absBT_frame ch (fun j hj =>
      hf j (BT.mem_node.mpr (Or.inr (Or.inl hj))) (fun e => hd j hj (e ▸ hlm)))
    have e1 : absBT v (.node i ch (.node a c m)) = mkNode (payOf v i) (absBT v ch) :: absBT v (.node a c m) := rfl
    rw [e, e1, List.dropLast_cons_of_ne_nil (absBT_ne_nil v a c m)]
    simp only [absBT, List.cons_append] at ih ⊢
    rw [hf i (BT.mem_node.mpr (Or.inl rfl)) hil, hch]
    congr 1

/-- No merge: one of the two nodes is not text. -/
theorem addKid_append (ks : List Node) (pl pn : Pay) (x y : List Node)
    (hlast : ks.getLast? = some (mkNode pl x)) (h : (pn.isText && pl.isText) = false) :
    addKid ks (mkNode pn y) = ks ++ [mkNode pn y] := by
  unfold addKid
  rw [hlast]
  cases pn <;> cases pl <;> simp_all [mkNode, Pay.isText]

theorem addKid_empty (n : Node) : addKid [] n = [n] := by
  unfold addKid
  cases n <;> simp

/-- Merge: both are text. -/
theorem addKid_merge (ks : List Node) (pl pn : Pay) (x y : List Node)
    (hlast : ks.getLast? = some (mkNode pl x)) (h1 : pn.isText = true) (h2 : pl.isText = true) :
    addKid ks (mkNode pn y) = ks.dropLast ++ [.text (pl.textOf ++ pn.textOf)] := by
  unfold addKid
  rw [hlast]
  cases pn <;> cases pl <;> simp_all [mkNode, Pay.isText, Pay.textOf]

/-- The children of a node of the forest, as the abstraction walk sees them. -/
theorem kidsAbs_spec {s : St} {G : BT} (hF : Forest s G) {P : Nat} (hP : P ∈ G.ids) :
    kidsAbs s P = .ok (absBT s.cellAt (BT.kidsOf P G)) := by
  obtain ⟨c, hc, hf, _, hm⟩ := hF.cell_kids hP
  simp only [kidsAbs, deref_of_cellAt hc, hf]
  apply absList_spec _ _ _ _ hm
  have h1 := BT.sub_length_le P G hF.nodup
  have h2 := hF.size_le
  have h3 := BT.ids_length (BT.kidsOf P G)
  unfold St.fuel
  omega

/-- `wbxml_tree_add_node(tree, P, n)` acts on the abstract children list of `P` as `Model.addKid`:
    append — or, when the last child and `n` are both text, one text node with the joined content. -/
theorem add_node_abs {s : St} {G : BT} {P n : Nat} {cP cn : Cell} (c : AddCtx s G P n cP cn) :
    ∃ s' ks sub, addNode s (some P) n = .ok (true, s') ∧ kidsAbs s P = .ok ks ∧ absNode s s.fuel n = .ok sub ∧
      kidsAbs s' P = .ok (addKid ks sub) := by
  obtain ⟨k1, k2, k3, k4, k5, k6, k7⟩ := c.kids_facts
  obtain ⟨hp0, hv0, hn0, hf0, hb0, hm0⟩ := c.cn_facts
  have hks := kidsAbs_spec c.hF c.hP
  obtain ⟨cn', hcn', hsub⟩ := absNode_top c.hF c.hn
  rw [c.hcn] at hcn'; injection hcn' with hcn'; subst hcn'
  have hG1 : (BT.chainRemove n G).ids.Nodup := BT.nodup_chainRemove n G c.hF.nodup
  have hP1 : P ∈ (BT.chainRemove n G).ids := (BT.mem_chainRemove n G P c.hF.nodup c.hn).mpr ⟨c.hP, c.hPn, c.hPk⟩
  have hnk := BT.chainKids_nodup n G c.hF.nodup c.hn
  -- the children of P after the call, whatever the new chain k is
  have after : ∀ (s' : St) (k : BT), Forest s' (BT.setKids P k (BT.chainRemove n G)) →
      kidsAbs s' P = .ok (absBT s'.cellAt k) := by
    intro s' k hF'
    have hP' : P ∈ (BT.setKids P k (BT.chainRemove n G)).ids := by
      rw [BT.mem_setKids P k _ P hG1]
      left
      have hK : BT.kidsOf P (BT.chainRemove n G) = BT.kidsOf P G := BT.kidsOf_chainRemove P n G c.hPn c.hPk
      exact ⟨hP1, by rw [hK]; exact k4⟩
    have := kidsAbs_spec hF' hP'
    rw [BT.kidsOf_setKids P k _ hP1 hG1] at this
    exact this
  cases hf : cP.first with
  | none =>
    have hK : BT.kidsOf P G = .nil := BT.rid_none (by rw [← k1]; exact hf)
    obtain ⟨s', h1, h2, h3, h4, pf, _⟩ := addNode_first c hf
    refine ⟨s', _, _, h1, hks, hsub, ?_⟩
    rw [after s' _ h3, hK]
    have e2 : absBT s'.cellAt (BT.chainKids n G) = absBT s.cellAt (BT.chainKids n G) :=
      absBT_frame _ (fun j hj => pf.other j (fun e => hnk.2 (e ▸ hj)) (by simp))
    simp only [absBT]
    rw [addKid_empty, pf.self, e2]
  | some fc =>
    have hKne : BT.kidsOf P G ≠ .nil := by
      intro h; rw [h] at k1; rw [hf] at k1; cases k1
    obtain ⟨l, hl⟩ := BT.lastId_some _ hKne
    have hlK : l ∈ (BT.kidsOf P G).ids := BT.tops_sub _ _ (BT.lastId_mem _ _ hl)
    obtain ⟨cl, hcl⟩ := Match.live _ _ _ k2 l hlK
    have hlast := absBT_getLast s.cellAt _ l k3 hl
    have hpl : payOf s.cellAt l = cl.pay := by simp [payOf, hcl]
    rw [hpl] at hlast
    by_cases hm : (cn.pay.isText && cl.pay.isText) = true
    · obtain ⟨s', h1, h2, h3, h4, l', cl', hl', hcl', pf, _⟩ := addNode_merge c hf (by
        intro l' cl' hl' hcl'
        rw [hl] at hl'; injection hl' with hl'; subst hl'
        rw [hcl] at hcl'; injection hcl' with hcl'; subst hcl'; exact hm)
      rw [hl] at hl'; injection hl' with hl'; subst hl'
      rw [hcl] at hcl'; injection hcl' with hcl'; subst hcl'
      refine ⟨s', _, _, h1, hks, hsub, ?_⟩
      rw [after s' _ h3]
      have htn : cn.pay.isText = true := by simp only [Bool.and_eq_true] at hm; exact hm.1
      have htl : cl.pay.isText = true := by simp only [Bool.and_eq_true] at hm; exact hm.2
      rw [absBT_replLast (v := s.cellAt) n _ l k3 hl (fun j hj hjl =>
            pf.other j (fun e => k5 (e ▸ hj)) (fun e => hjl (Option.some.inj e))),
          addKid_merge _ cl.pay cn.pay _ _ hlast htn htl, pf.self]
      rfl
    · have hm' : (cn.pay.isText && cl.pay.isText) = false := by
        cases h : (cn.pay.isText && cl.pay.isText) <;> simp_all
      obtain ⟨s', h1, h2, h3, h4, pf, _⟩ := addNode_append c hf (by
        intro l' cl' hl' hcl'
        rw [hl] at hl'; injection hl' with hl'; subst hl'
        rw [hcl] at hcl'; injection hcl' with hcl'; subst hcl'; exact hm')
      refine ⟨s', _, _, h1, hks, hsub, ?_⟩
      rw [after s' _ h3, absBT_snoc, addKid_append _ cl.pay cn.pay _ _ hlast hm']
      have e1 : absBT s'.cellAt (BT.kidsOf P G) = absBT s.cellAt (BT.kidsOf P G) :=
        absBT_frame _ (fun j hj => pf.other j (fun e => k5 (e ▸ hj)) (by simp))
      have e2 : absBT s'.cellAt (BT.chainKids n G) = absBT s.cellAt (BT.chainKids n G) :=
        absBT_frame _ (fun j hj => pf.other j (fun e => hnk.2 (e ▸ hj)) (by simp))
      simp only [absBT, e1, e2, pf.self]

end Wbxml.Model.TreeHeap
