/- Lemmas about the base64 model (`Model/Codec/Base64.lean`) and its RFC 4648 specification. -/
import Wbxml.Model.Codec.Base64
import Wbxml.Spec.Rfc4648
import Wbxml.Lemmas.CodecBits
namespace Wbxml.Lemmas.Codec
open Wbxml Wbxml.Model.Codec

/-- Alphabet character of a 6-bit value (any default outside the table: never used). -/
def sym (i : Nat) : UInt8 := (basis64[i]?).getD 61

theorem basis64_length : basis64.length = 64 := by decide

theorem b64Char_of_lt (i : Nat) (h : i < 64) : b64Char i = .ok (sym i) := by
  have h' : i < basis64.length := by rw [basis64_length]; exact h
  simp [b64Char, sym, List.getElem?_eq_getElem h']

/-- The encoder as a plain function (arithmetic form, `|` resolved to `+`). -/
def enc : Bytes → Bytes
  | a :: b :: c :: rest =>
    sym (a.toNat / 4) :: sym (a.toNat % 4 * 16 + b.toNat / 16) ::
    sym (b.toNat % 16 * 4 + c.toNat / 64) :: sym (c.toNat % 64) :: enc rest
  | [a, b] => [sym (a.toNat / 4), sym (a.toNat % 4 * 16 + b.toNat / 16), sym (b.toNat % 16 * 4), 61]
  | [a] => [sym (a.toNat / 4), sym (a.toNat % 4 * 16), 61, 61]
  | [] => []

theorem or16 (x y : Nat) (h : y < 16) : x * 16 ||| y = x * 16 + y := or_mul_pow x y 4 h
theorem or4 (x y : Nat) (h : y < 4) : x * 4 ||| y = x * 4 + y := or_mul_pow x y 2 h
theorem or64 (x y : Nat) (h : y < 64) : x * 64 ||| y = x * 64 + y := or_mul_pow x y 6 h

/-- The table index is in range at every look-up: the encoder never reads outside `basis_64`. -/
theorem b64EncodeE_ok (bs : Bytes) : b64EncodeE bs = .ok (enc bs) := by
  fun_induction enc bs with
  | case1 a b c rest ih =>
    have ha := a.toNat_lt; have hb := b.toNat_lt; have hc := c.toNat_lt
    rw [b64EncodeE, or16 _ _ (by omega), or4 _ _ (by omega), ih,
      b64Char_of_lt _ (by omega), b64Char_of_lt _ (by omega), b64Char_of_lt _ (by omega), b64Char_of_lt _ (by omega)]
    have : a.toNat / 4 % 64 = a.toNat / 4 := by omega
    rw [this]; rfl
  | case2 a b =>
    have ha := a.toNat_lt; have hb := b.toNat_lt
    rw [b64EncodeE, or16 _ _ (by omega),
      b64Char_of_lt _ (by omega), b64Char_of_lt _ (by omega), b64Char_of_lt _ (by omega)]
    have : a.toNat / 4 % 64 = a.toNat / 4 := by omega
    rw [this]; rfl
  | case3 a =>
    have ha := a.toNat_lt
    rw [b64EncodeE, b64Char_of_lt _ (by omega), b64Char_of_lt _ (by omega)]
    have : a.toNat / 4 % 64 = a.toNat / 4 := by omega
    rw [this]; rfl
  | case4 => rfl

theorem b64Encode_eq_enc (bs : Bytes) : b64Encode bs = enc bs := by
  simp [b64Encode, b64EncodeE_ok]

open Wbxml.Spec

/-! ### The model encoder equals the RFC 4648 bit-stream definition -/

theorem alphabet_eq : Rfc4648.alphabet = basis64 := rfl

theorem charOf_eq (g : List Bool) : Rfc4648.charOf g = sym (Rfc4648.value g) := rfl

theorem value6 (x5 x4 x3 x2 x1 x0 : Bool) : Rfc4648.value [x5, x4, x3, x2, x1, x0] =
    32 * x5.toNat + 16 * x4.toNat + 8 * x3.toNat + 4 * x2.toNat + 2 * x1.toNat + x0.toNat := by
  simp only [Rfc4648.value, List.foldl]; omega

theorem spec_cons3 (a b c : UInt8) (rest : Bytes) :
    Rfc4648.encode (a :: b :: c :: rest) =
      sym (a.toNat / 4) :: sym (a.toNat % 4 * 16 + b.toNat / 16) ::
      sym (b.toNat % 16 * 4 + c.toNat / 64) :: sym (c.toNat % 64) :: Rfc4648.encode rest := by
  have ha := a.toNat_lt; have hb := b.toNat_lt; have hc := c.toNat_lt
  have hp : Rfc4648.padding (rest.length + 1 + 1 + 1) = Rfc4648.padding rest.length := by
    simp only [Rfc4648.padding]
    have : (rest.length + 1 + 1 + 1) % 3 = rest.length % 3 := by omega
    rw [this]
  simp only [Rfc4648.encode, Rfc4648.bitStream, List.flatMap_cons, Rfc4648.octetBits, List.cons_append,
    List.nil_append, Rfc4648.groups6, List.map_cons, List.length_cons, hp]
  simp only [charOf_eq, value6, Nat.toNat_testBit, Nat.reducePow, Nat.div_one]
  have e0 : 32 * (a.toNat / 128 % 2) + 16 * (a.toNat / 64 % 2) + 8 * (a.toNat / 32 % 2) + 4 * (a.toNat / 16 % 2) +
      2 * (a.toNat / 8 % 2) + a.toNat / 4 % 2 = a.toNat / 4 := by omega
  have e1 : 32 * (a.toNat / 2 % 2) + 16 * (a.toNat % 2) + 8 * (b.toNat / 128 % 2) + 4 * (b.toNat / 64 % 2) +
      2 * (b.toNat / 32 % 2) + b.toNat / 16 % 2 = a.toNat % 4 * 16 + b.toNat / 16 := by omega
  have e2 : 32 * (b.toNat / 8 % 2) + 16 * (b.toNat / 4 % 2) + 8 * (b.toNat / 2 % 2) + 4 * (b.toNat % 2) +
      2 * (c.toNat / 128 % 2) + c.toNat / 64 % 2 = b.toNat % 16 * 4 + c.toNat / 64 := by omega
  have e3 : 32 * (c.toNat / 32 % 2) + 16 * (c.toNat / 16 % 2) + 8 * (c.toNat / 8 % 2) + 4 * (c.toNat / 4 % 2) +
      2 * (c.toNat / 2 % 2) + c.toNat % 2 = c.toNat % 64 := by omega
  rw [e0, e1, e2, e3]

theorem spec_two (a b : UInt8) : Rfc4648.encode [a, b] =
    [sym (a.toNat / 4), sym (a.toNat % 4 * 16 + b.toNat / 16), sym (b.toNat % 16 * 4), 61] := by
  have ha := a.toNat_lt; have hb := b.toNat_lt
  simp only [Rfc4648.encode, Rfc4648.bitStream, List.flatMap_cons, List.flatMap_nil, Rfc4648.octetBits, List.cons_append,
    List.nil_append, List.append_nil, Rfc4648.groups6, List.map_cons, List.map_nil, List.length_cons, List.length_nil,
    Rfc4648.padding, List.take, Rfc4648.pad]
  simp only [charOf_eq, value6, Nat.toNat_testBit, Nat.reducePow, Nat.div_one, Bool.toNat_false]
  have e0 : 32 * (a.toNat / 128 % 2) + 16 * (a.toNat / 64 % 2) + 8 * (a.toNat / 32 % 2) + 4 * (a.toNat / 16 % 2) +
      2 * (a.toNat / 8 % 2) + a.toNat / 4 % 2 = a.toNat / 4 := by omega
  have e1 : 32 * (a.toNat / 2 % 2) + 16 * (a.toNat % 2) + 8 * (b.toNat / 128 % 2) + 4 * (b.toNat / 64 % 2) +
      2 * (b.toNat / 32 % 2) + b.toNat / 16 % 2 = a.toNat % 4 * 16 + b.toNat / 16 := by omega
  have e2 : 32 * (b.toNat / 8 % 2) + 16 * (b.toNat / 4 % 2) + 8 * (b.toNat / 2 % 2) + 4 * (b.toNat % 2) +
      2 * 0 + 0 = b.toNat % 16 * 4 := by omega
  rw [e0, e1, e2]

theorem spec_one (a : UInt8) : Rfc4648.encode [a] = [sym (a.toNat / 4), sym (a.toNat % 4 * 16), 61, 61] := by
  have ha := a.toNat_lt
  simp only [Rfc4648.encode, Rfc4648.bitStream, List.flatMap_cons, List.flatMap_nil, Rfc4648.octetBits, List.cons_append,
    List.nil_append, List.append_nil, Rfc4648.groups6, List.map_cons, List.map_nil, List.length_cons, List.length_nil,
    Rfc4648.padding, List.take, Rfc4648.pad]
  simp only [charOf_eq, value6, Nat.toNat_testBit, Nat.reducePow, Nat.div_one, Bool.toNat_false]
  have e0 : 32 * (a.toNat / 128 % 2) + 16 * (a.toNat / 64 % 2) + 8 * (a.toNat / 32 % 2) + 4 * (a.toNat / 16 % 2) +
      2 * (a.toNat / 8 % 2) + a.toNat / 4 % 2 = a.toNat / 4 := by omega
  have e1 : 32 * (a.toNat / 2 % 2) + 16 * (a.toNat % 2) + 8 * 0 + 4 * 0 + 2 * 0 + 0 = a.toNat % 4 * 16 := by omega
  rw [e0, e1]

theorem spec_nil : Rfc4648.encode [] = [] := by rfl

theorem enc_eq_spec (bs : Bytes) : enc bs = Rfc4648.encode bs := by
  fun_induction enc bs with
  | case1 a b c rest ih => rw [spec_cons3, ih]
  | case2 a b => rw [spec_two]
  | case3 a => rw [spec_one]
  | case4 => rfl

/-! ### Decoding inverts encoding -/

/-- `pr2six` inverts `basis_64` on all 64 alphabet positions (kernel evaluation of the two tables). -/
theorem pr2six_sym_fin : ∀ i : Fin 64, pr2six (sym i.val) = i.val := by decide

theorem pr2six_sym (i : Nat) (h : i < 64) : pr2six (sym i) = i := pr2six_sym_fin ⟨i, h⟩

theorem pr2six_pad : pr2six 61 = 64 := by decide

/-- The encoder's output without the `=` padding. -/
def encV : Bytes → Bytes
  | a :: b :: c :: rest =>
    sym (a.toNat / 4) :: sym (a.toNat % 4 * 16 + b.toNat / 16) ::
    sym (b.toNat % 16 * 4 + c.toNat / 64) :: sym (c.toNat % 64) :: encV rest
  | [a, b] => [sym (a.toNat / 4), sym (a.toNat % 4 * 16 + b.toNat / 16), sym (b.toNat % 16 * 4)]
  | [a] => [sym (a.toNat / 4), sym (a.toNat % 4 * 16)]
  | [] => []

theorem scan_cons_sym (i : Nat) (h : i < 64) (t : Bytes) : b64Scan (sym i :: t) = sym i :: b64Scan t := by
  have : pr2six (sym i) ≤ 63 := by rw [pr2six_sym i h]; omega
  simp [b64Scan, this]

theorem scan_pad (t : Bytes) : b64Scan (61 :: t) = [] := by
  simp [b64Scan, pr2six_pad]

theorem scan_nil : b64Scan [] = [] := rfl

/-- The decoder's scan of an encoder output stops exactly at the padding. -/
theorem scan_enc (bs : Bytes) : b64Scan (enc bs) = encV bs := by
  fun_induction enc bs with
  | case1 a b c rest ih =>
    have ha := a.toNat_lt; have hb := b.toNat_lt; have hc := c.toNat_lt
    rw [scan_cons_sym _ (by omega), scan_cons_sym _ (by omega), scan_cons_sym _ (by omega),
      scan_cons_sym _ (by omega), ih, encV]
  | case2 a b =>
    have ha := a.toNat_lt; have hb := b.toNat_lt
    rw [scan_cons_sym _ (by omega), scan_cons_sym _ (by omega), scan_cons_sym _ (by omega), scan_pad, encV]
  | case3 a =>
    have ha := a.toNat_lt
    rw [scan_cons_sym _ (by omega), scan_cons_sym _ (by omega), scan_pad, encV]
  | case4 => rfl

theorem ofNat_add_mul256 (k : Nat) (b : UInt8) : UInt8.ofNat (k * 256 + b.toNat) = b := by
  apply UInt8.toNat_inj.mp
  rw [UInt8.toNat_ofNat']
  have := b.toNat_lt
  omega

/-- first output octet of a quantum -/
theorem dec_o0 (a b : UInt8) :
    UInt8.ofNat (pr2six (sym (a.toNat / 4)) * 4 ||| pr2six (sym (a.toNat % 4 * 16 + b.toNat / 16)) / 16) = a := by
  have ha := a.toNat_lt; have hb := b.toNat_lt
  rw [pr2six_sym _ (by omega), pr2six_sym _ (by omega), or4 _ _ (by omega)]
  have : a.toNat / 4 * 4 + (a.toNat % 4 * 16 + b.toNat / 16) / 16 = 0 * 256 + a.toNat := by omega
  rw [this, ofNat_add_mul256]

theorem dec_o0' (a : UInt8) :
    UInt8.ofNat (pr2six (sym (a.toNat / 4)) * 4 ||| pr2six (sym (a.toNat % 4 * 16)) / 16) = a := by
  have := dec_o0 a 0
  simpa using this

theorem dec_o1 (a b c : UInt8) :
    UInt8.ofNat (pr2six (sym (a.toNat % 4 * 16 + b.toNat / 16)) * 16 |||
      pr2six (sym (b.toNat % 16 * 4 + c.toNat / 64)) / 4) = b := by
  have ha := a.toNat_lt; have hb := b.toNat_lt; have hc := c.toNat_lt
  rw [pr2six_sym _ (by omega), pr2six_sym _ (by omega), or16 _ _ (by omega)]
  have : (a.toNat % 4 * 16 + b.toNat / 16) * 16 + (b.toNat % 16 * 4 + c.toNat / 64) / 4
      = (a.toNat % 4) * 256 + b.toNat := by omega
  rw [this, ofNat_add_mul256]

theorem dec_o1' (a b : UInt8) :
    UInt8.ofNat (pr2six (sym (a.toNat % 4 * 16 + b.toNat / 16)) * 16 |||
      pr2six (sym (b.toNat % 16 * 4)) / 4) = b := by
  have := dec_o1 a b 0
  simpa using this

theorem dec_o2 (b c : UInt8) :
    UInt8.ofNat (pr2six (sym (b.toNat % 16 * 4 + c.toNat / 64)) * 64 ||| pr2six (sym (c.toNat % 64))) = c := by
  have hb := b.toNat_lt; have hc := c.toNat_lt
  rw [pr2six_sym _ (by omega), pr2six_sym _ (by omega), or64 _ _ (by omega)]
  have : (b.toNat % 16 * 4 + c.toNat / 64) * 64 + c.toNat % 64 = (b.toNat % 16) * 256 + c.toNat := by omega
  rw [this, ofNat_add_mul256]

theorem encV_ne_nil (bs : Bytes) (h : bs ≠ []) : ∃ e more, encV bs = e :: more := by
  match bs, h with
  | [a], _ => exact ⟨_, _, rfl⟩
  | [a, b], _ => exact ⟨_, _, rfl⟩
  | a :: b :: c :: rest, _ => exact ⟨_, _, rfl⟩

/-- Decoding the unpadded encoder output gives the input back. -/
theorem decLoop_encV (bs : Bytes) : b64DecodeLoop (encV bs) = bs := by
  fun_induction encV bs with
  | case1 a b c rest ih =>
    by_cases hr : rest = []
    · subst hr
      simp only [encV, b64DecodeLoop, dec_o0, dec_o1, dec_o2]
    · obtain ⟨e, more, hm⟩ := encV_ne_nil rest hr
      rw [hm] at ih ⊢
      simp only [b64DecodeLoop, dec_o0, dec_o1, dec_o2, ih]
  | case2 a b => simp only [b64DecodeLoop, dec_o0, dec_o1']
  | case3 a => simp only [b64DecodeLoop, dec_o0']
  | case4 => rfl

/-- The return value equals the number of octets written, for *every* input: no byte of the result
    block is reported without having been stored. -/
theorem b64DecodeCount_eq (p : Bytes) : b64DecodeCount p.length = (b64DecodeLoop p).length := by
  fun_induction b64DecodeLoop p with
  | case1 a b c d e rest ih =>
    simp only [List.length_cons] at ih ⊢
    rw [← ih]
    simp only [b64DecodeCount]
    split <;> split <;> omega
  | case2 => simp [b64DecodeCount]
  | case3 => simp [b64DecodeCount]
  | case4 => simp [b64DecodeCount]
  | case5 => simp [b64DecodeCount]
  | case6 => simp [b64DecodeCount]

theorem b64DecodeE_eq (s : Bytes) : b64DecodeE s = .ok (b64DecodeLoop (b64Scan s)) := by
  simp [b64DecodeE, b64DecodeCount_eq]

end Wbxml.Lemmas.Codec
