/-
  WBXML encoder proofs: the string-table invariant is kept by the node walk on EVERY tree (no
  hypothesis on the language tables or on the names in the tree): the table only grows at its end,
  offsets stay the running sums of `length + 1`, the declared length stays exact, and nothing is
  added when the string table is disabled.
-/
import Wbxml.Lemmas.EncWText
namespace Wbxml.Lemmas.EncW
open Wbxml Wbxml.Model Wbxml.Spec Wbxml.Lemmas.ParseSer
open Wbxml.Model.Codec (mbEncode)

theorem tagLiteralW_tbl (c : WCfg) (name : Bytes) (mask : Nat) (st st' : WSt) (h : tagLiteralW c name mask st = .ok st') :
    TblExt c st st' := by
  rw [tagLiteralW_eq] at h
  split at h
  · rename_i hu
    injection h with h; subst h
    exact (TblExt.add c hu st name).trans (TblExt.of_eq (emit_strtbl _ _) (emit_strtblLen _ _))
  · cases h

theorem attrLiteralW_tbl (c : WCfg) (name : Bytes) (st st' : WSt) (h : attrLiteralW c name st = .ok st') :
    TblExt c st st' := by
  rw [attrLiteralW_eq] at h
  split at h
  · rename_i hu
    injection h with h; subst h
    exact (TblExt.add c hu st name).trans (TblExt.of_eq (emit_strtbl _ _) (emit_strtblLen _ _))
  · cases h

/-- `wbxml_encode_tag` after the row has been chosen. -/
def encTagCore (c : WCfg) (cname : Bytes) (t p : Nat) (hc ha : Bool) (st1 : WSt) : Except Err WSt :=
  let token := t ||| (if hc then 0x40 else 0) ||| (if ha then 0x80 else 0)
  if token &&& 0x3F == 0 then tagLiteralW c cname token st1
  else pure (tagTokenW token p st1)

theorem encTagW_eq (c : WCfg) (name : Name) (hc ha : Bool) (st : WSt) :
    encTagW c name hc ha st =
      encTagCore c name.cName (match foundOf c name st with | some r => r.token % 256 | none => 0)
        (match foundOf c name st with | some r => r.page % 256 | none => 0) hc ha
        { st with curTag := foundOf c name st } := by
  cases name with
  | token r => rfl
  | literal s => rfl

theorem encTagCore_tbl (c : WCfg) (cname : Bytes) (t p : Nat) (hc ha : Bool) (st1 st' : WSt)
    (h : encTagCore c cname t p hc ha st1 = .ok st') : TblExt c st1 st' := by
  unfold encTagCore at h
  simp only at h
  generalize (t ||| (if hc = true then 64 else 0) ||| if ha = true then 128 else 0) = token at h
  split at h
  · exact tagLiteralW_tbl c _ _ _ st' h
  · have : tagTokenW token p st1 = st' := by injection h
    subst this
    have ho := tagTokenW_out token p st1
    exact TblExt.of_eq ho.2.2.2.1 ho.2.2.2.2

theorem encTagW_tbl (c : WCfg) (name : Name) (hc ha : Bool) (st st' : WSt) (h : encTagW c name hc ha st = .ok st') :
    TblExt c st st' := by
  rw [encTagW_eq] at h
  have t1 : TblExt c st { st with curTag := foundOf c name st } := TblExt.of_eq rfl rfl
  exact t1.trans (encTagCore_tbl _ _ _ _ _ _ _ _ h)


theorem attrTok_tbl (c : WCfg) (t p : Nat) (st st1 : WSt) (h1 : st1.strtbl = st.strtbl) (h2 : st1.strtblLen = st.strtblLen) :
    TblExt c st (attrTokenW t p st1) := by
  have hf := attrTokenW_frame t p st1
  exact TblExt.of_eq (hf.2.1.trans h1) (hf.2.2.trans h2)

theorem attrStartW_tbl (c : WCfg) (a : Attr) (v : Bytes) (st st' : WSt) (rest : Option Bytes)
    (h : attrStartW c a v st = .ok (rest, st')) : TblExt c st st' := by
  unfold attrStartW at h
  cases hname : a.name with
  | token r =>
    simp only [hname] at h
    cases hval : r.value with
    | none =>
      simp only [hval] at h
      injection h with h; injection h with h1 h2
      subst h2
      exact attrTok_tbl c _ _ st _ rfl rfl
    | some p =>
      simp only [hval] at h
      split at h
      · split at h
        · obtain ⟨tail, _, h⟩ := bind_ok' h
          injection h with h; injection h with h1 h2
          subst h2
          exact attrTok_tbl c _ _ st _ rfl rfl
        · injection h with h; injection h with h1 h2
          subst h2
          exact attrTok_tbl c _ _ st _ rfl rfl
      · obtain ⟨st1, hlit, h⟩ := bind_ok' h
        injection h with h; injection h with h1 h2
        subst h2
        have t1 : TblExt c st { st with curAttr := none } := TblExt.of_eq rfl rfl
        exact t1.trans (attrLiteralW_tbl c _ _ _ hlit)
  | literal s =>
    simp only [hname] at h
    cases hhit : (if s.isEmpty then AttrHit.none else attrLookup c.lang (cstrOf s) v) with
    | none =>
      rw [hhit] at h
      simp only at h
      obtain ⟨st1, hlit, h⟩ := bind_ok' h
      injection h with h; injection h with h1 h2
      subst h2
      have t1 : TblExt c st { st with curAttr := none } := TblExt.of_eq rfl rfl
      exact t1.trans (attrLiteralW_tbl c _ _ _ hlit)
    | exact r =>
      rw [hhit] at h
      simp only at h
      injection h with h; injection h with h1 h2
      subst h2
      exact attrTok_tbl c _ _ st _ rfl rfl
    | part r comp =>
      rw [hhit] at h
      simp only at h
      obtain ⟨tail, _, h⟩ := bind_ok' h
      injection h with h; injection h with h1 h2
      subst h2
      exact attrTok_tbl c _ _ st _ rfl rfl

theorem otaIconW_frame (na : Option (List Attr)) (s : Bytes) (st st2 : WSt)
    (h : otaIconW na s st = .ok (some st2)) : ∃ item, st2 = st.emit item := by
  unfold otaIconW at h
  split at h
  · split at h
    · obtain ⟨d, _, rfl⟩ := bind_ok_some _ (fun d => st.emit (opaqueW d)) _ h
      exact ⟨_, rfl⟩
    · cases h
  · cases h

theorem attrSpecialW_frame (c : WCfg) (na : Option (List Attr)) (s : Bytes) (st st2 : WSt)
    (h : attrSpecialW c na s st = .ok (some st2)) : ∃ item, st2 = st.emit item := by
  unfold attrSpecialW at h
  repeat' split at h
  all_goals first
    | (cases h; done)
    | (obtain ⟨item, _, rfl⟩ := bind_ok_some _ (fun item => st.emit item) _ h
       exact ⟨item, rfl⟩)
    | exact otaIconW_frame _ _ _ _ h

theorem encAttrValueW_tbl (c : WCfg) (na : Option (List Attr)) (s : Bytes) (st st' : WSt)
    (h : encAttrValueW c na s st = .ok st') : st'.strtbl = st.strtbl ∧ st'.strtblLen = st.strtblLen := by
  unfold encAttrValueW at h
  split at h
  · injection h with h; subst h; exact ⟨rfl, rfl⟩
  · obtain ⟨r, hsp, h⟩ := bind_ok' h
    cases r with
    | some st2 =>
      have := ok_inj h
      subst this
      obtain ⟨item, rfl⟩ := attrSpecialW_frame c na s st _ hsp
      exact ⟨rfl, rfl⟩
    | none =>
      simp only at h
      obtain ⟨l1, _, h⟩ := bind_ok' h
      obtain ⟨l2, _, h⟩ := bind_ok' h
      have := ok_inj h
      subst this
      have hf := emitVElts_frame l2 st
      exact ⟨hf.2.1, hf.2.2⟩

theorem encAttrW_tbl (c : WCfg) (na : Option (List Attr)) (a : Attr) (st st' : WSt)
    (h : encAttrW c na a st = .ok st') : TblExt c st st' := by
  unfold encAttrW at h
  split at h
  · have := ok_inj h
    subst this; exact TblExt.refl _ _
  · obtain ⟨p, hs, h⟩ := bind_ok' h
    obtain ⟨rest, st1⟩ := p
    have t1 := attrStartW_tbl c a _ st st1 rest hs
    simp only at h
    obtain ⟨st2, hv, h⟩ := bind_ok' h
    have := ok_inj h
    subst this
    have t2 : TblExt c st1 st2 := by
      cases rest with
      | none =>
        have := ok_inj hv
        subst this; exact TblExt.refl _ _
      | some s =>
        have := encAttrValueW_tbl c na s st1 st2 hv
        exact TblExt.of_eq this.1 this.2
    exact t1.trans (t2.trans (TblExt.of_eq rfl rfl))

theorem encAttrsW_tbl (c : WCfg) (na : Option (List Attr)) :
    ∀ (l : List Attr) (st st' : WSt), encAttrsW c na l st = .ok st' → TblExt c st st' := by
  intro l
  induction l with
  | nil => intro st st' h; simp only [encAttrsW] at h; have := ok_inj h; subst this; exact TblExt.refl _ _
  | cons a rest ih =>
    intro st st' h
    simp only [encAttrsW] at h
    obtain ⟨st1, h1, h⟩ := bind_ok' h
    exact (encAttrW_tbl c na a st st1 h1).trans (ih st1 st' h)

theorem encElementStartW_tbl (c : WCfg) (na : Option (List Attr)) (name : Name) (attrs : List Attr) (hasContent : Bool)
    (st st' : WSt) (h : encElementStartW c na name attrs hasContent st = .ok st') : TblExt c st st' := by
  unfold encElementStartW at h
  simp only at h
  obtain ⟨st1, h1, h⟩ := bind_ok' h
  obtain ⟨st2, h2, h⟩ := bind_ok' h
  have := ok_inj h
  subst this
  have t3 : TblExt c st2 (if (!attrs.isEmpty && c.lang.attrs.isSome) = true then st2.emit [0x01] else st2) := by
    split
    · exact TblExt.of_eq rfl rfl
    · exact TblExt.refl _ _
  exact (encTagW_tbl c name _ _ st st1 h1).trans ((encAttrsW_tbl c na attrs st1 st2 h2).trans t3)


/-! ### What attributes and tags leave alone: `in_cdata`, `current_tag` -/

/-- `in_cdata` and `current_tag` are untouched. -/
def Fr (st st' : WSt) : Prop := st'.inCdata = st.inCdata ∧ st'.curTag = st.curTag

theorem Fr.refl (st : WSt) : Fr st st := ⟨rfl, rfl⟩
theorem Fr.trans {a b d : WSt} (h1 : Fr a b) (h2 : Fr b d) : Fr a d := ⟨h2.1.trans h1.1, h2.2.trans h1.2⟩

theorem attrTokenW_fr (t p : Nat) (st : WSt) : Fr st (attrTokenW t p st) := by
  unfold attrTokenW; split <;> exact ⟨rfl, rfl⟩

theorem tagTokenW_fr (t p : Nat) (st : WSt) : Fr st (tagTokenW t p st) := by
  unfold tagTokenW; split <;> exact ⟨rfl, rfl⟩

theorem attrLiteralW_fr (c : WCfg) (name : Bytes) (st st' : WSt) (h : attrLiteralW c name st = .ok st') : Fr st st' := by
  rw [attrLiteralW_eq] at h
  split at h
  · injection h with h; subst h
    exact ⟨by simp only [emit_inCdata, strtblAdd_inCdata], by simp only [emit_curTag, strtblAdd_curTag]⟩
  · cases h

theorem tagLiteralW_fr (c : WCfg) (name : Bytes) (mask : Nat) (st st' : WSt) (h : tagLiteralW c name mask st = .ok st') :
    Fr st st' := by
  rw [tagLiteralW_eq] at h
  split at h
  · injection h with h; subst h
    exact ⟨by simp only [emit_inCdata, strtblAdd_inCdata], by simp only [emit_curTag, strtblAdd_curTag]⟩
  · cases h

theorem attrStartW_fr (c : WCfg) (a : Attr) (v : Bytes) (st st' : WSt) (rest : Option Bytes)
    (h : attrStartW c a v st = .ok (rest, st')) : Fr st st' := by
  have tokfr : ∀ (t p : Nat) (cur : Option AttrRow), Fr st (attrTokenW t p { st with curAttr := cur }) :=
    fun t p cur => Fr.trans (b := { st with curAttr := cur }) ⟨rfl, rfl⟩ (attrTokenW_fr t p _)
  have litfr : ∀ (nm : Bytes) (st1 : WSt), attrLiteralW c nm { st with curAttr := none } = .ok st1 → Fr st st1 :=
    fun nm st1 hl => Fr.trans (b := { st with curAttr := none }) ⟨rfl, rfl⟩ (attrLiteralW_fr c nm _ st1 hl)
  unfold attrStartW at h
  cases hname : a.name with
  | token r =>
    simp only [hname] at h
    cases hval : r.value with
    | none =>
      simp only [hval] at h
      injection h with h; injection h with h1 h2
      subst h2; exact tokfr _ _ _
    | some p =>
      simp only [hval] at h
      split at h
      · split at h
        · obtain ⟨tail, _, h⟩ := bind_ok' h
          injection h with h; injection h with h1 h2
          subst h2; exact tokfr _ _ _
        · injection h with h; injection h with h1 h2
          subst h2; exact tokfr _ _ _
      · obtain ⟨st1, hlit, h⟩ := bind_ok' h
        injection h with h; injection h with h1 h2
        subst h2; exact litfr _ _ hlit
  | literal s =>
    simp only [hname] at h
    cases hhit : (if s.isEmpty then AttrHit.none else attrLookup c.lang (cstrOf s) v) with
    | none =>
      rw [hhit] at h
      simp only at h
      obtain ⟨st1, hlit, h⟩ := bind_ok' h
      injection h with h; injection h with h1 h2
      subst h2; exact litfr _ _ hlit
    | exact r =>
      rw [hhit] at h
      simp only at h
      injection h with h; injection h with h1 h2
      subst h2; exact tokfr _ _ _
    | part r comp =>
      rw [hhit] at h
      simp only at h
      obtain ⟨tail, _, h⟩ := bind_ok' h
      injection h with h; injection h with h1 h2
      subst h2; exact tokfr _ _ _

theorem emitVElts_fr (l : List VElt) (st : WSt) : Fr st (emitVElts st l) := by
  induction l generalizing st with
  | nil => exact Fr.refl _
  | cons e es ih =>
    have h1 : Fr st (emitVElt st e) := by
      cases e with
      | str s => simp only [emitVElt]; split <;> exact ⟨rfl, rfl⟩
      | ext r => exact ⟨rfl, rfl⟩
      | ref o => exact ⟨rfl, rfl⟩
      | tok r => exact attrTokenW_fr _ _ _
    have h2 := ih (emitVElt st e)
    simp only [emitVElts, List.foldl_cons] at h2 ⊢
    exact h1.trans h2

theorem encAttrValueW_fr (c : WCfg) (na : Option (List Attr)) (s : Bytes) (st st' : WSt)
    (h : encAttrValueW c na s st = .ok st') : Fr st st' := by
  unfold encAttrValueW at h
  split at h
  · injection h with h; subst h; exact Fr.refl _
  · obtain ⟨r, hsp, h⟩ := bind_ok' h
    cases r with
    | some st2 =>
      have := ok_inj h
      subst this
      obtain ⟨item, rfl⟩ := attrSpecialW_frame c na s st _ hsp
      exact ⟨rfl, rfl⟩
    | none =>
      simp only at h
      obtain ⟨l1, _, h⟩ := bind_ok' h
      obtain ⟨l2, _, h⟩ := bind_ok' h
      have := ok_inj h
      subst this
      exact emitVElts_fr l2 st

theorem encAttrW_fr (c : WCfg) (na : Option (List Attr)) (a : Attr) (st st' : WSt)
    (h : encAttrW c na a st = .ok st') : Fr st st' := by
  unfold encAttrW at h
  split at h
  · have := ok_inj h
    subst this; exact Fr.refl _
  · obtain ⟨p, hs, h⟩ := bind_ok' h
    obtain ⟨rest, st1⟩ := p
    have t1 := attrStartW_fr c a _ st st1 rest hs
    simp only at h
    obtain ⟨st2, hv, h⟩ := bind_ok' h
    have := ok_inj h
    subst this
    have t2 : Fr st1 st2 := by
      cases rest with
      | none =>
        have := ok_inj hv
        subst this; exact Fr.refl _
      | some s => exact encAttrValueW_fr c na s st1 st2 hv
    exact t1.trans (t2.trans ⟨rfl, rfl⟩)

theorem encAttrsW_fr (c : WCfg) (na : Option (List Attr)) :
    ∀ (l : List Attr) (st st' : WSt), encAttrsW c na l st = .ok st' → Fr st st' := by
  intro l
  induction l with
  | nil => intro st st' h; simp only [encAttrsW] at h; have := ok_inj h; subst this; exact Fr.refl _
  | cons a rest ih =>
    intro st st' h
    simp only [encAttrsW] at h
    obtain ⟨st1, h1, h⟩ := bind_ok' h
    exact (encAttrW_fr c na a st st1 h1).trans (ih st1 st' h)

/-- After `parse_element`: `in_cdata` as before, `current_tag` = the row chosen for the name. -/
theorem encElementStartW_cur (c : WCfg) (na : Option (List Attr)) (name : Name) (attrs : List Attr) (hasContent : Bool)
    (st st' : WSt) (h : encElementStartW c na name attrs hasContent st = .ok st') :
    st'.inCdata = st.inCdata ∧ st'.curTag = foundOf c name st := by
  unfold encElementStartW at h
  simp only at h
  obtain ⟨st1, h1, h⟩ := bind_ok' h
  obtain ⟨st2, h2, h⟩ := bind_ok' h
  have := ok_inj h
  subst this
  have f1 : st1.inCdata = st.inCdata ∧ st1.curTag = foundOf c name st := by
    rw [encTagW_eq] at h1
    unfold encTagCore at h1
    simp only at h1
    generalize ((match foundOf c name st with | some r => r.token % 256 | none => 0) |||
      (if hasContent = true then 64 else 0) ||| if (!attrs.isEmpty && c.lang.attrs.isSome) = true then 128 else 0) = token at h1
    split at h1
    · have := tagLiteralW_fr c _ _ _ st1 h1
      exact ⟨this.1, this.2⟩
    · have e := ok_inj h1
      subst e
      have := tagTokenW_fr token (match foundOf c name st with | some r => r.page % 256 | none => 0)
        { st with curTag := foundOf c name st }
      exact ⟨this.1, this.2⟩
  have f2 := encAttrsW_fr c na attrs st1 st2 h2
  constructor
  · split
    · simp only [emit_inCdata]; rw [f2.1, f1.1]
    · rw [f2.1, f1.1]
  · split
    · simp only [emit_curTag]; rw [f2.2, f1.2]
    · rw [f2.2, f1.2]

/-- **The string-table invariant on every tree.** -/
theorem encNode_tbl :
    (∀ (c : WCfg) (parent : Option Name) (encEnd : Bool) (n : Node) (st : WSt), StrInv st →
      ∀ st', encNodeG c parent encEnd n st = .ok st' → TblExt c st st') ∧
    (∀ (c : WCfg) (parent : Option Name) (l : List Node) (st : WSt), StrInv st →
      ∀ st', encNodesW c parent l st = .ok st' → TblExt c st st') := by
  apply encNodeG.mutual_induct
    (motive_1 := fun c parent encEnd n st => StrInv st →
      ∀ st', encNodeG c parent encEnd n st = .ok st' → TblExt c st st')
    (motive_2 := fun c parent l st => StrInv st →
      ∀ st', encNodesW c parent l st = .ok st' → TblExt c st st')
  · intro c parent encEnd name attrs kids st ih hinv st' h
    simp only [encNodeG] at h
    obtain ⟨st1, h1, h⟩ := bind_ok' h
    obtain ⟨st2, h2, h⟩ := bind_ok' h
    have h3 := ok_inj h
    subst h3
    have t1 := encElementStartW_tbl c _ name attrs _ st st1 h1
    have t2 := ih st1 (t1.inv hinv) st2 h2
    have t3 : TblExt c st2 (if (encEnd && !kids.isEmpty) = true then st2.emit [0x01] else st2) := by
      split
      · exact TblExt.of_eq rfl rfl
      · exact TblExt.refl _ _
    exact t1.trans (t2.trans (t3.trans (TblExt.of_eq rfl rfl)))
  · intro c parent encEnd s st hinv st' h
    simp only [encNodeG] at h
    obtain ⟨st1, h1, h⟩ := bind_ok' h
    have h3 := ok_inj h
    subst h3
    obtain ⟨items, _, _, _, _, ht, hlen, _⟩ := encTextW_spec c parent s st st1 hinv h1
    exact (TblExt.of_eq ht hlen).trans (TblExt.of_eq rfl rfl)
  · intro c parent encEnd kids st s hs _ st' h
    simp only [encNodeG, hs] at h
    cases h
  · intro c parent encEnd kids st hs ih hinv st' h
    simp only [encNodeG, hs] at h
    obtain ⟨st2, h2, h⟩ := bind_ok' h
    have t1 := ih (hinv.of_eq rfl rfl) st2 h2
    have t0 : TblExt c st { st with inCdata := true, cdata := some [] } := TblExt.of_eq rfl rfl
    split at h
    · cases h
    · rename_i cd hcd
      have h3 := ok_inj h
      subst h3
      have t3 : TblExt c st2 (if cd.length > 0 then ({ st2 with inCdata := false } : WSt).emit (opaqueW cd)
          else { st2 with inCdata := false }) := by
        split
        · exact TblExt.of_eq rfl rfl
        · exact TblExt.of_eq rfl rfl
      exact t0.trans (t1.trans (t3.trans (TblExt.of_eq rfl rfl)))
  · intro c parent encEnd cs root st _ st' h
    simp only [encNodeG] at h
    cases h
  · intro c parent encEnd cs st l _ st' h
    simp only [encNodeG] at h
    cases h
  · intro c parent encEnd cs st l r c' _ _ st' h
    simp only [encNodeG] at h
    obtain ⟨st2, _, h⟩ := bind_ok' h
    have h3 := ok_inj h
    subst h3
    exact TblExt.of_eq rfl rfl
  · intro c parent st _ st' h
    simp only [encNodesW] at h
    have := ok_inj h
    subst this
    exact TblExt.refl _ _
  · intro c parent n rest st ih1 ih2 hinv st' h
    simp only [encNodesW] at h
    obtain ⟨st1, h1, h⟩ := bind_ok' h
    have t1 := ih1 hinv st1 h1
    exact t1.trans (ih2 st1 (t1.inv hinv) st' h)

/-- Final state of a successful document run: the invariant holds, and without string table the
    table is empty. -/
theorem doc_final_inv (c : WCfg) (r : Node) (st : WSt)
    (h : encNodeG c none true r (docStartW c r) = .ok st) :
    StrInv st ∧ (c.useStrtbl = false → st.strtbl = []) := by
  have t := encNode_tbl.1 c none true r _ (docStartW_inv c r) st h
  exact ⟨t.inv (docStartW_inv c r), fun hu => by rw [t.no hu]; exact docStartW_noStrtbl _ _ hu⟩

end Wbxml.Lemmas.EncW
