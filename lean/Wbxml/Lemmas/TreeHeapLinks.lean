/-
  C18 lemmas, part 13: the invariant spelled out without the ghost shape — what "parent, first-child,
  previous and next links are mutually consistent" means cell by cell.
-/
import Wbxml.Lemmas.TreeHeapExtract
set_option linter.unusedSimpArgs false
set_option linter.unusedVariables false
namespace Wbxml.Model.TreeHeap
open Wbxml Wbxml.Model

/-- The sibling pointers of a top-level node of a matched chain are answered by the siblings. -/
theorem Match.sibling_links {v : View} (par : Option Nat) (n : Nat) (cn : Cell) (hcn : v n = some cn) :
    ∀ (t : BT) (prv : Option Nat), Match v par prv t → n ∈ t.tops →
      (∀ x, cn.next = some x → ∃ cx, v x = some cx ∧ cx.prev = some n ∧ cx.parent = par) ∧
      (∀ q, cn.prev = some q →
        (t.rid = some n ∧ prv = some q) ∨ ∃ cq, v q = some cq ∧ cq.next = some n ∧ cq.parent = par)
  | .nil, _, _, h => by simp [BT.tops] at h
  | .node i ch nx, prv, ⟨⟨c, hc, hp, hpv, hf, hnx, hb⟩, mc, mn⟩, h => by
    by_cases e : i = n
    · subst e
      rw [hcn] at hc; injection hc with hc; subst hc
      refine ⟨?_, fun q hq => Or.inl ⟨rfl, by rw [← hpv]; exact hq⟩⟩
      intro x hx
      rw [hnx] at hx
      cases nx with
      | nil => simp at hx
      | node y cy my =>
        simp only [BT.rid_node, Option.some.injEq] at hx; subst hx
        obtain ⟨⟨c', hc', hp', hpv', _⟩, _, _⟩ := mn
        exact ⟨c', hc', hpv', hp'⟩
    · simp only [BT.tops, List.mem_cons] at h
      have hn' : n ∈ nx.tops := by
        rcases h with h | h
        · exact absurd h.symm e
        · exact h
      obtain ⟨h1, h2⟩ := Match.sibling_links par n cn hcn nx (some i) mn hn'
      refine ⟨h1, ?_⟩
      intro q hq
      rcases h2 q hq with ⟨hr, hq'⟩ | h
      · right
        injection hq' with hq'; subst hq'
        exact ⟨c, hc, by rw [hnx, hr], hp⟩
      · exact Or.inr h

/-- The invariant, cell by cell: for every live node
    * its first child (if any) is live, names it as parent and has no previous sibling;
    * its next sibling (if any) is live, names it as previous sibling and has the same parent;
    * its previous sibling (if any) is live, names it as next sibling and has the same parent;
    * its parent (if any) is a live element or CDATA node with at least one child;
    * text and nested-document nodes have no children;
    * the root of the tree has no parent. -/
theorem Inv.links {s : St} (hI : Inv s) (i : Nat) (c : Cell) (hc : s.cellAt i = some c) :
    (∀ j, c.first = some j → ∃ cj, s.cellAt j = some cj ∧ cj.parent = some i ∧ cj.prev = none) ∧
    (∀ j, c.next = some j → ∃ cj, s.cellAt j = some cj ∧ cj.prev = some i ∧ cj.parent = c.parent) ∧
    (∀ j, c.prev = some j → ∃ cj, s.cellAt j = some cj ∧ cj.next = some i ∧ cj.parent = c.parent) ∧
    (∀ p, c.parent = some p → ∃ cp, s.cellAt p = some cp ∧ cp.pay.isBranch = true ∧ cp.first.isSome = true) ∧
    (c.pay.isBranch = false → c.first = none) ∧
    (s.root = some i → c.parent = none) := by
  obtain ⟨G, hF⟩ := hI
  have hiG := hF.cover i c hc
  obtain ⟨c', hc', hf, hb, hm⟩ := hF.cell_kids hiG
  rw [hc] at hc'; injection hc' with hc'; subst hc'
  refine ⟨?_, ?_, ?_, ?_, ?_, ?_⟩
  · intro j hj
    rw [hf] at hj
    cases hK : BT.kidsOf i G with
    | nil => rw [hK] at hj; simp at hj
    | node y cy my =>
      rw [hK] at hj hm
      simp only [BT.rid_node, Option.some.injEq] at hj; subst hj
      obtain ⟨⟨cj, hcj, hp, hpv, _⟩, _, _⟩ := hm
      exact ⟨cj, hcj, hp, hpv⟩
  · intro j hj
    rcases Loc.locate s.cellAt i c hc G none none hF.m hiG hF.nodup with ⟨ht, hp⟩ | ⟨P, hP, ht, hp⟩
    · obtain ⟨c', hc', _, _, hnx, _⟩ := Loc.top_facts s.cellAt i G none hF.m ht
      rw [hc] at hc'; injection hc' with hc'; subst hc'
      rw [hnx] at hj; cases hj
    · obtain ⟨cP, hcP, _, _, mK⟩ := hF.cell_kids hP
      obtain ⟨h1, _⟩ := Match.sibling_links (some P) i c hc _ none mK ht
      obtain ⟨cx, hcx, h2, h3⟩ := h1 j hj
      exact ⟨cx, hcx, h2, by rw [hp]; exact h3⟩
  · intro j hj
    rcases Loc.locate s.cellAt i c hc G none none hF.m hiG hF.nodup with ⟨ht, hp⟩ | ⟨P, hP, ht, hp⟩
    · obtain ⟨c', hc', _, hpv, _⟩ := Loc.top_facts s.cellAt i G none hF.m ht
      rw [hc] at hc'; injection hc' with hc'; subst hc'
      rw [hpv] at hj; cases hj
    · obtain ⟨cP, hcP, _, _, mK⟩ := hF.cell_kids hP
      obtain ⟨_, h2⟩ := Match.sibling_links (some P) i c hc _ none mK ht
      rcases h2 j hj with ⟨_, h⟩ | ⟨cq, hcq, h3, h4⟩
      · cases h
      · exact ⟨cq, hcq, h3, by rw [hp]; exact h4⟩
  · intro p hp
    rcases Loc.locate s.cellAt i c hc G none none hF.m hiG hF.nodup with ⟨_, hp'⟩ | ⟨P, hP, ht, hp'⟩
    · rw [hp] at hp'; cases hp'
    · rw [hp] at hp'; injection hp' with hp'; subst hp'
      obtain ⟨cP, hcP, hPf, hPb, _⟩ := hF.cell_kids hP
      have hKne : BT.kidsOf p G ≠ .nil := by
        intro h; rw [h] at ht; simp [BT.tops] at ht
      refine ⟨cP, hcP, ?_, ?_⟩
      · rcases hPb with h | h
        · exact h
        · exact absurd h hKne
      · rw [hPf]
        cases hK : BT.kidsOf p G with
        | nil => exact absurd hK hKne
        | node y cy my => rfl
  · intro hnb
    rcases hb with h | h
    · rw [hnb] at h; cases h
    · rw [hf, h]; rfl
  · intro hr
    obtain ⟨c', hc', hp, _⟩ := Loc.top_facts s.cellAt i G none hF.m (hF.root i hr)
    rw [hc] at hc'; injection hc' with hc'; subst hc'
    exact hp

end Wbxml.Model.TreeHeap
