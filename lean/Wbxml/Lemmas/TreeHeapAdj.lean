/-
  C18 lemmas, part 14: "adjacent text siblings have been merged" (`NoAdjText`) is kept by every call
  except `wbxml_tree_extract_node`.
-/
import Wbxml.Lemmas.TreeHeapLinks
import Wbxml.Lemmas.TreeHeapStep
import Wbxml.Lemmas.TreeHeapDestroy
set_option linter.unusedSimpArgs false
set_option linter.unusedVariables false
namespace Wbxml.Model.TreeHeap
open Wbxml Wbxml.Model

/-- Nothing new: every live cell afterwards is the same live cell before. -/
theorem NoAdjText.of_sub {s s' : St} (hsub : ∀ i c', s'.cellAt i = some c' → s.cellAt i = some c')
    (h : NoAdjText s) : NoAdjText s' := by
  intro i j ci cj hci hnx hcj
  exact h i j ci cj (hsub i ci hci) hnx (hsub j cj hcj)

theorem NoAdjText.of_view_eq {s s' : St} (hv : s'.cellAt = s.cellAt) (h : NoAdjText s) : NoAdjText s' :=
  h.of_sub (fun i c' hc' => by rw [hv] at hc'; exact hc')

theorem NoAdjText.vdel {s s' : St} (i : Nat) (hv : s'.cellAt = vdel s.cellAt i) (h : NoAdjText s) : NoAdjText s' :=
  h.of_sub (fun j c' hc' => by
    rw [hv] at hc'
    by_cases hj : j = i
    · subst hj; simp at hc'
    · rw [vdel_ne _ hj] at hc'; exact hc')

theorem NoAdjText.vdel_all {s s' : St} (l : List Nat) (hv : s'.cellAt = vdelAll s.cellAt l) (h : NoAdjText s) :
    NoAdjText s' :=
  h.of_sub (fun j c' hc' => by
    rw [hv] at hc'
    simp only [vdelAll] at hc'
    by_cases hj : j ∈ l
    · simp [hj] at hc'
    · simpa [hj] using hc')

/-- A fresh node has no siblings, and nobody points to it. -/
theorem alloc_noadj {s : St} (hI : Inv s) (h : NoAdjText s) (p : Pay) : NoAdjText (s.alloc p).2 := by
  obtain ⟨_, hv, _⟩ := alloc_view s p
  intro i j ci cj hci hnx hcj
  rw [hv] at hci hcj
  by_cases hia : i = s.heap.length
  · subst hia
    simp only [vset_self, Option.some.injEq] at hci; subst hci
    cases hnx
  · rw [vset_ne _ _ hia] at hci
    by_cases hja : j = s.heap.length
    · -- an old cell pointing to the fresh address: impossible, its next sibling would be live
      subst hja
      obtain ⟨cj', hcj', _⟩ := (hI.links i ci hci).2.1 _ hnx
      exact absurd (cellAt_lt hcj') (by omega)
    · rw [vset_ne _ _ hja] at hcj
      exact h i j ci cj hci hnx hcj

/-- Changing a payload without changing its kind. -/
theorem set_pay_noadj {s s' : St} {a : Nat} {c : Cell} (hc : s.cellAt a = some c) (c' : Cell)
    (hv : s'.cellAt = vset s.cellAt a c') (hn : c'.next = c.next) (ht : c'.pay.isText = c.pay.isText)
    (h : NoAdjText s) : NoAdjText s' := by
  intro i j ci cj hci hnx hcj
  rw [hv] at hci hcj
  have get : ∀ x cx, vset s.cellAt a c' x = some cx →
      ∃ cx0, s.cellAt x = some cx0 ∧ cx0.next = cx.next ∧ cx0.pay.isText = cx.pay.isText := by
    intro x cx hx
    by_cases hxa : x = a
    · subst hxa
      simp only [vset_self, Option.some.injEq] at hx; subst hx
      exact ⟨c, hc, hn.symm, ht.symm⟩
    · rw [vset_ne _ _ hxa] at hx; exact ⟨cx, hx, rfl, rfl⟩
  obtain ⟨ci0, h1, h2, h3⟩ := get i ci hci
  obtain ⟨cj0, h4, _, h6⟩ := get j cj hcj
  rw [← h3, ← h6]
  exact h i j ci0 cj0 h1 (by rw [h2]; exact hnx) h4

/-- `wbxml_tree_add_node` under a parent keeps the property: the append case is taken only when the
    two nodes are not both text, the merge case replaces a text node by a text node. -/
theorem addNode_under_noadj {s : St} {G : BT} {P n : Nat} {cP cn : Cell} (c : AddCtx s G P n cP cn)
    (h : NoAdjText s) {b : Bool} {s' : St} (e : addNode s (some P) n = .ok (b, s')) : NoAdjText s' := by
  obtain ⟨k1, k2, k3, k4, k5, k6, k7⟩ := c.kids_facts
  have hI : Inv s := ⟨G, c.hF⟩
  have self_text : cn.pay.isText = true → ∃ c0, s.cellAt n = some c0 ∧ c0.pay.isText = true :=
    fun ht => ⟨cn, c.hcn, ht⟩
  cases hf : cP.first with
  | none =>
    obtain ⟨s1, h1, _, _, _, pf, ef⟩ := addNode_first c hf
    rw [h1] at e; injection e with e; injection e with _ e; subst e
    exact h.step [] ef (pf.textMono self_text) (by intro i j ci cj hm; simp at hm)
  | some fc =>
    have hKne : BT.kidsOf P G ≠ .nil := by
      intro h'; rw [h'] at k1; rw [hf] at k1; cases k1
    obtain ⟨l, hl⟩ := BT.lastId_some _ hKne
    have hlK : l ∈ (BT.kidsOf P G).ids := BT.tops_sub _ _ (BT.lastId_mem _ _ hl)
    obtain ⟨cl, hcl⟩ := Match.live _ _ _ k2 l hlK
    by_cases hm : (cn.pay.isText && cl.pay.isText) = true
    · obtain ⟨s1, h1, _, _, _, l', cl', hl', hcl', pf, ef⟩ := addNode_merge c hf (by
        intro l' cl' hl' hcl'
        rw [hl] at hl'; injection hl' with hl'; subst hl'
        rw [hcl] at hcl'; injection hcl' with hcl'; subst hcl'; exact hm)
      rw [hl] at hl'; injection hl' with hl'; subst hl'
      rw [hcl] at hcl'; injection hcl' with hcl'; subst hcl'
      rw [h1] at e; injection e with e; injection e with _ e; subst e
      have htn : cn.pay.isText = true := by simp only [Bool.and_eq_true] at hm; exact hm.1
      have htl : cl.pay.isText = true := by simp only [Bool.and_eq_true] at hm; exact hm.2
      have tm := pf.textMono (fun _ => ⟨cn, c.hcn, htn⟩)
      apply h.step _ ef tm
      intro i j ci cj hmem hci hcj ⟨t1, _⟩
      cases hq : cl.prev with
      | none => rw [hq] at hmem; simp at hmem
      | some q =>
        rw [hq] at hmem
        simp only [List.mem_singleton, Prod.mk.injEq] at hmem
        have hiq : i = q := hmem.1
        rw [hiq] at hci
        -- q was followed by the text node l: it is not text
        obtain ⟨cq, hcq, hqn, _⟩ := (hI.links l cl hcl).2.2.1 q hq
        obtain ⟨cq0, hcq0, hqt⟩ := tm q ci hci t1
        rw [hcq] at hcq0; injection hcq0 with hcq0; subst hcq0
        exact h q l cq cl hcq hqn hcl ⟨hqt, htl⟩
    · have hm' : (cn.pay.isText && cl.pay.isText) = false := by
        cases h' : (cn.pay.isText && cl.pay.isText) <;> simp_all
      obtain ⟨s1, h1, _, _, _, pf, l', hl', ef⟩ := addNode_append c hf (by
        intro l' cl' hl' hcl'
        rw [hl] at hl'; injection hl' with hl'; subst hl'
        rw [hcl] at hcl'; injection hcl' with hcl'; subst hcl'; exact hm')
      rw [hl] at hl'; injection hl' with hl'; subst hl'
      rw [h1] at e; injection e with e; injection e with _ e; subst e
      have tm := pf.textMono self_text
      apply h.step _ ef tm
      intro i j ci cj hmem hci hcj ⟨t1, t2⟩
      simp only [List.mem_singleton, Prod.mk.injEq] at hmem
      obtain ⟨hi, hj⟩ := hmem; subst hi; subst hj
      obtain ⟨cl0, hcl0, htl⟩ := tm i ci hci t1
      rw [hcl] at hcl0; injection hcl0 with hcl0; subst hcl0
      obtain ⟨cn0, hcn0, htn⟩ := tm j cj hcj t2
      rw [c.hcn] at hcn0; injection hcn0 with hcn0; subst hcn0
      simp [htn, htl] at hm'

end Wbxml.Model.TreeHeap
