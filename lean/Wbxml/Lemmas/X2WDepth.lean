/-
  C02, bounds, depth.

  * `Node.depth`: nodes on the longest path from a node down (embedded documents entered);
    `Node.walkL`: stack frames of the encoder's `parse_node` recursion for a `next` chain — one frame
    per nesting level AND per sibling (the model's `encNodeG` / `encNodesW` recursion has the same
    shape; the model needs no fuel for it because it is structural). `depthL ≤ walkL ≤ sizeL`.
  * `Node.eltDepth`: element nesting (CDATA nodes transparent, text 0, embedded documents entered).
    `step_hgt`: a callback raises the element nesting of the builder's state by at most 1, and only
    a start-element event does; an embedded document adds its own nesting. Hence
    `treeOfXml_eltDepth`: element nesting ≤ number of start-element events, embedded runs included
    (`expStarts`), and `expStarts ≤ expSize`.
-/
import Wbxml.Lemmas.X2WSize

namespace Wbxml.Model

mutual
/-- Nodes on the longest path from this node down; an embedded document continues the path. -/
def Node.depth : Node → Nat
  | .elt _ _ kids => 1 + Node.depthL kids
  | .text _ => 1
  | .cdata kids => 1 + Node.depthL kids
  | .tree _ _ none => 1
  | .tree _ _ (some r) => 1 + r.depth
def Node.depthL : List Node → Nat
  | [] => 0
  | n :: rest => max n.depth (Node.depthL rest)
end

mutual
/-- Frames of `parse_node` below the frame of this node: its children's chain, or the root of the
    embedded document (encoded by a duplicated encoder on the same call stack). -/
def Node.walkIn : Node → Nat
  | .elt _ _ kids => Node.walkL kids
  | .text _ => 0
  | .cdata kids => Node.walkL kids
  | .tree _ _ none => 0
  | .tree _ _ (some r) => 1 + r.walkIn
/-- Frames of `parse_node` for a `next` chain: `parse_node(node)` encodes the node, its children,
    and then calls itself on `node->next`. -/
def Node.walkL : List Node → Nat
  | [] => 0
  | n :: rest => 1 + max n.walkIn (Node.walkL rest)
end

mutual
/-- Element nesting: CDATA nodes are transparent, text counts 0, an embedded document continues. -/
def Node.eltDepth : Node → Nat
  | .elt _ _ kids => 1 + Node.eltDepthL kids
  | .text _ => 0
  | .cdata kids => Node.eltDepthL kids
  | .tree _ _ none => 0
  | .tree _ _ (some r) => r.eltDepth
def Node.eltDepthL : List Node → Nat
  | [] => 0
  | n :: rest => max n.eltDepth (Node.eltDepthL rest)
end

def Tree.eltDepth (t : Tree) : Nat := (Node.tree t.lang t.origCharset t.root).eltDepth
def Tree.depth (t : Tree) : Nat := (Node.tree t.lang t.origCharset t.root).depth
/-- Call depth of the encoder's node walk on the whole tree. -/
def Tree.walk (t : Tree) : Nat := (Node.tree t.lang t.origCharset t.root).walkIn

end Wbxml.Model

namespace Wbxml.Lemmas.X2W
open Wbxml Wbxml.Model

/-! ### Structural comparisons -/

theorem size_elt' (name : Name) (a : List Attr) (kids : List Node) :
    (Node.elt name a kids).size = 1 + name.size + attrsSize a + Node.sizeL kids := by
  simp [Node.size, Node.sizeL, Node.sizeW]
theorem size_text' (s : Bytes) : (Node.text s).size = 1 + s.length := by simp [Node.size, Node.sizeW]
theorem size_cdata' (kids : List Node) : (Node.cdata kids).size = 1 + Node.sizeL kids := by
  simp [Node.size, Node.sizeL, Node.sizeW]

mutual
theorem depth_le_walk : ∀ (n : Node), n.depth ≤ 1 + n.walkIn
  | .elt _ _ kids => by
    have := depthL_le_walkL kids
    simp only [Node.depth, Node.walkIn]; omega
  | .text _ => by simp [Node.depth, Node.walkIn]
  | .cdata kids => by
    have := depthL_le_walkL kids
    simp only [Node.depth, Node.walkIn]; omega
  | .tree _ _ none => by simp [Node.depth, Node.walkIn]
  | .tree _ _ (some r) => by
    have := depth_le_walk r
    simp only [Node.depth, Node.walkIn]; omega
theorem depthL_le_walkL : ∀ (l : List Node), Node.depthL l ≤ Node.walkL l
  | [] => by simp [Node.depthL, Node.walkL]
  | n :: rest => by
    have h1 := depth_le_walk n
    have h2 := depthL_le_walkL rest
    simp only [Node.depthL, Node.walkL]
    omega
end

mutual
theorem walkIn_lt_size : ∀ (n : Node), 1 + n.walkIn ≤ n.size
  | .elt name a kids => by
    have := walkL_le_sizeL kids
    rw [size_elt']
    simp only [Node.walkIn]; omega
  | .text s => by simp only [Node.walkIn, size_text']; omega
  | .cdata kids => by
    have := walkL_le_sizeL kids
    rw [size_cdata']
    simp only [Node.walkIn]; omega
  | .tree l cs none => by simp [Node.walkIn, Node.size, Node.sizeW]
  | .tree l cs (some r) => by
    have := walkIn_lt_size r
    simp only [Node.walkIn, Node.size, Node.sizeW] at this ⊢
    omega
theorem walkL_le_sizeL : ∀ (l : List Node), Node.walkL l ≤ Node.sizeL l
  | [] => by simp [Node.walkL, Node.sizeL, Node.sizeWL]
  | n :: rest => by
    have h1 := walkIn_lt_size n
    have h2 := walkL_le_sizeL rest
    simp only [Node.walkL, Node.sizeL, Node.sizeWL, Node.size] at h1 h2 ⊢
    omega
end

/-- The sibling walk alone reaches the bound: `k` empty text siblings need `k` frames. -/
theorem walkL_replicate (k : Nat) : Node.walkL (List.replicate k (.text [])) = k := by
  induction k with
  | zero => rfl
  | succ k ih => simp only [List.replicate_succ, Node.walkL, Node.walkIn, ih]; omega

mutual
theorem eltDepth_le_depth : ∀ (n : Node), n.eltDepth ≤ n.depth
  | .elt _ _ kids => by
    have := eltDepthL_le_depthL kids
    simp only [Node.depth, Node.eltDepth]; omega
  | .text _ => by simp [Node.eltDepth]
  | .cdata kids => by
    have := eltDepthL_le_depthL kids
    simp only [Node.depth, Node.eltDepth]; omega
  | .tree _ _ none => by simp [Node.eltDepth]
  | .tree _ _ (some r) => by
    have := eltDepth_le_depth r
    simp only [Node.depth, Node.eltDepth]; omega
theorem eltDepthL_le_depthL : ∀ (l : List Node), Node.eltDepthL l ≤ Node.depthL l
  | [] => by simp [Node.depthL, Node.eltDepthL]
  | n :: rest => by
    have h1 := eltDepth_le_depth n
    have h2 := eltDepthL_le_depthL rest
    simp only [Node.depthL, Node.eltDepthL]
    omega
end

theorem eltDepthL_append : ∀ (a b : List Node),
    Node.eltDepthL (a ++ b) = max (Node.eltDepthL a) (Node.eltDepthL b)
  | [], b => by simp [Node.eltDepthL]
  | n :: a, b => by simp only [List.cons_append, Node.eltDepthL, eltDepthL_append a b]; omega

theorem addKid_eltDepth (kids : List Node) (n : Node) :
    Node.eltDepthL (addKid kids n) ≤ max (Node.eltDepthL kids) n.eltDepth := by
  unfold addKid
  split
  · rename_i s t hl
    obtain ⟨ys, hk⟩ := List.getLast?_eq_some_iff.mp hl
    subst hk
    rw [List.dropLast_concat, eltDepthL_append, eltDepthL_append]
    simp only [Node.eltDepthL, Node.eltDepth]
    omega
  · rw [eltDepthL_append]
    simp only [Node.eltDepthL]
    omega

/-! ### Element nesting of the builder's state -/

def lvl : FrameKind → Nat
  | .elt _ _ => 1
  | .cdata => 0

/-- Element nesting the open frames will have once closed, with a pending child of nesting `d`
    under the innermost one (`stack` is innermost first). -/
def hgt : Nat → List XFrame → Nat
  | d, [] => d
  | d, f :: rest => hgt (lvl f.kind + max d (Node.eltDepthL f.kids)) rest

def rootDepth : Option Node → Nat
  | some r => r.eltDepth
  | none => 0

def stHgt (b : XBState) : Nat := max (hgt 0 b.stack) (rootDepth b.root)

theorem hgt_mono : ∀ (S : List XFrame) (d d' : Nat), d ≤ d' → hgt d S ≤ hgt d' S
  | [], d, d', h => h
  | f :: rest, d, d', h => by
    simp only [hgt]
    exact hgt_mono rest _ _ (by omega)

theorem hgt_add : ∀ (S : List XFrame) (d k : Nat), hgt (d + k) S ≤ hgt d S + k
  | [], d, k => Nat.le_refl _
  | f :: rest, d, k => by
    simp only [hgt]
    have h1 := hgt_add rest (lvl f.kind + max d (Node.eltDepthL f.kids)) k
    have h2 := hgt_mono rest (lvl f.kind + max (d + k) (Node.eltDepthL f.kids))
      (lvl f.kind + max d (Node.eltDepthL f.kids) + k) (by omega)
    omega

theorem close_eltDepth (f : XFrame) : f.close.eltDepth = lvl f.kind + Node.eltDepthL f.kids := by
  unfold XFrame.close
  cases f.kind with
  | elt n a => simp [Node.eltDepth, lvl]
  | cdata => simp [Node.eltDepth, lvl]

/-- Attaching a finished node of nesting `d` below the frames `S`. -/
theorem attach_hgt (b : XBState) (S : List XFrame) (n : Node) :
    stHgt (({ b with stack := S } : XBState).attach n) ≤ max (hgt n.eltDepth S) (rootDepth b.root) := by
  unfold XBState.attach
  cases S with
  | nil =>
    simp only
    cases hr : b.root with
    | none => simp only [stHgt, hgt, rootDepth]; omega
    | some r => simp only [stHgt, hgt, rootDepth]; omega
  | cons g rest =>
    simp only [stHgt, hgt]
    have h1 := addKid_eltDepth g.kids n
    have h2 := hgt_mono rest (lvl g.kind + max 0 (Node.eltDepthL (addKid g.kids n)))
      (lvl g.kind + max n.eltDepth (Node.eltDepthL g.kids)) (by omega)
    omega

theorem attach_hgt_self (b : XBState) (n : Node) :
    stHgt (b.attach n) ≤ stHgt b + n.eltDepth := by
  have h : stHgt (b.attach n) ≤ max (hgt n.eltDepth b.stack) (rootDepth b.root) := attach_hgt b b.stack n
  have h2 := hgt_add b.stack 0 n.eltDepth
  simp only [Nat.zero_add] at h2
  simp only [stHgt] at h ⊢
  omega

/-- Leaving the innermost frame: close it and attach it below. -/
theorem popAttach_hgt (b : XBState) (f : XFrame) (rest : List XFrame) (hs : b.stack = f :: rest) :
    stHgt (({ b with stack := rest } : XBState).attach f.close) ≤ stHgt b := by
  have h := attach_hgt b rest f.close
  rw [close_eltDepth] at h
  simp only [stHgt, hs, hgt] at h ⊢
  have : max 0 (Node.eltDepthL f.kids) = Node.eltDepthL f.kids := by omega
  rw [this]
  omega

theorem xPop_hgt (b : XBState) : stHgt (xPop b) ≤ stHgt b := by
  unfold xPop
  cases hs : b.stack with
  | nil => simp only [stHgt, hs]; omega
  | cons f rest =>
    simp only
    cases hk : f.kind with
    | elt n a =>
      simp only
      have := popAttach_hgt b f rest hs
      simpa [hs] using this
    | cdata =>
      cases rest with
      | nil => simp only [stHgt, hs]; omega
      | cons g rest' =>
        simp only
        have h := attach_hgt b rest' ({ g with kids := addKid g.kids f.close } : XFrame).close
        rw [close_eltDepth] at h
        have h1 := addKid_eltDepth g.kids f.close
        rw [close_eltDepth] at h1
        have h2 := hgt_mono rest' (lvl g.kind + Node.eltDepthL (addKid g.kids f.close))
          (lvl g.kind + max (lvl f.kind + max 0 (Node.eltDepthL f.kids)) (Node.eltDepthL g.kids)) (by omega)
        have hb : stHgt b = max (hgt (lvl g.kind + max (lvl f.kind + max 0 (Node.eltDepthL f.kids))
            (Node.eltDepthL g.kids)) rest') (rootDepth b.root) := by
          simp only [stHgt, hs, hgt]
        refine Nat.le_trans h ?_
        rw [hb]
        simp only at h2 ⊢
        omega

theorem decodeTop_hgt (b : XBState) : stHgt (decodeTop b) ≤ stHgt b := by
  unfold decodeTop
  split
  · rename_i f rest hs
    split
    · split
      · simp only
        split
        · simp only [stHgt, hs, hgt]; omega
        · rename_i d _
          have h := attach_hgt_self ({ b with stack := { f with content := none } :: rest } : XBState) (.text d)
          simp only [Node.eltDepth, Nat.add_zero] at h
          simp only [stHgt, hs, hgt] at h ⊢
          omega
      · omega
    · omega
  · omega

/-! ### One callback -/

def startW : XEvent → Nat
  | .startElt _ _ _ => 1
  | _ => 0

/-- What the trees of embedded documents may nest: `S doc` bounds the tree `sub` answers for `doc`. -/
def SubDepth (sub : Bytes → Option (Except Nat Tree)) (S : Bytes → Nat) : Prop :=
  ∀ doc t, sub doc = some (.ok t) → t.eltDepth ≤ S doc

theorem answer_hgt {sub : Bytes → Option (Except Nat Tree)} {S : Bytes → Nat} (hsub : SubDepth sub S)
    (b : XBState) (doc : Bytes) : stHgt (answer b doc (sub doc)) ≤ stHgt b + S doc := by
  cases hs : sub doc with
  | none => simp only [answer, stHgt]; omega
  | some r =>
    cases r with
    | error e => simp only [answer, stHgt]; omega
    | ok t =>
      simp only [answer]
      have h1 := attach_hgt_self ({ b with skipLvl := 0 } : XBState) (.tree t.lang t.origCharset t.root)
      have h2 := hsub doc t hs
      simp only [Tree.eltDepth] at h2
      simp only [stHgt] at h1 ⊢
      omega

theorem endTailNQ_hgt (b : XBState) (name : Bytes) : stHgt (endTailNQ b name) ≤ stHgt b := by
  unfold endTailNQ
  split
  · exact Nat.le_refl _
  · split
    · exact Nat.le_refl _
    · split
      · split <;> exact Nat.le_refl _
      · exact xPop_hgt b

/-- **One callback**: only a start-element event deepens the element nesting, by one; an embedded
    document adds its own nesting. -/
theorem step_hgt (main : List Lang) (input : Bytes)
    {sub : Bytes → Option (Except Nat Tree)} {S : Bytes → Nat} (hsub : SubDepth sub S)
    (b : XBState) (e : XEvent) :
    stHgt (xbuildStep main input sub b e) ≤ stHgt b + startW e + queryCost S (queryOf main input b e) := by
  by_cases hneed : b.need.isSome = true
  · rw [step_need _ _ _ _ _ hneed]; omega
  have hnone : b.need = none := by cases hb : b.need with | none => rfl | some d => simp [hb] at hneed
  cases e with
  | endElt name idx =>
    rw [step_endElt _ _ _ _ _ _ hnone, endTail_eq]
    have hd := decodeTop_hgt b
    simp only [queryOf, hnone, Option.isSome_none, Bool.false_eq_true, ↓reduceIte, startW]
    cases hq : queryTail main input (decodeTop b) name idx with
    | none =>
      simp only [queryCost]
      have := endTailNQ_hgt (decodeTop b) name
      omega
    | some doc =>
      simp only [queryCost]
      have := answer_hgt hsub (decodeTop b) doc
      omega
  | xmlDecl v enc =>
    unfold xbuildStep
    rw [if_neg hneed]
    simp only [queryOf, queryCost]
    split
    · split
      · simp only [stHgt]; omega
      · omega
    · omega
  | doctype sysid pubid =>
    unfold xbuildStep
    rw [if_neg hneed]
    simp only [queryOf, queryCost]
    split
    · simp only [stHgt]; omega
    · omega
  | pi =>
    unfold xbuildStep
    rw [if_neg hneed]
    simp only [queryOf, queryCost]
    omega
  | startCdata =>
    unfold xbuildStep
    rw [if_neg hneed]
    simp only [queryOf, queryCost, startW]
    split
    · omega
    · simp only [stHgt, hgt, lvl, Node.eltDepthL, Nat.max_self, Nat.zero_add]
      omega
  | endCdata =>
    unfold xbuildStep
    rw [if_neg hneed]
    simp only [queryOf, queryCost, startW]
    split
    · omega
    · split
      · simp only [stHgt]; omega
      · rename_i f rest hs
        have := popAttach_hgt b f rest hs
        omega
  | chars s =>
    unfold xbuildStep
    rw [if_neg hneed]
    simp (config := { zeta := false }) only [queryOf, queryCost, startW]
    split
    · omega
    · extract_lets ty s' b1
      have hb1 : stHgt b1 ≤ stHgt b := by
        unfold b1
        split
        · split
          · extract_lets fic
            split
            · omega
            · split
              · omega
              · simp only [stHgt, hgt, lvl, Node.eltDepthL, Nat.max_self, Nat.zero_add]
                omega
          · omega
        · omega
      split
      · rename_i f rest hs
        split
        · split
          · simp only [stHgt, hs, hgt] at hb1 ⊢
            omega
          · have h1 := attach_hgt_self b1 (.text s')
            simp only [Node.eltDepth] at h1
            omega
        · have h1 := attach_hgt_self b1 (.text s')
          simp only [Node.eltDepth] at h1
          omega
      · simp only [stHgt] at hb1 ⊢
        omega
  | startElt name attrs idx =>
    unfold xbuildStep
    rw [if_neg hneed]
    simp (config := { zeta := false }) only [queryOf, queryCost, startW]
    split
    · omega
    · split
      · simp only [stHgt]; omega
      · extract_lets isRoot b1
        have hb1 : stHgt b1 = stHgt b := by
          unfold b1
          split
          · split <;> rfl
          · rfl
        split
        · omega
        · split
          · simp only [stHgt] at hb1 ⊢; omega
          · split
            · simp only [stHgt] at hb1 ⊢; omega
            · rename_i lang _
              split
              · simp only [stHgt] at hb1 ⊢; omega
              · obtain ⟨nsName, e⟩ := xmlElt_eq lang name attrs
                have hk : ∃ tag as, (xmlElt lang name attrs).1 = { kind := .elt tag as, kids := [] } := by
                  rw [e]
                  unfold xmlEltCore
                  cases lang.tags with
                  | none => exact ⟨_, _, rfl⟩
                  | some tags =>
                    simp only
                    split <;> exact ⟨_, _, rfl⟩
                obtain ⟨tag, as, hk⟩ := hk
                have h1 := hgt_add b1.stack 0 1
                simp only [stHgt, hgt, hk, lvl, Node.eltDepthL, Nat.zero_add, Nat.max_self, Nat.add_zero] at hb1 h1 ⊢
                omega

/-! ### A run, and the whole recursion -/

def evSum (wt : XEvent → Nat) : List XEvent → Nat
  | [] => 0
  | e :: r => wt e + evSum wt r

theorem evSum_le (wt wt' : XEvent → Nat) (h : ∀ e, wt e ≤ wt' e) : ∀ (evs : List XEvent), evSum wt evs ≤ evSum wt' evs
  | [] => Nat.le_refl _
  | e :: r => by
    have := h e
    have := evSum_le wt wt' h r
    simp only [evSum]; omega

theorem evSum_evSize1 : ∀ (evs : List XEvent), evSum evSize1 evs = evSize evs
  | [] => rfl
  | e :: r => by simp only [evSum, evSize, evSum_evSize1 r]

theorem fold_hgt (main : List Lang) (input : Bytes)
    {sub : Bytes → Option (Except Nat Tree)} {S : Bytes → Nat} (hsub : SubDepth sub S) :
    ∀ (evs : List XEvent) (b : XBState),
      stHgt (evs.foldl (xbuildStep main input sub) b) ≤
        stHgt b + evSum startW evs + ((queries main input sub evs b).map S).sum
  | [], b => by simp [evSum, queries]
  | e :: evs, b => by
    have h1 := step_hgt main input hsub b e
    have h2 := fold_hgt main input hsub evs (xbuildStep main input sub b e)
    simp only [List.foldl_cons, evSum, queries, List.map_append, List.sum_append]
    cases hq : queryOf main input b e with
    | none => rw [hq] at h1; simp only [queryCost, List.map_nil, List.sum_nil] at h1 ⊢; omega
    | some d =>
      rw [hq] at h1
      simp only [queryCost, List.map_cons, List.map_nil, List.sum_cons, List.sum_nil] at h1 ⊢
      omega

/-- Sum of `wt` over the events of the run of `xml` and of the runs of all embedded documents the
    builder asks for, recursively (`expSize` is `expSum evSize1`). -/
def expSum (wt : XEvent → Nat) (main : List Lang) (env : List (Bytes × ExpatRun)) : Nat → Bytes → Nat
  | 0, _ => 0
  | f + 1, xml =>
    match env.find? (fun p => p.1 == xml) with
    | none => 0
    | some (_, run) =>
      evSum wt run.events +
        ((queries main xml (subOf main env f) run.events {}).map (expSum wt main env f)).sum

/-- Start-element events of a run, embedded runs included. -/
def expStarts (main : List Lang) (env : List (Bytes × ExpatRun)) : Nat → Bytes → Nat :=
  expSum startW main env

theorem expSum_le (wt wt' : XEvent → Nat) (h : ∀ e, wt e ≤ wt' e) (main : List Lang) (env : List (Bytes × ExpatRun)) :
    ∀ (f : Nat) (xml : Bytes), expSum wt main env f xml ≤ expSum wt' main env f xml
  | 0, _ => Nat.le_refl _
  | f + 1, xml => by
    simp only [expSum]
    split
    · exact Nat.le_refl _
    · rename_i k run hfind
      have h1 := evSum_le wt wt' h run.events
      have h2 := sum_map_le (expSum wt main env f) (expSum wt' main env f)
        (queries main xml (subOf main env f) run.events {}) (fun d _ => expSum_le wt wt' h main env f d)
      omega

theorem expSum_evSize1 (main : List Lang) (env : List (Bytes × ExpatRun)) :
    ∀ (f : Nat) (xml : Bytes), expSum evSize1 main env f xml = expSize main env f xml
  | 0, _ => rfl
  | f + 1, xml => by
    have : expSum evSize1 main env f = expSize main env f := funext (expSum_evSize1 main env f)
    simp only [expSum, expSize, evSum_evSize1, this]
    cases List.find? (fun p => p.fst == xml) env with
    | none => rfl
    | some p => rfl

theorem startW_le (e : XEvent) : startW e ≤ evSize1 e := by
  cases e <;> simp only [startW, evSize1] <;> omega

theorem expStarts_le_expSize (main : List Lang) (env : List (Bytes × ExpatRun)) (f : Nat) (xml : Bytes) :
    expStarts main env f xml ≤ expSize main env f xml := by
  rw [← expSum_evSize1]
  exact expSum_le startW evSize1 startW_le main env f xml

/-- **Element nesting ≤ number of start-element events** (of the run and of the runs of the embedded
    documents it re-parses). -/
theorem treeOfXml_eltDepth (main : List Lang) (env : List (Bytes × ExpatRun)) :
    ∀ (f : Nat) (xml : Bytes) (t : Tree), treeOfXml main env f xml = .ok t →
      t.eltDepth ≤ expStarts main env f xml
  | 0, xml, t, h => by rw [treeOfXml] at h; cases h
  | f + 1, xml, t, h => by
    rw [treeOfXml_succ] at h
    split at h
    · cases h
    · split at h
      · cases h
      · rename_i k run hfind
        simp only at h
        split at h
        · split at h <;> cases h
        · split at h
          · cases h
          · split at h
            · cases h
            · injection h with h
              subst h
              have hsub : SubDepth (subOf main env f) (expStarts main env f) := by
                intro doc t' ht'
                have : treeOfXml main env f doc = .ok t' := by
                  unfold subOf at ht'
                  cases hr : treeOfXml main env f doc with
                  | ok t'' => rw [hr] at ht'; injection ht' with ht'; injection ht' with ht'; rw [ht']
                  | err e => rw [hr] at ht'; injection ht' with ht'; cases ht'
                  | need d => rw [hr] at ht'; cases ht'
                exact treeOfXml_eltDepth main env f doc t' this
              have hfold := fold_hgt main xml hsub run.events {}
              have h0 : stHgt ({} : XBState) = 0 := rfl
              simp only [expStarts, expSum, hfind]
              simp only [expStarts] at hfold
              generalize (List.foldl (xbuildStep main xml (subOf main env f)) {} run.events) = bf at hfold ⊢
              have hroot : Tree.eltDepth { lang := bf.lang, origCharset := bf.charset, root := bf.root } ≤ stHgt bf := by
                simp only [Tree.eltDepth, stHgt]
                cases bf.root with
                | none => simp only [Node.eltDepth, rootDepth]; omega
                | some r => simp only [Node.eltDepth, rootDepth]; omega
              omega

end Wbxml.Lemmas.X2W
