/-
  WBXML encoder proofs: value elements (`wbxml_encode_value_element_buffer/_list`).

  * every pass of the splitting loops keeps the pieces inside their classes (`VOk`): strings stay
    NUL-free, value tokens are rows of the language's value table, extension tokens rows of its
    extension table, table references are offsets of string-table entries;
  * `emitVElts` writes the serialisation of a list of grammar items (content context) or of
    attribute value pieces (attribute context), with `SWITCH_PAGE` exactly when the attribute page
    changes.
-/
import Wbxml.Lemmas.EncWSpec
import Wbxml.Lemmas.EncWBasic
namespace Wbxml.Lemmas.EncW
open Wbxml Wbxml.Model Wbxml.Spec Wbxml.Lemmas.ParseSer
open Wbxml.Model.Codec (mbEncode)

/-! ### NUL-free strings -/

theorem nulFree_take (s : Bytes) (i : Nat) (h : nulFree s = true) : nulFree (s.take i) = true := by
  simp only [nulFree, List.all_eq_true] at h ⊢
  intro b hb; exact h b (List.mem_of_mem_take hb)

theorem nulFree_drop (s : Bytes) (i : Nat) (h : nulFree s = true) : nulFree (s.drop i) = true := by
  simp only [nulFree, List.all_eq_true] at h ⊢
  intro b hb; exact h b (List.mem_of_mem_drop hb)

theorem nulFree_nil : nulFree [] = true := rfl

theorem mem_takeWhile_sat {α} (p : α → Bool) (l : List α) (b : α) (h : b ∈ l.takeWhile p) : p b = true := by
  induction l with
  | nil => cases h
  | cons x xs ih =>
    rw [List.takeWhile_cons] at h
    split at h
    · rcases List.mem_cons.mp h with rfl | h
      · assumption
      · exact ih h
    · cases h

theorem nulFree_cstrOf (s : Bytes) : nulFree (cstrOf s) = true := by
  unfold cstrOf
  rw [cstrLen_take]
  simp only [nulFree, List.all_eq_true]
  intro b hb
  exact mem_takeWhile_sat (fun x => x != 0) s b hb

theorem ptrAdd_ok {what : String} {s : Bytes} {n : Nat} {r : Bytes} (h : ptrAdd what s n = .ok r) : r = s.drop n := by
  unfold ptrAdd at h
  split at h
  · injection h with h; exact h.symm
  · cases h

/-! ### Classes of value elements -/

/-- What a value element may be: a NUL-free string, a row of the language's extension / attribute
    value table, the offset of an entry of the string table `tbl`. -/
def VOk (c : WCfg) (tbl : List StrEntry) : VElt → Prop
  | .str s => nulFree s = true
  | .ext r => ∃ exts, c.lang.exts = some exts ∧ r ∈ exts
  | .tok r => ∃ vals, c.lang.values = some vals ∧ r ∈ vals
  | .ref off => ∃ e ∈ tbl, e.offset = off

def notTok : VElt → Prop
  | .tok _ => False
  | _ => True

def notExt : VElt → Prop
  | .ext _ => False
  | _ => True

/-- A property of value elements that cutting a string keeps. -/
def CutStable (P : VElt → Prop) : Prop := ∀ s i, P (.str s) → P (.str (s.take i)) ∧ P (.str (s.drop i))

theorem vok_cut (c : WCfg) (tbl) : CutStable (VOk c tbl) :=
  fun s i h => ⟨nulFree_take s i h, nulFree_drop s i h⟩
theorem notTok_cut : CutStable notTok := fun _ _ _ => ⟨trivial, trivial⟩
theorem notExt_cut : CutStable notExt := fun _ _ _ => ⟨trivial, trivial⟩

/-- One pass of the splitting loop keeps every element inside `P`. -/
theorem splitPass_all (P : VElt → Prop) (hcut : CutStable P) (needle : Bytes) (mk : VElt) (hmk : P mk) :
    ∀ (f : Nat) (done rest out : List VElt), (∀ e ∈ done, P e) → (∀ e ∈ rest, P e) →
      splitPass needle mk f done rest = .ok out → ∀ e ∈ out, P e := by
  intro f
  induction f with
  | zero => intro done rest out _ _ h; simp [splitPass] at h
  | succ f ih =>
    intro done rest out hd hr h
    cases rest with
    | nil =>
      simp only [splitPass] at h
      injection h with h; subst h; exact hd
    | cons e rest =>
      have he : P e := hr e (List.mem_cons_self)
      have hr' : ∀ x ∈ rest, P x := fun x hx => hr x (List.mem_cons_of_mem _ hx)
      have happ : ∀ (xs : List VElt), (∀ x ∈ xs, P x) → ∀ x ∈ done ++ xs, P x := by
        intro xs hxs x hx
        rcases List.mem_append.mp hx with h1 | h1
        · exact hd x h1
        · exact hxs x h1
      cases e with
      | str s =>
        simp only [splitPass] at h
        split at h
        · exact ih _ _ _ (happ [.str s] (by intro x hx; simp at hx; subst hx; exact he)) hr' h
        · rename_i idx _
          have hdone : ∀ x ∈ done ++ [VElt.str (s.take idx), mk], P x := by
            apply happ
            intro x hx
            simp only [List.mem_cons, List.mem_nil_iff, or_false] at hx
            rcases hx with rfl | rfl
            · exact (hcut s idx he).1
            · exact hmk
          split at h
          · cases hp : ptrAdd "value element remainder" s (idx + needle.length) with
            | error e => rw [hp] at h; cases h
            | ok tail =>
              rw [hp] at h
              have ht := ptrAdd_ok hp
              refine ih _ _ _ hdone ?_ h
              intro x hx
              rcases List.mem_cons.mp hx with rfl | hx
              · rw [ht]; exact (hcut s _ he).2
              · exact hr' x hx
          · exact ih _ _ _ hdone hr' h
      | ext r =>
        simp only [splitPass] at h
        exact ih _ _ _ (happ [.ext r] (by intro x hx; simp at hx; subst hx; exact he)) hr' h
      | tok r =>
        simp only [splitPass] at h
        exact ih _ _ _ (happ [.tok r] (by intro x hx; simp at hx; subst hx; exact he)) hr' h
      | ref o =>
        simp only [splitPass] at h
        exact ih _ _ _ (happ [.ref o] (by intro x hx; simp at hx; subst hx; exact he)) hr' h

theorem splitByValues_all (P : VElt → Prop) (hcut : CutStable P) :
    ∀ (rows : List ValRow), (∀ r ∈ rows, P (.tok r)) → ∀ (l out : List VElt), (∀ e ∈ l, P e) →
      splitByValues rows l = .ok out → ∀ e ∈ out, P e := by
  intro rows
  induction rows with
  | nil => intro _ l out hl h; simp only [splitByValues] at h; injection h with h; subst h; exact hl
  | cons r rs ih =>
    intro hrows l out hl h
    simp only [splitByValues] at h
    cases hp : splitPass r.name (.tok r) (splitFuel l) [] l with
    | error e => rw [hp] at h; cases h
    | ok l1 =>
      rw [hp] at h
      have h1 := splitPass_all P hcut r.name (.tok r) (hrows r List.mem_cons_self) _ [] l l1
        (by intro e he; cases he) hl hp
      exact ih (fun x hx => hrows x (List.mem_cons_of_mem _ hx)) l1 out h1 h

theorem splitByStrtbl_all (P : VElt → Prop) (hcut : CutStable P) :
    ∀ (es : List StrEntry), (∀ e ∈ es, P (.ref e.offset)) → ∀ (l out : List VElt), (∀ e ∈ l, P e) →
      splitByStrtbl es l = .ok out → ∀ e ∈ out, P e := by
  intro es
  induction es with
  | nil => intro _ l out hl h; simp only [splitByStrtbl] at h; injection h with h; subst h; exact hl
  | cons r rs ih =>
    intro hrows l out hl h
    simp only [splitByStrtbl] at h
    cases hp : splitPass r.str (.ref r.offset) (splitFuel l) [] l with
    | error e => rw [hp] at h; cases h
    | ok l1 =>
      rw [hp] at h
      have h1 := splitPass_all P hcut r.str (.ref r.offset) (hrows r List.mem_cons_self) _ [] l l1
        (by intro e he; cases he) hl hp
      exact ih (fun x hx => hrows x (List.mem_cons_of_mem _ hx)) l1 out h1 h

theorem extPass_all (P : VElt → Prop) (hnil : P (.str [])) (r : ExtRow) (hr : P (.ext r)) (l : List VElt)
    (hl : ∀ e ∈ l, P e) : ∀ e ∈ extPass r l, P e := by
  intro e he
  unfold extPass at he
  rw [List.mem_flatMap] at he
  obtain ⟨x, hx, hex⟩ := he
  cases x with
  | str s =>
    simp only at hex
    split at hex
    · simp only [List.mem_cons, List.mem_nil_iff, or_false] at hex
      rcases hex with rfl | rfl
      · exact hnil
      · exact hr
    · simp only [List.mem_cons, List.mem_nil_iff, or_false] at hex
      subst hex; exact hl _ hx
  | ext r' => simp only [List.mem_cons, List.mem_nil_iff, or_false] at hex; subst hex; exact hl _ hx
  | tok r' => simp only [List.mem_cons, List.mem_nil_iff, or_false] at hex; subst hex; exact hl _ hx
  | ref o => simp only [List.mem_cons, List.mem_nil_iff, or_false] at hex; subst hex; exact hl _ hx

theorem splitByExts_all (P : VElt → Prop) (hnil : P (.str [])) :
    ∀ (exts : List ExtRow), (∀ r ∈ exts, P (.ext r)) → ∀ (l : List VElt), (∀ e ∈ l, P e) →
      ∀ e ∈ splitByExts exts l, P e := by
  intro exts
  induction exts with
  | nil => intro _ l hl; exact hl
  | cons r rs ih =>
    intro hrows l hl
    unfold splitByExts
    simp only [List.foldl_cons]
    exact ih (fun x hx => hrows x (List.mem_cons_of_mem _ hx)) _
      (extPass_all P hnil r (hrows r List.mem_cons_self) l hl)

/-! ### `emitVElts`: what does not change -/

theorem attrTokenW_frame (token page : Nat) (st : WSt) :
    (attrTokenW token page st).tagPage = st.tagPage ∧ (attrTokenW token page st).strtbl = st.strtbl ∧
    (attrTokenW token page st).strtblLen = st.strtblLen := by
  unfold attrTokenW
  split <;> exact ⟨rfl, rfl, rfl⟩

/-- `SWITCH_PAGE` in front of a token of page `p` when the page in force is `cur`. -/
def swFor (cur p : Nat) : Option Nat := if cur != p % 256 then some (p % 256) else none

theorem swPage_swFor (cur p : Nat) : swPage (swFor cur p) cur = p % 256 := by
  unfold swFor swPage
  split
  · rfl
  · rename_i h; simp only [bne_iff_ne, ne_eq, Decidable.not_not] at h; simpa using h

theorem wfSw_swFor (cur p : Nat) : wfSw (swFor cur p) = true := by
  unfold swFor; split
  · simp only [wfSw, decide_eq_true_eq]; omega
  · rfl

theorem byte_mod (p : Nat) : byte (p % 256) = UInt8.ofNat p := by
  unfold byte
  apply UInt8.toNat_inj.mp
  simp [UInt8.toNat_ofNat']

/-- `wbxml_encode_attr_token`: `SWITCH_PAGE p` exactly when the attribute page changes, then the
    token; afterwards the tracked attribute page is the token's page. -/
theorem attrTokenW_out (token page : Nat) (st : WSt) :
    (attrTokenW token page st).out = st.out ++ (serSw (swFor st.attrPage page) ++ [UInt8.ofNat token]) ∧
    (attrTokenW token page st).attrPage = page % 256 := by
  unfold attrTokenW swFor
  by_cases h : (st.attrPage != page % 256) = true
  · simp only [h, ↓reduceIte, emit_out, serSw, byte_mod, List.append_assoc, emit_attrPage]
    exact ⟨by simp, trivial⟩
  · simp only [h, Bool.false_eq_true, ↓reduceIte, emit_out, serSw, List.nil_append, emit_attrPage, true_and]
    simp only [bne_iff_ne, ne_eq, Decidable.not_not] at h
    exact h

theorem emitVElt_frame (st : WSt) (e : VElt) :
    (emitVElt st e).tagPage = st.tagPage ∧ (emitVElt st e).strtbl = st.strtbl ∧
    (emitVElt st e).strtblLen = st.strtblLen := by
  cases e with
  | str s => simp only [emitVElt]; split <;> exact ⟨rfl, rfl, rfl⟩
  | ext r => exact ⟨rfl, rfl, rfl⟩
  | ref o => exact ⟨rfl, rfl, rfl⟩
  | tok r => exact attrTokenW_frame _ _ _

theorem emitVElts_frame (l : List VElt) (st : WSt) :
    (emitVElts st l).tagPage = st.tagPage ∧ (emitVElts st l).strtbl = st.strtbl ∧
    (emitVElts st l).strtblLen = st.strtblLen := by
  induction l generalizing st with
  | nil => exact ⟨rfl, rfl, rfl⟩
  | cons e es ih =>
    have h1 := emitVElt_frame st e
    have h2 := ih (emitVElt st e)
    simp only [emitVElts, List.foldl_cons] at h2 ⊢
    exact ⟨h2.1.trans h1.1, h2.2.1.trans h1.2.1, h2.2.2.trans h1.2.2⟩

/-! ### Content context -/

/-- The content item a value element is written as. -/
def itemsOfVElt : VElt → List Item
  | .str s => if s.length > 0 then [.str (.inl s)] else []
  | .ref off => [.str (.tbl off)]
  | .ext r => [.ext none (.tbl 0 (r.token % 256))]
  | .tok _ => []

theorem serItem_strInl (s : Bytes) : serItem (.str (.inl s)) = inlineW s := by rw [serItem_str]; rfl
theorem serItem_strTbl (off : Nat) : serItem (.str (.tbl off)) = tablerefW off := by rw [serItem_str]; rfl
theorem serItem_extT0 (v : Nat) : serItem (.ext none (.tbl 0 v)) = 0x80 :: mbEncode v := by
  rw [serItem_ext]; rfl
theorem serItem_opq (d : Bytes) : serItem (.opaque d) = opaqueW d := by rw [serItem_opaque]; rfl

theorem emitVElt_content (st : WSt) (e : VElt) (h : notTok e) :
    emitVElt st e = st.emit (serItems (itemsOfVElt e)) := by
  cases e with
  | str s =>
    simp only [emitVElt, itemsOfVElt]
    split
    · rw [serItems_cons, serItems_nil, serItem_strInl, List.append_nil]
    · rw [serItems_nil, emit_nil]
  | ext r => simp only [emitVElt, itemsOfVElt, serItems_cons, serItems_nil, serItem_extT0, List.append_nil]; rfl
  | ref o => simp only [emitVElt, itemsOfVElt, serItems_cons, serItems_nil, serItem_strTbl, List.append_nil]
  | tok r => exact absurd h (by simp [notTok])

theorem emitVElts_content (l : List VElt) (h : ∀ e ∈ l, notTok e) (st : WSt) :
    emitVElts st l = st.emit (serItems (l.flatMap itemsOfVElt)) := by
  induction l generalizing st with
  | nil => simp [emitVElts, serItems_nil, emit_nil]
  | cons e es ih =>
    have := ih (fun x hx => h x (List.mem_cons_of_mem _ hx)) (emitVElt st e)
    simp only [emitVElts, List.foldl_cons] at this ⊢
    rw [this, emitVElt_content st e (h e List.mem_cons_self), emit_emit, List.flatMap_cons, serItems_append]

/-- Content items that are not elements: inline string, table reference, Wireless-Village
    extension token, opaque data. -/
inductive Leaf (c : WCfg) (tbl : List StrEntry) : Item → Prop
  | inl (s : Bytes) : nulFree s = true → Leaf c tbl (.str (.inl s))
  | ref (off : Nat) : (∃ e ∈ tbl, e.offset = off) → Leaf c tbl (.str (.tbl off))
  | ext (v : Nat) : c.lang.exts.isSome = true → v < 256 → Leaf c tbl (.ext none (.tbl 0 v))
  | opq (d : Bytes) : Leaf c tbl (.opaque d)

theorem Leaf.mono {c : WCfg} {tbl tbl' : List StrEntry} (hp : tbl <+: tbl') {it : Item} (h : Leaf c tbl it) :
    Leaf c tbl' it := by
  cases h with
  | inl s hs => exact .inl s hs
  | ref off ho => obtain ⟨e, he, ho⟩ := ho; exact .ref off ⟨e, hp.subset he, ho⟩
  | ext v h1 h2 => exact .ext v h1 h2
  | opq d => exact .opq d

theorem itemsOfVElt_leaf (c : WCfg) (tbl) (e : VElt) (h : VOk c tbl e) : ∀ it ∈ itemsOfVElt e, Leaf c tbl it := by
  intro it hit
  cases e with
  | str s =>
    simp only [itemsOfVElt] at hit
    split at hit
    · simp only [List.mem_cons, List.mem_nil_iff, or_false] at hit; subst hit; exact .inl s h
    · cases hit
  | ext r =>
    simp only [itemsOfVElt, List.mem_cons, List.mem_nil_iff, or_false] at hit; subst hit
    obtain ⟨exts, he, _⟩ := h
    exact .ext _ (by simp [he]) (Nat.mod_lt _ (by decide))
  | ref o =>
    simp only [itemsOfVElt, List.mem_cons, List.mem_nil_iff, or_false] at hit; subst hit
    exact .ref o h
  | tok r => cases hit

theorem flatMap_itemsOfVElt_leaf (c : WCfg) (tbl) (l : List VElt) (h : ∀ e ∈ l, VOk c tbl e) :
    ∀ it ∈ l.flatMap itemsOfVElt, Leaf c tbl it := by
  intro it hit
  rw [List.mem_flatMap] at hit
  obtain ⟨e, he, hit⟩ := hit
  exact itemsOfVElt_leaf c tbl e (h e he) it hit

/-- Leaves leave both code pages alone. -/
theorem leaf_page (c : WCfg) (tbl) (ctx : Ctx) (own) (pg : Pages) (it : Item) (h : Leaf c tbl it) :
    (evItem ctx own pg it).2 = pg := by
  cases h with
  | inl s _ => rw [evItem_str]
  | ref off _ => rw [evItem_str]
  | ext v _ _ => rw [evItem_ext]; rfl
  | opq d => rw [evItem_opaque]

theorem leaves_page (c : WCfg) (tbl) (ctx : Ctx) (own) (pg : Pages) (items : List Item)
    (h : ∀ it ∈ items, Leaf c tbl it) : (evItems ctx own pg items).2 = pg := by
  induction items with
  | nil => rw [evItems_nil]
  | cons it rest ih =>
    rw [evItems_cons]
    simp only
    rw [leaf_page c tbl ctx own pg it (h it List.mem_cons_self)]
    exact ih (fun x hx => h x (List.mem_cons_of_mem _ hx))

theorem leaves_refs (c : WCfg) (tbl) (items : List Item) (h : ∀ it ∈ items, Leaf c tbl it) :
    ∀ off ∈ refsItems items, ∃ e ∈ tbl, e.offset = off := by
  induction items with
  | nil => intro off ho; rw [refsItems_nil] at ho; cases ho
  | cons it rest ih =>
    intro off ho
    rw [refsItems_cons, List.mem_append] at ho
    rcases ho with ho | ho
    · cases h it List.mem_cons_self with
      | inl s _ => rw [refsItem_str] at ho; cases ho
      | ref o hoo =>
        rw [refsItem_str] at ho
        simp only [refsStr, List.mem_cons, List.mem_nil_iff, or_false] at ho
        subst ho; exact hoo
      | ext v _ _ => rw [refsItem_ext] at ho; cases ho
      | opq d => rw [refsItem_opaque] at ho; cases ho
    · exact ih (fun x hx => h x (List.mem_cons_of_mem _ hx)) off ho

theorem leaves_slotEnd (c : WCfg) (tbl) (slot) (items : List Item) (h : ∀ it ∈ items, Leaf c tbl it) :
    slotEnd slot items = slot := by
  induction items with
  | nil => rfl
  | cons it rest ih =>
    simp only [slotEnd]
    have : slotAfter slot it = slot := by
      cases h it List.mem_cons_self <;> rfl
    rw [this]
    exact ih (fun x hx => h x (List.mem_cons_of_mem _ hx))

/-! ### Attribute context -/

/-- The attribute value pieces a value element is written as, and the attribute page after it. -/
def avalsOfVElt (ap : Nat) : VElt → List AVal × Nat
  | .str s => (if s.length > 0 then [.str (.inl s)] else [], ap)
  | .ref off => ([.str (.tbl off)], ap)
  | .tok r => ([.tok (swFor ap r.page) r.token], r.page % 256)
  | .ext _ => ([], ap)

def avalsOf (ap : Nat) : List VElt → List AVal × Nat
  | [] => ([], ap)
  | e :: es => ((avalsOfVElt ap e).1 ++ (avalsOf (avalsOfVElt ap e).2 es).1, (avalsOf (avalsOfVElt ap e).2 es).2)

theorem emitVElt_attr (st : WSt) (e : VElt) (h : notExt e) :
    (emitVElt st e).out = st.out ++ serAVals (avalsOfVElt st.attrPage e).1 ∧
    (emitVElt st e).attrPage = (avalsOfVElt st.attrPage e).2 := by
  cases e with
  | str s =>
    simp only [emitVElt, avalsOfVElt]
    split
    · exact ⟨by simp [serAVals, serAVal, serStr, inlineW], rfl⟩
    · exact ⟨by simp [serAVals], rfl⟩
  | ext r => exact absurd h (by simp [notExt])
  | ref o => exact ⟨by simp [emitVElt, avalsOfVElt, serAVals, serAVal, serStr, tablerefW], rfl⟩
  | tok r =>
    have := attrTokenW_out r.token r.page st
    simp only [emitVElt, avalsOfVElt, serAVals, serAVal, List.append_nil]
    exact ⟨this.1, this.2⟩

theorem emitVElts_attr (l : List VElt) (h : ∀ e ∈ l, notExt e) (st : WSt) :
    (emitVElts st l).out = st.out ++ serAVals (avalsOf st.attrPage l).1 ∧
    (emitVElts st l).attrPage = (avalsOf st.attrPage l).2 := by
  induction l generalizing st with
  | nil => exact ⟨by simp [emitVElts, avalsOf, serAVals], rfl⟩
  | cons e es ih =>
    have h1 := emitVElt_attr st e (h e List.mem_cons_self)
    have h2 := ih (fun x hx => h x (List.mem_cons_of_mem _ hx)) (emitVElt st e)
    simp only [emitVElts, List.foldl_cons] at h2 ⊢
    rw [h1.2] at h2
    refine ⟨?_, h2.2⟩
    rw [h2.1, h1.1, avalsOf, serAVals_append, List.append_assoc]

/-- The reader's attribute page after the pieces is the tracked one. -/
theorem avalsOf_page (ctx : Ctx) (l : List VElt) (ap : Nat) :
    (avalsText ctx ap (avalsOf ap l).1).2 = (avalsOf ap l).2 := by
  induction l generalizing ap with
  | nil => rfl
  | cons e es ih =>
    rw [avalsOf]
    simp only
    rw [avalsText_append_page]
    have : (avalsText ctx ap (avalsOfVElt ap e).1).2 = (avalsOfVElt ap e).2 := by
      cases e with
      | str s => simp only [avalsOfVElt]; split <;> rfl
      | ext r => rfl
      | ref o => rfl
      | tok r =>
        simp only [avalsOfVElt, avalsText, avalText]
        exact swPage_swFor ap r.page
    rw [this]
    exact ih _

theorem avalsOf_refs (c : WCfg) (tbl) (l : List VElt) (h : ∀ e ∈ l, VOk c tbl e) (ap : Nat) :
    ∀ off ∈ refsAVals (avalsOf ap l).1, ∃ e ∈ tbl, e.offset = off := by
  induction l generalizing ap with
  | nil => intro off ho; cases ho
  | cons e es ih =>
    intro off ho
    rw [avalsOf] at ho
    simp only [refsAVals_append, List.mem_append] at ho
    rcases ho with ho | ho
    · cases e with
      | str s =>
        simp only [avalsOfVElt] at ho
        split at ho
        · simp [refsAVals, refsAVal, refsStr] at ho
        · cases ho
      | ext r => cases ho
      | ref o =>
        simp only [avalsOfVElt, refsAVals, refsAVal, refsStr, List.append_nil, List.mem_cons,
          List.mem_nil_iff, or_false] at ho
        subst ho; exact h _ List.mem_cons_self
      | tok r => simp [avalsOfVElt, refsAVals, refsAVal] at ho
    · exact ih (fun x hx => h x (List.mem_cons_of_mem _ hx)) _ off ho

theorem avalsOf_opqs (l : List VElt) (ap : Nat) : opqsAVals (avalsOf ap l).1 = [] := by
  induction l generalizing ap with
  | nil => rfl
  | cons e es ih =>
    rw [avalsOf]
    simp only [opqsAVals_append, ih, List.append_nil]
    cases e with
    | str s => simp only [avalsOfVElt]; split <;> rfl
    | ext r => rfl
    | ref o => rfl
    | tok r => rfl

end Wbxml.Lemmas.EncW
