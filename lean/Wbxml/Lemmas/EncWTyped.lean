/-
  WBXML encoder proofs: the typed encoders (`Model/Typed/*`) write OPAQUE / STR_I items of the
  grammar. Their length prefix is written by a copy of the multi-byte writer that has no 32-bit
  truncation, so the payload must be shorter than 2^32 octets (it always is: WB_ULONG lengths).
-/
import Wbxml.Lemmas.EncWWf
import Wbxml.Model.Typed.WvDate
namespace Wbxml.Lemmas.EncW
open Wbxml Wbxml.Model Wbxml.Spec
open Wbxml.Model.Codec (mbEncode mbEncodeLoop)
open Wbxml.Model.Typed

theorem or80 (x : Nat) (h : x < 128) : 0x80 + x = 0x80 ||| x := by
  have := Nat.two_pow_add_eq_or_of_lt (i := 7) (b := x) (by simpa using h) 1
  simpa using this

theorem typedMbLoop_eq (k v : Nat) (acc : Bytes) : Typed.mbLoop k v acc = mbEncodeLoop k v acc := by
  induction k generalizing v acc with
  | zero => rfl
  | succ k ih =>
    simp only [Typed.mbLoop, mbEncodeLoop]
    split
    · rw [or80 _ (Nat.mod_lt _ (by decide)), ih]
    · rfl

theorem mbEnc_eq (n : Nat) (h : n < 2 ^ 32) : mbEnc n = mbEncode n := by
  unfold mbEnc mbEncode
  simp only [Nat.mod_eq_of_lt h, typedMbLoop_eq]

theorem opaqueItem_eq (p : Bytes) (h : p.length < 2 ^ 32) : opaqueItem p = serOpaque p := by
  unfold opaqueItem serOpaque mb
  rw [mbEnc_eq _ h]

theorem strItem_eq (s : Bytes) : strItem s = serStr (.inl s) := rfl

/-! ### Wireless Village integer -/

theorem beLoop_length (k v : Nat) (acc : Bytes) : (beLoop k v acc).length ≤ k + acc.length := by
  induction k generalizing v acc with
  | zero => simp [beLoop]
  | succ k ih =>
    simp only [beLoop]
    split
    · have := ih (v / 256) (UInt8.ofNat (v % 256) :: acc)
      simp only [List.length_cons] at this
      omega
    · omega

theorem encodeWvInt_shape (s : Bytes) (item : Bytes) (h : encodeWvInt s = .ok (some item)) :
    ∃ p, item = serOpaque p := by
  unfold encodeWvInt at h
  split at h
  · cases h
  · split at h
    · cases h
    · injection h with h; injection h with h
      rename_i v _ _
      refine ⟨wvIntOctets v, ?_⟩
      rw [← h, opaqueItem_eq]
      have := beLoop_length 4 v []
      unfold wvIntOctets
      simp only [List.length_nil] at this
      omega

/-! ### Wireless Village date-time -/

theorem wvPack_length (y mo d h mi s : Nat) (z : UInt8) : (wvPack y mo d h mi s z).length = 6 := by
  simp [wvPack, wvOctets]

theorem wvDateOpaque_shape (s : Bytes) (item : WvItem) (h : wvDateOpaque s = .ok item) :
    item = .inline s ∨ ∃ p, item = .opaque p ∧ p.length = 6 := by
  unfold wvDateOpaque at h
  simp only at h
  repeat' (split at h)
  all_goals first
    | (cases h; done)
    | (injection h with h; exact Or.inl h.symm)
    | (injection h with h; exact Or.inr ⟨_, h.symm, wvPack_length ..⟩)

theorem encodeWvDate_shape (s : Bytes) (item : WvItem) (h : encodeWvDate s = .ok item) :
    item.bytes = serStr (.inl s) ∨ ∃ p, item.bytes = serOpaque p := by
  unfold encodeWvDate at h
  split at h
  · cases h
  · split at h
    · injection h with h; subst h; exact Or.inl rfl
    · rcases wvDateOpaque_shape s item h with rfl | ⟨p, rfl, hp⟩
      · exact Or.inl rfl
      · refine Or.inr ⟨p, ?_⟩
        simp only [WvItem.bytes]
        rw [opaqueItem_eq]; omega

/-! ### `%Datetime` -/

theorem dtFilter_length (s d : Bytes) (h : dtFilter s = .ok d) : d.length ≤ s.length := by
  induction s generalizing d with
  | nil => simp only [dtFilter] at h; injection h with h; subst h; simp
  | cons c cs ih =>
    simp only [dtFilter] at h
    split at h
    · cases hr : dtFilter cs with
      | error e => rw [hr] at h; cases h
      | ok d' =>
        rw [hr] at h
        injection h with h; subst h
        have := ih d' hr
        simp only [List.length_cons]; omega
    · split at h
      · have := ih d h
        simp only [List.length_cons]; omega
      · cases h

theorem hexPairs_length : ∀ (d : Bytes), (hexPairs d).length ≤ d.length
  | [] => by simp [hexPairs]
  | [_] => by simp [hexPairs]
  | _ :: _ :: rest => by
    have := hexPairs_length rest
    simp only [hexPairs, List.length_cons]; omega

theorem stripZeros_length (bs : Bytes) : (stripZeros bs).length ≤ bs.length := by
  unfold stripZeros
  rw [List.length_reverse]
  have := (List.dropWhile_sublist (fun x : UInt8 => x == 0) (l := bs.reverse)).length_le
  rw [List.length_reverse] at this
  exact this

theorem encodeDatetime_shape (s item : Bytes) (hs : s.length < 2 ^ 32) (h : encodeDatetime s = .ok item) :
    ∃ p, item = serOpaque p := by
  unfold encodeDatetime datetimePayload at h
  cases hd : dtFilter s with
  | error e => rw [hd] at h; cases h
  | ok d =>
    rw [hd] at h
    injection h with h
    refine ⟨stripZeros (hexPairs d), ?_⟩
    rw [← h]
    show opaqueItem (stripZeros (hexPairs d)) = _
    rw [opaqueItem_eq]
    have h1 := dtFilter_length s d hd
    have h2 := hexPairs_length d
    have h3 := stripZeros_length (hexPairs d)
    omega

end Wbxml.Lemmas.EncW
