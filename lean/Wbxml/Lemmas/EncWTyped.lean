/-
  WBXML encoder proofs: the typed encoders (`Model/Typed/*`) write OPAQUE / STR_I items of the
  grammar. Their length prefix is written by a copy of the multi-byte writer that has no 32-bit
  truncation, so the payload must be shorter than 2^32 octets (it always is: WB_ULONG lengths).
-/
import Wbxml.Lemmas.EncWWf
import Wbxml.Model.Typed.WvDate
import Wbxml.Lemmas.TypedBinary
namespace Wbxml.Lemmas.EncW
open Wbxml Wbxml.Model Wbxml.Spec
open Wbxml.Model.Codec (mbEncode mbEncodeLoop b64DecodeE b64DecodeLoop b64Scan b64Decode)
open Wbxml.Model.Typed

theorem or80 (x : Nat) (h : x < 128) : 0x80 + x = 0x80 ||| x := by
  have := Nat.two_pow_add_eq_or_of_lt (i := 7) (b := x) (by simpa using h) 1
  simpa using this

theorem typedMbLoop_eq (k v : Nat) (acc : Bytes) : Typed.mbLoop k v acc = mbEncodeLoop k v acc := by
  induction k generalizing v acc with
  | zero => rfl
  | succ k ih =>
    simp only [Typed.mbLoop, mbEncodeLoop]
    split
    · rw [or80 _ (Nat.mod_lt _ (by decide)), ih]
    · rfl

theorem mbEnc_eq (n : Nat) (h : n < 2 ^ 32) : mbEnc n = mbEncode n := by
  unfold mbEnc mbEncode
  simp only [Nat.mod_eq_of_lt h, typedMbLoop_eq]

theorem opaqueItem_eq (p : Bytes) (h : p.length < 2 ^ 32) : opaqueItem p = serOpaque p := by
  unfold opaqueItem serOpaque mb
  rw [mbEnc_eq _ h]

theorem strItem_eq (s : Bytes) : strItem s = serStr (.inl s) := rfl

/-! ### Wireless Village integer -/

theorem beLoop_length (k v : Nat) (acc : Bytes) : (beLoop k v acc).length ≤ k + acc.length := by
  induction k generalizing v acc with
  | zero => simp [beLoop]
  | succ k ih =>
    simp only [beLoop]
    split
    · have := ih (v / 256) (UInt8.ofNat (v % 256) :: acc)
      simp only [List.length_cons] at this
      omega
    · omega

theorem encodeWvInt_shape (s : Bytes) (item : Bytes) (h : encodeWvInt s = .ok (some item)) :
    ∃ p, item = serOpaque p := by
  unfold encodeWvInt at h
  split at h
  · cases h
  · split at h
    · cases h
    · injection h with h; injection h with h
      rename_i v _ _
      refine ⟨wvIntOctets v, ?_⟩
      rw [← h, opaqueItem_eq]
      have := beLoop_length 4 v []
      unfold wvIntOctets
      simp only [List.length_nil] at this
      omega

/-! ### Wireless Village date-time -/

theorem wvPack_length (y mo d h mi s : Nat) (z : UInt8) : (wvPack y mo d h mi s z).length = 6 := by
  simp [wvPack, wvOctets]

theorem wvDateOpaque_shape (s : Bytes) (item : WvItem) (h : wvDateOpaque s = .ok item) :
    item = .inline s ∨ ∃ p, item = .opaque p ∧ p.length = 6 := by
  unfold wvDateOpaque at h
  simp only at h
  repeat' (split at h)
  all_goals first
    | (cases h; done)
    | (injection h with h; exact Or.inl h.symm)
    | (injection h with h; exact Or.inr ⟨_, h.symm, wvPack_length ..⟩)

theorem encodeWvDate_shape (s : Bytes) (item : WvItem) (h : encodeWvDate s = .ok item) :
    item.bytes = serStr (.inl s) ∨ ∃ p, item.bytes = serOpaque p := by
  unfold encodeWvDate at h
  split at h
  · cases h
  · split at h
    · injection h with h; subst h; exact Or.inl rfl
    · rcases wvDateOpaque_shape s item h with rfl | ⟨p, rfl, hp⟩
      · exact Or.inl rfl
      · refine Or.inr ⟨p, ?_⟩
        simp only [WvItem.bytes]
        rw [opaqueItem_eq]; omega

/-! ### `%Datetime` -/

theorem dtFilter_length (s d : Bytes) (h : dtFilter s = .ok d) : d.length ≤ s.length := by
  induction s generalizing d with
  | nil => simp only [dtFilter] at h; injection h with h; subst h; simp
  | cons c cs ih =>
    simp only [dtFilter] at h
    split at h
    · cases hr : dtFilter cs with
      | error e => rw [hr] at h; cases h
      | ok d' =>
        rw [hr] at h
        injection h with h; subst h
        have := ih d' hr
        simp only [List.length_cons]; omega
    · split at h
      · have := ih d h
        simp only [List.length_cons]; omega
      · cases h

theorem hexPairs_length : ∀ (d : Bytes), (hexPairs d).length ≤ d.length
  | [] => by simp [hexPairs]
  | [_] => by simp [hexPairs]
  | _ :: _ :: rest => by
    have := hexPairs_length rest
    simp only [hexPairs, List.length_cons]; omega

theorem stripZeros_length (bs : Bytes) : (stripZeros bs).length ≤ bs.length := by
  unfold stripZeros
  rw [List.length_reverse]
  have := (List.dropWhile_sublist (fun x : UInt8 => x == 0) (l := bs.reverse)).length_le
  rw [List.length_reverse] at this
  exact this

theorem encodeDatetime_shape (s item : Bytes) (hs : s.length < 2 ^ 32) (h : encodeDatetime s = .ok item) :
    ∃ p, item = serOpaque p := by
  unfold encodeDatetime datetimePayload at h
  cases hd : dtFilter s with
  | error e => rw [hd] at h; cases h
  | ok d =>
    rw [hd] at h
    injection h with h
    refine ⟨stripZeros (hexPairs d), ?_⟩
    rw [← h]
    show opaqueItem (stripZeros (hexPairs d)) = _
    rw [opaqueItem_eq]
    have h1 := dtFilter_length s d hd
    have h2 := hexPairs_length d
    have h3 := stripZeros_length (hexPairs d)
    omega

/-! ### OTA `ICON` / DRMREL `ds:KeyValue`: the encoder model and the C12 typed model agree -/

theorem isSpaceC_eq_typed (c : UInt8) : isSpaceC c = Typed.isSpace c := by
  simp [isSpaceC, Typed.isSpace, UInt8.le_iff_toNat_le]

theorem b64TextW_eq (s : Bytes) : b64TextW s = s.filter (fun c => !Typed.isSpace c) := by
  simp only [b64TextW, isSpaceC_eq_typed]

theorem b64DecodeLoop_length_le (p : Bytes) : (b64DecodeLoop p).length ≤ p.length := by
  fun_induction b64DecodeLoop p <;> simp_all <;> omega

theorem opaqueW_eq_opaqueItem (d : Bytes) (h : d.length < 2 ^ 32) : opaqueW d = opaqueItem d := by
  unfold opaqueW opaqueItem; rw [mbEnc_eq _ h]

/-- What `drmrelContentW` / `otaIconW` emit for the C string `s` is the item `base64ToOpaqueStrip s`
    the C12 theorems (`base64_strip_roundtrip` …) speak about. -/
theorem b64Opaque_typed (s : Bytes) (hs : s.length < 2 ^ 32) :
    ∃ d, b64DecodeE (b64TextW s) = .ok d ∧ opaqueW d = base64ToOpaqueStrip s := by
  rw [b64TextW_eq, Wbxml.Lemmas.Codec.b64DecodeE_eq]
  refine ⟨_, rfl, ?_⟩
  have h1 := b64DecodeLoop_length_le (b64Scan (s.filter (fun c => !Typed.isSpace c)))
  have h2 : (b64Scan (s.filter (fun c => !Typed.isSpace c))).length ≤ (s.filter (fun c => !Typed.isSpace c)).length :=
    (List.takeWhile_sublist _).length_le
  have h3 := List.length_filter_le (fun c => !Typed.isSpace c) s
  rw [opaqueW_eq_opaqueItem _ (by omega)]
  unfold base64ToOpaqueStrip b64Decode
  rw [Wbxml.Lemmas.Codec.b64DecodeE_eq]
  cases b64DecodeLoop (b64Scan (s.filter (fun c => !Typed.isSpace c))) <;> rfl

theorem drmrelContentW_typed (r : TagRow) (hr : (r.page == 0 && r.token == 0x0C) = true) (s : Bytes)
    (hs : s.length < 2 ^ 32) (st : WSt) :
    drmrelContentW (some (.token r)) s st = .ok (some (st.emit (base64ToOpaqueStrip s))) := by
  obtain ⟨d, hd, ho⟩ := b64Opaque_typed s hs
  simp only [drmrelContentW, hr, if_true, hd, ← ho]
  rfl

theorem otaIconW_typed (attrs : List Attr) (s : Bytes) (hs : s.length < 2 ^ 32) (st : WSt)
    (ht : st.curTag.isSome = true)
    (hi : attrs.any (fun a => a.name.cName == b!"NAME" && cstrOf a.value == b!"ICON") = true) :
    otaIconW (some attrs) s st = .ok (some (st.emit (base64ToOpaqueStrip s))) := by
  obtain ⟨d, hd, ho⟩ := b64Opaque_typed s hs
  cases hc : st.curTag with
  | none => rw [hc] at ht; cases ht
  | some t =>
    simp only [otaIconW, hc, hi, if_true, hd, ← ho]
    rfl

end Wbxml.Lemmas.EncW
