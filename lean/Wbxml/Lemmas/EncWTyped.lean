/-
  WBXML encoder proofs: the typed encoders (`Model/Typed/*`) write OPAQUE / STR_I items of the
  grammar. Their length prefix is written by a copy of the multi-byte writer that has no 32-bit
  truncation, so the payload must be shorter than 2^32 octets (it always is: WB_ULONG lengths).
-/
import Wbxml.Lemmas.EncWWf
import Wbxml.Model.Typed.WvDate
import Wbxml.Lemmas.TypedBinary
import Wbxml.Lemmas.ParseSerTyped
import Wbxml.Lemmas.TypedDatetime
import Wbxml.Props.C11
namespace Wbxml.Lemmas.EncW
open Wbxml Wbxml.Model Wbxml.Spec
open Wbxml.Model.Codec (mbEncode mbEncodeLoop b64DecodeE b64DecodeLoop b64Scan b64Decode)
open Wbxml.Model.Typed

theorem or80 (x : Nat) (h : x < 128) : 0x80 + x = 0x80 ||| x := by
  have := Nat.two_pow_add_eq_or_of_lt (i := 7) (b := x) (by simpa using h) 1
  simpa using this

theorem typedMbLoop_eq (k v : Nat) (acc : Bytes) : Typed.mbLoop k v acc = mbEncodeLoop k v acc := by
  induction k generalizing v acc with
  | zero => rfl
  | succ k ih =>
    simp only [Typed.mbLoop, mbEncodeLoop]
    split
    · rw [or80 _ (Nat.mod_lt _ (by decide)), ih]
    · rfl

theorem mbEnc_eq (n : Nat) (h : n < 2 ^ 32) : mbEnc n = mbEncode n := by
  unfold mbEnc mbEncode
  simp only [Nat.mod_eq_of_lt h, typedMbLoop_eq]

theorem opaqueItem_eq (p : Bytes) (h : p.length < 2 ^ 32) : opaqueItem p = serOpaque p := by
  unfold opaqueItem serOpaque mb
  rw [mbEnc_eq _ h]

theorem strItem_eq (s : Bytes) : strItem s = serStr (.inl s) := rfl

/-! ### Wireless Village integer -/

theorem beLoop_length (k v : Nat) (acc : Bytes) : (beLoop k v acc).length ≤ k + acc.length := by
  induction k generalizing v acc with
  | zero => simp [beLoop]
  | succ k ih =>
    simp only [beLoop]
    split
    · have := ih (v / 256) (UInt8.ofNat (v % 256) :: acc)
      simp only [List.length_cons] at this
      omega
    · omega

theorem encodeWvInt_shape' (s : Bytes) (item : Bytes) (h : encodeWvInt s = .ok (some item)) :
    ∃ p, item = serOpaque p ∧ p.length ≤ 4 := by
  unfold encodeWvInt at h
  split at h
  · cases h
  · split at h
    · cases h
    · injection h with h; injection h with h
      rename_i v _ _
      have := beLoop_length 4 v []
      simp only [List.length_nil] at this
      refine ⟨wvIntOctets v, ?_, this⟩
      rw [← h, opaqueItem_eq]
      unfold wvIntOctets
      omega

theorem encodeWvInt_shape (s : Bytes) (item : Bytes) (h : encodeWvInt s = .ok (some item)) :
    ∃ p, item = serOpaque p := by
  obtain ⟨p, hp, _⟩ := encodeWvInt_shape' s item h
  exact ⟨p, hp⟩

/-! ### Wireless Village date-time -/

theorem wvPack_length (y mo d h mi s : Nat) (z : UInt8) : (wvPack y mo d h mi s z).length = 6 := by
  simp [wvPack, wvOctets]

theorem wvDateOpaque_shape (s : Bytes) (item : WvItem) (h : wvDateOpaque s = .ok item) :
    item = .inline s ∨ ∃ p, item = .opaque p ∧ p.length = 6 := by
  unfold wvDateOpaque at h
  simp only at h
  repeat' (split at h)
  all_goals first
    | (cases h; done)
    | (injection h with h; exact Or.inl h.symm)
    | (injection h with h; exact Or.inr ⟨_, h.symm, wvPack_length ..⟩)

theorem encodeWvDate_shape' (s : Bytes) (item : WvItem) (h : encodeWvDate s = .ok item) :
    item.bytes = serStr (.inl s) ∨ ∃ p, item.bytes = serOpaque p ∧ p.length = 6 := by
  unfold encodeWvDate at h
  split at h
  · cases h
  · split at h
    · injection h with h; subst h; exact Or.inl rfl
    · rcases wvDateOpaque_shape s item h with rfl | ⟨p, rfl, hp⟩
      · exact Or.inl rfl
      · refine Or.inr ⟨p, ?_, hp⟩
        simp only [WvItem.bytes]
        rw [opaqueItem_eq]; omega

theorem encodeWvDate_shape (s : Bytes) (item : WvItem) (h : encodeWvDate s = .ok item) :
    item.bytes = serStr (.inl s) ∨ ∃ p, item.bytes = serOpaque p := by
  rcases encodeWvDate_shape' s item h with h | ⟨p, hp, _⟩
  · exact Or.inl h
  · exact Or.inr ⟨p, hp⟩

/-! ### `%Datetime` -/

theorem dtFilter_length (s d : Bytes) (h : dtFilter s = .ok d) : d.length ≤ s.length := by
  induction s generalizing d with
  | nil => simp only [dtFilter] at h; injection h with h; subst h; simp
  | cons c cs ih =>
    simp only [dtFilter] at h
    split at h
    · cases hr : dtFilter cs with
      | error e => rw [hr] at h; cases h
      | ok d' =>
        rw [hr] at h
        injection h with h; subst h
        have := ih d' hr
        simp only [List.length_cons]; omega
    · split at h
      · have := ih d h
        simp only [List.length_cons]; omega
      · cases h

theorem hexPairs_length : ∀ (d : Bytes), (hexPairs d).length ≤ d.length
  | [] => by simp [hexPairs]
  | [_] => by simp [hexPairs]
  | _ :: _ :: rest => by
    have := hexPairs_length rest
    simp only [hexPairs, List.length_cons]; omega

theorem stripZeros_length (bs : Bytes) : (stripZeros bs).length ≤ bs.length := by
  unfold stripZeros
  rw [List.length_reverse]
  have := (List.dropWhile_sublist (fun x : UInt8 => x == 0) (l := bs.reverse)).length_le
  rw [List.length_reverse] at this
  exact this

theorem encodeDatetime_shape' (s item : Bytes) (hs : s.length < 2 ^ 32) (h : encodeDatetime s = .ok item) :
    ∃ p, item = serOpaque p ∧ datetimePayload s = .ok p ∧ p.length < 2 ^ 32 := by
  unfold encodeDatetime at h
  cases hp : datetimePayload s with
  | error e => rw [hp] at h; cases h
  | ok p =>
    rw [hp] at h
    injection h with h
    have hlen : p.length < 2 ^ 32 := by
      unfold datetimePayload at hp
      cases hd : dtFilter s with
      | error e => rw [hd] at hp; cases hp
      | ok d =>
        rw [hd] at hp
        injection hp with hp
        have h1 := dtFilter_length s d hd
        have h2 := hexPairs_length d
        have h3 := stripZeros_length (hexPairs d)
        rw [← hp]
        show (stripZeros (hexPairs d)).length < _
        omega
    refine ⟨p, ?_, rfl, hlen⟩
    rw [← h]
    show opaqueItem p = _
    rw [opaqueItem_eq _ hlen]

theorem encodeDatetime_shape (s item : Bytes) (hs : s.length < 2 ^ 32) (h : encodeDatetime s = .ok item) :
    ∃ p, item = serOpaque p := by
  obtain ⟨p, hp, _⟩ := encodeDatetime_shape' s item hs h
  exact ⟨p, hp⟩

/-! ### OTA `ICON` / DRMREL `ds:KeyValue`: the encoder model and the C12 typed model agree -/

theorem isSpaceC_eq_typed (c : UInt8) : isSpaceC c = Typed.isSpace c := by
  simp [isSpaceC, Typed.isSpace, UInt8.le_iff_toNat_le]

theorem b64TextW_eq (s : Bytes) : b64TextW s = s.filter (fun c => !Typed.isSpace c) := by
  simp only [b64TextW, isSpaceC_eq_typed]

theorem b64DecodeLoop_length_le (p : Bytes) : (b64DecodeLoop p).length ≤ p.length := by
  fun_induction b64DecodeLoop p <;> simp_all <;> omega

theorem opaqueW_eq_opaqueItem (d : Bytes) (h : d.length < 2 ^ 32) : opaqueW d = opaqueItem d := by
  unfold opaqueW opaqueItem; rw [mbEnc_eq _ h]

/-- What `drmrelContentW` / `otaIconW` emit for the C string `s` is the item `base64ToOpaqueStrip s`
    the C12 theorems (`base64_strip_roundtrip` …) speak about. -/
theorem b64Opaque_typed (s : Bytes) (hs : s.length < 2 ^ 32) :
    ∃ d, b64DecodeE (b64TextW s) = .ok d ∧ opaqueW d = base64ToOpaqueStrip s := by
  rw [b64TextW_eq, Wbxml.Lemmas.Codec.b64DecodeE_eq]
  refine ⟨_, rfl, ?_⟩
  have h1 := b64DecodeLoop_length_le (b64Scan (s.filter (fun c => !Typed.isSpace c)))
  have h2 : (b64Scan (s.filter (fun c => !Typed.isSpace c))).length ≤ (s.filter (fun c => !Typed.isSpace c)).length :=
    (List.takeWhile_sublist _).length_le
  have h3 := List.length_filter_le (fun c => !Typed.isSpace c) s
  rw [opaqueW_eq_opaqueItem _ (by omega)]
  unfold base64ToOpaqueStrip b64Decode
  rw [Wbxml.Lemmas.Codec.b64DecodeE_eq]
  cases b64DecodeLoop (b64Scan (s.filter (fun c => !Typed.isSpace c))) <;> rfl

theorem drmrelContentW_typed (r : TagRow) (hr : (r.page == 0 && r.token == 0x0C) = true) (s : Bytes)
    (hs : s.length < 2 ^ 32) (st : WSt) :
    drmrelContentW (some (.token r)) s st = .ok (some (st.emit (base64ToOpaqueStrip s))) := by
  obtain ⟨d, hd, ho⟩ := b64Opaque_typed s hs
  simp only [drmrelContentW, hr, if_true, hd, ← ho]
  rfl

theorem otaIconW_typed (attrs : List Attr) (s : Bytes) (hs : s.length < 2 ^ 32) (st : WSt)
    (ht : st.curTag.isSome = true)
    (hi : attrs.any (fun a => a.name.cName == b!"NAME" && cstrOf a.value == b!"ICON") = true) :
    otaIconW (some attrs) s st = .ok (some (st.emit (base64ToOpaqueStrip s))) := by
  obtain ⟨d, hd, ho⟩ := b64Opaque_typed s hs
  cases hc : st.curTag with
  | none => rw [hc] at ht; cases ht
  | some t =>
    simp only [otaIconW, hc, hi, if_true, hd, ← ho]
    rfl


/-! ### Reader side: which opaques the typed decoders of the parser accept -/

/-- The tags whose opaque content the parser decodes by a typed rule (`decode_opaque_content`):
    Wireless Village integer / date-time elements, DRMREL `ds:KeyValue`, SyncML `NextNonce`. The
    rule depends on the language, the code page and the token only. -/
def typedRow (langId : Nat) (r : TagRow) : Bool :=
  (isWv langId && (wvDataType r.page r.token != WvType.string)) ||
  (langId == 1801 && r.page == 0 && r.token == 0x0C) ||
  (isSyncml langId && r.page == 1 && r.token == 0x10)

def typedOpt (langId : Nat) : Option TagRow → Bool
  | some r => typedRow langId r
  | none => false

theorem typedRow_congr (id : Nat) (r r' : TagRow) (hp : r'.page = r.page) (ht : r'.token = r.token) :
    typedRow id r' = typedRow id r := by
  simp only [typedRow, hp, ht]

theorem untyped_opt_content (id : Nat) (o : Option TagRow) (d : Bytes) (h : typedOpt id o = false) :
    decodeOpaqueContent id o d = .ok d := by
  unfold decodeOpaqueContent
  cases o with
  | none => simp only; split <;> (try split) <;> (try split) <;> rfl
  | some t =>
    simp only [typedOpt, typedRow, Bool.or_eq_false_iff, Bool.and_eq_false_iff] at h
    obtain ⟨⟨h1, h2⟩, h3⟩ := h
    by_cases hw : isWv id = true
    · simp only [hw, ↓reduceIte]
      rcases h1 with h1 | h1
      · rw [hw] at h1; cases h1
      · have : wvDataType t.page t.token = .string := by simpa using h1
        rw [this]
    · simp only [hw, Bool.false_eq_true, ↓reduceIte]
      by_cases hd : (id == 1801) = true
      · simp only [hd, ↓reduceIte]
        split
        · rename_i hh; simp_all
        · rfl
      · simp only [hd, Bool.false_eq_true, ↓reduceIte]
        by_cases hs : isSyncml id = true
        · simp only [hs, ↓reduceIte]
          split
          · rename_i hh; simp_all
          · rfl
        · simp only [hs, Bool.false_eq_true, ↓reduceIte]

theorem opaqueText_untyped (ctx : Ctx) (o : Option TagRow) (d : Bytes) (h : typedOpt ctx.lang.id o = false) :
    opaqueText ctx o d = some d := by
  simp only [opaqueText, untyped_opt_content _ o d h]

theorem beNat_lt_of_le4 : ∀ d : Bytes, d.length ≤ 4 → Lemmas.Typed.beNat d < 4294967296
  | [], _ => by decide
  | [a], _ => by have := a.toNat_lt; simp only [Lemmas.Typed.beNat, List.foldl]; omega
  | [a, b], _ => by have := a.toNat_lt; have := b.toNat_lt; simp only [Lemmas.Typed.beNat, List.foldl]; omega
  | [a, b, c], _ => by
    have := a.toNat_lt; have := b.toNat_lt; have := c.toNat_lt; simp only [Lemmas.Typed.beNat, List.foldl]; omega
  | [a, b, c, e], _ => by
    have := a.toNat_lt; have := b.toNat_lt; have := c.toNat_lt; have := e.toNat_lt
    simp only [Lemmas.Typed.beNat, List.foldl]; omega
  | _ :: _ :: _ :: _ :: _ :: _, h => by simp only [List.length_cons] at h; omega

/-- (a) An opaque of at most four octets is accepted by `decode_wv_integer`, as the decimal numeral
    of its big-endian value. -/
theorem decodeWvInteger_le4 (d : Bytes) (h : d.length ≤ 4) :
    decodeWvInteger d = .ok (natDigits (Lemmas.Typed.beNat d)) := by
  rw [Lemmas.ParseSer.decodeWvInteger_spec, if_pos (beNat_lt_of_le4 d h)]

/-- (b) Any six octets are accepted by `decode_wv_datetime`. -/
theorem decodeWvDatetime_len6 (d : Bytes) (h : d.length = 6) : ∃ b, decodeWvDatetime d = .ok b := by
  match d, h with
  | [b0, b1, b2, b3, b4, b5], _ =>
    unfold decodeWvDatetime
    simp only
    split
    · exact ⟨_, rfl⟩
    · split <;> exact ⟨_, rfl⟩

theorem binToHexUpper_length (d : Bytes) : (binToHexUpper d).length = 2 * d.length := by
  induction d with
  | nil => rfl
  | cons b bs ih =>
    simp only [binToHexUpper, List.flatMap_cons, List.length_append, List.length_cons, List.length_nil] at ih ⊢
    omega

/-- (c) `decode_datetime` accepts exactly four to seven octets. -/
theorem decodeDatetime_len (d : Bytes) (h1 : 4 ≤ d.length) (h2 : d.length ≤ 7) :
    ∃ b, Model.decodeDatetime d = .ok b := by
  unfold Model.decodeDatetime
  have hl := binToHexUpper_length d
  simp only
  rw [if_neg]
  · exact ⟨_, rfl⟩
  · simp only [hl, Bool.or_eq_true, decide_eq_true_eq, beq_iff_eq, not_or]
    omega

theorem decodeDatetime_bad (d : Bytes) (h : d.length < 4 ∨ 7 < d.length) :
    Model.decodeDatetime d = .error (.code E.badDatetime) := by
  unfold Model.decodeDatetime
  have hl := binToHexUpper_length d
  simp only
  rw [if_pos]
  simp only [hl, Bool.or_eq_true, decide_eq_true_eq, beq_iff_eq]
  omega

/-- The two `switch` ladders agree where the encoder types content: what `wbxml_encode_wv_content`
    sends as an integer / a date-time, `decode_wv_content` reads as one (the parser additionally
    knows the integers of code page 5, which the encoder sends as strings). -/
theorem wvKind_compat (p t : Nat) :
    (wvEncKind p t = .integer → wvDataType p t = .integer) ∧
    (wvEncKind p t = .dateTime → wvDataType p t = .datetime) := by
  unfold wvEncKind wvDataType
  split <;> simp only [List.mem_cons, List.mem_nil_iff, or_false, beq_iff_eq, Bool.or_eq_true] <;>
    (repeat' split) <;> simp_all <;> omega

/-! ### Bridges: the parser's typed decoders are the T-codec decoders of C12 -/

theorem baToList_loop (bs : ByteArray) (i : Nat) (r : List UInt8) (hi : i ≤ bs.size) :
    ByteArray.toList.loop bs i r = r.reverse ++ bs.data.toList.drop i := by
  have hs : bs.size = bs.data.toList.length := by rw [Array.length_toList]; rfl
  fun_induction ByteArray.toList.loop bs i r with
  | case1 i r hlt ih =>
    rw [ih (by omega)]
    have hlt' : i < bs.data.toList.length := by omega
    rw [List.drop_eq_getElem_cons hlt', List.reverse_cons, List.append_assoc]
    congr 1
    have hlt2 : i < bs.data.size := by rw [Array.length_toList] at hlt'; exact hlt'
    have : bs.get! i = bs.data.toList[i] := by
      show bs.data[i]! = _
      rw [getElem!_pos bs.data i hlt2, Array.getElem_toList]
    rw [this]; rfl
  | case2 i r hge =>
    have : bs.data.toList.length ≤ i := by omega
    rw [List.drop_eq_nil_of_le this, List.append_nil]

theorem baToList_eq (bs : ByteArray) : bs.toList = bs.data.toList := by
  unfold ByteArray.toList
  rw [baToList_loop bs 0 [] (Nat.zero_le _)]
  rfl

theorem digit_bytes : ∀ k, k < 10 →
    (String.singleton (Nat.digitChar k)).toByteArray.data.toList = [Typed.digitChar k] := by
  decide +kernel

theorem natDigits_eq_decNat (n : Nat) : natDigits n = Typed.decNat n := by
  unfold natDigits
  rw [String.toUTF8, baToList_eq]
  induction n using Nat.strongRecOn with
  | _ n ih =>
    by_cases h : n < 10
    · rw [Nat.toString_eq_repr, Nat.repr_of_lt h, Lemmas.Typed.decNat_lt h]
      exact digit_bytes n h
    · have h' : 10 ≤ n := by omega
      rw [Nat.toString_eq_repr, Nat.repr_of_ge h', String.toByteArray_append, ByteArray.toList_data_append,
        Lemmas.Typed.decNat_ge h']
      have := ih (n / 10) (by omega)
      rw [Nat.toString_eq_repr] at this
      rw [this, digit_bytes (n % 10) (Nat.mod_lt _ (by decide))]
      congr 2
      simp [Typed.digitChar]

theorem hexByte_tbl : ∀ n, n < 256 →
    [hexUpper ((UInt8.ofNat n).toNat / 16), hexUpper ((UInt8.ofNat n).toNat % 16)] =
    [Typed.hexitU (UInt8.ofNat n / 16 &&& 0xF), Typed.hexitU (UInt8.ofNat n % 16)] := by decide +kernel

theorem binToHexUpper_eq (p : Bytes) : binToHexUpper p = Typed.binToHex p := by
  induction p with
  | nil => rfl
  | cons b bs ih =>
    have hb := hexByte_tbl b.toNat b.toNat_lt
    rw [UInt8.ofNat_toNat] at hb
    simp only [binToHexUpper, List.flatMap_cons] at ih ⊢
    rw [ih, hb]
    rfl

theorem decodeDatetime_eq_typed (p : Bytes) (h1 : 4 ≤ p.length) (h2 : p.length ≤ 7) :
    Model.decodeDatetime p = Typed.decodeDatetime p := by
  unfold Model.decodeDatetime Typed.decodeDatetime Typed.decodeHex
  rw [binToHexUpper_eq]
  match p, h1, h2 with
  | [a, b, c, d], _, _ => simp [Typed.binToHex, Typed.insertAt, Model.insertAt, bind, Except.bind, pure, Except.pure]
  | [a, b, c, d, e], _, _ => simp [Typed.binToHex, Typed.insertAt, Model.insertAt, bind, Except.bind, pure, Except.pure]
  | [a, b, c, d, e, f], _, _ => simp [Typed.binToHex, Typed.insertAt, Model.insertAt, bind, Except.bind, pure, Except.pure]
  | [a, b, c, d, e, f, g], _, _ => simp [Typed.binToHex, Typed.insertAt, Model.insertAt, bind, Except.bind, pure, Except.pure]
  | [], h, _ => simp at h
  | [_], h, _ => simp at h
  | [_, _], h, _ => simp at h
  | [_, _, _], h, _ => simp at h
  | _ :: _ :: _ :: _ :: _ :: _ :: _ :: _ :: _, _, h => simp at h

theorem decNat_len1 (n : Nat) (h : n < 10) : (decNat n).length = 1 := by rw [Lemmas.Typed.decNat_lt h]; rfl
theorem decNat_len2 (n : Nat) (h1 : 10 ≤ n) (h2 : n < 100) : (decNat n).length = 2 := by
  rw [Lemmas.Typed.decNat_ge h1, List.length_append, decNat_len1 _ (by omega)]; rfl
theorem decNat_len3 (n : Nat) (h1 : 100 ≤ n) (h2 : n < 1000) : (decNat n).length = 3 := by
  rw [Lemmas.Typed.decNat_ge (by omega), List.length_append, decNat_len2 _ (by omega) (by omega)]; rfl
theorem decNat_len4 (n : Nat) (h1 : 1000 ≤ n) (h2 : n < 10000) : (decNat n).length = 4 := by
  rw [Lemmas.Typed.decNat_ge (by omega), List.length_append, decNat_len3 _ (by omega) (by omega)]; rfl

theorem pad2_eq (n : Nat) (h : n < 100) : pad2 n = padNat 2 n := by
  unfold pad2 padNat
  rw [natDigits_eq_decNat]
  by_cases h1 : n < 10
  · simp only [h1, ↓reduceIte, decNat_len1 n h1]; rfl
  · simp only [h1, ↓reduceIte, decNat_len2 n (by omega) h]; rfl

theorem pad4_eq (n : Nat) (h : n < 10000) : pad4 n = padNat 4 n := by
  unfold pad4 padNat
  rw [natDigits_eq_decNat]
  by_cases h1 : n < 10
  · simp only [h1, ↓reduceIte, decNat_len1 n h1]; rfl
  · by_cases h2 : n < 100
    · simp only [h1, h2, ↓reduceIte, decNat_len2 n (by omega) h2]; rfl
    · by_cases h3 : n < 1000
      · simp only [h1, h2, h3, ↓reduceIte, decNat_len3 n (by omega) h3]; rfl
      · simp only [h1, h2, h3, ↓reduceIte, decNat_len4 n (by omega) h]; rfl

theorem wvbits1 : ∀ b, b < 256 →
    ((b &&& 0x3F) <<< 6 = (b % 64) * 64) ∧ ((b >>> 2) &&& 0x3F = (b / 4) % 64) ∧
    ((b &&& 0x03) <<< 2 = (b % 4) * 4) ∧ ((b >>> 6) &&& 0x03 = (b / 64) % 4) ∧
    ((b >>> 1) &&& 0x1F = (b / 2) % 32) ∧ ((b &&& 0x01) <<< 4 = (b % 2) * 16) ∧
    ((b >>> 4) &&& 0x0F = (b / 16) % 16) ∧ ((b &&& 0x0F) <<< 2 = (b % 16) * 4) ∧ (b &&& 0x3F = b % 64) := by
  decide +kernel

theorem wvbits_or1 : ∀ u, u < 4 → ∀ w, w < 4 → (u * 4) ||| w = u * 4 + w := by decide
theorem wvbits_or2 : ∀ u, u < 2 → ∀ w, w < 16 → (u * 16) ||| w = u * 16 + w := by decide
theorem wvbits_or3 : ∀ u, u < 16 → ∀ w, w < 4 → (u * 4) ||| w = u * 4 + w := by decide

theorem decodeWvDatetime_eq_typed (p : Bytes) : decodeWvDatetime p = Typed.decodeWvDate p := by
  unfold decodeWvDatetime Typed.decodeWvDate
  split
  · rename_i b0 b1 b2 b3 b4 b5
    have h0 := wvbits1 b0.toNat b0.toNat_lt
    have h1 := wvbits1 b1.toNat b1.toNat_lt
    have h2 := wvbits1 b2.toNat b2.toNat_lt
    have h3 := wvbits1 b3.toNat b3.toNat_lt
    have h4 := wvbits1 b4.toNat b4.toNat_lt
    simp only
    rw [h0.1, h1.2.1, h1.2.2.1, h2.2.2.2.1, h2.2.2.2.2.1, h2.2.2.2.2.2.1, h3.2.2.2.2.2.2.1, h3.2.2.2.2.2.2.2.1,
      h4.2.2.2.1, h4.2.2.2.2.2.2.2.2,
      wvbits_or1 _ (Nat.mod_lt _ (by decide)) _ (Nat.mod_lt _ (by decide)),
      wvbits_or2 _ (Nat.mod_lt _ (by decide)) _ (Nat.mod_lt _ (by decide)),
      wvbits_or3 _ (Nat.mod_lt _ (by decide)) _ (Nat.mod_lt _ (by decide))]
    have e0 := b0.toNat_lt; have e1 := b1.toNat_lt; have e2 := b2.toNat_lt; have e3 := b3.toNat_lt; have e4 := b4.toNat_lt
    rw [pad4_eq _ (by omega), pad2_eq _ (by omega), pad2_eq _ (by omega), pad2_eq _ (by omega), pad2_eq _ (by omega)]
    rw [pad2_eq (b4.toNat % 64) (by omega)]
    simp only [wvDateText, wvFields, wvZoneText]
    by_cases hz : b5 = 0
    · subst hz
      simp only [beq_self_eq_true, ↓reduceIte, bne_iff_ne, ne_eq, ite_not, List.append_assoc]
      by_cases hs : b4.toNat % 64 = 0 <;> simp only [hs, ↓reduceIte, not_true_eq_false, not_false_eq_true]
    · have hz' : (b5 == 0) = false := by simpa using hz
      simp only [hz', Bool.false_eq_true, ↓reduceIte, hz]
      have hc : (decide (b5.toNat < 65) || decide (b5.toNat > 90) || b5 == 74) = (decide (b5 < 0x41) || decide (b5 > 0x5A) || b5 == 0x4A) := by
        simp only [UInt8.lt_iff_toNat_lt, gt_iff_lt]; rfl
      rw [hc]
      split <;> simp only [bne_iff_ne, ne_eq, ite_not, List.append_assoc, List.append_nil] <;>
        (by_cases hs : b4.toNat % 64 = 0 <;> simp only [hs, ↓reduceIte, not_true_eq_false, not_false_eq_true])
  · rename_i hne
    split
    · rename_i b0 b1 b2 b3 b4 b5
      exact absurd rfl (hne b0 b1 b2 b3 b4 b5)
    · rfl

/-! ### Normal forms of typed text ("by value")

  What comes back for a typed text is not the text but its normal form: `0200` ↦ `200`; base64 text
  re-encoded canonically (no white space, no line wrapping); a date-time in the canonical form of
  the instant. Each normal form is idempotent. -/

/-- Wireless Village integer: the decimal numeral of the number the text denotes (decimal or `0x…`),
    when it is one below 2^32; other text is carried as a string, unchanged. -/
def wvIntNorm (s : Bytes) : Bytes :=
  match wvIntNumeral s with
  | some v => if v < 4294967296 then decNat v else s
  | none => s

theorem wvIntNorm_idem (s : Bytes) : wvIntNorm (wvIntNorm s) = wvIntNorm s := by
  unfold wvIntNorm
  cases hn : wvIntNumeral s with
  | none => simp only [hn]
  | some v =>
    by_cases hv : v < 4294967296
    · simp only [hv, ↓reduceIte]
      rw [Lemmas.Typed.wvIntNumeral_digits _ (Lemmas.Typed.decNat_ne_nil v) (Lemmas.Typed.all_isDigit_decNat v),
        Lemmas.Typed.decVal_decNat]
      simp only [hv, ↓reduceIte]
    · simp only [hv, ↓reduceIte, hn]

/-- base64-carried text: the RFC 4648 encoding of the octets the text denotes (white space removed,
    decoding stops at the first foreign character — `wbxml_base64_decode`). -/
def b64Norm (s : Bytes) : Bytes :=
  match b64DecodeE (b64TextW s) with
  | .ok d => Codec.b64Encode d
  | .error _ => s

theorem b64TextW_encode (d : Bytes) : b64TextW (Codec.b64Encode d) = Codec.b64Encode d := by
  rw [b64TextW_eq]; exact Lemmas.Typed.b64Encode_filter d

theorem b64DecodeE_encode (d : Bytes) : b64DecodeE (Codec.b64Encode d) = .ok d := by
  cases d with
  | nil => rw [Wbxml.Lemmas.Codec.b64DecodeE_eq]; rfl
  | cons a t =>
    have h := Wbxml.Props.C11.b64_decode_encode (a :: t) (by simp)
    unfold Codec.b64Decode at h
    rw [Wbxml.Lemmas.Codec.b64DecodeE_eq] at h ⊢
    split at h
    · cases h
    · injection h with h; rename_i d' heq; injection heq with heq; rw [heq, h]
    · cases h

theorem b64Norm_idem (s : Bytes) : b64Norm (b64Norm s) = b64Norm s := by
  have h1 : b64Norm s = Codec.b64Encode (b64DecodeLoop (b64Scan (b64TextW s))) := by
    unfold b64Norm; rw [Wbxml.Lemmas.Codec.b64DecodeE_eq]
  rw [h1]
  unfold b64Norm
  rw [b64TextW_encode, b64DecodeE_encode]

/-- `%Datetime` text: what `decode_datetime` makes of the octets `wbxml_encode_datetime` writes. -/
def datetimeNorm (s : Bytes) : Bytes :=
  match datetimePayload s with
  | .ok p => (match Model.decodeDatetime p with | .ok t => t | .error _ => s)
  | .error _ => s

/-- For every valid calendar date-time the normal form of the canonical text `YYYY-MM-DDThh:mm:ssZ`
    is that text (C12 `datetime_roundtrip`), so the normal form is idempotent on valid date-times. -/
theorem datetimeNorm_canon (d : Spec.Calendar.DateTime) (h : d.Valid) :
    datetimeNorm (Spec.Calendar.canon d) = Spec.Calendar.canon d := by
  have hp := Lemmas.Typed.datetimePayload_canon d h
  have hk := Lemmas.Typed.keptOctets_range d
  have hl : ((Spec.Calendar.bcd7 d).take (Spec.Calendar.keptOctets d)).length = Spec.Calendar.keptOctets d := by
    have : (Spec.Calendar.bcd7 d).length = 7 := by simp [Spec.Calendar.bcd7]
    rw [List.length_take, this]; omega
  unfold datetimeNorm
  rw [hp]
  simp only
  rw [decodeDatetime_eq_typed _ (by rw [hl]; exact hk.1) (by rw [hl]; exact hk.2),
    Lemmas.Typed.decodeDatetime_take d h _ hk, Lemmas.Typed.truncTo_kept]

/-! ### Source side: the decidable hypotheses under which every typed opaque is well-formed

  Each stands for a recorded finding (`known_findings.json`, or D5 of DESIGN_NOTES/EncWbxml.md);
  all are `true` for every tree of a language without typed content. -/

/-- Finding `invalid-datetime-attribute-accepted`: the text of an SI `created` / `si-expires` or EMN
    `timestamp` value is a date-time, i.e. its digits form four to seven BCD octets once trailing zero
    octets are dropped (or nothing at all) — what `decode_datetime` accepts. Text the encoder itself
    refuses (`dtFilter` error 11) needs no condition. -/
def validDatetimeText (v : Bytes) : Bool :=
  match datetimePayload v with
  | .ok p => p.isEmpty || (decide (4 ≤ p.length) && decide (p.length ≤ 7))
  | .error _ => true

/-- D5 (`empty opaque for text that is not base64`): the text decodes to at least one octet. -/
def b64NonEmpty (s : Bytes) : Bool :=
  match b64DecodeE (b64TextW s) with
  | .ok d => !d.isEmpty
  | .error _ => true

/-- The C string `parse_text` hands to the value encoder outside CDATA. -/
def textArg (c : WCfg) (s : Bytes) : Bytes := cstrOf (if c.removeBlanks then stripBlanks s else s)

/-- Text that produces no output at all outside CDATA (ignorable white space, empty C string). -/
def textSilent (c : WCfg) (s : Bytes) : Bool := (c.ignoreEmpty && s.all isSpaceC) || (textArg c s).isEmpty

/-- DRMREL `ds:KeyValue` (token element). -/
def isKvRow (langId : Nat) (r : TagRow) : Bool := langId == 1801 && r.page == 0 && r.token == 0x0C

def kvPar (l : Lang) : Option Name → Bool
  | some (.token r) => isKvRow l.id r
  | _ => false

/-- `%Datetime` attribute names of the language. -/
def dtAttrName (l : Lang) (nm : Bytes) : Bool :=
  (l.attrs.getD []).any (fun r => dtRow l.id r && r.name == nm)

/-- OTA settings: the attribute start whose value may be an icon (`VALUE`, page 0 token 0x11). -/
def iconRow (langId : Nat) (r : AttrRow) : Bool := langId == 1901 && r.page == 0 && r.token == 0x11

def iconValName (l : Lang) (nm : Bytes) : Bool := (l.attrs.getD []).any (fun r => iconRow l.id r && r.name == nm)

/-- `NAME="ICON"` among the attributes of the current node. -/
def iconCtx (na : Option (List Attr)) : Bool :=
  match na with
  | some attrs => attrs.any (fun a => a.name.cName == b!"NAME" && cstrOf a.value == b!"ICON")
  | none => false

/-- Per attribute: `validDatetimeText` for the `%Datetime` attributes. -/
def dtAttrOk (l : Lang) (a : Attr) : Bool := !(dtAttrName l a.name.cName) || validDatetimeText (cstrOf a.value)

/-- Per attribute: an OTA icon value decodes to at least one octet (D5). -/
def iconAttrOk (l : Lang) (na : Option (List Attr)) (a : Attr) : Bool :=
  !(iconCtx na && iconValName l a.name.cName) || (cstrOf a.value).isEmpty || b64NonEmpty (cstrOf a.value)

/-- Whether the children of an element called `nm` may find a typed tag in the reader's
    `current_tag` slot or as their own tag: a token name by its row; a literal name inherits the flag
    (the slot is kept across a literal tag) or may be resolved to a typed row of that name. -/
def kidsTy (l : Lang) (ty : Bool) : Name → Bool
  | .token r => typedRow l.id r
  | .literal s => ty || (l.tags.getD []).any (fun r => r.name == cstrOf s && typedRow l.id r)

mutual
/-- Finding `cdata-in-typed-element`: no CDATA section and no embedded document where the reader
    applies a typed-content rule (`ty`). -/
def noCdataInTyped (l : Lang) (ty : Bool) : Node → Bool
  | .elt nm _ kids => noCdataInTypedL l (kidsTy l ty nm) kids
  | .text _ => true
  | .cdata kids => !ty && noCdataInTypedL l ty kids
  | .tree _ _ _ => !ty
def noCdataInTypedL (l : Lang) (ty : Bool) : List Node → Bool
  | [] => true
  | n :: rest => noCdataInTyped l ty n && noCdataInTypedL l ty rest
end

mutual
/-- Finding `invalid-datetime-attribute-accepted`, for every attribute of the tree. -/
def validDatetimeAttrs (l : Lang) : Node → Bool
  | .elt _ attrs kids => attrs.all (dtAttrOk l) && validDatetimeAttrsL l kids
  | .text _ => true
  | .cdata kids => validDatetimeAttrsL l kids
  | .tree _ _ _ => true
def validDatetimeAttrsL (l : Lang) : List Node → Bool
  | [] => true
  | n :: rest => validDatetimeAttrs l n && validDatetimeAttrsL l rest
end

mutual
/-- D5: every text the encoder sends as base64-decoded OPAQUE (text under DRMREL `ds:KeyValue`, the
    `VALUE` of an OTA `PARM NAME="ICON"`) decodes to at least one octet. `parent` = name of the
    enclosing element. -/
def b64TextDecodes (c : WCfg) (parent : Option Name) : Node → Bool
  | .elt nm attrs kids => attrs.all (iconAttrOk c.lang (some attrs)) && b64TextDecodesL c (some nm) kids
  | .text s => !(kvPar c.lang parent) || textSilent c s || b64NonEmpty (textArg c s)
  | .cdata kids => b64TextDecodesL c none kids
  | .tree _ _ _ => true
def b64TextDecodesL (c : WCfg) (parent : Option Name) : List Node → Bool
  | [] => true
  | n :: rest => b64TextDecodes c parent n && b64TextDecodesL c parent rest
end

def isTextN : Node → Bool
  | .text _ => true
  | _ => false

mutual
/-- Text of a DRMREL `ds:KeyValue` element precedes its child elements (`pre` = only text nodes so
    far): the encoder types the text by its parent, the parser by its `current_tag` slot, which an
    element end clears. -/
def keyValueTextFirst (c : WCfg) (parent : Option Name) (pre : Bool) : Node → Bool
  | .elt nm _ kids => keyValueTextFirstL c (some nm) true kids
  | .text s => !(kvPar c.lang parent) || pre || textSilent c s
  | .cdata kids => keyValueTextFirstL c none pre kids
  | .tree _ _ _ => true
def keyValueTextFirstL (c : WCfg) (parent : Option Name) (pre : Bool) : List Node → Bool
  | [] => true
  | n :: rest => keyValueTextFirst c parent pre n && keyValueTextFirstL c parent (pre && isTextN n) rest
end

/-- Table facts of the typed forms: no binary-flagged tag has a typed-content rule, and the OTA icon
    attribute start carries no value prefix. -/
def typedLangOk (l : Lang) : Bool :=
  (l.tags.getD []).all (fun r => r.opts &&& 1 == 0 || !typedRow l.id r) &&
  (l.attrs.getD []).all (fun r => !iconRow l.id r || (r.value.getD []).isEmpty)

end Wbxml.Lemmas.EncW
