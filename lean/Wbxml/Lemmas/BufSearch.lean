/-
  C19 — `search_char`, `search`, `search_cstr`, `split_words` against the reference.
-/
import Wbxml.Lemmas.BufOps
set_option linter.unusedSimpArgs false
namespace Wbxml.Model
open Wbxml Wbxml.Spec.Seq

/-! ### facts about the reference `firstMatch` -/

theorem firstMatch_single (ch : UInt8) (xs : Bytes) :
    firstMatch [ch] xs = xs.findIdx? (· == ch) := by
  induction xs with
  | nil => simp [firstMatch]
  | cons x xs ih =>
    simp only [firstMatch, List.isPrefixOf, Bool.and_true, List.findIdx?_cons, ih]
    by_cases h : x = ch
    · subst h; simp
    · have h' : ¬ ch = x := fun e => h e.symm
      simp [h, h']

/-- No match can start inside a stretch that does not contain the first byte of the needle. -/
theorem firstMatch_skip (first : UInt8) (rest : Bytes) (xs : Bytes) (k : Nat) (hk : k ≤ xs.length)
    (hno : ∀ i, (hi : i < k) → xs[i]'(by omega) ≠ first) :
    firstMatch (first :: rest) xs = (firstMatch (first :: rest) (xs.drop k)).map (· + k) := by
  induction k generalizing xs with
  | zero => simp
  | succ k ih =>
    cases xs with
    | nil => simp at hk
    | cons x xs =>
      have hx : x ≠ first := by have := hno 0 (by omega); simpa using this
      have hb : (first == x) = false := by simp; exact fun e => hx e.symm
      simp only [firstMatch, List.isPrefixOf, hb, Bool.false_and, Bool.false_eq_true, if_false,
        List.drop_succ_cons]
      rw [ih xs (by simpa using hk) (fun i hi => by have := hno (i + 1) (by omega); simpa using this)]
      simp only [Option.map_map]
      congr 1

theorem firstMatch_short (ys xs : Bytes) (h : xs.length < ys.length) : firstMatch ys xs = none := by
  induction xs with
  | nil => cases ys <;> simp_all [firstMatch]
  | cons x xs ih =>
    have hp : ys.isPrefixOf (x :: xs) = false := by
      cases hh : ys.isPrefixOf (x :: xs) with
      | false => rfl
      | true =>
        have := (List.isPrefixOf_iff_prefix.mp hh).length_le
        omega
    simp only [firstMatch, hp, Bool.false_eq_true, if_false, ih (by simp at h; omega), Option.map_none]

theorem isPrefixOf_iff_take (ys xs : Bytes) (_h : ys.length ≤ xs.length) :
    ys.isPrefixOf xs = true ↔ xs.take ys.length = ys := by
  rw [List.isPrefixOf_iff_prefix, List.prefix_iff_eq_take]
  exact ⟨fun e => e.symm, fun e => e.symm⟩

theorem firstMatch_step (ys : Bytes) (x : UInt8) (xs : Bytes) (h : ys.isPrefixOf (x :: xs) = false) :
    firstMatch ys (x :: xs) = (firstMatch ys xs).map (· + 1) := by
  simp [firstMatch, h]

theorem firstMatch_here (ys xs : Bytes) (h : ys.isPrefixOf xs = true) : firstMatch ys xs = some 0 := by
  cases xs with
  | nil => cases ys <;> simp_all [firstMatch]
  | cons x xs => simp [firstMatch, h]

namespace Buf

theorem searchChar_spec {b : Buf} {c : Bytes} (h : View b c) (ch : UInt8) (pos : Nat) :
    b.searchChar ch pos = .ok (Spec.Seq.search c [ch] pos) := by
  unfold searchChar Spec.Seq.search
  by_cases hp : pos ≥ b.len
  · simp only [hp, if_true]
    by_cases hgt : pos > c.length
    · simp [hgt]
    · have : pos = c.length := by rw [h.2] at hp; omega
      subst this
      simp [firstMatch]
  · have hne : b.len ≠ 0 := by omega
    obtain ⟨r, hr⟩ := h.mem hne
    have hpl : pos < c.length := by rw [← h.2]; omega
    have hread : Mem.read (c ++ r) pos (b.len - pos) = .ok (c.drop pos) := by
      have hc : c ++ r = c.take pos ++ c.drop pos ++ r := by rw [List.take_append_drop]
      rw [hc]; exact Mem.read_mid _ _ _ _ _ (by simp; omega) (by simp; rw [h.2])
    have hng : ¬ pos > c.length := by omega
    simp only [hp, if_false, mem, hr, hread, hng, firstMatch_single]
    cases (c.drop pos).findIdx? (· == ch) with
    | none => rfl
    | some k => simp [Nat.add_comm]

theorem search_at_most (c nd : Bytes) (pos : Nat) (h : c.length - pos < nd.length) (hp : pos ≤ c.length) :
    Spec.Seq.search c nd pos = none := by
  have : ¬ pos > c.length := by omega
  simp [Spec.Seq.search, this, firstMatch_short nd (c.drop pos) (by simp; omega)]

/-- The Spec.Seq.search loop finds the first occurrence at or after `pos`. -/
theorem searchLoop_spec {to : Buf} {c : Bytes} (h : View to c) (first : UInt8) (rest : Bytes)
    (fuel pos : Nat) (hf : c.length + 1 ≤ fuel + pos) (hp : pos ≤ c.length) :
    searchLoop to (first :: rest) first fuel pos = .ok (Spec.Seq.search c (first :: rest) pos) := by
  induction fuel generalizing pos with
  | zero => omega
  | succ f ih =>
    unfold searchLoop
    rw [searchChar_spec h first pos]
    have hng : ¬ pos > c.length := by omega
    -- what search_char found, in terms of the suffix
    cases hfi : (c.drop pos).findIdx? (· == first) with
    | none =>
      have hs1 : Spec.Seq.search c [first] pos = none := by simp [Spec.Seq.search, hng, firstMatch_single, hfi]
      have hall : ∀ i, (hi : i < (c.drop pos).length) → (c.drop pos)[i] ≠ first := by
        intro i hi
        have := List.findIdx?_eq_none_iff.mp hfi (c.drop pos)[i] (List.getElem_mem hi)
        simpa using this
      have := firstMatch_skip first rest (c.drop pos) (c.drop pos).length (Nat.le_refl _) hall
      rw [hs1]
      simp only [Spec.Seq.search, hng, if_false, this, List.drop_length, firstMatch, List.isEmpty_cons,
        Bool.false_eq_true, Option.map_none]
    | some k =>
      have hk := List.findIdx?_eq_some_iff_getElem.mp hfi
      obtain ⟨hkl, hkx, hkno⟩ := hk
      have hkl' : pos + k < c.length := by simp at hkl; omega
      have hs1 : Spec.Seq.search c [first] pos = some (pos + k) := by
        simp [Spec.Seq.search, hng, firstMatch_single, hfi, Nat.add_comm]
      have hskip := firstMatch_skip first rest (c.drop pos) k (by omega)
        (fun i hi => by have := hkno i hi; simpa using this)
      rw [hs1]
      simp only [h.2]
      by_cases hroom : c.length - (pos + k) ≥ (first :: rest).length
      · simp only [hroom, if_true]
        have hne : to.len ≠ 0 := by rw [h.2]; omega
        obtain ⟨r, hr⟩ := h.mem hne
        have hread : Mem.read (c ++ r) (pos + k) (first :: rest).length
            = .ok ((c.drop (pos + k)).take (first :: rest).length) := by
          obtain ⟨h3, l1, l2⟩ := Mem.split3 c (pos + k) (first :: rest).length (by omega)
          have hc : c ++ r = c.take (pos + k) ++ (c.drop (pos + k)).take (first :: rest).length
              ++ (c.drop (pos + k + (first :: rest).length) ++ r) := by
            conv => lhs; rw [h3]
            simp only [List.append_assoc]
          rw [hc]; exact Mem.read_mid _ _ _ _ _ l1.symm l2.symm
        simp only [mem, hr, hread]
        have hdd : (c.drop pos).drop k = c.drop (pos + k) := by rw [List.drop_drop]
        by_cases hm : (c.drop (pos + k)).take (first :: rest).length = first :: rest
        · simp only [hm, if_true]
          have hpre : (first :: rest).isPrefixOf (c.drop (pos + k)) = true :=
            (isPrefixOf_iff_take _ _ (by simp; simp at hroom; omega)).mpr hm
          simp only [Spec.Seq.search, hng, if_false, hskip, hdd, firstMatch_here _ _ hpre, Option.map_some]
          congr 2; omega
        · simp only [hm, if_false]
          have hpre : (first :: rest).isPrefixOf (c.drop (pos + k)) = false := by
            cases hh : (first :: rest).isPrefixOf (c.drop (pos + k)) with
            | false => rfl
            | true => exact absurd ((isPrefixOf_iff_take _ _ (by simp; simp at hroom; omega)).mp hh) hm
          rw [ih (pos + k + 1) (by omega) (by omega)]
          have hcons : c.drop (pos + k) = c[pos + k] :: c.drop (pos + k + 1) := List.drop_eq_getElem_cons hkl'
          rw [hcons] at hpre
          have hng2 : ¬ pos + k + 1 > c.length := by omega
          simp only [Spec.Seq.search, hng, hng2, if_false, hskip, hdd]
          rw [hcons, firstMatch_step _ _ _ hpre]
          simp only [Option.map_map]
          congr 2
          funext x; simp only [Function.comp]; omega
      · simp only [hroom, if_false]
        have : Spec.Seq.search c (first :: rest) pos = none := by
          simp only [Spec.Seq.search, hng, if_false, hskip]
          rw [List.drop_drop, firstMatch_short _ _ (by simp; simp at hroom; omega)]
          rfl
        rw [this]

theorem searchBytes_spec {to : Buf} {c : Bytes} (h : View to c) (nd : Bytes) (pos : Nat) :
    to.searchBytes nd pos = .ok (Spec.Seq.search c nd pos) := by
  unfold searchBytes
  cases nd with
  | nil =>
    simp only [h.2, Spec.Seq.search]
    by_cases hp : pos > c.length
    · simp [hp]
    · have : firstMatch [] (c.drop pos) = some 0 := firstMatch_here [] _ (by simp [List.isPrefixOf])
      simp [hp, this]
  | cons first rest =>
    simp only [h.2]
    by_cases hbig : (first :: rest).length > c.length
    · simp only [hbig, if_true]
      by_cases hp : pos > c.length
      · simp [Spec.Seq.search, hp]
      · rw [search_at_most c _ pos (by omega) (by omega)]
    · simp only [hbig, if_false]
      by_cases hr : rest = []
      · subst hr; simp only [if_true]; exact searchChar_spec h first pos
      · simp only [hr, if_false]
        by_cases hp : pos > c.length
        · -- the loop fails at once: search_char refuses the position
          have : Spec.Seq.search c (first :: rest) pos = none := by simp [Spec.Seq.search, hp]
          rw [this]
          unfold searchLoop
          rw [searchChar_spec h first pos]
          simp [Spec.Seq.search, hp]
        · exact searchLoop_spec h first rest _ pos (by omega) (by omega)

theorem search_spec {to : Buf} {c : Bytes} (h : View to c) (a : Arg) (pos : Nat) :
    ∃ o, ofArg a = .ok o ∧ to.search o pos = .ok (searchArg c a.bytes pos) := by
  rcases ofArg_spec a with ⟨hn, ho⟩ | ⟨s, bs, hb, ho, hv, _⟩
  · exact ⟨none, ho, by simp [Buf.search, hn, searchArg]⟩
  · exact ⟨some s, ho, by simp only [Buf.search, contents_view hv, hb, searchArg]; exact searchBytes_spec h bs pos⟩

theorem searchCstr_spec {to : Buf} {c : Bytes} (h : View to c) (s : Option Bytes) (pos : Nat) :
    to.searchCstr s pos = .ok (searchArg c (s.map cstr) pos) := by
  cases s with
  | none => rfl
  | some s => simp only [searchCstr, cstrOf_eq, Option.map_some, searchArg]; exact searchBytes_spec h _ pos

/-! ### split_words -/

theorem wordsAux_skip (s : Bytes) : wordsAux s [] = wordsAux (s.dropWhile ws) [] := by
  induction s with
  | nil => rfl
  | cons x xs ih =>
    by_cases hx : ws x = true
    · simp [wordsAux, hx, ih]
    · simp [List.dropWhile, hx]

theorem wordsAux_word (s cur : Bytes) :
    wordsAux s cur =
      (let w := s.takeWhile (fun c => !ws c)
       let r := s.dropWhile (fun c => !ws c)
       if (cur ++ w).isEmpty then wordsAux r [] else (cur ++ w) :: wordsAux r []) := by
  induction s generalizing cur with
  | nil => simp [wordsAux]
  | cons x xs ih =>
    by_cases hx : ws x = true
    · simp only [wordsAux, hx, if_true, List.takeWhile, List.dropWhile, Bool.not_true, List.append_nil]
      by_cases hc : cur.isEmpty = true
      · simp [hc, wordsAux, hx]
      · simp [hc, wordsAux, hx]
    · have hx' : ws x = false := by simpa using hx
      simp only [wordsAux, hx', Bool.false_eq_true, if_false, List.takeWhile, List.dropWhile, Bool.not_false]
      rw [ih (cur ++ [x])]
      simp only [List.append_assoc, List.singleton_append]

theorem splitLoop_spec (fuel : Nat) (s : Bytes) (hf : s.length < fuel) :
    splitLoop fuel s = .ok (wordsAux s []) := by
  induction fuel generalizing s with
  | zero => omega
  | succ f ih =>
    unfold splitLoop
    simp only [isSpace_fun]
    rw [wordsAux_skip s, wordsAux_word (s.dropWhile ws) []]
    simp only [List.nil_append]
    generalize hs1 : s.dropWhile ws = s1
    have hl1 : s1.length ≤ s.length := by rw [← hs1]; exact (List.dropWhile_sublist _).length_le
    by_cases hw : (s1.takeWhile (fun c => !ws c)).length = 0
    · have hwe : s1.takeWhile (fun c => !ws c) = [] := List.eq_nil_of_length_eq_zero hw
      simp only [hw, if_true, hwe, List.isEmpty_nil]
      -- no word: the rest is empty or starts with white space; after skipping, nothing is left
      cases s1 with
      | nil => simp [wordsAux]
      | cons x xs =>
        have hx : ws x = true := by
          cases hh : ws x with
          | true => rfl
          | false => simp [List.takeWhile, hh] at hwe
        -- x is white space but s1 = dropWhile ws s starts with a non-white-space byte
        have : ws x = false := by
          have := List.head_dropWhile_not ws (l := s) (by rw [hs1]; simp)
          simpa [hs1] using this
        simp [hx] at this
    · have hne : (s1.takeWhile (fun c => !ws c)).isEmpty = false := by
        cases hh : s1.takeWhile (fun c => !ws c) with
        | nil => simp [hh] at hw
        | cons _ _ => rfl
      have hdrop : s1.drop (s1.takeWhile (fun c => !ws c)).length = s1.dropWhile (fun c => !ws c) := by
        conv => lhs; rw [← List.takeWhile_append_dropWhile (p := fun c => !ws c) (l := s1)]
        rw [List.drop_left' (by simp)]
      simp only [hw, if_false, hne, Bool.false_eq_true, hdrop]
      rw [ih _ (by
        have := congrArg List.length (List.takeWhile_append_dropWhile (p := fun c => !ws c) (l := s1))
        simp only [List.length_append] at this
        omega)]

theorem createAll_spec (ws' : List Bytes) :
    ∃ l, createAll ws' = .ok l ∧ l.map abs = ws' ∧ ∀ b ∈ l, DynInv b := by
  induction ws' with
  | nil => exact ⟨[], rfl, rfl, by simp⟩
  | cons w rest ih =>
    obtain ⟨l, hl, hm, hi⟩ := ih
    obtain ⟨b, hb, hr⟩ := rep_create (some w) 20
    refine ⟨b :: l, by simp [createAll, hb, hl], by simpa [hm] using hr.2, ?_⟩
    intro x hx
    rcases List.mem_cons.mp hx with rfl | hx
    · exact hr.1
    · exact hi x hx

theorem splitWords_spec {b : Buf} {c : Bytes} (h : View b c) :
    ∃ l, b.splitWords = .ok l ∧ l.map abs = words c ∧ ∀ x ∈ l, DynInv x := by
  obtain ⟨l, hl, hm, hi⟩ := createAll_spec (words c)
  refine ⟨l, ?_, hm, hi⟩
  simp only [splitWords, contents_view h, splitLoop_spec (c.length + 1) c (by omega)]
  exact hl

end Buf
end Wbxml.Model
