/-
  C16 — parser main loop on the ledger, part E: `parse_body`, `parse_strtbl`, `check_public_id`,
  `wbxml_parser_parse`, `wbxml_parser_destroy` and the glue of `wbxml_tree_from_wbxml`.
-/
import Wbxml.Lemmas.AllocLoopD
namespace Wbxml.Model.Alloc
open Wbxml
set_option linter.unusedSimpArgs false
set_option linter.unusedVariables false
set_option linter.unnecessarySimpa false

def RootShape.wf : RootShape → Prop
  | .elem t attrs _ => t.wf ∧ ∀ a ∈ attrs, a.start.wf
  | .err _ => True

/-- A document shape is well formed when the error outcomes of its tag / attribute starts carry a
    real error code. -/
def Doc.wf (d : Doc) : Prop := (∀ a ∈ d.pre, a.start.wf) ∧ d.root.wf ∧ ∀ it ∈ d.body, it.wf

/-- `parse_body`. -/
theorem parseBody_spec (p : APars) (hpw : p.wbxml.isSome) (c : TCtx) (d : Doc) (hd : d.wf) (s : Ledger) (wf : s.WF)
    (hok : c.ok) (own : Owns s (p.owned ++ c.owned)) :
    Good (parseBody p c d) s (LoopPost [] c s) := by
  obtain ⟨hpre, hroot, hbody⟩ := hd
  unfold parseBody
  simp only [bind_eq, pure_eq]
  refine Good.bind (parsePis_spec d.pre hpre s wf) ?_
  intro ret0 s1 ⟨c1, h1⟩
  have hh1 := c1.hits
  have clF : Clean s s1 ([] ++ c.owned) ([] ++ c.owned) := by
    simpa using Clean.frame_l c.owned wf c1 (by simpa using own.right)
  have own1 : Owns s1 (p.owned ++ c.owned) := by
    simpa using (Clean.frame_l p.owned wf clF (by simpa using own)).owns
  by_cases hret0 : ret0 = OK
  · subst hret0
    simp only [bne_self_eq_false, Bool.false_eq_true, if_false]
    have hno1 : ¬ s.hits < s1.hits := fun hh => h1 hh rfl
    -- everything below starts in `s1` with the context untouched
    suffices hgoal : Good (match d.root with
        | .err code => Prog.ret (code, c)
        | .elem t attrs hasContent => (touch p).bind fun _ => (startElement c t attrs).bind fun r =>
            match r.2.1 with
            | none => Prog.ret (r.1, r.2.2)
            | some x => if hasContent = true then parseLoop p [x] r.2.2 d.body
                else (closeElement r.2.2 x).bind fun c => parseLoop p [] c d.body) s1 (LoopPost [] c s1) by
      refine hgoal.mono ?_
      intro r s2 h
      exact LoopPost.of_step wf rfl clF (fun hh => absurd hh hno1) id h
    cases hr : d.root with
    | err code =>
      simp only
      exact good_ret.2 ⟨rfl, hok, by simpa using Clean.id c1.wf own1.right, fun h => absurd h (Nat.lt_irrefl _), id⟩
    | elem t attrs hc =>
      rw [hr] at hroot
      obtain ⟨htw, haw⟩ : t.wf ∧ ∀ a ∈ attrs, a.start.wf := hroot
      simp only
      have htouch := touch_spec p s1 (own1.2 _ (by simp [APars.owned]))
        (fun w hpw' => own1.2 _ (by simp [APars.owned, hpw', ownedBufOpt, ABuf.owned])) hpw
      refine Good.bind htouch ?_
      intro _ s0 e0; have e0' := e0.symm; subst e0'
      refine Good.bind (startElement_spec c t htw attrs haw s1 c1.wf hok own1.right) ?_
      intro r s2 ⟨t2, ok2, cl2, hnone, hsome, e2, p2⟩
      obtain ⟨ret, elt, c2⟩ := r
      simp only at t2 ok2 cl2 hnone hsome e2 p2 ⊢
      have hh2 := cl2.hits
      cases elt with
      | none =>
        obtain ⟨hne, hc2⟩ := hnone rfl
        subst hc2
        simp only
        exact good_ret.2 ⟨rfl, hok, by simpa [ownedNameOpt] using cl2, fun _ => Or.inl hne, id⟩
      | some x =>
        have hret : ret = OK := hsome rfl
        have e2' : s1.hits < s2.hits → c2.error ≠ OK := fun hh => (e2 hh).resolve_left (fun h => h hret)
        have clS : Clean s1 s2 ([] ++ c.owned) (stackOwned [x] ++ c2.owned) := by
          simpa [stackOwned, ownedNameOpt] using cl2
        simp only
        cases hc with
        | true =>
          simp only [if_true]
          have own2 := (Clean.frame_l p.owned c1.wf clS (by simpa using own1)).owns
          refine (parseLoop_spec p hpw d.body hbody [x] c2 s2 cl2.wf ok2 own2).mono ?_
          intro r s3 h
          exact LoopPost.of_step c1.wf t2 clS e2' p2 h
        | false =>
          simp only [Bool.false_eq_true, if_false]
          have clS' : Clean s1 s2 ([] ++ c.owned) (x.owned ++ c2.owned) := by simpa [ownedNameOpt] using cl2
          refine Good.bind (closeElement_spec c2 x s2 cl2.wf ok2 clS'.owns) ?_
          intro c3 s3 ⟨t3, ok3, cl3, e3, p3⟩
          have hh3 := cl3.hits
          have cl : Clean s1 s3 ([] ++ c.owned) (stackOwned [] ++ c3.owned) := by
            simpa [stackOwned] using Clean.trans_recycle c1.wf clS' cl3
          have own3 := (Clean.frame_l p.owned c1.wf cl (by simpa using own1)).owns
          refine (parseLoop_spec p hpw d.body hbody [] c3 s3 cl3.wf ok3 own3).mono ?_
          intro r s4 h
          refine LoopPost.of_step c1.wf (t3.trans t2) cl (fun hh => ?_) (fun h => p3 (p2 h)) h
          by_cases hA : s1.hits < s2.hits
          · exact p3 (e2' hA)
          · exact e3 (by omega)
  · have hb : (ret0 != OK) = true := by simpa using hret0
    simp only [hb, if_true]
    exact good_ret.2 ⟨rfl, hok, by simpa using clF, fun _ => Or.inl hret0, id⟩

/-! ### `wbxml_parser_parse` -/

theorem appendNuls_spec (n : Nat) (t : ABuf) (s : Ledger) (wf : s.WF) (own : Owns s t.owned) (hok : t.ok) :
    Good (appendNuls n t) s (fun r s' => Clean s s' t.owned r.2.owned ∧ (s.hits < s'.hits → r.1 ≠ OK)) := by
  induction n generalizing t s with
  | zero =>
    simp only [appendNuls, pure_eq]
    exact good_ret.2 ⟨Clean.id wf own, fun h => absurd h (Nat.lt_irrefl _)⟩
  | succ n ih =>
    unfold appendNuls
    simp only [bind_eq, pure_eq]
    refine Good.bind (bufAppendChar_spec t 0 s wf own hok) ?_
    intro r s1 ⟨_, _, c1, h1, k1⟩
    obtain ⟨t1, ok⟩ := r
    simp only at c1 h1 k1 ⊢
    have hh1 := c1.hits
    cases ok with
    | false =>
      simp only [Bool.not_false, if_true]
      exact good_ret.2 ⟨c1, fun _ => by simp [ENOMEM, OK]⟩
    | true =>
      simp only [Bool.not_true, Bool.false_eq_true, if_false]
      have hno1 : ¬ s.hits < s1.hits := by intro h; have := h1 h; simp at this
      refine (ih t1 s1 c1.wf c1.owns (k1 hok)).mono ?_
      intro r s2 ⟨c2, h2⟩
      have hh2 := c2.hits
      exact ⟨Clean.trans_recycle wf c1 c2, fun hh => h2 (by omega)⟩

/-- `parse_strtbl`: the table buffer is the parser's on every exit; a failed request is reported. -/
theorem parseStrtbl_spec (sh : StrtblShape) (s : Ledger) (wf : s.WF) :
    Good (parseStrtbl sh) s (fun r s' => Clean s s' [] (ownedBufOpt r.2) ∧ (s.hits < s'.hits → r.1 ≠ OK)) := by
  cases sh with
  | none => simp only [parseStrtbl, pure_eq]; exact good_ret.2 ⟨Clean.rfl wf, fun h => absurd h (Nat.lt_irrefl _)⟩
  | err c => simp only [parseStrtbl, pure_eq]; exact good_ret.2 ⟨Clean.rfl wf, fun h => absurd h (Nat.lt_irrefl _)⟩
  | tbl bytes =>
    simp only [parseStrtbl]
    split
    · exact good_ret.2 ⟨Clean.rfl wf, fun h => absurd h (Nat.lt_irrefl _)⟩
    · simp only [bind_eq, pure_eq]
      refine Good.bind (bufCreate_spec (some bytes) STRTBL_BLOCK s wf) ?_
      intro t s1 ⟨c1, h1, _, k1⟩
      have hh1 := c1.hits
      cases t with
      | none => exact good_ret.2 ⟨c1, fun _ => by simp [ENOMEM, OK]⟩
      | some t =>
        simp only
        have c1' : Clean s s1 [] t.owned := by simpa [ownedBufOpt] using c1
        have hno1 : ¬ s.hits < s1.hits := by intro h; have := h1 h; simp at this
        refine Good.bind (deref_spec t.hdr s1 (c1'.owns.2 _ (by simp [ABuf.owned]))) ?_
        intro _ s0 e0; have e0' := e0.symm; subst e0'
        split
        · exact good_ret.2 ⟨c1, fun hh => absurd hh hno1⟩
        · refine Good.bind (appendNuls_spec 4 t s1 c1.wf c1'.owns (k1 t rfl)) ?_
          intro r s2 ⟨c2, h2⟩
          have hh2 := c2.hits
          exact good_ret.2 ⟨by simpa [ownedBufOpt] using Clean.trans_recycle wf c1' c2, fun hh => h2 (by omega)⟩

/-- `check_public_id`: nothing stays allocated; a failed request means "not found". -/
theorem checkPublicId_spec (sh : PubidShape) (s : Ledger) (wf : s.WF) :
    Good (checkPublicId sh) s (fun r s' => Clean s s' [] [] ∧ (s.hits < s'.hits → r = false)) := by
  cases sh with
  | known => simp only [checkPublicId, pure_eq]; exact good_ret.2 ⟨Clean.rfl wf, fun h => absurd h (Nat.lt_irrefl _)⟩
  | unknown => simp only [checkPublicId, pure_eq]; exact good_ret.2 ⟨Clean.rfl wf, fun _ => rfl⟩
  | strRef p found =>
    simp only [checkPublicId, bind_eq, pure_eq]
    refine Good.bind (parseAttrValue_spec p s wf) ?_
    intro r s1 ⟨c1, e1, h1⟩
    obtain ⟨ret, b⟩ := r
    simp only at c1 e1 h1 ⊢
    have hh1 := c1.hits
    cases b with
    | none => exact good_ret.2 ⟨by simpa [ownedBufOpt] using c1, fun _ => rfl⟩
    | some x =>
      simp only
      have c1' : Clean s s1 [] x.owned := by simpa [ownedBufOpt] using c1
      have hret : ret = OK := by
        by_cases h : ret = OK
        · exact h
        · have := e1 h; simp at this
      refine Good.bind (deref_spec x.hdr s1 (c1'.owns.2 _ (by simp [ABuf.owned]))) ?_
      intro _ s0 e0; have e0' := e0.symm; subst e0'
      refine Good.bind (bufDestroy_spec (some x) s1 c1.wf (by simpa [ownedBufOpt] using c1'.owns)) ?_
      intro _ s2 ⟨d2, hd2, _⟩
      have d2' : Clean s1 s2 x.owned [] := d2
      exact good_ret.2 ⟨Clean.trans_recycle wf c1' d2', fun hh => absurd hret (h1 (by omega))⟩

theorem clbStartDocument_spec (c : TCtx) (s : Ledger) (hl : c.tree ∈ s.live) :
    Good (clbStartDocument c) s (fun c' s' => c' = c ∧ s' = s) := by
  unfold clbStartDocument
  split
  · exact good_ret.2 ⟨rfl, rfl⟩
  · simp only [bind_eq, pure_eq]
    refine Good.bind (deref_spec c.tree s hl) ?_
    intro _ s0 e0; subst e0
    exact good_ret.2 ⟨rfl, rfl⟩

/-- What `wbxml_parser_parse` guarantees for the glue: the parser (with its two buffers) and the
    context own everything that is left. -/
def ParsePost (hdr : Nat) (c : TCtx) (s : Ledger) (r : Nat × APars × TCtx) (s' : Ledger) : Prop :=
  r.2.1.hdr = hdr ∧ r.2.2.tree = c.tree ∧ r.2.2.ok ∧
  Clean s s' ([hdr] ++ c.owned) (r.2.1.owned ++ r.2.2.owned) ∧
  (s.hits < s'.hits → r.1 ≠ OK ∨ r.2.2.error ≠ OK) ∧ (c.error ≠ OK → r.2.2.error ≠ OK)

theorem parserParse_spec (hdr : Nat) (c : TCtx) (d : Doc) (hd : d.wf) (s : Ledger) (wf : s.WF) (hok : c.ok)
    (own : Owns s ([hdr] ++ c.owned)) :
    Good (parserParse hdr c d) s (ParsePost hdr c s) := by
  unfold parserParse
  simp only [bind_eq, pure_eq]
  refine Good.bind (deref_spec hdr s (own.2 _ (by simp))) ?_
  intro _ s0 e0; have e0' := e0.symm; subst e0'
  have hfail : ∀ t : Ledger, ∀ ret : Nat, ∀ p : APars, p.hdr = hdr →
      Clean s t ([hdr] ++ c.owned) (p.owned ++ c.owned) → (s.hits < t.hits → ret ≠ OK) → ParsePost hdr c s (ret, p, c) t :=
    fun t ret p hp cl he => ⟨hp, rfl, hok, cl, fun hh => Or.inl (he hh), id⟩
  split
  · exact good_ret.2 (hfail s EEMPTY ⟨hdr, none, none⟩ rfl (by simpa [APars.owned, ownedBufOpt] using Clean.id wf own)
      (fun h => absurd h (Nat.lt_irrefl _)))
  · refine Good.bind (bufCreate_spec (some d.wbxml) PARSER_BLOCK s wf) ?_
    intro w s1 ⟨c1, h1, _, _⟩
    have hh1 := c1.hits
    have clF1 : Clean s s1 ([hdr] ++ c.owned) (([hdr] ++ c.owned) ++ ownedBufOpt w) := by
      simpa using Clean.frame_l ([hdr] ++ c.owned) wf c1 (by simpa using own)
    cases w with
    | none =>
      exact good_ret.2 (hfail s1 ENOMEM ⟨hdr, none, none⟩ rfl (by simpa [APars.owned, ownedBufOpt] using clF1)
        (fun _ => by simp [ENOMEM, OK]))
    | some w =>
      simp only
      have hno1 : ¬ s.hits < s1.hits := by intro h; have := h1 h; simp at this
      split
      · next hne =>
        refine good_ret.2 (hfail s1 d.hdrErr ⟨hdr, some w, none⟩ rfl ?_ (fun hh => absurd hh hno1))
        refine clF1.prod_perm ?_
        simp only [APars.owned, ownedBufOpt]
        perm_count
      · refine Good.bind (parseStrtbl_spec d.strtbl s1 c1.wf) ?_
        intro r2 s2 ⟨c2, h2⟩
        obtain ⟨ret2, t⟩ := r2
        simp only at c2 h2 ⊢
        have hh2 := c2.hits
        have clF2 : Clean s s2 ([hdr] ++ c.owned) ((⟨hdr, some w, t⟩ : APars).owned ++ c.owned) := by
          have a1 : Clean s s1 ([hdr] ++ c.owned) ((([hdr] ++ c.owned) ++ ownedBufOpt (some w)) ++ []) := by simpa using clF1
          refine (Clean.step_l _ wf a1 c2).prod_perm ?_
          simp only [APars.owned, ownedBufOpt]
          perm_count
        by_cases hret2 : ret2 = OK
        · subst hret2
          simp only [bne_self_eq_false, Bool.false_eq_true, if_false]
          have hno2 : ¬ s1.hits < s2.hits := fun hh => h2 hh rfl
          refine Good.bind (checkPublicId_spec d.pubid s2 c2.wf) ?_
          intro found s3 ⟨c3, h3⟩
          have hh3 := c3.hits
          have clF3 : Clean s s3 ([hdr] ++ c.owned) ((⟨hdr, some w, t⟩ : APars).owned ++ c.owned) := by
            have a2 : Clean s s2 ([hdr] ++ c.owned) (((⟨hdr, some w, t⟩ : APars).owned ++ c.owned) ++ []) := by simpa using clF2
            simpa using Clean.step_l _ wf a2 c3
          cases found with
          | false =>
            simp only [Bool.not_false, if_true]
            exact good_ret.2 (hfail s3 EPUBID ⟨hdr, some w, t⟩ rfl clF3 (fun _ => by simp [EPUBID, OK]))
          | true =>
            simp only [Bool.not_true, Bool.false_eq_true, if_false]
            have hno3 : ¬ s2.hits < s3.hits := by intro h; have := h3 h; simp at this
            refine Good.bind (clbStartDocument_spec c s3 (clF3.owns.right.2 _ (tree_mem_owned c))) ?_
            intro c' s3' ⟨ec, es⟩
            subst ec; subst es
            refine Good.bind (parseBody_spec ⟨hdr, some w, t⟩ rfl c' d hd s3' c3.wf hok clF3.owns) ?_
            intro r4 s4 ⟨t4, ok4, cl4, e4, p4⟩
            obtain ⟨ret4, c4⟩ := r4
            simp only at t4 ok4 cl4 e4 p4 ⊢
            have hh4 := cl4.hits
            have cl4' : Clean s3' s4 c'.owned c4.owned := by simpa using cl4
            refine good_ret.2 ⟨rfl, t4, ok4, Clean.step_l _ wf clF3 cl4', fun hh => e4 (by omega), p4⟩
        · have hb : (ret2 != OK) = true := by simpa using hret2
          simp only [hb, if_true]
          exact good_ret.2 (hfail s2 ret2 ⟨hdr, some w, t⟩ rfl clF2 (fun _ => hret2))

/-- `wbxml_parser_destroy`. -/
theorem parserDestroy_spec (p : APars) (s : Ledger) (wf : s.WF) (own : Owns s p.owned) :
    Good (parserDestroy p) s (fun _ s' => Clean s s' p.owned [] ∧ s'.hits = s.hits ∧ s'.next = s.next) := by
  unfold parserDestroy
  simp only [bind_eq]
  refine Good.bind (deref_spec p.hdr s (own.2 _ (by simp [APars.owned]))) ?_
  intro _ s0 e0; have e0' := e0.symm; subst e0'
  have hperm : p.owned.Perm (ownedBufOpt p.wbxml ++ (ownedBufOpt p.strtbl ++ [p.hdr])) := by
    simp only [APars.owned]; perm_count
  have own' := own.perm hperm
  have cX0 : Clean s s p.owned (ownedBufOpt p.wbxml ++ (ownedBufOpt p.strtbl ++ [p.hdr])) := (Clean.id wf own).prod_perm hperm
  refine Good.bind (bufDestroy_spec p.wbxml s wf own'.left) ?_
  intro _ s1 ⟨d1, hd1, n1⟩
  have cX1 : Clean s s1 p.owned (ownedBufOpt p.strtbl ++ [p.hdr]) := by simpa using Clean.step_r _ wf cX0 d1
  refine Good.bind (bufDestroy_spec p.strtbl s1 d1.wf cX1.owns.left) ?_
  intro _ s2 ⟨d2, hd2, n2⟩
  have cX2 : Clean s s2 p.owned [p.hdr] := by simpa using Clean.step_r _ wf cX1 d2
  refine (free_spec (some p.hdr) s2 d2.wf (by intro a ha; cases ha; exact cX2.owns.2 _ (by simp))).mono ?_
  intro _ s3 ⟨d3, hd3, n3⟩
  have d3' : Clean s2 s3 [p.hdr] [] := by simpa using d3
  exact ⟨Clean.trans_recycle wf cX2 d3', by omega, by omega⟩

/-! ### `wbxml_tree_from_wbxml` -/

/-- `wbxml_tree_from_wbxml` for every well-formed document shape, whatever fails: no fault; an error
    code with nothing left allocated (parser, its buffers, the tags of the open elements, attribute
    tables, content buffers and the partial tree are all released), or `WBXML_OK` with the tree
    owning everything that is left; a failed request is reported as an error code. -/
theorem treeFromWbxml_spec (d : Doc) (hd : d.wf) (s : Ledger) (wf : s.WF) :
    Good (treeFromWbxml d) s (fun r s' =>
      Clean s s' [] (ownedCtxOpt r.2) ∧ (r.1 ≠ OK → r.2 = none) ∧ (s.hits < s'.hits → r.1 ≠ OK) ∧
      (∀ c, r.2 = some c → c.ok ∧ c.error = OK)) := by
  unfold treeFromWbxml
  simp only [bind_eq, pure_eq]
  refine Good.bind (malloc_spec s wf) ?_
  intro h s1 ⟨c1, h1⟩
  have hh1 := c1.hits
  cases h with
  | none =>
    exact good_ret.2 ⟨by simpa [ownedCtxOpt] using c1, fun _ => rfl, fun _ => by simp [ENOMEM, OK], fun c hc => by cases hc⟩
  | some h =>
    simp only
    have c1' : Clean s s1 [] [h] := by simpa using c1
    have hno1 : ¬ s.hits < s1.hits := by intro hh; have := h1 hh; simp at this
    refine Good.bind (treeCreate_spec s1 c1.wf) ?_
    intro c0 s2 ⟨c2, h2, hshape⟩
    have hh2 := c2.hits
    have cX2 : Clean s s2 [] ([h] ++ ownedCtxOpt c0) := Clean.trans_prod c1' c2
    cases c0 with
    | none =>
      simp only
      have cX2' : Clean s s2 [] (⟨h, none, none⟩ : APars).owned := by simpa [ownedCtxOpt, APars.owned, ownedBufOpt] using cX2
      refine Good.bind (parserDestroy_spec ⟨h, none, none⟩ s2 c2.wf cX2'.owns) ?_
      intro _ s3 ⟨d3, hd3, _⟩
      exact good_ret.2 ⟨by simpa [ownedCtxOpt] using Clean.trans_recycle wf cX2' d3, fun _ => rfl, fun _ => by simp [ENOMEM, OK],
        fun c hc => by cases hc⟩
    | some c0 =>
      simp only [ownedCtxOpt] at cX2 ⊢
      have hno2 : ¬ s1.hits < s2.hits := by intro hh; have := h2 hh; simp at this
      obtain ⟨t, hc0⟩ := hshape c0 rfl
      have hok0 : c0.ok := by subst hc0; unfold TCtx.ok; simp
      have herr0 : c0.error = OK := by subst hc0; rfl
      refine Good.bind (parserParse_spec h c0 d hd s2 c2.wf hok0 cX2.owns) ?_
      intro r s3 ⟨hp, t3, ok3, cl3, e3, p3⟩
      obtain ⟨ret, p, c⟩ := r
      simp only at hp t3 ok3 cl3 e3 p3 ⊢
      have hh3 := cl3.hits
      have cX3 : Clean s s3 [] (p.owned ++ c.owned) := Clean.trans_recycle wf cX2 cl3
      by_cases hbad : (ret != OK || c.error != OK) = true
      · simp only [hbad, if_true]
        have cX3' : Clean s s3 [] (c.owned ++ p.owned) := cX3.prod_perm List.perm_append_comm
        refine Good.bind (treeDestroy_spec c s3 cl3.wf cX3'.owns.left) ?_
        intro _ s4 ⟨d4, hd4, _⟩
        have cX4 : Clean s s4 [] p.owned := by simpa using Clean.step_r p.owned wf cX3' d4
        refine Good.bind (parserDestroy_spec p s4 d4.wf cX4.owns) ?_
        intro _ s5 ⟨d5, hd5, _⟩
        refine good_ret.2 ⟨by simpa [ownedCtxOpt] using Clean.trans_recycle wf cX4 d5, fun _ => rfl, fun _ => ?_, fun c' hc => by cases hc⟩
        by_cases hret : ret = OK
        · subst hret
          simp only [bne_self_eq_false, Bool.false_or, Bool.false_eq_true, if_false] at hbad ⊢
          simpa using hbad
        · have hb : (ret != OK) = true := by simpa using hret
          simp only [hb, if_true]
          exact hret
      · simp only [hbad, Bool.false_eq_true, if_false]
        have hgood : ret = OK ∧ c.error = OK := by
          simp only [Bool.or_eq_true, bne_iff_ne, ne_eq, not_or, Decidable.not_not] at hbad
          exact hbad
        refine Good.bind (parserDestroy_spec p s3 cl3.wf cX3.owns.left) ?_
        intro _ s4 ⟨d4, hd4, _⟩
        have cX4 : Clean s s4 [] c.owned := by simpa using Clean.step_r c.owned wf cX3 d4
        refine good_ret.2 ⟨by simpa [ownedCtxOpt] using cX4, fun hne => absurd rfl hne, fun hh => ?_, fun c' hc => ?_⟩
        · exfalso
          have := e3 (by omega)
          rcases this with h' | h'
          · exact h' hgood.1
          · exact h' hgood.2
        · cases hc; exact ⟨ok3, hgood.2⟩

end Wbxml.Model.Alloc
