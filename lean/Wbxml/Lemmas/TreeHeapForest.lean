/-
  C18 lemmas, part 4: the invariant.  The whole heap is described by ONE ghost shape `G`: its
  top-level chain lists the tree root and every detached sub-tree root (that chain exists in the
  ghost only — the real top cells have `parent = prev = next = NULL`), everything below a top cell
  is linked exactly as the shape says.

    Inv s  :=  ∃ G, links of every live cell are those of its position in G   (mutual consistency)
                   ∧ G has no repeated address                                 (acyclic, reached once)
                   ∧ every live cell occurs in G                               (reachable)
                   ∧ tree->root, if set, is a top of G
-/
import Wbxml.Lemmas.TreeHeapChain
set_option linter.unusedSimpArgs false
set_option linter.unusedVariables false
namespace Wbxml.Model.TreeHeap
open Wbxml Wbxml.Model

/-- Link condition of a cell at its position: a top cell (`par = none`) has no parent and no
    siblings; any other cell has the links of its position. -/
def LinkF (v : View) (par prv : Option Nat) (i : Nat) (f n : Option Nat) : Prop :=
  match par with
  | none => ∃ c, v i = some c ∧ c.parent = none ∧ c.prev = none ∧ c.first = f ∧ c.next = none ∧
      (c.pay.isBranch = true ∨ f = none)
  | some _ => LinkOK v par prv i f n

theorem loc_some_iff (v : View) : ∀ (t : BT) (p : Nat) (prv : Option Nat),
    Loc (LinkF v) (some p) prv t ↔ Match v (some p) prv t
  | .nil, _, _ => Iff.rfl
  | .node i ch nx, p, prv => by
    show (LinkF v (some p) prv i ch.rid nx.rid ∧ Loc (LinkF v) (some i) none ch ∧ Loc (LinkF v) (some p) (some i) nx) ↔
      (LinkOK v (some p) prv i ch.rid nx.rid ∧ Match v (some i) none ch ∧ Match v (some p) (some i) nx)
    rw [loc_some_iff v ch i none, loc_some_iff v nx p (some i)]
    exact Iff.rfl

structure Forest (s : St) (G : BT) : Prop where
  m : Loc (LinkF s.cellAt) none none G
  nodup : G.ids.Nodup
  cover : ∀ i c, s.cellAt i = some c → i ∈ G.ids
  root : ∀ r, s.root = some r → r ∈ G.tops

/-- The pointer invariant of C18. -/
def Inv (s : St) : Prop := ∃ G, Forest s G

/-! ### The top-level chain -/

/-- At the top level the local condition ignores the (ghost) neighbours. -/
theorem Loc.top_prv (v : View) : ∀ (G : BT) (prv prv' : Option Nat),
    Loc (LinkF v) none prv G → Loc (LinkF v) none prv' G
  | .nil, _, _, _ => trivial
  | .node i ch nx, _, _, ⟨ha, hc, hn⟩ => ⟨ha, hc, hn⟩

theorem Loc.top_facts (v : View) (n : Nat) : ∀ (G : BT) (prv : Option Nat),
    Loc (LinkF v) none prv G → n ∈ G.tops →
    ∃ c, v n = some c ∧ c.parent = none ∧ c.prev = none ∧ c.next = none ∧
      c.first = (BT.chainKids n G).rid ∧ (c.pay.isBranch = true ∨ (BT.chainKids n G) = .nil) ∧
      Match v (some n) none (BT.chainKids n G)
  | .nil, _, _, h => by simp [BT.tops] at h
  | .node i ch nx, prv, ⟨⟨c, hc, hp, hpv, hf, hnx, hb⟩, mc, mn⟩, h => by
    by_cases e : i = n
    · subst e
      have hck : BT.chainKids i (.node i ch nx) = ch := by simp [BT.chainKids]
      rw [hck]
      refine ⟨c, hc, hp, hpv, hnx, hf, ?_, (loc_some_iff v ch i none).mp mc⟩
      rcases hb with hb | hb
      · exact Or.inl hb
      · exact Or.inr (BT.rid_none hb)
    · simp only [BT.tops, List.mem_cons] at h
      have hn' : n ∈ nx.tops := by
        rcases h with h | h
        · exact absurd h.symm e
        · exact h
      have hck : BT.chainKids n (.node i ch nx) = BT.chainKids n nx := by simp [BT.chainKids, e]
      rw [hck]
      exact Loc.top_facts v n nx (some i) mn hn'

theorem Loc.top_remove (v : View) (n : Nat) : ∀ (G : BT) (prv : Option Nat),
    Loc (LinkF v) none prv G → Loc (LinkF v) none prv (BT.chainRemove n G)
  | .nil, _, _ => trivial
  | .node i ch nx, prv, ⟨ha, hc, hn⟩ => by
    simp only [BT.chainRemove]
    split
    · exact Loc.top_prv v nx _ _ hn
    · exact ⟨ha, hc, Loc.top_remove v n nx (some i) hn⟩

theorem Loc.top_snoc (v : View) (n : Nat) (chn : BT) : ∀ (G : BT) (prv : Option Nat),
    Loc (LinkF v) none prv G → LinkF v none none n chn.rid none → Match v (some n) none chn →
    Loc (LinkF v) none prv (BT.snoc G (.node n chn .nil))
  | .nil, prv, _, hn, hc => ⟨hn, (loc_some_iff v chn n none).mpr hc, trivial⟩
  | .node i ch nx, prv, ⟨ha, hc, hnx⟩, hn, hcn =>
    ⟨ha, hc, Loc.top_snoc v n chn nx (some i) hnx hn hcn⟩

/-! ### Addresses after removing a top -/

theorem BT.chainKids_sub (n : Nat) : ∀ (G : BT) (j : Nat), j ∈ (BT.chainKids n G).ids → j ∈ G.ids
  | .nil, j, h => by simp [BT.chainKids] at h
  | .node i ch nx, j, h => by
    simp only [BT.chainKids] at h
    split at h
    · exact BT.mem_node.mpr (Or.inr (Or.inl h))
    · exact BT.mem_node.mpr (Or.inr (Or.inr (BT.chainKids_sub n nx j h)))

theorem BT.mem_chainRemove (n : Nat) : ∀ (G : BT) (j : Nat), G.ids.Nodup → n ∈ G.tops →
    (j ∈ (BT.chainRemove n G).ids ↔ j ∈ G.ids ∧ j ≠ n ∧ j ∉ (BT.chainKids n G).ids)
  | .nil, j, _, h => by simp [BT.tops] at h
  | .node i ch nx, j, hnd, h => by
    obtain ⟨hi1, hi2, hcn, hnn, hd⟩ := BT.nodup_node.mp hnd
    by_cases e : i = n
    · subst e
      have h1 : BT.chainRemove i (.node i ch nx) = nx := by simp [BT.chainRemove]
      have h2 : BT.chainKids i (.node i ch nx) = ch := by simp [BT.chainKids]
      rw [h1, h2, BT.mem_node]
      constructor
      · intro hj
        exact ⟨Or.inr (Or.inr hj), fun ej => hi2 (ej ▸ hj), fun hc => hd j hc hj⟩
      · rintro ⟨hj | hj | hj, h1, h2⟩
        · exact absurd hj h1
        · exact absurd hj h2
        · exact hj
    · simp only [BT.tops, List.mem_cons] at h
      have hn' : n ∈ nx.tops := by
        rcases h with h | h
        · exact absurd h.symm e
        · exact h
      have h1 : BT.chainRemove n (.node i ch nx) = .node i ch (BT.chainRemove n nx) := by simp [BT.chainRemove, e]
      have h2 : BT.chainKids n (.node i ch nx) = BT.chainKids n nx := by simp [BT.chainKids, e]
      rw [h1, h2, BT.mem_node, BT.mem_node, BT.mem_chainRemove n nx j hnn hn']
      have hnid : n ∈ nx.ids := BT.tops_sub nx n hn'
      constructor
      · rintro (hj | hj | ⟨hj, h3, h4⟩)
        · subst hj
          exact ⟨Or.inl rfl, e, fun hc => hi2 (BT.chainKids_sub n nx j hc)⟩
        · exact ⟨Or.inr (Or.inl hj), fun ej => hd j hj (ej ▸ hnid), fun hc => hd j hj (BT.chainKids_sub n nx j hc)⟩
        · exact ⟨Or.inr (Or.inr hj), h3, h4⟩
      · rintro ⟨hj | hj | hj, h3, h4⟩
        · exact Or.inl hj
        · exact Or.inr (Or.inl hj)
        · exact Or.inr (Or.inr ⟨hj, h3, h4⟩)

theorem BT.nodup_chainRemove (n : Nat) : ∀ (G : BT), G.ids.Nodup → (BT.chainRemove n G).ids.Nodup
  | .nil, _ => by simp [BT.chainRemove]
  | .node i ch nx, hnd => by
    obtain ⟨hi1, hi2, hcn, hnn, hd⟩ := BT.nodup_node.mp hnd
    simp only [BT.chainRemove]
    split
    · exact hnn
    · refine BT.nodup_node.mpr ⟨hi1, ?_, hcn, BT.nodup_chainRemove n nx hnn, ?_⟩
      · intro h; exact hi2 (BT.chainRemove_ids n nx i h)
      · intro a ha h; exact hd a ha (BT.chainRemove_ids n nx a h)

theorem BT.tops_chainRemove (n : Nat) : ∀ (G : BT) (j : Nat), j ∈ G.tops → j ≠ n → j ∈ (BT.chainRemove n G).tops
  | .nil, j, h, _ => by simp [BT.tops] at h
  | .node i ch nx, j, h, hne => by
    simp only [BT.tops, List.mem_cons] at h
    simp only [BT.chainRemove]
    split
    · next e =>
      rcases h with h | h
      · exact absurd (h.trans e) hne
      · exact h
    · simp only [BT.tops, List.mem_cons]
      rcases h with h | h
      · exact Or.inl h
      · exact Or.inr (BT.tops_chainRemove n nx j h hne)

theorem BT.tops_snoc : ∀ (G s : BT) (j : Nat), j ∈ (BT.snoc G s).tops ↔ j ∈ G.tops ∨ j ∈ s.tops
  | .nil, s, j => by simp [BT.snoc, BT.tops]
  | .node i ch nx, s, j => by
    simp only [BT.snoc, BT.tops, List.mem_cons, BT.tops_snoc nx s j, or_assoc]

theorem BT.tops_setKids (P : Nat) (k : BT) : ∀ (G : BT), (BT.setKids P k G).tops = G.tops
  | .nil => rfl
  | .node i ch nx => by
    simp only [BT.setKids]
    split
    · rfl
    · simp only [BT.tops, BT.tops_setKids P k nx]

/-- The sub-tree of a top and the rest of the forest share no address. -/
theorem BT.chainKids_nodup (n : Nat) : ∀ (G : BT), G.ids.Nodup → n ∈ G.tops →
    (BT.chainKids n G).ids.Nodup ∧ n ∉ (BT.chainKids n G).ids
  | .nil, _, h => by simp [BT.tops] at h
  | .node i ch nx, hnd, h => by
    obtain ⟨hi1, hi2, hcn, hnn, hd⟩ := BT.nodup_node.mp hnd
    by_cases e : i = n
    · subst e
      have h2 : BT.chainKids i (.node i ch nx) = ch := by simp [BT.chainKids]
      rw [h2]; exact ⟨hcn, hi1⟩
    · simp only [BT.tops, List.mem_cons] at h
      have hn' : n ∈ nx.tops := by
        rcases h with h | h
        · exact absurd h.symm e
        · exact h
      have h2 : BT.chainKids n (.node i ch nx) = BT.chainKids n nx := by simp [BT.chainKids, e]
      rw [h2]; exact BT.chainKids_nodup n nx hnn hn'

/-! ### Facts about cells at a known position -/

/-- A live cell without parent is a top of the forest. -/
theorem Forest.parent_none_top {s : St} {G : BT} (hF : Forest s G) {n : Nat} {c : Cell}
    (hc : s.cellAt n = some c) (hp : c.parent = none) : n ∈ G.tops := by
  have hn := hF.cover n c hc
  -- walk the top chain
  have : ∀ (G : BT) (prv : Option Nat), Loc (LinkF s.cellAt) none prv G → n ∈ G.ids → n ∈ G.tops := by
    intro G
    induction G with
    | nil => intro _ _ h; simp at h
    | node i ch nx _ ih2 =>
      intro prv ⟨_, mc, mn⟩ h
      rcases BT.mem_node.mp h with h | h | h
      · simp [BT.tops, h]
      · obtain ⟨c', q, hc', hq⟩ := Match.parent_some ch i none ((loc_some_iff _ ch i none).mp mc) n h
        rw [hc] at hc'; injection hc' with hc'; subst hc'
        rw [hp] at hq; cases hq
      · simp only [BT.tops, List.mem_cons]; right; exact ih2 (some i) mn h
  exact this G none hF.m hn

/-- The link condition at the position of `P`, wherever it is. -/
theorem Loc.at_mem {A : Option Nat → Option Nat → Nat → Option Nat → Option Nat → Prop} (P : Nat) :
    ∀ (t : BT) (par prv : Option Nat), Loc A par prv t → P ∈ t.ids → t.ids.Nodup →
      ∃ par' prv' n, A par' prv' P (BT.kidsOf P t).rid n ∧ Loc A (some P) none (BT.kidsOf P t)
  | .nil, _, _, _, h, _ => by simp at h
  | .node i ch nx, par, prv, ⟨ha, hc, hn⟩, h, hnd => by
    obtain ⟨hi1, hi2, hcn, hnn, hd⟩ := BT.nodup_node.mp hnd
    by_cases e : i = P
    · subst e
      have : BT.kidsOf i (.node i ch nx) = ch := by simp [BT.kidsOf]
      rw [this]; exact ⟨par, prv, nx.rid, ha, hc⟩
    · have e' : ¬ P = i := fun x => e x.symm
      by_cases hm : P ∈ ch.ids
      · have : BT.kidsOf P (.node i ch nx) = BT.kidsOf P ch := by simp [BT.kidsOf, e, hm]
        rw [this]; exact Loc.at_mem P ch _ _ hc hm hcn
      · have hx : P ∈ nx.ids := by
          rcases BT.mem_node.mp h with h | h | h
          · exact absurd h e'
          · exact absurd h hm
          · exact h
        have : BT.kidsOf P (.node i ch nx) = BT.kidsOf P nx := by simp [BT.kidsOf, e, hm]
        rw [this]; exact Loc.at_mem P nx _ _ hn hx hnn

/-- The cell of any address of the forest, with its children chain matched. -/
theorem Forest.cell_kids {s : St} {G : BT} (hF : Forest s G) {P : Nat} (hP : P ∈ G.ids) :
    ∃ c, s.cellAt P = some c ∧ c.first = (BT.kidsOf P G).rid ∧
      (c.pay.isBranch = true ∨ BT.kidsOf P G = .nil) ∧ Match s.cellAt (some P) none (BT.kidsOf P G) := by
  obtain ⟨par', prv', n, ha, hk⟩ := Loc.at_mem P G none none hF.m hP hF.nodup
  have hk' := (loc_some_iff _ _ P none).mp hk
  cases par' with
  | none =>
    obtain ⟨c, hc, _, _, hf, _, hb⟩ := ha
    refine ⟨c, hc, hf, ?_, hk'⟩
    rcases hb with hb | hb
    · exact Or.inl hb
    · exact Or.inr (BT.rid_none hb)
  | some p =>
    obtain ⟨c, hc, _, _, hf, _, hb⟩ := ha
    refine ⟨c, hc, hf, ?_, hk'⟩
    rcases hb with hb | hb
    · exact Or.inl hb
    · exact Or.inr (BT.rid_none hb)

/-- Pigeonhole: repetition-free addresses below a bound are at most that many. -/
theorem nodup_bound : ∀ (n : Nat) (l : List Nat), l.Nodup → (∀ x, x ∈ l → x < n) → l.length ≤ n
  | 0, l, _, h => by
    cases l with
    | nil => simp
    | cons a r => exact absurd (h a (by simp)) (by omega)
  | n + 1, l, hnd, h => by
    by_cases hm : n ∈ l
    · have h1 := nodup_bound n (l.erase n) (hnd.erase n) (by
        intro x hx
        have := (List.Nodup.mem_erase_iff hnd).mp hx
        have := h x this.2
        omega)
      rw [List.length_erase_of_mem hm] at h1
      omega
    · have h1 := nodup_bound n l hnd (by
        intro x hx
        have := h x hx
        have : x ≠ n := fun e => hm (e ▸ hx)
        omega)
      omega

theorem Forest.size_le {s : St} {G : BT} (hF : Forest s G) : G.ids.length ≤ s.heap.length := by
  apply nodup_bound _ _ hF.nodup
  intro x hx
  -- every address of G is live
  have : ∀ (G : BT) (prv : Option Nat), Loc (LinkF s.cellAt) none prv G → ∀ x, x ∈ G.ids → ∃ c, s.cellAt x = some c := by
    intro G
    induction G with
    | nil => intro _ _ x h; simp at h
    | node i ch nx _ ih2 =>
      intro prv ⟨⟨c, hc, _⟩, mc, mn⟩ x h
      rcases BT.mem_node.mp h with h | h | h
      · subst h; exact ⟨c, hc⟩
      · exact Match.live ch _ _ ((loc_some_iff _ ch i none).mp mc) x h
      · exact ih2 (some i) mn x h
  obtain ⟨c, hc⟩ := this G none hF.m x hx
  exact cellAt_lt hc

theorem Forest.live {s : St} {G : BT} (hF : Forest s G) {x : Nat} (hx : x ∈ G.ids) : ∃ c, s.cellAt x = some c := by
  have : ∀ (G : BT) (prv : Option Nat), Loc (LinkF s.cellAt) none prv G → ∀ x, x ∈ G.ids → ∃ c, s.cellAt x = some c := by
    intro G
    induction G with
    | nil => intro _ _ x h; simp at h
    | node i ch nx _ ih2 =>
      intro prv ⟨⟨c, hc, _⟩, mc, mn⟩ x h
      rcases BT.mem_node.mp h with h | h | h
      · subst h; exact ⟨c, hc⟩
      · exact Match.live ch _ _ ((loc_some_iff _ ch i none).mp mc) x h
      · exact ih2 (some i) mn x h
  exact this G none hF.m x hx

theorem BT.tops_length_le : ∀ t : BT, t.tops.length ≤ t.ids.length
  | .nil => by simp [BT.tops]
  | .node i ch nx => by
    have := BT.tops_length_le nx
    simp only [BT.tops, BT.ids_node, List.length_cons, List.length_append]
    omega

theorem BT.sub_length_le (P : Nat) (t : BT) (hnd : t.ids.Nodup) : (BT.kidsOf P t).ids.length ≤ t.ids.length := by
  -- a repetition-free list inside another one
  have h1 := (BT.kidsOf_nodup P t hnd).1
  have : ∀ (l m : List Nat), l.Nodup → (∀ x, x ∈ l → x ∈ m) → l.length ≤ m.length := by
    intro l
    induction l with
    | nil => intro m _ _; simp
    | cons a r ih =>
      intro m hnd hsub
      have ham : a ∈ m := hsub a (by simp)
      have hr := ih (m.erase a) (List.nodup_cons.mp hnd).2 (by
        intro x hx
        have hxa : x ≠ a := fun e => (List.nodup_cons.mp hnd).1 (e ▸ hx)
        exact (List.mem_erase_of_ne hxa).mpr (hsub x (by simp [hx])))
      rw [List.length_erase_of_mem ham] at hr
      have : 0 < m.length := List.length_pos_of_mem ham
      simp only [List.length_cons]
      omega
  exact this _ _ h1 (fun x hx => BT.kidsOf_mem P t x hx)

end Wbxml.Model.TreeHeap
