/-
  Lemmas for C14: steps of distinct threads commute (updates at distinct indices commute), the
  projection of a run on one thread is that thread's own iteration, and enough iterations of a
  thread equal its sequential run.
-/
import Wbxml.Model.Conc
namespace Wbxml.Model.Conc

variable {Sh L Op Out : Type} {n : Nat}

/-! ### Point updates -/

theorem upd_same {α : Type} (f : Fin n → α) (i : Fin n) (v : α) : upd f i v i = v := by
  simp [upd]

theorem upd_other {α : Type} (f : Fin n → α) {i j : Fin n} (h : j ≠ i) (v : α) : upd f i v j = f j := by
  simp [upd, h]

/-- Updates at distinct indices commute. -/
theorem upd_comm {α : Type} (f : Fin n → α) {i j : Fin n} (h : i ≠ j) (v w : α) :
    upd (upd f i v) j w = upd (upd f j w) i v := by
  funext k
  simp only [upd]
  by_cases h1 : k = j
  · subst h1
    have h2 : ¬ k = i := fun e => h e.symm
    simp [h2]
  · by_cases h2 : k = i
    · subst h2; simp [h1]
    · simp [h1, h2]

/-! ### One step -/

/-- What a step of thread `i` does to the shared state and to each thread, for ANY machine. -/
theorem stepThread_th (M : Machine Sh L Op Out) (i j : Fin n) (c : Config n Sh L Op Out) :
    (stepThread M i c).th j = if j = i then localStep M c.sh (c.th i) else c.th j := by
  cases h : (c.th i).todo with
  | nil =>
    by_cases hj : j = i
    · subst hj; simp [stepThread, localStep, h]
    · simp [stepThread, h, hj]
  | cons op rest =>
    by_cases hj : j = i
    · subst hj; simp [stepThread, localStep, h, upd]
    · simp [stepThread, h, hj, upd]

/-- A read-only machine never changes the shared state. -/
theorem stepThread_sh (M : Machine Sh L Op Out) (hro : M.ReadOnly) (i : Fin n) (c : Config n Sh L Op Out) :
    (stepThread M i c).sh = c.sh := by
  cases h : (c.th i).todo with
  | nil => simp [stepThread, h]
  | cons op rest => simp [stepThread, h, hro c.sh (c.th i).loc op]

theorem config_ext {c d : Config n Sh L Op Out} (h1 : c.sh = d.sh) (h2 : ∀ j, c.th j = d.th j) : c = d := by
  cases c; cases d
  simp only [Config.mk.injEq]
  exact ⟨h1, funext h2⟩

/-- **Steps of distinct threads commute** (the shared state is not written, and the two steps
    update the thread family at distinct indices). -/
theorem stepThread_comm (M : Machine Sh L Op Out) (hro : M.ReadOnly) {i j : Fin n} (hij : i ≠ j)
    (c : Config n Sh L Op Out) :
    stepThread M i (stepThread M j c) = stepThread M j (stepThread M i c) := by
  apply config_ext
  · rw [stepThread_sh M hro, stepThread_sh M hro, stepThread_sh M hro, stepThread_sh M hro]
  · intro k
    simp only [stepThread_th, stepThread_sh M hro]
    by_cases hki : k = i
    · subst hki
      simp [hij]
    · by_cases hkj : k = j
      · subst hkj
        simp [hki]
      · simp [hki, hkj]

/-! ### Runs -/

theorem run_append (M : Machine Sh L Op Out) (s t : List (Fin n)) (c : Config n Sh L Op Out) :
    run M (s ++ t) c = run M t (run M s c) := by
  induction s generalizing c with
  | nil => rfl
  | cons i s ih => simp [run, ih]

/-- Swapping two adjacent turns of distinct threads anywhere in a schedule changes nothing. -/
theorem run_swap_adjacent (M : Machine Sh L Op Out) (hro : M.ReadOnly) {i j : Fin n} (hij : i ≠ j)
    (a b : List (Fin n)) (c : Config n Sh L Op Out) :
    run M (a ++ i :: j :: b) c = run M (a ++ j :: i :: b) c := by
  rw [run_append, run_append]
  simp only [run]
  rw [stepThread_comm M hro (Ne.symm hij)]

theorem run_sh (M : Machine Sh L Op Out) (hro : M.ReadOnly) (s : List (Fin n)) (c : Config n Sh L Op Out) :
    (run M s c).sh = c.sh := by
  induction s generalizing c with
  | nil => rfl
  | cons i s ih => simp [run, ih, stepThread_sh M hro]

theorem iter_succ' {α : Type} (f : α → α) (k : Nat) (a : α) : iter f (k + 1) a = iter f k (f a) := rfl

/-- **Projection**: after any schedule, thread `i` is where `count i` of its own local steps put it —
    whatever the other threads did in between. -/
theorem run_th (M : Machine Sh L Op Out) (hro : M.ReadOnly) (s : List (Fin n)) (c : Config n Sh L Op Out)
    (i : Fin n) : (run M s c).th i = iter (localStep M c.sh) (s.count i) (c.th i) := by
  induction s generalizing c with
  | nil => rfl
  | cons j s ih =>
    simp only [run]
    rw [ih, stepThread_sh M hro, stepThread_th]
    by_cases hji : j = i
    · subst hji
      simp [iter_succ']
    · have hij : ¬ i = j := fun h => hji h.symm
      simp [hji, hij]

/-! ### A thread on its own -/

/-- The sequential run under a fixed shared state (what `seqRun` computes when nothing writes it). -/
def seqLocal (M : Machine Sh L Op Out) (sh : Sh) : L → List Op → L × List Out
  | l, [] => (l, [])
  | l, op :: ops =>
    let r := M.step sh l op
    let t := seqLocal M sh r.2.1 ops
    (t.1, r.2.2 :: t.2)

theorem seqRun_readOnly (M : Machine Sh L Op Out) (hro : M.ReadOnly) (sh : Sh) (l : L) (ops : List Op) :
    seqRun M sh l ops = (sh, seqLocal M sh l ops) := by
  induction ops generalizing l with
  | nil => rfl
  | cons op ops ih =>
    simp only [seqRun, seqLocal]
    rw [hro sh l op, ih]

/-- After `k` local steps a thread has produced the first `k` results of its sequential run. -/
theorem iter_outs_prefix (M : Machine Sh L Op Out) (sh : Sh) (k : Nat) (t : Thread L Op Out) :
    (iter (localStep M sh) k t).outs = t.outs ++ (seqLocal M sh t.loc t.todo).2.take k := by
  induction k generalizing t with
  | zero => simp [iter]
  | succ k ih =>
    obtain ⟨loc, todo, outs⟩ := t
    cases todo with
    | nil =>
      have : localStep M sh { loc := loc, todo := [], outs := outs } = { loc := loc, todo := [], outs := outs } := rfl
      rw [iter_succ', this, ih]
      simp [seqLocal]
    | cons op rest =>
      rw [iter_succ']
      have : localStep M sh { loc := loc, todo := op :: rest, outs := outs }
          = { loc := (M.step sh loc op).2.1, todo := rest, outs := outs ++ [(M.step sh loc op).2.2] } := rfl
      rw [this, ih]
      simp [seqLocal]

/-- Enough local steps finish the program: local state and results are those of the sequential run. -/
theorem iter_complete (M : Machine Sh L Op Out) (sh : Sh) (k : Nat) (t : Thread L Op Out)
    (hk : t.todo.length ≤ k) :
    iter (localStep M sh) k t =
      { loc := (seqLocal M sh t.loc t.todo).1, todo := [], outs := t.outs ++ (seqLocal M sh t.loc t.todo).2 } := by
  induction k generalizing t with
  | zero =>
    obtain ⟨loc, todo, outs⟩ := t
    cases todo with
    | nil => simp [iter, seqLocal]
    | cons op rest => simp at hk
  | succ k ih =>
    obtain ⟨loc, todo, outs⟩ := t
    cases todo with
    | nil =>
      have : localStep M sh { loc := loc, todo := [], outs := outs } = { loc := loc, todo := [], outs := outs } := rfl
      rw [iter_succ', this, ih _ (by simp)]
    | cons op rest =>
      have : localStep M sh { loc := loc, todo := op :: rest, outs := outs }
          = { loc := (M.step sh loc op).2.1, todo := rest, outs := outs ++ [(M.step sh loc op).2.2] } := rfl
      rw [iter_succ', this, ih _ (by simp at hk ⊢; omega)]
      simp [seqLocal]

/-! ### Complete schedules exist -/

theorem count_flatMap_replicate (progs : Fin n → List Op) (i : Fin n) (l : List (Fin n)) :
    (l.flatMap (fun j => List.replicate (progs j).length j)).count i = l.count i * (progs i).length := by
  induction l with
  | nil => simp
  | cons j l ih =>
    simp only [List.flatMap_cons, List.count_append, ih, List.count_cons, List.count_replicate]
    by_cases hji : j = i
    · subst hji; simp [Nat.add_mul, Nat.add_comm]
    · simp [hji]

theorem count_finRange (i : Fin n) : (List.finRange n).count i = 1 :=
by
  rw [List.Nodup.count (List.nodup_finRange n)]
  simp [List.mem_finRange]

theorem sequentialSchedule_count (progs : Fin n → List Op) (i : Fin n) :
    (sequentialSchedule progs).count i = (progs i).length := by
  simp [sequentialSchedule, count_flatMap_replicate, count_finRange]

theorem sequentialSchedule_complete (progs : Fin n → List Op) : Complete progs (sequentialSchedule progs) :=
  fun i => Nat.le_of_eq (sequentialSchedule_count progs i).symm

end Wbxml.Model.Conc
