/-
  C19 — one API call refines one step of the reference machine; whole histories by induction.
-/
import Wbxml.Lemmas.BufSearch
import Wbxml.Lemmas.BufHex
set_option linter.unusedSimpArgs false
namespace Wbxml.Model
open Wbxml Wbxml.Spec.Seq

/-- The contents-level codecs the model uses (C11 owns their algebra). -/
def codec : Codec := ⟨b64Enc, b64Dec, mbOctets⟩

/-- What the reference sees of a concrete result: returned buffers are their contents. -/
def absOut : COut → Out
  | .bool b => .bool b
  | .nat n => .nat n
  | .optByte o => .optByte o
  | .optNat o => .optNat o
  | .sign i => .sign i
  | .bytes bs => .bytes bs
  | .buf b => .bytes b.abs
  | .bufs l => .words (l.map Buf.abs)
  | .unit => .unit

/-- Buffers handed out by an operation (duplicate, split_words) are well-formed dynamic buffers. -/
def OutOK : COut → Prop
  | .buf b => Buf.DynInv b
  | .bufs l => ∀ x ∈ l, Buf.DynInv x
  | _ => True

namespace Buf

/-- The reference state a concrete buffer denotes. -/
def sOf (b : Buf) : State := ⟨b.abs, b.isStatic⟩

theorem setChar_spec {b : Buf} {c : Bytes} (h : Rep b c) (pos : Nat) (ch : UInt8) :
    ∃ b', b.setChar pos ch = .ok (b', decide (pos < c.length)) ∧
      Rep b' (if pos < c.length then c.set pos ch else c) := by
  by_cases hp : pos < c.length
  · obtain ⟨b', hb, hr, _⟩ := setChar_rep h pos ch hp
    exact ⟨b', by simpa [hp] using hb, by simpa [hp] using hr⟩
  · exact ⟨b, by simpa [hp] using setChar_oob (b := b) pos ch (by rw [h.len]; omega), by simpa [hp] using h⟩

/-- Queries: any buffer with a view answers like the reference and is left untouched. -/
theorem step_query {b : Buf} {c : Bytes} (h : View b c) (op : Op) (hq : mutate codec c op = none)
    (hn : op ≠ .noSpaces) :
    ∃ o, b.step op = .ok (b, o) ∧ absOut o = query c op ∧ OutOK o := by
  cases op with
  | len => exact ⟨.nat b.len, rfl, by simp [absOut, query, h.2], trivial⟩
  | getChar pos => exact ⟨.optByte c[pos]?, by simp [step, getChar_view h], rfl, trivial⟩
  | getCstr => exact ⟨.bytes c, by simp [step, getCstr_view h], rfl, trivial⟩
  | duplicate =>
    obtain ⟨d, hd, hr⟩ := duplicate_view h
    exact ⟨.buf d, by simp [step, hd], by simp [absOut, query, hr.2], hr.1⟩
  | compare a =>
    obtain ⟨o, ho, hc⟩ := compare_spec h a
    exact ⟨.sign _, by simp only [step, ho, hc], rfl, trivial⟩
  | compareCstr s => exact ⟨.sign _, by simp only [step, compareCstr_spec h s], rfl, trivial⟩
  | splitWords =>
    obtain ⟨l, hl, hm, hi⟩ := splitWords_spec h
    exact ⟨.bufs l, by simp [step, hl], by simp [absOut, query, hm], hi⟩
  | searchChar ch pos => exact ⟨.optNat _, by simp only [step, searchChar_spec h ch pos], rfl, trivial⟩
  | search a pos =>
    obtain ⟨o, ho, hc⟩ := search_spec h a pos
    exact ⟨.optNat _, by simp only [step, ho, hc], rfl, trivial⟩
  | searchCstr s pos => exact ⟨.optNat _, by simp only [step, searchCstr_spec h s pos], rfl, trivial⟩
  | onlyWs => exact ⟨.bool _, by simp only [step, onlyWs_spec h], rfl, trivial⟩
  | noSpaces => exact absurd rfl hn
  | setChar _ _ => simp [mutate] at hq
  | insert _ _ => simp [mutate] at hq
  | insertCstr _ _ => simp [mutate] at hq
  | insertSelf _ => simp [mutate] at hq
  | appendSelf => simp [mutate] at hq
  | append _ => simp [mutate] at hq
  | appendData _ => simp [mutate] at hq
  | appendCstr _ => simp [mutate] at hq
  | appendChar _ => simp [mutate] at hq
  | appendMb _ => simp [mutate] at hq
  | delete _ _ => simp [mutate] at hq
  | shrink => simp [mutate] at hq
  | strip => simp [mutate] at hq
  | rtz => simp [mutate] at hq
  | hexToBin => simp [mutate] at hq
  | binToHex _ => simp [mutate] at hq
  | decB64 => simp [mutate] at hq
  | encB64 => simp [mutate] at hq

/-- Mutations on a well-formed dynamic buffer inside the contract. -/
theorem step_mutate {b : Buf} {c : Bytes} (h : Rep b c) (op : Op) (xs : Bytes) (ok : Bool)
    (hm : mutate codec c op = some (xs, ok)) (hx : ¬ excluded ⟨c, false⟩ op) (hsz : c.length < 4294967296) :
    ∃ b', b.step op = .ok (b', .bool ok) ∧ Rep b' xs := by
  cases op with
  | setChar pos ch =>
    obtain ⟨b', hb, hr⟩ := setChar_spec h pos ch
    simp only [mutate, Option.some.injEq] at hm
    refine ⟨b', ?_, ?_⟩
    · simp only [step, liftB, hb]
      by_cases hp : pos < c.length <;> simp [hp] at hm ⊢ <;> exact hm.2
    · by_cases hp : pos < c.length <;> simp [hp] at hm hr <;> rw [← hm.1] <;> exact hr
  | insert a pos =>
    obtain ⟨s, hs, b', hb, hr⟩ := insert_spec h a pos
    simp only [mutate, Option.some.injEq] at hm
    rw [hm] at hb hr
    exact ⟨b', by simp only [step, hs, liftB, hb], hr⟩
  | insertCstr s pos =>
    obtain ⟨b', hb, hr⟩ := insertCstr_spec h s pos
    simp only [mutate, Option.some.injEq] at hm
    rw [hm] at hb hr
    exact ⟨b', by simp only [step, liftB, hb], hr⟩
  | insertSelf pos =>
    obtain ⟨b', hb, hr⟩ := insertSelf_spec h pos
    simp only [mutate, Option.some.injEq] at hm
    rw [hm] at hb hr
    exact ⟨b', by simp only [step, liftB, hb], hr⟩
  | appendSelf =>
    obtain ⟨b', hb, hr⟩ := appendSelf_spec h
    simp only [mutate, Option.some.injEq, Prod.mk.injEq] at hm
    rw [← hm.1, ← hm.2]
    exact ⟨b', by simp only [step, liftB, hb], hr⟩
  | append a =>
    obtain ⟨s, hs, b', hb, hr⟩ := append_spec h a
    simp only [mutate, Option.some.injEq] at hm
    rw [hm] at hb hr
    exact ⟨b', by simp only [step, hs, liftB, hb], hr⟩
  | appendData d =>
    obtain ⟨b', hb, hr⟩ := appendData_spec h d
    simp only [mutate, Option.some.injEq] at hm
    rw [hm] at hb hr
    exact ⟨b', by simp only [step, liftB, hb], hr⟩
  | appendCstr s =>
    obtain ⟨b', hb, hr⟩ := appendCstr_spec h s
    simp only [mutate, Option.some.injEq] at hm
    rw [hm] at hb hr
    exact ⟨b', by simp only [step, liftB, hb], hr⟩
  | appendChar ch =>
    obtain ⟨b', hb, hr⟩ := appendChar_spec h ch
    simp only [mutate, Option.some.injEq, Prod.mk.injEq] at hm
    rw [← hm.1, ← hm.2]
    exact ⟨b', by simp only [step, liftB, hb], hr⟩
  | appendMb v =>
    obtain ⟨b', hb, hr⟩ := appendMb_spec h v
    simp only [mutate, Option.some.injEq, Prod.mk.injEq, codec] at hm
    rw [← hm.1, ← hm.2]
    exact ⟨b', by simp only [step, liftB, hb], hr⟩
  | delete pos n =>
    obtain ⟨b', hb, hr, _⟩ := delete_spec h pos n (by
      intro hh; exact hx ⟨rfl, hh.1, hh.2.1, hh.2.2⟩)
    simp only [mutate, Option.some.injEq] at hm
    rw [hm] at hb hr
    exact ⟨b', by simp only [step, liftB, hb], hr⟩
  | shrink =>
    obtain ⟨b', hb, hr⟩ := shrinkBlanks_spec h
    simp only [mutate, Option.some.injEq, Prod.mk.injEq] at hm
    rw [← hm.1, ← hm.2]
    exact ⟨b', by simp only [step, liftB, hb], hr⟩
  | strip =>
    obtain ⟨b', hb, hr⟩ := stripBlanks_spec h hsz
    simp only [mutate, Option.some.injEq, Prod.mk.injEq] at hm
    rw [← hm.1, ← hm.2]
    exact ⟨b', by simp only [step, liftB, hb], hr⟩
  | rtz =>
    obtain ⟨b', hb, hr⟩ := removeTrailingZeros_spec h
    simp only [mutate, Option.some.injEq, Prod.mk.injEq] at hm
    rw [← hm.1, ← hm.2]
    exact ⟨b', by simp only [step, liftB, hb], hr⟩
  | hexToBin =>
    obtain ⟨b', hb, hr⟩ := hexToBinary_spec h
    simp only [mutate, Option.some.injEq, Prod.mk.injEq] at hm
    rw [← hm.1, ← hm.2]
    exact ⟨b', by simp only [step, liftB, hb], hr⟩
  | binToHex u =>
    obtain ⟨b', hb, hr⟩ := binaryToHex_spec h u
    simp only [mutate, Option.some.injEq, Prod.mk.injEq] at hm
    rw [← hm.1, ← hm.2]
    exact ⟨b', by simp only [step, liftB, hb], hr⟩
  | decB64 =>
    obtain ⟨b', hb, hr⟩ := decodeBase64_spec h
    simp only [mutate, Option.some.injEq, codec] at hm
    refine ⟨b', ?_, ?_⟩
    · simp only [step, liftB, hb]
      by_cases hd : (b64Dec (Spec.Seq.noSpaces c)).isEmpty = true <;> simp [hd] at hm ⊢ <;> exact hm.2
    · by_cases hd : (b64Dec (Spec.Seq.noSpaces c)).isEmpty = true <;> simp [hd] at hm hr <;> rw [← hm.1] <;> exact hr
  | encB64 =>
    obtain ⟨b', hb, hr⟩ := encodeBase64_spec h
    simp only [mutate, Option.some.injEq, codec] at hm
    refine ⟨b', ?_, ?_⟩
    · simp only [step, liftB, hb]
      by_cases hd : c.isEmpty = true <;> simp [hd] at hm ⊢ <;> exact hm.2
    · by_cases hd : c.isEmpty = true <;> simp [hd] at hm hr <;> rw [← hm.1] <;> exact hr
  | len => simp [mutate] at hm
  | getChar _ => simp [mutate] at hm
  | getCstr => simp [mutate] at hm
  | duplicate => simp [mutate] at hm
  | noSpaces => simp [mutate] at hm
  | compare _ => simp [mutate] at hm
  | compareCstr _ => simp [mutate] at hm
  | splitWords => simp [mutate] at hm
  | searchChar _ _ => simp [mutate] at hm
  | search _ _ => simp [mutate] at hm
  | searchCstr _ _ => simp [mutate] at hm
  | onlyWs => simp [mutate] at hm

/-- A static buffer refuses every mutation and is left exactly as it was. -/
theorem step_static_mutate {b : Buf} (hs : b.isStatic = true) (c : Bytes) (op : Op) (r : Bytes × Bool)
    (hm : mutate codec c op = some r) :
    b.step op = .ok (b, .bool false) := by
  cases op with
  | setChar pos ch => simp [step, liftB, setChar_static hs]
  | insert a pos =>
    rcases ofArg_spec a with ⟨_, ho⟩ | ⟨s, _, _, ho, _, _⟩ <;> simp [step, ho, liftB, insert_static hs]
  | insertCstr s pos => simp [step, liftB, insertCstr_static hs]
  | insertSelf pos => simp [step, liftB, insertSelf_static hs]
  | appendSelf => simp [step, liftB, appendSelf_static hs]
  | append a =>
    rcases ofArg_spec a with ⟨_, ho⟩ | ⟨s, _, _, ho, _, _⟩ <;> simp [step, ho, liftB, append_static hs]
  | appendData d => simp [step, liftB, appendData_static hs]
  | appendCstr s => simp [step, liftB, appendCstr_static hs]
  | appendChar ch => simp [step, liftB, appendChar_static hs]
  | appendMb v => simp [step, liftB, appendMb_static hs]
  | delete pos n => simp [step, liftB, delete_static hs]
  | shrink => simp [step, liftB, shrinkBlanks_static hs]
  | strip => simp [step, liftB, stripBlanks_static hs]
  | rtz => simp [step, liftB, removeTrailingZeros_static hs]
  | hexToBin => simp [step, liftB, hexToBinary_static hs]
  | binToHex u => simp [step, liftB, binaryToHex_static hs]
  | decB64 => simp [step, liftB, decodeBase64_static hs]
  | encB64 => simp [step, liftB, encodeBase64_static hs]
  | len => simp [mutate] at hm
  | getChar _ => simp [mutate] at hm
  | getCstr => simp [mutate] at hm
  | duplicate => simp [mutate] at hm
  | noSpaces => simp [mutate] at hm
  | compare _ => simp [mutate] at hm
  | compareCstr _ => simp [mutate] at hm
  | splitWords => simp [mutate] at hm
  | searchChar _ _ => simp [mutate] at hm
  | search _ _ => simp [mutate] at hm
  | searchCstr _ _ => simp [mutate] at hm
  | onlyWs => simp [mutate] at hm

theorem Inv.isStatic_cases {b : Buf} (h : Inv b) :
    (b.isStatic = false ∧ Rep b b.abs) ∨ (b.isStatic = true ∧ StaInv b) := by
  rcases h with h | h
  · exact Or.inl ⟨h.1, h, rfl⟩
  · exact Or.inr ⟨h.1, h⟩

/-- One operation: the model does not fault, the new buffer is well formed and denotes what the
    reference machine holds, and the observable result is the reference's. -/
theorem step_refines {b : Buf} (h : Inv b) (op : Op) (hx : ¬ excluded (sOf b) op)
    (hsz : b.abs.length < 4294967296) :
    ∃ b' o, b.step op = .ok (b', o) ∧ Inv b' ∧ sOf b' = (Spec.Seq.step codec (sOf b) op).1 ∧
      absOut o = (Spec.Seq.step codec (sOf b) op).2 ∧ OutOK o := by
  by_cases hns : op = .noSpaces
  · subst hns
    rcases h.isStatic_cases with ⟨hd, hr⟩ | ⟨hs, hi⟩
    · obtain ⟨b', hb, hr'⟩ := noSpaces_spec hr
      refine ⟨b', .unit, by simp [step, hb], Or.inl hr'.1, ?_, ?_, trivial⟩
      · simp [sOf, Spec.Seq.step, hd, hr'.2, hr'.dyn]
      · simp [Spec.Seq.step, absOut]
    · refine ⟨b, .unit, by simp [step, noSpaces_static hs], Or.inr hi, ?_, ?_, trivial⟩
      · simp [sOf, Spec.Seq.step, hs]
      · simp [Spec.Seq.step, absOut]
  · have hstep : Spec.Seq.step codec (sOf b) op =
        (match mutate codec (sOf b).bytes op with
         | some (xs, ok) => if (sOf b).isStatic then (sOf b, .bool false) else ({ sOf b with bytes := xs }, .bool ok)
         | none => (sOf b, query (sOf b).bytes op)) := by
      cases op <;> first | rfl | exact absurd rfl hns
    rw [hstep]
    cases hm : mutate codec (sOf b).bytes op with
    | none =>
      obtain ⟨o, ho, ha, hok⟩ := step_query h.view op hm hns
      exact ⟨b, o, ho, h, rfl, ha, hok⟩
    | some r =>
      obtain ⟨xs, ok⟩ := r
      rcases h.isStatic_cases with ⟨hd, hr⟩ | ⟨hs, hi⟩
      · have hx' : ¬ excluded ⟨b.abs, false⟩ op := by simpa [sOf, hd] using hx
        obtain ⟨b', hb, hr'⟩ := step_mutate hr op xs ok hm hx' hsz
        refine ⟨b', .bool ok, hb, Or.inl hr'.1, ?_, ?_, trivial⟩
        · simp [sOf, hd, hr'.2, hr'.dyn]
        · simp [sOf, hd, absOut]
      · refine ⟨b, .bool false, step_static_mutate hs _ op _ hm, Or.inr hi, ?_, ?_, trivial⟩
        · simp [sOf, hs]
        · simp [sOf, hs, absOut]

/-- The size assumption made explicit: every state of the reference run stays below 2^32 bytes. -/
def Sized (s : State) : List Op → Prop
  | [] => True
  | op :: ops => s.bytes.length < 4294967296 ∧ Sized (Spec.Seq.step codec s op).1 ops

/-- All finite histories, by induction over the operation list. -/
theorem run_refines (ops : List Op) : ∀ (b : Buf), Inv b → Contract codec (sOf b) ops → Sized (sOf b) ops →
    ∃ b' outs, b.run ops = .ok (b', outs) ∧ Inv b' ∧ sOf b' = (Spec.Seq.run codec (sOf b) ops).1 ∧
      outs.map absOut = (Spec.Seq.run codec (sOf b) ops).2 ∧ ∀ o ∈ outs, OutOK o := by
  induction ops with
  | nil => intro b h _ _; exact ⟨b, [], rfl, h, rfl, rfl, by simp⟩
  | cons op ops ih =>
    intro b h hc hs
    obtain ⟨b1, o, hb1, hi1, hs1, ho1, hok1⟩ := step_refines h op hc.1 hs.1
    obtain ⟨b2, outs, hb2, hi2, hs2, ho2, hok2⟩ := ih b1 hi1 (by rw [hs1]; exact hc.2) (by rw [hs1]; exact hs.2)
    refine ⟨b2, o :: outs, by simp [run, hb1, hb2], hi2, ?_, ?_, ?_⟩
    · simp only [Spec.Seq.run]; rw [← hs1]; exact hs2
    · simp only [Spec.Seq.run, List.map_cons, ho1]; rw [← hs1, ← ho2]
    · intro x hx'
      rcases List.mem_cons.mp hx' with rfl | hx'
      · exact hok1
      · exact hok2 x hx'

end Buf
end Wbxml.Model
