/-
  Lemmas for the Wireless-Village date-time codec (C12).
-/
import Wbxml.Model.Typed.WvDate
import Wbxml.Lemmas.TypedWvInt
import Wbxml.Lemmas.TypedDatetime
namespace Wbxml.Lemmas.Typed
open Wbxml Wbxml.Model.Typed Wbxml.Spec.Calendar

theorem digitChar_eq_dig (n : Nat) : digitChar n = dig n := rfl

/-! ### `%02u`, `%04u` -/

theorem padNat2 (v : Nat) (h : v < 100) : padNat 2 v = d2 v := by
  unfold padNat d2
  by_cases h10 : v < 10
  · rw [decNat_lt h10]
    have : dig (v / 10) = 0x30 := by
      have : v / 10 = 0 := by omega
      rw [this]; decide
    simp [this, digitChar_eq_dig]
  · rw [decNat_ge (by omega), decNat_lt (by omega)]
    simp [digitChar_eq_dig]

theorem padNat4 (y : Nat) (h : y < 10000) : padNat 4 y = d4 y := by
  have z : (0x30 : UInt8) = dig 0 := by decide
  unfold padNat d4
  by_cases h10 : y < 10
  · rw [decNat_lt h10]
    have e1 : y / 1000 = 0 := by omega
    have e2 : y / 100 = 0 := by omega
    have e3 : y / 10 = 0 := by omega
    simp [e1, e2, e3, digitChar_eq_dig, List.replicate, z]
  · by_cases h100 : y < 100
    · rw [decNat_ge (by omega), decNat_lt (by omega)]
      have e1 : y / 1000 = 0 := by omega
      have e2 : y / 100 = 0 := by omega
      simp [e1, e2, digitChar_eq_dig, List.replicate, z]
    · by_cases h1000 : y < 1000
      · rw [decNat_ge (by omega), decNat_ge (by omega), decNat_lt (by omega)]
        have e1 : y / 1000 = 0 := by omega
        have e2 : y / 10 / 10 = y / 100 := by omega
        simp [e1, e2, digitChar_eq_dig, z]
      · rw [decNat_ge (by omega), decNat_ge (by omega), decNat_ge (by omega), decNat_lt (by omega)]
        have e2 : y / 10 / 10 = y / 100 := by omega
        have e1 : y / 100 / 10 = y / 1000 := by omega
        simp [e2, e1, digitChar_eq_dig]

/-! ### the bit fields -/

theorem toNat_ofNat_lt (x : Nat) (h : x < 256) : (UInt8.ofNat x).toNat = x := by
  rw [UInt8.toNat_ofNat']; omega

/-- Unpacking the five octets gives back the six fields when each fits its bit width. -/
theorem wvFields_wvOctets (y mo d h mi s : Nat)
    (hy : y ≤ 4095) (hmo : mo ≤ 15) (hd : d ≤ 31) (hh : h ≤ 31) (hmi : mi ≤ 63) (hs : s ≤ 63) :
    ∃ o0 o1 o2 o3 o4, wvOctets y mo d h mi s = [o0, o1, o2, o3, o4] ∧
      o0 < 256 ∧ o1 < 256 ∧ o2 < 256 ∧ o3 < 256 ∧ o4 < 256 ∧
      wvFields o0 o1 o2 o3 o4 = ⟨y, mo, d, h, mi, s⟩ := by
  refine ⟨_, _, _, _, _, rfl, ?_, ?_, ?_, ?_, ?_, ?_⟩
  · omega
  · omega
  · omega
  · omega
  · omega
  · simp only [wvFields, WvFields.mk.injEq]
    refine ⟨?_, ?_, ?_, ?_, ?_, ?_⟩ <;> omega

theorem decodeWvDate_wvPack (y mo d h mi s : Nat) (z : UInt8)
    (hy : y ≤ 4095) (hmo : mo ≤ 15) (hd : d ≤ 31) (hh : h ≤ 31) (hmi : mi ≤ 63) (hs : s ≤ 63) :
    decodeWvDate (wvPack y mo d h mi s z) = .ok (wvDateText ⟨y, mo, d, h, mi, s⟩ z) := by
  obtain ⟨o0, o1, o2, o3, o4, ho, h0, h1, h2, h3, h4, hf⟩ := wvFields_wvOctets y mo d h mi s hy hmo hd hh hmi hs
  simp only [wvPack, ho, List.map, List.cons_append, List.nil_append, decodeWvDate,
    toNat_ofNat_lt _ h0, toNat_ofNat_lt _ h1, toNat_ofNat_lt _ h2, toNat_ofNat_lt _ h3, toNat_ofNat_lt _ h4, hf]

/-! ### digits read back by `strtoul` -/

theorem dig_toNat_sub (n : Nat) : (dig n).toNat - 48 = n % 10 := by
  have := digitChar_toNat n
  rw [digitChar_eq_dig] at this; omega

theorem decVal_d2 (n : Nat) (h : n < 100) : decVal (d2 n) = n := by
  simp [decVal, d2, dig_toNat_sub]; omega

theorem decVal_d4 (y : Nat) (h : y < 10000) : decVal (d4 y) = y := by
  simp [decVal, d4, dig_toNat_sub]; omega

/-! ### zone letters and separators -/

theorem dig_ne_tbl : ∀ k, k < 10 →
    (UInt8.ofNat (48 + k) == 0x2D) = false ∧ (UInt8.ofNat (48 + k) == 0x2B) = false ∧
    (UInt8.ofNat (48 + k) == 0x3A) = false := by decide

theorem dig_ne (n : Nat) : (dig n == 0x2D) = false ∧ (dig n == 0x2B) = false ∧ (dig n == 0x3A) = false :=
  dig_ne_tbl (n % 10) (Nat.mod_lt _ (by decide))

/-- A zone letter is none of `- + :`, and passes the encoder's zone test. -/
theorem zone_facts (z : UInt8) (hz : isZone z = true) :
    (z == 0x2D) = false ∧ (z == 0x2B) = false ∧ (z == 0x3A) = false ∧
    (z < 0x41 || z == 0x4A || z > 0x5A) = false ∧ z ≠ 0 := by
  simp only [isZone, Bool.and_eq_true, decide_eq_true_eq, bne_iff_ne, ne_eq] at hz
  obtain ⟨⟨h1, h2⟩, h3⟩ := hz
  have h1' : 65 ≤ z.toNat := by simpa [UInt8.le_iff_toNat_le] using h1
  have h2' : z.toNat ≤ 90 := by simpa [UInt8.le_iff_toNat_le] using h2
  have ne : ∀ k : Nat, k < 256 → z.toNat ≠ k → (z == UInt8.ofNat k) = false := by
    intro k hk hne
    cases hb : (z == UInt8.ofNat k)
    · rfl
    · exfalso; apply hne
      have := congrArg UInt8.toNat (beq_iff_eq.mp hb)
      rw [toNat_ofNat_lt k hk] at this; exact this
  refine ⟨ne 0x2D (by decide) (by omega), ne 0x2B (by decide) (by omega), ne 0x3A (by decide) (by omega), ?_, ?_⟩
  · have a : (z == 0x4A) = false := by
      cases hb : (z == 0x4A)
      · rfl
      · exact absurd (beq_iff_eq.mp hb) h3
    have b : ¬ (z < 0x41) := by simp [UInt8.lt_iff_toNat_lt]; omega
    have c : ¬ (z > 0x5A) := by simp [UInt8.lt_iff_toNat_lt]; omega
    simp [a, b, c]
  · intro h0; rw [h0] at h1'; simp at h1'

/-! ### the encoder on the Wireless-Village basic form with a zone letter -/

/-- `YYYYMMDDThhmmss` + zone as an explicit list of sixteen characters. -/
theorem basic_some (d : DateTime) (z : UInt8) :
    basic d (some z) =
      [dig (d.year / 1000), dig (d.year / 100), dig (d.year / 10), dig d.year, dig (d.month / 10), dig d.month,
       dig (d.day / 10), dig d.day, 0x54, dig (d.hour / 10), dig d.hour, dig (d.minute / 10), dig d.minute,
       dig (d.second / 10), dig d.second, z] := by
  simp [basic, d4, d2]

theorem ne_dig_tbl : ∀ k, k < 10 →
    ((0x2D : UInt8) == UInt8.ofNat (48 + k)) = false ∧ ((0x2B : UInt8) == UInt8.ofNat (48 + k)) = false ∧
    ((0x3A : UInt8) == UInt8.ofNat (48 + k)) = false := by decide

theorem ne_dig (n : Nat) :
    ((0x2D : UInt8) == dig n) = false ∧ ((0x2B : UInt8) == dig n) = false ∧ ((0x3A : UInt8) == dig n) = false :=
  ne_dig_tbl (n % 10) (Nat.mod_lt _ (by decide))

theorem contains_basic_false (d : DateTime) (z c : UInt8) (hd : ∀ n, (c == dig n) = false)
    (hT : (c == (0x54 : UInt8)) = false) (hz : (c == z) = false) :
    (basic d (some z)).contains c = false := by
  rw [basic_some]
  simp only [List.contains_cons, List.contains_nil, hd, hT, hz, Bool.or_false]

theorem wvUseInline_basic (d : DateTime) (z : UInt8) (hz : isZone z = true) (hZ : z ≠ 0x5A) :
    wvUseInline (basic d (some z)) = false := by
  obtain ⟨z1, z2, z3, _, _⟩ := zone_facts z hz
  have flip : ∀ c : UInt8, (z == c) = false → (c == z) = false := by
    intro c h; rw [Bool.beq_comm]; exact h
  have hlast : ((basic d (some z)).getLast? == some 0x5A) = false := by
    rw [basic_some]
    simp only [List.getLast?_cons_cons, List.getLast?_singleton]
    cases hb : (some z == some (0x5A : UInt8))
    · rfl
    · exfalso; apply hZ
      have := beq_iff_eq.mp hb
      exact Option.some.inj this
  unfold wvUseInline
  rw [contains_basic_false d z 0x2D (fun n => (ne_dig n).1) (by decide) (flip _ z1),
    contains_basic_false d z 0x2B (fun n => (ne_dig n).2.1) (by decide) (flip _ z2),
    contains_basic_false d z 0x3A (fun n => (ne_dig n).2.2) (by decide) (flip _ z3), hlast]
  rfl

theorem wvUseInline_basic_utc (d : DateTime) : wvUseInline (basic d (some 0x5A)) = true := by
  rw [basic_some]
  simp [wvUseInline]

theorem wvDateOpaque_basic (d : DateTime) (h : d.Valid) (z : UInt8) (hz : isZone z = true) :
    wvDateOpaque (basic d (some z)) =
      .ok (if d.year > 4095 then .inline (basic d (some z))
           else .opaque (wvPack d.year d.month d.day d.hour d.minute d.second z)) := by
  obtain ⟨hy, _, hmo, _, hd2, hh, hm, hs⟩ := h
  have hd31 := daysInMonth_le d.year d.month
  obtain ⟨_, _, _, zt, _⟩ := zone_facts z hz
  have y4 := decVal_d4 d.year (by omega)
  have m2 := decVal_d2 d.month (by omega)
  have dd2 := decVal_d2 d.day (by omega)
  have h2 := decVal_d2 d.hour (by omega)
  have mi2 := decVal_d2 d.minute (by omega)
  have s2 := decVal_d2 d.second (by omega)
  simp only [d4, d2] at y4 m2 dd2 h2 mi2 s2
  rw [basic_some]
  simp [wvDateOpaque, zt, isDigit_dig, List.eraseIdx, y4, m2, dd2, h2, mi2, s2]
  split <;> rfl

theorem encodeWvDate_basic (d : DateTime) (h : d.Valid) (z : UInt8) (hz : isZone z = true) (hZ : z ≠ 0x5A) :
    encodeWvDate (basic d (some z)) =
      .ok (if d.year > 4095 then .inline (basic d (some z))
           else .opaque (wvPack d.year d.month d.day d.hour d.minute d.second z)) := by
  unfold encodeWvDate
  rw [wvUseInline_basic d z hz hZ, wvDateOpaque_basic d h z hz]
  simp [basic_some]

theorem encodeWvDate_basic_utc (d : DateTime) :
    encodeWvDate (basic d (some 0x5A)) = .ok (.inline (basic d (some 0x5A))) := by
  unfold encodeWvDate
  rw [wvUseInline_basic_utc]
  simp [basic_some]

/-! ### no zone designator (outside the property: recorded as an observation) -/

theorem basic_none (d : DateTime) :
    basic d none =
      [dig (d.year / 1000), dig (d.year / 100), dig (d.year / 10), dig d.year, dig (d.month / 10), dig d.month,
       dig (d.day / 10), dig d.day, 0x54, dig (d.hour / 10), dig d.hour, dig (d.minute / 10), dig d.minute,
       dig (d.second / 10), dig d.second] := by
  simp [basic, d4, d2]

theorem ne_Z_dig_tbl : ∀ k, k < 10 → (UInt8.ofNat (48 + k) == (0x5A : UInt8)) = false := by decide

theorem contains_basic_none_false (d : DateTime) (c : UInt8) (hd : ∀ n, (c == dig n) = false)
    (hT : (c == (0x54 : UInt8)) = false) : (basic d none).contains c = false := by
  rw [basic_none]
  simp only [List.contains_cons, List.contains_nil, hd, hT, Bool.or_false]

theorem wvUseInline_basic_none (d : DateTime) : wvUseInline (basic d none) = false := by
  have hl : (dig d.second == (0x5A : UInt8)) = false := ne_Z_dig_tbl _ (Nat.mod_lt _ (by decide))
  have hlast : ((basic d none).getLast? == some 0x5A) = false := by
    rw [basic_none]
    simp only [List.getLast?_cons_cons, List.getLast?_singleton]
    cases hb : (some (dig d.second) == some (0x5A : UInt8))
    · rfl
    · exfalso
      have := Option.some.inj (beq_iff_eq.mp hb)
      rw [this] at hl; revert hl; decide
  unfold wvUseInline
  rw [contains_basic_none_false d 0x2D (fun n => (ne_dig n).1) (by decide),
    contains_basic_none_false d 0x2B (fun n => (ne_dig n).2.1) (by decide),
    contains_basic_none_false d 0x3A (fun n => (ne_dig n).2.2) (by decide), hlast]
  rfl

theorem encodeWvDate_basic_none (d : DateTime) (h : d.Valid) :
    encodeWvDate (basic d none) =
      .ok (if d.year > 4095 then .inline (basic d none)
           else .opaque (wvPack d.year d.month d.day d.hour d.minute d.second 0)) := by
  obtain ⟨hy, _, hmo, _, hd2, hh, hm, hs⟩ := h
  have hd31 := daysInMonth_le d.year d.month
  have y4 := decVal_d4 d.year (by omega)
  have m2 := decVal_d2 d.month (by omega)
  have dd2 := decVal_d2 d.day (by omega)
  have h2 := decVal_d2 d.hour (by omega)
  have mi2 := decVal_d2 d.minute (by omega)
  have s2 := decVal_d2 d.second (by omega)
  simp only [d4, d2] at y4 m2 dd2 h2 mi2 s2
  unfold encodeWvDate
  rw [wvUseInline_basic_none d, basic_none]
  simp [wvDateOpaque, isDigit_dig, List.eraseIdx, y4, m2, dd2, h2, mi2, s2]
  split <;> rfl

/-! ### what the decoder prints -/

theorem wvZoneText_zone (z : UInt8) (hz : isZone z = true) : wvZoneText z = [z] := by
  obtain ⟨_, _, _, zt, z0⟩ := zone_facts z hz
  have : (z < 0x41 || z > 0x5A || z == 0x4A) = false := by
    simp only [Bool.or_eq_false_iff] at zt ⊢
    exact ⟨⟨zt.1.1, zt.2⟩, zt.1.2⟩
  simp [wvZoneText, z0, this]

theorem wvDateText_valid (d : DateTime) (h : d.Valid) (z : UInt8) (hz : isZone z = true) :
    wvDateText ⟨d.year, d.month, d.day, d.hour, d.minute, d.second⟩ z = basicShort d (some z) := by
  obtain ⟨hy, _, hmo, _, hd2, hh, hm, hs⟩ := h
  have hd31 := daysInMonth_le d.year d.month
  unfold wvDateText basicShort
  dsimp only
  rw [padNat4 d.year (by omega), padNat2 d.month (by omega), padNat2 d.day (by omega), padNat2 d.hour (by omega),
    padNat2 d.minute (by omega), wvZoneText_zone z hz]
  by_cases s0 : d.second = 0
  · simp [s0]
  · simp [s0, padNat2 d.second (by omega)]

/-! ### the reader of the basic form -/

theorem digVal_dig_tbl : ∀ k, k < 10 → digVal (UInt8.ofNat (48 + k)) = some k := by decide

theorem digVal_dig (n : Nat) : digVal (dig n) = some (n % 10) :=
  digVal_dig_tbl (n % 10) (Nat.mod_lt _ (by decide))

theorem num2_dig (a b : Nat) : num2 (dig a) (dig b) = some (10 * (a % 10) + b % 10) := by
  simp [num2, digVal_dig]

theorem readBasic_basic (d : DateTime) (h : d.Valid) (z : UInt8) (hz : isZone z = true) :
    readBasic (basic d (some z)) = some (d, some z) := by
  obtain ⟨hy, _, hmo, _, hd2, hh, hm, hs⟩ := h
  have hd31 := daysInMonth_le d.year d.month
  rw [basic_some]
  simp only [readBasic, num2_dig, hz]
  cases d with
  | mk y mo dd hr mi s =>
    simp only at hy hmo hd31 hd2 hh hm hs ⊢
    simp
    refine ⟨?_, ?_, ?_, ?_, ?_, ?_⟩ <;> omega

theorem readBasic_basicShort (d : DateTime) (h : d.Valid) (z : UInt8) (hz : isZone z = true) :
    readBasic (basicShort d (some z)) = some (d, some z) := by
  by_cases s0 : d.second = 0
  · obtain ⟨hy, _, hmo, _, hd2, hh, hm, hs⟩ := h
    have hd31 := daysInMonth_le d.year d.month
    have : basicShort d (some z) =
        [dig (d.year / 1000), dig (d.year / 100), dig (d.year / 10), dig d.year, dig (d.month / 10), dig d.month,
         dig (d.day / 10), dig d.day, 0x54, dig (d.hour / 10), dig d.hour, dig (d.minute / 10), dig d.minute, z] := by
      simp [basicShort, d4, d2, s0]
    rw [this]
    simp only [readBasic, num2_dig, hz]
    cases d with
    | mk y mo dd hr mi s =>
      simp only at hy hmo hd31 hd2 hh hm hs s0 ⊢
      simp
      refine ⟨?_, ?_, ?_, ?_, ?_, ?_⟩ <;> omega
  · have : basicShort d (some z) = basic d (some z) := by simp [basicShort, basic, s0]
    rw [this]; exact readBasic_basic d h z hz

end Wbxml.Lemmas.Typed
