/-
  Round trip (C03), second trip for languages WITH a namespace table (SyncML family, ActiveSync).

  * Reading model: `ReadsNs` / `ReadsDocNs` / `ReadsBackNs` — what a conforming NAMESPACE-AWARE
    reader (Expat created with the separator `|`) reports for the printer's output: unprefixed
    element names qualified with the default namespace in scope inside their start tag (`uri|local`;
    the scope is the one `xml_encode_tag` creates: `XmlNs.nsAfter`, C05), `xmlns` attributes not
    reported, character data as printed. `ReadsBackNs` is the assumption about Expat.
  * The XML-side builder over such a reading, with `Data` elements (`syncmlDataType` answering
    `normal`: `dataOkX`): for a tree whose elements are resolved token elements (`nsReadable`: the
    page has a namespace that leads back to the page, `selfFind`, not binary-flagged, no attributes)
    it builds `readX` — the SAME rows, character data as printed (`xrun_doc_ns`,
    `treeOfXml_readsBackNs`).
  * Re-encoding: the exact typed normal form of the tree read back is the one of the tree itself
    (`xNode_readX`), and the tree read back satisfies the first trip's hypotheses again (`goodX_readX`).
-/
import Wbxml.Lemmas.RtSecond
import Wbxml.Lemmas.RtData
import Wbxml.Lemmas.XmlNs
namespace Wbxml.Lemmas.Rt
open Wbxml Wbxml.Model Wbxml.Spec Wbxml.Lemmas.EncW Wbxml.Lemmas.X2W Wbxml.Lemmas.XmlNs Wbxml.Model.Flow

/-! ### What a namespace-aware reader reports for the printer's output (languages with a namespace table) -/

/-- Expat's name for an unprefixed element with the default namespace `sc` in scope (separator `|`);
    an empty declaration un-declares. -/
def qual (sc : Option Bytes) (nm : Bytes) : Bytes :=
  match sc with
  | some u => if u.isEmpty then nm else u ++ 124 :: nm
  | none => nm

/-- `ReadsNs c p cur kids evs`: `evs` is what a conforming namespace-aware reader may report for the
    child list `kids` printed under the printer scope `p` (`xmlNode`'s argument) with the default
    namespace `cur` in scope: element names are qualified with the namespace in scope inside their
    start tag (`XmlNs.nsAfter`: what the tag declares, else `cur`), `xmlns` attributes are not
    reported, everything else as in `Reads`. -/
inductive ReadsNs (c : XCfg) : Parent → Option Bytes → List Node → List XEvent → Prop
  | nil (p : Parent) (cur : Option Bytes) : ReadsNs c p cur [] []
  | elt (p : Parent) (cur : Option Bytes) (name : Name) (attrs : List Attr) (kids rest : List Node)
      (body es : List XEvent) (i j : Nat) :
      ReadsNs c (childScope p name) (nsAfter c p cur name) kids body → ReadsNs c p cur rest es →
      ReadsNs c p cur (.elt name attrs kids :: rest)
        (.startElt (qual (nsAfter c p cur name) name.xmlName) (xmlAttrsOf c attrs) i ::
          (body ++ .endElt (qual (nsAfter c p cur name) name.xmlName) j :: es))
  | text (p : Parent) (cur : Option Bytes) (s : Bytes) (rest : List Node) (pieces : List Bytes) (es : List XEvent) :
      pieces.flatten = printedText c s → (∀ q ∈ pieces, q ≠ []) → ReadsNs c p cur rest es →
      ReadsNs c p cur (.text s :: rest) (pieces.map XEvent.chars ++ es)

/-- A conforming namespace-aware reading of the printed tree (compact or canonical generation). -/
def ReadsDocNs (c : XCfg) (t : Tree) (evs : List XEvent) : Prop :=
  c.gen ≠ 1 ∧ ∃ r body, t.root = some r ∧ ReadsNs c .none none [r] body ∧ evs = xmlDeclEv :: docTypeOf c.lang :: body

/-- **The assumption about Expat, namespace languages**: the recorded run for `xml` succeeded and is
    a conforming namespace-aware reading of the printed tree. -/
def ReadsBackNs (env : List (Bytes × ExpatRun)) (xml : Bytes) (c : XCfg) (t : Tree) : Prop :=
  ∃ k run, env.find? (fun p => p.1 == xml) = some (k, run) ∧ run.ok = true ∧ ReadsDocNs c t run.events

mutual
/-- The canonical namespace-aware reading. -/
def xmlEventsNs (c : XCfg) (p : Parent) (cur : Option Bytes) : Node → List XEvent
  | .elt name attrs kids =>
    .startElt (qual (nsAfter c p cur name) name.xmlName) (xmlAttrsOf c attrs) 0 ::
      (xmlEventsNsL c (childScope p name) (nsAfter c p cur name) kids ++
        [.endElt (qual (nsAfter c p cur name) name.xmlName) 0])
  | .text s => if (printedText c s).isEmpty then [] else [.chars (printedText c s)]
  | .cdata _ => []
  | .tree _ _ _ => []
def xmlEventsNsL (c : XCfg) (p : Parent) (cur : Option Bytes) : List Node → List XEvent
  | [] => []
  | k :: r => xmlEventsNs c p cur k ++ xmlEventsNsL c p cur r
end

mutual
theorem readsNs_canonical_node (c : XCfg) : ∀ (k : Node) (p : Parent) (cur : Option Bytes) (rest : List Node) (es : List XEvent),
    plainNode k = true → ReadsNs c p cur rest es → ReadsNs c p cur (k :: rest) (xmlEventsNs c p cur k ++ es)
  | .elt name attrs kids, p, cur, rest, es, hp, hr => by
    rw [plainNode] at hp
    rw [xmlEventsNs]
    have hk := readsNs_canonical_nodes c kids (childScope p name) (nsAfter c p cur name) hp
    have := ReadsNs.elt p cur name attrs kids rest _ es 0 0 hk hr
    simpa using this
  | .text s, p, cur, rest, es, _, hr => by
    rw [xmlEventsNs]
    split
    · rename_i he
      have := ReadsNs.text (c := c) p cur s rest [] es (by simp [List.isEmpty_iff.mp he]) (by intro q hq; cases hq) hr
      simpa using this
    · rename_i he
      have := ReadsNs.text (c := c) p cur s rest [printedText c s] es (by simp)
        (by intro q hq; simp only [List.mem_singleton] at hq; subst hq; intro h; rw [h] at he; exact he rfl) hr
      simpa using this
  | .cdata _, _, _, _, _, hp, _ => by rw [plainNode] at hp; cases hp
  | .tree _ _ _, _, _, _, _, hp, _ => by rw [plainNode] at hp; cases hp
theorem readsNs_canonical_nodes (c : XCfg) : ∀ (ks : List Node) (p : Parent) (cur : Option Bytes), plainNodes ks = true →
    ReadsNs c p cur ks (xmlEventsNsL c p cur ks)
  | [], p, cur, _ => by rw [xmlEventsNsL]; exact ReadsNs.nil p cur
  | k :: r, p, cur, hp => by
    rw [plainNodes, Bool.and_eq_true] at hp
    rw [xmlEventsNsL]
    exact readsNs_canonical_node c k p cur r _ hp.1 (readsNs_canonical_nodes c r p cur hp.2)
end

/-- `ReadsBackNs` is satisfiable for every plain tree: by the run that reports the canonical reading. -/
theorem readsBackNs_canonical (xml : Bytes) (c : XCfg) (t : Tree) (r : Node) (hr : t.root = some r)
    (hp : plainNode r = true) (hg : c.gen ≠ 1) :
    ReadsBackNs [(xml, { ok := true, events := xmlDeclEv :: docTypeOf c.lang :: xmlEventsNs c .none none r })] xml c t := by
  refine ⟨xml, { ok := true, events := xmlDeclEv :: docTypeOf c.lang :: xmlEventsNs c .none none r },
    by simp [List.find?], rfl, hg, r, xmlEventsNs c .none none r, hr, ?_, rfl⟩
  have := readsNs_canonical_node c r .none none [] [] hp (ReadsNs.nil _ _)
  simpa using this

/-! ### `lastIndexOf` on a qualified name -/

theorem lastIndexOf_go_none (b : UInt8) : ∀ (l : Bytes) (i : Nat) (best : Option Nat), b ∉ l →
    lastIndexOf.go b i best l = best
  | [], i, best, _ => rfl
  | c :: r, i, best, h => by
    have hc : (c == b) = false := by
      simp only [List.mem_cons, not_or] at h
      simp only [beq_eq_false_iff_ne, ne_eq]
      exact fun e => h.1 e.symm
    simp only [lastIndexOf.go, hc, Bool.false_eq_true, ↓reduceIte]
    exact lastIndexOf_go_none b r (i + 1) best (fun hm => h (List.mem_cons_of_mem _ hm))

theorem lastIndexOf_go_sep (b : UInt8) : ∀ (u : Bytes) (i : Nat) (best : Option Nat) (nm : Bytes), b ∉ nm →
    lastIndexOf.go b i best (u ++ b :: nm) = some (i + u.length)
  | [], i, best, nm, h => by
    simp only [List.nil_append, lastIndexOf.go, beq_self_eq_true, ↓reduceIte, List.length_nil, Nat.add_zero]
    exact lastIndexOf_go_none b nm (i + 1) (some i) h
  | c :: u, i, best, nm, h => by
    simp only [List.cons_append, lastIndexOf.go, List.length_cons]
    rw [lastIndexOf_go_sep b u (i + 1) _ nm h]
    congr 1; omega

theorem lastIndexOf_qual (u nm : Bytes) (h : (124 : UInt8) ∉ nm) : lastIndexOf 124 (u ++ 124 :: nm) = some u.length := by
  unfold lastIndexOf
  rw [lastIndexOf_go_sep 124 u 0 none nm h, Nat.zero_add]

/-! ### Steps of the XML-side builder, namespace languages and `Data` elements -/

variable (main : List Lang) (input : Bytes) (sub : Bytes → Option (Except Nat Tree))

theorem xstep_start_ns {lang : Lang} {b : XBState} (h : XAt lang b) (hroot : b.stack = [] → b.root = none)
    (name : Bytes) (attrs : List (Bytes × Bytes)) (idx : Nat) (hn : (name == devinfName || name == mgmtName) = false) :
    xbuildStep main input sub b (.startElt name attrs idx) =
      { b with stack := (xmlElt lang name attrs).1 :: b.stack, curPage := (xmlElt lang name attrs).2 } := by
  have hneed : ¬ (b.need.isSome = true) := by rw [h.need]; exact Bool.false_ne_true
  have herr : ¬ (b.error.isSome = true) := by rw [h.err]; exact Bool.false_ne_true
  unfold xbuildStep
  rw [if_neg hneed]
  simp (config := { zeta := false }) only []
  rw [if_neg herr, if_neg (by rw [h.skip]; exact Nat.lt_irrefl 0)]
  extract_lets isRoot b1
  have hb1 : b1 = b := by
    unfold b1
    rw [h.lang]
    simp
  rw [hb1, if_neg herr, hn]
  simp only [Bool.false_and, Bool.false_eq_true, ↓reduceIte, h.lang]
  split
  · rename_i hst hr
    rw [hroot hst] at hr; cases hr
  · rfl

/-- An open element frame that is not binary-flagged and has nothing cached. -/
structure FrameOkD (f : XFrame) : Prop where
  kind : ∃ n a, f.kind = .elt n a ∧ isBinaryName n = false
  content : f.content = none

theorem xstep_chars_d {lang : Lang} {b : XBState} {f : XFrame} {rest : List XFrame} (h : XAt lang b)
    (hs : b.stack = f :: rest) (hf : FrameOkD f) (s : Bytes)
    (hty : syncmlDataType (xStackFrames (f :: rest)) = .normal) :
    xbuildStep main input sub b (.chars s) = { b with stack := { f with kids := addKid f.kids (.text s) } :: rest } := by
  obtain ⟨⟨n, a, hk, hbin⟩, _⟩ := hf
  have hneed : ¬ (b.need.isSome = true) := by rw [h.need]; exact Bool.false_ne_true
  have herr : b.error.isSome = false := by rw [h.err]; rfl
  unfold xbuildStep
  rw [if_neg hneed]
  simp (config := { zeta := false }) only []
  rw [if_neg (by rw [herr, h.skip]; simp)]
  simp only [hs, hty, SyncType.isCdata, Bool.false_eq_true, ↓reduceIte, hk, hbin]
  have : (SyncType.normal == SyncType.vobject) = false := rfl
  simp only [this, Bool.false_and, Bool.false_eq_true, ↓reduceIte]
  rw [xattach_cons hs, hk]

theorem xstep_end_d {lang : Lang} {b : XBState} {f : XFrame} {rest : List XFrame} (h : XAt lang b)
    (hs : b.stack = f :: rest) (hf : FrameOkD f) (name : Bytes) (idx : Nat) :
    xbuildStep main input sub b (.endElt name idx) = ({ b with stack := rest } : XBState).attach f.close := by
  obtain ⟨⟨n, a, hk, _⟩, hc⟩ := hf
  rw [step_endElt _ _ _ _ _ _ h.need]
  have hd : decodeTop b = b := by
    unfold decodeTop
    rw [hs]
    simp only [hk, hc]
  rw [hd]
  unfold endTail
  rw [if_neg (by rw [h.err]; exact Bool.false_ne_true), if_neg (by rw [h.skip]; exact Nat.not_lt_zero 1),
    if_neg (by rw [h.skip]; decide)]
  unfold xPop
  rw [hs]
  simp only [hk]

theorem xStackFrames_cons (f : XFrame) (rest : List XFrame) :
    xStackFrames (f :: rest) = { kind := f.kind, kids := f.kids } :: xStackFrames rest := rfl

theorem xrun_pieces_d {lang : Lang} : ∀ (pieces : List Bytes) (b : XBState) (f : XFrame) (rest : List XFrame),
    XAt lang b → b.stack = f :: rest → FrameOkD f →
    (pieces = [] ∨ normalAt (xStackFrames (f :: rest)) = true) →
    (pieces.map XEvent.chars).foldl (xbuildStep main input sub) b =
      { b with stack := { f with kids := pieces.foldl (fun k p => addKid k (.text p)) f.kids } :: rest }
  | [], b, f, rest, _, hs, _, _ => by
    simp only [List.map_nil, List.foldl_nil]
    cases b; simp only at hs; subst hs; rfl
  | p :: ps, b, f, rest, h, hs, hf, hN => by
    have hn : normalAt (xStackFrames (f :: rest)) = true := by
      rcases hN with h0 | h0
      · cases h0
      · exact h0
    have hn' : normalAt (xStackFrames ({ f with kids := addKid f.kids (.text p) } :: rest)) = true := by
      rw [xStackFrames_cons] at hn ⊢
      rw [normalAt_top _ _ f.kids]; exact hn
    rw [List.map_cons, List.foldl_cons, xstep_chars_d main input sub h hs hf p ((normalAt_iff _).mp hn),
      xrun_pieces_d ps ({ b with stack := { f with kids := addKid f.kids (.text p) } :: rest } : XBState)
        { f with kids := addKid f.kids (.text p) } rest ⟨h.need, h.err, h.skip, h.lang⟩ rfl
        ⟨hf.kind, hf.content⟩ (Or.inr hn')]
    rfl

theorem take_qual (u nm : Bytes) : (u ++ 124 :: nm).take u.length = u := by
  rw [List.take_append_of_le_length (Nat.le_refl _), List.take_length]
theorem drop_qual (u nm : Bytes) : (u ++ 124 :: nm).drop (u.length + 1) = nm := by
  rw [← List.drop_drop, List.drop_left]; rfl

theorem xmlElt_token (lang : Lang) (ns : List NsRow) (tags : List TagRow) (hns : lang.ns = some ns)
    (ht : lang.tags = some tags) (d : TagRow) (u : Bytes) (hpage : pageOfNs ns u = d.page)
    (hfind : encTag tags (some d.page) d.name = some d) (hbar : (124 : UInt8) ∉ d.name) :
    xmlElt lang (u ++ 124 :: d.name) [] = ({ kind := .elt (.token d) [], kids := [] }, d.page) := by
  unfold xmlElt
  rw [lastIndexOf_qual u d.name hbar]
  simp only [take_qual, drop_qual, hns, hpage, ht, hfind, List.map_nil]

/-! ### The tree the XML-side builder makes of a namespace-aware reading -/

mutual
/-- Names and attributes as they are, character data as printed. -/
def readX (c : XCfg) : Node → Node
  | .elt name attrs kids => .elt name attrs (readXKids c kids [])
  | .text s => .text (printedText c s)
  | .cdata k => .cdata k
  | .tree l cs r => .tree l cs r
def readXKids (c : XCfg) : List Node → List Node → List Node
  | [], acc => acc
  | k :: rest, acc => readXKids c rest (addN acc (readX c k))
end

theorem readX_elt (c name attrs kids) : readX c (.elt name attrs kids) = .elt name attrs (readXKids c kids []) := by rw [readX]
theorem readX_text (c s) : readX c (.text s) = .text (printedText c s) := by rw [readX]
theorem readXKids_nil (c acc) : readXKids c [] acc = acc := by rw [readXKids]
theorem readXKids_cons (c k rest acc) : readXKids c (k :: rest) acc = readXKids c rest (addN acc (readX c k)) := by
  rw [readXKids]

/-- A token element the XML-side callbacks resolve to the same row again: its code page has a
    namespace, that namespace leads back to the page, the name is found from its own page
    (`selfFind`), has no `|`, is not binary-flagged, and the qualified name is not one of the two
    that start an embedded document. -/
def tokOk (lang : Lang) (d : TagRow) : Bool :=
  match lang.ns, lang.tags with
  | some ns, some tags =>
    (match nsOfPageX ns d.page with
     | some u => !u.isEmpty && pageOfNs ns u == d.page &&
         !(u ++ 124 :: d.name == devinfName || u ++ 124 :: d.name == mgmtName)
     | none => false) &&
    encTag tags (some d.page) d.name == some d && !d.name.contains 124 && !isBinaryName (.token d)
  | _, _ => false

mutual
/-- Token elements only (`tokOk`), no attributes, elements and text only. -/
def nsReadable (lang : Lang) : Node → Bool
  | .elt name attrs kids =>
    (match name with
     | .token d => tokOk lang d
     | .literal _ => false) && attrs.isEmpty && nsReadableL lang kids
  | .text _ => true
  | .cdata _ => false
  | .tree _ _ _ => false
def nsReadableL (lang : Lang) : List Node → Bool
  | [] => true
  | k :: r => nsReadable lang k && nsReadableL lang r
end

mutual
/-- At every non-empty printed text the XML-side builder meets `normal` (the frames hold the
    children read so far). -/
def dataOkX (c : XCfg) (below : List Frame) : Node → Bool
  | .elt name attrs kids => dataOkXL c (.elt name attrs) below kids []
  | .text s => (printedText c s).isEmpty || normalAt below
  | .cdata _ => true
  | .tree _ _ _ => true
def dataOkXL (c : XCfg) (k : FrameKind) (below : List Frame) : List Node → List Node → Bool
  | [], _ => true
  | n :: rest, acc => dataOkX c ({ kind := k, kids := acc } :: below) n && dataOkXL c k below rest (addN acc (readX c n))
end

theorem tokOk_spec (lang : Lang) (d : TagRow) (h : tokOk lang d = true) :
    ∃ ns tags u, lang.ns = some ns ∧ lang.tags = some tags ∧ nsOfPageX ns d.page = some u ∧ u.isEmpty = false ∧
      pageOfNs ns u = d.page ∧ (u ++ 124 :: d.name == devinfName || u ++ 124 :: d.name == mgmtName) = false ∧
      encTag tags (some d.page) d.name = some d ∧ (124 : UInt8) ∉ d.name ∧ isBinaryName (.token d) = false := by
  unfold tokOk at h
  cases hns : lang.ns with
  | none => simp [hns] at h
  | some ns =>
    cases ht : lang.tags with
    | none => simp [hns, ht] at h
    | some tags =>
      simp only [hns, ht, Bool.and_eq_true, Bool.not_eq_true', beq_iff_eq] at h
      obtain ⟨⟨⟨h1, h2⟩, h3⟩, h4⟩ := h
      cases hu : nsOfPageX ns d.page with
      | none => rw [hu] at h1; cases h1
      | some u =>
        rw [hu] at h1
        simp only [Bool.and_eq_true, Bool.not_eq_true', beq_iff_eq] at h1
        refine ⟨ns, tags, u, rfl, rfl, hu, h1.1.1, h1.1.2, h1.2, h2, ?_, h4⟩
        intro hm
        have := List.contains_iff_mem.mpr hm
        rw [this] at h3; cases h3

theorem qual_some (u nm : Bytes) (h : u.isEmpty = false) : qual (some u) nm = u ++ 124 :: nm := by
  simp only [qual, h, Bool.false_eq_true, if_false]

theorem xmlAttrsOf_nil (c : XCfg) : xmlAttrsOf c [] = [] := by
  unfold xmlAttrsOf; split <;> rfl

variable (main : List Lang) (input : Bytes) (sub : Bytes → Option (Except Nat Tree))

theorem xrun_kids_ns {lang : Lang} {c : XCfg} (hc : c.lang = lang) (ns : List NsRow) (hns : lang.ns = some ns)
    {p : Parent} {cur : Option Bytes} {ks : List Node} {evs : List XEvent} (hr : ReadsNs c p cur ks evs) :
    ScopeNs ns p cur → nsReadableL lang ks = true → ∀ (b : XBState) (f : XFrame) (rest : List XFrame),
      XAt lang b → b.stack = f :: rest → FrameOkD f → dataOkXL c f.kind (xStackFrames rest) ks f.kids = true →
      ∃ cp, evs.foldl (xbuildStep main input sub) b =
        { b with stack := { f with kids := readXKids c ks f.kids } :: rest, curPage := cp } := by
  induction hr with
  | nil p cur =>
    intro _ _ b f rest _ hs _ _
    refine ⟨b.curPage, ?_⟩
    rw [List.foldl_nil, readXKids_nil]
    cases b; simp only at hs; subst hs; rfl
  | elt p cur name attrs kids more body es i j _ _ ihb ihe =>
    intro hsc hrd b f rest h hs hf hd
    rw [nsReadableL, Bool.and_eq_true] at hrd
    obtain ⟨hrd1, hmore⟩ := hrd
    unfold nsReadable at hrd1
    simp only [Bool.and_eq_true] at hrd1
    obtain ⟨⟨hname, hattrs⟩, hkids⟩ := hrd1
    rw [dataOkXL, Bool.and_eq_true, dataOkX] at hd
    cases name with
    | literal s => cases hname
    | token d =>
      have hattrs' : attrs = [] := List.isEmpty_iff.mp hattrs
      subst hattrs'
      obtain ⟨ns', tags, u, hns', ht, hu, hue, hpage, hskip, hfind, hbar, hbin⟩ := tokOk_spec lang d hname
      rw [hns] at hns'; injection hns' with hns'; subst hns'
      have hcns : c.lang.ns = some ns := by rw [hc]; exact hns
      have hsc' := scopeNs_step c ns hcns p cur (.token d) hsc
        (by simp only [namesHaveRows, List.all_cons, List.all_nil, Bool.and_true, hu, Option.isSome_some])
      have hafter : nsAfter c p cur (.token d) = some u := by
        obtain ⟨_, h2⟩ := hsc'
        have : scopePage (childScope p (.token d)) = some d.page := rfl
        rw [this] at h2
        rw [h2.1, hu]
      have hxn : (Name.token d).xmlName = d.name := rfl
      rw [hafter, qual_some u _ hue, xmlAttrsOf_nil, hxn]
      have hx : xmlElt lang (u ++ 124 :: d.name) [] =
          ({ kind := .elt (.token d) [], kids := [] }, d.page) :=
        xmlElt_token lang ns tags hns ht d u hpage hfind hbar
      rw [List.foldl_cons, List.foldl_append, List.foldl_cons,
        xstep_start_ns main input sub h (by intro h0; rw [hs] at h0; cases h0) _ _ _ hskip, hx]
      obtain ⟨cp1, e1⟩ := ihb hsc' hkids
        ({ b with stack := { kind := .elt (.token d) [], kids := [] } :: b.stack, curPage := d.page } : XBState)
        { kind := .elt (.token d) [], kids := [] } b.stack ⟨h.need, h.err, h.skip, h.lang⟩ rfl
        ⟨⟨_, _, rfl, hbin⟩, rfl⟩ (by rw [hs]; exact hd.1)
      rw [e1]
      rw [xstep_end_d main input sub (lang := lang)
        (b := { ({ b with stack := { kind := .elt (.token d) [], kids := [] } :: b.stack, curPage := d.page } : XBState) with
                stack := { ({ kind := .elt (.token d) [], kids := [] } : XFrame) with
                           kids := readXKids c kids [] } :: b.stack,
                curPage := cp1 })
        ⟨h.need, h.err, h.skip, h.lang⟩ rfl ⟨⟨_, _, rfl, hbin⟩, rfl⟩]
      have hatt : (({ b with stack := b.stack, curPage := cp1 } : XBState).attach
            (XFrame.close { ({ kind := .elt (.token d) [], kids := [] } : XFrame) with kids := readXKids c kids [] })) =
          { b with stack := { f with kids := addN f.kids (readX c (.elt (.token d) [] kids)) } :: rest,
                   curPage := cp1 } := by
        rw [xattach_cons (b := { b with stack := b.stack, curPage := cp1 }) hs, readX_elt]
        rfl
      show ∃ cp, List.foldl _ (({ b with stack := b.stack, curPage := cp1 } : XBState).attach _) es = _
      rw [hatt]
      obtain ⟨cp2, e3⟩ := ihe hsc hmore
        ({ b with stack := { f with kids := addN f.kids (readX c (.elt (.token d) [] kids)) } :: rest,
                  curPage := cp1 } : XBState)
        { f with kids := addN f.kids (readX c (.elt (.token d) [] kids)) } rest
        ⟨h.need, h.err, h.skip, h.lang⟩ rfl ⟨hf.kind, hf.content⟩ hd.2
      exact ⟨cp2, by rw [e3, readXKids_cons]⟩
  | text p cur s more pieces es hflat hne _ ihe =>
    intro hsc hrd b f rest h hs hf hd
    rw [nsReadableL, Bool.and_eq_true] at hrd
    rw [dataOkXL, Bool.and_eq_true, dataOkX] at hd
    have hN : pieces = [] ∨ normalAt (xStackFrames (f :: rest)) = true := by
      cases he : (printedText c s).isEmpty with
      | true =>
        left
        rw [List.isEmpty_iff.mp he] at hflat
        cases pieces with
        | nil => rfl
        | cons q qs =>
          exfalso
          have hq := hne q (by simp)
          simp only [List.flatten_cons, List.append_eq_nil_iff] at hflat
          exact hq hflat.1
      | false =>
        right
        have := hd.1
        rw [he, Bool.false_or] at this
        exact this
    rw [List.foldl_append, xrun_pieces_d main input sub pieces b f rest h hs hf hN, addKid_pieces pieces _ hne, hflat]
    obtain ⟨cp2, e3⟩ := ihe hsc hrd.2
      ({ b with stack := { f with kids := addChars f.kids (printedText c s) } :: rest } : XBState)
      { f with kids := addChars f.kids (printedText c s) } rest
      ⟨h.need, h.err, h.skip, h.lang⟩ rfl ⟨hf.kind, hf.content⟩ hd.2
    exact ⟨cp2, by rw [e3, readXKids_cons, readX_text]; rfl⟩

/-- **The XML-side builder over a conforming namespace-aware reading of the printed tree** builds
    `readX` of its root — the same element rows, character data as printed. -/
theorem xrun_doc_ns {lang : Lang} {c : XCfg} (hc : c.lang = lang) (ns : List NsRow) (hns : lang.ns = some ns)
    (hdt : docTypeFinds main lang = true) (t : Tree) (r : Node) (hroot : t.root = some r)
    (hre : nsReadable lang r = true) (helt : isElt r = true) (hd : dataOkX c [] r = true) (evs : List XEvent)
    (hr : ReadsDocNs c t evs) :
    ∃ cp, evs.foldl (xbuildStep main input sub) {} =
      { lang := some lang, root := some (readX c r), curPage := cp } := by
  obtain ⟨_, r0, body, hr0, hreads, hevs⟩ := hr
  rw [hroot] at hr0; injection hr0 with hr0; subst hr0
  obtain ⟨sysid, pubid, hdoc, hfind⟩ := docTypeFinds_spec main lang hdt
  subst hevs
  rw [hc, hdoc]
  rw [List.foldl_cons, List.foldl_cons]
  unfold xmlDeclEv
  rw [xstep_xmlDecl main input sub {} rfl, xstep_doctype main input sub {} rfl sysid pubid lang hfind]
  cases hreads with
  | text p cur s rest pieces es _ _ _ => cases helt
  | elt p cur name attrs kids rest body' es i j hk hrest =>
    cases hrest
    unfold nsReadable at hre
    simp only [Bool.and_eq_true] at hre
    obtain ⟨⟨hname, hattrs⟩, hkids⟩ := hre
    rw [dataOkX] at hd
    cases name with
    | literal s => cases hname
    | token d =>
      have hattrs' : attrs = [] := List.isEmpty_iff.mp hattrs
      subst hattrs'
      obtain ⟨ns', tags, u, hns', ht, hu, hue, hpage, hskip, hfind', hbar, hbin⟩ := tokOk_spec lang d hname
      rw [hns] at hns'; injection hns' with hns'; subst hns'
      have hcns : c.lang.ns = some ns := by rw [hc]; exact hns
      have hsc' := scopeNs_step c ns hcns .none none (.token d) ⟨rfl, trivial⟩
        (by simp only [namesHaveRows, List.all_cons, List.all_nil, Bool.and_true, hu, Option.isSome_some])
      have hafter : nsAfter c .none none (.token d) = some u := by
        obtain ⟨_, h2⟩ := hsc'
        have : scopePage (childScope .none (.token d)) = some d.page := rfl
        rw [this] at h2
        rw [h2.1, hu]
      have hxn : (Name.token d).xmlName = d.name := rfl
      rw [hafter, qual_some u _ hue, xmlAttrsOf_nil, hxn]
      have hx : xmlElt lang (u ++ 124 :: d.name) [] = ({ kind := .elt (.token d) [], kids := [] }, d.page) :=
        xmlElt_token lang ns tags hns ht d u hpage hfind' hbar
      have h1 : XAt lang ({ lang := some lang } : XBState) := ⟨rfl, rfl, rfl, rfl⟩
      rw [List.foldl_cons, List.foldl_append, List.foldl_cons, List.foldl_nil,
        xstep_start_ns main input sub h1 (fun _ => rfl) _ _ _ hskip, hx]
      obtain ⟨cp1, e1⟩ := xrun_kids_ns main input sub hc ns hns hk hsc' hkids
        ({ lang := some lang, stack := [{ kind := .elt (.token d) [], kids := [] }], curPage := d.page } : XBState)
        { kind := .elt (.token d) [], kids := [] } [] ⟨rfl, rfl, rfl, rfl⟩ rfl ⟨⟨_, _, rfl, hbin⟩, rfl⟩ hd
      refine ⟨cp1, ?_⟩
      have e1' : List.foldl (xbuildStep main input sub)
          ({ ({ lang := some lang } : XBState) with
              stack := { kind := .elt (.token d) [], kids := [] } :: ({ lang := some lang } : XBState).stack,
              curPage := d.page }) body' = _ := e1
      rw [e1',
        xstep_end_d main input sub (lang := lang)
          (b := { ({ lang := some lang, stack := [{ kind := .elt (.token d) [], kids := [] }],
                     curPage := d.page } : XBState) with
                  stack := [{ ({ kind := .elt (.token d) [], kids := [] } : XFrame) with kids := readXKids c kids [] }],
                  curPage := cp1 })
          ⟨rfl, rfl, rfl, rfl⟩ rfl ⟨⟨_, _, rfl, hbin⟩, rfl⟩, readX_elt]
      rfl

/-- `wbxml_tree_from_xml` on a text for which `ReadsBackNs` holds. -/
theorem treeOfXml_readsBackNs {lang : Lang} {c : XCfg} (main : List Lang) (hc : c.lang = lang) (ns : List NsRow)
    (hns : lang.ns = some ns) (hdt : docTypeFinds main lang = true) (t : Tree) (r : Node) (hroot : t.root = some r)
    (hre : nsReadable lang r = true) (helt : isElt r = true) (hd : dataOkX c [] r = true)
    (env : List (Bytes × ExpatRun)) (xml : Bytes)
    (hne : xml ≠ []) (hrb : ReadsBackNs env xml c t) (f : Nat) :
    treeOfXml main env (f + 1) xml = .ok { lang := some lang, origCharset := 0, root := some (readX c r) } := by
  obtain ⟨k, run, hfind, hok, hrd⟩ := hrb
  rw [treeOfXml]
  have he : xml.isEmpty = false := by cases xml with | nil => exact absurd rfl hne | cons _ _ => rfl
  simp only [he, Bool.false_eq_true, ↓reduceIte, hfind]
  obtain ⟨cp, e⟩ := xrun_doc_ns main xml _ hc ns hns hdt t r hroot hre helt hd run.events hrd
  rw [e]
  simp only [hok, Bool.not_true, Bool.false_eq_true, ↓reduceIte]

/-! ### Re-encoding the tree read back: the same exact normal form -/

/-- The printer's white-space handling is absorbed by the encoder's — every language (cf.
    `normText_printed`, which excludes SyncML). -/
theorem normText_printed' (c : XCfg) (wc : WCfg) (hf : flagsOk c wc = true) (s : Bytes) :
    normText wc (printedText c s) = normText wc s := by
  unfold printedText
  cases hg : c.gen == 2 with
  | true =>
    have hne : (c.gen != 2) = false := by simp [bne, hg]
    simp only [hne, Bool.false_and, Bool.false_eq_true, ↓reduceIte]
  | false =>
    simp only [flagsOk, hg, Bool.false_or, Bool.and_eq_true, Bool.or_eq_true, Bool.not_eq_true'] at hf
    have hne : (c.gen != 2) = true := by simp [bne, hg]
    simp only [hne, Bool.true_and]
    split
    · rename_i h1
      rw [Bool.and_eq_true] at h1
      rw [normText_nil' wc]
      unfold normText
      rcases hf.1 with (hi | hi) | hr
      · rw [h1.1] at hi; cases hi
      · simp [hi, h1.2]
      · cases hi : wc.ignoreEmpty with
        | true => simp [h1.2]
        | false =>
          simp only [Bool.false_and, Bool.false_eq_true, ↓reduceIte, hr, strip_allSpace s h1.2]
          rw [show cstrOf ([] : Bytes) = [] from rfl, syncmlTypeText_nil]
    · split
      · rename_i h2
        have hr : wc.removeBlanks = true := by
          rcases hf.2 with h | h
          · rw [h2] at h; cases h
          · exact h
        unfold normText
        rw [strip_all, hr]
        simp only [↓reduceIte, strip_of_trim _ (trim_strip s)]
      · rfl

theorem vText_nil (c : WCfg) (parent : Option Name) (cur : Option TagRow) : vText c parent cur [] = [] := by
  unfold vText
  split
  · rfl
  · have : textSilent c [] = true := by simp [textSilent, textArg, stripBlanks, cstrOf, cstrLen]
    simp only [this, Bool.not_true, Bool.and_false, Bool.false_eq_true, ↓reduceIte]
    exact normText_nil' c

theorem kvPar_false (l : Lang) (h : (l.id == 1801) = false) (parent : Option Name) : kvPar l parent = false := by
  cases hk : kvPar l parent with
  | false => rfl
  | true => have := kvPar_id _ _ hk; rw [this] at h; cases h

/-- Ordinary character data: what the printer leaves of it has the same typed normal form. -/
theorem vText_printed (c : WCfg) (xc : XCfg) (hf : flagsOk xc c = true) (hk : (c.lang.id == 1801) = false)
    (parent : Option Name) (cur : Option TagRow) (hb : isBinaryTag cur = false) (s : Bytes) :
    vText c parent cur (printedText xc s) = vText c parent cur s := by
  have hv : ∀ t, vText c parent cur t = normText c t := by
    intro t; simp only [vText, hb, kvPar_false c.lang hk, Bool.false_and, Bool.false_eq_true, if_false]
  rw [hv, hv, normText_printed' xc c hf]

/-- Drop the empty text nodes. -/
def dropE : List Node → List Node
  | [] => []
  | .text [] :: r => dropE r
  | .text (b :: t) :: r => .text (b :: t) :: dropE r
  | .elt n a k :: r => .elt n a k :: dropE r
  | .cdata k :: r => .cdata k :: dropE r
  | .tree l cs rt :: r => .tree l cs rt :: dropE r

theorem xKids_cur (c : WCfg) (parent : Option Name) (cur cur' : Option TagRow) (tp : Nat) (L acc : List Node)
    (h : headText L = false) : xKids c parent cur tp L acc = xKids c parent cur' tp L acc := by
  cases L with
  | nil => rw [xKids_nil, xKids_nil]
  | cons k r =>
    have hk : isText k = false := h
    rw [xKids_cons, xKids_cons, (xNode_cur c parent cur cur' tp k hk).1, (xNode_cur c parent cur cur' tp k hk).2]

/-- Empty text nodes are invisible to `xKids` as long as no two text nodes are adjacent. -/
theorem xKids_dropE (c : WCfg) (parent : Option Name) : ∀ (L : List Node) (cur : Option TagRow) (tp : Nat) (acc : List Node),
    noAdj L = true → xKids c parent cur tp (dropE L) acc = xKids c parent cur tp L acc
  | [], cur, tp, acc, _ => rfl
  | k :: r, cur, tp, acc, h => by
    rw [noAdj] at h
    simp only [Bool.and_eq_true, Bool.not_eq_true'] at h
    cases k with
    | text s =>
      have hr : headText r = false := by simpa [isText] using h.1
      cases s with
      | nil =>
        have hd : headText (dropE r) = false := by
          cases r with
          | nil => rfl
          | cons x xs =>
            have hx : isText x = false := hr
            cases x with
            | text t => cases hx
            | elt _ _ _ => rfl
            | cdata _ => rfl
            | tree _ _ _ => rfl
        rw [dropE, xKids_cons, xNode_text, vText_nil, addN_text, addChars_nil, vNode_text_2,
          ← xKids_dropE c parent r none tp acc h.2]
        exact xKids_cur c parent cur none tp _ acc hd
      | cons b t =>
        rw [dropE, xKids_cons, xKids_cons, xKids_dropE c parent r none _ _ h.2]
    | elt n a ks => rw [dropE, xKids_cons, xKids_cons, xKids_dropE c parent r none _ _ h.2]
    | cdata ks => rw [dropE, xKids_cons, xKids_cons, xKids_dropE c parent r none _ _ h.2]
    | tree l cs rt => rw [dropE, xKids_cons, xKids_cons, xKids_dropE c parent r none _ _ h.2]

theorem vNodes_cur (c : WCfg) (parent : Option Name) (cur cur' : Option TagRow) (tp : Nat) (L : List Node)
    (h : headText L = false) : (vNodes c parent cur tp L).2 = (vNodes c parent cur' tp L).2 := by
  cases L with
  | nil => rw [vNodes_nil_2, vNodes_nil_2]
  | cons k r =>
    have hk : isText k = false := h
    rw [vNodes_cons_2, vNodes_cons_2, (xNode_cur c parent cur cur' tp k hk).2]

theorem headText_dropE (r : List Node) (hr : headText r = false) : headText (dropE r) = false := by
  cases r with
  | nil => rfl
  | cons x xs =>
    have hx : isText x = false := hr
    cases x with
    | text t => cases hx
    | elt _ _ _ => rfl
    | cdata _ => rfl
    | tree _ _ _ => rfl

theorem vNodes_dropE (c : WCfg) (parent : Option Name) : ∀ (L : List Node) (cur : Option TagRow) (tp : Nat),
    noAdj L = true → (vNodes c parent cur tp (dropE L)).2 = (vNodes c parent cur tp L).2
  | [], cur, tp, _ => rfl
  | k :: r, cur, tp, h => by
    rw [noAdj] at h
    simp only [Bool.and_eq_true, Bool.not_eq_true'] at h
    cases k with
    | text s =>
      have hr : headText r = false := by simpa [isText] using h.1
      cases s with
      | nil =>
        rw [dropE, vNodes_cons_2, vNode_text_2, ← vNodes_dropE c parent r none tp h.2]
        exact vNodes_cur c parent cur none tp _ (headText_dropE r hr)
      | cons b t => rw [dropE, vNodes_cons_2, vNodes_cons_2, vNodes_dropE c parent r none _ h.2]
    | elt n a ks => rw [dropE, vNodes_cons_2, vNodes_cons_2, vNodes_dropE c parent r none _ h.2]
    | cdata ks => rw [dropE, vNodes_cons_2, vNodes_cons_2, vNodes_dropE c parent r none _ h.2]
    | tree l cs rt => rw [dropE, vNodes_cons_2, vNodes_cons_2, vNodes_dropE c parent r none _ h.2]

theorem isText_readX (xc : XCfg) (n : Node) : isText (readX xc n) = isText n := by
  cases n with
  | elt nm a k => rw [readX_elt]; rfl
  | text s => rw [readX_text]; rfl
  | cdata k => rw [readX]
  | tree l cs r => rw [readX]

theorem headText_map_readX (xc : XCfg) (L : List Node) : headText (L.map (readX xc)) = headText L := by
  cases L with
  | nil => rfl
  | cons k r => exact isText_readX xc k

theorem noAdj_map_readX (xc : XCfg) : ∀ (L : List Node), noAdj (L.map (readX xc)) = noAdj L
  | [] => rfl
  | k :: r => by
    rw [List.map_cons, noAdj, noAdj, isText_readX, headText_map_readX, noAdj_map_readX xc r]

theorem noAdj_of_nfKids : ∀ (L : List Node), nfKids L = true → noAdj L = true
  | [], _ => rfl
  | k :: r, h => by
    rw [nfKids_cons] at h
    simp only [Bool.and_eq_true] at h
    rw [noAdj, h.1.2, noAdj_of_nfKids r h.2]; rfl

/-- The children the XML-side builder collects: the children read one by one, empty printed text
    dropped (nothing is merged: no two text nodes are adjacent). -/
theorem readXKids_eq (xc : XCfg) : ∀ (ks A : List Node), noAdj ks = true → (lastText A = true → headText ks = false) →
    readXKids xc ks A = A ++ dropE (ks.map (readX xc))
  | [], A, _, _ => by rw [readXKids_nil]; simp [dropE]
  | k :: r, A, h, hA => by
    rw [noAdj] at h
    simp only [Bool.and_eq_true, Bool.not_eq_true'] at h
    rw [readXKids_cons, List.map_cons]
    cases k with
    | text s =>
      have hr : headText r = false := by simpa [isText] using h.1
      have hl : lastText A = false := by
        cases hA' : lastText A with
        | false => rfl
        | true => have := hA hA'; simp [headText, isText] at this
      rw [readX_text, addN_text]
      cases hp : printedText xc s with
      | nil => rw [addChars_nil, dropE, readXKids_eq xc r A h.2 (fun _ => hr)]
      | cons b t =>
        rw [addChars_cons, addKid_text_after _ _ hl, dropE,
          readXKids_eq xc r _ h.2 (fun _ => hr), List.append_assoc]
        rfl
    | elt n a ks =>
      rw [readX_elt, addN_elt, addKid_not_text A _ rfl, dropE,
        readXKids_eq xc r _ h.2 (fun hh => by rw [lastText_snoc] at hh; cases hh), List.append_assoc]
      rfl
    | cdata ks =>
      have e : readX xc (.cdata ks) = .cdata ks := by rw [readX]
      rw [e]
      show readXKids xc r (addKid A (.cdata ks)) = _
      rw [addKid_not_text A (.cdata ks) rfl, dropE,
        readXKids_eq xc r _ h.2 (fun hh => by rw [lastText_snoc] at hh; cases hh), List.append_assoc]
      rfl
    | tree l cs rt =>
      have e : readX xc (.tree l cs rt) = .tree l cs rt := by rw [readX]
      rw [e]
      show readXKids xc r (addKid A (.tree l cs rt)) = _
      rw [addKid_not_text A (.tree l cs rt) rfl, dropE,
        readXKids_eq xc r _ h.2 (fun hh => by rw [lastText_snoc] at hh; cases hh), List.append_assoc]
      rfl

theorem tokOk_notBinary (lang : Lang) (d : TagRow) (h : tokOk lang d = true) : isBinaryTag (some d) = false := by
  obtain ⟨_, _, _, _, _, _, _, _, _, _, _, hb⟩ := tokOk_spec lang d h
  exact hb

mutual
/-- **Re-encoding what was read back**: for a tree in normal form whose elements are resolved token
    elements (`nsReadable`), the exact typed normal form of the tree read back is the one of the
    tree itself. -/
theorem xNode_readX (c : WCfg) (xc : XCfg) (lang : Lang) (hf : flagsOk xc c = true) (hk : (c.lang.id == 1801) = false) :
    ∀ (n : Node) (parent : Option Name) (cur : Option TagRow) (tp : Nat), nsReadable lang n = true → nfNode n = true →
      isBinaryTag cur = false →
      xNode c parent cur tp (readX xc n) = xNode c parent cur tp n ∧
        (vNode c parent cur tp (readX xc n)).2 = (vNode c parent cur tp n).2
  | .elt name attrs kids, parent, cur, tp, hre, hnf, _ => by
    unfold nsReadable at hre
    simp only [Bool.and_eq_true] at hre
    obtain ⟨⟨hname, _⟩, hkids⟩ := hre
    rw [nfNode] at hnf
    cases name with
    | literal s => cases hname
    | token d =>
      have hb : isBinaryTag (foundAt c.lang tp (.token d)) = false := tokOk_notBinary lang d hname
      have hK := xKids_readX c xc lang hf hk kids (some (.token d)) (foundAt c.lang tp (.token d))
        (pageAfter (foundAt c.lang tp (.token d)) tp) hkids hnf hb
      rw [readX_elt, xNode_elt, xNode_elt, vNode_elt_2, vNode_elt_2,
        readXKids_eq xc kids [] (noAdj_of_nfKids kids hnf) (fun h => by cases h), List.nil_append,
        xKids_dropE c _ _ _ _ _ (by rw [noAdj_map_readX]; exact noAdj_of_nfKids kids hnf), hK.1 []]
      refine ⟨rfl, ?_⟩
      rw [vNodes_dropE c _ _ _ _ (by rw [noAdj_map_readX]; exact noAdj_of_nfKids kids hnf)]
      exact hK.2
  | .text s, parent, cur, tp, _, _, hb => by
    rw [readX_text, xNode_text, xNode_text, vNode_text_2, vNode_text_2, vText_printed c xc hf hk parent cur hb]
    exact ⟨rfl, rfl⟩
  | .cdata k, _, _, _, hre, _, _ => by rw [nsReadable] at hre; cases hre
  | .tree l cs r, _, _, _, hre, _, _ => by rw [nsReadable] at hre; cases hre
theorem xKids_readX (c : WCfg) (xc : XCfg) (lang : Lang) (hf : flagsOk xc c = true) (hk : (c.lang.id == 1801) = false) :
    ∀ (ks : List Node) (parent : Option Name) (cur : Option TagRow) (tp : Nat), nsReadableL lang ks = true →
      nfKids ks = true → isBinaryTag cur = false →
      (∀ acc, xKids c parent cur tp (ks.map (readX xc)) acc = xKids c parent cur tp ks acc) ∧
        (vNodes c parent cur tp (ks.map (readX xc))).2 = (vNodes c parent cur tp ks).2
  | [], parent, cur, tp, _, _, _ => ⟨fun _ => rfl, rfl⟩
  | k :: r, parent, cur, tp, hre, hnf, hb => by
    rw [nsReadableL, Bool.and_eq_true] at hre
    rw [nfKids_cons] at hnf
    simp only [Bool.and_eq_true] at hnf
    obtain ⟨h1, h2⟩ := xNode_readX c xc lang hf hk k parent cur tp hre.1 hnf.1.1 hb
    obtain ⟨h3, h4⟩ := xKids_readX c xc lang hf hk r parent none (vNode c parent cur tp k).2 hre.2 hnf.2 rfl
    refine ⟨fun acc => ?_, ?_⟩
    · rw [List.map_cons, xKids_cons, xKids_cons, h1, h2, h3]
    · rw [List.map_cons, vNodes_cons_2, vNodes_cons_2, h2, h4]
end

/-! ### The tree read back satisfies the hypotheses of the first trip again -/

theorem noCdataInTypedL_iff (l : Lang) (ty : Bool) : ∀ (L : List Node),
    noCdataInTypedL l ty L = true ↔ ∀ k ∈ L, noCdataInTyped l ty k = true
  | [] => by rw [noCdataInTypedL]; simp
  | k :: r => by rw [noCdataInTypedL, Bool.and_eq_true, noCdataInTypedL_iff l ty r]; simp

theorem validDatetimeAttrsL_iff (l : Lang) : ∀ (L : List Node),
    validDatetimeAttrsL l L = true ↔ ∀ k ∈ L, validDatetimeAttrs l k = true
  | [] => by rw [validDatetimeAttrsL]; simp
  | k :: r => by rw [validDatetimeAttrsL, Bool.and_eq_true, validDatetimeAttrsL_iff l r]; simp

theorem b64TextDecodesL_iff (c : WCfg) (parent : Option Name) : ∀ (L : List Node),
    b64TextDecodesL c parent L = true ↔ ∀ k ∈ L, b64TextDecodes c parent k = true
  | [] => by rw [b64TextDecodesL]; simp
  | k :: r => by rw [b64TextDecodesL, Bool.and_eq_true, b64TextDecodesL_iff c parent r]; simp

theorem keyValueTextFirstL_of (c : WCfg) (parent : Option Name) : ∀ (L : List Node) (pre : Bool),
    (∀ k ∈ L, ∀ pre', keyValueTextFirst c parent pre' k = true) → keyValueTextFirstL c parent pre L = true
  | [], _, _ => by rw [keyValueTextFirstL]
  | k :: r, pre, h => by
    rw [keyValueTextFirstL, Bool.and_eq_true]
    exact ⟨h k (by simp) pre, keyValueTextFirstL_of c parent r _ (fun x hx => h x (List.mem_cons_of_mem _ hx))⟩

/-- What the first-trip theorem asks of a source tree, position-free. -/
structure GoodX (lang : Lang) (c : WCfg) (k : Node) : Prop where
  over : nodeOver lang k = true
  plain : plainNode k = true
  cd : ∀ ty, noCdataInTyped lang ty k = true
  dt : validDatetimeAttrs lang k = true
  b64 : ∀ parent, b64TextDecodes c parent k = true
  kv : ∀ parent pre, keyValueTextFirst c parent pre k = true

theorem goodX_text (lang : Lang) (c : WCfg) (hl : c.lang = lang) (hk : (lang.id == 1801) = false) (s : Bytes) :
    GoodX lang c (.text s) := by
  have hkv : ∀ parent, kvPar c.lang parent = false := fun parent => kvPar_false c.lang (by rw [hl]; exact hk) parent
  refine ⟨by rw [nodeOver], by rw [plainNode], fun _ => by rw [noCdataInTyped], by rw [validDatetimeAttrs], ?_, ?_⟩
  · intro parent; rw [b64TextDecodes, hkv]; rfl
  · intro parent pre; rw [keyValueTextFirst, hkv]; rfl

mutual
theorem goodX_readX (lang : Lang) (c : WCfg) (xc : XCfg) (hl : c.lang = lang) (hk : (lang.id == 1801) = false) :
    ∀ (n : Node), nsReadable lang n = true → GoodX lang c (readX xc n)
  | .elt name attrs kids, hre => by
    unfold nsReadable at hre
    simp only [Bool.and_eq_true] at hre
    obtain ⟨⟨hname, hattrs⟩, hkids⟩ := hre
    have hattrs' : attrs = [] := List.isEmpty_iff.mp hattrs
    subst hattrs'
    have hK := goodX_readXKids lang c xc hl hk kids [] hkids (fun _ h => by cases h)
    rw [readX_elt]
    cases name with
    | literal s => cases hname
    | token d =>
      obtain ⟨ns, tags, u, _, ht, _, _, _, _, hfind, _, _⟩ := tokOk_spec lang d hname
      refine ⟨?_, ?_, ?_, ?_, ?_, ?_⟩
      · rw [nodeOver, Bool.and_eq_true, Bool.and_eq_true]
        refine ⟨⟨?_, rfl⟩, (nodesOver_iff lang _).mpr (fun k hk' => (hK k hk').over)⟩
        simp only [nameOver, ht, List.contains_iff_mem]
        exact encTag_mem _ _ _ _ hfind
      · rw [plainNode]; exact (plainNodes_iff _).mpr (fun k hk' => (hK k hk').plain)
      · intro ty; rw [noCdataInTyped]; exact (noCdataInTypedL_iff _ _ _).mpr (fun k hk' => (hK k hk').cd _)
      · rw [validDatetimeAttrs, Bool.and_eq_true]
        exact ⟨rfl, (validDatetimeAttrsL_iff _ _).mpr (fun k hk' => (hK k hk').dt)⟩
      · intro parent; rw [b64TextDecodes, Bool.and_eq_true]
        exact ⟨rfl, (b64TextDecodesL_iff _ _ _).mpr (fun k hk' => (hK k hk').b64 _)⟩
      · intro parent pre; rw [keyValueTextFirst]
        exact keyValueTextFirstL_of c _ _ _ (fun k hk' pre' => (hK k hk').kv _ pre')
  | .text s, _ => by rw [readX_text]; exact goodX_text lang c hl hk _
  | .cdata k, hre => by rw [nsReadable] at hre; cases hre
  | .tree l cs r, hre => by rw [nsReadable] at hre; cases hre
theorem goodX_readXKids (lang : Lang) (c : WCfg) (xc : XCfg) (hl : c.lang = lang) (hk : (lang.id == 1801) = false) :
    ∀ (ks acc : List Node), nsReadableL lang ks = true → (∀ k ∈ acc, GoodX lang c k) →
      ∀ k ∈ readXKids xc ks acc, GoodX lang c k
  | [], acc, _, h => by rw [readXKids_nil]; exact h
  | k :: rest, acc, hre, h => by
    rw [nsReadableL, Bool.and_eq_true] at hre
    rw [readXKids_cons]
    exact goodX_readXKids lang c xc hl hk rest _ hre.2
      (addN_all acc _ (goodX_text lang c hl hk) h (goodX_readX lang c xc hl hk k hre.1))
end

theorem isElt_readX (xc : XCfg) (n : Node) (h : isElt n = true) : isElt (readX xc n) = true := by
  cases n with
  | elt nm a k => rw [readX_elt]; rfl
  | text s => cases h
  | cdata k => cases h
  | tree l cs r => cases h

/-! ### The printed text does not depend on surplus fuel or the recorded charset -/

/-- A successful run of the printer is not changed by more fuel. -/
theorem xml_ok_mono : ∀ (f : Nat),
    (∀ (c : XCfg) (p : Parent) (n : Node) (st r : XSt), xmlNode c p f n st = .ok r → xmlNode c p (f + 1) n st = .ok r) ∧
    (∀ (c : XCfg) (p : Parent) (ns : List Node) (st r : XSt), xmlNodes c p f ns st = .ok r → xmlNodes c p (f + 1) ns st = .ok r)
  | 0 => ⟨fun c p n st r h => (by rw [xmlNode_zero] at h; cases h), fun c p ns st r h => (by rw [xmlNodes_zero] at h; cases h)⟩
  | f + 1 => by
    obtain ⟨ihN, ihL⟩ := xml_ok_mono f
    constructor
    · intro c p n st r h
      cases n with
      | elt name attrs kids =>
        rw [xmlNode_elt] at h ⊢
        cases hk : xmlNodes c (childScope p name) f kids (xmlOpen c p name attrs kids st) with
        | error e => rw [hk] at h; cases h
        | ok st1 => rw [hk] at h; rw [ihL _ _ _ _ _ hk]; exact h
      | text s => rw [xmlNode_text] at h ⊢; exact h
      | cdata kids =>
        rw [xmlNode_cdata] at h ⊢
        cases hk : xmlNodes c p f kids { st with inCdata := true, out := st.out ++ b!"<![CDATA[" } with
        | error e => rw [hk] at h; cases h
        | ok st1 => rw [hk] at h; rw [ihL _ _ _ _ _ hk]; exact h
      | tree l cs rt =>
        cases l with
        | none => rw [xmlNode_tree_none] at h; cases h
        | some l =>
          cases rt with
          | none => rw [xmlNode_tree_noroot] at h; cases h
          | some r0 =>
            rw [xmlNode_tree] at h ⊢
            cases hk : xmlNode { c with lang := l } .none f r0 { indent := st.indent } with
            | error e => rw [hk] at h; cases h
            | ok st1 => rw [hk] at h; rw [ihN _ _ _ _ _ hk]; exact h
    · intro c p ns st r h
      cases ns with
      | nil => rw [xmlNodes_nil] at h ⊢; exact h
      | cons n rest =>
        rw [xmlNodes_cons] at h ⊢
        cases hk : xmlNode c p f n st with
        | error e => rw [hk] at h; cases h
        | ok st1 => rw [hk] at h; rw [ihN _ _ _ _ _ hk]; exact ihL _ _ _ _ _ h

theorem xmlNode_ok_add (c : XCfg) (p : Parent) (n : Node) (st r : XSt) (f : Nat) (h : xmlNode c p f n st = .ok r) :
    ∀ k, xmlNode c p (f + k) n st = .ok r
  | 0 => h
  | k + 1 => (xml_ok_mono (f + k)).1 c p n st r (xmlNode_ok_add c p n st r f h k)

/-- Two successful prints of trees with the same language and root give the same text, whatever
    the fuel and the recorded original charset. -/
theorem treeToXml_same (cfg : W2XCfg) (ta tb : Tree) (fa fb : Nat) (xa xb : Bytes) (hl : ta.lang = tb.lang)
    (hr : ta.root = tb.root) (ha : treeToXml cfg fa ta = .ok xa) (hb : treeToXml cfg fb tb = .ok xb) : xa = xb := by
  unfold treeToXml at ha hb
  rw [hl, hr] at ha
  cases hlg : tb.lang with
  | none => rw [hlg] at hb; cases hb
  | some lang =>
    cases hrt : tb.root with
    | none => rw [hlg, hrt] at hb; cases hb
    | some root =>
      rw [hlg, hrt] at ha hb
      dsimp only at ha hb
      obtain ⟨sa, h1, h2⟩ := EncW.bind_ok' ha
      obtain ⟨sb, h3, h4⟩ := EncW.bind_ok' hb
      have h2 := EncW.ok_inj h2
      have h4 := EncW.ok_inj h4
      have e1 := xmlNode_ok_add _ _ _ _ _ fa h1 fb
      have e2 := xmlNode_ok_add _ _ _ _ _ fb h3 fa
      rw [Nat.add_comm] at e2
      rw [e1] at e2
      injection e2 with e2
      rw [← h2, ← h4, e2]

end Wbxml.Lemmas.Rt
