/-
  The specification reader `Spec/Xml.lean` on a CDATA node as the printer writes it:
  `<![CDATA[` `cdataText s` `]]>` in content is read as the character data `eolNorm s`.
-/
import Wbxml.Lemmas.XmlSpecText
namespace Wbxml.Lemmas.XmlSpec
open Wbxml Wbxml.Model Wbxml.Spec Wbxml.Spec.Xml Wbxml.Lemmas.EncW

/-! ### CDATA sections -/

/-- §2.11 on character data written as it is (inside a CDATA section): CR LF and a lone CR are read as LF. -/
def eolNorm : Bytes → Bytes
  | [] => []
  | b :: r =>
    if b == 13 then
      match r with
      | 10 :: r' => 10 :: eolNorm r'
      | r' => 10 :: eolNorm r'
    else b :: eolNorm r

theorem cdSect_plain (b : UInt8) (Y : Bytes) (h13 : b ≠ 13) (h93 : (b == 93 && Y.take 2 == [93, 62]) = false) :
    cdSect (b :: Y) = (cdSect Y).map fun dr => (b :: dr.1, dr.2) := by
  rw [cdSect.eq_def]
  simp [h13, h93]

theorem cdSect_end (X : Bytes) : cdSect (93 :: 93 :: 62 :: X) = some ([], X) := by
  rw [cdSect.eq_def]; simp

theorem cdSect_crlf (Y : Bytes) : cdSect (13 :: 10 :: Y) = (cdSect Y).map fun dr => (10 :: dr.1, dr.2) := by
  rw [cdSect.eq_def]; simp

theorem cdSect_cr (Y : Bytes) (h : ∀ r, Y ≠ 10 :: r) : cdSect (13 :: Y) = (cdSect Y).map fun dr => (10 :: dr.1, dr.2) := by
  rw [cdSect.eq_def]
  simp only [beq_iff_eq]
  have e1 : ((13 : UInt8) == 93 && List.take 2 Y == [93, 62]) = false := by simp
  simp only [e1, Bool.false_eq_true, ↓reduceIte]

/-- What `content` does after `<![CDATA[`, with the character data `pre` already collected. -/
def cdGo (f : Nat) (pre : Bytes) (Y : Bytes) : Option (List XItem × Bytes) :=
  (cdSect Y).bind fun dr => (content f dr.2).map fun ir => (addText (pre ++ dr.1) ir.1, ir.2)

theorem content_cdata (f : Nat) (Y : Bytes) :
    content (f + 1) (b!"<![CDATA[" ++ Y) = cdGo f [] Y := by
  show content (f + 1) (60 :: 33 :: 91 :: 67 :: 68 :: 65 :: 84 :: 65 :: 91 :: Y) = _
  simp only [content, cdGo]
  simp [strip]
  cases cdSect Y with
  | none => rfl
  | some dr =>
    simp only [Option.bind_some]
    cases content f dr.2 <;> rfl

theorem cdGo_map (f : Nat) (pre : Bytes) (b : UInt8) (Y Z : Bytes)
    (h : cdSect Z = (cdSect Y).map fun dr => (b :: dr.1, dr.2)) : cdGo f pre Z = cdGo f (pre ++ [b]) Y := by
  simp only [cdGo, h]
  cases cdSect Y with
  | none => simp
  | some dr => simp


theorem cdataText_cons (b : UInt8) (r : Bytes) (h : ¬(b = 93 ∧ ∃ r', r = 93 :: 62 :: r')) :
    cdataText (b :: r) = b :: cdataText r := by
  rw [cdataText.eq_2]
  intro r' hb hr
  exact h ⟨hb, r', hr⟩

theorem cdataText_take2 (r X : Bytes) (h : (cdataText r ++ 93 :: 93 :: 62 :: X).take 2 = [93, 62]) :
    ∃ r', r = 93 :: 62 :: r' := by
  match r with
  | [] => simp [cdataText] at h
  | [a] =>
    rw [cdataText_cons a [] (by simp)] at h
    simp [cdataText] at h
  | a :: b :: r'' =>
    by_cases hc : a = 93 ∧ ∃ r', b :: r'' = 93 :: 62 :: r'
    · obtain ⟨rfl, r', hr'⟩ := hc
      injection hr' with hb hr''
      subst hb; subst hr''
      simp [cdataText] at h
    · rw [cdataText_cons a _ hc] at h
      have hh := Wbxml.Lemmas.XmlPrint.cdataText_head (b :: r'') (93 :: 93 :: 62 :: X)
      cases hct : cdataText (b :: r'') ++ 93 :: 93 :: 62 :: X with
      | nil => rw [hct] at hh; simp at hh
      | cons y ys =>
        rw [hct] at hh
        simp only [List.cons_append, hct, List.take_succ_cons, List.take_zero, List.cons.injEq, and_true] at h
        simp only [List.head?_cons, List.cons_append, Option.some.injEq] at hh
        obtain ⟨rfl, rfl⟩ := h
        exact ⟨r'', by rw [hh]⟩

/-- **A CDATA node's text is read back** (line ends normalised), whatever `]]>` it contains: `cdataText`
    ends the section after `]]` and opens a new one, and the reader joins adjacent sections. -/
theorem cdGo_cdataText (X : Bytes) (R : List XItem) (rest' : Bytes) (hX : Reads X (R, rest')) :
    ∀ (n : Nat) (s pre : Bytes) (f : Nat), s.length ≤ n → (cdataText s ++ 93 :: 93 :: 62 :: X).length < f →
      cdGo f pre (cdataText s ++ 93 :: 93 :: 62 :: X) = some (addText (pre ++ eolNorm s) R, rest') := by
  intro n
  induction n with
  | zero =>
    intro s pre f hs hf
    have : s = [] := by cases s with | nil => rfl | cons _ _ => simp at hs
    subst this
    have hc := hX f (by simp [cdataText] at hf; omega)
    simp [cdataText, cdGo, cdSect_end, hc, eolNorm]
  | succ n ih =>
    intro s pre f hs hf
    cases s with
    | nil =>
      have hc := hX f (by simp [cdataText] at hf; omega)
      simp [cdataText, cdGo, cdSect_end, hc, eolNorm]
    | cons b r =>
      by_cases h93 : b = 93 ∧ ∃ r', r = 93 :: 62 :: r'
      · obtain ⟨rfl, r', rfl⟩ := h93
        have hct : cdataText (93 :: 93 :: 62 :: r') ++ 93 :: 93 :: 62 :: X =
            93 :: 93 :: 93 :: 93 :: 62 :: (b!"<![CDATA[" ++ 62 :: (cdataText r' ++ 93 :: 93 :: 62 :: X)) := by
          simp [cdataText]
        rw [hct] at hf ⊢
        cases f with
        | zero => simp at hf
        | succ f' =>
        rw [cdGo_map _ pre 93 _ _ (cdSect_plain 93 _ (by decide) (by simp)),
          cdGo_map _ (pre ++ [93]) 93 _ _ (cdSect_plain 93 _ (by decide) (by simp))]
        simp only [cdGo, cdSect_end, Option.bind_some]
        rw [content_cdata, cdGo_map _ [] 62 _ _ (cdSect_plain 62 _ (by decide) (by simp))]
        have := ih r' ([] ++ [62]) f' (by simp at hs; omega)
          (by simp only [List.length_cons, List.length_append] at hf ⊢; omega)
        rw [this]
        have he : eolNorm (93 :: 93 :: 62 :: r') = 93 :: 93 :: 62 :: eolNorm r' := by
          rw [eolNorm.eq_def]; simp only [show ((93 : UInt8) == 13) = false by decide]
          rw [eolNorm.eq_def]; simp only [show ((93 : UInt8) == 13) = false by decide]
          rw [eolNorm.eq_def]; simp only [show ((62 : UInt8) == 13) = false by decide]
          simp
        simp [he, addText_append]
      · rw [cdataText_cons b r h93] at hf ⊢
        have ht : (b == 93 && (cdataText r ++ 93 :: 93 :: 62 :: X).take 2 == [93, 62]) = false := by
          by_cases hb : b = 93
          · subst hb
            cases hq : (cdataText r ++ 93 :: 93 :: 62 :: X).take 2 == [93, 62] with
            | false => rfl
            | true => exact absurd ⟨rfl, cdataText_take2 r X (by simpa using hq)⟩ h93
          · simp [hb]
        by_cases h13 : b = 13
        · subst h13
          by_cases h10 : ∃ r1, r = 10 :: r1
          · obtain ⟨r1, rfl⟩ := h10
            rw [cdataText_cons 10 r1 (by simp)] at hf ⊢
            rw [List.cons_append, List.cons_append, cdGo_map f pre 10 _ _ (cdSect_crlf _)]
            have := ih r1 (pre ++ [10]) f (by simp at hs; omega)
              (by simp only [List.length_cons, List.length_append] at hf ⊢; omega)
            rw [this]
            have he : eolNorm (13 :: 10 :: r1) = 10 :: eolNorm r1 := by rw [eolNorm.eq_def]; simp
            simp [he]
          · have hY : ∀ r'', cdataText r ++ 93 :: 93 :: 62 :: X ≠ 10 :: r'' := by
              intro r'' hY
              have hh := Wbxml.Lemmas.XmlPrint.cdataText_head r (93 :: 93 :: 62 :: X)
              rw [hY] at hh
              cases r with
              | nil => simp at hh
              | cons a r2 =>
                simp only [List.head?_cons, List.cons_append, Option.some.injEq] at hh
                exact h10 ⟨r2, by rw [hh]⟩
            rw [List.cons_append, cdGo_map f pre 10 _ _ (cdSect_cr _ hY)]
            have := ih r (pre ++ [10]) f (Nat.le_of_succ_le_succ hs)
              (by simp only [List.length_cons, List.length_append] at hf ⊢; omega)
            rw [this]
            have he : eolNorm (13 :: r) = 10 :: eolNorm r := by
              rw [eolNorm.eq_def]
              simp only [beq_self_eq_true, ↓reduceIte]
              split
              · rename_i r1; exact absurd ⟨r1, rfl⟩ h10
              · rfl
            simp [he]
        · rw [List.cons_append, cdGo_map f pre b _ _ (cdSect_plain b _ h13 ht)]
          have := ih r (pre ++ [b]) f (Nat.le_of_succ_le_succ hs) (by simp only [List.length_cons, List.length_append] at hf ⊢; omega)
          rw [this]
          have he : eolNorm (b :: r) = b :: eolNorm r := by rw [eolNorm.eq_def]; simp [h13]
          simp [he]


/-- A CDATA node as the printer writes it, in content. -/
theorem reads_cdata (s X : Bytes) (R : List XItem) (rest' : Bytes) (hX : Reads X (R, rest')) :
    Reads (b!"<![CDATA[" ++ (cdataText s ++ 93 :: 93 :: 62 :: X)) (addText (eolNorm s) R, rest') := by
  intro f hf
  cases f with
  | zero => simp at hf
  | succ f =>
    rw [content_cdata]
    have := cdGo_cdataText X R rest' hX s.length s [] f (Nat.le_refl _)
      (by simp only [List.length_cons, List.length_append] at hf ⊢; omega)
    simpa using this

end Wbxml.Lemmas.XmlSpec
