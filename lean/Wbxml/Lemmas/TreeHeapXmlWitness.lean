/-
  C18 lemmas, part 21: concrete documents — two on which `api_tree_equals_parsed_partial` applies
  (WML, SyncML), and one for every kind of event `plainEvents` excludes, where the tree the XML front
  end builds and the tree the document-order API history builds really differ.
  Bool-valued checks only (`Tree` / `X2TRes` have no decidable equality); the facts are established by
  kernel evaluation in `Props/C18.lean`.
-/
import Wbxml.Lemmas.TreeHeapXmlRun
import Wbxml.Lemmas.TreeHeapWitness
import Wbxml.Gen.Tables
import Wbxml.Model.EncWbxml
import Wbxml.Model.EncXml
namespace Wbxml.Model.TreeHeap
open Wbxml Wbxml.Model

/-! ### Checks -/

/-- The front end answers a tree of language `L`. -/
def parsedLangIs (r : X2TRes) (L : Lang) : Bool :=
  match r with
  | .ok t => t.lang == some L
  | _ => false

/-- Both byte strings exist and differ. -/
def bytesDiffer (a b : Except Err Bytes) : Bool :=
  match a, b with
  | .ok x, .ok y => x != y
  | _, _ => false

/-- Both byte strings exist, are not empty, and are equal. -/
def bytesAgree (a b : Except Err Bytes) : Bool :=
  match a, b with
  | .ok x, .ok y => x == y && !x.isEmpty
  | _, _ => false

/-- The tree the document-order API history of `es` builds on the empty tree of language `L`. -/
def apiTree (L : Lang) (cs : Nat) (es : List XEvent) : Except Err Tree :=
  match run { lang := some L, charset := cs } (apiHistoryOf es) with
  | .ok s => absTree s
  | .error e => .error e

/-- Parsed tree and API-built tree both exist and give DIFFERENT XML and WBXML bytes (default options). -/
def sidesDiffer (r : X2TRes) (L : Lang) (es : List XEvent) : Bool :=
  match r with
  | .ok t =>
    (match apiTree L t.origCharset es with
     | .ok t' =>
       bytesDiffer (treeToWbxml {} t) (treeToWbxml {} t') &&
       bytesDiffer (treeToXml { main := Gen.main } 100 t) (treeToXml { main := Gen.main } 100 t')
     | .error _ => false)
  | _ => false

/-- Parsed tree and API-built tree both exist and give the SAME non-empty XML and WBXML bytes. -/
def sidesAgree (r : X2TRes) (L : Lang) (es : List XEvent) : Bool :=
  match r with
  | .ok t =>
    (match apiTree L t.origCharset es with
     | .ok t' =>
       bytesAgree (treeToWbxml {} t) (treeToWbxml {} t') &&
       bytesAgree (treeToXml { main := Gen.main } 100 t) (treeToXml { main := Gen.main } 100 t')
     | .error _ => false)
  | _ => false

/-! ### WML: attributes, nested elements, text in pieces, a CDATA section, a processing instruction -/

def wmlXml : Bytes :=
  b!"<?xml version=\"1.0\" encoding=\"UTF-8\"?><!DOCTYPE wml PUBLIC \"-//WAPFORUM//DTD WML 1.2//EN\" \"http://www.wapforum.org/DTD/wml12.dtd\"><wml><card id=\"a\" title=\"T\"><p>hi <b>there</b>!?</p><?x y?><p><![CDATA[xy]]></p></card></wml>"

def wmlEvents : List XEvent := [
  .xmlDecl (some b!"1.0") (some b!"UTF-8"),
  .doctype (some b!"http://www.wapforum.org/DTD/wml12.dtd") (some b!"-//WAPFORUM//DTD WML 1.2//EN"),
  .startElt b!"wml" [] 0,
  .startElt b!"card" [(b!"id", b!"a"), (b!"title", b!"T")] 0,
  .startElt b!"p" [] 0, .chars b!"hi ", .startElt b!"b" [] 0, .chars b!"there", .endElt b!"b" 0,
  .chars b!"!", .chars b!"?", .endElt b!"p" 0,
  .pi,
  .startElt b!"p" [] 0, .startCdata, .chars b!"x", .chars b!"y", .endCdata, .endElt b!"p" 0,
  .endElt b!"card" 0, .endElt b!"wml" 0]

def wmlEnv : List (Bytes × ExpatRun) := [(wmlXml, { ok := true, events := wmlEvents })]

/-! ### SyncML 1.2: namespaces (two code pages), a literal attribute, nesting, text -/

def syncXml : Bytes := b!"<SyncML xmlns=\"SYNCML:SYNCML1.2\">...</SyncML>"

def syncEvents : List XEvent := [
  .startElt b!"SYNCML:SYNCML1.2|SyncML" [] 0,
  .startElt b!"SYNCML:SYNCML1.2|SyncHdr" [] 0,
  .startElt b!"SYNCML:SYNCML1.2|VerDTD" [] 0, .chars b!"1.2", .endElt b!"SYNCML:SYNCML1.2|VerDTD" 0,
  .startElt b!"SYNCML:SYNCML1.2|Meta" [(b!"id", b!"m1")] 0,
  .startElt b!"syncml:metinf|MaxMsgSize" [] 0, .chars b!"10", .chars b!"00", .endElt b!"syncml:metinf|MaxMsgSize" 0,
  .endElt b!"SYNCML:SYNCML1.2|Meta" 0,
  .endElt b!"SYNCML:SYNCML1.2|SyncHdr" 0,
  .startElt b!"SYNCML:SYNCML1.2|SyncBody" [] 0,
  .startElt b!"SYNCML:SYNCML1.2|Final" [] 0, .endElt b!"SYNCML:SYNCML1.2|Final" 0,
  .endElt b!"SYNCML:SYNCML1.2|SyncBody" 0,
  .endElt b!"SYNCML:SYNCML1.2|SyncML" 0]

def syncEnv : List (Bytes × ExpatRun) := [(syncXml, { ok := true, events := syncEvents })]

/-! ### Excluded: an attribute in the XML namespace (`attrPlain`) -/

def xmlLangXml : Bytes := b!"<wml xml:lang=\"en\"/>"

def xmlLangEvents : List XEvent := [
  .startElt b!"wml" [(xmlNsUri ++ b!"lang", b!"en")] 0, .endElt b!"wml" 0]

def xmlLangEnv : List (Bytes × ExpatRun) := [(xmlLangXml, { ok := true, events := xmlLangEvents })]

/-! ### Excluded: character data below an element called `Data` (`textPlain`, SyncML) -/

def dataXml : Bytes := b!"<SyncML><Add><Item><Data>x</Data></Item></Add></SyncML>"

def dataEvents : List XEvent := [
  .startElt b!"SyncML" [] 0, .startElt b!"Add" [] 0, .startElt b!"Item" [] 0, .startElt b!"Data" [] 0,
  .chars b!"x",
  .endElt b!"Data" 0, .endElt b!"Item" 0, .endElt b!"Add" 0, .endElt b!"SyncML" 0]

def dataEnv : List (Bytes × ExpatRun) := [(dataXml, { ok := true, events := dataEvents })]

/-! ### Excluded: character data below a binary-flagged element (`textPlain`, ActiveSync) -/

def mimeXml : Bytes := b!"<SendMail xmlns=\"ComposeMail:\"><MIME>QUJD</MIME></SendMail>"

def mimeEvents : List XEvent := [
  .doctype none (some b!"-//MICROSOFT//DTD ActiveSync//EN"),
  .startElt b!"ComposeMail:|SendMail" [] 0, .startElt b!"ComposeMail:|MIME" [] 0,
  .chars b!"QUJD",
  .endElt b!"ComposeMail:|MIME" 0, .endElt b!"ComposeMail:|SendMail" 0]

def mimeEnv : List (Bytes × ExpatRun) := [(mimeXml, { ok := true, events := mimeEvents })]

/-! ### Excluded: an embedded DevInf document (`embeddedName`, SyncML) -/

def devinfXml : Bytes := b!"<SyncML><DevInf></DevInf></SyncML>"

def devinfEvents : List XEvent := [
  .startElt b!"SyncML" [] 0, .startElt devinfName [] 8, .endElt devinfName 16, .endElt b!"SyncML" 24]

/-- The document the front end cuts out of the input and parses on its own (DevInf 1.2). -/
def devinfSubXml : Bytes := embeddedDoc devinfXml 8 16 false Gen.lang16

def devinfSubEvents : List XEvent := [
  .doctype Gen.lang16.pub.dtd Gen.lang16.pub.xmlId, .startElt b!"DevInf" [] 0, .endElt b!"DevInf" 0]

def devinfEnv : List (Bytes × ExpatRun) :=
  [(devinfXml, { ok := true, events := devinfEvents }), (devinfSubXml, { ok := true, events := devinfSubEvents })]

/-! ### Shapes Expat does not report — a CDATA section as the whole document: both sides agree -/

def cdataRootEvents : List XEvent := [.doctype none (some b!"-//WAPFORUM//DTD WML 1.2//EN"), .startCdata, .chars b!"x", .endCdata]

def cdataRootEnv : List (Bytes × ExpatRun) := [(b!"x", { ok := true, events := cdataRootEvents })]

/-! ### Reading the checks -/

theorem parsedLangIs_inv {r : X2TRes} {L : Lang} (h : parsedLangIs r L = true) : ∃ t, r = .ok t ∧ t.lang = some L := by
  cases r with
  | ok t => exact ⟨t, rfl, by simpa [parsedLangIs] using h⟩
  | err e => simp [parsedLangIs] at h
  | need d => simp [parsedLangIs] at h

/-! ### Extract + re-insert where the side condition fails -/

/-- Number of children of the root element of `abs`. -/
def rootKidCount (s : St) : Nat :=
  match absTree s with
  | .ok t => (match t.root with
    | some (.elt _ _ ks) => ks.length
    | _ => 0)
  | .error _ => 0

/-- On `adjWitnessState` (root with the adjacent text children 1 = "a", 3 = "b"): node 3 is the last child
    of the root, its previous sibling is text; extracting and re-adding it merges the two. -/
def reinsertMergeCheck : Bool :=
  (match adjWitnessState.cellAt 3 with
   | some c => c.parent == some 0 && c.next == none && c.prev == some 1 && c.pay.isText
   | none => false) &&
  (match adjWitnessState.cellAt 1 with
   | some c => c.pay.isText
   | none => false) &&
  rootKidCount adjWitnessState == 2 &&
  (match run adjWitnessState [.extract 3, .addNode (some 0) 3] with
   | .ok s' => rootKidCount s' == 1
   | .error _ => false)

end Wbxml.Model.TreeHeap
