/-
  `parse_ser`, layer 1: `string`, `entity`, `opaque`, literal names and `extension`.
-/
import Wbxml.Lemmas.ParseSerBasic
namespace Wbxml.Lemmas.ParseSer
open Wbxml Wbxml.Model Wbxml.Spec

/-! ### `entity`: the parser's UTF-8 generation against `Spec.utf8` -/

/-- The fuelled loop of the parser model computes what the structurally recursive codec model
    (`Model/Codec/Entity.lean`, property C11) computes, whenever that one stays in bounds. -/
theorem entityLoop_bridge (idx : Nat) : ∀ (f code : Nat) (tail bs : Bytes), idx < f →
    Codec.entityLoop idx code tail = .ok bs → Model.entityLoop f code idx tail = bs := by
  induction idx with
  | zero =>
    intro f code tail bs hf h
    obtain ⟨f', rfl⟩ : ∃ f', f = f' + 1 := ⟨f - 1, by omega⟩
    rw [Codec.entityLoop] at h
    rw [Model.entityLoop]
    simp only [Nat.shiftRight_eq_div_pow]
    split at h
    · simp at h
    · rename_i hc
      simp only [Codec.entityMasks, List.getElem?_cons_zero, Except.ok.injEq] at h
      simp only [hc, ↓reduceIte, List.getD_cons_zero]
      exact h
  | succ i ih =>
    intro f code tail bs hf h
    obtain ⟨f', rfl⟩ : ∃ f', f = f' + 1 := ⟨f - 1, by omega⟩
    rw [Codec.entityLoop] at h
    rw [Model.entityLoop]
    simp only [Nat.shiftRight_eq_div_pow]
    split at h
    · rename_i hc
      simp only [hc, ↓reduceIte, Nat.add_sub_cancel]
      have e1 : code &&& 0x3F = code % 64 := Nat.and_two_pow_sub_one_eq_mod code 6
      rw [e1]
      exact ih f' (code / 2 ^ 6) _ bs (by omega) h
    · rename_i hc
      simp only [hc, ↓reduceIte]
      cases hm : Codec.entityMasks[i + 1]? with
      | none => simp [hm] at h
      | some m =>
        simp only [hm, Except.ok.injEq] at h
        have : [0xFC, 0xF8, 0xF0, 0xE0, 0xC0].getD (i + 1) 0 = m := by
          simp only [Codec.entityMasks] at hm
          simp [List.getD, hm]
        rw [this]; exact h

theorem codec_cstr_eq (l : Bytes) : Codec.cstr (l ++ [0]) = l.take (cstrLen l) := by
  have e : (fun x : UInt8 => decide (x ≠ 0)) = (fun x => x != 0) := by
    funext x; by_cases hx : x = 0 <;> simp [hx]
  rw [cstrLen_take, Codec.cstr, e]
  induction l with
  | nil => simp
  | cons b r ih =>
    by_cases h : (b != 0) = true
    · simp only [List.cons_append, List.takeWhile_cons, h, ↓reduceIte, ih]
    · simp [h]

theorem entityBytes_bridge (code : Nat) (h0 : code ≠ 0) (bs : Bytes)
    (h : Codec.entityBytes code = .ok bs) : Model.entityBytes code = .ok bs := by
  unfold Codec.entityBytes at h
  unfold Model.entityBytes
  split at h
  · simp at h
  · rename_i h1
    simp only [h1, ↓reduceIte]
    split at h
    · rename_i h2
      have hz : (code == 0) = false := by simp [h0]
      simp only [h2, ↓reduceIte, hz, Bool.false_eq_true]
      rw [← h]
      have hb : UInt8.ofNat code ≠ 0 := Lemmas.Codec.ofNat_ne_zero code (by omega) (by omega)
      simp [Codec.cstr, hb]
    · rename_i h2
      simp only [h2, ↓reduceIte]
      cases he : Codec.entityLoop 5 code [] with
      | error e => simp [he, bind, Except.bind] at h
      | ok e =>
        simp only [he, bind, Except.bind, pure, Except.pure, Except.ok.injEq] at h
        rw [entityLoop_bridge 5 6 code [] e (by omega) he, ← h, codec_cstr_eq]

/-- A character entity for a Unicode scalar value other than U+0000 yields its UTF-8 form. -/
theorem entityBytes_spec (code : Nat) (h : wfEntity code = true) :
    Model.entityBytes code = .ok (entityText code) := by
  simp only [wfEntity, Bool.and_eq_true, decide_eq_true_eq, bne_iff_ne, ne_eq] at h
  exact entityBytes_bridge code h.2 _ (Props.C11.entity_utf8_partial code h.1 h.2)

theorem wfEntity_lt (code : Nat) (h : wfEntity code = true) : code < 4294967296 := by
  simp only [wfEntity, Bool.and_eq_true, decide_eq_true_eq] at h
  have := h.1
  unfold isScalar at this
  omega

/-- `entity = ENTITY entcode`. -/
theorem parseEntity_ser (c : Ctx) (ver) (code : Nat) (h : wfEntity code = true) (suf : Bytes) (tp ap cur) :
    parseEntity (st c ver (0x02 :: (mb code ++ suf)) tp ap cur) =
      .ok (entityText code, st c ver suf tp ap cur) := by
  simp only [parseEntity, skip1_cons, bind, Except.bind, parseMb_ser c ver code (wfEntity_lt code h),
    entityBytes_spec code h, pure, Except.pure]

/-! ### `opaque` -/

theorem parseOpaque_ser (c : Ctx) (ver) (d : Bytes) (h : d.length < 4294967296) (suf : Bytes) (tp ap cur) :
    parseOpaque (st c ver (serOpaque d ++ suf) tp ap cur) = .ok (d, st c ver suf tp ap cur) := by
  have h1 : ¬ (d.length > (d ++ suf).length) := by simp
  simp only [parseOpaque, serOpaque, List.cons_append, List.append_assoc, skip1_cons, bind, Except.bind,
    parseMb_ser c ver d.length h, h1, ↓reduceIte, pure, Except.pure, List.take_left, List.drop_left]

/-! ### `string` -/

theorem parseString_ser (c : Ctx) (ver) (hc : c.ok = true) (s : Str) (hs : wfStr c s = true)
    (suf : Bytes) (tp ap cur) :
    parseString (st c ver (serStr s ++ suf) tp ap cur) = .ok (strText c s, st c ver suf tp ap cur) := by
  cases s with
  | inl s =>
    simp only [wfStr, Bool.and_eq_true] at hs
    simp only [parseString, serStr, List.cons_append, List.append_assoc, List.nil_append, isToken_cons,
      beq_self_eq_true, ↓reduceIte, skip1_cons, bind, Except.bind, parseTermstr_ser c ver hs.1 s hs.2, strText]
  | tbl off =>
    simp only [wfStr, Bool.and_eq_true, decide_eq_true_eq] at hs
    have h3 : ((0x83 : UInt8) == 0x03) = false := by decide
    simp only [parseString, serStr, List.cons_append, isToken_cons, h3, Bool.false_eq_true,
      beq_self_eq_true, ↓reduceIte, skip1_cons, bind, Except.bind,
      parseMb_ser c ver off (off_lt c hc off hs.2), strtblRef_ser c ver hc hs.1 off hs.2, strText,
      pure, Except.pure]

/-! ### Literal names -/

theorem parseLiteral_ser (c : Ctx) (ver) (hc : c.ok = true) (hcs : csOk c = true) (b : UInt8) (off : Nat)
    (hoff : off < c.tbl.length) (suf : Bytes) (tp ap cur) :
    parseLiteral (st c ver (b :: (mb off ++ suf)) tp ap cur) =
      if b == 0x04 then .ok ((0x3F, strAt c.tbl off), st c ver suf tp ap cur)
      else if b == 0x44 then .ok ((0x40, strAt c.tbl off), st c ver suf tp ap cur)
      else if b == 0x84 then .ok ((0x80, strAt c.tbl off), st c ver suf tp ap cur)
      else if b == 0xC4 then .ok ((0xC0, strAt c.tbl off), st c ver suf tp ap cur)
      else .error (.code E.internal) := by
  simp only [parseLiteral, parseU8_cons, bind, Except.bind, parseMb_ser c ver off (off_lt c hc off hoff),
    strtblRef_ser c ver hc hcs off hoff, pure, Except.pure]
  repeat (first | rfl | split)

/-! ### `extension` -/

theorem isExtension_cons (c : Ctx) (ver) (b : UInt8) (hb : b ≠ 0) (r : Bytes) (tp ap cur) :
    isExtension (st c ver (b :: r) tp ap cur) = isExtToken b := by
  have : (b == 0) = false := by simp [hb]
  simp [isExtension, this]

theorem isExtension_sw (c : Ctx) (ver) (p b : UInt8) (r : Bytes) (tp ap cur) :
    isExtension (st c ver (0 :: p :: b :: r) tp ap cur) = isExtToken b := by
  simp [isExtension]

theorem isExtension_serSw (c : Ctx) (ver) (sw : Option Nat) (b : UInt8) (hb : b ≠ 0) (r : Bytes) (tp ap cur) :
    isExtension (st c ver (serSw sw ++ b :: r) tp ap cur) = isExtToken b := by
  cases sw with
  | none => exact isExtension_cons c ver b hb r tp ap cur
  | some p => exact isExtension_sw c ver _ b r tp ap cur

/-- First octet of an extension. -/
def extByte : Ext → UInt8
  | .inl k _ => byte (0x40 + k)
  | .tbl k _ => byte (0x80 + k)
  | .tok k => byte (0xC0 + k)

def extTail : Ext → Bytes
  | .inl _ s => s ++ [0x00]
  | .tbl _ v => mb v
  | .tok _ => []

theorem serExt_eq (x : Ext) : serExt x = extByte x :: extTail x := by cases x <;> rfl

def extK : Ext → Nat
  | .inl k _ => k
  | .tbl k _ => k
  | .tok k => k

theorem wfExt_k (c : Ctx) (x : Ext) (h : wfExt c x = true) : extK x < 3 := by
  cases x <;> simp only [wfExt, Bool.and_eq_true, decide_eq_true_eq] at h <;> simp only [extK]
  · exact h.1.1.1
  · exact h.1
  · exact h

theorem extByte_facts (c : Ctx) (x : Ext) (h : wfExt c x = true) :
    extByte x ≠ 0 ∧ isExtToken (extByte x) = true := by
  have hk := wfExt_k c x h
  cases x with
  | inl k s =>
    simp only [extK] at hk
    have : k = 0 ∨ k = 1 ∨ k = 2 := by omega
    rcases this with rfl | rfl | rfl <;> simp only [extByte] <;> decide
  | tbl k v =>
    simp only [extK] at hk
    have : k = 0 ∨ k = 1 ∨ k = 2 := by omega
    rcases this with rfl | rfl | rfl <;> simp only [extByte] <;> decide
  | tok k =>
    simp only [extK] at hk
    have : k = 0 ∨ k = 1 ∨ k = 2 := by omega
    rcases this with rfl | rfl | rfl <;> simp only [extByte] <;> decide

theorem parseExtension_core (c : Ctx) (ver) (hc : c.ok = true) (tagSpace : Bool) (x : Ext)
    (hx : wfExt c x = true) (suf : Bytes) (tp ap cur) :
    parseExtension tagSpace (st c ver (serExt x ++ suf) tp ap cur) = .ok (extText c x, st c ver suf tp ap cur) := by
  unfold parseExtension
  have hk := wfExt_k c x hx
  cases x with
  | inl k s =>
    simp only [extK] at hk
    simp only [wfExt, Bool.and_eq_true, decide_eq_true_eq] at hx
    obtain ⟨⟨⟨_, hw⟩, hcs⟩, hs⟩ := hx
    have : k = 0 ∨ k = 1 ∨ k = 2 := by omega
    rcases this with rfl | rfl | rfl <;>
    · simp only [serExt, List.cons_append, List.append_assoc, List.nil_append, isToken_cons, bind, Except.bind, hw, ↓reduceIte,
        extText]
      simp [hw, byte, parseTermstr_ser c ver hcs s hs, wmlVar, wmlVarSuffix, pure, Except.pure]
  | tbl k v =>
    simp only [extK] at hk
    simp only [wfExt, Bool.and_eq_true, decide_eq_true_eq] at hx
    have : k = 0 ∨ k = 1 ∨ k = 2 := by omega
    by_cases hw : isWml c.lang.id = true
    · simp only [hw, ↓reduceIte, Bool.and_eq_true, decide_eq_true_eq] at hx
      obtain ⟨_, hcs, hv⟩ := hx
      rcases this with rfl | rfl | rfl <;>
      · simp only [serExt, List.cons_append, isToken_cons, bind, Except.bind, hw, ↓reduceIte, extText]
        simp [hw, byte, parseMb_ser c ver v (off_lt c hc v hv), strtblRef_ser c ver hc hcs v hv, wmlVar,
          wmlVarSuffix, pure, Except.pure]
    · simp only [hw, Bool.false_eq_true, ↓reduceIte, Bool.and_eq_true, decide_eq_true_eq, beq_iff_eq] at hx
      obtain ⟨_, ⟨⟨hwv, rfl⟩, hex⟩, hv⟩ := hx
      obtain ⟨exts, hexts⟩ := Option.isSome_iff_exists.mp hex
      simp only [serExt, List.cons_append, isToken_cons, bind, Except.bind, hw, Bool.false_eq_true, ↓reduceIte,
        extText, hwv, hexts]
      cases hf : exts.find? (fun r => r.token == v) <;>
        simp [hw, hwv, hexts, hf, byte, parseMb_ser c ver v hv, pure, Except.pure]
  | tok k =>
    simp only [extK] at hk
    have : k = 0 ∨ k = 1 ∨ k = 2 := by omega
    rcases this with rfl | rfl | rfl <;>
    · simp only [serExt, List.cons_append, List.nil_append, isToken_cons, bind, Except.bind, extText]
      by_cases hw : isWml c.lang.id = true
      · simp [hw, byte, pure, Except.pure]
      · by_cases hwv : isWv c.lang.id = true <;> simp [hw, hwv, byte, pure, Except.pure]

theorem parseExtension_sw (c : Ctx) (ver) (tagSpace : Bool) (p : Nat) (hp : p < 256) (b : UInt8) (hb : b ≠ 0)
    (r : Bytes) (tp ap cur) :
    parseExtension tagSpace (st c ver (0x00 :: byte p :: b :: r) tp ap cur) =
      parseExtension tagSpace (st c ver (b :: r) (bif tagSpace then p else tp) (bif tagSpace then ap else p) cur) := by
  have hb' : (b == 0) = false := by simp [hb]
  unfold parseExtension
  cases tagSpace
  · simp only [isToken_cons, beq_self_eq_true, ↓reduceIte, parseSwitchPage_attr c ver p hp, hb', Bool.false_eq_true,
      bind, Except.bind, pure, Except.pure, cond_false]
  · simp only [isToken_cons, beq_self_eq_true, ↓reduceIte, parseSwitchPage_tag c ver p hp, hb', Bool.false_eq_true,
      bind, Except.bind, pure, Except.pure, cond_true]

/-- `extension = [switchPage] ((EXT_I termstr) | (EXT_T index) | EXT)`. -/
theorem parseExtension_ser (c : Ctx) (ver) (hc : c.ok = true) (tagSpace : Bool) (sw : Option Nat)
    (hsw : wfSw sw = true) (x : Ext) (hx : wfExt c x = true) (suf : Bytes) (tp ap cur) :
    parseExtension tagSpace (st c ver (serSw sw ++ (serExt x ++ suf)) tp ap cur) =
      .ok (extText c x, st c ver suf (bif tagSpace then swPage sw tp else tp)
        (bif tagSpace then ap else swPage sw ap) cur) := by
  cases sw with
  | none =>
    simp only [serSw, List.nil_append, swPage, Option.getD_none, Bool.cond_self]
    exact parseExtension_core c ver hc tagSpace x hx suf tp ap cur
  | some p =>
    have hp : p < 256 := by simpa [wfSw] using hsw
    rw [serExt_eq]
    simp only [serSw, List.cons_append, List.nil_append, swPage, Option.getD_some]
    rw [parseExtension_sw c ver tagSpace p hp _ (extByte_facts c x hx).1, ← List.cons_append, ← serExt_eq]
    exact parseExtension_core c ver hc tagSpace x hx suf _ _ cur

end Wbxml.Lemmas.ParseSer
