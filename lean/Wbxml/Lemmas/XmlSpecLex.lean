/-
  Lexical lemmas about the specification reader `Spec/Xml.lean` (literal strings, white space, UTF-8
  decoding, names, references) — facts about the reader alone, for all inputs.
-/
import Wbxml.Spec.Xml
namespace Wbxml.Lemmas.XmlSpec
open Wbxml Wbxml.Spec Wbxml.Spec.Xml

/-! ### Literal strings and white space -/

theorem strip_append (p r : Bytes) : strip p (p ++ r) = some r := by
  induction p with
  | nil => rfl
  | cons a p ih => simp [strip, ih]

theorem strip_self (p : Bytes) : strip p p = some [] := by
  have := strip_append p []
  simpa using this

theorem skipS_cons_of_not (b : UInt8) (r : Bytes) (h : isS b = false) : skipS (b :: r) = b :: r := by
  simp [skipS, List.dropWhile, h]

theorem skipS_nil : skipS [] = [] := rfl

/-! ### UTF-8 -/

theorem decode_ascii (a : UInt8) (r : Bytes) (h : a.toNat < 0x80) :
    decode (a :: r) = (decode r).map (a.toNat :: ·) := by
  rw [decode.eq_def]; simp [h]

/-- All characters of a UTF-8 octet sequence satisfy `p` (and the sequence is well-formed UTF-8). -/
def allCp (p : Nat → Bool) (bs : Bytes) : Bool :=
  match decode bs with
  | some cs => cs.all p
  | none => false

theorem allCp_cons_map (p : Nat → Bool) (c : Nat) (x : Bytes) (r : Bytes)
    (hd : decode x = (decode r).map (c :: ·)) (h : allCp p x = true) : p c = true ∧ allCp p r = true := by
  unfold allCp at h ⊢
  rw [hd] at h
  cases hr : decode r with
  | none => simp [hr] at h
  | some cs => simpa [hr] using h

theorem isTail_ge (b : UInt8) (h : isTail b = true) : 0x80 ≤ b.toNat := by
  simp [isTail] at h; exact h.1

theorem allCp_induct (p : Nat → Bool) (P : Bytes → Prop) (nil : P [])
    (ascii : ∀ a r, a.toNat < 0x80 → p a.toNat = true → allCp p r = true → P r → P (a :: r))
    (multi : ∀ ch c r, ch ≠ [] → (∀ b ∈ ch, 0x80 ≤ b.toNat) →
      (∀ t, decode (ch ++ t) = (decode t).map (c :: ·)) → 0x80 ≤ c → p c = true → allCp p r = true → P r → P (ch ++ r)) :
    ∀ s, allCp p s = true → P s := by
  intro s
  fun_induction decode s with
  | case1 => intro _; exact nil
  | case2 a r h ih =>
    intro hs
    obtain ⟨h1, h2⟩ := allCp_cons_map p _ _ r (decode_ascii a r h) hs
    exact ascii a r h h1 h2 (ih h2)
  | case4 a h1 h2 h3 b r hb ih =>
    intro hs
    have hd : ∀ t, decode ([a, b] ++ t) = (decode t).map (((a.toNat - 0xC0) * 64 + tailBits b) :: ·) := by
      intro t; show decode (a :: b :: t) = _; rw [decode.eq_def]; simp [h1, h2, h3, hb]
    obtain ⟨h4, h5⟩ := allCp_cons_map p _ _ r (hd r) hs
    have hb' := isTail_ge b hb
    exact multi [a, b] ((a.toNat - 0xC0) * 64 + tailBits b) r (by simp) (by intro x hx; simp at hx; rcases hx with rfl | rfl <;> omega) hd
      (by unfold tailBits; omega) h4 h5 (ih h5)
  | case7 a h1 h2 h3 h4 b c r hb ih =>
    intro hs
    have hd : ∀ t, decode ([a, b, c] ++ t) = (decode t).map ((((a.toNat - 0xE0) * 64 + tailBits b) * 64 + tailBits c) :: ·) := by
      intro t; show decode (a :: b :: c :: t) = _; rw [decode.eq_def]; simp [h1, h2, h3, h4, hb]
    obtain ⟨h5, h6⟩ := allCp_cons_map p _ _ r (hd r) hs
    simp only [Bool.and_eq_true, Bool.or_eq_true, bne_iff_ne, ne_eq, decide_eq_true_eq] at hb
    have hb1 := isTail_ge b hb.1.1.1
    have hc1 := isTail_ge c hb.1.1.2
    exact multi [a, b, c] (((a.toNat - 0xE0) * 64 + tailBits b) * 64 + tailBits c) r (by simp) (by intro x hx; simp at hx; rcases hx with rfl | rfl | rfl <;> omega) hd
      (by unfold tailBits; omega) h5 h6 (ih h6)
  | case10 a h1 h2 h3 h4 h5 b c d r hb ih =>
    intro hs
    have hd : ∀ t, decode ([a, b, c, d] ++ t) =
        (decode t).map (((((a.toNat - 0xF0) * 64 + tailBits b) * 64 + tailBits c) * 64 + tailBits d) :: ·) := by
      intro t; show decode (a :: b :: c :: d :: t) = _; rw [decode.eq_def]; simp [h1, h2, h3, h4, h5, hb]
    obtain ⟨h6, h7⟩ := allCp_cons_map p _ _ r (hd r) hs
    simp only [Bool.and_eq_true, Bool.or_eq_true, bne_iff_ne, ne_eq, decide_eq_true_eq] at hb
    have hb1 := isTail_ge b hb.1.1.1.1
    exact multi [a, b, c, d] ((((a.toNat - 0xF0) * 64 + tailBits b) * 64 + tailBits c) * 64 + tailBits d) r (by simp)
      (by intro x hx; simp at hx; rcases hx with rfl | rfl | rfl | rfl
          · omega
          · exact hb1
          · exact isTail_ge _ hb.1.1.1.2
          · exact isTail_ge _ hb.1.1.2) hd
      (by unfold tailBits; omega) h6 h7 (ih h7)
  | _ =>
    intro hs
    exfalso
    unfold allCp at hs
    rw [decode.eq_def] at hs
    simp [*] at hs


theorem xmlChars_eq (bs : Bytes) : xmlChars bs = allCp isChar bs := rfl

theorem allCp_nil (p : Nat → Bool) : allCp p [] = true := by simp [allCp, decode]

theorem allCp_ascii (p : Nat → Bool) (a : UInt8) (r : Bytes) (h : a.toNat < 0x80) :
    allCp p (a :: r) = (p a.toNat && allCp p r) := by
  unfold allCp
  rw [decode_ascii a r h]
  cases decode r <;> simp

/-- A well-formed prefix can be split off. -/
theorem allCp_append (p : Nat → Bool) (a b : Bytes) (h : allCp p a = true) : allCp p (a ++ b) = allCp p b := by
  revert h
  refine allCp_induct p (fun a => allCp p (a ++ b) = allCp p b) rfl ?_ ?_ a
  · intro x r hx hp _ ih
    rw [List.cons_append, allCp_ascii p x _ hx, hp, ih]; rfl
  · intro ch c r _ _ hd _ hp _ ih
    rw [List.append_assoc]
    unfold allCp at ih ⊢
    rw [hd]
    cases hr : decode (r ++ b) with
    | none => rw [hr] at ih; simp [← ih]
    | some cs => rw [hr] at ih; simp [hp, ← ih]

theorem allCp_append_true (p : Nat → Bool) (a b : Bytes) (ha : allCp p a = true) (hb : allCp p b = true) :
    allCp p (a ++ b) = true := by rw [allCp_append p a b ha, hb]

theorem allCp_mono (p q : Nat → Bool) (hpq : ∀ c, p c = true → q c = true) (s : Bytes) (h : allCp p s = true) :
    allCp q s = true := by
  revert h
  refine allCp_induct p (fun s => allCp q s = true) (allCp_nil q) ?_ ?_ s
  · intro a r ha hp _ ih
    rw [allCp_ascii q a r ha, hpq _ hp, ih]; rfl
  · intro ch c r _ _ hd _ hp _ ih
    unfold allCp at ih ⊢
    rw [hd]
    cases hr : decode r with
    | none => rw [hr] at ih; simp at ih
    | some cs => rw [hr] at ih; simp [hpq _ hp, ih]

/-- ASCII strings: octet by octet. -/
theorem allCp_of_ascii (p : Nat → Bool) (s : Bytes) (h : ∀ b ∈ s, b.toNat < 0x80 ∧ p b.toNat = true) :
    allCp p s = true := by
  induction s with
  | nil => exact allCp_nil p
  | cons a r ih =>
    rw [allCp_ascii p a r (h a List.mem_cons_self).1, (h a List.mem_cons_self).2,
      ih (fun b hb => h b (List.mem_cons_of_mem _ hb))]; rfl

theorem xmlChars_append (a b : Bytes) (ha : xmlChars a = true) (hb : xmlChars b = true) : xmlChars (a ++ b) = true :=
  allCp_append_true isChar a b ha hb

/-! ### Names -/

theorem nameStart_nameChar (c : Nat) (h : isNameStartChar c = true) : isNameChar c = true := by
  simp [isNameChar, h]

theorem nameChar_char (c : Nat) (h : isNameChar c = true) : isChar c = true := by
  simp only [isNameChar, isNameStartChar, isChar, Bool.or_eq_true, Bool.and_eq_true, decide_eq_true_eq, beq_iff_eq] at h ⊢
  omega

/-- What `isName` says. -/
theorem isName_decode (n : Bytes) (h : isName n = true) :
    ∃ c cs, decode n = some (c :: cs) ∧ isNameStartChar c = true ∧ cs.all isNameChar = true := by
  unfold isName at h
  split at h
  · rename_i c cs hd
    simp only [Bool.and_eq_true] at h
    exact ⟨c, cs, hd, h.1, h.2⟩
  · cases h

theorem isName_allCp (n : Bytes) (h : isName n = true) : allCp isNameChar n = true := by
  obtain ⟨c, cs, hd, hc, hcs⟩ := isName_decode n h
  simp [allCp, hd, nameStart_nameChar c hc, hcs]

theorem isName_xmlChars (n : Bytes) (h : isName n = true) : xmlChars n = true :=
  allCp_mono isNameChar isChar nameChar_char n (isName_allCp n h)

theorem allCp_nameBytes (n : Bytes) (h : allCp isNameChar n = true) : n.all isNameByte = true := by
  revert h
  refine allCp_induct isNameChar (fun n => n.all isNameByte = true) rfl ?_ ?_ n
  · intro a r _ hp _ ih
    simp [isNameByte, hp, ih]
  · intro ch c r _ hch _ _ _ _ ih
    rw [List.all_append, ih, Bool.and_true, List.all_eq_true]
    intro b hb
    simp [isNameByte, hch b hb]

/-- The first octet of a Name is an ASCII NameStartChar or starts a multi-octet character. -/
def isNameStartByte (b : UInt8) : Bool := decide (0x80 ≤ b.toNat) || isNameStartChar b.toNat

theorem isName_head (n : Bytes) (h : isName n = true) : ∃ a r, n = a :: r ∧ isNameStartByte a = true := by
  cases n with
  | nil => simp [isName, decode] at h
  | cons a r =>
    refine ⟨a, r, rfl, ?_⟩
    by_cases ha : a.toNat < 0x80
    · obtain ⟨c, cs, hd, hc, _⟩ := isName_decode _ h
      rw [decode_ascii a r ha] at hd
      cases hr : decode r with
      | none => simp [hr] at hd
      | some x =>
        simp only [hr, Option.map_some, Option.some.injEq, List.cons.injEq] at hd
        simp [isNameStartByte, hd.1, hc]
    · simp only [isNameStartByte, Bool.or_eq_true, decide_eq_true_eq]; left; omega

/-- [5] Name in front of something that cannot continue a name. -/
theorem name_append (n rest : Bytes) (hn : isName n = true) (hr : ∀ b r, rest = b :: r → isNameByte b = false) :
    name (n ++ rest) = some (n, rest) := by
  have hall := allCp_nameBytes n (isName_allCp n hn)
  have htw : (n ++ rest).takeWhile isNameByte = n := by
    rw [List.takeWhile_append_of_pos (by simpa using hall)]
    cases rest with
    | nil => simp
    | cons b r => simp [List.takeWhile, hr b r rfl]
  simp [name, htw, hn]

end Wbxml.Lemmas.XmlSpec
