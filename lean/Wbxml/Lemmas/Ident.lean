/-
  Lemmas for C10 (language identification): `check_public_id` / header, `wbxml_tables_search_table`.
-/
import Wbxml.Model.TreeOfXml
import Wbxml.Lemmas.ParserSafeMain
import Wbxml.Lemmas.ParseSerBasic
namespace Wbxml.Lemmas.Ident
open Wbxml Wbxml.Model Wbxml.Lemmas.ParserSafe

/-! ### `lastIndexOf` -/

theorem lastIndexOf_go_isSome (b : UInt8) (s : Bytes) (i : Nat) (best : Option Nat) :
    (lastIndexOf.go b i best s).isSome = (best.isSome || s.contains b) := by
  induction s generalizing i best with
  | nil => simp [lastIndexOf.go]
  | cons c r ih =>
    simp only [lastIndexOf.go, ih, List.contains_cons]
    by_cases h : c = b
    · subst h; simp
    · have h1 : (c == b) = false := by simpa using h
      have h2 : (b == c) = false := by simpa using (Ne.symm h)
      simp [h1, h2]

/-- The namespace test of `wbxml_tables_search_table` (`strrchr(root, '|') != NULL`). -/
theorem lastIndexOf_isSome (b : UInt8) (s : Bytes) : (lastIndexOf b s).isSome = s.contains b := by
  simp [lastIndexOf, lastIndexOf_go_isSome]

/-! ### The three stages of `searchTable` -/

/-- DOCTYPE public identifier, compared with `strcasecmp`. -/
def pubMatch (p : Bytes) (l : Lang) : Bool :=
  match l.pub.xmlId with
  | some x => caseEq x p
  | none => false

/-- First namespace row of the language is a case-insensitive prefix of the root name. -/
def nsMatch (r : Bytes) (l : Lang) : Bool :=
  match l.ns with
  | some (n :: _) => casePrefix n.ns r
  | _ => false

def byPub (main : List Lang) (pubid : Option Bytes) : Option Lang :=
  pubid.bind fun p => main.find? (pubMatch p)

def bySys (main : List Lang) (sysid : Option Bytes) : Option Lang :=
  sysid.bind fun s => main.find? (fun l => l.pub.dtd == some s)

def byRoot (main : List Lang) (root : Option Bytes) : Option Lang :=
  root.bind fun r =>
    if r.contains 124 then main.find? (nsMatch r) else main.find? (fun l => l.pub.root == some r)

theorem searchTable_eq (main : List Lang) (pubid sysid root : Option Bytes) :
    searchTable main pubid sysid root = ((byPub main pubid).or (bySys main sysid)).or (byRoot main root) := by
  have e : searchTable main pubid sysid root =
      (match byPub main pubid with
       | some l => some l
       | none => match bySys main sysid with
         | some l => some l
         | none => byRoot main root) := by
    unfold searchTable byPub bySys byRoot
    cases pubid <;> cases sysid <;> cases root <;>
      simp only [Option.bind_none, Option.bind_some, lastIndexOf_isSome] <;> rfl
  rw [e]
  cases byPub main pubid <;> cases bySys main sysid <;> simp

/-- Whatever `searchTable` answers is an entry of the table. -/
theorem searchTable_mem (main : List Lang) (pubid sysid root : Option Bytes) (l : Lang)
    (h : searchTable main pubid sysid root = some l) : l ∈ main := by
  rw [searchTable_eq] at h
  simp only [Option.or_eq_some_iff, byPub, bySys, byRoot, Option.bind_eq_some_iff] at h
  rcases h with (⟨p, _, h⟩ | ⟨_, s, _, h⟩) | ⟨_, r, _, h⟩
  · exact List.mem_of_find?_eq_some h
  · exact List.mem_of_find?_eq_some h
  · split at h <;> exact List.mem_of_find?_eq_some h

end Wbxml.Lemmas.Ident
