/-
  C18 lemmas, part 3: what the three pointer surgeries of `wbxml_tree.c` do to one sibling chain —
  append at the end (`wbxml_tree_add_node`, normal case), replace the last text node (its merge
  case), unlink one node (`wbxml_tree_extract_node`) — stated on views.
-/
import Wbxml.Lemmas.TreeHeapShape
set_option linter.unusedSimpArgs false
set_option linter.unusedVariables false
namespace Wbxml.Model.TreeHeap
open Wbxml Wbxml.Model

theorem match_nil (v : View) (par prv : Option Nat) : Match v par prv .nil := trivial

theorem match_node (v : View) (par prv : Option Nat) (i : Nat) (ch nx : BT) :
    Match v par prv (.node i ch nx) ↔
      LinkOK v par prv i ch.rid nx.rid ∧ Match v (some i) none ch ∧ Match v par (some i) nx := Iff.rfl

/-- The last cell of a matched chain: its `next` is NULL, its `prev` is `lastPrev`. -/
theorem Match.last {v : View} (par : Option Nat) : ∀ (t : BT) (prv : Option Nat) (l : Nat),
    Match v par prv t → t.lastId = some l →
    ∃ c, v l = some c ∧ c.next = none ∧ c.parent = par ∧ c.prev = BT.lastPrev prv t
  | .nil, _, _, _, h => by simp [BT.lastId] at h
  | .node i ch .nil, prv, l, ⟨⟨c, hc, hp, hpv, hf, hn, _⟩, _, _⟩, h => by
    simp only [BT.lastId, Option.some.injEq] at h
    subst h
    exact ⟨c, hc, hn, hp, hpv⟩
  | .node i ch (.node j c2 m), prv, l, ⟨_, _, mn⟩, h => by
    simp only [BT.lastId] at h
    exact Match.last par (.node j c2 m) (some i) l mn h

/-- `while (tmp->next) tmp = tmp->next` arrives at the last node of the chain. -/
theorem lastSib_spec {s : St} (par : Option Nat) : ∀ (t : BT) (prv : Option Nat) (i l : Nat) (fuel : Nat),
    Match s.cellAt par prv t → t.rid = some i → t.lastId = some l → t.tops.length ≤ fuel →
    s.lastSib fuel i = .ok l
  | .nil, _, _, _, _, _, h, _, _ => by simp at h
  | .node a ch .nil, prv, i, l, fuel, ⟨⟨c, hc, _, _, _, hn, _⟩, _, _⟩, hr, hl, hf => by
    simp only [BT.rid_node, Option.some.injEq] at hr; subst hr
    simp only [BT.lastId, Option.some.injEq] at hl; subst hl
    cases fuel with
    | zero => simp [BT.tops] at hf
    | succ f =>
      simp only [St.lastSib, deref_of_cellAt hc]
      simp only [BT.rid_nil] at hn
      simp [hn]
  | .node a ch (.node j c2 m), prv, i, l, fuel, ⟨⟨c, hc, _, _, _, hn, _⟩, _, mn⟩, hr, hl, hf => by
    simp only [BT.rid_node, Option.some.injEq] at hr; subst hr
    simp only [BT.lastId] at hl
    cases fuel with
    | zero => simp [BT.tops] at hf
    | succ f =>
      simp only [St.lastSib, deref_of_cellAt hc]
      simp only [BT.rid_node] at hn
      simp only [hn]
      exact lastSib_spec par (.node j c2 m) (some a) j l f mn rfl hl (by simp [BT.tops] at hf ⊢; omega)

/-! ### Append at the end of a chain -/

theorem Match.snoc {v v' : View} (par : Option Nat) (n : Nat) (chn : BT) (l : Nat) :
    ∀ (t : BT) (prv : Option Nat), t.ids.Nodup → t.lastId = some l →
      (∀ j, j ∈ t.ids → j ≠ l → v' j = v j) →
      (∀ c, v l = some c → v' l = some { c with next := some n }) →
      LinkOK v' par (some l) n chn.rid none →
      Match v' (some n) none chn →
      Match v par prv t → Match v' par prv (BT.snoc t (.node n chn .nil))
  | .nil, _, _, h, _, _, _, _, _ => by simp [BT.lastId] at h
  | .node i ch .nil, prv, hnd, hl, hout, hlast, hn, hchn, ⟨⟨c, hc, hp, hpv, hf, hnx, hb⟩, mc, _⟩ => by
    simp only [BT.lastId, Option.some.injEq] at hl; subst hl
    obtain ⟨hi1, hi2, hcn, hnn, hd⟩ := BT.nodup_node.mp hnd
    refine ⟨⟨_, hlast c hc, hp, hpv, hf, rfl, hb⟩, ?_, hn, hchn, trivial⟩
    apply Match.frame ch _ _ _ mc
    intro j hj
    apply hout j (BT.mem_node.mpr (Or.inr (Or.inl hj)))
    intro e; subst e; exact hi1 hj
  | .node i ch (.node j c2 m), prv, hnd, hl, hout, hlast, hn, hchn, ⟨⟨c, hc, hp, hpv, hf, hnx, hb⟩, mc, mn⟩ => by
    simp only [BT.lastId] at hl
    have hlm : l ∈ (BT.node j c2 m).ids := BT.tops_sub _ _ (BT.lastId_mem _ _ hl)
    obtain ⟨hi1, hi2, hcn, hnn, hd⟩ := BT.nodup_node.mp hnd
    have hil : i ≠ l := by
      intro e; subst e; exact hi2 hlm
    refine ⟨⟨c, ?_, hp, hpv, hf, hnx, hb⟩, ?_, ?_⟩
    · rw [hout i (BT.mem_node.mpr (Or.inl rfl)) hil]; exact hc
    · apply Match.frame ch _ _ _ mc
      intro a ha
      apply hout a (BT.mem_node.mpr (Or.inr (Or.inl ha)))
      intro e; subst e
      exact hd a ha hlm
    · apply Match.snoc par n chn l (.node j c2 m) (some i) hnn hl _ hlast hn hchn mn
      intro a ha hal
      exact hout a (BT.mem_node.mpr (Or.inr (Or.inr ha))) hal

/-! ### Replace the last node of a chain -/

theorem BT.lastPrev_in : ∀ (t : BT) (p : Nat),
    BT.lastPrev (some p) t = some p ∨ ∃ q, BT.lastPrev (some p) t = some q ∧ q ∈ t.ids
  | .nil, p => Or.inl rfl
  | .node i ch .nil, p => Or.inl rfl
  | .node i ch (.node j c m), p => by
    simp only [BT.lastPrev]
    rcases BT.lastPrev_in (.node j c m) i with h | ⟨q, hq, hm⟩
    · right; exact ⟨i, h, BT.mem_node.mpr (Or.inl rfl)⟩
    · right; exact ⟨q, hq, BT.mem_node.mpr (Or.inr (Or.inr hm))⟩

theorem Match.replLast {v v' : View} (par : Option Nat) (n l : Nat) :
    ∀ (t : BT) (prv : Option Nat), t.ids.Nodup → t.lastId = some l →
      (∀ j, j ∈ t.ids → j ≠ l → some j ≠ BT.lastPrev prv t → v' j = v j) →
      (∀ q c, BT.lastPrev prv t = some q → q ∈ t.ids → v q = some c → v' q = some { c with next := some n }) →
      LinkOK v' par (BT.lastPrev prv t) n none none →
      Match v par prv t → Match v' par prv (BT.replLast n t)
  | .nil, _, _, h, _, _, _, _ => by simp [BT.lastId] at h
  | .node i ch .nil, prv, hnd, hl, hout, hq, hn, _ => by
    simp only [BT.replLast]
    exact ⟨hn, trivial, trivial⟩
  | .node i ch (.node j c2 .nil), prv, hnd, hl, hout, hq, hn, ⟨⟨c, hc, hp, hpv, hf, hnx, hb⟩, mc, mn⟩ => by
    simp only [BT.lastId, Option.some.injEq] at hl; subst hl
    obtain ⟨hi1, hi2, hcn, hnn, hd⟩ := BT.nodup_node.mp hnd
    have hlp : BT.lastPrev prv (.node i ch (.node j c2 .nil)) = some i := rfl
    rw [hlp] at hn
    simp only [BT.replLast]
    refine ⟨⟨_, hq i c hlp (BT.mem_node.mpr (Or.inl rfl)) hc, hp, hpv, hf, rfl, hb⟩, ?_, hn, trivial, trivial⟩
    apply Match.frame ch _ _ _ mc
    intro a ha
    apply hout a (BT.mem_node.mpr (Or.inr (Or.inl ha)))
    · intro e; subst e; exact hd a ha (BT.mem_node.mpr (Or.inl rfl))
    · rw [hlp]; intro e; injection e with e; subst e; exact hi1 ha
  | .node i ch (.node j c2 (.node k c3 m)), prv, hnd, hl, hout, hq, hn, ⟨⟨c, hc, hp, hpv, hf, hnx, hb⟩, mc, mn⟩ => by
    have hl2 : (BT.node j c2 (.node k c3 m)).lastId = some l := by simpa [BT.lastId] using hl
    have hlm : l ∈ (BT.node j c2 (.node k c3 m)).ids := BT.tops_sub _ _ (BT.lastId_mem _ l hl2)
    obtain ⟨hi1, hi2, hcn, hnn, hd⟩ := BT.nodup_node.mp hnd
    have hlp : BT.lastPrev prv (.node i ch (.node j c2 (.node k c3 m))) =
        BT.lastPrev (some i) (.node j c2 (.node k c3 m)) := rfl
    have hqin : ∃ q, BT.lastPrev (some i) (.node j c2 (.node k c3 m)) = some q ∧
        q ∈ (BT.node j c2 (.node k c3 m)).ids := by
      have e1 : BT.lastPrev (some i) (.node j c2 (.node k c3 m)) = BT.lastPrev (some j) (.node k c3 m) := rfl
      rw [e1]
      rcases BT.lastPrev_in (.node k c3 m) j with h | ⟨q, h, hm⟩
      · exact ⟨j, h, BT.mem_node.mpr (Or.inl rfl)⟩
      · exact ⟨q, h, BT.mem_node.mpr (Or.inr (Or.inr hm))⟩
    obtain ⟨q, hqe, hqm⟩ := hqin
    have hrl : BT.replLast n (.node i ch (.node j c2 (.node k c3 m))) =
        .node i ch (BT.replLast n (.node j c2 (.node k c3 m))) := rfl
    have hrr : (BT.replLast n (.node j c2 (.node k c3 m))).rid = some j := rfl
    rw [hrl]
    refine ⟨⟨c, ?_, hp, hpv, hf, by rw [hrr]; exact hnx, hb⟩, ?_, ?_⟩
    · rw [hout i (BT.mem_node.mpr (Or.inl rfl)) (fun e => hi2 (e ▸ hlm))]
      · exact hc
      · rw [hlp, hqe]; intro e; injection e with e; exact hi2 (e ▸ hqm)
    · apply Match.frame ch _ _ _ mc
      intro a ha
      apply hout a (BT.mem_node.mpr (Or.inr (Or.inl ha)))
      · intro e; subst e; exact hd a ha hlm
      · rw [hlp, hqe]; intro e; injection e with e; subst e; exact hd a ha hqm
    · apply Match.replLast par n l (.node j c2 (.node k c3 m)) (some i) hnn hl2 _ _ _ mn
      · intro a ha hal haq
        exact hout a (BT.mem_node.mpr (Or.inr (Or.inr ha))) hal (by rw [hlp]; exact haq)
      · intro q' c' hq' hq'm hc'
        exact hq q' c' (by rw [hlp]; exact hq') (BT.mem_node.mpr (Or.inr (Or.inr hq'm))) hc'
      · rw [← hlp]; exact hn

/-! ### Unlink one node of a chain -/

/-- Where the pointers of a top-level node of a chain point. -/
theorem Match.top_links {v : View} (par : Option Nat) (n : Nat) (cn : Cell) (hcn : v n = some cn) :
    ∀ (t : BT) (prv : Option Nat), Match v par prv t → n ∈ t.tops →
      cn.parent = par ∧
      (cn.prev = prv ∨ ∃ q, cn.prev = some q ∧ q ∈ t.ids) ∧
      (cn.next = none ∨ ∃ x, cn.next = some x ∧ x ∈ t.ids) ∧
      cn.first = (BT.chainKids n t).rid ∧ Match v (some n) none (BT.chainKids n t)
  | .nil, _, _, h => by simp [BT.tops] at h
  | .node i ch nx, prv, ⟨⟨c, hc, hp, hpv, hf, hnx, hb⟩, mc, mn⟩, h => by
    by_cases e : i = n
    · subst e
      rw [hcn] at hc; injection hc with hc; subst hc
      have hck : BT.chainKids i (.node i ch nx) = ch := by simp [BT.chainKids]
      rw [hck]
      refine ⟨hp, Or.inl hpv, ?_, hf, mc⟩
      cases nx with
      | nil => left; simpa using hnx
      | node x cx mx => right; exact ⟨x, by simpa using hnx, BT.mem_node.mpr (Or.inr (Or.inr (BT.mem_node.mpr (Or.inl rfl))))⟩
    · simp only [BT.tops, List.mem_cons] at h
      have hn' : n ∈ nx.tops := by
        rcases h with h | h
        · exact absurd h.symm e
        · exact h
      obtain ⟨h1, h2, h3, h4, h5⟩ := Match.top_links par n cn hcn nx (some i) mn hn'
      have hck : BT.chainKids n (.node i ch nx) = BT.chainKids n nx := by simp [BT.chainKids, e]
      rw [hck]
      refine ⟨h1, ?_, ?_, h4, h5⟩
      · right
        rcases h2 with h2 | ⟨q, hq, hm⟩
        · exact ⟨i, h2, BT.mem_node.mpr (Or.inl rfl)⟩
        · exact ⟨q, hq, BT.mem_node.mpr (Or.inr (Or.inr hm))⟩
      · rcases h3 with h3 | ⟨x, hx, hm⟩
        · exact Or.inl h3
        · exact Or.inr ⟨x, hx, BT.mem_node.mpr (Or.inr (Or.inr hm))⟩

/-- `prev` and `next` of a top-level node never coincide, and neither is the node itself. -/
theorem Match.prev_ne_next {v : View} (par : Option Nat) (n : Nat) (cn : Cell) (hcn : v n = some cn) :
    ∀ (t : BT) (prv : Option Nat), t.ids.Nodup → (∀ p, prv = some p → p ∉ t.ids) →
      Match v par prv t → n ∈ t.tops →
      (∀ q, cn.prev = some q → cn.next ≠ some q) ∧ cn.prev ≠ some n ∧ cn.next ≠ some n
  | .nil, _, _, _, _, h => by simp [BT.tops] at h
  | .node i ch nx, prv, hnd, hprv, ⟨⟨c, hc, hp, hpv, hf, hnx, hb⟩, mc, mn⟩, h => by
    obtain ⟨hi1, hi2, hcnd, hnn, hd⟩ := BT.nodup_node.mp hnd
    by_cases e : i = n
    · subst e
      rw [hcn] at hc; injection hc with hc; subst hc
      refine ⟨?_, ?_, ?_⟩
      · intro q hq hx
        rw [hpv] at hq
        rw [hnx] at hx
        exact hprv q hq (BT.mem_node.mpr (Or.inr (Or.inr (BT.rid_mem hx))))
      · rw [hpv]; intro hq; exact hprv i hq (BT.mem_node.mpr (Or.inl rfl))
      · rw [hnx]; intro hx; exact hi2 (BT.rid_mem hx)
    · simp only [BT.tops, List.mem_cons] at h
      have hn' : n ∈ nx.tops := by
        rcases h with h | h
        · exact absurd h.symm e
        · exact h
      exact Match.prev_ne_next par n cn hcn nx (some i) hnn
        (by intro p hp'; injection hp' with hp'; subst hp'; exact hi2) mn hn'

theorem BT.chainRemove_ids (n : Nat) : ∀ (t : BT) (j : Nat), j ∈ (BT.chainRemove n t).ids → j ∈ t.ids
  | .nil, j, h => by simp [BT.chainRemove] at h
  | .node i ch nx, j, h => by
    simp only [BT.chainRemove] at h
    split at h
    · exact BT.mem_node.mpr (Or.inr (Or.inr h))
    · rcases BT.mem_node.mp h with h | h | h
      · exact BT.mem_node.mpr (Or.inl h)
      · exact BT.mem_node.mpr (Or.inr (Or.inl h))
      · exact BT.mem_node.mpr (Or.inr (Or.inr (BT.chainRemove_ids n nx j h)))

theorem Match.chainRemove {v v' : View} (par : Option Nat) (n : Nat) (cn : Cell) (hcn : v n = some cn) :
    ∀ (t : BT) (prv : Option Nat), t.ids.Nodup → (∀ p, prv = some p → p ∉ t.ids) → n ∈ t.tops →
      (∀ j, j ∈ t.ids → j ≠ n → some j ≠ cn.prev → some j ≠ cn.next → v' j = v j) →
      (∀ q c, cn.prev = some q → v q = some c → v' q = some { c with next := cn.next }) →
      (∀ x c, cn.next = some x → v x = some c → v' x = some { c with prev := cn.prev }) →
      Match v par prv t →
      Match v' par prv (BT.chainRemove n t) ∧ (BT.chainRemove n t).rid = (if t.rid = some n then cn.next else t.rid)
  | .nil, _, _, _, h, _, _, _, _ => by simp [BT.tops] at h
  | .node i ch nx, prv, hnd, hprv, htop, hout, hq, hx, ⟨⟨c, hc, hp, hpv, hf, hnx, hb⟩, mc, mn⟩ => by
    obtain ⟨hi1, hi2, hcnd, hnn, hd⟩ := BT.nodup_node.mp hnd
    by_cases e : i = n
    · subst e
      rw [hcn] at hc; injection hc with hc; subst hc
      have hcr : BT.chainRemove i (.node i ch nx) = nx := by simp [BT.chainRemove]
      rw [hcr]
      refine ⟨?_, by simp [hnx]⟩
      cases nx with
      | nil => trivial
      | node x cx mx =>
        obtain ⟨⟨c', hc', hp', hpv', hf', hnx', hb'⟩, mcx, mmx⟩ := mn
        obtain ⟨hx1, hx2, hcxn, hmxn, hdx⟩ := BT.nodup_node.mp hnn
        have hnxe : cn.next = some x := by simpa using hnx
        have hi2' := fun a (h : a ∈ (BT.node x cx mx).ids) (ea : a = i) => hi2 (ea ▸ h)
        refine ⟨⟨_, hx x c' hnxe hc', hp', hpv, hf', hnx', hb'⟩, ?_, ?_⟩
        · apply Match.frame cx _ _ _ mcx
          intro a ha
          have ham : a ∈ (BT.node x cx mx).ids := BT.mem_node.mpr (Or.inr (Or.inl ha))
          apply hout a (BT.mem_node.mpr (Or.inr (Or.inr ham)))
          · exact hi2' a ham
          · rw [hpv]; intro ea; exact hprv a ea.symm (BT.mem_node.mpr (Or.inr (Or.inr ham)))
          · rw [hnxe]; intro ea; injection ea with ea; subst ea; exact hx1 ha
        · apply Match.frame mx _ _ _ mmx
          intro a ha
          have ham : a ∈ (BT.node x cx mx).ids := BT.mem_node.mpr (Or.inr (Or.inr ha))
          apply hout a (BT.mem_node.mpr (Or.inr (Or.inr ham)))
          · exact hi2' a ham
          · rw [hpv]; intro ea; exact hprv a ea.symm (BT.mem_node.mpr (Or.inr (Or.inr ham)))
          · rw [hnxe]; intro ea; injection ea with ea; subst ea; exact hx2 ha
    · simp only [BT.tops, List.mem_cons] at htop
      have hn' : n ∈ nx.tops := by
        rcases htop with h | h
        · exact absurd h.symm e
        · exact h
      have hnid : n ∈ nx.ids := BT.tops_sub nx n hn'
      obtain ⟨l1, l2, l3, l4, l5⟩ := Match.top_links par n cn hcn nx (some i) mn hn'
      have hne : ¬ (some i = some n) := fun h => e (Option.some.inj h)
      have hcr : BT.chainRemove n (.node i ch nx) = .node i ch (BT.chainRemove n nx) := by
        simp [BT.chainRemove, e]
      rw [hcr]
      refine ⟨?_, by simp [hne]⟩
      -- recursive call on the rest of the chain
      have ih := Match.chainRemove (v' := v') par n cn hcn nx (some i) hnn
        (by intro p hp'; injection hp' with hp'; subst hp'; exact hi2) hn'
        (by intro a ha; exact hout a (BT.mem_node.mpr (Or.inr (Or.inr ha)))) hq hx mn
      refine ⟨?_, ?_, ih.1⟩
      · -- the cell of i
        rw [ih.2]
        by_cases hh : nx.rid = some n
        · -- n is the next sibling of i: i's next pointer was rewritten
          simp only [hh, if_true]
          have hprev : cn.prev = some i := by
            cases nx with
            | nil => simp at hh
            | node x cx mx =>
              simp only [BT.rid_node, Option.some.injEq] at hh; subst hh
              obtain ⟨⟨c', hc', _, hpv', _⟩, _, _⟩ := mn
              rw [hcn] at hc'; injection hc' with hc'; subst hc'; exact hpv'
          exact ⟨_, hq i c hprev hc, hp, hpv, hf, rfl, hb⟩
        · simp only [hh, if_false]
          have hpi : some i ≠ cn.prev := by
            intro ea
            cases nx with
            | nil => simp [BT.tops] at hn'
            | node x cx mx =>
              have hxn : x ≠ n := fun ex => hh (by simp [ex])
              simp only [BT.tops, List.mem_cons] at hn'
              have hn'' : n ∈ mx.tops := by
                rcases hn' with h | h
                · exact absurd h.symm hxn
                · exact h
              obtain ⟨_, _, mmx⟩ := mn
              obtain ⟨_, k2, _⟩ := Match.top_links par n cn hcn mx (some x) mmx hn''
              rcases k2 with k2 | ⟨q, hq', hm⟩
              · rw [k2] at ea; injection ea with ea; subst ea
                exact hi2 (BT.mem_node.mpr (Or.inl rfl))
              · rw [hq'] at ea; injection ea with ea; subst ea
                exact hi2 (BT.mem_node.mpr (Or.inr (Or.inr hm)))
          have hni : some i ≠ cn.next := by
            intro ea
            rcases l3 with l3 | ⟨x, hx', hm⟩
            · rw [l3] at ea; cases ea
            · rw [hx'] at ea; injection ea with ea; subst ea; exact hi2 hm
          refine ⟨c, ?_, hp, hpv, hf, hnx, hb⟩
          rw [hout i (BT.mem_node.mpr (Or.inl rfl)) e hpi hni]; exact hc
      · apply Match.frame ch _ _ _ mc
        intro a ha
        apply hout a (BT.mem_node.mpr (Or.inr (Or.inl ha)))
        · intro ea; subst ea; exact hd a ha hnid
        · intro ea
          rcases l2 with l2 | ⟨q, hq', hm⟩
          · rw [l2] at ea; injection ea with ea; subst ea; exact hi1 ha
          · rw [hq'] at ea; injection ea with ea; subst ea; exact hd a ha hm
        · intro ea
          rcases l3 with l3 | ⟨x, hx', hm⟩
          · rw [l3] at ea; cases ea
          · rw [hx'] at ea; injection ea with ea; subst ea; exact hd a ha hm

end Wbxml.Model.TreeHeap
