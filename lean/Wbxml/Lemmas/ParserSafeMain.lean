/-
  Parser safety, part 3: the statements about `parse` itself.
-/
import Wbxml.Lemmas.ParserSafeLoops
namespace Wbxml.Lemmas.ParserSafe
open Wbxml Wbxml.Model

-- The error-code constants are literals (none of them is 0 = `WBXML_OK`).
attribute [local simp] E.badDatetime E.internal E.langTableUndefined E.tagTableUndefined E.b64Enc
  E.wvDatetimeFormat E.noCharsetConv E.charsetStrLen E.charsetNotFound E.attrTableUndefined
  E.attrValueTableUndefined E.badOpaqueLength E.emptyWbxml E.endOfBuffer E.extValueTableUndefined
  E.invalidStrtblIndex E.nullStringTable E.stringExpected E.strtblLength E.unknownAttrValue
  E.unknownExtensionToken E.unknownPublicId E.unvalidMbUint32 E.wvIntegerOverflow E.invalidUnicode

/-- The anatomy of a run of `parse`: either the header fails with an error code (no events), or
    the body fails with an error code (only `startDoc` is reported by the model), or both succeed,
    the final cursor is a suffix of the input at least four bytes in, and `consumed` is its offset. -/
theorem parse_anatomy (cfg : PCfg) (bs : Bytes) :
    (∃ c, parseHeader cfg bs = .error (.code c) ∧ (parse cfg bs).result = .error (.code c) ∧
        (parse cfg bs).events = [] ∧ c ≠ 0) ∨
    (∃ s l c, parseHeader cfg bs = .ok (s, l) ∧
        parseBody [Event.startDoc s.charset l.id] s = .error (.code c) ∧
        (parse cfg bs).result = .error (.code c) ∧ (parse cfg bs).events = [Event.startDoc s.charset l.id] ∧
        c ≠ 0) ∨
    (∃ s l ev s', parseHeader cfg bs = .ok (s, l) ∧
        parseBody [Event.startDoc s.charset l.id] s = .ok (ev, s') ∧
        (parse cfg bs).result = .ok () ∧ (parse cfg bs).events = ev ++ [Event.endDoc] ∧
        (parse cfg bs).consumed = bs.length - s'.rest.length ∧
        s'.rest <:+ bs ∧ s'.rest.length + 4 ≤ bs.length) := by
  have hh := parseHeader_ok cfg bs
  unfold parse
  rcases hh.cases with ⟨⟨s, l⟩, hs, hl, hsuf, hlen⟩ | ⟨c, hc, hc0⟩
  · have hb := parseBody_ok [Event.startDoc s.charset l.id] (s := s) (by rw [hl]; simp)
    rcases hb.cases with ⟨⟨ev, s'⟩, hb', hadv⟩ | ⟨c, hc, hc0⟩
    · refine Or.inr (Or.inr ⟨s, l, ev, s', hs, hb', ?_⟩)
      have := hadv.len
      dsimp only at hlen this
      simp only [hs, hb', true_and]
      exact ⟨hadv.suffix.trans hsuf, by omega⟩
    · refine Or.inr (Or.inl ⟨s, l, c, hs, hc, ?_⟩)
      simp only [hs, hc, true_and]
      exact hc0
  · refine Or.inl ⟨c, hc, ?_⟩
    simp only [hc, true_and]
    exact hc0

/-- The verdict of `parse` is success or a library error code — never `ub`, `fuel`, `crash`. -/
theorem parse_result_ok (cfg : PCfg) (bs : Bytes) : Safe (parse cfg bs).result := by
  rcases parse_anatomy cfg bs with ⟨c, _, h, _, h0⟩ | ⟨s, l, c, _, _, h, _, h0⟩ | ⟨s, l, ev, s', _, _, h, _⟩
  · rw [h]; simpa using h0
  · rw [h]; simpa using h0
  · rw [h]; simp

/-! ### The header as three stages -/

/-- The part of `parseHeader` before the string table: version, public id, charset. -/
def headerPre (cfg : PCfg) (wbxml : Bytes) : Except Err (Nat × Option Nat × PState) := do
    let s : PState := { rest := wbxml }
    let (ver, s) ← parseU8 s
    let s := { s with version := ver.toNat }
    let (pubId, pubIdx, s) ← (match s.rest with
      | [] => .error (.code E.endOfBuffer)
      | b :: r =>
        if b == 0 then do
          let (i, s) ← parseMb { s with rest := r }
          pure (1, if i == 4294967295 then none else some i, s)
        else do
          let (p, s) ← parseMb s
          pure (p, none, s) : Except Err (Nat × Option Nat × PState))
    let pubId := if cfg.langForced != 0 then publicIdOfLang cfg.main cfg.langForced else pubId
    let s ← (if s.version != 0 then do
        let (cs, s) ← parseMb s
        let cs := if cs == 0 then (if cfg.metaCharset != 0 then cfg.metaCharset else 106) else cs
        if cfg.charsets.contains cs then pure { s with charset := cs }
        else .error (.code E.charsetNotFound)
      else pure s : Except Err PState)
    let s := if s.charset == 0 then
        { s with charset := if cfg.metaCharset != 0 then cfg.metaCharset else 106 } else s
    pure (pubId, pubIdx, s)

theorem parseHeader_eq (cfg : PCfg) (bs : Bytes) :
    parseHeader cfg bs =
      (if bs.isEmpty then .error (.code E.emptyWbxml)
      else do
        let (pubId, pubIdx, s) ← headerPre cfg bs
        let s ← parseStrtbl s
        match checkPublicId cfg s pubId pubIdx with
        | none => .error (.code E.unknownPublicId)
        | some lang => pure ({ s with lang := some lang }, lang)) := by
  unfold parseHeader headerPre
  split
  · rfl
  · simp only [bind_assoc, pure_bind]
    rfl
end Wbxml.Lemmas.ParserSafe
