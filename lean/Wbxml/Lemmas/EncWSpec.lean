/-
  WBXML encoder proofs, grammar side: list-valued collectors over `Spec.Doc`

    `refs*`  every string-table index a document uses (STR_T references, literal tag names,
             literal attribute names),
    `opqs*`  the payload of every OPAQUE token (content and attribute values),

  with their equations, and `append` laws for `serItems` / `evItems` / `wfItems`.
-/
import Wbxml.Lemmas.ParseSerElem
namespace Wbxml.Lemmas.EncW
open Wbxml Wbxml.Model Wbxml.Spec Wbxml.Lemmas.ParseSer

/-! ### String-table indices -/

def refsStr : Str → List Nat
  | .inl _ => []
  | .tbl off => [off]

def refsAVal : AVal → List Nat
  | .str s => refsStr s
  | _ => []

def refsAVals : List AVal → List Nat
  | [] => []
  | v :: vs => refsAVal v ++ refsAVals vs

def refsAStart : AStart → List Nat
  | .tok _ _ => []
  | .lit off => [off]

def refsAttr (a : Attribute) : List Nat := refsAStart a.start ++ refsAVals a.vals

def refsAttrs : List Attribute → List Nat
  | [] => []
  | a :: as => refsAttr a ++ refsAttrs as

def refsTag : Tag → List Nat
  | .tok _ => []
  | .lit off => [off]

mutual
def refsElem : Elem → List Nat
  | .mk _ tag attrs content => refsTag tag ++ (refsAttrs attrs ++ refsContent content)
def refsContent : Option (List Item) → List Nat
  | none => []
  | some items => refsItems items
def refsItems : List Item → List Nat
  | [] => []
  | it :: rest => refsItem it ++ refsItems rest
def refsItem : Item → List Nat
  | .elem e => refsElem e
  | .str s => refsStr s
  | .entity _ => []
  | .opaque _ => []
  | .ext _ _ => []
  | .pi a => refsAttr a
end

/-- Every string-table index used by a document (the public identifier's index included). -/
def refsDoc (d : Doc) : List Nat :=
  (match d.hdr.pubid with | .str idx => [idx] | .num _ => []) ++
    (refsAttrs d.pre ++ (refsElem d.root ++ refsAttrs d.post))

theorem refsElem_mk (sw tag attrs content) :
    refsElem (.mk sw tag attrs content) = refsTag tag ++ (refsAttrs attrs ++ refsContent content) := by rw [refsElem]
theorem refsContent_none : refsContent none = [] := by rw [refsContent]
theorem refsContent_some (items) : refsContent (some items) = refsItems items := by rw [refsContent]
theorem refsItems_nil : refsItems [] = [] := by rw [refsItems]
theorem refsItems_cons (it rest) : refsItems (it :: rest) = refsItem it ++ refsItems rest := by rw [refsItems]
theorem refsItem_elem (e) : refsItem (.elem e) = refsElem e := by rw [refsItem]
theorem refsItem_str (s) : refsItem (.str s) = refsStr s := by rw [refsItem]
theorem refsItem_opaque (d) : refsItem (.opaque d) = [] := by rw [refsItem]
theorem refsItem_ext (sw x) : refsItem (.ext sw x) = [] := by rw [refsItem]

theorem refsItems_append (a b : List Item) : refsItems (a ++ b) = refsItems a ++ refsItems b := by
  induction a with
  | nil => simp [refsItems_nil]
  | cons x xs ih => simp [refsItems_cons, ih]

theorem refsAVals_append (a b : List AVal) : refsAVals (a ++ b) = refsAVals a ++ refsAVals b := by
  induction a with
  | nil => simp [refsAVals]
  | cons x xs ih => simp [refsAVals, ih]

theorem refsAttrs_append (a b : List Attribute) : refsAttrs (a ++ b) = refsAttrs a ++ refsAttrs b := by
  induction a with
  | nil => simp [refsAttrs]
  | cons x xs ih => simp [refsAttrs, ih]

/-! ### OPAQUE payloads -/

def opqsAVal : AVal → List Bytes
  | .opaque d => [d]
  | _ => []

def opqsAVals : List AVal → List Bytes
  | [] => []
  | v :: vs => opqsAVal v ++ opqsAVals vs

def opqsAttr (a : Attribute) : List Bytes := opqsAVals a.vals

def opqsAttrs : List Attribute → List Bytes
  | [] => []
  | a :: as => opqsAttr a ++ opqsAttrs as

mutual
def opqsElem : Elem → List Bytes
  | .mk _ _ attrs content => opqsAttrs attrs ++ opqsContent content
def opqsContent : Option (List Item) → List Bytes
  | none => []
  | some items => opqsItems items
def opqsItems : List Item → List Bytes
  | [] => []
  | it :: rest => opqsItem it ++ opqsItems rest
def opqsItem : Item → List Bytes
  | .elem e => opqsElem e
  | .str _ => []
  | .entity _ => []
  | .opaque d => [d]
  | .ext _ _ => []
  | .pi a => opqsAttr a
end

/-- The payloads of all OPAQUE tokens of a document body. -/
def opqsDoc (d : Doc) : List Bytes := opqsAttrs d.pre ++ (opqsElem d.root ++ opqsAttrs d.post)

theorem opqsElem_mk (sw tag attrs content) :
    opqsElem (.mk sw tag attrs content) = opqsAttrs attrs ++ opqsContent content := by rw [opqsElem]
theorem opqsContent_none : opqsContent none = [] := by rw [opqsContent]
theorem opqsContent_some (items) : opqsContent (some items) = opqsItems items := by rw [opqsContent]
theorem opqsItems_nil : opqsItems [] = [] := by rw [opqsItems]
theorem opqsItems_cons (it rest) : opqsItems (it :: rest) = opqsItem it ++ opqsItems rest := by rw [opqsItems]
theorem opqsItem_elem (e) : opqsItem (.elem e) = opqsElem e := by rw [opqsItem]
theorem opqsItem_str (s) : opqsItem (.str s) = [] := by rw [opqsItem]
theorem opqsItem_opaque (d) : opqsItem (.opaque d) = [d] := by rw [opqsItem]
theorem opqsItem_ext (sw x) : opqsItem (.ext sw x) = [] := by rw [opqsItem]

theorem opqsItems_append (a b : List Item) : opqsItems (a ++ b) = opqsItems a ++ opqsItems b := by
  induction a with
  | nil => simp [opqsItems_nil]
  | cons x xs ih => simp [opqsItems_cons, ih]

theorem opqsAVals_append (a b : List AVal) : opqsAVals (a ++ b) = opqsAVals a ++ opqsAVals b := by
  induction a with
  | nil => simp [opqsAVals]
  | cons x xs ih => simp [opqsAVals, ih]

/-! ### `append` for the specification's list functions -/

theorem serItems_append (a b : List Item) : serItems (a ++ b) = serItems a ++ serItems b := by
  induction a with
  | nil => simp [serItems_nil]
  | cons x xs ih => simp [serItems_cons, ih]

theorem serAVals_append (a b : List AVal) : serAVals (a ++ b) = serAVals a ++ serAVals b := by
  induction a with
  | nil => simp [serAVals]
  | cons x xs ih => simp [serAVals, ih]

theorem serAttrs_append (a b : List Attribute) : serAttrs (a ++ b) = serAttrs a ++ serAttrs b := by
  induction a with
  | nil => simp [serAttrs]
  | cons x xs ih => simp [serAttrs, ih]

theorem evItems_append_pages (c : Ctx) (own) (pg : Pages) (a b : List Item) :
    (evItems c own pg (a ++ b)).2 = (evItems c own (evItems c own pg a).2 b).2 := by
  induction a generalizing pg with
  | nil => simp [evItems_nil]
  | cons x xs ih => simp only [List.cons_append, evItems_cons, ih]

theorem wfItems_append (c : Ctx) (own slot) (pg : Pages) (a b : List Item) :
    wfItems c own slot pg (a ++ b) =
      (wfItems c own slot pg a && wfItems c own (slotEnd slot a) (evItems c own pg a).2 b) := by
  induction a generalizing pg slot with
  | nil => simp [wfItems, evItems_nil, slotEnd]
  | cons x xs ih => simp only [List.cons_append, wfItems_cons, ih, evItems_cons, slotEnd, Bool.and_assoc]

theorem avalsText_append_page (c : Ctx) (ap : Nat) (a b : List AVal) :
    (avalsText c ap (a ++ b)).2 = (avalsText c (avalsText c ap a).2 b).2 := by
  induction a generalizing ap with
  | nil => simp [avalsText]
  | cons x xs ih => simp only [List.cons_append, avalsText, ih]

theorem wfAVals_append (c : Ctx) (ap : Nat) (a b : List AVal) :
    wfAVals c ap (a ++ b) = (wfAVals c ap a && wfAVals c (avalsText c ap a).2 b) := by
  induction a generalizing ap with
  | nil => simp [wfAVals, avalsText]
  | cons x xs ih => simp only [List.cons_append, wfAVals, ih, avalsText, Bool.and_assoc]

/-- The attribute page after an attribute start does not depend on the tables. -/
theorem astartName_page (c : Ctx) (ap : Nat) (a : AStart) :
    (astartName c ap a).2.2 = match a with | .tok sw _ => swPage sw ap | .lit _ => ap := by
  cases a with
  | tok sw t => simp only [astartName]; split <;> rfl
  | lit off => rfl

theorem evAttr_page (c : Ctx) (ap : Nat) (a : Attribute) :
    (evAttr c ap a).2 = (avalsText c (astartName c ap a.start).2.2 a.vals).2 := rfl

theorem evAttrs_nil (c : Ctx) (ap : Nat) : evAttrs c ap [] = ([], ap) := rfl
theorem evAttrs_cons_page (c : Ctx) (ap : Nat) (a : Attribute) (as : List Attribute) :
    (evAttrs c ap (a :: as)).2 = (evAttrs c (evAttr c ap a).2 as).2 := rfl

theorem evAttrs_append_page (c : Ctx) (ap : Nat) (a b : List Attribute) :
    (evAttrs c ap (a ++ b)).2 = (evAttrs c (evAttrs c ap a).2 b).2 := by
  induction a generalizing ap with
  | nil => rfl
  | cons x xs ih => simp only [List.cons_append, evAttrs_cons_page, ih]

theorem wfAttrs_append (c : Ctx) (ap : Nat) (a b : List Attribute) :
    wfAttrs c ap (a ++ b) = (wfAttrs c ap a && wfAttrs c (evAttrs c ap a).2 b) := by
  induction a generalizing ap with
  | nil => simp [wfAttrs, evAttrs_nil]
  | cons x xs ih => simp only [List.cons_append, wfAttrs, ih, evAttrs_cons_page, Bool.and_assoc]

end Wbxml.Lemmas.EncW
