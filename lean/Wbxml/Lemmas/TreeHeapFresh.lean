/-
  C18 lemmas, part 17: what one `wbxml_tree_add_*` call (create + `wbxml_tree_add_node`) does to the
  shape, to the abstract children of the parent and to the payloads — as the root, and under a live
  element / CDATA node.
-/
import Wbxml.Lemmas.TreeHeapSpine
set_option linter.unusedSimpArgs false
set_option linter.unusedVariables false
namespace Wbxml.Model.TreeHeap
open Wbxml Wbxml.Model

/-- `wbxml_tree_add_*(tree, P, …)` for a live element / CDATA node `P`: the new node gets the next
    address, the children chain of `P` becomes `K'` — abstractly `addKid` of the old children and the new
    node —, nothing else moves, payloads outside the old children of `P` are kept; when the new node is
    not text it is appended as it is. -/
theorem addFresh_under_spec {s : St} {G : BT} (hF : Forest s G) {P : Nat} {cP : Cell}
    (hcP : s.cellAt P = some cP) (hbr : cP.pay.isBranch = true) (p : Pay) :
    ∃ s' K', addFresh s (some P) p = .ok (some s.heap.length, s') ∧ Forest s' (BT.setKids P K' G) ∧
      s'.root = s.root ∧ s'.lang = s.lang ∧ s'.charset = s.charset ∧ s'.heap.length = s.heap.length + 1 ∧
      s.heap.length ∉ G.ids ∧
      absBT s'.cellAt K' = addKid (absBT s.cellAt (BT.kidsOf P G)) (mkNode p []) ∧
      (∀ j, j ∈ G.ids → j ∉ (BT.kidsOf P G).ids → payOf s'.cellAt j = payOf s.cellAt j) ∧
      (p.isText = false → K' = BT.snoc (BT.kidsOf P G) (.node s.heap.length .nil .nil) ∧
         payOf s'.cellAt s.heap.length = p ∧ ∀ j, j ≠ s.heap.length → payOf s'.cellAt j = payOf s.cellAt j) := by
  obtain ⟨hF0, hfresh, hca, hother⟩ := hF.alloc p
  obtain ⟨ha1, hv0, hr0, hl0, hc0, hp0, hlen0⟩ := alloc_view s p
  have htop : s.heap.length ∈ (BT.snoc G (.node s.heap.length .nil .nil)).tops := by
    rw [BT.tops_snoc]; right; simp [BT.tops]
  have hroot : (s.alloc p).2.root ≠ some s.heap.length := by
    rw [hr0]; intro h
    exact hfresh (BT.tops_sub _ _ (hF.root _ h))
  have hPG : P ∈ G.ids := hF.cover P cP hcP
  have hPa : P ≠ s.heap.length := fun e => hfresh (e ▸ hPG)
  have hC0 : BT.chainKids s.heap.length (BT.snoc G (.node s.heap.length .nil .nil)) = .nil :=
    BT.chainKids_snoc_fresh _ G hfresh
  have hR0 : BT.chainRemove s.heap.length (BT.snoc G (.node s.heap.length .nil .nil)) = G :=
    BT.chainRemove_snoc_fresh _ _ G hfresh
  have hK0 : BT.kidsOf P (BT.snoc G (.node s.heap.length .nil .nil)) = BT.kidsOf P G :=
    BT.kidsOf_snoc P _ (by simp [hPa]) G
  have ctx : AddCtx (s.alloc p).2 (BT.snoc G (.node s.heap.length .nil .nil)) P s.heap.length cP { pay := p } :=
    ⟨hF0, htop, hroot, (BT.snoc_ids _ _ P).mpr (Or.inl hPG), hPa,
     by rw [hC0]; simp, by rw [hother P hPa]; exact hcP, hbr, hca⟩
  obtain ⟨k1, k2, k3, k4, k5, k6, k7⟩ := ctx.kids_facts
  rw [hK0] at k1 k2 k3 k4 k5 k7
  -- payloads of the old cells are those of `s`
  have hpay0 : ∀ j, j ≠ s.heap.length → payOf (s.alloc p).2.cellAt j = payOf s.cellAt j := by
    intro j hj; simp only [payOf, hother j hj]
  have hKG : ∀ j, j ∈ (BT.kidsOf P G).ids → j ∈ G.ids := fun j hj => BT.kidsOf_mem P G j hj
  have habs0 : absBT (s.alloc p).2.cellAt (BT.kidsOf P G) = absBT s.cellAt (BT.kidsOf P G) :=
    absBT_frame _ (fun j hj => hpay0 j (fun e => hfresh (e ▸ hKG j hj)))
  cases hf : cP.first with
  | none =>
    have hK : BT.kidsOf P G = .nil := BT.rid_none (by rw [← k1]; exact hf)
    obtain ⟨s', h1, m, h3, _, pf, _⟩ := addNode_first ctx hf
    rw [hC0, hR0] at h3
    refine ⟨s', .node s.heap.length .nil .nil, ?_, h3, m.1.trans hr0, m.2.1.trans hl0, m.2.2.1.trans hc0,
      m.2.2.2.2.trans hlen0, hfresh, ?_, ?_, ?_⟩
    · rw [addFresh_unfold, h1]; simp
    · rw [hK]
      simp only [absBT]
      rw [addKid_empty, pf.self]
    · intro j hj _
      have hjn : j ≠ s.heap.length := fun e => hfresh (e ▸ hj)
      rw [pf.other j hjn (by simp), hpay0 j hjn]
    · intro _
      refine ⟨by rw [hK]; rfl, pf.self, ?_⟩
      intro j hjn
      rw [pf.other j hjn (by simp), hpay0 j hjn]
  | some fc =>
    have hKne : BT.kidsOf P G ≠ .nil := by
      intro h; rw [h] at k1; rw [hf] at k1; cases k1
    obtain ⟨l, hl⟩ := BT.lastId_some _ hKne
    have hlK : l ∈ (BT.kidsOf P G).ids := BT.tops_sub _ _ (BT.lastId_mem _ _ hl)
    obtain ⟨cl, hcl⟩ := Match.live _ _ _ k2 l hlK
    have hlast := absBT_getLast (s.alloc p).2.cellAt _ l k3 hl
    have hpl : payOf (s.alloc p).2.cellAt l = cl.pay := by simp [payOf, hcl]
    rw [hpl] at hlast
    by_cases hm : ((({ pay := p } : Cell).pay.isText) && cl.pay.isText) = true
    · obtain ⟨s', h1, m, h3, _, l', cl', hl', hcl', pf, _⟩ := addNode_merge ctx hf (by
        intro l' cl' hl' hcl'
        rw [hK0, hl] at hl'; injection hl' with hl'; subst hl'
        rw [hcl] at hcl'; injection hcl' with hcl'; subst hcl'; exact hm)
      rw [hK0, hl] at hl'; injection hl' with hl'; subst hl'
      rw [hcl] at hcl'; injection hcl' with hcl'; subst hcl'
      rw [hK0, hR0] at h3
      have htn : p.isText = true := by simp only [Bool.and_eq_true] at hm; exact hm.1
      have htl : cl.pay.isText = true := by simp only [Bool.and_eq_true] at hm; exact hm.2
      refine ⟨s', BT.replLast s.heap.length (BT.kidsOf P G), ?_, h3, m.1.trans hr0, m.2.1.trans hl0,
        m.2.2.1.trans hc0, m.2.2.2.2.trans hlen0, hfresh, ?_, ?_, ?_⟩
      · rw [addFresh_unfold, h1]; simp
      · rw [absBT_replLast (v := (s.alloc p).2.cellAt) s.heap.length _ l k3 hl (fun j hj hjl =>
              pf.other j (fun e => k5 (e ▸ hj)) (fun e => hjl (Option.some.inj e))),
            ← habs0, addKid_merge _ cl.pay p _ _ hlast htn htl, pf.self]
        rfl
      · intro j hj hjK
        have hjn : j ≠ s.heap.length := fun e => hfresh (e ▸ hj)
        rw [pf.other j hjn (fun e => hjK ((Option.some.inj e) ▸ hlK)), hpay0 j hjn]
      · intro hnt; rw [hnt] at htn; cases htn
    · have hm' : ((({ pay := p } : Cell).pay.isText) && cl.pay.isText) = false := by
        cases h : ((({ pay := p } : Cell).pay.isText) && cl.pay.isText) <;> simp_all
      obtain ⟨s', h1, m, h3, _, pf, _⟩ := addNode_append ctx hf (by
        intro l' cl' hl' hcl'
        rw [hK0, hl] at hl'; injection hl' with hl'; subst hl'
        rw [hcl] at hcl'; injection hcl' with hcl'; subst hcl'; exact hm')
      rw [hK0, hC0, hR0] at h3
      have e1 : absBT s'.cellAt (BT.kidsOf P G) = absBT (s.alloc p).2.cellAt (BT.kidsOf P G) :=
        absBT_frame _ (fun j hj => pf.other j (fun e => k5 (e ▸ hj)) (by simp))
      refine ⟨s', BT.snoc (BT.kidsOf P G) (.node s.heap.length .nil .nil), ?_, h3, m.1.trans hr0, m.2.1.trans hl0,
        m.2.2.1.trans hc0, m.2.2.2.2.trans hlen0, hfresh, ?_, ?_, ?_⟩
      · rw [addFresh_unfold, h1]; simp
      · rw [absBT_snoc, ← habs0, addKid_append _ cl.pay p _ _ hlast hm', e1]
        simp only [absBT, pf.self]
      · intro j hj _
        have hjn : j ≠ s.heap.length := fun e => hfresh (e ▸ hj)
        rw [pf.other j hjn (by simp), hpay0 j hjn]
      · intro _
        refine ⟨rfl, pf.self, ?_⟩
        intro j hjn
        rw [pf.other j hjn (by simp), hpay0 j hjn]

/-- `wbxml_tree_add_*(tree, NULL, …)` on the empty tree: the new node is the root. -/
theorem addFresh_root_spec {s : St} (hh : s.heap = []) (hr : s.root = none) (p : Pay) :
    ∃ s', addFresh s none p = .ok (some 0, s') ∧ Forest s' (.node 0 .nil .nil) ∧
      s'.root = some 0 ∧ s'.lang = s.lang ∧ s'.charset = s.charset ∧ s'.heap.length = 1 ∧
      payOf s'.cellAt 0 = p := by
  have hF : Forest s .nil := by
    refine ⟨trivial, by simp, ?_, ?_⟩
    · intro i c hc
      simp [St.cellAt, hh] at hc
    · intro r h; rw [hr] at h; cases h
  have hlen : s.heap.length = 0 := by rw [hh]; rfl
  obtain ⟨hF0, hfresh, hca, hother⟩ := hF.alloc p
  obtain ⟨ha1, hv0, hr0, hl0, hc0, hp0, hlen0⟩ := alloc_view s p
  rw [hlen] at hF0 hca hlen0
  have hsn : BT.snoc .nil (.node 0 .nil .nil) = .node 0 .nil .nil := rfl
  rw [hsn] at hF0
  obtain ⟨b, s1, e1, hF1, hv1, hl1, hc1, hp1, hlen1, hb1, hb2⟩ := addNode_root hF0 hca (by rfl)
  cases b with
  | false =>
    have := (hb2 rfl).2
    rw [hr0, hr] at this
    exact absurd rfl this
  | true =>
    refine ⟨s1, ?_, hF1, (hb1 rfl).2, hl1.trans hl0, hc1.trans hc0, by rw [hlen1, hlen0], ?_⟩
    · rw [addFresh_unfold, hlen, e1]; simp
    · simp only [payOf, hv1, hca]

/-! ### The calls of a document-order history, as `stepChecked` runs them -/

theorem parentOK_of_cell {s : St} {P : Nat} {cP : Cell} (hcP : s.cellAt P = some cP) (hbr : cP.pay.isBranch = true) :
    parentOK s (some P) = true := by
  simp only [parentOK, hcP, hbr]

/-- The attribute part of `wbxml_tree_add_xml_elt_with_attrs`, after the element was added. -/
theorem addXmlEltWithAttrs_of_fresh {s : St} {L : Lang} (hl : s.lang = some L) (parent : Option Nat) (name : Bytes)
    (attrs : List (Bytes × Bytes)) {n : Nat} {s1 : St} {G1 : BT}
    (e : addFresh { s with curPage := (xmlEltName L name).2 } parent (.elt (xmlEltName L name).1 []) = .ok (some n, s1))
    (hF1 : Forest s1 G1) (hl1 : s1.lang = some L) (hpay : payOf s1.cellAt n = .elt (xmlEltName L name).1 [])
    (hn : n ∈ G1.ids) :
    ∃ s2, addXmlEltWithAttrs s parent name attrs = .ok (some n, s2) ∧ Forest s2 G1 ∧ SameMeta s1 s2 ∧
      payOf s2.cellAt n = .elt (xmlEltName L name).1 (attrs.map (xmlAttr L)) ∧
      ∀ j, j ≠ n → payOf s2.cellAt j = payOf s1.cellAt j := by
  have e' := e
  rw [hl] at e'
  by_cases hemp : attrs.isEmpty = true
  · have ha : attrs = [] := by simpa using hemp
    refine ⟨s1, ?_, hF1, SameMeta.refl s1, by rw [hpay, ha]; rfl, fun _ _ => rfl⟩
    simp only [addXmlEltWithAttrs, addXmlElt, hl, e', bind, Except.bind, pure, Except.pure, hl1, hemp, if_true]
  · obtain ⟨c, hc⟩ := hF1.live hn
    have hcp : c.pay = .elt (xmlEltName L name).1 [] := by
      simp only [payOf, hc] at hpay; exact hpay
    obtain ⟨s2, e2, hF2, m2, v2⟩ := hF1.set_pay hc
      (fun c => { c with pay := c.pay.addAttrs (attrs.map (xmlAttr L)) }) (fun _ => rfl) ⟨rfl, rfl, rfl, rfl⟩
      (by rw [hcp]; rfl)
    refine ⟨s2, ?_, hF2, m2, ?_, ?_⟩
    · simp only [addXmlEltWithAttrs, addXmlElt, hl, e', bind, Except.bind, pure, Except.pure, hl1, hemp, if_false,
        addAttrs, e2, Bool.false_eq_true]
    · rw [v2, payOf_vset_self]
      simp only [hcp, Pay.addAttrs, List.nil_append]
    · intro j hj
      rw [v2, payOf_vset_ne _ _ hj]

/-- `wbxml_tree_add_xml_elt_with_attrs(tree, P, name, attrs)` under a live element / CDATA node. -/
theorem api_xml_elt_under {s : St} {G : BT} (hF : Forest s G) {P : Nat} {cP : Cell}
    (hcP : s.cellAt P = some cP) (hbr : cP.pay.isBranch = true) {L : Lang} (hl : s.lang = some L)
    (name : Bytes) (attrs : List (Bytes × Bytes)) :
    ∃ s', stepChecked s (.addXmlEltAttrs (some P) name attrs) = .ok (.node (some s.heap.length), s') ∧
      Forest s' (BT.setKids P (BT.snoc (BT.kidsOf P G) (.node s.heap.length .nil .nil)) G) ∧
      s'.root = s.root ∧ s'.lang = s.lang ∧ s'.charset = s.charset ∧ s'.heap.length = s.heap.length + 1 ∧
      s.heap.length ∉ G.ids ∧
      payOf s'.cellAt s.heap.length = .elt (xmlEltName L name).1 (attrs.map (xmlAttr L)) ∧
      ∀ j, j ≠ s.heap.length → payOf s'.cellAt j = payOf s.cellAt j := by
  have hF0 : Forest { s with curPage := (xmlEltName L name).2 } G :=
    hF.of_view_eq rfl (fun r hr => hF.root r hr)
  obtain ⟨s1, K', e1, hF1, hr1, hl1, hc1, hlen1, hfresh, _, _, hnt⟩ :=
    addFresh_under_spec hF0 (P := P) (cP := cP) hcP hbr (.elt (xmlEltName L name).1 [])
  obtain ⟨hK', hp1, ho1⟩ := hnt rfl
  subst hK'
  have hG1 : (BT.setKids P (BT.snoc (BT.kidsOf P G) (.node s.heap.length .nil .nil)) G).ids.Nodup := hF1.nodup
  have hnG1 : s.heap.length ∈ (BT.setKids P (BT.snoc (BT.kidsOf P G) (.node s.heap.length .nil .nil)) G).ids := by
    rw [BT.mem_setKids P _ G _ hF.nodup]
    right
    exact ⟨hF.cover P cP hcP, (BT.snoc_ids _ _ _).mpr (Or.inr (by simp))⟩
  obtain ⟨s2, e2, hF2, m2, hp2, ho2⟩ := addXmlEltWithAttrs_of_fresh hl (some P) name attrs e1 hF1
    (hl1.trans hl) hp1 hnG1
  have hpre : pre s (.addXmlEltAttrs (some P) name attrs) = true := by
    simp only [pre, parentOK_of_cell hcP hbr, hl, Option.isSome_some, Bool.and_self]
  refine ⟨s2, ?_, hF2, m2.1.trans hr1, m2.2.1.trans hl1, m2.2.2.1.trans hc1, m2.2.2.2.2.trans hlen1, hfresh, hp2, ?_⟩
  · unfold stepChecked
    rw [if_pos hpre]
    simp only [step, e2, wrapN]
  · intro j hj
    rw [ho2 j hj]
    exact ho1 j hj

/-- `wbxml_tree_add_xml_elt_with_attrs(tree, NULL, name, attrs)` on the empty tree. -/
theorem api_xml_elt_root {s : St} (hh : s.heap = []) (hr : s.root = none) {L : Lang} (hl : s.lang = some L)
    (name : Bytes) (attrs : List (Bytes × Bytes)) :
    ∃ s', stepChecked s (.addXmlEltAttrs none name attrs) = .ok (.node (some 0), s') ∧
      Forest s' (.node 0 .nil .nil) ∧
      s'.root = some 0 ∧ s'.lang = s.lang ∧ s'.charset = s.charset ∧ s'.heap.length = 1 ∧
      payOf s'.cellAt 0 = .elt (xmlEltName L name).1 (attrs.map (xmlAttr L)) := by
  obtain ⟨s1, e1, hF1, hr1, hl1, hc1, hlen1, hp1⟩ :=
    addFresh_root_spec (s := { s with curPage := (xmlEltName L name).2 }) hh hr (.elt (xmlEltName L name).1 [])
  obtain ⟨s2, e2, hF2, m2, hp2, _⟩ := addXmlEltWithAttrs_of_fresh hl none name attrs e1 hF1
    (hl1.trans hl) hp1 (by simp)
  have hpre : pre s (.addXmlEltAttrs none name attrs) = true := by
    simp only [pre, parentOK, hl, Option.isSome_some, Bool.and_self]
  refine ⟨s2, ?_, hF2, m2.1.trans hr1, m2.2.1.trans hl1, m2.2.2.1.trans hc1, m2.2.2.2.2.trans hlen1, hp2⟩
  unfold stepChecked
  rw [if_pos hpre]
  simp only [step, e2, wrapN]

/-- `wbxml_tree_add_cdata(tree, P)` under a live element / CDATA node. -/
theorem api_cdata_under {s : St} {G : BT} (hF : Forest s G) {P : Nat} {cP : Cell}
    (hcP : s.cellAt P = some cP) (hbr : cP.pay.isBranch = true) :
    ∃ s', stepChecked s (.addCdata (some P)) = .ok (.node (some s.heap.length), s') ∧
      Forest s' (BT.setKids P (BT.snoc (BT.kidsOf P G) (.node s.heap.length .nil .nil)) G) ∧
      s'.root = s.root ∧ s'.lang = s.lang ∧ s'.charset = s.charset ∧ s'.heap.length = s.heap.length + 1 ∧
      s.heap.length ∉ G.ids ∧
      payOf s'.cellAt s.heap.length = .cdata ∧
      ∀ j, j ≠ s.heap.length → payOf s'.cellAt j = payOf s.cellAt j := by
  obtain ⟨s1, K', e1, hF1, hr1, hl1, hc1, hlen1, hfresh, _, _, hnt⟩ := addFresh_under_spec hF hcP hbr .cdata
  obtain ⟨hK', hp1, ho1⟩ := hnt rfl
  subst hK'
  have hpre : pre s (.addCdata (some P)) = true := by
    simp only [pre, parentOK_of_cell hcP hbr]
  refine ⟨s1, ?_, hF1, hr1, hl1, hc1, hlen1, hfresh, hp1, ho1⟩
  unfold stepChecked
  rw [if_pos hpre]
  simp only [step, addCdata, e1, wrapN]

/-- `wbxml_tree_add_text(tree, P, text)` under a live element / CDATA node. -/
theorem api_text_under {s : St} {G : BT} (hF : Forest s G) {P : Nat} {cP : Cell}
    (hcP : s.cellAt P = some cP) (hbr : cP.pay.isBranch = true) (t : Bytes) :
    ∃ s' K', stepChecked s (.addText (some P) t) = .ok (.node (some s.heap.length), s') ∧
      Forest s' (BT.setKids P K' G) ∧
      s'.root = s.root ∧ s'.lang = s.lang ∧ s'.charset = s.charset ∧ s'.heap.length = s.heap.length + 1 ∧
      absBT s'.cellAt K' = addKid (absBT s.cellAt (BT.kidsOf P G)) (.text t) ∧
      (∀ j, j ∈ G.ids → j ∉ (BT.kidsOf P G).ids → payOf s'.cellAt j = payOf s.cellAt j) := by
  obtain ⟨s1, K', e1, hF1, hr1, hl1, hc1, hlen1, hfresh, habs, hpay, _⟩ := addFresh_under_spec hF hcP hbr (.text t)
  have hpre : pre s (.addText (some P) t) = true := by
    simp only [pre, parentOK_of_cell hcP hbr]
  refine ⟨s1, K', ?_, hF1, hr1, hl1, hc1, hlen1, habs, hpay⟩
  unfold stepChecked
  rw [if_pos hpre]
  simp only [step, addText, e1, wrapN]

end Wbxml.Model.TreeHeap
