/-
  `parse_ser`, companion: what the typed-content decoders of `Model/Parser.lean` compute, in terms
  of the standards / of the T-codec models that property C12 is about.

  * `decode_base64_value` (DRMREL `KeyValue`, SyncML `NextNonce`, OTA opaque attribute values) is
    RFC 4648 base64 (`Spec.Rfc4648.encode`) of the octets;
  * `decode_wv_integer` is the decimal numeral of the big-endian value of the octets, defined
    exactly when that value fits 32 bits.
-/
import Wbxml.Model.Parser
import Wbxml.Lemmas.CodecBase64
import Wbxml.Lemmas.TypedWvInt
namespace Wbxml.Lemmas.ParseSer
open Wbxml Wbxml.Model

/-! ### base64 -/

theorem b64Char_tbl : ∀ i, i < 64 → Model.b64Char i = Lemmas.Codec.sym i := by decide +kernel

theorem b64EncodeGo_eq_enc (bs : Bytes) : Model.b64EncodeGo bs = Lemmas.Codec.enc bs := by
  fun_induction Lemmas.Codec.enc bs with
  | case1 a b c rest ih =>
    have ha := a.toNat_lt; have hb := b.toNat_lt; have hc := c.toNat_lt
    have e1 : a.toNat >>> 2 = a.toNat / 4 := by rw [Nat.shiftRight_eq_div_pow]
    have e2 : ((a.toNat &&& 3) <<< 4) ||| (b.toNat >>> 4) = a.toNat % 4 * 16 + b.toNat / 16 := by
      rw [Nat.shiftRight_eq_div_pow, Nat.shiftLeft_eq, show (3 : Nat) = 2 ^ 2 - 1 by rfl,
        Nat.and_two_pow_sub_one_eq_mod]
      exact Lemmas.Codec.or16 _ _ (by omega)
    have e3 : ((b.toNat &&& 0xF) <<< 2) ||| (c.toNat >>> 6) = b.toNat % 16 * 4 + c.toNat / 64 := by
      rw [Nat.shiftRight_eq_div_pow, Nat.shiftLeft_eq, show (0xF : Nat) = 2 ^ 4 - 1 by rfl,
        Nat.and_two_pow_sub_one_eq_mod]
      exact Lemmas.Codec.or4 _ _ (by omega)
    have e4 : c.toNat &&& 0x3F = c.toNat % 64 := by
      rw [show (0x3F : Nat) = 2 ^ 6 - 1 by rfl, Nat.and_two_pow_sub_one_eq_mod]
    rw [Model.b64EncodeGo, e1, e2, e3, e4, ih, b64Char_tbl _ (by omega), b64Char_tbl _ (by omega),
      b64Char_tbl _ (by omega), b64Char_tbl _ (by omega)]
  | case2 a b =>
    have ha := a.toNat_lt; have hb := b.toNat_lt
    have e1 : a.toNat >>> 2 = a.toNat / 4 := by rw [Nat.shiftRight_eq_div_pow]
    have e2 : ((a.toNat &&& 3) <<< 4) ||| (b.toNat >>> 4) = a.toNat % 4 * 16 + b.toNat / 16 := by
      rw [Nat.shiftRight_eq_div_pow, Nat.shiftLeft_eq, show (3 : Nat) = 2 ^ 2 - 1 by rfl,
        Nat.and_two_pow_sub_one_eq_mod]
      exact Lemmas.Codec.or16 _ _ (by omega)
    have e3 : (b.toNat &&& 0xF) <<< 2 = b.toNat % 16 * 4 := by
      rw [Nat.shiftLeft_eq, show (0xF : Nat) = 2 ^ 4 - 1 by rfl, Nat.and_two_pow_sub_one_eq_mod]
    rw [Model.b64EncodeGo, e1, e2, e3, b64Char_tbl _ (by omega), b64Char_tbl _ (by omega), b64Char_tbl _ (by omega)]
  | case3 a =>
    have ha := a.toNat_lt
    have e1 : a.toNat >>> 2 = a.toNat / 4 := by rw [Nat.shiftRight_eq_div_pow]
    have e2 : (a.toNat &&& 3) <<< 4 = a.toNat % 4 * 16 := by
      rw [Nat.shiftLeft_eq, show (3 : Nat) = 2 ^ 2 - 1 by rfl, Nat.and_two_pow_sub_one_eq_mod]
    rw [Model.b64EncodeGo, e1, e2, b64Char_tbl _ (by omega), b64Char_tbl _ (by omega)]
  | case4 => rfl

/-- The parser's base64 step is RFC 4648 §4 base64 of the octets (an empty buffer is an error). -/
theorem decodeBase64Value_spec (d : Bytes) (h : d ≠ []) :
    decodeBase64Value d = .ok (Spec.Rfc4648.encode d) := by
  have : d.isEmpty = false := by cases d <;> simp_all
  simp only [decodeBase64Value, this, Bool.false_eq_true, ↓reduceIte, b64EncodeGo_eq_enc,
    Lemmas.Codec.enc_eq_spec]

/-! ### Wireless Village integers -/

theorem wvIntLoop_eq (d : Bytes) : ∀ acc, Model.wvIntLoop d acc = Model.Typed.wvIntAcc acc d := by
  induction d with
  | nil => intro acc; rfl
  | cons b r ih =>
    intro acc
    have hb := b.toNat_lt
    simp only [Model.wvIntLoop, Model.Typed.wvIntAcc]
    by_cases h : acc > 0x00ffffff
    · simp only [h, ↓reduceIte]; rfl
    · have e : (acc <<< 8) ||| b.toNat = (acc * 256 + b.toNat) % 4294967296 := by
        rw [Nat.shiftLeft_eq, show (2 : Nat) ^ 8 = 256 by rfl, Lemmas.Codec.or_mul_pow acc b.toNat 8 hb]
        omega
      simp only [h, ↓reduceIte, e, ih]

/-- The parser's WV integer step: the decimal numeral (`%u`) of the big-endian value of the
    octets when it fits 32 bits, `WV_INTEGER_OVERFLOW` otherwise. -/
theorem decodeWvInteger_spec (d : Bytes) :
    decodeWvInteger d =
      if Lemmas.Typed.beNat d < 4294967296 then .ok (natDigits (Lemmas.Typed.beNat d))
      else .error (.code E.wvIntegerOverflow) := by
  unfold decodeWvInteger
  rw [wvIntLoop_eq, Lemmas.Typed.wvIntAcc_spec 0 d (by omega), ← Lemmas.Typed.beNat_eq]
  split <;> rfl

end Wbxml.Lemmas.ParseSer
