/-
  C16 — specifications of the collecting functions of the string-table chain:
  `wbxml_strtbl_collect_strings`, `wbxml_buffer_split_words_real`, the word-moving loop of
  `wbxml_strtbl_collect_words` and `wbxml_strtbl_collect_words` itself.
-/
import Wbxml.Lemmas.AllocFrame
import Wbxml.Lemmas.AllocStrtbl
namespace Wbxml.Model.Alloc
open Wbxml
set_option linter.unusedSimpArgs false
set_option linter.unusedVariables false
set_option linter.unnecessarySimpa false

/-- Permutations of block lists, by counting. -/
macro "perm_count" : tactic =>
  `(tactic| (refine List.perm_iff_count.2 (fun a => ?_)
             try simp only [List.count_append, List.count_cons, List.count_nil, List.count_singleton, List.append_assoc,
               List.cons_append, List.nil_append, List.append_nil]
             try omega))

/-- A destructor that does nothing (`wbxml_list_destroy(list, NULL)`). -/
theorem nop_destroys {ι : Type} : Destroys (fun _ : ι => ([] : List Nat)) (fun _ => pure ()) := by
  intro it t wft _
  simp only [pure_eq, good_ret]
  exact ⟨Clean.rfl wft, by simp, by simp⟩

/-! ### `wbxml_strtbl_collect_strings` -/

/-- The text nodes `wbxml_strtbl_collect_strings` appends: not blank and longer than
    `WBXML_ENCODER_STRING_TABLE_MIN`. -/
def collectable (t : ABuf) : Bool := !(t.bytes.all Spec.Seq.ws) && decide (t.len > STRTBL_MIN)

/-- `wbxml_list_append` makes exactly one request, and returns FALSE only when that request failed. -/
theorem listAppend_req {ι : Type} (l : AList ι) (item : ι) (s : Ledger) (hl : l.hdr ∈ s.live) :
    Good (listAppend l item) s (fun r s' => s'.next = s.next + 1 ∧ (r.2 = false → s.hits < s'.hits)) := by
  unfold Good listAppend
  simp only [bind_eq, pure_eq, deref, malloc, Prog.bind, run, hl, if_true]
  by_cases hf : s.fails (s.next + 1) = true <;> simp [hf]

/-- `wbxml_strtbl_collect_strings` (a failed `wbxml_list_append` is ignored on purpose): never a
    fault; the list gains exactly one cell per string it now refers to — a sub-sequence of the
    collectable text nodes, all of them when no request failed — and nothing else is allocated or
    released.  It makes exactly one request per collectable text node. -/
theorem collectStrings_spec (texts : List ABuf) (strings : AList ABuf) (s : Ledger) (wf : s.WF)
    (hs : strings.hdr ∈ s.live) (hl : ∀ t ∈ texts, t.hdr ∈ s.live) :
    Good (collectStrings strings texts) s (fun r s' =>
      r.hdr = strings.hdr ∧ ∃ newc : List (Nat × ABuf), r.cells = strings.cells ++ newc ∧
        Clean s s' [] (newc.map (·.1)) ∧ (newc.map (·.2)).Sublist (texts.filter collectable) ∧
        (s'.hits = s.hits → newc.map (·.2) = texts.filter collectable) ∧
        s'.next = s.next + (texts.filter collectable).length) := by
  induction texts generalizing strings s with
  | nil =>
    simp only [collectStrings, pure_eq, good_ret]
    exact ⟨by simp, [], by simp, by simpa using Clean.rfl wf, by simp, by simp, by simp⟩
  | cons t rest ih =>
    have ht : t.hdr ∈ s.live := hl t (by simp)
    have hrest : ∀ x ∈ rest, x.hdr ∈ s.live := fun x hx => hl x (by simp [hx])
    unfold collectStrings
    simp only [bind_eq, pure_eq]
    refine Good.bind (deref_spec t.hdr s ht) ?_
    intro _ s0 e0; subst e0
    by_cases hb : t.bytes.all Spec.Seq.ws = true
    · have hc : collectable t = false := by simp [collectable, hb]
      simp only [hb, if_true, List.filter_cons, hc, Bool.false_eq_true, if_false]
      exact ih strings s0 wf hs hrest
    · simp only [hb, if_false]
      by_cases hlen : t.len > STRTBL_MIN
      · have hc : collectable t = true := by simp [collectable, hb, hlen]
        simp only [hlen, if_true]
        refine Good.bind ((listAppend_spec strings t s0 wf hs).and (listAppend_req strings t s0 hs)) ?_
        intro r s1 ⟨⟨eh, h1, hcase⟩, hn1, hf1⟩
        obtain ⟨l1, ok⟩ := r
        simp only at eh h1 hcase hn1 hf1 ⊢
        rcases hcase with ⟨hok, hl1, c1⟩ | ⟨hok, cid, hcells, c1⟩
        · subst hl1
          have keepL : ∀ i, i ∈ s0.live → i ∈ s1.live := fun i hi => c1.stays hi (by simp)
          refine (ih l1 s1 c1.wf (keepL _ hs) (fun x hx => keepL _ (hrest x hx))).mono ?_
          intro r s2 ⟨e2, newc, hc2, c2, sub2, all2, n2⟩
          refine ⟨e2, newc, hc2, by simpa using Clean.trans_prod c1 c2, ?_, ?_, ?_⟩
          · simp only [List.filter_cons, hc, if_true]; exact sub2.cons _
          · intro hh; exfalso; have := hf1 hok; have := c2.hits; omega
          · simp only [List.filter_cons, hc, if_true, List.length_cons]; omega
        · have keepL : ∀ i, i ∈ s0.live → i ∈ s1.live := fun i hi => c1.stays hi (by simp)
          refine (ih l1 s1 c1.wf (by rw [eh]; exact keepL _ hs) (fun x hx => keepL _ (hrest x hx))).mono ?_
          intro r s2 ⟨e2, newc, hc2, c2, sub2, all2, n2⟩
          refine ⟨e2.trans eh, (cid, t) :: newc, by rw [hc2, hcells]; simp, by simpa using Clean.trans_prod c1 c2, ?_, ?_, ?_⟩
          · simp only [List.filter_cons, hc, if_true, List.map_cons]; exact sub2.cons_cons _
          · intro hh
            have := c1.hits; have := c2.hits
            simp only [List.filter_cons, hc, if_true, List.map_cons]
            rw [all2 (by omega)]
          · simp only [List.filter_cons, hc, if_true, List.length_cons]; omega
      · have hc : collectable t = false := by simp [collectable, hb, hlen]
        simp only [hlen, if_false, List.filter_cons, hc, Bool.false_eq_true]
        exact ih strings s0 wf hs hrest

/-! ### `wbxml_buffer_split_words_real` -/

/-- Blocks of a list of buffers that owns its items (the list of words). -/
abbrev bufListOwned (l : Option (AList ABuf)) : List Nat := listOwned ABuf.owned l

theorem splitWordsLoop_spec (ws : List Bytes) (list : AList ABuf) (s : Ledger) (wf : s.WF)
    (own : Owns s (bufListOwned (some list))) :
    Good (splitWordsLoop list ws) s (fun r s' =>
      Clean s s' (bufListOwned (some list)) (bufListOwned r) ∧ (s.hits < s'.hits → r = none)) := by
  induction ws generalizing list s with
  | nil =>
    simp only [splitWordsLoop, pure_eq, good_ret]
    exact ⟨Clean.id wf own, fun h => absurd h (Nat.lt_irrefl _)⟩
  | cons w rest ih =>
    unfold splitWordsLoop
    simp only [bind_eq, pure_eq]
    refine Good.bind (bufCreate_spec (some w) SPLIT_BLOCK s wf) ?_
    intro word s1 ⟨c1, h1, _, _⟩
    have hh1 := c1.hits
    have cL1 : Clean s s1 (bufListOwned (some list)) (bufListOwned (some list) ++ ownedBufOpt word) := by
      simpa using Clean.frame_l (bufListOwned (some list)) wf c1 (by simpa using own)
    cases word with
    | none =>
      simp only [ownedBufOpt, List.append_nil] at cL1
      simp only
      refine Good.bind (listDestroy_spec ABuf.owned _ buf_destroys (some list) s1 c1.wf cL1.owns) ?_
      intro _ s2 ⟨d2, hd2, nd2⟩
      simp only [good_ret]
      exact ⟨Clean.trans_recycle wf cL1 d2, by simp⟩
    | some word =>
      simp only [ownedBufOpt] at cL1
      simp only
      have hno1 : ¬ s.hits < s1.hits := by intro hh; have := h1 hh; simp at this
      have hll : list.hdr ∈ s1.live := cL1.owns.2 _ (by simp [listOwned])
      refine Good.bind (listAppend_spec list word s1 c1.wf hll) ?_
      intro r s2 ⟨eh, h2, hcase⟩
      obtain ⟨l2, ok⟩ := r
      simp only at eh h2 hcase ⊢
      rcases hcase with ⟨hok, hl2, c2⟩ | ⟨hok, cid, hcells, c2⟩
      · subst hok; subst hl2
        simp only [Bool.not_false, if_true]
        have cL2 : Clean s s2 (bufListOwned (some l2)) (bufListOwned (some l2) ++ word.owned) := by
          simpa using Clean.step_l (bufListOwned (some l2) ++ word.owned) wf (by simpa using cL1) c2
        refine Good.bind (bufDestroy_spec (some word) s2 c2.wf cL2.owns.right) ?_
        intro _ s3 ⟨d3, _, _⟩
        have cL3 : Clean s s3 (bufListOwned (some l2)) (bufListOwned (some l2)) := by
          simpa using Clean.step_l (bufListOwned (some l2)) wf cL2 d3
        refine Good.bind (listDestroy_spec ABuf.owned _ buf_destroys (some l2) s3 d3.wf cL3.owns) ?_
        intro _ s4 ⟨d4, _, _⟩
        simp only [good_ret]
        exact ⟨Clean.trans_recycle wf cL3 d4, by simp⟩
      · subst hok
        simp only [Bool.not_true, Bool.false_eq_true, if_false]
        have hno2 : ¬ s1.hits < s2.hits := by intro hh; have := h2 hh; simp at this
        have hL2 : bufListOwned (some l2) = bufListOwned (some list) ++ (cid :: word.owned) := by
          simp [bufListOwned, listOwned, eh, hcells, cellsOwned_append, cellsOwned]
        have cL2 : Clean s s2 (bufListOwned (some list)) (bufListOwned (some l2)) := by
          rw [hL2]
          refine (Clean.step_l (bufListOwned (some list) ++ word.owned) wf (by simpa using cL1) c2).prod_perm ?_
          perm_count
        refine (ih l2 s2 c2.wf cL2.owns).mono ?_
        intro r s3 ⟨c3, h3⟩
        exact ⟨Clean.trans_recycle wf cL2 c3, fun hh => h3 (by omega)⟩

/-- `wbxml_buffer_split_words_real` (repaired): the list of words with the words it owns, or NULL with
    everything released; NULL whenever a request failed. -/
theorem splitWords_spec (b : ABuf) (s : Ledger) (wf : s.WF) (hb : b.hdr ∈ s.live) :
    Good (splitWords b) s (fun r s' => Clean s s' [] (bufListOwned r) ∧ (s.hits < s'.hits → r = none)) := by
  unfold splitWords
  simp only [bind_eq, pure_eq]
  refine Good.bind (deref_spec b.hdr s hb) ?_
  intro _ s0 e0; subst e0
  refine Good.bind (listCreate_spec (ι := ABuf) s0 wf) ?_
  intro list s1 ⟨c1, h1, e1⟩
  cases list with
  | none => simp only [good_ret]; exact ⟨by simpa [bufListOwned, listOwned] using c1, by simp⟩
  | some list =>
    simp only
    have hno1 : ¬ s0.hits < s1.hits := by intro hh; have := h1 hh; simp at this
    have hc := e1 list rfl
    have c1' : Clean s0 s1 [] (bufListOwned (some list)) := by simpa [bufListOwned, listOwned, hc, cellsOwned] using c1
    refine (splitWordsLoop_spec _ list s1 c1.wf c1'.owns).mono ?_
    intro r s2 ⟨c2, h2⟩
    have := c1.hits
    exact ⟨Clean.trans_recycle wf c1' c2, fun hh => h2 (by omega)⟩

/-! ### The word-moving loop and `wbxml_strtbl_collect_words` -/

/-- `while ((word = wbxml_list_extract_first(temp_list)) != NULL) wbxml_list_append(list, word)`: the
    words move from `temp_list` to `list`; on a failed append the word in hand, the rest of
    `temp_list` (with its struct) and `list` are all released. -/
theorem moveWords_spec (cells : List (Nat × ABuf)) (tHdr : Nat) (list : AList ABuf) (s : Ledger) (wf : s.WF)
    (own : Owns s ((tHdr :: cellsOwned ABuf.owned cells) ++ bufListOwned (some list))) :
    Good (moveWords tHdr list cells) s (fun r s' =>
      Clean s s' ((tHdr :: cellsOwned ABuf.owned cells) ++ bufListOwned (some list))
        (match r with | none => [] | some l => tHdr :: bufListOwned (some l)) ∧
      (s.hits < s'.hits → r = none)) := by
  induction cells generalizing list s with
  | nil =>
    simp only [moveWords, pure_eq, good_ret]
    exact ⟨by simpa [cellsOwned] using Clean.id wf own, fun h => absurd h (Nat.lt_irrefl _)⟩
  | cons x rest ih =>
    obtain ⟨c, word⟩ := x
    -- the footprint, with the cell in hand in front
    have hperm : ((tHdr :: cellsOwned ABuf.owned ((c, word) :: rest)) ++ bufListOwned (some list)).Perm
        ([c] ++ ((tHdr :: cellsOwned ABuf.owned rest) ++ (bufListOwned (some list) ++ word.owned))) := by
      simp only [cellsOwned, List.flatMap_cons]
      perm_count
    have own' := own.perm hperm
    have htl : tHdr ∈ s.live := own.2 _ (by simp)
    have hcl : c ∈ s.live := own'.2 _ (by simp)
    unfold moveWords
    simp only [bind_eq, pure_eq]
    refine Good.bind (deref_spec tHdr s htl) ?_
    intro _ s0 e0; subst e0
    refine Good.bind (deref_spec c s0 hcl) ?_
    intro _ s0' e0'; have e0'' := e0'.symm; subst e0''
    refine Good.bind (free_spec (some c) s0 wf (by intro a ha; cases ha; exact hcl)) ?_
    intro _ s1 ⟨c1, hh1, n1⟩
    have c1' : Clean s0 s1 [c] [] := by simpa using c1
    have cX1 : Clean s0 s1 ((tHdr :: cellsOwned ABuf.owned ((c, word) :: rest)) ++ bufListOwned (some list))
        ((tHdr :: cellsOwned ABuf.owned rest) ++ (bufListOwned (some list) ++ word.owned)) := by
      have := Clean.frame_r _ wf c1' own'
      exact (by simpa using this : Clean s0 s1 ([c] ++ _) _).cons_congr (fun i => hperm.mem_iff)
    have hll : list.hdr ∈ s1.live := cX1.owns.2 _ (by simp [listOwned])
    refine Good.bind (listAppend_spec list word s1 c1.wf hll) ?_
    intro r s2 ⟨eh, h2, hcase⟩
    obtain ⟨l2, ok⟩ := r
    simp only at eh h2 hcase ⊢
    rcases hcase with ⟨hok, hl2, c2⟩ | ⟨hok, cid, hcells, c2⟩
    · subst hok; subst hl2
      simp only [Bool.not_false, if_true]
      have cX2 : Clean s0 s2 ((tHdr :: cellsOwned ABuf.owned ((c, word) :: rest)) ++ bufListOwned (some l2))
          (((tHdr :: cellsOwned ABuf.owned rest) ++ bufListOwned (some l2)) ++ word.owned) := by
        have := Clean.step_l ((tHdr :: cellsOwned ABuf.owned rest) ++ (bufListOwned (some l2) ++ word.owned)) wf
          (by simpa using cX1) c2
        simpa [List.append_assoc] using this
      refine Good.bind (bufDestroy_spec (some word) s2 c2.wf cX2.owns.right) ?_
      intro _ s3 ⟨d3, _, _⟩
      have cX3 : Clean s0 s3 ((tHdr :: cellsOwned ABuf.owned ((c, word) :: rest)) ++ bufListOwned (some l2))
          ((tHdr :: cellsOwned ABuf.owned rest) ++ bufListOwned (some l2)) := by
        simpa using Clean.step_l ((tHdr :: cellsOwned ABuf.owned rest) ++ bufListOwned (some l2)) wf cX2 d3
      refine Good.bind (listDestroy_spec ABuf.owned _ buf_destroys (some (⟨tHdr, rest⟩ : AList ABuf)) s3 d3.wf
        (by simpa [listOwned] using cX3.owns.left)) ?_
      intro _ s4 ⟨d4, _, _⟩
      have d4' : Clean s3 s4 (tHdr :: cellsOwned ABuf.owned rest) [] := by simpa [listOwned] using d4
      have cX4 : Clean s0 s4 ((tHdr :: cellsOwned ABuf.owned ((c, word) :: rest)) ++ bufListOwned (some l2))
          (bufListOwned (some l2)) := by
        simpa using Clean.step_r (bufListOwned (some l2)) wf cX3 d4'
      refine Good.bind (listDestroy_spec ABuf.owned _ buf_destroys (some l2) s4 d4.wf cX4.owns) ?_
      intro _ s5 ⟨d5, _, _⟩
      simp only [good_ret]
      exact ⟨Clean.trans_recycle wf cX4 d5, by simp⟩
    · subst hok
      simp only [Bool.not_true, Bool.false_eq_true, if_false]
      have hno2 : ¬ s1.hits < s2.hits := by intro hh; have := h2 hh; simp at this
      have hL2 : bufListOwned (some l2) = bufListOwned (some list) ++ (cid :: word.owned) := by
        simp [bufListOwned, listOwned, eh, hcells, cellsOwned_append, cellsOwned]
      have cX2 : Clean s0 s2 ((tHdr :: cellsOwned ABuf.owned ((c, word) :: rest)) ++ bufListOwned (some list))
          ((tHdr :: cellsOwned ABuf.owned rest) ++ bufListOwned (some l2)) := by
        rw [hL2]
        refine (Clean.step_l ((tHdr :: cellsOwned ABuf.owned rest) ++ (bufListOwned (some list) ++ word.owned)) wf
          (by simpa using cX1) c2).prod_perm ?_
        perm_count
      refine (ih l2 s2 c2.wf cX2.owns).mono ?_
      intro r s3 ⟨c3, h3⟩
      have := c1'.hits
      exact ⟨Clean.trans_recycle wf cX2 c3, fun hh => h3 (by omega)⟩

/-- The `for` loop of `wbxml_strtbl_collect_words`. The elements are only read (their structs and
    strings must be live and foreign to the word list). -/
theorem collectWordsLoop_spec (elts : List StrElt) (list : Option (AList ABuf)) (s : Ledger) (wf : s.WF)
    (own : Owns s (bufListOwned list))
    (hl : ∀ x ∈ elts, (x.hdr ∈ s.live ∧ x.hdr ∉ bufListOwned list) ∧
      (x.string.hdr ∈ s.live ∧ x.string.hdr ∉ bufListOwned list)) :
    Good (collectWordsLoop list elts) s (fun r s' =>
      Clean s s' (bufListOwned list) (bufListOwned r.2) ∧ (r.1 ≠ OK → r.2 = none) ∧
      (s.hits < s'.hits → r.1 ≠ OK)) := by
  induction elts generalizing list s with
  | nil =>
    simp only [collectWordsLoop, pure_eq, good_ret]
    exact ⟨Clean.id wf own, by simp, fun h => absurd h (Nat.lt_irrefl _)⟩
  | cons elt rest ih =>
    obtain ⟨⟨hel, hen⟩, ⟨hsl, hsn⟩⟩ := hl elt (by simp)
    have hrest : ∀ x ∈ rest, (x.hdr ∈ s.live ∧ x.hdr ∉ bufListOwned list) ∧
        (x.string.hdr ∈ s.live ∧ x.string.hdr ∉ bufListOwned list) := fun x hx => hl x (by simp [hx])
    -- liveness of the remaining elements after a run that consumed at most the word list
    have hkeep : ∀ (t : Ledger) (X : List Nat), Clean s t (bufListOwned list) X →
        ∀ x ∈ rest, (x.hdr ∈ t.live ∧ x.hdr ∉ X) ∧ (x.string.hdr ∈ t.live ∧ x.string.hdr ∉ X) := by
      intro t X ct x hx
      obtain ⟨⟨a1, a2⟩, ⟨b1, b2⟩⟩ := hrest x hx
      refine ⟨⟨ct.stays a1 a2, fun hm => ?_⟩, ⟨ct.stays b1 b2, fun hm => ?_⟩⟩
      · rcases ct.prod_old_or_new hm with h | h
        · exact a2 h
        · have := wf _ a1; omega
      · rcases ct.prod_old_or_new hm with h | h
        · exact b2 h
        · have := wf _ b1; omega
    unfold collectWordsLoop
    simp only [bind_eq, pure_eq]
    refine Good.bind (deref_spec elt.hdr s hel) ?_
    intro _ s0 e0; subst e0
    cases list with
    | none =>
      simp only
      refine Good.bind (splitWords_spec elt.string s0 wf hsl) ?_
      intro l s1 ⟨c1, h1⟩
      have c1' : Clean s0 s1 (bufListOwned none) (bufListOwned l) := by simpa [bufListOwned, listOwned] using c1
      cases l with
      | none =>
        simp only [good_ret]
        exact ⟨c1', by simp, fun _ => by simp [ENOMEM, OK]⟩
      | some l =>
        simp only
        have hno1 : ¬ s0.hits < s1.hits := by intro hh; have := h1 hh; simp at this
        refine (ih (some l) s1 c1.wf c1'.owns (hkeep s1 _ c1')).mono ?_
        intro r s2 ⟨c2, e2, h2⟩
        have := c1.hits
        exact ⟨Clean.trans_recycle wf c1' c2, e2, fun hh => h2 (by omega)⟩
    | some list =>
      simp only
      refine Good.bind (splitWords_spec elt.string s0 wf hsl) ?_
      intro tmp s1 ⟨c1, h1⟩
      have hh1 := c1.hits
      have cL1 : Clean s0 s1 (bufListOwned (some list)) (bufListOwned tmp ++ bufListOwned (some list)) := by
        simpa using Clean.frame_r (bufListOwned (some list)) wf c1 (by simpa using own)
      cases tmp with
      | none =>
        simp only
        have cL1' : Clean s0 s1 (bufListOwned (some list)) (bufListOwned (some list)) := by
          simpa [bufListOwned, listOwned] using cL1
        refine Good.bind (listDestroy_spec ABuf.owned _ buf_destroys (some list) s1 c1.wf cL1'.owns) ?_
        intro _ s2 ⟨d2, _, _⟩
        simp only [good_ret]
        exact ⟨Clean.trans_recycle wf cL1' d2, by simp, fun _ => by simp [ENOMEM, OK]⟩
      | some tmp =>
        simp only
        have hno1 : ¬ s0.hits < s1.hits := by intro hh; have := h1 hh; simp at this
        have cL1' : Clean s0 s1 (bufListOwned (some list))
            ((tmp.hdr :: cellsOwned ABuf.owned tmp.cells) ++ bufListOwned (some list)) := by
          simpa [bufListOwned, listOwned] using cL1
        refine Good.bind (moveWords_spec tmp.cells tmp.hdr list s1 c1.wf cL1'.owns) ?_
        intro l2 s2 ⟨c2, h2⟩
        have hh2 := c2.hits
        have cL2 := Clean.trans_recycle wf cL1' c2
        cases l2 with
        | none =>
          simp only [good_ret]
          exact ⟨cL2, by simp, fun _ => by simp [ENOMEM, OK]⟩
        | some l2 =>
          simp only at cL2 ⊢
          have hno2 : ¬ s1.hits < s2.hits := by intro hh; have := h2 hh; simp at this
          have cL2' : Clean s0 s2 (bufListOwned (some list)) ([tmp.hdr] ++ bufListOwned (some l2)) := by simpa using cL2
          refine Good.bind (listDestroy_spec (fun _ => ([] : List Nat)) _ nop_destroys (some (⟨tmp.hdr, []⟩ : AList ABuf)) s2 c2.wf
            (by simpa [listOwned, cellsOwned] using cL2'.owns.left)) ?_
          intro _ s3 ⟨d3, hd3, _⟩
          have d3' : Clean s2 s3 [tmp.hdr] [] := by simpa [listOwned, cellsOwned] using d3
          have cL3 : Clean s0 s3 (bufListOwned (some list)) (bufListOwned (some l2)) := by
            simpa using Clean.step_r (bufListOwned (some l2)) wf cL2' d3'
          refine (ih (some l2) s3 d3.wf cL3.owns (hkeep s3 _ cL3)).mono ?_
          intro r s4 ⟨c4, e4, h4⟩
          exact ⟨Clean.trans_recycle wf cL3 c4, e4, fun hh => h4 (by omega)⟩

/-- `wbxml_strtbl_collect_words` (repaired): the list of words of all the elements' strings, or an
    error with everything released; an error whenever a request failed.  The elements are only
    read. -/
theorem collectWords_spec (elements : AList StrElt) (s : Ledger) (wf : s.WF) (hh : elements.hdr ∈ s.live)
    (hl : ∀ x ∈ elements.items, x.hdr ∈ s.live ∧ x.string.hdr ∈ s.live) :
    Good (collectWords elements) s (fun r s' =>
      Clean s s' [] (bufListOwned r.2) ∧ (r.1 ≠ OK → r.2 = none) ∧ (s.hits < s'.hits → r.1 ≠ OK)) := by
  unfold collectWords
  simp only [bind_eq, pure_eq]
  refine Good.bind (deref_spec elements.hdr s hh) ?_
  intro _ s0 e0; subst e0
  refine (collectWordsLoop_spec elements.items none s0 wf (by simpa [bufListOwned, listOwned] using Owns.nil s0)
    (fun x hx => by simpa [bufListOwned, listOwned] using hl x hx)).mono ?_
  intro r s1 ⟨c1, e1, h1⟩
  exact ⟨by simpa [bufListOwned, listOwned] using c1, e1, h1⟩

end Wbxml.Model.Alloc
