/-
  Round trip (C03), part 2: the normalisation `normNode` a tree undergoes on its way through
  `wbxml_tree_to_wbxml` and back through `wbxml_tree_from_wbxml`, as an executable function on
  trees; its idempotence; the XML-level view of a TREE (`ntoks`) and the fact that trees in normal
  form (`nfNode`: no empty text, no adjacent text siblings) are determined by that view up to the
  representation of names (`canon`: token or literal does not matter).
-/
import Wbxml.Lemmas.RtBuild
namespace Wbxml.Lemmas.Rt
open Wbxml Wbxml.Model Wbxml.Spec Wbxml.Lemmas.EncW

/-! ### Octet strings: C strings, blanks -/

theorem cstrOf_of_nulFree : ∀ (s : Bytes), nulFree s = true → cstrOf s = s
  | [], _ => rfl
  | b :: r, h => by
    simp only [nulFree, List.all_cons, Bool.and_eq_true, bne_iff_ne, ne_eq] at h
    have ih := cstrOf_of_nulFree r (by simpa [nulFree] using h.2)
    have hb : (b == 0) = false := by simpa using h.1
    unfold cstrOf at ih ⊢
    simp only [cstrLen, hb, Bool.false_eq_true, ↓reduceIte, List.take_succ_cons, ih]

theorem cstrOf_idem (s : Bytes) : cstrOf (cstrOf s) = cstrOf s := cstrOf_of_nulFree _ (nulFree_cstrOf s)

theorem cstrOf_append_nul : ∀ (v : Bytes), nulFree v = true → cstrOf (v ++ [0]) = v
  | [], _ => rfl
  | b :: r, h => by
    simp only [nulFree, List.all_cons, Bool.and_eq_true, bne_iff_ne, ne_eq] at h
    have ih := cstrOf_append_nul r (by simpa [nulFree] using h.2)
    have hb : (b == 0) = false := by simpa using h.1
    unfold cstrOf at ih ⊢
    simp only [List.cons_append, cstrLen, hb, Bool.false_eq_true, ↓reduceIte, List.take_succ_cons, ih]

theorem cstrOf_withNul (v : Bytes) (h : nulFree v = true) : cstrOf (withNul v) = v := by
  unfold withNul
  split
  · exact cstrOf_of_nulFree v h
  · exact cstrOf_append_nul v h

theorem withNul_cstrOf_idem (v : Bytes) : withNul (cstrOf (withNul (cstrOf v))) = withNul (cstrOf v) := by
  rw [cstrOf_withNul _ (nulFree_cstrOf v)]

/-- Neither end of the string is a blank. -/
def Trim (t : Bytes) : Prop :=
  (∀ x, t.head? = some x → isSpaceC x = false) ∧ (∀ x, t.getLast? = some x → isSpaceC x = false)

theorem dropWhile_head {p : UInt8 → Bool} : ∀ (l : Bytes) (x : UInt8), (l.dropWhile p).head? = some x → p x = false
  | [], x, h => by cases h
  | a :: l, x, h => by
    by_cases ha : p a = true
    · rw [List.dropWhile_cons_of_pos ha] at h; exact dropWhile_head l x h
    · rw [List.dropWhile_cons_of_neg ha] at h
      simp only [List.head?_cons, Option.some.injEq] at h
      subst h; simpa using ha

theorem dropWhile_getLast {p : UInt8 → Bool} : ∀ (l : Bytes) (x : UInt8),
    (l.dropWhile p).getLast? = some x → l.getLast? = some x
  | [], x, h => by cases h
  | a :: l, x, h => by
    by_cases ha : p a = true
    · rw [List.dropWhile_cons_of_pos ha] at h
      have ih := dropWhile_getLast l x h
      cases l with
      | nil => cases ih
      | cons b l => rw [List.getLast?_cons_cons]; exact ih
    · rw [List.dropWhile_cons_of_neg ha] at h; exact h

theorem trim_strip (s : Bytes) : Trim (stripBlanks s) := by
  unfold stripBlanks
  constructor
  · intro x hx
    rw [List.head?_reverse] at hx
    have h1 := dropWhile_getLast _ x hx
    rw [List.getLast?_reverse] at h1
    exact dropWhile_head s x h1
  · intro x hx
    rw [List.getLast?_reverse] at hx
    exact dropWhile_head _ x hx

theorem dropWhile_of_head {p : UInt8 → Bool} (l : Bytes) (h : ∀ x, l.head? = some x → p x = false) :
    l.dropWhile p = l := by
  cases l with
  | nil => rfl
  | cons a l => exact List.dropWhile_cons_of_neg (by rw [h a rfl]; simp)

theorem strip_of_trim (t : Bytes) (h : Trim t) : stripBlanks t = t := by
  unfold stripBlanks
  rw [dropWhile_of_head t h.1, dropWhile_of_head t.reverse (by rw [List.head?_reverse]; exact h.2), List.reverse_reverse]

theorem mem_strip (s : Bytes) : ∀ x ∈ stripBlanks s, x ∈ s := by
  intro x hx
  unfold stripBlanks at hx
  rw [List.mem_reverse] at hx
  have := (List.dropWhile_sublist _).subset hx
  rw [List.mem_reverse] at this
  exact (List.dropWhile_sublist _).subset this

theorem nulFree_strip (s : Bytes) (h : nulFree s = true) : nulFree (stripBlanks s) = true := by
  simp only [nulFree, List.all_eq_true] at h ⊢
  intro x hx
  exact h x (mem_strip s x hx)

theorem all_false_of_head (t : Bytes) (x : UInt8) (hx : t.head? = some x) (hs : isSpaceC x = false) :
    t.all isSpaceC = false := by
  cases t with
  | nil => cases hx
  | cons a t =>
    simp only [List.head?_cons, Option.some.injEq] at hx
    subst hx
    simp [hs]

theorem trim_append {a b : Bytes} (ha : Trim a) (hb : Trim b) (hna : a ≠ []) (hnb : b ≠ []) : Trim (a ++ b) := by
  constructor
  · intro x hx
    cases a with
    | nil => exact absurd rfl hna
    | cons y a => exact ha.1 x (by simpa using hx)
  · intro x hx
    rw [List.getLast?_append] at hx
    cases hl : b.getLast? with
    | none => rw [List.getLast?_eq_none_iff] at hl; exact absurd hl hnb
    | some y => rw [hl] at hx; simp only [Option.some_or] at hx; exact hb.2 x (by rw [hl, hx])

/-! ### Normalised character data -/

/-- Character data that the encoder's text handling leaves alone: non-empty, NUL-free, no blank at
    either end when blanks are removed, not blank when blank text is ignored. -/
structure Solid (c : WCfg) (t : Bytes) : Prop where
  ne : t ≠ []
  nf : nulFree t = true
  trim : c.removeBlanks = true → Trim t
  nb : c.ignoreEmpty = true → t.all isSpaceC = false

theorem syncmlTypeText_of_not (id : Nat) (s : Bytes) (h : isSyncml id = false) : syncmlTypeText id s = s := by
  unfold syncmlTypeText; rw [h]; rfl

theorem Solid.append {c : WCfg} {a b : Bytes} (ha : Solid c a) (hb : Solid c b) : Solid c (a ++ b) :=
  ⟨by intro h; exact ha.ne (List.append_eq_nil_iff.mp h).1,
   by rw [nulFree_append, ha.nf, hb.nf]; rfl,
   fun h => trim_append (ha.trim h) (hb.trim h) ha.ne hb.ne,
   fun h => by rw [List.all_append, ha.nb h]; rfl⟩

/-- Outside SyncML a solid string is a fixed point of `normText`. -/
theorem normText_of_solid (c : WCfg) (t : Bytes) (hs : isSyncml c.lang.id = false) (h : Solid c t) :
    normText c t = t := by
  unfold normText
  have h1 : (c.ignoreEmpty && t.all isSpaceC) = false := by
    cases hi : c.ignoreEmpty with
    | false => rfl
    | true => rw [h.nb hi]; rfl
  rw [h1, syncmlTypeText_of_not _ _ hs]
  simp only [Bool.false_eq_true, ↓reduceIte]
  have h2 : (if c.removeBlanks = true then stripBlanks t else t) = t := by
    split
    · rename_i hr; exact strip_of_trim t (h.trim hr)
    · rfl
  rw [h2, cstrOf_of_nulFree t h.nf]

/-- Outside SyncML, normalised NUL-free character data is empty or solid. -/
theorem normText_solid (c : WCfg) (s : Bytes) (hs : isSyncml c.lang.id = false) (hn : nulFree s = true) :
    normText c s = [] ∨ Solid c (normText c s) := by
  unfold normText
  split
  · exact Or.inl rfl
  · rename_i hskip
    rw [syncmlTypeText_of_not _ _ hs]
    have hnf : nulFree (if c.removeBlanks = true then stripBlanks s else s) = true := by
      split
      · exact nulFree_strip s hn
      · exact hn
    rw [cstrOf_of_nulFree _ hnf]
    by_cases he : (if c.removeBlanks = true then stripBlanks s else s) = []
    · exact Or.inl he
    · refine Or.inr ⟨he, hnf, ?_, ?_⟩
      · intro hr; simp only [hr, ↓reduceIte]; exact trim_strip s
      · intro hi
        have hsp : s.all isSpaceC = false := by
          cases hsp : s.all isSpaceC with
          | false => rfl
          | true => rw [hi, hsp] at hskip; exact absurd rfl hskip
        by_cases hr : c.removeBlanks = true
        · simp only [hr, ↓reduceIte] at he ⊢
          cases hh : (stripBlanks s).head? with
          | none => rw [List.head?_eq_none_iff] at hh; exact absurd hh he
          | some x => exact all_false_of_head _ x hh ((trim_strip s).1 x hh)
        · simp only [hr, Bool.false_eq_true, ↓reduceIte]; exact hsp


theorem normText_nil (c : WCfg) (hs : isSyncml c.lang.id = false) : normText c [] = [] := by
  unfold normText
  split
  · rfl
  · rw [syncmlTypeText_of_not _ _ hs]; split <;> rfl

/-! ### The normalisation of a tree -/

/-- Names are compared as XML names read as C strings: token or literal does not matter. -/
def normName (n : Name) : Name := .literal (cstrOf n.xmlName)

/-- The attribute as a reader of the WBXML document reports it: XML name, value read as a C string
    with the trailing NUL the handlers get. -/
def normAttr (a : Attr) : Attr := { name := .literal (cstrOf a.name.xmlName), value := withNul (cstrOf a.value) }

/-- All attributes, or none for a language without attribute table (they are not encoded). -/
def normAttrs (c : WCfg) (attrs : List Attr) : List Attr := if c.lang.attrs.isSome then attrs.map normAttr else []

mutual
/-- **The normalisation of C03 as a function on trees**: names → XML names; attribute values →
    C strings; character data → `normText` (white space trimmed / white-space-only text dropped
    unless kept, cut at the first NUL, SyncML media types); empty text dropped; adjacent text merged.
    CDATA sections and embedded documents (outside the plain fragment) are left as they are. -/
def normNode (c : WCfg) : Node → Node
  | .elt name attrs kids => .elt (normName name) (normAttrs c attrs) (normKidsAcc c kids [])
  | .text s => .text (normText c s)
  | .cdata kids => .cdata kids
  | .tree l cs r => .tree l cs r
def normKidsAcc (c : WCfg) : List Node → List Node → List Node
  | [], acc => acc
  | k :: rest, acc => normKidsAcc c rest (addN acc (normNode c k))
end

/-- `normNode` for a whole tree. -/
def normTree (c : WCfg) (t : Tree) : Tree := { t with root := t.root.map (normNode c) }

theorem normNode_elt (c name attrs kids) : normNode c (.elt name attrs kids) =
    .elt (normName name) (normAttrs c attrs) (normKidsAcc c kids []) := by rw [normNode]
theorem normNode_text (c s) : normNode c (.text s) = .text (normText c s) := by rw [normNode]
theorem normNode_cdata (c kids) : normNode c (.cdata kids) = .cdata kids := by rw [normNode]
theorem normNode_tree (c l cs r) : normNode c (.tree l cs r) = .tree l cs r := by rw [normNode]
theorem normKidsAcc_nil (c acc) : normKidsAcc c [] acc = acc := by rw [normKidsAcc]
theorem normKidsAcc_cons (c k rest acc) :
    normKidsAcc c (k :: rest) acc = normKidsAcc c rest (addN acc (normNode c k)) := by rw [normKidsAcc]

theorem normName_idem (n : Name) : normName (normName n) = normName n := by
  simp only [normName, Name.xmlName, cstrOf_idem]

theorem normAttr_idem (a : Attr) : normAttr (normAttr a) = normAttr a := by
  simp only [normAttr, AName.xmlName, cstrOf_idem, withNul_cstrOf_idem]

theorem normAttrs_idem (c : WCfg) (attrs : List Attr) : normAttrs c (normAttrs c attrs) = normAttrs c attrs := by
  unfold normAttrs
  split
  · simp only [List.map_map]
    congr 1
    funext a
    exact normAttr_idem a
  · rfl

/-- No two adjacent text nodes. -/
def noAdj : List Node → Bool
  | [] => true
  | k :: rest => !(isText k && headText rest) && noAdj rest

theorem headText_snoc (l : List Node) (k : Node) : headText (l ++ [k]) = (if l.isEmpty then isText k else headText l) := by
  cases l <;> rfl

theorem lastText_cons (a : Node) (l : List Node) : lastText (a :: l) = (if l.isEmpty then isText a else lastText l) := by
  cases l with
  | nil => rfl
  | cons b l => unfold lastText; rw [List.getLast?_cons_cons]; rfl

theorem noAdj_snoc : ∀ (l : List Node) (k : Node), noAdj (l ++ [k]) = (noAdj l && !(lastText l && isText k))
  | [], k => by simp [noAdj, headText, lastText]
  | a :: l, k => by
    rw [List.cons_append, noAdj, noAdj, noAdj_snoc l k, headText_snoc, lastText_cons]
    cases l with
    | nil => simp [noAdj, headText, lastText]
    | cons b l => simp only [List.isEmpty_cons, Bool.false_eq_true, ↓reduceIte, Bool.and_assoc]

/-- What `normNode` leaves alone: solid text; other nodes that are their own normal form. -/
def StableN (c : WCfg) (k : Node) : Prop :=
  match k with
  | .text t => Solid c t
  | k => normNode c k = k

/-- What `normNode` delivers: as `StableN`, or an empty text node (dropped by `addN`). -/
def NOut (c : WCfg) (k : Node) : Prop :=
  match k with
  | .text t => t = [] ∨ Solid c t
  | k => normNode c k = k

structure Stable (c : WCfg) (K : List Node) : Prop where
  nodes : ∀ k ∈ K, StableN c k
  adj : noAdj K = true

theorem Stable.nil (c : WCfg) : Stable c [] := ⟨fun _ h => (by cases h), rfl⟩

theorem Stable.snoc {c : WCfg} {K : List Node} {k : Node} (h : Stable c K) (hk : StableN c k)
    (ha : (lastText K && isText k) = false) : Stable c (K ++ [k]) :=
  ⟨fun x hx => by
      rcases List.mem_append.mp hx with hx | hx
      · exact h.nodes x hx
      · simp only [List.mem_singleton] at hx; subst hx; exact hk,
   by rw [noAdj_snoc, h.adj, ha]; rfl⟩

theorem addN_stable {c : WCfg} {acc : List Node} {n : Node} (h : Stable c acc) (hn : NOut c n) :
    Stable c (addN acc n) := by
  cases n with
  | text t =>
    simp only [addN, addChars]
    rcases hn with rfl | hs
    · exact h
    · have hne : t.isEmpty = false := by cases t with | nil => exact absurd rfl hs.ne | cons _ _ => rfl
      simp only [hne, Bool.false_eq_true, ↓reduceIte]
      cases hl : lastText acc with
      | false =>
        rw [addKid_text_after _ _ hl]
        exact h.snoc hs (by rw [hl]; rfl)
      | true =>
        obtain ⟨pre, t0, rfl⟩ := lastText_split acc hl
        rw [addKid_text_merge]
        have h0 : Solid c t0 := h.nodes (.text t0) (by simp)
        have hadj := h.adj
        rw [noAdj_snoc] at hadj
        simp only [Bool.and_eq_true, isText, Bool.and_true, Bool.not_eq_true'] at hadj
        refine ⟨?_, by rw [noAdj_snoc, hadj.1]; simp [isText, hadj.2]⟩
        intro x hx
        rcases List.mem_append.mp hx with hx | hx
        · exact h.nodes x (List.mem_append_left _ hx)
        · simp only [List.mem_singleton] at hx; subst hx; exact h0.append hs
  | elt nm a ks =>
    show Stable c (addKid acc (.elt nm a ks))
    rw [addKid_not_text acc (.elt nm a ks) rfl]
    exact h.snoc hn (by simp [isText])
  | cdata ks =>
    show Stable c (addKid acc (.cdata ks))
    rw [addKid_not_text acc (.cdata ks) rfl]
    exact h.snoc hn (by simp [isText])
  | tree l cs r =>
    show Stable c (addKid acc (.tree l cs r))
    rw [addKid_not_text acc (.tree l cs r) rfl]
    exact h.snoc hn (by simp [isText])

/-- A stable child list is reproduced by the normalisation. -/
theorem normKidsAcc_stable (c : WCfg) (hs : isSyncml c.lang.id = false) : ∀ (K acc : List Node), Stable c K →
    (lastText acc && headText K) = false → normKidsAcc c K acc = acc ++ K
  | [], acc, _, _ => by rw [normKidsAcc_nil, List.append_nil]
  | k :: K, acc, h, ha => by
    rw [normKidsAcc_cons]
    have hk : StableN c k := h.nodes k (by simp)
    have hadj := h.adj
    rw [noAdj] at hadj
    simp only [Bool.and_eq_true, Bool.not_eq_true'] at hadj
    have hK : Stable c K := ⟨fun x hx => h.nodes x (List.mem_cons_of_mem _ hx), hadj.2⟩
    have hstep : addN acc (normNode c k) = acc ++ [k] := by
      cases k with
      | text t =>
        have hsol : Solid c t := hk
        rw [normNode_text, normText_of_solid c t hs hsol]
        have hne : t.isEmpty = false := by cases t with | nil => exact absurd rfl hsol.ne | cons _ _ => rfl
        simp only [addN, addChars, hne, Bool.false_eq_true, ↓reduceIte]
        exact addKid_text_after _ _ (by simpa [headText, isText] using ha)
      | elt nm a ks =>
        have : normNode c (.elt nm a ks) = .elt nm a ks := hk
        rw [this]; exact addKid_not_text acc (.elt nm a ks) rfl
      | cdata ks => rw [normNode_cdata]; exact addKid_not_text acc (.cdata ks) rfl
      | tree l cs r => rw [normNode_tree]; exact addKid_not_text acc (.tree l cs r) rfl
    rw [hstep, normKidsAcc_stable c hs K (acc ++ [k]) hK (by rw [lastText_snoc]; exact hadj.1), List.append_assoc]
    rfl

mutual
/-- Every text node outside CDATA sections and embedded documents is NUL-free (what an XML parser
    delivers). -/
def textsNulFree : Node → Bool
  | .elt _ _ kids => textsNulFreeL kids
  | .text s => nulFree s
  | .cdata _ => true
  | .tree _ _ _ => true
def textsNulFreeL : List Node → Bool
  | [] => true
  | k :: r => textsNulFree k && textsNulFreeL r
end

mutual
theorem normNode_out (c : WCfg) (hs : isSyncml c.lang.id = false) : ∀ (n : Node), textsNulFree n = true →
    NOut c (normNode c n)
  | .elt name attrs kids, h => by
    rw [textsNulFree] at h
    rw [normNode_elt]
    show normNode c _ = _
    have hK := normKids_out c hs kids [] h (Stable.nil c)
    rw [normNode_elt, normName_idem, normAttrs_idem, normKidsAcc_stable c hs _ [] hK rfl, List.nil_append]
  | .text s, h => by
    rw [textsNulFree] at h
    rw [normNode_text]
    exact normText_solid c s hs h
  | .cdata kids, _ => by rw [normNode_cdata]; exact normNode_cdata c kids
  | .tree l cs r, _ => by rw [normNode_tree]; exact normNode_tree c l cs r
theorem normKids_out (c : WCfg) (hs : isSyncml c.lang.id = false) : ∀ (kids acc : List Node),
    textsNulFreeL kids = true → Stable c acc → Stable c (normKidsAcc c kids acc)
  | [], acc, _, ha => by rw [normKidsAcc_nil]; exact ha
  | k :: rest, acc, h, ha => by
    rw [textsNulFreeL, Bool.and_eq_true] at h
    rw [normKidsAcc_cons]
    exact normKids_out c hs rest _ h.2 (addN_stable ha (normNode_out c hs k h.1))
end

/-- **Idempotence of the normalisation** (`normNode c ∘ normNode c = normNode c`) for every tree
    whose text nodes are NUL-free, outside the three SyncML languages (see the counterexamples in
    `Props/C03.lean`: a NUL in a text node, and two adjacent SyncML text nodes that spell a media
    type only after they have been merged). -/
theorem normNode_idem (c : WCfg) (hs : isSyncml c.lang.id = false) (n : Node) (h : textsNulFree n = true) :
    normNode c (normNode c n) = normNode c n := by
  have ho := normNode_out c hs n h
  cases n with
  | elt name attrs kids => rw [normNode_elt] at ho ⊢; exact ho
  | text s =>
    rw [normNode_text] at ho ⊢
    rw [normNode_text]
    rcases ho with h0 | hsol
    · rw [h0, normText_nil c hs]
    · rw [normText_of_solid c _ hs hsol]
  | cdata kids => rw [normNode_cdata, normNode_cdata]
  | tree l cs r => rw [normNode_tree, normNode_tree]


/-! ### The XML-level view of a tree -/

mutual
/-- The view `toks` takes of events, taken of a tree: start / stop with XML names and attribute
    views, one `ch` per octet of character data. (CDATA sections and embedded documents are outside
    the plain fragment and contribute nothing.) -/
def ntoks : Node → List Tok
  | .elt name attrs kids => .start name.xmlName (attrs.map attrView) :: (ntoksL kids ++ [.stop name.xmlName])
  | .text s => s.map .ch
  | .cdata _ => []
  | .tree _ _ _ => []
def ntoksL : List Node → List Tok
  | [] => []
  | n :: r => ntoks n ++ ntoksL r
end

theorem ntoksL_nil : ntoksL [] = [] := by rw [ntoksL]
theorem ntoksL_cons (n r) : ntoksL (n :: r) = ntoks n ++ ntoksL r := by rw [ntoksL]
theorem ntoks_elt (name attrs kids) : ntoks (.elt name attrs kids) =
    .start name.xmlName (attrs.map attrView) :: (ntoksL kids ++ [.stop name.xmlName]) := by rw [ntoks]
theorem ntoks_text (s) : ntoks (.text s) = s.map .ch := by rw [ntoks]

theorem ntoksL_append : ∀ (a b : List Node), ntoksL (a ++ b) = ntoksL a ++ ntoksL b
  | [], b => by rw [List.nil_append, ntoksL_nil, List.nil_append]
  | x :: a, b => by rw [List.cons_append, ntoksL_cons, ntoksL_cons, ntoksL_append a b, List.append_assoc]

theorem ntoksL_single (n : Node) : ntoksL [n] = ntoks n := by rw [ntoksL_cons, ntoksL_nil, List.append_nil]

/-- Merging adjacent character data does not change the view. -/
theorem ntoksL_addKid (acc : List Node) (n : Node) : ntoksL (addKid acc n) = ntoksL acc ++ ntoks n := by
  cases n with
  | text s =>
    cases hl : lastText acc with
    | false => rw [addKid_text_after _ _ hl, ntoksL_append, ntoksL_single]
    | true =>
      obtain ⟨pre, t, rfl⟩ := lastText_split acc hl
      rw [addKid_text_merge, ntoksL_append, ntoksL_append, ntoksL_single, ntoksL_single, ntoks_text, ntoks_text,
        ntoks_text, List.map_append, List.append_assoc]
  | elt nm a ks => rw [addKid_not_text acc (.elt nm a ks) rfl, ntoksL_append, ntoksL_single]
  | cdata ks => rw [addKid_not_text acc (.cdata ks) rfl, ntoksL_append, ntoksL_single]
  | tree l cs r => rw [addKid_not_text acc (.tree l cs r) rfl, ntoksL_append, ntoksL_single]

theorem ntoksL_addChars (acc : List Node) (s : Bytes) : ntoksL (addChars acc s) = ntoksL acc ++ s.map .ch := by
  unfold addChars
  split
  · rename_i h; rw [List.isEmpty_iff.mp h]; simp
  · rw [ntoksL_addKid, ntoks_text]

theorem ntoksL_addN (acc : List Node) (n : Node) : ntoksL (addN acc n) = ntoksL acc ++ ntoks n := by
  cases n with
  | text s => simp only [addN]; rw [ntoksL_addChars, ntoks_text]
  | elt nm a ks => exact ntoksL_addKid acc (.elt nm a ks)
  | cdata ks => exact ntoksL_addKid acc (.cdata ks)
  | tree l cs r => exact ntoksL_addKid acc (.tree l cs r)

/-! #### The view of the tree read off an element is the view of its events -/

mutual
theorem ntoks_nodeOfElem (c : Ctx) : ∀ (e : Elem) (pg : Pages),
    ntoks (nodeOfElem c pg e) = (evElem c pg e).1.flatMap toks
  | .mk sw tag attrs content, pg => by
    rw [nodeOfElem_mk, ParseSer.evElem_mk, ntoks_elt, ntoksL_kidsOfContent c content _ _ [], ntoksL_nil]
    simp only [List.nil_append, List.flatMap_cons, List.flatMap_append, List.flatMap_nil, toks, List.append_nil,
      List.singleton_append]
theorem ntoksL_kidsOfContent (c : Ctx) : ∀ (content : Option (List Item)) (own : Option TagRow) (pg : Pages)
    (acc : List Node), ntoksL (kidsOfContent c own pg content acc) = ntoksL acc ++ (evContent c own pg content).1.flatMap toks
  | none, own, pg, acc => by rw [kidsOfContent_none, ParseSer.evContent_none]; simp
  | some items, own, pg, acc => by
    rw [kidsOfContent_some, ParseSer.evContent_some]; exact ntoksL_kidsOfItems c items own pg acc
theorem ntoksL_kidsOfItems (c : Ctx) : ∀ (items : List Item) (own : Option TagRow) (pg : Pages)
    (acc : List Node), ntoksL (kidsOfItems c own pg items acc) = ntoksL acc ++ (evItems c own pg items).1.flatMap toks
  | [], own, pg, acc => by rw [kidsOfItems_nil, ParseSer.evItems_nil]; simp
  | it :: more, own, pg, acc => by
    rw [kidsOfItems_cons, ParseSer.evItems_cons, ntoksL_kidsOfItems c more own _ _, ntoksL_kidOfItem c it own pg acc]
    simp only [List.flatMap_append, List.append_assoc]
theorem ntoksL_kidOfItem (c : Ctx) : ∀ (it : Item) (own : Option TagRow) (pg : Pages)
    (acc : List Node), ntoksL (kidOfItem c own pg it acc) = ntoksL acc ++ (evItem c own pg it).1.flatMap toks
  | .elem e, own, pg, acc => by
    rw [kidOfItem_elem, ParseSer.evItem_elem, ntoksL_addKid, ntoks_nodeOfElem c e pg]
  | .str s, own, pg, acc => by rw [kidOfItem_str, ParseSer.evItem_str, ntoksL_addChars, toks_charsEv]
  | .entity code, own, pg, acc => by rw [kidOfItem_entity, ParseSer.evItem_entity, ntoksL_addChars, toks_charsEv]
  | .opaque d, own, pg, acc => by rw [kidOfItem_opaque, ParseSer.evItem_opaque, ntoksL_addChars, toks_charsEv]
  | .ext sw x, own, pg, acc => by rw [kidOfItem_ext, ParseSer.evItem_ext, ntoksL_addChars, toks_charsEv]
  | .pi p, own, pg, acc => by
    rw [kidOfItem_pi, ParseSer.evItem_pi]
    simp only [List.flatMap_cons, List.flatMap_nil, List.append_nil]
    unfold evPi
    simp [toks]
end


/-! #### The view of the normalised tree is the source view `srcToks` -/

def nameNulFree : Name → Bool
  | .token r => nulFree r.name
  | .literal _ => true

def anameNulFree : AName → Bool
  | .token r => nulFree r.name
  | .literal _ => true

mutual
/-- The names of the token rows used in the tree are NUL-free (true of every table row of the
    library: `tagSemOk`, `attrNameSemOk`); attribute names only matter for a language with an
    attribute table. -/
def namesOk (l : Lang) : Node → Bool
  | .elt n a kids => nameNulFree n && a.all (fun x => l.attrs.isNone || anameNulFree x.name) && namesOkL l kids
  | .text _ => true
  | .cdata _ => true
  | .tree _ _ _ => true
def namesOkL (l : Lang) : List Node → Bool
  | [] => true
  | k :: r => namesOk l k && namesOkL l r
end

theorem cstr_xmlName (n : Name) (h : nameNulFree n = true) : cstrOf n.xmlName = n.cName := by
  cases n with
  | token r => exact cstrOf_of_nulFree _ h
  | literal s => rfl

theorem cstr_axmlName (n : AName) (h : anameNulFree n = true) : cstrOf n.xmlName = n.cName := by
  cases n with
  | token r => exact cstrOf_of_nulFree _ h
  | literal s => rfl

theorem normAttrs_view (c : WCfg) (attrs : List Attr)
    (h : attrs.all (fun x => c.lang.attrs.isNone || anameNulFree x.name) = true) :
    (normAttrs c attrs).map attrView = srcAttrsView c attrs := by
  unfold normAttrs srcAttrsView
  split
  · rename_i hsome
    rw [List.map_map]
    apply List.map_congr_left
    intro a ha
    rw [List.all_eq_true] at h
    have h1 := h a ha
    have hnone : c.lang.attrs.isNone = false := by
      cases hx : c.lang.attrs with
      | none => rw [hx] at hsome; cases hsome
      | some _ => rfl
    rw [hnone, Bool.false_or] at h1
    show ((cstrOf a.name.xmlName, withNul (cstrOf a.value)) : Bytes × Bytes) = (a.name.cName, withNul (cstrOf a.value))
    rw [cstr_axmlName a.name h1]
  · rfl

mutual
theorem ntoks_normNode (c : WCfg) : ∀ (n : Node), plainNode n = true → namesOk c.lang n = true →
    ntoks (normNode c n) = srcToks c n
  | .elt name attrs kids, hp, hn => by
    rw [plainNode] at hp
    rw [namesOk, Bool.and_eq_true, Bool.and_eq_true] at hn
    rw [normNode_elt, ntoks_elt, srcToks, ntoksL_normKidsAcc c kids [] hp hn.2, ntoksL_nil, List.nil_append,
      normAttrs_view c attrs hn.1.2]
    have : (normName name).xmlName = name.cName := cstr_xmlName name hn.1.1
    rw [this]
  | .text s, _, _ => by rw [normNode_text, ntoks_text, srcToks]
  | .cdata kids, hp, _ => by rw [plainNode] at hp; cases hp
  | .tree l cs r, hp, _ => by rw [plainNode] at hp; cases hp
theorem ntoksL_normKidsAcc (c : WCfg) : ∀ (kids acc : List Node), plainNodes kids = true → namesOkL c.lang kids = true →
    ntoksL (normKidsAcc c kids acc) = ntoksL acc ++ srcToksL c kids
  | [], acc, _, _ => by rw [normKidsAcc_nil, srcToksL, List.append_nil]
  | k :: rest, acc, hp, hn => by
    rw [plainNodes, Bool.and_eq_true] at hp
    rw [namesOkL, Bool.and_eq_true] at hn
    rw [normKidsAcc_cons, ntoksL_normKidsAcc c rest _ hp.2 hn.2, ntoksL_addN, ntoks_normNode c k hp.1 hn.1, srcToksL,
      List.append_assoc]
end

mutual
/-- Trees over a language whose tables pass `tagSemOk` / `attrNameSemOk` use NUL-free names. -/
theorem namesOk_of_over (l : Lang) (hts : tagSemOk l = true) (han : attrNameSemOk l = true) :
    ∀ (n : Node), nodeOver l n = true → namesOk l n = true
  | .elt name attrs kids, h => by
    rw [nodeOver, Bool.and_eq_true, Bool.and_eq_true] at h
    rw [namesOk, Bool.and_eq_true, Bool.and_eq_true]
    refine ⟨⟨?_, ?_⟩, namesOkL_of_over l hts han kids h.2⟩
    · have := nameOver_nulFree { lang := l } name h.1.1 hts
      cases name with
      | token r => exact this
      | literal s => rfl
    · rw [List.all_eq_true] at h ⊢
      intro a ha
      cases hat : l.attrs with
      | none => rfl
      | some tbl =>
        have := attrOver_nulFree { lang := l } a tbl hat (h.1.2 a ha) han
        cases hn : a.name with
        | token r => rw [hn] at this; exact this
        | literal s => rfl
  | .text s, _ => by rw [namesOk]
  | .cdata kids, _ => by rw [namesOk]
  | .tree lg cs r, _ => by rw [namesOk]
theorem namesOkL_of_over (l : Lang) (hts : tagSemOk l = true) (han : attrNameSemOk l = true) :
    ∀ (ks : List Node), nodesOver l ks = true → namesOkL l ks = true
  | [], _ => by rw [namesOkL]
  | k :: r, h => by
    rw [nodesOver, Bool.and_eq_true] at h
    rw [namesOkL, namesOk_of_over l hts han k h.1, namesOkL_of_over l hts han r h.2]; rfl
end

/-! ### Normal form: no empty text, no adjacent text siblings -/

mutual
def nfNode : Node → Bool
  | .elt _ _ kids => nfKids kids
  | .text s => !s.isEmpty
  | .cdata _ => false
  | .tree _ _ _ => false
def nfKids : List Node → Bool
  | [] => true
  | k :: rest => nfNode k && !(isText k && headText rest) && nfKids rest
end

theorem nfKids_nil : nfKids [] = true := by rw [nfKids]
theorem nfKids_cons (k rest) : nfKids (k :: rest) = (nfNode k && !(isText k && headText rest) && nfKids rest) := by
  rw [nfKids]

theorem nfKids_snoc : ∀ (l : List Node) (k : Node),
    nfKids (l ++ [k]) = (nfKids l && nfNode k && !(lastText l && isText k))
  | [], k => by simp [nfKids_cons, nfKids_nil, headText, lastText]
  | a :: l, k => by
    rw [List.cons_append, nfKids_cons, nfKids_cons, nfKids_snoc l k, headText_snoc, lastText_cons]
    cases l with
    | nil =>
      simp only [nfKids_nil, headText, lastText, List.isEmpty_nil, ↓reduceIte]
      cases nfNode a <;> cases nfNode k <;> cases isText a <;> cases isText k <;> rfl
    | cons b l =>
      simp only [List.isEmpty_cons, Bool.false_eq_true, ↓reduceIte]
      cases nfNode a <;> cases nfNode k <;> cases nfKids (b :: l) <;> simp

theorem nfKids_addKid (acc : List Node) (n : Node) (ha : nfKids acc = true) (hn : nfNode n = true) :
    nfKids (addKid acc n) = true := by
  cases n with
  | text s =>
    cases hl : lastText acc with
    | false => rw [addKid_text_after _ _ hl, nfKids_snoc, ha, hn, hl]; rfl
    | true =>
      obtain ⟨pre, t, rfl⟩ := lastText_split acc hl
      rw [nfKids_snoc] at ha
      simp only [Bool.and_eq_true, Bool.not_eq_true', isText, Bool.and_true] at ha
      rw [addKid_text_merge, nfKids_snoc, ha.1.1, ha.2]
      have : nfNode (.text (t ++ s)) = true := by
        have h1 := ha.1.2
        rw [nfNode] at h1 ⊢
        cases t with
        | nil => cases h1
        | cons _ _ => rfl
      rw [this]; rfl
  | elt nm a ks => rw [addKid_not_text acc (.elt nm a ks) rfl, nfKids_snoc, ha, hn]; simp [isText]
  | cdata ks => rw [nfNode] at hn; cases hn
  | tree l cs r => rw [nfNode] at hn; cases hn

theorem nfKids_addChars (acc : List Node) (s : Bytes) (ha : nfKids acc = true) : nfKids (addChars acc s) = true := by
  unfold addChars
  split
  · exact ha
  · rename_i h
    exact nfKids_addKid acc _ ha (by rw [nfNode]; simpa using h)

mutual
theorem nf_nodeOfElem (c : Ctx) : ∀ (e : Elem) (pg : Pages), nfNode (nodeOfElem c pg e) = true
  | .mk sw tag attrs content, pg => by
    rw [nodeOfElem_mk, nfNode]; exact nf_kidsOfContent c content _ _ [] nfKids_nil
theorem nf_kidsOfContent (c : Ctx) : ∀ (content : Option (List Item)) (own : Option TagRow) (pg : Pages)
    (acc : List Node), nfKids acc = true → nfKids (kidsOfContent c own pg content acc) = true
  | none, own, pg, acc, h => by rw [kidsOfContent_none]; exact h
  | some items, own, pg, acc, h => by rw [kidsOfContent_some]; exact nf_kidsOfItems c items own pg acc h
theorem nf_kidsOfItems (c : Ctx) : ∀ (items : List Item) (own : Option TagRow) (pg : Pages)
    (acc : List Node), nfKids acc = true → nfKids (kidsOfItems c own pg items acc) = true
  | [], own, pg, acc, h => by rw [kidsOfItems_nil]; exact h
  | it :: more, own, pg, acc, h => by
    rw [kidsOfItems_cons]; exact nf_kidsOfItems c more own _ _ (nf_kidOfItem c it own pg acc h)
theorem nf_kidOfItem (c : Ctx) : ∀ (it : Item) (own : Option TagRow) (pg : Pages)
    (acc : List Node), nfKids acc = true → nfKids (kidOfItem c own pg it acc) = true
  | .elem e, own, pg, acc, h => by rw [kidOfItem_elem]; exact nfKids_addKid acc _ h (nf_nodeOfElem c e pg)
  | .str s, own, pg, acc, h => by rw [kidOfItem_str]; exact nfKids_addChars acc _ h
  | .entity code, own, pg, acc, h => by rw [kidOfItem_entity]; exact nfKids_addChars acc _ h
  | .opaque d, own, pg, acc, h => by rw [kidOfItem_opaque]; exact nfKids_addChars acc _ h
  | .ext sw x, own, pg, acc, h => by rw [kidOfItem_ext]; exact nfKids_addChars acc _ h
  | .pi p, own, pg, acc, h => by rw [kidOfItem_pi]; exact h
end

mutual
theorem nf_normNode (c : WCfg) : ∀ (n : Node), plainNode n = true → isText n = false → nfNode (normNode c n) = true
  | .elt name attrs kids, hp, _ => by
    rw [plainNode] at hp
    rw [normNode_elt, nfNode]; exact nf_normKidsAcc c kids [] hp nfKids_nil
  | .text s, _, ht => by cases ht
  | .cdata kids, hp, _ => by rw [plainNode] at hp; cases hp
  | .tree l cs r, hp, _ => by rw [plainNode] at hp; cases hp
theorem nf_normKidsAcc (c : WCfg) : ∀ (kids acc : List Node), plainNodes kids = true → nfKids acc = true →
    nfKids (normKidsAcc c kids acc) = true
  | [], acc, _, h => by rw [normKidsAcc_nil]; exact h
  | k :: rest, acc, hp, h => by
    rw [plainNodes, Bool.and_eq_true] at hp
    rw [normKidsAcc_cons]
    refine nf_normKidsAcc c rest _ hp.2 ?_
    cases k with
    | text s => rw [normNode_text]; exact nfKids_addChars acc _ h
    | elt nm a ks =>
      have := nf_normNode c (.elt nm a ks) hp.1 rfl
      rw [normNode_elt] at this ⊢
      exact nfKids_addKid acc _ h this
    | cdata ks => have := hp.1; rw [plainNode] at this; cases this
    | tree l cs r => have := hp.1; rw [plainNode] at this; cases this
end


/-! ### Trees in normal form are determined by their view, up to the representation of names -/

def canonName (n : Name) : Name := .literal n.xmlName

def canonAttr (a : Attr) : Attr := { name := .literal a.name.xmlName, value := a.value }

mutual
/-- Forget whether a name is a token or a literal: every element and attribute name becomes the
    literal with the same XML name. Nothing else changes. -/
def canon : Node → Node
  | .elt n a kids => .elt (canonName n) (a.map canonAttr) (canonL kids)
  | .text s => .text s
  | .cdata kids => .cdata kids
  | .tree l cs r => .tree l cs r
def canonL : List Node → List Node
  | [] => []
  | k :: r => canon k :: canonL r
end

theorem canon_elt (n a kids) : canon (.elt n a kids) = .elt (canonName n) (a.map canonAttr) (canonL kids) := by rw [canon]
theorem canon_text (s) : canon (.text s) = .text s := by rw [canon]
theorem canonL_nil : canonL [] = [] := by rw [canonL]
theorem canonL_cons (k r) : canonL (k :: r) = canon k :: canonL r := by rw [canonL]

def attrOfView (p : Bytes × Bytes) : Attr := { name := .literal p.1, value := p.2 }

theorem canonAttr_view (a : Attr) : canonAttr a = attrOfView (attrView a) := rfl

theorem map_canonAttr (l : List Attr) : l.map canonAttr = (l.map attrView).map attrOfView := by
  rw [List.map_map]; rfl

def isStop : Tok → Bool
  | .stop _ => true
  | _ => false

/-- What may follow a child list: nothing, or the end of the enclosing element. -/
def Closing (r : List Tok) : Prop := ∀ x r', r = x :: r' → isStop x = true

def NoCh (l : List Tok) : Prop := ∀ b r, l ≠ .ch b :: r

theorem chars_inj : ∀ (s s' : Bytes) (X Y : List Tok), NoCh X → NoCh Y →
    s.map Tok.ch ++ X = s'.map Tok.ch ++ Y → s = s' ∧ X = Y
  | [], [], X, Y, _, _, h => ⟨rfl, by simpa using h⟩
  | [], b :: s', X, Y, hx, _, h => by
    simp only [List.map_nil, List.nil_append, List.map_cons, List.cons_append] at h
    exact absurd h (hx b _)
  | b :: s, [], X, Y, _, hy, h => by
    simp only [List.map_nil, List.nil_append, List.map_cons, List.cons_append] at h
    exact absurd h.symm (hy b _)
  | b :: s, b' :: s', X, Y, hx, hy, h => by
    simp only [List.map_cons, List.cons_append, List.cons.injEq, Tok.ch.injEq] at h
    obtain ⟨h1, h2⟩ := chars_inj s s' X Y hx hy h.2
    exact ⟨by rw [h.1, h1], h2⟩

theorem ntoks_head_elt (n a kids) : ∃ r, ntoks (.elt n a kids) = .start n.xmlName (a.map attrView) :: r := by
  rw [ntoks_elt]; exact ⟨_, rfl⟩

theorem ntoks_head_text (s : Bytes) (h : nfNode (.text s) = true) : ∃ b r, ntoks (.text s) = .ch b :: r := by
  rw [nfNode] at h
  cases s with
  | nil => cases h
  | cons b s => exact ⟨b, s.map .ch, by rw [ntoks_text]; rfl⟩

/-- A child in normal form starts with a `start` or a `ch`, never with a `stop`. -/
theorem ntoks_head (k : Node) (h : nfNode k = true) : ∃ x r, ntoks k = x :: r ∧ isStop x = false := by
  cases k with
  | elt n a kids => obtain ⟨r, hr⟩ := ntoks_head_elt n a kids; exact ⟨_, r, hr, rfl⟩
  | text s => obtain ⟨b, r, hr⟩ := ntoks_head_text s h; exact ⟨_, r, hr, rfl⟩
  | cdata ks => rw [nfNode] at h; cases h
  | tree l cs r => rw [nfNode] at h; cases h

theorem noCh_after (K : List Node) (r : List Tok) (hK : nfKids K = true) (hh : headText K = false)
    (hr : Closing r) : NoCh (ntoksL K ++ r) := by
  intro b r' heq
  cases K with
  | nil =>
    rw [ntoksL_nil, List.nil_append] at heq
    have := hr _ _ heq
    cases this
  | cons k K' =>
    rw [nfKids_cons] at hK
    simp only [Bool.and_eq_true] at hK
    cases k with
    | elt n a kids =>
      rw [ntoksL_cons, ntoks_elt] at heq
      simp only [List.cons_append, List.cons.injEq] at heq
      exact absurd heq.1 (by intro h; cases h)
    | text s => simp [headText, isText] at hh
    | cdata ks => have := hK.1.1; rw [nfNode] at this; cases this
    | tree l cs r0 => have := hK.1.1; rw [nfNode] at this; cases this

theorem closing_stop (n : Bytes) (r : List Tok) : Closing (.stop n :: r) := by
  intro x r' h
  simp only [List.cons.injEq] at h
  rw [← h.1]; rfl

mutual
theorem ntoks_inj_node : ∀ (a b : Node) (ra rb : List Tok), nfNode a = true → nfNode b = true →
    isText a = false → isText b = false → ntoks a ++ ra = ntoks b ++ rb → canon a = canon b ∧ ra = rb
  | .elt na aa ksa, b, ra, rb, ha, hb, _, htb, h => by
    cases b with
    | text s => cases htb
    | cdata ks => rw [nfNode] at hb; cases hb
    | tree l cs r => rw [nfNode] at hb; cases hb
    | elt nb ab ksb =>
      rw [nfNode] at ha hb
      rw [ntoks_elt, ntoks_elt] at h
      simp only [List.cons_append, List.cons.injEq, Tok.start.injEq, List.append_assoc] at h
      obtain ⟨⟨hn, hattrs⟩, hrest⟩ := h
      obtain ⟨hk, hr⟩ := ntoks_inj_kids ksa ksb _ _ ha hb (closing_stop _ _) (closing_stop _ _) hrest
      simp only [List.cons.injEq] at hr
      refine ⟨?_, hr.2⟩
      rw [canon_elt, canon_elt, hk, map_canonAttr, map_canonAttr, hattrs]
      simp only [canonName, hn]
  | .text s, _, _, _, _, _, hta, _, _ => by cases hta
  | .cdata ks, _, _, _, ha, _, _, _, _ => by rw [nfNode] at ha; cases ha
  | .tree l cs r, _, _, _, ha, _, _, _, _ => by rw [nfNode] at ha; cases ha
theorem ntoks_inj_kids : ∀ (ka kb : List Node) (ra rb : List Tok), nfKids ka = true → nfKids kb = true →
    Closing ra → Closing rb → ntoksL ka ++ ra = ntoksL kb ++ rb → canonL ka = canonL kb ∧ ra = rb
  | [], kb, ra, rb, _, hb, hra, _, h => by
    cases kb with
    | nil => rw [ntoksL_nil] at h; exact ⟨rfl, by simpa using h⟩
    | cons k kb' =>
      rw [nfKids_cons] at hb
      simp only [Bool.and_eq_true] at hb
      obtain ⟨x, r, hx, hs⟩ := ntoks_head k hb.1.1
      rw [ntoksL_nil, List.nil_append, ntoksL_cons, hx] at h
      have := hra x _ (by rw [h]; rfl)
      rw [hs] at this; cases this
  | a :: ka', kb, ra, rb, ha, hb, hra, hrb, h => by
    rw [nfKids_cons] at ha
    simp only [Bool.and_eq_true, Bool.not_eq_true'] at ha
    cases kb with
    | nil =>
      obtain ⟨x, r, hx, hs⟩ := ntoks_head a ha.1.1
      rw [ntoksL_nil, List.nil_append, ntoksL_cons, hx] at h
      have := hrb x _ (by rw [← h]; rfl)
      rw [hs] at this; cases this
    | cons b kb' =>
      rw [nfKids_cons] at hb
      simp only [Bool.and_eq_true, Bool.not_eq_true'] at hb
      rw [ntoksL_cons, ntoksL_cons, List.append_assoc, List.append_assoc] at h
      cases hta : isText a with
      | false =>
        cases htb : isText b with
        | false =>
          obtain ⟨hc, hr⟩ := ntoks_inj_node a b _ _ ha.1.1 hb.1.1 hta htb h
          obtain ⟨hc2, hr2⟩ := ntoks_inj_kids ka' kb' ra rb ha.2 hb.2 hra hrb hr
          exact ⟨by rw [canonL_cons, canonL_cons, hc, hc2], hr2⟩
        | true =>
          cases b with
          | text s' =>
            obtain ⟨b0, r0, hb0⟩ := ntoks_head_text s' hb.1.1
            cases a with
            | elt na aa ksa =>
              rw [ntoks_elt, hb0] at h
              simp only [List.cons_append, List.cons.injEq] at h
              exact absurd h.1 (by intro hh; cases hh)
            | text s => cases hta
            | cdata ks => have := ha.1.1; rw [nfNode] at this; cases this
            | tree l cs r => have := ha.1.1; rw [nfNode] at this; cases this
          | elt _ _ _ => cases htb
          | cdata _ => cases htb
          | tree _ _ _ => cases htb
      | true =>
        cases a with
        | text s =>
          obtain ⟨a0, r0, ha0⟩ := ntoks_head_text s ha.1.1
          cases b with
          | text s' =>
            rw [ntoks_text, ntoks_text] at h
            have h1 : headText ka' = false := by simpa [isText] using ha.1.2
            have h2 : headText kb' = false := by simpa [isText] using hb.1.2
            obtain ⟨hs, hr⟩ := chars_inj s s' _ _ (noCh_after ka' ra ha.2 h1 hra) (noCh_after kb' rb hb.2 h2 hrb) h
            obtain ⟨hc2, hr2⟩ := ntoks_inj_kids ka' kb' ra rb ha.2 hb.2 hra hrb hr
            exact ⟨by rw [canonL_cons, canonL_cons, hs, hc2], hr2⟩
          | elt nb ab ksb =>
            rw [ntoks_elt, ha0] at h
            simp only [List.cons_append, List.cons.injEq] at h
            exact absurd h.1 (by intro hh; cases hh)
          | cdata ks => have := hb.1.1; rw [nfNode] at this; cases this
          | tree l cs r => have := hb.1.1; rw [nfNode] at this; cases this
        | elt _ _ _ => cases hta
        | cdata _ => cases hta
        | tree _ _ _ => cases hta
end

/-- **Two elements in normal form with the same view are the same tree up to the representation
    of names.** -/
theorem canon_eq_of_ntoks (a b : Node) (ha : nfNode a = true) (hb : nfNode b = true)
    (hta : isText a = false) (htb : isText b = false) (h : ntoks a = ntoks b) : canon a = canon b :=
  (ntoks_inj_node a b [] [] ha hb hta htb (by rw [List.append_nil, List.append_nil, h])).1


mutual
/-- `canon` does not change the view. -/
theorem ntoks_canon : ∀ (n : Node), ntoks (canon n) = ntoks n
  | .elt name attrs kids => by
    rw [canon_elt, ntoks_elt, ntoks_elt, ntoksL_canonL kids, List.map_map]
    rfl
  | .text s => by rw [canon_text]
  | .cdata kids => by rw [canon]
  | .tree l cs r => by rw [canon]
theorem ntoksL_canonL : ∀ (ks : List Node), ntoksL (canonL ks) = ntoksL ks
  | [] => by rw [canonL_nil]
  | k :: r => by rw [canonL_cons, ntoksL_cons, ntoksL_cons, ntoks_canon k, ntoksL_canonL r]
end

/-! ### The normalised tree is its own canonical form -/

theorem addKid_all {P : Node → Prop} (acc : List Node) (n : Node) (ht : ∀ s, P (.text s))
    (ha : ∀ k ∈ acc, P k) (hn : P n) : ∀ k ∈ addKid acc n, P k := by
  have snoc : ∀ k ∈ acc ++ [n], P k := by
    intro k hk
    rcases List.mem_append.mp hk with hk | hk
    · exact ha k hk
    · simp only [List.mem_singleton] at hk; subst hk; exact hn
  cases n with
  | text s =>
    cases hl : lastText acc with
    | false => rw [addKid_text_after _ _ hl]; exact snoc
    | true =>
      obtain ⟨pre, t, rfl⟩ := lastText_split acc hl
      rw [addKid_text_merge]
      intro k hk
      rcases List.mem_append.mp hk with hk | hk
      · exact ha k (List.mem_append_left _ hk)
      · simp only [List.mem_singleton] at hk; subst hk; exact ht _
  | elt nm a ks => rw [addKid_not_text acc (.elt nm a ks) rfl]; exact snoc
  | cdata ks => rw [addKid_not_text acc (.cdata ks) rfl]; exact snoc
  | tree l cs r => rw [addKid_not_text acc (.tree l cs r) rfl]; exact snoc

theorem addN_all {P : Node → Prop} (acc : List Node) (n : Node) (ht : ∀ s, P (.text s))
    (ha : ∀ k ∈ acc, P k) (hn : P n) : ∀ k ∈ addN acc n, P k := by
  cases n with
  | text s =>
    simp only [addN, addChars]
    split
    · exact ha
    · exact addKid_all acc _ ht ha hn
  | elt nm a ks => exact addKid_all acc (.elt nm a ks) ht ha hn
  | cdata ks => exact addKid_all acc (.cdata ks) ht ha hn
  | tree l cs r => exact addKid_all acc (.tree l cs r) ht ha hn

theorem canonL_fixed : ∀ (l : List Node), (∀ k ∈ l, canon k = k) → canonL l = l
  | [], _ => canonL_nil
  | k :: r, h => by
    rw [canonL_cons, h k (by simp), canonL_fixed r (fun x hx => h x (List.mem_cons_of_mem _ hx))]

theorem normAttrs_canon (c : WCfg) (attrs : List Attr) : (normAttrs c attrs).map canonAttr = normAttrs c attrs := by
  unfold normAttrs
  split
  · rw [List.map_map]; rfl
  · rfl

mutual
theorem canon_normNode (c : WCfg) : ∀ (n : Node), canon (normNode c n) = normNode c n
  | .elt name attrs kids => by
    rw [normNode_elt, canon_elt, normAttrs_canon,
      canonL_fixed _ (canon_normKidsAcc c kids [] (fun _ h => by cases h))]
    rfl
  | .text s => by rw [normNode_text, canon_text]
  | .cdata kids => by rw [normNode_cdata, canon]
  | .tree l cs r => by rw [normNode_tree, canon]
theorem canon_normKidsAcc (c : WCfg) : ∀ (kids acc : List Node), (∀ k ∈ acc, canon k = k) →
    ∀ k ∈ normKidsAcc c kids acc, canon k = k
  | [], acc, h => by rw [normKidsAcc_nil]; exact h
  | k :: rest, acc, h => by
    rw [normKidsAcc_cons]
    exact canon_normKidsAcc c rest _ (addN_all acc _ canon_text h (canon_normNode c k))
end

/-! ### No element called `Data` -/

def noDataTok : Tok → Bool
  | .start n _ => !(n == dataName)
  | _ => true

def noDataToks (l : List Tok) : Bool := l.all noDataTok

theorem noDataEvents_toks : ∀ (es : List Event), noDataEvents es = noDataToks (es.flatMap toks)
  | [] => rfl
  | e :: es => by
    rw [noDataEvents_cons, noDataEvents_toks es]
    simp only [noDataToks, List.flatMap_cons, List.all_append]
    congr 1
    cases e <;> simp [noDataEvent, toks, noDataTok]

mutual
/-- No element of the tree is called `Data` (the name that triggers the SyncML content-type
    look-up of `wbxml_tree_node_get_syncml_data_type`, in every language). -/
def noDataNode : Node → Bool
  | .elt n _ kids => !(n.cName == dataName) && noDataNodes kids
  | .text _ => true
  | .cdata _ => true
  | .tree _ _ _ => true
def noDataNodes : List Node → Bool
  | [] => true
  | k :: r => noDataNode k && noDataNodes r
end

mutual
theorem noData_srcToks (c : WCfg) : ∀ (n : Node), noDataToks (srcToks c n) = noDataNode n
  | .elt name attrs kids => by
    rw [srcToks, noDataNode]
    simp only [noDataToks, List.all_cons, List.all_append, List.all_nil, noDataTok, Bool.and_true]
    have := noData_srcToksL c kids
    simp only [noDataToks] at this
    rw [this]
  | .text s => by
    rw [srcToks, noDataNode]
    simp [noDataToks, noDataTok]
  | .cdata kids => by rw [srcToks, noDataNode]; rfl
  | .tree l cs r => by rw [srcToks, noDataNode]; rfl
theorem noData_srcToksL (c : WCfg) : ∀ (l : List Node), noDataToks (srcToksL c l) = noDataNodes l
  | [] => by rw [srcToksL, noDataNodes]; rfl
  | k :: r => by
    rw [srcToksL, noDataNodes, ← noData_srcToks c k, ← noData_srcToksL c r]
    simp only [noDataToks, List.all_append]
end


/-! ### The view of a document's events is the view of its root -/

theorem evPis_toks (c : Ctx) : ∀ (ps : List Attribute) (ap : Nat), (evPis c ap ps).1.flatMap toks = []
  | [], _ => rfl
  | p :: ps, ap => by
    simp only [evPis, List.flatMap_cons, evPis_toks c ps, List.append_nil]
    unfold evPi
    rfl

theorem events_toks (cfg : PCfg) (d : Doc) (l : Lang) (hl : headerLang cfg d.hdr = some l) :
    (Spec.events cfg d).flatMap toks = ntoks (rootOfDoc cfg d l) := by
  unfold Spec.events rootOfDoc
  rw [hl, ntoks_nodeOfElem]
  simp only [List.flatMap_cons, List.flatMap_append, evPis_toks, toks, List.nil_append, List.append_nil,
    List.flatMap_nil]

theorem isText_nodeOfElem (c : Ctx) (pg : Pages) (e : Elem) : isText (nodeOfElem c pg e) = false := by
  cases e with
  | mk sw tag attrs content => rw [nodeOfElem_mk]; rfl

theorem isText_of_isElt (n : Node) (h : isElt n = true) : isText n = false := by
  cases n <;> first | rfl | cases h


/-! ### Idempotence in every language, for trees without adjacent text nodes

  In the SyncML languages `normText` rewrites the DevInf / DM-tree media types, and a text that
  only becomes such a type after the reader has merged two text nodes is rewritten by the SECOND
  pass (`norm_not_idempotent_syncml`). A tree without adjacent text siblings — what both tree
  builders deliver — never has anything merged, and the normalisation is idempotent there in
  every language. -/

def mimeA : Bytes := b!"application/vnd.syncml-devinf+xml"
def mimeA' : Bytes := b!"application/vnd.syncml-devinf+wbxml"
def mimeB : Bytes := b!"application/vnd.syncml.dmtnds+xml"
def mimeB' : Bytes := b!"application/vnd.syncml.dmtnds+wbxml"

theorem syncmlTypeText_cases (id : Nat) (s : Bytes) :
    syncmlTypeText id s = s ∨ syncmlTypeText id s = mimeA' ∨ syncmlTypeText id s = mimeB' := by
  unfold syncmlTypeText
  split
  · simp only
    split
    · exact Or.inr (Or.inr rfl)
    · split
      · exact Or.inr (Or.inl rfl)
      · exact Or.inl rfl
  · exact Or.inl rfl

theorem syncmlTypeText_idem (id : Nat) (s : Bytes) : syncmlTypeText id (syncmlTypeText id s) = syncmlTypeText id s := by
  have hA' : syncmlTypeText id mimeA' = mimeA' := by
    unfold syncmlTypeText
    have h1 : caseEq mimeA' b!"application/vnd.syncml-devinf+xml" = false := by decide
    have h2 : caseEq mimeA' b!"application/vnd.syncml.dmtnds+xml" = false := by decide
    split
    · simp only [h1, h2, Bool.false_eq_true, ↓reduceIte]
    · rfl
  have hB' : syncmlTypeText id mimeB' = mimeB' := by
    unfold syncmlTypeText
    have h1 : caseEq mimeB' b!"application/vnd.syncml-devinf+xml" = false := by decide
    have h2 : caseEq mimeB' b!"application/vnd.syncml.dmtnds+xml" = false := by decide
    split
    · simp only [h1, h2, Bool.false_eq_true, ↓reduceIte]
    · rfl
  cases hs : isSyncml id with
  | false => rw [syncmlTypeText_of_not _ _ hs, syncmlTypeText_of_not _ _ hs]
  | true =>
    by_cases hb : caseEq s b!"application/vnd.syncml.dmtnds+xml" = true
    · have : syncmlTypeText id s = mimeB' := by unfold syncmlTypeText; simp only [hs, hb, ↓reduceIte]; rfl
      rw [this, hB']
    · by_cases ha : caseEq s b!"application/vnd.syncml-devinf+xml" = true
      · have : syncmlTypeText id s = mimeA' := by
          unfold syncmlTypeText; simp only [hs, hb, ha, ↓reduceIte, Bool.false_eq_true]; rfl
        rw [this, hA']
      · have : syncmlTypeText id s = s := by
          unfold syncmlTypeText; simp only [hs, hb, ha, ↓reduceIte, Bool.false_eq_true]
        rw [this, this]

theorem solid_of_checks (c : WCfg) (t : Bytes) (h1 : t.isEmpty = false) (h2 : nulFree t = true)
    (h3 : stripBlanks t = t) (h4 : t.all isSpaceC = false) : Solid c t :=
  ⟨(by intro h; rw [h] at h1; cases h1), h2, fun _ => h3 ▸ trim_strip t, fun _ => h4⟩

theorem syncmlTypeText_solid (c : WCfg) (t : Bytes) (h : Solid c t) : Solid c (syncmlTypeText c.lang.id t) := by
  rcases syncmlTypeText_cases c.lang.id t with e | e | e
  · rw [e]; exact h
  · rw [e]; exact solid_of_checks c mimeA' (by decide) (by decide) (by decide) (by decide)
  · rw [e]; exact solid_of_checks c mimeB' (by decide) (by decide) (by decide) (by decide)

/-- Solid, and a fixed point of the media-type rewriting. -/
structure SolidS (c : WCfg) (t : Bytes) : Prop where
  sol : Solid c t
  syn : syncmlTypeText c.lang.id t = t

theorem normText_of_solidS (c : WCfg) (t : Bytes) (h : SolidS c t) : normText c t = t := by
  unfold normText
  have h1 : (c.ignoreEmpty && t.all isSpaceC) = false := by
    cases hi : c.ignoreEmpty with
    | false => rfl
    | true => rw [h.sol.nb hi]; rfl
  rw [h1]
  simp only [Bool.false_eq_true, ↓reduceIte]
  have h2 : (if c.removeBlanks = true then stripBlanks t else t) = t := by
    split
    · rename_i hr; exact strip_of_trim t (h.sol.trim hr)
    · rfl
  rw [h2, cstrOf_of_nulFree t h.sol.nf, h.syn]

theorem syncmlTypeText_nil (id : Nat) : syncmlTypeText id [] = [] := by
  unfold syncmlTypeText
  split
  · have h1 : caseEq [] b!"application/vnd.syncml-devinf+xml" = false := by decide
    have h2 : caseEq [] b!"application/vnd.syncml.dmtnds+xml" = false := by decide
    simp only [h1, h2, Bool.false_eq_true, ↓reduceIte]
  · rfl

theorem normText_nil' (c : WCfg) : normText c [] = [] := by
  unfold normText
  split
  · rfl
  · have : (if c.removeBlanks = true then stripBlanks ([] : Bytes) else []) = [] := by split <;> rfl
    rw [this]
    exact syncmlTypeText_nil _

/-- In every language, normalised NUL-free character data is empty or solid and a fixed point of
    the media-type rewriting. -/
theorem normText_solidS (c : WCfg) (s : Bytes) (hn : nulFree s = true) :
    normText c s = [] ∨ SolidS c (normText c s) := by
  unfold normText
  split
  · exact Or.inl rfl
  · rename_i hskip
    have hnf : nulFree (if c.removeBlanks = true then stripBlanks s else s) = true := by
      split
      · exact nulFree_strip s hn
      · exact hn
    rw [cstrOf_of_nulFree _ hnf]
    by_cases he : (if c.removeBlanks = true then stripBlanks s else s) = []
    · rw [he]; exact Or.inl (syncmlTypeText_nil _)
    · have hsol : Solid c (if c.removeBlanks = true then stripBlanks s else s) := by
        refine ⟨he, hnf, ?_, ?_⟩
        · intro hr; simp only [hr, ↓reduceIte]; exact trim_strip s
        · intro hi
          have hsp : s.all isSpaceC = false := by
            cases hsp : s.all isSpaceC with
            | false => rfl
            | true => rw [hi, hsp] at hskip; exact absurd rfl hskip
          by_cases hr : c.removeBlanks = true
          · simp only [hr, ↓reduceIte] at he ⊢
            cases hh : (stripBlanks s).head? with
            | none => rw [List.head?_eq_none_iff] at hh; exact absurd hh he
            | some x => exact all_false_of_head _ x hh ((trim_strip s).1 x hh)
          · simp only [hr, Bool.false_eq_true, ↓reduceIte]; exact hsp
      exact Or.inr ⟨syncmlTypeText_solid c _ hsol, syncmlTypeText_idem _ _⟩

def StableNS (c : WCfg) (k : Node) : Prop :=
  match k with
  | .text t => SolidS c t
  | k => normNode c k = k

def NOutS (c : WCfg) (k : Node) : Prop :=
  match k with
  | .text t => t = [] ∨ SolidS c t
  | k => normNode c k = k

structure StableS (c : WCfg) (K : List Node) : Prop where
  nodes : ∀ k ∈ K, StableNS c k
  adj : noAdj K = true

theorem StableS.snoc {c : WCfg} {K : List Node} {k : Node} (h : StableS c K) (hk : StableNS c k)
    (ha : (lastText K && isText k) = false) : StableS c (K ++ [k]) :=
  ⟨fun x hx => by
      rcases List.mem_append.mp hx with hx | hx
      · exact h.nodes x hx
      · simp only [List.mem_singleton] at hx; subst hx; exact hk,
   by rw [noAdj_snoc, h.adj, ha]; rfl⟩

/-- Appending a normalised child when nothing gets merged. -/
theorem addN_stableS {c : WCfg} {acc : List Node} {n : Node} (h : StableS c acc) (hn : NOutS c n)
    (hm : isText n = true → lastText acc = false) : StableS c (addN acc n) := by
  cases n with
  | text t =>
    simp only [addN, addChars]
    rcases hn with rfl | hs
    · exact h
    · have hne : t.isEmpty = false := by cases t with | nil => exact absurd rfl hs.sol.ne | cons _ _ => rfl
      simp only [hne, Bool.false_eq_true, ↓reduceIte]
      have hl := hm rfl
      rw [addKid_text_after _ _ hl]
      exact h.snoc hs (by rw [hl]; rfl)
  | elt nm a ks =>
    show StableS c (addKid acc (.elt nm a ks))
    rw [addKid_not_text acc (.elt nm a ks) rfl]
    exact h.snoc hn (by simp [isText])
  | cdata ks =>
    show StableS c (addKid acc (.cdata ks))
    rw [addKid_not_text acc (.cdata ks) rfl]
    exact h.snoc hn (by simp [isText])
  | tree l cs r =>
    show StableS c (addKid acc (.tree l cs r))
    rw [addKid_not_text acc (.tree l cs r) rfl]
    exact h.snoc hn (by simp [isText])

theorem normKidsAcc_stableS (c : WCfg) : ∀ (K acc : List Node), StableS c K →
    (lastText acc && headText K) = false → normKidsAcc c K acc = acc ++ K
  | [], acc, _, _ => by rw [normKidsAcc_nil, List.append_nil]
  | k :: K, acc, h, ha => by
    rw [normKidsAcc_cons]
    have hk : StableNS c k := h.nodes k (by simp)
    have hadj := h.adj
    rw [noAdj] at hadj
    simp only [Bool.and_eq_true, Bool.not_eq_true'] at hadj
    have hK : StableS c K := ⟨fun x hx => h.nodes x (List.mem_cons_of_mem _ hx), hadj.2⟩
    have hstep : addN acc (normNode c k) = acc ++ [k] := by
      cases k with
      | text t =>
        have hsol : SolidS c t := hk
        rw [normNode_text, normText_of_solidS c t hsol]
        have hne : t.isEmpty = false := by cases t with | nil => exact absurd rfl hsol.sol.ne | cons _ _ => rfl
        simp only [addN, addChars, hne, Bool.false_eq_true, ↓reduceIte]
        exact addKid_text_after _ _ (by simpa [headText, isText] using ha)
      | elt nm a ks =>
        have : normNode c (.elt nm a ks) = .elt nm a ks := hk
        rw [this]; exact addKid_not_text acc (.elt nm a ks) rfl
      | cdata ks => rw [normNode_cdata]; exact addKid_not_text acc (.cdata ks) rfl
      | tree l cs r => rw [normNode_tree]; exact addKid_not_text acc (.tree l cs r) rfl
    rw [hstep, normKidsAcc_stableS c K (acc ++ [k]) hK (by rw [lastText_snoc]; exact hadj.1), List.append_assoc]
    rfl

mutual
/-- No two adjacent text siblings anywhere outside CDATA sections and embedded documents. -/
def mergedNode : Node → Bool
  | .elt _ _ kids => noAdj kids && mergedL kids
  | .text _ => true
  | .cdata _ => true
  | .tree _ _ _ => true
def mergedL : List Node → Bool
  | [] => true
  | k :: r => mergedNode k && mergedL r
end

theorem isText_normNode (c : WCfg) (n : Node) : isText (normNode c n) = isText n := by
  cases n with
  | elt nm a ks => rw [normNode_elt]; rfl
  | text s => rw [normNode_text]; rfl
  | cdata ks => rw [normNode_cdata]
  | tree l cs r => rw [normNode_tree]

theorem lastText_addN_nontext (acc : List Node) (n : Node) (h : isText n = false) : lastText (addN acc n) = false := by
  cases n with
  | text s => cases h
  | elt nm a ks =>
    show lastText (addKid acc (.elt nm a ks)) = false
    rw [addKid_not_text acc (.elt nm a ks) rfl, lastText_snoc]; rfl
  | cdata ks =>
    show lastText (addKid acc (.cdata ks)) = false
    rw [addKid_not_text acc (.cdata ks) rfl, lastText_snoc]; rfl
  | tree l cs r =>
    show lastText (addKid acc (.tree l cs r)) = false
    rw [addKid_not_text acc (.tree l cs r) rfl, lastText_snoc]; rfl

mutual
theorem normNode_outS (c : WCfg) : ∀ (n : Node), textsNulFree n = true → mergedNode n = true → NOutS c (normNode c n)
  | .elt name attrs kids, h, hm => by
    rw [textsNulFree] at h
    rw [mergedNode, Bool.and_eq_true] at hm
    rw [normNode_elt]
    show normNode c _ = _
    have hK := normKids_outS c kids [] h hm.1 hm.2 ⟨fun _ hx => (by cases hx), rfl⟩ (fun hl => by cases hl)
    rw [normNode_elt, normName_idem, normAttrs_idem, normKidsAcc_stableS c _ [] hK rfl, List.nil_append]
  | .text s, h, _ => by
    rw [textsNulFree] at h
    rw [normNode_text]
    exact normText_solidS c s h
  | .cdata kids, _, _ => by rw [normNode_cdata]; exact normNode_cdata c kids
  | .tree l cs r, _, _ => by rw [normNode_tree]; exact normNode_tree c l cs r
theorem normKids_outS (c : WCfg) : ∀ (kids acc : List Node), textsNulFreeL kids = true → noAdj kids = true →
    mergedL kids = true → StableS c acc → (lastText acc = true → headText kids = false) →
    StableS c (normKidsAcc c kids acc)
  | [], acc, _, _, _, ha, _ => by rw [normKidsAcc_nil]; exact ha
  | k :: rest, acc, h, hadj, hm, ha, hinv => by
    rw [textsNulFreeL, Bool.and_eq_true] at h
    rw [mergedL, Bool.and_eq_true] at hm
    rw [noAdj] at hadj
    simp only [Bool.and_eq_true, Bool.not_eq_true'] at hadj
    rw [normKidsAcc_cons]
    have hno : isText (normNode c k) = true → lastText acc = false := by
      intro ht
      rw [isText_normNode] at ht
      cases hl : lastText acc with
      | false => rfl
      | true => have := hinv hl; simp [headText, ht] at this
    refine normKids_outS c rest _ h.2 hadj.2 hm.2 (addN_stableS ha (normNode_outS c k h.1 hm.1) hno) ?_
    intro hl
    cases hk : isText k with
    | true => simpa [hk] using hadj.1
    | false =>
      rw [lastText_addN_nontext acc _ (by rw [isText_normNode]; exact hk)] at hl
      cases hl
end

/-- **Idempotence of the normalisation in every language** (SyncML included) for trees with
    NUL-free text and without adjacent text siblings. -/
theorem normNode_idem_merged (c : WCfg) (n : Node) (h : textsNulFree n = true) (hm : mergedNode n = true) :
    normNode c (normNode c n) = normNode c n := by
  have ho := normNode_outS c n h hm
  cases n with
  | elt name attrs kids => rw [normNode_elt] at ho ⊢; exact ho
  | text s =>
    rw [normNode_text] at ho ⊢
    rw [normNode_text]
    rcases ho with h0 | hsol
    · rw [h0, normText_nil' c]
    · rw [normText_of_solidS c _ hsol]
  | cdata kids => rw [normNode_cdata, normNode_cdata]
  | tree l cs r => rw [normNode_tree, normNode_tree]

/-! ### A Boolean comparison for examples -/

mutual
/-- `true` only for equal nodes without CDATA section / embedded document (`Node` has no
    `DecidableEq`; used by the `decide +kernel` examples). -/
def plainEq : Node → Node → Bool
  | .elt n a k, .elt n' a' k' => decide (n = n') && decide (a = a') && plainEqL k k'
  | .text s, .text s' => decide (s = s')
  | _, _ => false
def plainEqL : List Node → List Node → Bool
  | [], [] => true
  | x :: r, y :: r' => plainEq x y && plainEqL r r'
  | _, _ => false
end

end Wbxml.Lemmas.Rt
