/-
  C16 — the XML output half on the ledger, part C: `xml_build_result`, the node walk (`parse_node` in
  XML mode, by structural recursion over the tree, embedded trees with their second encoder
  included) and `wbxml_tree_to_xml`.
-/
import Wbxml.Lemmas.AllocXmlB
namespace Wbxml.Model.Alloc
open Wbxml
set_option linter.unusedSimpArgs false
set_option linter.unusedVariables false
set_option linter.unnecessarySimpa false

/-- `xml_build_result`: the encoder is only read; the header buffer never outlives the call; the
    result block is the only thing produced, and only with `WBXML_OK`. -/
theorem xmlBuildResult_spec (g : XGen) (l : XLang) (e : AEnc) (withHeader : Bool) (s : Ledger) (wf : s.WF)
    (hl : e.hdr ∈ s.live) (hout : ∀ o, e.output = some o → o.hdr ∈ s.live ∧ o.ok) :
    Good (xmlBuildResult g l e withHeader) s (fun r s' =>
      Clean s s' [] (ownedResult r.2) ∧ (r.1 ≠ OK → r.2 = none) ∧ (s.hits < s'.hits → r.1 ≠ OK)) := by
  unfold xmlBuildResult
  simp only [bind_eq, pure_eq]
  refine Good.bind (deref_spec e.hdr s hl) ?_
  intro _ s0 e0; have e0' := e0.symm; subst e0'
  refine Good.bind (bufCreate_spec (some []) XML_HEADER_BLOCK s wf) ?_
  intro header s1 ⟨c1, h1, hs1, ok1⟩
  have hh1 := c1.hits
  cases header with
  | none => exact good_ret.2 ⟨by simpa [ownedBufOpt, ownedResult] using c1, fun _ => rfl, fun _ => enomem_ne⟩
  | some header =>
    simp only
    have c1' : Clean s s1 [] header.owned := by simpa [ownedBufOpt] using c1
    have hno1 : ¬ s.hits < s1.hits := by intro hh; have := h1 hh; simp at this
    have hstep : Good (if withHeader = true then bufAppendAll header (headerChunks g l) else Prog.ret (header, true)) s1
        (BufStep header s1) := by
      split
      · exact bufAppendAll_spec _ header s1 c1.wf c1'.owns (ok1 header rfl)
      · exact good_ret.2 (BufStep.same c1.wf c1'.owns true)
    refine Good.bind hstep ?_
    intro r2 s2 hr2
    obtain ⟨h2, ok⟩ := r2
    obtain ⟨_, _, c2, hf2, k2⟩ := hr2
    simp only at c2 hf2 k2 ⊢
    have hh2 := c2.hits
    have cX2 : Clean s s2 [] h2.owned := Clean.trans_recycle wf c1' c2
    -- every exit destroys the header
    have hdestroy : ∀ (t : Ledger) (R : List Nat), Clean s t [] (h2.owned ++ R) →
        Good (bufDestroy (some h2)) t (fun _ t' => Clean s t' [] R ∧ t'.hits = t.hits) := by
      intro t R cT
      refine (bufDestroy_spec (some h2) t cT.wf (by simpa [ownedBufOpt] using cT.owns.left)).mono ?_
      intro _ t' ⟨d, hd, _⟩
      have d' : Clean t t' h2.owned [] := d
      exact ⟨by simpa using Clean.step_r R wf cT d', hd⟩
    cases ok with
    | false =>
      simp only [Bool.not_false, if_true]
      refine Good.bind (hdestroy s2 [] (by simpa using cX2)) ?_
      intro _ s3 ⟨cX3, _⟩
      exact good_ret.2 ⟨by simpa [ownedResult] using cX3, fun _ => rfl, fun _ => eappend_ne⟩
    | true =>
      simp only [Bool.not_true, Bool.false_eq_true, if_false]
      have hno2 : ¬ s1.hits < s2.hits := by intro hh; have := hf2 hh; simp at this
      refine Good.bind (malloc_spec s2 c2.wf) ?_
      intro r s3 ⟨c3, h3⟩
      have hh3 := c3.hits
      have cX3 : Clean s s3 [] (h2.owned ++ r.toList) := Clean.trans_prod cX2 c3
      cases r with
      | none =>
        simp only
        refine Good.bind (hdestroy s3 [] (by simpa using cX3)) ?_
        intro _ s4 ⟨cX4, _⟩
        exact good_ret.2 ⟨by simpa [ownedResult] using cX4, fun _ => rfl, fun _ => enomem_ne⟩
      | some r =>
        simp only [Option.toList] at cX3 ⊢
        have hno3 : ¬ s2.hits < s3.hits := by intro hh; have := h3 hh; simp at this
        refine Good.bind (bufCstr_spec h2 s3 (cX3.owns.2 _ (by simp [ABuf.owned]))) ?_
        intro hb s3' ⟨e3', hbs⟩; have e3'' := e3'.symm; subst e3''
        have hob : Good (match e.output with | none => Prog.ret (some ([] : Bytes)) | some o => bufCstr o) s3
            (fun r s' => s' = s3 ∧ r.isSome) := by
          cases ho : e.output with
          | none => simp [good_ret]
          | some o =>
            obtain ⟨hol, hok⟩ := hout o ho
            have : o.hdr ∈ s3.live := (cX3.live _).2 (Or.inl ⟨hol, by simp⟩)
            exact (bufCstr_spec o s3 this).mono fun r s' ⟨a, b⟩ => ⟨a, b hok⟩
        refine Good.bind hob ?_
        intro ob s3' ⟨e3', hobs⟩; have e3'' := e3'.symm; subst e3''
        refine Good.bind (hdestroy s3 [r] cX3) ?_
        intro _ s4 ⟨cX4, hd4⟩
        have hbs' := hbs (k2 (ok1 header rfl))
        obtain ⟨hbv, hhb⟩ : ∃ v, hb = some v := by cases hb <;> simp_all
        obtain ⟨obv, hob'⟩ : ∃ v, ob = some v := by cases ob <;> simp_all
        subst hhb; subst hob'
        refine good_ret.2 ⟨by simpa [ownedResult] using cX4, fun h => absurd rfl h, fun hh => ?_⟩
        exfalso; omega

/-- The text buffers of a tree stay live and outside the encoder across a step. -/
theorem bufs_step {B : List ABuf} {e e' : AEnc} {s s' : Ledger} {ret : Nat} (x : XStep e s e' ret s') (wf : s.WF)
    (hb : ∀ t ∈ B, t.hdr ∈ s.live ∧ t.hdr ∉ e.owned) : ∀ t ∈ B, t.hdr ∈ s'.live ∧ t.hdr ∉ e'.owned :=
  fun t ht => x.outside wf (hb t ht).1 (hb t ht).2

theorem bne_ok_false {r : Nat} (h : r ≠ OK) : (r != OK) = true := by simpa using h

mutual
/-- `parse_node` in XML mode, one node with everything below it. -/
theorem xmlNode_spec (g : XGen) : (n : XNode) → (l : XLang) → (e : AEnc) → (st : XSt) → (s : Ledger) → s.WF → EncReady e s →
    (∀ t ∈ n.bufs, t.hdr ∈ s.live ∧ t.hdr ∉ e.owned) →
    Good (xmlNode g l e st n) s (fun r s' => XStep e s r.1 r.2.2 s')
  | .elt name xmlns binary metType attrs kids, l, e, st, s, wf, rdy, hb => by
    unfold xmlNode
    simp only [bind_eq, pure_eq]
    refine Good.bind (appendAll_spec e EAPPEND eappend_ne _ s wf rdy) ?_
    intro r1 s1 x1
    obtain ⟨e1, ret1⟩ := r1
    simp only at x1 ⊢
    by_cases hr1 : ret1 = OK
    · subst hr1
      simp only [bne_self_eq_false, Bool.false_eq_true, if_false]
      refine Good.bind (xmlAttrs_spec g l attrs e1 s1 x1.clean.wf x1.ready) ?_
      intro r2 s2 x2
      obtain ⟨e2, ret2⟩ := r2
      simp only at x2 ⊢
      have y2 := XStep.trans wf x1 x2
      by_cases hr2 : ret2 = OK
      · subst hr2
        simp only [bne_self_eq_false, Bool.false_eq_true, if_false]
        refine Good.bind (appendAll_spec e2 EAPPEND eappend_ne _ s2 x2.clean.wf x2.ready) ?_
        intro r3 s3 x3
        obtain ⟨e3, ret3⟩ := r3
        simp only at x3 ⊢
        have y3 := XStep.trans wf y2 x3
        by_cases hr3 : ret3 = OK
        · subst hr3
          simp only [bne_self_eq_false, Bool.false_eq_true, if_false]
          have hb3 := bufs_step y3 wf (by simpa [XNode.bufs] using hb)
          refine Good.bind (xmlNodes_spec g kids l e3 _ s3 x3.clean.wf x3.ready hb3) ?_
          intro r4 s4 x4
          obtain ⟨e4, st4, ret4⟩ := r4
          simp only at x4 ⊢
          have y4 := XStep.trans wf y3 x4
          by_cases hr4 : ret4 = OK
          · subst hr4
            simp only [bne_self_eq_false, Bool.false_eq_true, if_false]
            split
            · exact good_ret.2 y4
            · refine Good.bind (appendAll_spec e4 EAPPEND eappend_ne _ s4 x4.clean.wf x4.ready) ?_
              intro r5 s5 x5
              exact good_ret.2 (XStep.trans wf y4 x5)
          · simp only [bne_ok_false hr4, if_true]
            exact good_ret.2 y4
        · simp only [bne_ok_false hr3, if_true]
          exact good_ret.2 y3
      · simp only [bne_ok_false hr2, if_true]
        exact good_ret.2 y2
    · simp only [bne_ok_false hr1, if_true]
      exact good_ret.2 x1
  | .text content, l, e, st, s, wf, rdy, hb => by
    unfold xmlNode
    simp only [bind_eq, pure_eq]
    refine Good.bind (xmlText_spec g l e st content s wf rdy (hb content (by simp [XNode.bufs])).1) ?_
    intro r s1 x1
    exact good_ret.2 x1
  | .cdata kids, l, e, st, s, wf, rdy, hb => by
    unfold xmlNode
    simp only [bind_eq, pure_eq]
    refine Good.bind (appendAll_spec e EAPPEND eappend_ne _ s wf rdy) ?_
    intro r1 s1 x1
    obtain ⟨e1, ret1⟩ := r1
    simp only at x1 ⊢
    by_cases hr1 : ret1 = OK
    · subst hr1
      simp only [bne_self_eq_false, Bool.false_eq_true, if_false]
      have hb1 := bufs_step x1 wf (by simpa [XNode.bufs] using hb)
      refine Good.bind (xmlNodes_spec g kids l e1 _ s1 x1.clean.wf x1.ready hb1) ?_
      intro r2 s2 x2
      obtain ⟨e2, st2, ret2⟩ := r2
      simp only at x2 ⊢
      have y2 := XStep.trans wf x1 x2
      by_cases hr2 : ret2 = OK
      · subst hr2
        simp only [bne_self_eq_false, Bool.false_eq_true, if_false]
        refine Good.bind (appendAll_spec e2 EAPPEND eappend_ne _ s2 x2.clean.wf x2.ready) ?_
        intro r3 s3 x3
        exact good_ret.2 (XStep.trans wf y2 x3)
      · simp only [bne_ok_false hr2, if_true]
        exact good_ret.2 y2
    · simp only [bne_ok_false hr1, if_true]
      exact good_ret.2 x1
  | .tree l' root, l, e, st, s, wf, rdy, hb => by
    unfold xmlNode
    simp only [bind_eq, pure_eq]
    refine Good.bind (encCreate_spec s wf) ?_
    intro ne s1 ⟨c1, h1, k1⟩
    have hh1 := c1.hits
    have cX1 : Clean s s1 e.owned (e.owned ++ ownedEncOpt ne) := by
      simpa using Clean.frame_l e.owned wf c1 (by simpa using rdy.1)
    cases ne with
    | none =>
      simp only [ownedEncOpt, List.append_nil] at cX1 ⊢
      exact good_ret.2 (XStep.build EncSame.rfl cX1 rdy.2 (fun _ => enomem_ne))
    | some ne =>
      simp only [ownedEncOpt] at cX1 ⊢
      have hno1 : ¬ s.hits < s1.hits := by intro hh; have := h1 hh; simp at this
      obtain ⟨hon, _⟩ := k1 ne rfl
      refine Good.bind (encInitOutput_spec ne s1 c1.wf cX1.owns.right (fun o ho => by rw [hon] at ho; cases ho)) ?_
      intro r2 s2 ⟨⟨_, c2, ok2, _⟩, _, _, h2, some2⟩
      obtain ⟨ne2, ok⟩ := r2
      simp only at c2 ok2 h2 some2 ⊢
      have hh2 := c2.hits
      have cX2 : Clean s s2 e.owned (e.owned ++ ne2.owned) := Clean.step_l e.owned wf cX1 c2
      -- every exit destroys the second encoder
      have hdestroy : ∀ (ne' : AEnc) (t : Ledger) (R : List Nat), Clean s t e.owned ((e.owned ++ R) ++ ne'.owned) →
          Good (encDestroy (some ne')) t (fun _ t' => Clean s t' e.owned (e.owned ++ R) ∧ t'.hits = t.hits) := by
        intro ne' t R cT
        refine (encDestroy_spec (some ne') t cT.wf (by simpa [ownedEncOpt] using cT.owns.right)).mono ?_
        intro _ t' ⟨d, hd, _⟩
        have d' : Clean t t' ne'.owned [] := d
        exact ⟨by simpa using Clean.step_l (e.owned ++ R) wf cT d', hd⟩
      cases ok with
      | false =>
        simp only [Bool.not_false, if_true]
        refine Good.bind (hdestroy ne2 s2 [] (by simpa using cX2)) ?_
        intro _ s3 ⟨cX3, _⟩
        exact good_ret.2 (XStep.build EncSame.rfl (by simpa using cX3) rdy.2 (fun _ => enomem_ne))
      | true =>
        simp only [Bool.not_true, Bool.false_eq_true, if_false]
        have hno2 : ¬ s1.hits < s2.hits := by intro hh; have := h2 hh; simp at this
        have rdy2 : EncReady ne2 s2 := by
          refine ⟨cX2.owns.right, ?_⟩
          cases ho : ne2.output with
          | none => simp [ho] at some2
          | some o => exact ⟨o, rfl, ok2 o ho⟩
        have hb2 : ∀ t ∈ root.bufs, t.hdr ∈ s2.live ∧ t.hdr ∉ ne2.owned := by
          intro t ht
          have ⟨a, b⟩ := hb t (by simpa [XNode.bufs] using ht)
          have ⟨a2, b2⟩ := cX2.outside wf a b
          exact ⟨a2, fun hm => b2 (List.mem_append_right _ hm)⟩
        refine Good.bind (xmlNode_spec g root l' ne2 _ s2 c2.wf rdy2 hb2) ?_
        intro r3 s3 x3
        obtain ⟨ne3, st3, ret3⟩ := r3
        simp only at x3 ⊢
        have hh3 := x3.clean.hits
        have cX3 : Clean s s3 e.owned (e.owned ++ ne3.owned) := Clean.step_l e.owned wf cX2 x3.clean
        by_cases hr3 : ret3 = OK
        · subst hr3
          simp only [bne_self_eq_false, Bool.false_eq_true, if_false]
          have hno3 : ¬ s2.hits < s3.hits := fun hh => x3.2.2.2 hh rfl
          have rdy3 := x3.ready
          have hl3 : ne3.hdr ∈ s3.live := rdy3.1.2 _ (by simp [AEnc.owned])
          have hout3 : ∀ o, ne3.output = some o → o.hdr ∈ s3.live ∧ o.ok := by
            intro o ho
            obtain ⟨o', ho', hk'⟩ := rdy3.2
            rw [ho] at ho'; cases ho'
            exact ⟨(rdy3.out_owns ho).2 _ (by simp [ABuf.owned]), hk'⟩
          refine Good.bind (xmlBuildResult_spec g l' ne3 false s3 x3.clean.wf hl3 hout3) ?_
          intro r4 s4 ⟨c4, n4, h4⟩
          obtain ⟨ret4, xml⟩ := r4
          simp only at c4 n4 h4 ⊢
          have hh4 := c4.hits
          have cX4 : Clean s s4 e.owned ((e.owned ++ ownedResult xml) ++ ne3.owned) := by
            have := Clean.step_l (e.owned ++ ne3.owned) wf (by simpa using cX3) c4
            exact this.prod_perm (by perm_count)
          refine Good.bind (hdestroy ne3 s4 (ownedResult xml) cX4) ?_
          intro _ s5 ⟨cX5, hd5⟩
          cases xml with
          | none =>
            simp only [ownedResult, List.append_nil] at cX5 ⊢
            exact good_ret.2 (XStep.build EncSame.rfl cX5 rdy.2 (fun hh => h4 (by omega)))
          | some rb =>
            obtain ⟨rblk, bytes⟩ := rb
            simp only [ownedResult] at cX5 ⊢
            have hret4 : ret4 = OK := by
              by_cases h : ret4 = OK
              · exact h
              · have := n4 h; simp at this
            have hno4 : ¬ s3.hits < s4.hits := fun hh => h4 hh hret4
            refine Good.bind (appendAll_spec e ENOMEM enomem_ne _ s5 cX5.wf ⟨cX5.owns.left, rdy.2⟩) ?_
            intro r6 s6 x6
            obtain ⟨e6, ret6⟩ := r6
            simp only at x6 ⊢
            have hh6 := x6.clean.hits
            have cX6 : Clean s s6 e.owned (e6.owned ++ [rblk]) := Clean.step_r [rblk] wf cX5 x6.clean
            refine Good.bind (free_spec (some rblk) s6 x6.clean.wf (by intro a ha; cases ha; exact cX6.owns.2 _ (by simp))) ?_
            intro _ s7 ⟨d7, hd7, _⟩
            have d7' : Clean s6 s7 [rblk] [] := by simpa using d7
            have cX7 : Clean s s7 e.owned e6.owned := by simpa using Clean.step_l e6.owned wf cX6 d7'
            refine good_ret.2 (XStep.build x6.same cX7 x6.out (fun hh => ?_))
            by_cases hA : s5.hits < s6.hits
            · exact x6.2.2.2 hA
            · exfalso; omega
        · simp only [bne_ok_false hr3, if_true]
          refine Good.bind (hdestroy ne3 s3 [] (by simpa using cX3)) ?_
          intro _ s4 ⟨cX4, _⟩
          exact good_ret.2 (XStep.build EncSame.rfl (by simpa using cX4) rdy.2 (fun _ => hr3))
  | .other code, l, e, st, s, wf, rdy, hb => by
    unfold xmlNode
    simp only [pure_eq]
    exact good_ret.2 (XStep.refl wf rdy code)
/-- … and the `next` chain. -/
theorem xmlNodes_spec (g : XGen) : (ns : List XNode) → (l : XLang) → (e : AEnc) → (st : XSt) → (s : Ledger) → s.WF → EncReady e s →
    (∀ t ∈ XNode.bufsL ns, t.hdr ∈ s.live ∧ t.hdr ∉ e.owned) →
    Good (xmlNodes g l e st ns) s (fun r s' => XStep e s r.1 r.2.2 s')
  | [], l, e, st, s, wf, rdy, hb => by
    unfold xmlNodes
    simp only [pure_eq]
    exact good_ret.2 (XStep.refl wf rdy OK)
  | n :: rest, l, e, st, s, wf, rdy, hb => by
    unfold xmlNodes
    simp only [bind_eq, pure_eq]
    refine Good.bind (xmlNode_spec g n l e st s wf rdy (fun t ht => hb t (by simp [XNode.bufsL, ht]))) ?_
    intro r1 s1 x1
    obtain ⟨e1, st1, ret1⟩ := r1
    simp only at x1 ⊢
    by_cases hr1 : ret1 = OK
    · subst hr1
      simp only [bne_self_eq_false, Bool.false_eq_true, if_false]
      have hb1 := bufs_step x1 wf (fun t ht => hb t (by simp [XNode.bufsL, ht]) : ∀ t ∈ XNode.bufsL rest, _)
      exact (xmlNodes_spec g rest l e1 st1 s1 x1.clean.wf x1.ready hb1).mono fun r s2 x2 => XStep.trans wf x1 x2
    · simp only [bne_ok_false hr1, if_true]
      exact good_ret.2 x1
end

/-- `wbxml_tree_to_xml`: the encoder, its output buffer, the temporaries of the walk and the header
    buffer are gone on every exit; the result block is the only thing produced, with `WBXML_OK`
    only; a delivered failure is reported. -/
theorem treeToXml_spec (g : XGen) (l : XLang) (root : XNode) (s : Ledger) (wf : s.WF)
    (hb : ∀ t ∈ root.bufs, t.hdr ∈ s.live) :
    Good (treeToXml g l root) s (fun r s' =>
      Clean s s' [] (ownedResult r.2) ∧ (r.1 ≠ OK → r.2 = none) ∧ (s.hits < s'.hits → r.1 ≠ OK)) := by
  unfold treeToXml
  simp only [bind_eq, pure_eq]
  refine Good.bind (encCreate_spec s wf) ?_
  intro ne s1 ⟨c1, h1, k1⟩
  have hh1 := c1.hits
  cases ne with
  | none => exact good_ret.2 ⟨by simpa [ownedEncOpt, ownedResult] using c1, fun _ => rfl, fun _ => enomem_ne⟩
  | some ne =>
    simp only [ownedEncOpt] at c1 ⊢
    have hno1 : ¬ s.hits < s1.hits := by intro hh; have := h1 hh; simp at this
    obtain ⟨hon, _⟩ := k1 ne rfl
    refine Good.bind (encInitOutput_spec ne s1 c1.wf c1.owns (fun o ho => by rw [hon] at ho; cases ho)) ?_
    intro r2 s2 ⟨⟨_, c2, ok2, _⟩, _, _, h2, some2⟩
    obtain ⟨ne2, ok⟩ := r2
    simp only at c2 ok2 h2 some2 ⊢
    have hh2 := c2.hits
    have cX2 : Clean s s2 [] ne2.owned := Clean.trans_recycle wf c1 c2
    have hdestroy : ∀ (ne' : AEnc) (t : Ledger) (R : List Nat), Clean s t [] (R ++ ne'.owned) →
        Good (encDestroy (some ne')) t (fun _ t' => Clean s t' [] R ∧ t'.hits = t.hits) := by
      intro ne' t R cT
      refine (encDestroy_spec (some ne') t cT.wf (by simpa [ownedEncOpt] using cT.owns.right)).mono ?_
      intro _ t' ⟨d, hd, _⟩
      have d' : Clean t t' ne'.owned [] := d
      exact ⟨by simpa using Clean.step_l R wf cT d', hd⟩
    cases ok with
    | false =>
      simp only [Bool.not_false, if_true]
      refine Good.bind (hdestroy ne2 s2 [] (by simpa using cX2)) ?_
      intro _ s3 ⟨cX3, _⟩
      exact good_ret.2 ⟨by simpa [ownedResult] using cX3, fun _ => rfl, fun _ => enomem_ne⟩
    | true =>
      simp only [Bool.not_true, Bool.false_eq_true, if_false]
      have hno2 : ¬ s1.hits < s2.hits := by intro hh; have := h2 hh; simp at this
      have rdy2 : EncReady ne2 s2 := by
        refine ⟨cX2.owns, ?_⟩
        cases ho : ne2.output with
        | none => simp [ho] at some2
        | some o => exact ⟨o, rfl, ok2 o ho⟩
      have hb2 : ∀ t ∈ root.bufs, t.hdr ∈ s2.live ∧ t.hdr ∉ ne2.owned := by
        intro t ht
        exact cX2.outside wf (hb t ht) (by simp)
      refine Good.bind (xmlNode_spec g root l ne2 _ s2 c2.wf rdy2 hb2) ?_
      intro r3 s3 x3
      obtain ⟨ne3, st3, ret3⟩ := r3
      simp only at x3 ⊢
      have hh3 := x3.clean.hits
      have cX3 : Clean s s3 [] ne3.owned := Clean.trans_recycle wf cX2 x3.clean
      by_cases hr3 : ret3 = OK
      · subst hr3
        simp only [bne_self_eq_false, Bool.false_eq_true, if_false]
        have hno3 : ¬ s2.hits < s3.hits := fun hh => x3.2.2.2 hh rfl
        have rdy3 := x3.ready
        have hl3 : ne3.hdr ∈ s3.live := rdy3.1.2 _ (by simp [AEnc.owned])
        have hout3 : ∀ o, ne3.output = some o → o.hdr ∈ s3.live ∧ o.ok := by
          intro o ho
          obtain ⟨o', ho', hk'⟩ := rdy3.2
          rw [ho] at ho'; cases ho'
          exact ⟨(rdy3.out_owns ho).2 _ (by simp [ABuf.owned]), hk'⟩
        refine Good.bind (xmlBuildResult_spec g l ne3 true s3 x3.clean.wf hl3 hout3) ?_
        intro r4 s4 ⟨c4, n4, h4⟩
        obtain ⟨ret4, xml⟩ := r4
        simp only at c4 n4 h4 ⊢
        have hh4 := c4.hits
        have cX4 : Clean s s4 [] (ownedResult xml ++ ne3.owned) :=
          (Clean.trans_prod cX3 c4).prod_perm List.perm_append_comm
        refine Good.bind (hdestroy ne3 s4 (ownedResult xml) cX4) ?_
        intro _ s5 ⟨cX5, hd5⟩
        exact good_ret.2 ⟨cX5, n4, fun hh => h4 (by omega)⟩
      · simp only [bne_ok_false hr3, if_true]
        refine Good.bind (hdestroy ne3 s3 [] (by simpa using cX3)) ?_
        intro _ s4 ⟨cX4, _⟩
        exact good_ret.2 ⟨by simpa [ownedResult] using cX4, fun _ => rfl, fun _ => hr3⟩

end Wbxml.Model.Alloc
