/-
  `parse_ser`, layer 3: elements and content, by induction on the fuel (which the serialised
  length bounds): `parseElement` / `contentLoop` consume exactly `serElem e` / `serItems items`,
  deliver `evElem` / `evItems` and leave the code pages the specification computes.
-/
import Wbxml.Lemmas.ParseSerAttr
namespace Wbxml.Lemmas.ParseSer
open Wbxml Wbxml.Model Wbxml.Spec

/-! ### Tag octets -/

theorem tagByte_tbl : ∀ t, t < 64 → ∀ a c : Bool, (isTagTok t = true ∨ t = 4) →
    (byte (t + tagFlags a c) == 0) = false ∧ (byte (t + tagFlags a c) == 1) = false ∧
    (byte (t + tagFlags a c) == 2) = false ∧ (byte (t + tagFlags a c) == 3) = false ∧
    (byte (t + tagFlags a c) == 0x83) = false ∧ (byte (t + tagFlags a c) == 0xC3) = false ∧
    (byte (t + tagFlags a c) == 0x43) = false ∧ isExtToken (byte (t + tagFlags a c)) = false ∧
    ((byte (t + tagFlags a c)).toNat &&& 0x3F) = t ∧
    ((byte (t + tagFlags a c)).toNat &&& 0x80 != 0) = a ∧
    ((byte (t + tagFlags a c)).toNat &&& 0x40 != 0) = c ∧
    (byte (t + tagFlags a c) == 0x04 || byte (t + tagFlags a c) == 0x84 ||
      byte (t + tagFlags a c) == 0x44 || byte (t + tagFlags a c) == 0xC4) = decide (t = 4) := by
  decide +kernel

theorem tagTok_lt (t : Nat) (h : isTagTok t = true) : t < 64 := by
  simp only [isTagTok, Bool.and_eq_true, decide_eq_true_eq] at h; omega

@[simp] theorem isLiteral_cons (c : Ctx) (ver) (b : UInt8) (r : Bytes) (tp ap cur) :
    isLiteral (st c ver (b :: r) tp ap cur) = (b == 0x04 || b == 0x84 || b == 0x44 || b == 0xC4) := by
  simp [isLiteral]

/-- First octet of `stag`. -/
def tagHead (flags : Nat) : Tag → UInt8
  | .tok t => byte (t + flags)
  | .lit _ => byte (0x04 + flags)

def tagTail : Tag → Bytes
  | .tok _ => []
  | .lit off => mb off

theorem serTag_eq (flags : Nat) (tag : Tag) : serTag flags tag = tagHead flags tag :: tagTail tag := by
  cases tag <;> rfl

/-- The "tag" value `parse_stag` hands back: the octet itself for a token, a mask for a literal. -/
def stagByte (a cb : Bool) : Tag → UInt8
  | .tok t => byte (t + tagFlags a cb)
  | .lit _ => if a then (if cb then 0xC0 else 0x80) else (if cb then 0x40 else 0x3F)

theorem stagByte_flags (c : Ctx) (tp : Nat) (a cb : Bool) (tag : Tag) (h : wfTag c tp tag = true) :
    ((stagByte a cb tag).toNat &&& 0x80 != 0) = a ∧ ((stagByte a cb tag).toNat &&& 0x40 != 0) = cb := by
  cases tag with
  | tok t =>
    simp only [wfTag, Bool.and_eq_true] at h
    obtain ⟨_, _, _, _, _, _, _, _, _, h1, h2, _⟩ := tagByte_tbl t (tagTok_lt t h.1) a cb (Or.inl h.1)
    exact ⟨h1, h2⟩
  | lit off => cases a <;> cases cb <;> simp only [stagByte] <;> exact ⟨by decide, by decide⟩

theorem tagHead_facts (c : Ctx) (tp : Nat) (a cb : Bool) (tag : Tag) (h : wfTag c tp tag = true) :
    (tagHead (tagFlags a cb) tag == 0) = false ∧ (tagHead (tagFlags a cb) tag == 1) = false ∧
    (tagHead (tagFlags a cb) tag == 2) = false ∧ (tagHead (tagFlags a cb) tag == 3) = false ∧
    (tagHead (tagFlags a cb) tag == 0x83) = false ∧ (tagHead (tagFlags a cb) tag == 0xC3) = false ∧
    (tagHead (tagFlags a cb) tag == 0x43) = false ∧ isExtToken (tagHead (tagFlags a cb) tag) = false := by
  cases tag with
  | tok t =>
    simp only [wfTag, Bool.and_eq_true] at h
    obtain ⟨h0, h1, h2, h3, h4, h5, h6, h7, _⟩ := tagByte_tbl t (tagTok_lt t h.1) a cb (Or.inl h.1)
    exact ⟨h0, h1, h2, h3, h4, h5, h6, h7⟩
  | lit off =>
    obtain ⟨h0, h1, h2, h3, h4, h5, h6, h7, _⟩ := tagByte_tbl 4 (by decide) a cb (Or.inr rfl)
    exact ⟨h0, h1, h2, h3, h4, h5, h6, h7⟩

/-- `stag`. -/
theorem parseStag_ser (c : Ctx) (ver) (hc : c.ok = true) (tp : Nat) (a cb : Bool) (tag : Tag)
    (h : wfTag c tp tag = true) (r : Bytes) (ap cur) :
    parseStag (st c ver (serTag (tagFlags a cb) tag ++ r) tp ap cur) =
      .ok ((stagByte a cb tag, (tagName c tp tag).1), st c ver r tp ap cur) := by
  cases tag with
  | tok t =>
    simp only [wfTag, Bool.and_eq_true] at h
    obtain ⟨_, _, _, _, _, _, _, _, hm, _, _, hl⟩ := tagByte_tbl t (tagTok_lt t h.1) a cb (Or.inl h.1)
    have ht4 : decide (t = 4) = false := by
      have := h.1; simp only [isTagTok, Bool.and_eq_true, decide_eq_true_eq] at this
      simp; omega
    obtain ⟨row, hrow⟩ := Option.isSome_iff_exists.mp h.2
    have hrow' := hrow
    simp only [tagRow] at hrow
    cases htags : c.lang.tags with
    | none => simp [htags] at hrow
    | some tags =>
      simp only [htags] at hrow
      simp only [parseStag, serTag, List.cons_append, List.nil_append, isLiteral_cons, hl, ht4, Bool.false_eq_true,
        ↓reduceIte, parseTag, parseU8_cons, bind, Except.bind, htags, hm, hrow, pure, Except.pure,
        stagByte, tagName, hrow']
  | lit off =>
    simp only [wfTag, Bool.and_eq_true, decide_eq_true_eq] at h
    have e : (strAt c.tbl off).take (cstrLen (strAt c.tbl off)) = strAt c.tbl off := by
      rw [strAt_nulFree, List.take_length]
    cases a <;> cases cb <;>
    · simp only [parseStag, serTag, tagFlags, List.cons_append, isLiteral_cons, bind, Except.bind,
        parseLiteral_ser c ver hc h.1 _ off h.2, stagByte, tagName]
      simp [byte, pure, Except.pure, e]

/-! ### Elements and content -/

theorem serElem_mk (sw tag attrs content) : serElem (.mk sw tag attrs content) =
    serSw sw ++ (serTag (tagFlags (!attrs.isEmpty) content.isSome) tag ++
      ((if attrs.isEmpty then [] else serAttrs attrs ++ [0x01]) ++ serContent content)) := by
  rw [serElem]

theorem evElem_mk (c : Ctx) (pg : Pages) (sw tag attrs content) : evElem c pg (.mk sw tag attrs content) =
    (.startElt (tagName c (swPage sw pg.tag) tag).1 (evAttrs c pg.attr attrs).1 ::
      ((evContent c (tagName c (swPage sw pg.tag) tag).2 ⟨swPage sw pg.tag, (evAttrs c pg.attr attrs).2⟩ content).1 ++
        [.endElt (tagName c (swPage sw pg.tag) tag).1]),
     (evContent c (tagName c (swPage sw pg.tag) tag).2 ⟨swPage sw pg.tag, (evAttrs c pg.attr attrs).2⟩ content).2) := by
  rw [evElem]

theorem wfElem_mk (c : Ctx) (slot) (pg : Pages) (sw tag attrs content) :
    wfElem c slot pg (.mk sw tag attrs content) =
    (wfSw sw && wfTag c (swPage sw pg.tag) tag && wfAttrs c pg.attr attrs &&
    wfContent c (tagName c (swPage sw pg.tag) tag).2
      (slotOfTag (tagName c (swPage sw pg.tag) tag).2 slot tag)
      ⟨swPage sw pg.tag, (evAttrs c pg.attr attrs).2⟩ content) := by
  rw [wfElem]

theorem serItems_cons (it : Item) (rest : List Item) : serItems (it :: rest) = serItem it ++ serItems rest := by
  rw [serItems]
theorem serItems_nil : serItems [] = [] := by rw [serItems]
theorem evItems_nil (c own pg) : evItems c own pg [] = ([], pg) := by rw [evItems]
theorem evItems_cons (c own pg it rest) : evItems c own pg (it :: rest) =
    ((evItem c own pg it).1 ++ (evItems c own (evItem c own pg it).2 rest).1,
      (evItems c own (evItem c own pg it).2 rest).2) := by rw [evItems]
theorem wfItems_cons (c own slot pg it rest) : wfItems c own slot pg (it :: rest) =
    (wfItem c own slot pg it && wfItems c own (slotAfter slot it) (evItem c own pg it).2 rest) := by rw [wfItems]
theorem serContent_some (items) : serContent (some items) = serItems items ++ [0x01] := by rw [serContent]
theorem serContent_none : serContent none = [] := by rw [serContent]
theorem evContent_some (c own pg items) : evContent c own pg (some items) = evItems c own pg items := by rw [evContent]
theorem evContent_none (c own pg) : evContent c own pg none = ([], pg) := by rw [evContent]
theorem wfContent_some (c own slot pg items) : wfContent c own slot pg (some items) = wfItems c own slot pg items := by
  rw [wfContent]


/-- The parser's `current_tag` slot after a list of content items. -/
def slotEnd (slot : Option TagRow) : List Item → Option TagRow
  | [] => slot
  | it :: rest => slotEnd (slotAfter slot it) rest

/-- `parseElement f` is correct on every element whose serialisation has at most `f` octets. -/
def PA (c : Ctx) (ver f : Nat) : Prop :=
  ∀ (e : Elem) (slot : Option TagRow) (pg : Pages), wfElem c slot pg e = true →
    ∀ (suf : Bytes) (ev : List Event), (serElem e).length ≤ f →
    parseElement f ev (st c ver (serElem e ++ suf) pg.tag pg.attr slot) =
      .ok (ev ++ (evElem c pg e).1, st c ver suf (evElem c pg e).2.tag (evElem c pg e).2.attr none)

/-- `contentLoop f` is correct on every content list that, with its `END`, has at most `f` octets. -/
def PB (c : Ctx) (ver f : Nat) : Prop :=
  ∀ (items : List Item) (own slot : Option TagRow) (pg : Pages), wfItems c own slot pg items = true →
    ∀ (suf : Bytes) (ev : List Event), (serItems items).length + 1 ≤ f →
    contentLoop f ev (st c ver (serItems items ++ 0x01 :: suf) pg.tag pg.attr slot) =
      .ok (ev ++ (evItems c own pg items).1,
        st c ver (0x01 :: suf) (evItems c own pg items).2.tag (evItems c own pg items).2.attr (slotEnd slot items))

theorem tagName_cases (c : Ctx) (tp : Nat) (tag : Tag) (h : wfTag c tp tag = true) :
    (∃ t row, tag = .tok t ∧ tagName c tp tag = (.token row, some row)) ∨
    (∃ off, tag = .lit off ∧ tagName c tp tag = (.literal (strAt c.tbl off), none)) := by
  cases tag with
  | tok t =>
    simp only [wfTag, Bool.and_eq_true] at h
    obtain ⟨row, hrow⟩ := Option.isSome_iff_exists.mp h.2
    exact Or.inl ⟨t, row, rfl, by simp [tagName, hrow]⟩
  | lit off => exact Or.inr ⟨off, rfl, rfl⟩

theorem serAttrs_fuel (as : List Attribute) (r : Bytes) : as.length < (serAttrs as ++ r).length + 1 := by
  have := serAttrs_length as
  simp only [List.length_append]; omega

theorem parseElement_sw (c : Ctx) (ver) (f : Nat) (ev : List Event) (p : Nat) (hp : p < 256) (b : UInt8)
    (hb : (b == 0) = false) (r : Bytes) (tp ap cur) :
    parseElement (f + 1) ev (st c ver (0x00 :: byte p :: b :: r) tp ap cur) =
      parseElement (f + 1) ev (st c ver (b :: r) p ap cur) := by
  rw [parseElement, parseElement]
  simp only [isToken_cons, beq_self_eq_true, ↓reduceIte, hb, Bool.false_eq_true, parseSwitchPage_tag c ver p hp,
    bind, Except.bind, pure, Except.pure]

theorem elem_core (c : Ctx) (ver) (hc : c.ok = true) (f : Nat) (ihB : PB c ver f)
    (tag : Tag) (attrs : List Attribute) (content : Option (List Item)) (slot : Option TagRow) (tp ap : Nat)
    (htag : wfTag c tp tag = true) (hattrs : wfAttrs c ap attrs = true)
    (hcont : wfContent c (tagName c tp tag).2 (slotOfTag (tagName c tp tag).2 slot tag)
      ⟨tp, (evAttrs c ap attrs).2⟩ content = true)
    (suf : Bytes) (ev : List Event)
    (hlen : (serElem (.mk none tag attrs content)).length ≤ f + 1) :
    parseElement (f + 1) ev (st c ver (serElem (.mk none tag attrs content) ++ suf) tp ap slot) =
      .ok (ev ++ (evElem c ⟨tp, ap⟩ (.mk none tag attrs content)).1,
        st c ver suf (evElem c ⟨tp, ap⟩ (.mk none tag attrs content)).2.tag
          (evElem c ⟨tp, ap⟩ (.mk none tag attrs content)).2.attr none) := by
  rw [serElem_mk] at hlen ⊢
  rw [evElem_mk]
  obtain ⟨hb0, -⟩ := tagHead_facts c tp (!attrs.isEmpty) content.isSome tag htag
  have hflags := stagByte_flags c tp (!attrs.isEmpty) content.isSome tag htag
  have hnotsw : isToken (st c ver (serTag (tagFlags (!attrs.isEmpty) content.isSome) tag ++
      ((if attrs.isEmpty then [] else serAttrs attrs ++ [0x01]) ++ (serContent content ++ suf))) tp ap slot) 0x00
      = false := by
    rw [serTag_eq, List.cons_append, isToken_cons]; exact hb0
  rw [parseElement]
  simp only [serSw, swPage, Option.getD_none, List.nil_append, List.append_assoc] at hlen ⊢
  simp only [hnotsw, Bool.false_eq_true, ↓reduceIte, pure, Except.pure, bind, Except.bind,
    parseStag_ser c ver hc _ _ _ tag htag, hflags.1, hflags.2]
  rcases tagName_cases c tp tag htag with ⟨t, row, rfl, hnm⟩ | ⟨off, rfl, hnm⟩ <;>
  · simp only [hnm, slotOfTag] at hcont ⊢
    cases attrs with
    | nil =>
      simp only [List.isEmpty_nil, Bool.not_true, Bool.false_eq_true, ↓reduceIte, List.nil_append, evAttrs]
      cases content with
      | none =>
        simp only [Option.isSome_none, Bool.false_eq_true, ↓reduceIte, serContent_none, List.nil_append,
          evContent_none, List.append_assoc, List.singleton_append]
      | some items =>
        rw [wfContent_some] at hcont
        have hl : (serItems items).length + 1 ≤ f := by
          simp only [serContent_some, List.isEmpty_nil, ↓reduceIte, List.nil_append, List.length_append,
            List.length_cons, List.length_nil, serTag_eq] at hlen
          omega
        simp only [evAttrs] at hcont
        simp only [Option.isSome_some, ↓reduceIte, serContent_some, List.append_assoc, List.singleton_append]
        rw [ihB items _ _ ⟨tp, ap⟩ hcont suf _ hl]
        simp only [skip1_cons, evContent_some, List.append_assoc, List.cons_append, List.nil_append]
    | cons a as =>
      have hfuel := serAttrs_fuel as
      simp only [List.isEmpty_cons, Bool.not_false, ↓reduceIte, Bool.false_eq_true, List.append_assoc,
        List.singleton_append]
      rw [attrsLoop_ser c ver hc a as ap hattrs _ _ (by
        have := serAttrs_length (a :: as)
        simp only [List.length_append, List.length_cons] at this ⊢; omega)]
      simp only [List.nil_append, skip1_cons]
      cases content with
      | none =>
        simp only [Option.isSome_none, Bool.false_eq_true, ↓reduceIte, serContent_none, List.nil_append,
          evContent_none, List.append_assoc, List.singleton_append]
      | some items =>
        rw [wfContent_some] at hcont
        have hl : (serItems items).length + 1 ≤ f := by
          simp only [serContent_some, List.length_append, List.length_cons, List.length_nil, serTag_eq] at hlen
          omega
        simp only [Option.isSome_some, ↓reduceIte, serContent_some, List.append_assoc, List.singleton_append]
        rw [ihB items _ _ ⟨tp, (evAttrs c ap (a :: as)).2⟩ hcont suf _ hl]
        simp only [skip1_cons, evContent_some, List.append_assoc, List.cons_append, List.nil_append]

theorem serElem_sw (p : Nat) (tag attrs content) :
    serElem (.mk (some p) tag attrs content) = 0x00 :: byte p :: serElem (.mk none tag attrs content) := by
  rw [serElem_mk, serElem_mk]; rfl

theorem evElem_sw (c : Ctx) (pg : Pages) (p : Nat) (tag attrs content) :
    evElem c pg (.mk (some p) tag attrs content) = evElem c ⟨p, pg.attr⟩ (.mk none tag attrs content) := by
  rw [evElem_mk, evElem_mk]; rfl

theorem wfElem_sw (c : Ctx) (slot) (pg : Pages) (p : Nat) (tag attrs content) :
    wfElem c slot pg (.mk (some p) tag attrs content) =
      (decide (p < 256) && wfElem c slot ⟨p, pg.attr⟩ (.mk none tag attrs content)) := by
  rw [wfElem_mk, wfElem_mk]; simp [wfSw, swPage, Bool.and_assoc]

theorem serElem_head (c : Ctx) (tp : Nat) (tag : Tag) (attrs content) (_h : wfTag c tp tag = true) :
    ∃ r, serElem (.mk none tag attrs content) = tagHead (tagFlags (!attrs.isEmpty) content.isSome) tag :: r := by
  rw [serElem_mk, serTag_eq]; exact ⟨_, rfl⟩

theorem elem_step (c : Ctx) (ver) (hc : c.ok = true) (f : Nat) (ihB : PB c ver f) : PA c ver (f + 1) := by
  intro e slot pg hwf suf ev hlen
  cases e with
  | mk sw tag attrs content =>
    cases sw with
    | none =>
      rw [wfElem_mk] at hwf
      simp only [Bool.and_eq_true, swPage, Option.getD_none] at hwf
      obtain ⟨⟨⟨-, htag⟩, hattrs⟩, hcont⟩ := hwf
      exact elem_core c ver hc f ihB tag attrs content slot pg.tag pg.attr htag hattrs hcont suf ev hlen
    | some p =>
      rw [wfElem_sw, Bool.and_eq_true, decide_eq_true_eq] at hwf
      obtain ⟨hp, hwf⟩ := hwf
      rw [wfElem_mk] at hwf
      simp only [Bool.and_eq_true, swPage, Option.getD_none] at hwf
      obtain ⟨⟨⟨-, htag⟩, hattrs⟩, hcont⟩ := hwf
      obtain ⟨r, hr⟩ := serElem_head c p tag attrs content htag
      obtain ⟨hb0, -⟩ := tagHead_facts c p (!attrs.isEmpty) content.isSome tag htag
      rw [serElem_sw] at hlen ⊢
      rw [evElem_sw, List.cons_append, List.cons_append, hr, List.cons_append,
        parseElement_sw c ver f ev p hp _ hb0, ← List.cons_append, ← hr]
      exact elem_core c ver hc f ihB tag attrs content slot p pg.attr htag hattrs hcont suf ev
        (by simp only [List.length_cons] at hlen; omega)

theorem charsEv_append (ev : List Event) (b : Bytes) :
    (if b.isEmpty = true then ev else ev ++ [Event.chars b]) = ev ++ charsEv b := by
  unfold charsEv; split <;> simp

theorem serItem_elem (e) : serItem (.elem e) = serElem e := by rw [serItem]
theorem serItem_str (s) : serItem (.str s) = serStr s := by rw [serItem]
theorem serItem_entity (code) : serItem (.entity code) = 0x02 :: mb code := by rw [serItem]
theorem serItem_opaque (d) : serItem (.opaque d) = serOpaque d := by rw [serItem]
theorem serItem_ext (sw x) : serItem (.ext sw x) = serSw sw ++ serExt x := by rw [serItem]
theorem serItem_pi (a) : serItem (.pi a) = serPi a := by rw [serItem]

theorem evItem_elem (c own pg e) : evItem c own pg (.elem e) = evElem c pg e := by rw [evItem]
theorem evItem_str (c own pg s) : evItem c own pg (.str s) = (charsEv (strText c s), pg) := by rw [evItem]
theorem evItem_entity (c own pg code) : evItem c own pg (.entity code) = (charsEv (entityText code), pg) := by
  rw [evItem]
theorem evItem_opaque (c own pg d) : evItem c own pg (.opaque d) = (charsEv ((opaqueText c own d).getD []), pg) := by
  rw [evItem]
theorem evItem_ext (c own) (pg : Pages) (sw x) : evItem c own pg (.ext sw x) =
    (charsEv ((extText c x).getD []), ⟨swPage sw pg.tag, pg.attr⟩) := by rw [evItem]
theorem evItem_pi (c own) (pg : Pages) (a) : evItem c own pg (.pi a) =
    ([(evPi c pg.attr a).1], ⟨pg.tag, (evPi c pg.attr a).2⟩) := by rw [evItem]

theorem wfItem_elem (c own slot pg e) : wfItem c own slot pg (.elem e) = wfElem c slot pg e := by rw [wfItem]
theorem wfItem_str (c own slot pg s) : wfItem c own slot pg (.str s) = wfStr c s := by rw [wfItem]
theorem wfItem_entity (c own slot pg code) : wfItem c own slot pg (.entity code) = wfEntity code := by rw [wfItem]
theorem wfItem_opaque (c own slot pg d) : wfItem c own slot pg (.opaque d) =
    (decide (d.length < 4294967296) && (opaqueText c own d).isSome &&
      (opaqueText c slot d == opaqueText c own d)) := by rw [wfItem]
theorem wfItem_ext (c own slot pg sw x) : wfItem c own slot pg (.ext sw x) = (wfSw sw && wfExt c x) := by rw [wfItem]
theorem wfItem_pi (c own slot) (pg : Pages) (a) : wfItem c own slot pg (.pi a) = wfPi c pg.attr a := by rw [wfItem]

theorem items_step (c : Ctx) (ver) (hc : c.ok = true) (f : Nat) (ihA : PA c ver f) (ihB : PB c ver f) :
    PB c ver (f + 1) := by
  intro items own slot pg hwf suf ev hlen
  cases items with
  | nil =>
    rw [serItems_nil, evItems_nil, contentLoop]
    simp only [List.nil_append, isToken_cons, beq_self_eq_true, ↓reduceIte, pure, Except.pure, List.append_nil,
      slotEnd]
  | cons it rest =>
    rw [wfItems_cons, Bool.and_eq_true] at hwf
    obtain ⟨hit, hrest⟩ := hwf
    rw [serItems_cons] at hlen ⊢
    rw [evItems_cons, List.append_assoc]
    simp only [slotEnd]
    simp only [List.length_append] at hlen
    cases it with
    | str s =>
      rw [wfItem_str] at hit
      rw [evItem_str] at hrest ⊢
      rw [serItem_str] at hlen ⊢
      have hl : (serItems rest).length + 1 ≤ f := by
        have : 1 ≤ (serStr s).length := by cases s <;> simp [serStr]
        omega
      have h1 : isToken (st c ver (serStr s ++ (serItems rest ++ 0x01 :: suf)) pg.tag pg.attr slot) 0x01 = false := by
        cases s <;> simp [serStr]
      have hp : ∃ b, peekAt (st c ver (serStr s ++ (serItems rest ++ 0x01 :: suf)) pg.tag pg.attr slot) 0 = some b := by
        cases s <;> exact ⟨_, rfl⟩
      obtain ⟨b, hp⟩ := hp
      have hx : isExtension (st c ver (serStr s ++ (serItems rest ++ 0x01 :: suf)) pg.tag pg.attr slot) = false := by
        cases s <;> simp [serStr, isExtension, isExtToken]
      have h2 : isToken (st c ver (serStr s ++ (serItems rest ++ 0x01 :: suf)) pg.tag pg.attr slot) 0x02 = false := by
        cases s <;> simp [serStr]
      have hs : isString (st c ver (serStr s ++ (serItems rest ++ 0x01 :: suf)) pg.tag pg.attr slot) = true := by
        cases s <;> simp [serStr]
      rw [contentLoop]
      simp only [h1, hp, hx, h2, hs, Bool.false_eq_true, ↓reduceIte, bind, Except.bind,
        parseString_ser c ver hc s hit, charsEv_append]
      rw [ihB rest own slot pg hrest suf _ hl]
      simp only [List.append_assoc, slotAfter]
    | entity code =>
      rw [wfItem_entity] at hit
      rw [evItem_entity] at hrest ⊢
      rw [serItem_entity] at hlen ⊢
      have hl : (serItems rest).length + 1 ≤ f := by simp only [List.length_cons] at hlen; omega
      rw [contentLoop]
      simp only [List.cons_append, isToken_cons, peekAt_zero, isExtension_cons c ver 2 (by decide),
        show ((2 : UInt8) == 1) = false by decide, show isExtToken 2 = false by decide, beq_self_eq_true,
        Bool.false_eq_true, ↓reduceIte, bind, Except.bind, parseEntity_ser c ver code hit, charsEv_append]
      rw [ihB rest own slot pg hrest suf _ hl]
      simp only [List.append_assoc, slotAfter]
    | «opaque» d =>
      rw [wfItem_opaque] at hit
      simp only [Bool.and_eq_true, decide_eq_true_eq, beq_iff_eq] at hit
      obtain ⟨⟨hdl, hsome⟩, hslot⟩ := hit
      obtain ⟨b, hb⟩ := Option.isSome_iff_exists.mp hsome
      have hdec : decodeOpaqueContent c.lang.id slot d = .ok b := by
        rw [hb] at hslot
        simp only [opaqueText] at hslot
        split at hslot
        · rename_i h; simp only [Option.some.injEq] at hslot; rw [h, hslot]
        · simp at hslot
      rw [evItem_opaque] at hrest ⊢
      rw [serItem_opaque] at hlen ⊢
      have hl : (serItems rest).length + 1 ≤ f := by simp only [serOpaque, List.length_cons] at hlen; omega
      have h1 : isToken (st c ver (serOpaque d ++ (serItems rest ++ 0x01 :: suf)) pg.tag pg.attr slot) 0x01 = false := by
        simp [serOpaque]
      have hp : peekAt (st c ver (serOpaque d ++ (serItems rest ++ 0x01 :: suf)) pg.tag pg.attr slot) 0 = some 0xC3 := rfl
      have hx : isExtension (st c ver (serOpaque d ++ (serItems rest ++ 0x01 :: suf)) pg.tag pg.attr slot) = false := by
        simp [serOpaque, isExtension, isExtToken]
      have h2 : isToken (st c ver (serOpaque d ++ (serItems rest ++ 0x01 :: suf)) pg.tag pg.attr slot) 0x02 = false := by
        simp [serOpaque]
      have hs : isString (st c ver (serOpaque d ++ (serItems rest ++ 0x01 :: suf)) pg.tag pg.attr slot) = false := by
        simp [serOpaque]
      have h3 : isToken (st c ver (serOpaque d ++ (serItems rest ++ 0x01 :: suf)) pg.tag pg.attr slot) 0xC3 = true := by
        simp [serOpaque]
      rw [contentLoop]
      simp only [h1, hp, hx, h2, hs, h3, Bool.false_eq_true, ↓reduceIte, bind, Except.bind,
        parseOpaque_ser c ver d hdl, hdec, charsEv_append]
      rw [ihB rest own slot pg hrest suf _ hl]
      simp only [List.append_assoc, slotAfter, hb, Option.getD_some]
    | ext sw x =>
      rw [wfItem_ext, Bool.and_eq_true] at hit
      rw [evItem_ext] at hrest ⊢
      rw [serItem_ext] at hlen ⊢
      obtain ⟨hb0, hbe⟩ := extByte_facts c x hit.2
      obtain ⟨-, hb1, -⟩ := extTok_facts _ hbe
      have hl : (serItems rest).length + 1 ≤ f := by
        rw [serExt_eq] at hlen; simp only [List.length_append, List.length_cons] at hlen; omega
      have h1 : isToken (st c ver (serSw sw ++ (serExt x ++ (serItems rest ++ 0x01 :: suf))) pg.tag pg.attr slot) 0x01
          = false := by
        rw [serExt_eq]; cases sw <;> simp [serSw, hb1]
      have hp : ∃ b, peekAt (st c ver (serSw sw ++ (serExt x ++ (serItems rest ++ 0x01 :: suf))) pg.tag pg.attr slot) 0
          = some b := by
        rw [serExt_eq]; cases sw <;> exact ⟨_, rfl⟩
      obtain ⟨b, hp⟩ := hp
      have hx : isExtension (st c ver (serSw sw ++ (serExt x ++ (serItems rest ++ 0x01 :: suf))) pg.tag pg.attr slot)
          = true := by
        rw [serExt_eq, List.cons_append, isExtension_serSw c ver sw _ hb0]; exact hbe
      rw [contentLoop]
      simp only [List.append_assoc, h1, hp, hx, Bool.false_eq_true, ↓reduceIte, bind, Except.bind,
        parseExtension_ser c ver hc true sw hit.1 x hit.2, cond_true]
      cases hxt : extText c x with
      | none =>
        rw [hxt] at hrest
        simp only [Option.getD_none] at hrest ⊢
        rw [ihB rest own slot ⟨swPage sw pg.tag, pg.attr⟩ hrest suf _ hl]
        simp [charsEv, slotAfter]
      | some b =>
        rw [hxt] at hrest
        simp only [Option.getD_some, charsEv_append] at hrest ⊢
        rw [ihB rest own slot ⟨swPage sw pg.tag, pg.attr⟩ hrest suf _ hl]
        simp only [List.append_assoc, slotAfter]
    | pi a =>
      rw [wfItem_pi] at hit
      rw [evItem_pi] at hrest ⊢
      rw [serItem_pi] at hlen ⊢
      have hl : (serItems rest).length + 1 ≤ f := by simp only [serPi, List.length_cons] at hlen; omega
      have hpi := parsePi_ser c ver hc pg.attr a hit (serItems rest ++ 0x01 :: suf) pg.tag slot
      have hx : isExtension (st c ver (serPi a ++ (serItems rest ++ 0x01 :: suf)) pg.tag pg.attr slot) = false := by
        simp [serPi, isExtension, isExtToken]
      have h1 : isToken (st c ver (serPi a ++ (serItems rest ++ 0x01 :: suf)) pg.tag pg.attr slot) 0x01 = false := by
        simp [serPi]
      have h2 : isToken (st c ver (serPi a ++ (serItems rest ++ 0x01 :: suf)) pg.tag pg.attr slot) 0x02 = false := by
        simp [serPi]
      have h3 : isToken (st c ver (serPi a ++ (serItems rest ++ 0x01 :: suf)) pg.tag pg.attr slot) 0xC3 = false := by
        simp [serPi]
      have h4 : isToken (st c ver (serPi a ++ (serItems rest ++ 0x01 :: suf)) pg.tag pg.attr slot) 0x43 = true := by
        simp [serPi]
      have hs : isString (st c ver (serPi a ++ (serItems rest ++ 0x01 :: suf)) pg.tag pg.attr slot) = false := by
        simp [serPi]
      have hp : peekAt (st c ver (serPi a ++ (serItems rest ++ 0x01 :: suf)) pg.tag pg.attr slot) 0 = some 0x43 := rfl
      rw [contentLoop]
      simp only [h1, hp, hx, h2, hs, h3, h4, Bool.false_eq_true, ↓reduceIte, bind, Except.bind, hpi]
      rw [ihB rest own slot ⟨pg.tag, (evPi c pg.attr a).2⟩ hrest suf _ hl]
      simp only [List.append_assoc, slotAfter]
    | elem e =>
      rw [wfItem_elem] at hit
      rw [evItem_elem] at hrest ⊢
      rw [serItem_elem] at hlen ⊢
      cases e with
      | mk sw tag attrs content =>
        cases sw with
        | none =>
          have htag : wfTag c pg.tag tag = true := by
            rw [wfElem_mk] at hit
            simp only [Bool.and_eq_true, swPage, Option.getD_none] at hit
            exact hit.1.1.2
          obtain ⟨r, hr⟩ := serElem_head c pg.tag tag attrs content htag
          obtain ⟨g0, g1, g2, g3, g83, gc3, g43, ge⟩ := tagHead_facts c pg.tag (!attrs.isEmpty) content.isSome tag htag
          have hg0 : tagHead (tagFlags (!attrs.isEmpty) content.isSome) tag ≠ 0 := by simpa using g0
          have hl1 : (serElem (.mk none tag attrs content)).length ≤ f := by omega
          have hl : (serItems rest).length + 1 ≤ f := by
            have : 1 ≤ (serElem (.mk none tag attrs content)).length := by rw [hr]; simp
            omega
          have hA := ihA (.mk none tag attrs content) slot pg hit (serItems rest ++ 0x01 :: suf) ev hl1
          rw [contentLoop]
          rw [hr] at hA ⊢
          simp only [List.cons_append, isToken_cons, peekAt_zero, isExtension_cons c ver _ hg0, isString_cons,
            g0, g1, g2, g3, g83, gc3, g43, ge, Bool.or_self, Bool.false_eq_true, ↓reduceIte, bind, Except.bind] at hA ⊢
          simp only [hA]
          simp only [slotAfter] at hrest ⊢
          rw [ihB rest own none _ hrest suf _ hl]
          simp only [List.append_assoc]
        | some p =>
          rw [wfElem_sw, Bool.and_eq_true, decide_eq_true_eq] at hit
          obtain ⟨hp, hit⟩ := hit
          have htag : wfTag c p tag = true := by
            rw [wfElem_mk] at hit
            simp only [Bool.and_eq_true, swPage, Option.getD_none] at hit
            exact hit.1.1.2
          obtain ⟨r, hr⟩ := serElem_head c p tag attrs content htag
          obtain ⟨g0, g1, g2, g3, g83, gc3, g43, ge⟩ := tagHead_facts c p (!attrs.isEmpty) content.isSome tag htag
          rw [evElem_sw] at hrest ⊢
          rw [serElem_sw] at hlen ⊢
          have hl : (serItems (.elem (.mk none tag attrs content) :: rest)).length + 1 ≤ f := by
            rw [serItems_cons, serItem_elem]; simp only [List.length_cons, List.length_append] at hlen ⊢; omega
          have hwf2 : wfItems c own slot ⟨p, pg.attr⟩ (.elem (.mk none tag attrs content) :: rest) = true := by
            rw [wfItems_cons, wfItem_elem, evItem_elem, Bool.and_eq_true]
            exact ⟨hit, hrest⟩
          have hB := ihB _ own slot ⟨p, pg.attr⟩ hwf2 suf ev hl
          rw [serItems_cons, serItem_elem, evItems_cons, evItem_elem, List.append_assoc] at hB
          simp only [slotEnd] at hB
          rw [contentLoop]
          rw [hr] at hB ⊢
          simp only [List.cons_append, isToken_cons, peekAt_zero, isExtension_sw, isString_cons, ge,
            show ((0 : UInt8) == 1) = false by decide, show ((0 : UInt8) == 2) = false by decide,
            show ((0 : UInt8) == 3) = false by decide, show ((0 : UInt8) == 0x83) = false by decide,
            show ((0 : UInt8) == 0xC3) = false by decide, show ((0 : UInt8) == 0x43) = false by decide,
            Bool.or_self, beq_self_eq_true, Bool.false_eq_true, ↓reduceIte, bind, Except.bind,
            parseSwitchPage_tag c ver p hp] at hB ⊢
          rw [hB]
          simp only [slotAfter]

theorem serElem_length (e : Elem) : 1 ≤ (serElem e).length := by
  cases e with
  | mk sw tag attrs content =>
    rw [serElem_mk, serTag_eq]
    simp only [List.length_append, List.length_cons]; omega

/-- Elements and content lists of any size and depth: with fuel at least the serialised length,
    the parser consumes exactly the serialisation and delivers the specified events. -/
theorem body_ser (c : Ctx) (ver) (hc : c.ok = true) : ∀ f, PA c ver f ∧ PB c ver f
  | 0 => ⟨fun e _ _ _ _ _ hlen => by have := serElem_length e; omega,
          fun _ _ _ _ _ _ _ hlen => by omega⟩
  | f + 1 =>
    have ih := body_ser c ver hc f
    ⟨elem_step c ver hc f ih.2, items_step c ver hc f ih.1 ih.2⟩

/-- `element`, any fuel that covers the serialised length. -/
theorem parseElement_ser (c : Ctx) (ver) (hc : c.ok = true) (e : Elem) (slot : Option TagRow) (pg : Pages)
    (hwf : wfElem c slot pg e = true) (suf : Bytes) (ev : List Event) (f : Nat) (hf : (serElem e).length ≤ f) :
    parseElement f ev (st c ver (serElem e ++ suf) pg.tag pg.attr slot) =
      .ok (ev ++ (evElem c pg e).1, st c ver suf (evElem c pg e).2.tag (evElem c pg e).2.attr none) :=
  (body_ser c ver hc f).1 e slot pg hwf suf ev hf

/-- `*content END` (up to the `END`). -/
theorem contentLoop_ser (c : Ctx) (ver) (hc : c.ok = true) (items : List Item) (own slot : Option TagRow)
    (pg : Pages) (hwf : wfItems c own slot pg items = true) (suf : Bytes) (ev : List Event) (f : Nat)
    (hf : (serItems items).length + 1 ≤ f) :
    contentLoop f ev (st c ver (serItems items ++ 0x01 :: suf) pg.tag pg.attr slot) =
      .ok (ev ++ (evItems c own pg items).1,
        st c ver (0x01 :: suf) (evItems c own pg items).2.tag (evItems c own pg items).2.attr (slotEnd slot items)) :=
  (body_ser c ver hc f).2 items own slot pg hwf suf ev hf

/-! ### `body = *pi element *pi` -/

theorem serPi_length (a : Attribute) : 1 ≤ (serPi a).length := by simp [serPi]

theorem serPis_length (ps : List Attribute) : ps.length ≤ (serPis ps).length := by
  induction ps with
  | nil => simp
  | cons a as ih => have := serPi_length a; simp only [serPis, List.length_cons, List.length_append]; omega

theorem piLoop_ser (c : Ctx) (ver) (hc : c.ok = true) (ps : List Attribute) : ∀ (ap : Nat)
    (_ : wfPis c ap ps = true) (suf : Bytes) (_ : suf.head? ≠ some 0x43) (f : Nat) (_ : ps.length < f)
    (ev : List Event) (tp cur),
    piLoop f ev (st c ver (serPis ps ++ suf) tp ap cur) =
      .ok (ev ++ (evPis c ap ps).1, st c ver suf tp (evPis c ap ps).2 cur) := by
  induction ps with
  | nil =>
    intro ap _ suf hsuf f hf ev tp cur
    obtain ⟨f', rfl⟩ : ∃ f', f = f' + 1 := ⟨f - 1, by omega⟩
    have : isToken (st c ver suf tp ap cur) 0x43 = false := by
      cases suf with
      | nil => simp
      | cons b r =>
        simp only [List.head?_cons, ne_eq, Option.some.injEq] at hsuf
        simp [hsuf]
    simp only [serPis, List.nil_append, piLoop, this, Bool.false_eq_true, ↓reduceIte, pure, Except.pure, evPis,
      List.append_nil]
  | cons a ps ih =>
    intro ap hwf suf hsuf f hf ev tp cur
    obtain ⟨f', rfl⟩ : ∃ f', f = f' + 1 := ⟨f - 1, by omega⟩
    simp only [wfPis, Bool.and_eq_true] at hwf
    have h43 : isToken (st c ver (serPi a ++ (serPis ps ++ suf)) tp ap cur) 0x43 = true := by simp [serPi]
    simp only [serPis, List.append_assoc, piLoop, h43, ↓reduceIte, bind, Except.bind,
      parsePi_ser c ver hc ap a hwf.1]
    rw [ih _ hwf.2 suf hsuf f' (by simpa using hf)]
    simp only [evPis, List.append_assoc, List.singleton_append]

theorem serElem_head43 (c : Ctx) (slot) (pg : Pages) (e : Elem) (h : wfElem c slot pg e = true) (r : Bytes) :
    (serElem e ++ r).head? ≠ some 0x43 := by
  cases e with
  | mk sw tag attrs content =>
    cases sw with
    | some p => rw [serElem_sw]; simp
    | none =>
      rw [wfElem_mk] at h
      simp only [Bool.and_eq_true, swPage, Option.getD_none] at h
      obtain ⟨r', hr⟩ := serElem_head c pg.tag tag attrs content h.1.1.2
      obtain ⟨-, -, -, -, -, -, g43, -⟩ := tagHead_facts c pg.tag (!attrs.isEmpty) content.isSome tag h.1.1.2
      rw [hr]; simpa using g43

/-- `body`: leading PIs, the root element, trailing PIs; whatever follows (`trail`) is not looked at. -/
theorem parseBody_ser (c : Ctx) (ver) (hc : c.ok = true) (pre post : List Attribute) (root : Elem)
    (hpre : wfPis c 0 pre = true) (hroot : wfElem c none ⟨0, (evPis c 0 pre).2⟩ root = true)
    (hpost : wfPis c (evElem c ⟨0, (evPis c 0 pre).2⟩ root).2.attr post = true)
    (trail : Bytes) (htrail : trail.head? ≠ some 0x43) (ev : List Event) :
    parseBody ev (st c ver (serPis pre ++ (serElem root ++ (serPis post ++ trail))) 0 0 none) =
      .ok (ev ++ ((evPis c 0 pre).1 ++ ((evElem c ⟨0, (evPis c 0 pre).2⟩ root).1 ++
          (evPis c (evElem c ⟨0, (evPis c 0 pre).2⟩ root).2.attr post).1)),
        st c ver trail (evElem c ⟨0, (evPis c 0 pre).2⟩ root).2.tag
          (evPis c (evElem c ⟨0, (evPis c 0 pre).2⟩ root).2.attr post).2 none) := by
  unfold parseBody
  have hf1 : pre.length < (serPis pre ++ (serElem root ++ (serPis post ++ trail))).length + 1 := by
    have := serPis_length pre; simp only [List.length_append]; omega
  simp only [bind, Except.bind]
  rw [piLoop_ser c ver hc pre 0 hpre _ (serElem_head43 c none _ root hroot _) _ hf1]
  simp only []
  rw [parseElement_ser c ver hc root none ⟨0, (evPis c 0 pre).2⟩ hroot _ _ _ (by
    simp only [List.length_append]; omega)]
  simp only []
  rw [piLoop_ser c ver hc post _ hpost trail htrail _ (by
    have := serPis_length post; simp only [List.length_append]; omega)]
  simp only [List.append_assoc]

end Wbxml.Lemmas.ParseSer
