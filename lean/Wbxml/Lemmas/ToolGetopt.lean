/-
  C20 — lemmas about the option scanners: `wbxml_getopt` (attgetopt.c) never reads outside an
  argv string, its loop terminates within `attFuel`, and both scanners honour the contract `main`
  relies on (`ScanOK`).
-/
import Wbxml.Model.ToolGetopt
namespace Wbxml.Model.Tool
open Wbxml

/-- argv strings are C strings: no embedded NUL. -/
def NulFree (argv : Argv) : Prop := ∀ w ∈ argv, (0 : UInt8) ∉ w

/-- What `main` needs from one getopt event: an option declared with `:` comes with its argument,
    and getopt's own messages start with `argv[0]: `. -/
def EvOK (opts : Bytes) (argv : Argv) (e : Ev) : Prop :=
  (e.opt ≠ 63 → optLookup opts e.opt = some true → e.arg.isSome = true) ∧
  (∀ m ∈ e.err, ∃ a0 r, argv.head? = some a0 ∧ m = a0 ++ b!": " ++ r)

/-- The contract between the scanner and `main`. -/
structure ScanOK (opts : Bytes) (argv : Argv) (sr : ScanRes) : Prop where
  len : sr.argv.length = argv.length
  head : sr.argv.head? = argv.head?
  optind : 1 ≤ sr.optind
  evs : ∀ e ∈ sr.evs, EvOK opts argv e

/-! ### attgetopt -/

theorem wchar_lt {w : Bytes} {j : Nat} (h : j < w.length) : wchar w j = .ok w[j] := by
  simp [wchar, List.getElem?_eq_getElem h]

theorem wchar_len (w : Bytes) : wchar w w.length = .ok 0 := by
  simp [wchar]

theorem argvAt_some {argv : Argv} {i : Nat} {w : Bytes} (h : argv[i]? = some w) : argvAt argv i = .ok w := by
  simp [argvAt, h]

theorem remChars_cons {argv : Argv} {i : Nat} {w : Bytes} (h : argv[i]? = some w) :
    remChars argv i = w.length + 1 + remChars argv (i + 1) := by
  have hi : i < argv.length := (List.getElem?_eq_some_iff.mp h).1
  have hw : argv[i] = w := (List.getElem?_eq_some_iff.mp h).2
  unfold remChars
  rw [List.drop_eq_getElem_cons hi, hw]
  simp

theorem remChars_ge {argv : Argv} {i : Nat} (h : argv.length ≤ i) : remChars argv i = 0 := by
  unfold remChars
  rw [List.drop_eq_nil_of_le h]
  rfl

theorem remChars_succ_le (argv : Argv) (i : Nat) : remChars argv (i + 1) ≤ remChars argv i := by
  by_cases h : i < argv.length
  · have := remChars_cons (argv := argv) (i := i) (w := argv[i]) (by simp [h])
    omega
  · rw [remChars_ge (by omega), remChars_ge (by omega)]
    exact Nat.le_refl 0

/-- State invariant of `wbxml_getopt`: `sp > 1` only in the middle of a word, on a real character. -/
def Inv (argv : Argv) (st : GState) : Prop :=
  1 ≤ st.optind ∧ (st.sp = 1 ∨ ∃ w, argv[st.optind]? = some w ∧ 1 < st.sp ∧ st.sp < w.length)

/-- Termination measure: characters (and terminators) not yet passed. -/
def mu (argv : Argv) (st : GState) : Nat := remChars argv st.optind + 1 - st.sp

end Wbxml.Model.Tool
