/-
  C20 — lemmas about the option scanners: `wbxml_getopt` (attgetopt.c) never reads outside an
  argv string, its loop terminates within `attFuel`, and both scanners honour the contract `main`
  relies on (`ScanOK`).
-/
import Wbxml.Model.ToolGetopt
namespace Wbxml.Model.Tool
open Wbxml

/-- argv strings are C strings: no embedded NUL. -/
def NulFree (argv : Argv) : Prop := ∀ w ∈ argv, (0 : UInt8) ∉ w

/-- What `main` needs from one getopt event: an option declared with `:` comes with its argument,
    and getopt's own messages start with `argv[0]: `. -/
def EvOK (opts : Bytes) (argv : Argv) (e : Ev) : Prop :=
  (e.opt ≠ 63 → optLookup opts e.opt = some true → e.arg.isSome = true) ∧
  (∀ m ∈ e.err, ∃ a0 r, argv.head? = some a0 ∧ m = a0 ++ b!": " ++ r)

/-- The contract between the scanner and `main`. -/
structure ScanOK (opts : Bytes) (argv : Argv) (sr : ScanRes) : Prop where
  len : sr.argv.length = argv.length
  head : sr.argv.head? = argv.head?
  optind : 1 ≤ sr.optind
  evs : ∀ e ∈ sr.evs, EvOK opts argv e

/-! ### attgetopt -/

theorem wchar_lt {w : Bytes} {j : Nat} (h : j < w.length) : wchar w j = .ok w[j] := by
  simp [wchar, List.getElem?_eq_getElem h]

theorem wchar_len (w : Bytes) : wchar w w.length = .ok 0 := by
  simp [wchar]

theorem argvAt_some {argv : Argv} {i : Nat} {w : Bytes} (h : argv[i]? = some w) : argvAt argv i = .ok w := by
  simp [argvAt, h]

theorem remChars_cons {argv : Argv} {i : Nat} {w : Bytes} (h : argv[i]? = some w) :
    remChars argv i = w.length + 1 + remChars argv (i + 1) := by
  have hi : i < argv.length := (List.getElem?_eq_some_iff.mp h).1
  have hw : argv[i] = w := (List.getElem?_eq_some_iff.mp h).2
  unfold remChars
  rw [List.drop_eq_getElem_cons hi, hw]
  simp

theorem remChars_ge {argv : Argv} {i : Nat} (h : argv.length ≤ i) : remChars argv i = 0 := by
  unfold remChars
  rw [List.drop_eq_nil_of_le h]
  rfl

theorem remChars_succ_le (argv : Argv) (i : Nat) : remChars argv (i + 1) ≤ remChars argv i := by
  by_cases h : i < argv.length
  · have := remChars_cons (argv := argv) (i := i) (w := argv[i]) (by simp [h])
    omega
  · rw [remChars_ge (by omega), remChars_ge (by omega)]
    exact Nat.le_refl 0

/-- State invariant of `wbxml_getopt`: `sp > 1` only in the middle of a word, on a real character. -/
def Inv (argv : Argv) (st : GState) : Prop :=
  1 ≤ st.optind ∧ (st.sp = 1 ∨ ∃ w, argv[st.optind]? = some w ∧ 1 < st.sp ∧ st.sp < w.length)

/-- Termination measure: characters (and terminators) not yet passed. -/
def mu (argv : Argv) (st : GState) : Nat := remChars argv st.optind + 1 - st.sp

theorem nulFree_getElem {argv : Argv} (hn : NulFree argv) {i : Nat} {w : Bytes} (hw : argv[i]? = some w)
    {j : Nat} (hj : j < w.length) : w[j] ≠ 0 := by
  intro h0
  exact hn w (List.mem_of_getElem? hw) (h0 ▸ List.getElem_mem hj)

/-- The character after position `sp` as C reads it, with what it tells us. -/
theorem wchar_next {argv : Argv} (hn : NulFree argv) {i : Nat} {w : Bytes} (hw : argv[i]? = some w)
    {sp : Nat} (hs : sp < w.length) :
    (sp + 1 = w.length ∧ wchar w (sp + 1) = .ok 0) ∨
    (sp + 1 < w.length ∧ ∃ c, c ≠ 0 ∧ wchar w (sp + 1) = .ok c) := by
  by_cases h : sp + 1 < w.length
  · exact .inr ⟨h, w[sp + 1], nulFree_getElem hn hw h, wchar_lt h⟩
  · have : sp + 1 = w.length := by omega
    exact .inl ⟨this, this ▸ wchar_len w⟩

theorem attDecide_spec (opts : Bytes) (argv : Argv) (st : GState) (w a0 : Bytes) (nxt : UInt8)
    (look : Option Bool)
    (h1 : 1 ≤ st.optind) (hw : argv[st.optind]? = some w) (hs1 : 1 ≤ st.sp) (hs : st.sp < w.length)
    (hhead : argv.head? = some a0)
    (hlook : look = some true → optLookup opts w[st.sp] = some true)
    (hlook' : look = some false → optLookup opts w[st.sp] = some false)
    (hnx : (st.sp + 1 = w.length ∧ nxt = 0) ∨ (st.sp + 1 < w.length ∧ nxt ≠ 0)) :
    ∃ e st', attDecide argv st w a0 w[st.sp] nxt look = .ok (.ev e st') ∧ Inv argv st' ∧
      mu argv st' < mu argv st ∧ EvOK opts argv e := by
  have hlt : st.optind < argv.length := (List.getElem?_eq_some_iff.mp hw).1
  have hrem := remChars_cons hw
  have hmono := remChars_succ_le argv (st.optind + 1)
  -- the shared "advance" step
  have hadv : Inv argv (advance st nxt) ∧ mu argv (advance st nxt) < mu argv st := by
    rcases hnx with ⟨hend, h0⟩ | ⟨hmid, hne⟩
    · subst h0
      have : advance st 0 = ⟨st.optind + 1, 1⟩ := by simp [advance]
      rw [this]
      refine ⟨⟨by simp, .inl rfl⟩, ?_⟩
      simp only [mu]
      omega
    · have hb : (nxt == 0) = false := by simpa using hne
      have : advance st nxt = ⟨st.optind, st.sp + 1⟩ := by simp [advance, hb]
      rw [this]
      refine ⟨⟨h1, .inr ⟨w, hw, by simp; omega, by simpa using hmid⟩⟩, ?_⟩
      simp only [mu]
      omega
  have hmsgI : ∀ m ∈ [attIllegal a0 w[st.sp]], ∃ a r, argv.head? = some a ∧ m = a ++ b!": " ++ r := by
    intro m hm
    rw [List.mem_singleton] at hm
    exact ⟨a0, b!"illegal option -- " ++ [w[st.sp]], hhead, by rw [hm]; simp [attIllegal]⟩
  have hmsgN : ∀ m ∈ [attNeedsArg a0 w[st.sp]], ∃ a r, argv.head? = some a ∧ m = a ++ b!": " ++ r := by
    intro m hm
    rw [List.mem_singleton] at hm
    exact ⟨a0, b!"option requires an argument -- " ++ [w[st.sp]], hhead, by rw [hm]; simp [attNeedsArg]⟩
  cases look with
  | none =>
    exact ⟨_, _, rfl, hadv.1, hadv.2, fun h => absurd rfl h, hmsgI⟩
  | some b =>
    cases b with
    | false =>
      refine ⟨_, _, rfl, hadv.1, hadv.2, ?_, by intro m hm; cases hm⟩
      intro _ h
      rw [hlook' rfl] at h
      cases h
    | true =>
      rcases hnx with ⟨hend, h0⟩ | ⟨hmid, hne⟩
      · subst h0
        by_cases hge : st.optind + 1 ≥ argv.length
        · refine ⟨⟨63, none, [attNeedsArg a0 w[st.sp]]⟩, ⟨st.optind + 1, 1⟩, ?_, ⟨by simp, .inl rfl⟩, ?_,
            fun h => absurd rfl h, hmsgN⟩
          · simp [attDecide, hge]
          · simp only [mu]; omega
        · have hlt2 : st.optind + 1 < argv.length := by omega
          have hnext : argv[st.optind + 1]? = some argv[st.optind + 1] := by simp [hlt2]
          have hrem2 := remChars_cons hnext
          rw [show st.optind + 1 + 1 = st.optind + 2 from rfl] at hrem2
          refine ⟨⟨w[st.sp], some argv[st.optind + 1], []⟩, ⟨st.optind + 2, 1⟩, ?_, ⟨by simp, .inl rfl⟩, ?_,
            fun _ _ => rfl, by intro m hm; cases hm⟩
          · simp [attDecide, hge, argvAt_some hnext]
          · simp only [mu]; omega
      · have hb : (nxt != 0) = true := by simp [hne]
        refine ⟨⟨w[st.sp], some (w.drop (st.sp + 1)), []⟩, ⟨st.optind + 1, 1⟩, ?_, ⟨by simp, .inl rfl⟩, ?_,
          fun _ _ => rfl, by intro m hm; cases hm⟩
        · simp [attDecide, hb]
        · simp only [mu]; omega

theorem attBody_spec (opts : Bytes) (argv : Argv) (st : GState) (w : Bytes) (hn : NulFree argv)
    (h1 : 1 ≤ st.optind) (hw : argv[st.optind]? = some w) (hs1 : 1 ≤ st.sp) (hs : st.sp < w.length) :
    ∃ e st', attBody opts argv st = .ok (.ev e st') ∧ Inv argv st' ∧ mu argv st' < mu argv st ∧
      EvOK opts argv e := by
  have hlt : st.optind < argv.length := (List.getElem?_eq_some_iff.mp hw).1
  have hc : w[st.sp] ≠ 0 := nulFree_getElem hn hw hs
  have hc' : (w[st.sp] == 0) = false := by simpa using hc
  obtain ⟨a0, ha0⟩ : ∃ a0, argv[0]? = some a0 :=
    ⟨argv[0]'(by omega), List.getElem?_eq_getElem (by omega)⟩
  have hhead : argv.head? = some a0 := by
    cases argv with
    | nil => simp at ha0
    | cons x xs => simpa using ha0
  obtain ⟨nxt, hnxt, hnx⟩ : ∃ nxt, wchar w (st.sp + 1) = .ok nxt ∧
      ((st.sp + 1 = w.length ∧ nxt = 0) ∨ (st.sp + 1 < w.length ∧ nxt ≠ 0)) := by
    rcases wchar_next hn hw hs with ⟨hend, h⟩ | ⟨hmid, c, hcne, h⟩
    · exact ⟨0, h, .inl ⟨hend, rfl⟩⟩
    · exact ⟨c, h, .inr ⟨hmid, hcne⟩⟩
  have hb : attBody opts argv st =
      attDecide argv st w a0 w[st.sp] nxt (if w[st.sp] == 58 then none else optLookup opts w[st.sp]) := by
    simp [attBody, argvAt_some hw, wchar_lt hs, argvAt_some ha0, hc', hnxt]
  rw [hb]
  apply attDecide_spec opts argv st w a0 nxt _ h1 hw hs1 hs hhead _ _ hnx
  · intro h
    split at h
    · cases h
    · exact h
  · intro h
    split at h
    · cases h
    · exact h

theorem attStep_spec (opts : Bytes) (argv : Argv) (st : GState) (hn : NulFree argv) (hi : Inv argv st) :
    (∃ st', attStep opts argv st = .ok (.eof st') ∧ 1 ≤ st'.optind) ∨
    (∃ e st', attStep opts argv st = .ok (.ev e st') ∧ Inv argv st' ∧ mu argv st' < mu argv st ∧
      EvOK opts argv e) := by
  obtain ⟨h1, hsp⟩ := hi
  rcases hsp with hsp | ⟨w, hw, hgt, hlt⟩
  · -- at the beginning of a word
    unfold attStep
    simp only [hsp, beq_self_eq_true, if_true]
    by_cases hge : st.optind ≥ argv.length
    · exact .inl ⟨st, by simp [hge], h1⟩
    · simp only [hge, if_false]
      have hl : st.optind < argv.length := by omega
      have hw : argv[st.optind]? = some argv[st.optind] := List.getElem?_eq_getElem hl
      generalize argv[st.optind] = w at hw
      simp only [argvAt_some hw]
      match w, hw with
      | [], _ => exact .inl ⟨st, by simp [wchar], h1⟩
      | c0 :: rest, hw =>
        by_cases h45 : c0 = 45
        · subst h45
          match rest, hw with
          | [], _ => exact .inl ⟨st, by simp [wchar], h1⟩
          | c1 :: r, hw =>
            have hc1 : c1 ≠ 0 := by
              have := nulFree_getElem hn hw (j := 1) (by simp)
              simpa using this
            have hb : (c1 == 0) = false := by simpa using hc1
            have := attBody_spec opts argv st (45 :: c1 :: r) hn h1 hw (by omega) (by simp [hsp])
            refine .inr ?_
            simpa [wchar, hb] using this
        · have hb : (c0 != 45) = true := by simp [h45]
          exact .inl ⟨st, by simp [wchar, hb], h1⟩
  · -- in the middle of a word (`sp > 1`): the word cannot be "--"
    unfold attStep
    have hne : (st.sp == 1) = false := by
      simp only [beq_eq_false_iff_ne, ne_eq]
      omega
    have hdd : (w == b!"--") = false := by
      simp only [beq_eq_false_iff_ne, ne_eq]
      intro h
      rw [h] at hlt
      simp at hlt
      omega
    simp only [hne, Bool.false_eq_true, if_false, argvAt_some hw, hdd]
    exact .inr (attBody_spec opts argv st w hn h1 hw (by omega) hlt)

theorem attLoop_spec (opts : Bytes) (argv : Argv) (hn : NulFree argv) :
    ∀ (n : Nat) (st : GState) (acc : List Ev), Inv argv st → mu argv st < n →
      (∀ e ∈ acc, EvOK opts argv e) →
      ∃ sr, attLoop opts argv n st acc = .ok sr ∧ ScanOK opts argv sr := by
  intro n
  induction n with
  | zero => intro st acc _ h; omega
  | succ n ih =>
    intro st acc hi hmu hacc
    rcases attStep_spec opts argv st hn hi with ⟨st', hst, h1⟩ | ⟨e, st', hst, hi', hlt, hev⟩
    · refine ⟨⟨acc.reverse, st'.optind, argv⟩, by simp [attLoop, hst], rfl, rfl, h1, ?_⟩
      intro e he
      exact hacc e (List.mem_reverse.mp he)
    · have := ih st' (e :: acc) hi' (by omega) (by
        intro x hx
        rcases List.mem_cons.mp hx with rfl | hx
        · exact hev
        · exact hacc x hx)
      simpa [attLoop, hst] using this

/-- `wbxml_getopt` run to EOF on any argv of C strings: no read outside a string, no dereference of
    `argv[argc]`, the fuel is never exhausted, and the result honours the contract. -/
theorem attScan_ok (opts : Bytes) (argv : Argv) (hn : NulFree argv) :
    ∃ sr, attScan opts argv = .ok sr ∧ ScanOK opts argv sr := by
  apply attLoop_spec opts argv hn (attFuel argv) ⟨1, 1⟩ [] ⟨Nat.le_refl 1, .inl rfl⟩
  · have := remChars_succ_le argv 0
    rw [show (0 : Nat) + 1 = 1 from rfl] at this
    simp only [mu, attFuel]
    omega
  · intro e he
    cases he

/-! ### glibc getopt specification -/

theorem gnuCluster_evs (opts a0 : Bytes) (argv : Argv) (hh : argv.head? = some a0) :
    ∀ (cs : Bytes) (next : List Bytes), ∀ e ∈ (gnuCluster opts a0 cs next).1, EvOK opts argv e := by
  intro cs
  induction cs with
  | nil => intro next e he; simp [gnuCluster] at he
  | cons c cs ih =>
    intro next e he
    unfold gnuCluster at he
    split at he
    · rcases List.mem_cons.mp he with rfl | he
      · refine ⟨fun h => absurd rfl h, ?_⟩
        intro m hm
        rw [List.mem_singleton] at hm
        exact ⟨a0, b!"invalid option -- '" ++ [c] ++ b!"'", hh, by rw [hm]; simp [gnuInvalid]⟩
      · exact ih next e he
    · rename_i hl
      rcases List.mem_cons.mp he with rfl | he
      · refine ⟨?_, by intro m hm; cases hm⟩
        intro _ h
        split at hl
        · cases hl
        · rw [hl] at h; cases h
      · exact ih next e he
    · split at he
      · rw [List.mem_singleton] at he
        subst he
        exact ⟨fun _ _ => rfl, by intro m hm; cases hm⟩
      · rw [List.mem_singleton] at he
        subst he
        refine ⟨fun h => absurd rfl h, ?_⟩
        intro m hm
        rw [List.mem_singleton] at hm
        exact ⟨a0, b!"option requires an argument -- '" ++ [c] ++ b!"'", hh, by rw [hm]; simp [gnuNeedsArg]⟩
      · rw [List.mem_singleton] at he
        subst he
        exact ⟨fun _ _ => rfl, by intro m hm; cases hm⟩

theorem gnuWords_spec (opts a0 : Bytes) (argv : Argv) (hh : argv.head? = some a0) :
    ∀ (ws : List Bytes) (skip : Bool),
      (∀ e ∈ (gnuWords opts a0 ws skip).evs, EvOK opts argv e) ∧
      (gnuWords opts a0 ws skip).optWords.length + (gnuWords opts a0 ws skip).nonOpts.length = ws.length := by
  intro ws
  induction ws with
  | nil => intro skip; simp [gnuWords]
  | cons w rest ih =>
    intro skip
    cases skip with
    | true =>
      have := ih false
      simp only [gnuWords, List.length_cons]
      exact ⟨this.1, by omega⟩
    | false =>
      unfold gnuWords
      split
      · simp
        omega
      · split
        · have := ih (gnuCluster opts a0 (w.drop 1) rest).2
          refine ⟨?_, by simp only [List.length_cons]; omega⟩
          intro e he
          rcases List.mem_append.mp he with he | he
          · exact gnuCluster_evs opts a0 argv hh _ _ e he
          · exact this.1 e he
        · have := ih false
          exact ⟨this.1, by simp only [List.length_cons]; omega⟩

/-- The glibc scanner specification honours the contract for every argv. -/
theorem gnuScan_ok (opts : Bytes) (argv : Argv) : ScanOK opts argv (gnuScan opts argv) := by
  cases argv with
  | nil => exact ⟨rfl, rfl, Nat.le_refl 1, by intro e he; cases he⟩
  | cons a0 rest =>
    have := gnuWords_spec opts a0 (a0 :: rest) rfl rest false
    refine ⟨?_, rfl, by simp [gnuScan], this.1⟩
    simp only [gnuScan, List.length_cons, List.length_append]
    omega

end Wbxml.Model.Tool
