/-
  Parser safety, part 1: the result predicate `Ok`, the cursor relation `Adv`, and the
  specifications of the leaf functions of `Model/Parser.lean`.

  `Ok P r` says: `r` is `.ok b` with `P b`, or `.error (.code c)` with `c ≠ 0` (0 is `WBXML_OK`). It is *false* for
  `.error (.ub _)`, `.error .fuel` and `.error (.crash _)`; so a proof of `Ok _ (f s)` is at the same
  time the no-UB statement, the fuel statement and the post-condition of a successful run.
-/
import Wbxml.Model.Parser
namespace Wbxml.Lemmas.ParserSafe
open Wbxml Wbxml.Model

-- The error-code constants are literals (none of them is 0 = `WBXML_OK`).
attribute [local simp] E.badDatetime E.internal E.langTableUndefined E.tagTableUndefined E.b64Enc
  E.wvDatetimeFormat E.noCharsetConv E.charsetStrLen E.charsetNotFound E.attrTableUndefined
  E.attrValueTableUndefined E.badOpaqueLength E.emptyWbxml E.endOfBuffer E.extValueTableUndefined
  E.invalidStrtblIndex E.nullStringTable E.stringExpected E.strtblLength E.unknownAttrValue
  E.unknownExtensionToken E.unknownPublicId E.unvalidMbUint32 E.wvIntegerOverflow E.invalidUnicode

/-! ### The result predicate -/

def Ok {β : Type} (P : β → Prop) : Except Err β → Prop
  | .ok b => P b
  | .error (.code c) => c ≠ 0
  | .error _ => False

@[simp] theorem Ok_ok {β} {P : β → Prop} {b : β} : Ok P (.ok b) = P b := rfl
@[simp] theorem Ok_pure {β} {P : β → Prop} {b : β} : Ok P (pure b : Except Err β) = P b := rfl
@[simp] theorem Ok_code {β} {P : β → Prop} {c : Nat} : Ok P (.error (.code c) : Except Err β) = (c ≠ 0) := rfl
@[simp] theorem Ok_fuel {β} {P : β → Prop} : Ok P (.error .fuel : Except Err β) = False := rfl
@[simp] theorem Ok_ub {β} {P : β → Prop} {w : String} : Ok P (.error (.ub w) : Except Err β) = False := rfl
@[simp] theorem Ok_crash {β} {P : β → Prop} {w : String} : Ok P (.error (.crash w) : Except Err β) = False := rfl

theorem Ok.bind {β γ : Type} {P : β → Prop} {Q : γ → Prop} {m : Except Err β} {f : β → Except Err γ}
    (hm : Ok P m) (hf : ∀ b, P b → Ok Q (f b)) : Ok Q (m >>= f) := by
  cases m with
  | error e => cases e <;> first | exact hm | exact True.intro
  | ok b => exact hf b hm

theorem Ok.mono {β : Type} {P Q : β → Prop} {m : Except Err β} (hm : Ok P m) (h : ∀ b, P b → Q b) : Ok Q m := by
  cases m with
  | error e => cases e <;> first | exact hm | exact True.intro
  | ok b => exact h b hm

/-- What `Ok` says about a concrete outcome. -/
theorem Ok.of_ok {β : Type} {P : β → Prop} {m : Except Err β} {b : β} (hm : Ok P m) (h : m = .ok b) : P b := by
  subst h; exact hm

theorem Ok.not_ub {β : Type} {P : β → Prop} {m : Except Err β} (hm : Ok P m) (w : String) : m ≠ .error (.ub w) := by
  intro h; subst h; exact hm

theorem Ok.not_fuel {β : Type} {P : β → Prop} {m : Except Err β} (hm : Ok P m) : m ≠ .error .fuel := by
  intro h; subst h; exact hm

theorem Ok.not_crash {β : Type} {P : β → Prop} {m : Except Err β} (hm : Ok P m) (w : String) : m ≠ .error (.crash w) := by
  intro h; subst h; exact hm

/-- Totality: an `Ok` result is a success or a library error code. -/
theorem Ok.cases {β : Type} {P : β → Prop} {m : Except Err β} (hm : Ok P m) :
    (∃ b, m = .ok b ∧ P b) ∨ (∃ c, m = .error (.code c) ∧ c ≠ 0) := by
  cases m with
  | ok b => exact Or.inl ⟨b, rfl, hm⟩
  | error e =>
    cases e with
    | code c => exact Or.inr ⟨c, rfl, hm⟩
    | ub w => exact absurd hm (by simp)
    | fuel => exact absurd hm (by simp)
    | crash w => exact absurd hm (by simp)

/-- A result that is never `ub`/`fuel`/`crash` (no post-condition). -/
abbrev Safe {β : Type} (m : Except Err β) : Prop := Ok (fun _ => True) m

/-! ### The cursor relation

`Adv k s s'`: `s'` is `s` after at least `k` more bytes were consumed: the remaining input of `s'`
is a suffix of that of `s`, and language, string table and charset (the fields the safety argument
and the string functions read) are unchanged. -/

structure Adv (k : Nat) (s s' : PState) : Prop where
  lang : s'.lang = s.lang
  strtbl : s'.strtbl = s.strtbl
  charset : s'.charset = s.charset
  suffix : s'.rest <:+ s.rest
  len : s'.rest.length + k ≤ s.rest.length

theorem Adv.refl (s : PState) : Adv 0 s s := ⟨rfl, rfl, rfl, List.suffix_refl _, Nat.le_refl _⟩

theorem Adv.trans {k j m : Nat} {s s' s'' : PState} (h1 : Adv k s s') (h2 : Adv j s' s'')
    (hm : m ≤ k + j := by omega) : Adv m s s'' :=
  ⟨h2.lang.trans h1.lang, h2.strtbl.trans h1.strtbl, h2.charset.trans h1.charset,
   h2.suffix.trans h1.suffix, by have := h1.len; have := h2.len; omega⟩

theorem Adv.weaken {k m : Nat} {s s' : PState} (h : Adv k s s') (hm : m ≤ k := by omega) : Adv m s s' :=
  ⟨h.lang, h.strtbl, h.charset, h.suffix, by have := h.len; omega⟩

/-- Changing only the code pages / current tag keeps the relation. -/
theorem Adv.of_rest_eq {k : Nat} {s s' s'' : PState} (h : Adv k s s') (hl : s''.lang = s'.lang)
    (ht : s''.strtbl = s'.strtbl) (hc : s''.charset = s'.charset) (hr : s''.rest = s'.rest) : Adv k s s'' :=
  ⟨hl.trans h.lang, ht.trans h.strtbl, hc.trans h.charset, hr ▸ h.suffix, hr ▸ h.len⟩

/-! ### Token tests -/

theorem isToken_iff {s : PState} {t : UInt8} : isToken s t = true ↔ ∃ r, s.rest = t :: r := by
  unfold isToken
  cases h : s.rest with
  | nil => simp
  | cons b r =>
    simp only [List.head?_cons, List.cons.injEq]
    constructor
    · intro hb
      have : b = t := by simpa using hb
      exact ⟨r, this, rfl⟩
    · rintro ⟨r', hb, _⟩
      simp [hb]

theorem isToken_ne_nil {s : PState} {t : UInt8} (h : isToken s t = true) : s.rest ≠ [] := by
  obtain ⟨r, hr⟩ := isToken_iff.1 h
  simp [hr]

theorem isToken_nil {s : PState} {t : UInt8} (h : s.rest = []) : isToken s t = false := by
  simp [isToken, h]

theorem peekAt_zero_none {s : PState} (h : peekAt s 0 = none) : s.rest = [] := by
  unfold peekAt at h
  cases hr : s.rest with
  | nil => rfl
  | cons b r => simp [hr] at h

/-! ### Leaf functions -/

theorem skip1_ok {what : String} {s : PState} (h : s.rest ≠ []) :
    Ok (fun s' => Adv 1 s s') (skip1 what s) := by
  unfold skip1
  cases hr : s.rest with
  | nil => exact absurd hr h
  | cons b r =>
    simp only [Ok_ok]
    exact ⟨rfl, rfl, rfl, by rw [hr]; exact List.suffix_cons _ _, by simp [hr]⟩

theorem skip1_tok {what : String} {s : PState} {t : UInt8} (h : isToken s t = true) :
    Ok (fun s' => Adv 1 s s') (skip1 what s) := skip1_ok (isToken_ne_nil h)

theorem parseU8_ok (s : PState) : Ok (fun p => Adv 1 s p.2) (parseU8 s) := by
  unfold parseU8
  cases hr : s.rest with
  | nil => simp [E.endOfBuffer]
  | cons b r =>
    simp only [Ok_ok]
    exact ⟨rfl, rfl, rfl, by rw [hr]; exact List.suffix_cons _ _, by simp [hr]⟩

theorem mbLoop_ok : ∀ (n acc : Nat) (bs : Bytes),
    Ok (fun p => p.2 <:+ bs ∧ p.2.length + 1 ≤ bs.length) (mbLoop n acc bs)
  | 0, _, _ => by simp [mbLoop]
  | n + 1, acc, [] => by simp [mbLoop]
  | n + 1, acc, b :: r => by
    simp only [mbLoop]
    split
    · simp
    · refine (mbLoop_ok n _ r).mono ?_
      rintro ⟨v, r'⟩ ⟨h1, h2⟩
      exact ⟨h1.trans (List.suffix_cons _ _), by simp at h2 ⊢; omega⟩

theorem parseMb_ok (s : PState) : Ok (fun p => Adv 1 s p.2) (parseMb s) := by
  unfold parseMb
  refine Ok.bind (mbLoop_ok 5 0 s.rest) ?_
  rintro ⟨v, r⟩ ⟨h1, h2⟩
  exact ⟨rfl, rfl, rfl, h1, h2⟩

theorem convTerm_safe (cs : Nat) (avail : Bytes) :
    Ok (fun p => 1 ≤ p.2 ∧ p.2 ≤ avail.length) (convTerm cs avail) := by
  unfold convTerm
  split
  · split <;> simp
  · simp only
    split
    · simp
    · split
      · simp only [Ok_ok]; omega
      · simp

theorem parseTermstr_ok (s : PState) : Ok (fun p => Adv 1 s p.2) (parseTermstr s) := by
  unfold parseTermstr
  refine Ok.bind (convTerm_safe s.charset s.rest) ?_
  rintro ⟨str, used⟩ ⟨h1, h2⟩
  simp only [Ok_pure]
  exact ⟨rfl, rfl, rfl, List.drop_suffix _ _, by simp only [List.length_drop]; omega⟩

theorem strtblRef_safe (s : PState) (i : Nat) : Safe (strtblRef s i) := by
  unfold strtblRef
  split
  · split <;> simp
  · split
    · simp
    · refine Ok.bind (convTerm_safe _ _) ?_
      rintro ⟨str, used⟩ _
      simp

theorem entityBytes_safe (code : Nat) : Safe (entityBytes code) := by
  unfold entityBytes
  split
  · simp
  · split
    · split <;> simp
    · simp

theorem decodeBase64Value_safe (d : Bytes) : Safe (decodeBase64Value d) := by
  unfold decodeBase64Value; split <;> simp

theorem decodeDatetime_safe (d : Bytes) : Safe (decodeDatetime d) := by
  unfold decodeDatetime; simp only; split <;> simp

theorem wvIntLoop_safe : ∀ (d : Bytes) (acc : Nat), Safe (wvIntLoop d acc)
  | [], _ => by simp [wvIntLoop]
  | b :: r, acc => by
    simp only [wvIntLoop]
    split
    · simp
    · exact wvIntLoop_safe r _

theorem decodeWvInteger_safe (d : Bytes) : Safe (decodeWvInteger d) := by
  unfold decodeWvInteger
  refine Ok.bind (wvIntLoop_safe d 0) ?_
  intro v _; simp

theorem decodeWvDatetime_safe (d : Bytes) : Safe (decodeWvDatetime d) := by
  unfold decodeWvDatetime
  split
  · simp only
    split
    · simp
    · split <;> simp
  · simp

theorem decodeOpaqueContent_safe (l : Nat) (cur : Option TagRow) (d : Bytes) :
    Safe (decodeOpaqueContent l cur d) := by
  unfold decodeOpaqueContent
  split
  · split
    · simp
    · split
      · exact decodeWvInteger_safe d
      · exact decodeWvDatetime_safe d
      · simp
  · split
    · split
      · split
        · exact decodeBase64Value_safe d
        · simp
      · simp
    · split
      · split
        · split
          · exact decodeBase64Value_safe d
          · simp
        · simp
      · simp

theorem decodeOpaqueAttrValue_safe (l : Nat) (d : Bytes) : Safe (decodeOpaqueAttrValue l d) := by
  unfold decodeOpaqueAttrValue
  split
  · exact decodeBase64Value_safe d
  · simp

end Wbxml.Lemmas.ParserSafe
