/-
  C18 lemmas, part 15: the XML front end (`xbuildStep`) one event at a time, on the states the
  simulation of `TreeHeapXmlSim.lean` goes through (no error, nothing skipped, no pending request for
  an embedded document); an error is never cleared; the language is never changed after it was set,
  except by a DOCTYPE event.
-/
import Wbxml.Lemmas.TreeHeapXml
set_option linter.unusedSimpArgs false
set_option linter.unusedVariables false
namespace Wbxml.Model.TreeHeap
open Wbxml Wbxml.Model

/-! ### `attach`, `xPop` -/

theorem xattach_cons {b : XBState} {f : XFrame} {rest : List XFrame} (hs : b.stack = f :: rest) (n : Node) :
    b.attach n = { b with stack := { f with kids := addKid f.kids n } :: rest } := by
  unfold XBState.attach; rw [hs]

theorem xattach_root {b : XBState} (hs : b.stack = []) (hr : b.root = none) (n : Node) :
    b.attach n = { b with root := some n } := by
  unfold XBState.attach; rw [hs]; simp only; rw [hr]

theorem xattach_lang (b : XBState) (n : Node) : (b.attach n).lang = b.lang := by
  unfold XBState.attach
  split
  · rfl
  · split <;> rfl

theorem xattach_error (b : XBState) (n : Node) (h : b.error.isSome = true) : (b.attach n).error.isSome = true := by
  unfold XBState.attach
  split
  · exact h
  · split
    · exact h
    · rfl

theorem xPop_lang (b : XBState) : (xPop b).lang = b.lang := by
  unfold xPop
  split
  · rfl
  · split
    · exact xattach_lang _ _
    · rfl
    · exact xattach_lang _ _

/-! ### The end-element callback in two stages -/

/-- First stage of `wbxml_tree_clb_xml_end_element`: a binary-flagged element's cached base64 text is
    decoded and attached. -/
def xDecodeTop (b : XBState) : XBState :=
  match b.stack with
  | f :: rest =>
    (match f.kind, f.content with
     | .elt n _, some c =>
       if isBinaryName n then
         let txt := base64NoSpaces c
         let dec := Codec.b64Decode txt
         (match dec with
          | none => { b with error := some 19, stack := { f with content := none } :: rest }
          | some d => ({ b with stack := { f with content := none } :: rest } : XBState).attach (.text d))
       else b
     | _, _ => b)
  | [] => b

/-- Second stage: skipping bookkeeping, the embedded document, or leaving the element. -/
def xEndTail (main : List Lang) (input : Bytes) (sub : Bytes → Option (Except Nat Tree))
    (b : XBState) (name : Bytes) (idx : Nat) : XBState :=
  if b.error.isSome then b
  else if b.skipLvl > 1 then { b with skipLvl := b.skipLvl - 1 }
  else if b.skipLvl == 1 then
    if name == devinfName || name == mgmtName then
      let isMgmt := name == mgmtName
      match b.lang with
      | none => { b with error := some 101 }
      | some outer =>
        if isMgmt && outer.id != 2201 then { b with error := some 101 }
        else
          let subId : Option Nat :=
            if outer.id == 2001 then some 2002 else if outer.id == 2101 then some 2102
            else if outer.id == 2201 then (if isMgmt then some 2204 else some 2202) else none
          match subId with
          | none => { b with error := some 101 }
          | some sid =>
            match main.find? (fun (l : Lang) => l.id == sid) with
            | none => { b with error := some 101 }
            | some sl =>
              let doc := embeddedDoc input b.skipStart idx isMgmt sl
              match sub doc with
              | none => { b with need := some doc }
              | some (.error e) => { b with error := some e }
              | some (.ok t) =>
                let b := ({ b with skipLvl := 0 } : XBState).attach (.tree t.lang t.origCharset t.root)
                b
    else
      b
  else xPop b

variable (main : List Lang) (input : Bytes) (sub : Bytes → Option (Except Nat Tree))

theorem xstep_endElt (b : XBState) (name : Bytes) (idx : Nat) (h : b.need = none) :
    xbuildStep main input sub b (.endElt name idx) = xEndTail main input sub (xDecodeTop b) name idx := by
  unfold xbuildStep
  have hn : ¬ (b.need.isSome = true) := by rw [h]; exact Bool.false_ne_true
  rw [if_neg hn]
  rfl

theorem xstep_need (b : XBState) (e : XEvent) (h : b.need.isSome = true) : xbuildStep main input sub b e = b := by
  simp [xbuildStep, h]

theorem xDecodeTop_plain {b : XBState} {f : XFrame} {rest : List XFrame} (hs : b.stack = f :: rest)
    (hc : f.content = none) : xDecodeTop b = b := by
  unfold xDecodeTop
  rw [hs]
  simp only [hc]
  split
  · rename_i h; cases h
  · rfl

theorem xDecodeTop_error (b : XBState) (h : b.error.isSome = true) : (xDecodeTop b).error.isSome = true := by
  unfold xDecodeTop
  split
  · split
    · split
      · simp only
        split
        · rfl
        · exact xattach_error _ _ h
      · exact h
    · exact h
  · exact h

theorem xDecodeTop_lang (b : XBState) : (xDecodeTop b).lang = b.lang := by
  unfold xDecodeTop
  split
  · split
    · split
      · simp only
        split
        · rfl
        · exact xattach_lang _ _
      · rfl
    · rfl
  · rfl

theorem xEndTail_lang (b : XBState) (name : Bytes) (idx : Nat) :
    (xEndTail main input sub b name idx).lang = b.lang := by
  unfold xEndTail
  split
  · rfl
  · split
    · rfl
    · split
      · split
        · simp only
          split
          · rfl
          · split
            · rfl
            · split
              · rfl
              · split
                · rfl
                · split
                  · rfl
                  · rfl
                  · exact xattach_lang _ _
        · rfl
      · exact xPop_lang b

/-! ### The character-data callback in two stages -/

/-- First stage of `wbxml_tree_clb_xml_characters`: SyncML `text/clear` / vObject data gets a CDATA node. -/
def xCharsPrep (b : XBState) : XBState :=
  if (syncmlDataType (xStackFrames b.stack)).isCdata then
    (match b.stack with
     | f :: _ =>
       let firstIsCdata := match f.kids.head? with | some (.cdata _) => true | _ => false
       (match f.kind with
        | .cdata => b
        | _ => if firstIsCdata then b else { b with stack := { kind := .cdata, kids := [] } :: b.stack })
     | [] => b)
  else b

/-- Second stage: the text is cached (binary-flagged element) or attached. -/
def xCharsTail (b : XBState) (s : Bytes) : XBState :=
  match b.stack with
  | f :: rest =>
    (match f.kind with
     | .elt n _ =>
       if isBinaryName n then
         { b with stack := { f with content := some ((f.content.getD []) ++ s) } :: rest }
       else b.attach (.text s)
     | .cdata => b.attach (.text s))
  | [] => { b with error := some E.internal }

theorem xstep_chars (b : XBState) (s : Bytes) (h : b.need = none) :
    xbuildStep main input sub b (.chars s) =
      if b.error.isSome || b.skipLvl > 0 then b
      else xCharsTail (xCharsPrep b)
        (if syncmlDataType (xStackFrames b.stack) == .vobject && s == [10] then [13, 10] else s) := by
  unfold xbuildStep
  have hn : ¬ (b.need.isSome = true) := by rw [h]; exact Bool.false_ne_true
  rw [if_neg hn]
  rfl

theorem xCharsPrep_lang (b : XBState) : (xCharsPrep b).lang = b.lang := by
  unfold xCharsPrep
  split
  · split
    · simp only
      split
      · rfl
      · split <;> rfl
    · rfl
  · rfl

theorem xCharsTail_lang (b : XBState) (s : Bytes) : (xCharsTail b s).lang = b.lang := by
  unfold xCharsTail
  split
  · split
    · split
      · rfl
      · exact xattach_lang _ _
    · exact xattach_lang _ _
  · rfl

/-! ### An error is never cleared -/

theorem xstep_error (b : XBState) (e : XEvent) (h : b.error.isSome = true) :
    (xbuildStep main input sub b e).error.isSome = true := by
  by_cases hneed : b.need.isSome = true
  · rw [xstep_need _ _ _ _ _ hneed]; exact h
  have hnone : b.need = none := by
    cases hb : b.need with
    | none => rfl
    | some d => simp [hb] at hneed
  cases e with
  | endElt name idx =>
    rw [xstep_endElt _ _ _ _ _ _ hnone]
    unfold xEndTail
    rw [if_pos (xDecodeTop_error b h)]
    exact xDecodeTop_error b h
  | xmlDecl v enc =>
    unfold xbuildStep
    rw [if_neg hneed]
    simp only
    split
    · split <;> exact h
    · exact h
  | doctype sysid pubid =>
    unfold xbuildStep
    rw [if_neg hneed]
    simp only
    split <;> exact h
  | pi => unfold xbuildStep; rw [if_neg hneed]; exact h
  | startCdata => unfold xbuildStep; rw [if_neg hneed]; simp [h]
  | endCdata => unfold xbuildStep; rw [if_neg hneed]; simp [h]
  | chars s => unfold xbuildStep; rw [if_neg hneed]; simp [h]
  | startElt name attrs idx => unfold xbuildStep; rw [if_neg hneed]; simp [h]

theorem xfold_error : ∀ (es : List XEvent) (b : XBState), b.error.isSome = true →
    (es.foldl (xbuildStep main input sub) b).error.isSome = true
  | [], _, h => h
  | e :: es, b, h => xfold_error es _ (xstep_error main input sub b e h)

/-- The form in which the simulation uses it: no error at the end, none on the way. -/
theorem xfold_error_none (es : List XEvent) (b : XBState)
    (h : (es.foldl (xbuildStep main input sub) b).error = none) : b.error = none := by
  cases hb : b.error with
  | none => rfl
  | some e =>
    have := xfold_error main input sub es b (by rw [hb]; rfl)
    rw [h] at this; cases this

/-! ### The language, once set, is changed by DOCTYPE events only -/

def isDoctypeEv : XEvent → Bool
  | .doctype _ _ => true
  | _ => false

theorem xstep_lang (b : XBState) (e : XEvent) (hl : b.lang.isSome = true) (he : isDoctypeEv e = false) :
    (xbuildStep main input sub b e).lang = b.lang := by
  by_cases hneed : b.need.isSome = true
  · rw [xstep_need _ _ _ _ _ hneed]
  have hnone : b.need = none := by
    cases hb : b.need with
    | none => rfl
    | some d => simp [hb] at hneed
  cases e with
  | doctype sysid pubid => cases he
  | endElt name idx =>
    rw [xstep_endElt _ _ _ _ _ _ hnone, xEndTail_lang, xDecodeTop_lang]
  | xmlDecl v enc =>
    unfold xbuildStep
    rw [if_neg hneed]
    simp only
    split
    · split <;> rfl
    · rfl
  | pi => unfold xbuildStep; rw [if_neg hneed]
  | startCdata =>
    unfold xbuildStep; rw [if_neg hneed]; simp only
    split <;> rfl
  | endCdata =>
    unfold xbuildStep; rw [if_neg hneed]; simp only
    split
    · rfl
    · split
      · rfl
      · exact xattach_lang _ _
  | chars s =>
    rw [xstep_chars _ _ _ _ _ hnone]
    split
    · rfl
    · rw [xCharsTail_lang, xCharsPrep_lang]
  | startElt name attrs idx =>
    have hln : b.lang.isNone = false := by
      cases hb : b.lang with
      | none => rw [hb] at hl; cases hl
      | some l => rfl
    unfold xbuildStep; rw [if_neg hneed]; simp only [hln, Bool.and_false, Bool.false_eq_true, if_false]
    split
    · rfl
    · split
      · rfl
      · split
        · rfl
        · split
          · rfl
          · split <;> rfl

theorem xfold_lang : ∀ (es : List XEvent) (b : XBState), b.lang.isSome = true →
    es.all (fun e => !isDoctypeEv e) = true → (es.foldl (xbuildStep main input sub) b).lang = b.lang
  | [], _, _, _ => rfl
  | e :: es, b, hl, he => by
    simp only [List.all_cons, Bool.and_eq_true, Bool.not_eq_true'] at he
    have h1 := xstep_lang main input sub b e hl he.1
    simp only [List.foldl_cons]
    rw [xfold_lang es _ (by rw [h1]; exact hl) (by simpa using he.2), h1]

/-! ### `syncmlDataType` answers `normal` unless the innermost open element is called `Data` -/

theorem syncml_normal_elt {f : Frame} {rest : List Frame} {n : Name} {a : List Attr} (hk : f.kind = .elt n a)
    (hn : (n.xmlName == b!"Data") = false) : syncmlDataType (f :: rest) = .normal := by
  unfold syncmlDataType
  simp only [hk]
  cases rest with
  | nil => rfl
  | cons g rest' =>
    simp only [materialize, materialize.materializeAux, Frame.close, hk, Node.eltName?]
    have : (some n.xmlName == some b!"Data") = false := by
      have : (some n.xmlName == some b!"Data") = (n.xmlName == b!"Data") := rfl
      rw [this, hn]
    simp only [this, Bool.false_eq_true, ↓reduceIte]

theorem syncml_normal_cdata {f g : Frame} {rest : List Frame} {n : Name} {a : List Attr} (hf : f.kind = .cdata)
    (hk : g.kind = .elt n a) (hn : (n.xmlName == b!"Data") = false) :
    syncmlDataType (f :: g :: rest) = .normal := by
  have h := syncml_normal_elt (rest := rest) hk hn
  unfold syncmlDataType at h ⊢
  simp only [hf]
  simp only [hk] at h
  exact h

/-! ### The front end on quiet states, one event at a time -/

/-- No error, nothing being skipped, no pending request for an embedded document. -/
structure XQuiet (b : XBState) : Prop where
  err : b.error = none
  skip : b.skipLvl = 0
  need : b.need = none

theorem xstep_pi (b : XBState) : xbuildStep main input sub b .pi = b := by
  unfold xbuildStep; split <;> rfl

theorem xstep_xmlDecl (b : XBState) (v enc : Option Bytes) :
    ∃ cs, xbuildStep main input sub b (.xmlDecl v enc) = { b with charset := cs } := by
  unfold xbuildStep
  split
  · exact ⟨b.charset, rfl⟩
  · simp only
    split
    · split
      · exact ⟨_, rfl⟩
      · exact ⟨b.charset, rfl⟩
    · exact ⟨b.charset, rfl⟩

theorem xstep_doctype (b : XBState) (sid pid : Option Bytes) :
    ∃ l, xbuildStep main input sub b (.doctype sid pid) = { b with lang := l } := by
  unfold xbuildStep
  split
  · exact ⟨b.lang, rfl⟩
  · simp only
    split
    · exact ⟨_, rfl⟩
    · exact ⟨b.lang, rfl⟩

/-- The root start tag: the language is looked up by root name if no DOCTYPE set it; unless that
    fails, the element is pushed. -/
theorem xstep_start_root {b : XBState} (q : XQuiet b) (hs : b.stack = []) (hr : b.root = none)
    (name : Bytes) (attrs : List (Bytes × Bytes)) (idx : Nat)
    (he : (xbuildStep main input sub b (.startElt name attrs idx)).error = none) :
    ∃ L, xbuildStep main input sub b (.startElt name attrs idx) =
      { b with lang := some L, stack := [(xmlElt L name attrs).1], curPage := (xmlElt L name attrs).2 } := by
  have hneed : ¬ (b.need.isSome = true) := by rw [q.need]; exact Bool.false_ne_true
  unfold xbuildStep at he ⊢
  rw [if_neg hneed] at he ⊢
  simp only [q.err, q.skip, hs, hr, Option.isSome_none, Bool.false_eq_true, if_false, Nat.lt_irrefl, gt_iff_lt,
    List.isEmpty_nil, Option.isNone_none, Bool.and_self, Bool.true_and, Bool.not_true, Bool.and_false] at he ⊢
  cases hl : b.lang with
  | some L =>
    simp only [hl, Option.isNone_some, Bool.false_eq_true, if_false, q.err, Option.isSome_none, hs, hr] at he ⊢
    refine ⟨L, ?_⟩
    simp only [q.err, q.skip, hr]
  | none =>
    simp only [hl, Option.isNone_none, if_true] at he ⊢
    cases hst : searchTable main none none (some name) with
    | none => simp [hst] at he
    | some L =>
      simp only [hst, q.err, Option.isSome_none, Bool.false_eq_true, if_false, hs, hr] at he ⊢
      refine ⟨L, ?_⟩
      simp only [q.err, q.skip, hr]

/-- A start tag below the root that does not open an embedded document. -/
theorem xstep_start_inner {b : XBState} (q : XQuiet b) {f : XFrame} {rest : List XFrame} (hs : b.stack = f :: rest)
    {L : Lang} (hl : b.lang = some L) (name : Bytes) (attrs : List (Bytes × Bytes)) (idx : Nat)
    (hne : embeddedName name = false) :
    xbuildStep main input sub b (.startElt name attrs idx) =
      { b with stack := (xmlElt L name attrs).1 :: b.stack, curPage := (xmlElt L name attrs).2 } := by
  have hneed : ¬ (b.need.isSome = true) := by rw [q.need]; exact Bool.false_ne_true
  unfold embeddedName at hne
  unfold xbuildStep
  rw [if_neg hneed]
  simp only [q.err, q.skip, hs, hl, hne, Option.isSome_none, Bool.false_eq_true, if_false, Nat.lt_irrefl, gt_iff_lt,
    List.isEmpty_cons, Bool.false_and, Option.isNone_some, Bool.and_false]

/-- An end tag while an element without cached text is on top. -/
theorem xstep_end_elt {b : XBState} (q : XQuiet b) {f : XFrame} {rest : List XFrame} (hs : b.stack = f :: rest)
    (hc : f.content = none) {n : Name} {a : List Attr} (hk : f.kind = .elt n a) (name : Bytes) (idx : Nat) :
    xbuildStep main input sub b (.endElt name idx) = ({ b with stack := rest } : XBState).attach f.close := by
  rw [xstep_endElt _ _ _ _ _ _ q.need, xDecodeTop_plain hs hc]
  unfold xEndTail
  simp only [q.err, q.skip, Option.isSome_none, Bool.false_eq_true, if_false, gt_iff_lt, Nat.not_lt_zero]
  have h01 : ((0 : Nat) == 1) = false := rfl
  simp only [h01, Bool.false_eq_true, if_false]
  unfold xPop
  rw [hs]
  simp only [hk, q.err, q.skip]

theorem xstep_startCdata {b : XBState} (q : XQuiet b) :
    xbuildStep main input sub b .startCdata = { b with stack := { kind := .cdata, kids := [] } :: b.stack } := by
  have hneed : ¬ (b.need.isSome = true) := by rw [q.need]; exact Bool.false_ne_true
  unfold xbuildStep
  rw [if_neg hneed]
  simp only [q.err, q.skip, Option.isSome_none, gt_iff_lt, Nat.lt_irrefl, decide_false, Bool.or_self, Bool.false_eq_true,
    if_false]

theorem xstep_endCdata {b : XBState} (q : XQuiet b) {f : XFrame} {rest : List XFrame} (hs : b.stack = f :: rest) :
    xbuildStep main input sub b .endCdata = ({ b with stack := rest } : XBState).attach f.close := by
  have hneed : ¬ (b.need.isSome = true) := by rw [q.need]; exact Bool.false_ne_true
  unfold xbuildStep
  rw [if_neg hneed]
  simp only [q.err, q.skip, hs, Option.isSome_none, gt_iff_lt, Nat.lt_irrefl, decide_false, Bool.or_self,
    Bool.false_eq_true, if_false]

/-- Character data where the data type is `normal` and the element on top (if it is one) is not
    binary-flagged: one text child, merged into a preceding text child. -/
theorem xstep_chars_plain {b : XBState} (q : XQuiet b) {f : XFrame} {rest : List XFrame} (hs : b.stack = f :: rest)
    (hty : syncmlDataType (xStackFrames b.stack) = .normal)
    (hbin : ∀ n a, f.kind = .elt n a → isBinaryName n = false) (s : Bytes) :
    xbuildStep main input sub b (.chars s) = { b with stack := { f with kids := addKid f.kids (.text s) } :: rest } := by
  rw [xstep_chars _ _ _ _ _ q.need]
  simp only [q.err, q.skip, Option.isSome_none, gt_iff_lt, Nat.lt_irrefl, decide_false, Bool.or_self, Bool.false_eq_true,
    if_false, hty]
  have hv : (SyncType.normal == SyncType.vobject) = false := rfl
  have hprep : xCharsPrep b = b := by
    unfold xCharsPrep
    rw [hty]
    rfl
  simp only [hv, Bool.false_and, Bool.false_eq_true, if_false, hprep]
  unfold xCharsTail
  rw [hs]
  simp only
  have hatt := xattach_cons hs (.text s)
  simp only [q.err, q.skip] at hatt
  split
  · rename_i n a hk
    simp only [hbin n a hk, Bool.false_eq_true, if_false]
    exact hatt
  · exact hatt

end Wbxml.Model.TreeHeap
