/-
  C01, bounds, tree half: the tree `treeOfWbxml` builds is bounded by the events of its run, and —
  level by level — by a polynomial in the input length.

  * `sizeC D`: the size of a node where an embedded document nested deeper than `D` levels counts one
    unit (`sizeC_eq`: it is the size when the nesting is at most `D`).
  * `buildStep_sizeC` / `fold_sizeC`: a callback adds at most twice the weight of its event, where
    character data is charged for the embedded document it may turn into (`cc`).
  * `treeBound M D n`: `treeBound M 0 n = 0`,
    `treeBound M (D+1) n = 1 + 2 * (n * (n + M + 45 + treeBound M D (2 * n + M + 45)))`.
  * `treeOfWbxml_size_le`: a tree with at most `D - 1` levels of embedded documents built from `n`
    octets has size at most `treeBound M D n` (induction on `D`, any fuel).
-/
import Wbxml.Lemmas.W2XSize
import Wbxml.Lemmas.W2XOut

namespace Wbxml.Lemmas.W2X
open Wbxml Wbxml.Model Wbxml.Lemmas.ParserSafe

/-! ### The capped size -/

mutual
def sizeC (D : Nat) : Node → Nat
  | .elt n a kids => 1 + n.size + attrsSize a + sizeCL D kids
  | .text s => 1 + s.length
  | .cdata kids => 1 + sizeCL D kids
  | .tree l cs r => if embDepthN (.tree l cs r) ≤ D then (Node.tree l cs r).size else 1
def sizeCL (D : Nat) : List Node → Nat
  | [] => 0
  | n :: rest => sizeC D n + sizeCL D rest
end

theorem nsize_elt (name : Name) (a : List Attr) (kids : List Node) :
    (Node.elt name a kids).size = 1 + name.size + attrsSize a + Node.sizeL kids := by
  simp [Node.size, Node.sizeL, Node.sizeW]
theorem nsize_text (s : Bytes) : (Node.text s).size = 1 + s.length := by simp [Node.size, Node.sizeW]
theorem nsize_cdata (kids : List Node) : (Node.cdata kids).size = 1 + Node.sizeL kids := by
  simp [Node.size, Node.sizeL, Node.sizeW]
theorem nsizeL_nil : Node.sizeL [] = 0 := by simp [Node.sizeL, Node.sizeWL]
theorem nsizeL_cons (n : Node) (rest : List Node) : Node.sizeL (n :: rest) = n.size + Node.sizeL rest := by
  simp [Node.sizeL, Node.sizeWL, Node.size]

mutual
theorem sizeC_eq (D : Nat) : ∀ (n : Node), embDepthN n ≤ D → sizeC D n = n.size
  | .elt name a kids, h => by
    simp only [embDepthN] at h
    rw [sizeC, nsize_elt, sizeCL_eq D kids h]
  | .text s, _ => by rw [sizeC, nsize_text]
  | .cdata kids, h => by
    simp only [embDepthN] at h
    rw [sizeC, nsize_cdata, sizeCL_eq D kids h]
  | .tree l cs r, h => by rw [sizeC, if_pos h]
theorem sizeCL_eq (D : Nat) : ∀ (ns : List Node), embDepthL ns ≤ D → sizeCL D ns = Node.sizeL ns
  | [], _ => by rw [sizeCL, nsizeL_nil]
  | n :: rest, h => by
    simp only [embDepthL] at h
    rw [sizeCL, nsizeL_cons, sizeC_eq D n (by omega), sizeCL_eq D rest (by omega)]
end

theorem sizeCL_append (D : Nat) : ∀ (a b : List Node), sizeCL D (a ++ b) = sizeCL D a + sizeCL D b
  | [], b => by simp [sizeCL]
  | n :: a, b => by simp only [List.cons_append, sizeCL, sizeCL_append D a b]; omega

theorem addKid_sizeC (D : Nat) (kids : List Node) (n : Node) :
    sizeCL D (addKid kids n) ≤ sizeCL D kids + sizeC D n := by
  unfold addKid
  split
  · rename_i s t hl
    obtain ⟨ys, hk⟩ := List.getLast?_eq_some_iff.mp hl
    subst hk
    rw [List.dropLast_concat, sizeCL_append, sizeCL_append]
    simp only [sizeCL, sizeC, List.length_append]
    omega
  · rw [sizeCL_append]
    simp [sizeCL]

/-! ### Size of the builder's state -/

def kindSize : FrameKind → Nat
  | .elt n a => 1 + n.size + attrsSize a
  | .cdata => 1

def frameSizeC (D : Nat) (f : Frame) : Nat := kindSize f.kind + sizeCL D f.kids

def stackSizeC (D : Nat) : List Frame → Nat
  | [] => 0
  | f :: r => frameSizeC D f + stackSizeC D r

def rootSizeC (D : Nat) : Option Node → Nat
  | none => 0
  | some r => sizeC D r

def bSizeC (D : Nat) (b : BState) : Nat := stackSizeC D b.stack + rootSizeC D b.root

theorem close_sizeC (D : Nat) (f : Frame) : sizeC D f.close = frameSizeC D f := by
  unfold Frame.close frameSizeC
  split
  · rename_i n a hk; rw [hk]; simp only [sizeC, kindSize]
  · rename_i hk; rw [hk]; simp only [sizeC, kindSize]

theorem attach_sizeC (D : Nat) (b : BState) (n : Node) : bSizeC D (b.attach n) ≤ bSizeC D b + sizeC D n := by
  unfold BState.attach
  split
  · rename_i f rest hs
    have := addKid_sizeC D f.kids n
    simp only [bSizeC, hs, stackSizeC, frameSizeC]
    omega
  · rename_i hs
    split
    · rename_i hr
      simp only [bSizeC, hs, hr, stackSizeC, rootSizeC]
      omega
    · simp only [bSizeC]; omega

theorem leaveCdata_sizeC (D : Nat) (b : BState) : bSizeC D b.leaveCdata ≤ bSizeC D b := by
  unfold BState.leaveCdata
  split
  · rename_i f g rest hs
    split
    · have := addKid_sizeC D g.kids f.close
      rw [close_sizeC] at this
      simp only [bSizeC, hs, stackSizeC, frameSizeC] at this ⊢
      omega
    · exact Nat.le_refl _
  · exact Nat.le_refl _

/-- What the embedded-document reader hands back weighs at most `1 + cc payload`. -/
def EmbSize (D : Nat) (emb : Nat → Bytes → Option Tree) (cc : Bytes → Nat) : Prop :=
  ∀ cs s t, emb cs s = some t → sizeC D (.tree t.lang t.origCharset t.root) ≤ 1 + cc s

theorem step_chars_sizeC (D : Nat) (main : List Lang) (emb : Nat → Bytes → Option Tree) (cc : Bytes → Nat)
    (hemb : EmbSize D emb cc) (b : BState) (s : Bytes) :
    bSizeC D (buildStep main emb b (.chars s)) ≤ bSizeC D b + (2 + s.length + cc s) := by
  unfold buildStep
  split
  · omega
  · have htext : bSizeC D (b.attach (.text s)) ≤ bSizeC D b + (2 + s.length + cc s) := by
      have := attach_sizeC D b (.text s)
      simp only [sizeC] at this; omega
    have hcd : bSizeC D (match b.stack with
        | f :: _ =>
          (match f.kind with
           | .cdata => b.attach (.text s)
           | _ => ({ b with stack := { kind := .cdata, kids := [] } :: b.stack } : BState).attach (.text s))
        | [] => b.attach (.text s)) ≤ bSizeC D b + (2 + s.length + cc s) := by
      split
      · split
        · exact htext
        · have := attach_sizeC D ({ b with stack := { kind := .cdata, kids := [] } :: b.stack } : BState) (.text s)
          simp only [sizeC, bSizeC, stackSizeC, frameSizeC, kindSize, sizeCL] at this ⊢
          omega
      · exact htext
    dsimp only
    cases syncmlDataType b.stack with
    | normal => exact htext
    | wbxml =>
      dsimp only
      split
      · rename_i t ht
        have := attach_sizeC D b (.tree t.lang t.origCharset t.root)
        have := hemb _ _ _ ht
        omega
      · exact htext
    | clear => exact hcd
    | vobject => exact hcd

/-- **One callback adds at most twice the weight of its event.** -/
theorem buildStep_sizeC (D : Nat) (main : List Lang) (emb : Nat → Bytes → Option Tree) (cc : Bytes → Nat)
    (hemb : EmbSize D emb cc) (b : BState) (e : Event) :
    bSizeC D (buildStep main emb b e) ≤ bSizeC D b + 2 * pevSize1 cc e := by
  cases e with
  | chars s =>
    have := step_chars_sizeC D main emb cc hemb b s
    simp only [pevSize1]; omega
  | startDoc cs l =>
    unfold buildStep
    split
    · omega
    · simp only [bSizeC]; omega
  | endDoc => unfold buildStep; split <;> (try dsimp only) <;> omega
  | pi t d => unfold buildStep; split <;> (try dsimp only) <;> omega
  | startElt n attrs =>
    unfold buildStep
    split
    · omega
    · have := leaveCdata_sizeC D b
      dsimp only
      split
      · simp only [bSizeC] at this ⊢; omega
      · simp only [bSizeC, stackSizeC, frameSizeC, kindSize, sizeCL, pevSize1] at this ⊢
        omega
  | endElt n =>
    unfold buildStep
    split
    · omega
    · dsimp only
      split
      · simp only [bSizeC]; omega
      · rename_i f rest hs
        split
        · split
          · rename_i g rest'
            have h1 := addKid_sizeC D g.kids f.close
            rw [close_sizeC] at h1
            have h2 := attach_sizeC D ({ b with stack := rest' } : BState)
              ({ g with kids := addKid g.kids f.close } : Frame).close
            rw [close_sizeC] at h2
            simp only [bSizeC, hs, stackSizeC, frameSizeC] at h1 h2 ⊢
            omega
          · simp only [bSizeC]; omega
        · have h2 := attach_sizeC D ({ b with stack := rest } : BState) f.close
          rw [close_sizeC] at h2
          simp only [bSizeC, hs, stackSizeC] at h2 ⊢
          omega

theorem fold_sizeC (D : Nat) (main : List Lang) (emb : Nat → Bytes → Option Tree) (cc : Bytes → Nat)
    (hemb : EmbSize D emb cc) : ∀ (es : List Event) (b : BState),
    bSizeC D (es.foldl (buildStep main emb) b) ≤ bSizeC D b + 2 * pevSize cc es
  | [], b => by simp [pevSize]
  | e :: es, b => by
    have h1 := buildStep_sizeC D main emb cc hemb b e
    have h2 := fold_sizeC D main emb cc hemb es (buildStep main emb b e)
    rw [List.foldl_cons]
    simp only [pevSize]
    omega


/-! ### The bound, level by level -/

/-- Size bound of a tree with fewer than `D` levels of embedded documents built from `n` octets;
    `M` is the table constant. A polynomial of degree `D + 1` in `n` for every fixed `D`. -/
def treeBound (M : Nat) : Nat → Nat → Nat
  | 0, _ => 0
  | D + 1, n => 1 + 2 * (n * (n + M + 45 + treeBound M D (2 * n + M + 45)))

theorem treeBound_mono (M : Nat) : ∀ (D : Nat) {n n' : Nat}, n ≤ n' → treeBound M D n ≤ treeBound M D n'
  | 0, _, _, _ => Nat.le_refl _
  | D + 1, n, n', h => by
    have ih := treeBound_mono M D (n := 2 * n + M + 45) (n' := 2 * n' + M + 45) (by omega)
    have := Nat.mul_le_mul h (show n + M + 45 + treeBound M D (2 * n + M + 45) ≤
      n' + M + 45 + treeBound M D (2 * n' + M + 45) by omega)
    simp only [treeBound]
    omega

theorem tree_size_eq (t : Tree) : t.size = (Node.tree t.lang t.origCharset t.root).size := rfl

theorem tsize_root (l : Option Lang) (cs : Nat) (r : Option Node) :
    (Node.tree l cs r).size = 1 + (match r with | some r => r.size | none => 0) := by
  cases r <;> simp [Node.size, Node.sizeW]

/-- **Tree ≤ polynomial of the input, per nesting level.** A tree the tree stage delivers — any fuel,
    any tables — with fewer than `D` levels of embedded documents has size at most
    `treeBound (tableM main) D bs.length`. -/
theorem treeOfWbxml_size_le (main : List Lang) : ∀ (D f lang cs : Nat) (bs : Bytes) (t : Tree),
    treeOfWbxml main f lang cs bs = .ok t → embDepthT t + 1 ≤ D → t.size ≤ treeBound (tableM main) D bs.length
  | 0, _, _, _, _, _, _, hd => by omega
  | D + 1, 0, _, _, _, _, h, _ => by simp [treeOfWbxml] at h
  | D + 1, f + 1, lang, cs, bs, t, h, hd => by
    rw [treeOfWbxml] at h
    have hemb : EmbSize D (fun (cs : Nat) (bs : Bytes) =>
        match treeOfWbxml main f 0 cs bs with
        | .ok t => some t
        | .error _ => none) (fun s => treeBound (tableM main) D s.length) := by
      intro cs' s t' ht'
      dsimp only at ht'
      split at ht'
      · rename_i t'' heq
        cases ht'
        rw [sizeC]
        split
        · rename_i hle
          rw [embDepthN_tree] at hle
          have := treeOfWbxml_size_le main D f 0 cs' s _ heq hle
          rw [← tree_size_eq]; dsimp only; omega
        · dsimp only; omega
      · cases ht'
    split at h
    · cases h
    · split at h
      · cases h
      · cases h
        have hfold := fold_sizeC D main _ _ hemb
          (parse { main := main, langForced := lang, metaCharset := cs } bs).events {}
        generalize List.foldl _ _ _ = b at hfold hd ⊢
        have hev := parse_pevSizeG_le { main := main, langForced := lang, metaCharset := cs } bs
          (fun s => treeBound (tableM main) D s.length) (treeBound (tableM main) D (2 * bs.length + tableM main + 45))
          (fun b hb => treeBound_mono _ D hb)
        have h0 : bSizeC D ({} : BState) = 0 := rfl
        rw [h0] at hfold
        dsimp only at hev
        rw [tree_size_eq, tsize_root]
        dsimp only
        simp only [treeBound]
        cases hr : b.root with
        | none => dsimp only; omega
        | some r =>
          dsimp only
          have hdr : embDepthN r ≤ D := by
            simp only [embDepthT, hr] at hd; omega
          have : sizeC D r ≤ bSizeC D b := by
            simp only [bSizeC, hr, rootSizeC]; omega
          rw [sizeC_eq D r hdr] at this
          omega


/-! ### The languages of a delivered tree are entries of the main table -/

theorem attach_lang (b : BState) (n : Node) : (b.attach n).lang = b.lang := by
  unfold BState.attach
  split
  · rfl
  · split <;> rfl

theorem leaveCdata_lang (b : BState) : b.leaveCdata.lang = b.lang := by
  unfold BState.leaveCdata
  split
  · split <;> rfl
  · rfl

theorem buildStep_langOk (main : List Lang) (emb : Nat → Bytes → Option Tree) (b : BState) (e : Event)
    (h : ∀ l, b.lang = some l → l ∈ main) : ∀ l, (buildStep main emb b e).lang = some l → l ∈ main := by
  unfold buildStep
  split
  · exact h
  · cases e with
    | startDoc cs l0 =>
      intro l hl
      exact List.mem_of_find?_eq_some hl
    | endDoc => exact h
    | pi t d => exact h
    | startElt n attrs =>
      dsimp only
      split
      · intro l hl; exact h l (by rw [← leaveCdata_lang]; exact hl)
      · intro l hl; exact h l (by rw [← leaveCdata_lang]; exact hl)
    | endElt n =>
      dsimp only
      split
      · exact h
      · split
        · split
          · intro l hl
            rw [attach_lang] at hl
            exact h l hl
          · exact h
        · intro l hl
          rw [attach_lang] at hl
          exact h l hl
    | chars s =>
      dsimp only
      intro l hl
      repeat' split at hl
      all_goals (rw [attach_lang] at hl; exact h l hl)

theorem fold_langOk (main : List Lang) (emb : Nat → Bytes → Option Tree) : ∀ (es : List Event) (b : BState),
    (∀ l, b.lang = some l → l ∈ main) → ∀ l, (es.foldl (buildStep main emb) b).lang = some l → l ∈ main
  | [], _, h => h
  | e :: es, b, h => by
    rw [List.foldl_cons]
    exact fold_langOk main emb es _ (buildStep_langOk main emb b e h)

theorem langsOk_closed (Q : Lang → Bool) : Closed (fun n => langsOk Q n = true) :=
  ⟨fun _ => rfl,
   fun _ _ kids h => by simp only [langsOk]; exact (langsOkL_iff Q kids).2 h,
   fun kids h => by simp only [langsOk]; exact (langsOkL_iff Q kids).2 h⟩

theorem langsOk_tree (Q : Lang → Bool) (l : Option Lang) (cs : Nat) (r : Option Node)
    (hl : ∀ x, l = some x → Q x = true) (hr : ∀ x, r = some x → langsOk Q x = true) :
    langsOk Q (.tree l cs r) = true := by
  cases l with
  | none =>
    cases r with
    | none => rfl
    | some r => simp only [langsOk]; exact hr r rfl
  | some l =>
    cases r with
    | none => simp only [langsOk]; exact hl l rfl
    | some r => simp only [langsOk, Bool.and_eq_true]; exact ⟨hl l rfl, hr r rfl⟩

/-- **Every language in a delivered tree — the document's and the embedded documents' — is an entry of
    the main table** (stated for any property `Q` of its entries). -/
theorem treeOfWbxml_langs (main : List Lang) (Q : Lang → Bool) (hQ : ∀ l ∈ main, Q l = true) :
    ∀ (f lang cs : Nat) (bs : Bytes) (t : Tree), treeOfWbxml main f lang cs bs = .ok t →
      langsOk Q (.tree t.lang t.origCharset t.root) = true
  | 0, _, _, _, _, h => by simp [treeOfWbxml] at h
  | f + 1, lang, cs, bs, t, h => by
    rw [treeOfWbxml] at h
    have hemb : EmbGood (fun (cs : Nat) (bs : Bytes) =>
        match treeOfWbxml main f 0 cs bs with
        | .ok t => some t
        | .error _ => none) (fun n => langsOk Q n = true) := by
      intro cs' s t' ht'
      dsimp only at ht'
      split at ht'
      · rename_i t'' heq
        cases ht'
        exact treeOfWbxml_langs main Q hQ f 0 cs' s _ heq
      · cases ht'
    split at h
    · cases h
    · rename_i hres
      obtain ⟨cs0, l0, pis1, n, attrs, body, pis2, hev, p1, p2, p3⟩ := parse_events_shape hres
      have hlang := fold_langOk main (fun (cs : Nat) (bs : Bytes) =>
        match treeOfWbxml main f 0 cs bs with
        | .ok t => some t
        | .error _ => none) (parse { main := main, langForced := lang, metaCharset := cs } bs).events {}
        (fun l hl => by cases hl)
      rw [hev] at h hlang
      have := build_root main _ (langsOk_closed Q) hemb (cs := cs0) (l := l0) (n := n) (attrs := attrs) p1 p2 p3
      dsimp only at this
      split at h
      · cases h
      · rename_i herr
        cases h
        rcases this with he | ⟨r, hr, hg⟩
        · exact absurd herr he
        · refine langsOk_tree Q _ _ _ (fun x hx => hQ x (hlang x hx)) ?_
          intro x hx
          have hx' := hr.symm.trans hx
          cases hx'
          exact hg

end Wbxml.Lemmas.W2X
