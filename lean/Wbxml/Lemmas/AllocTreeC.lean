/-
  C16 — tree building on the ledger, part C: `wbxml_tree_add_elt`, `wbxml_tree_node_add_attrs`,
  `wbxml_tree_extract_node`, `wbxml_tree_add_elt_with_attrs`, `wbxml_tree_add_cdata`,
  `wbxml_tree_add_text`.
-/
import Wbxml.Lemmas.AllocTreeB
namespace Wbxml.Model.Alloc
open Wbxml
set_option linter.unusedSimpArgs false
set_option linter.unusedVariables false
set_option linter.unnecessarySimpa false

theorem nodeCreate_always :
    Always nodeCreate (fun r => ∀ n, r = some n → n.name = none ∧ n.attrs = none ∧ n.content = none) := by
  intro s
  unfold nodeCreate
  simp only [bind_eq, pure_eq, malloc, Prog.bind, run]
  by_cases hf : s.fails (s.next + 1) = true <;> simp [hf]

theorem nodeAddAttr_always (n : ANode) (a : AAttr) :
    Always (nodeAddAttr n a) (fun r => r.1.content = n.content ∧ r.1.name = n.name) := by
  unfold nodeAddAttr
  simp only [bind_eq, pure_eq]
  refine Always.seq fun _ => Always.seq fun l => ?_
  cases l with
  | none => exact Always.ret ⟨rfl, rfl⟩
  | some l =>
    simp only
    refine Always.seq fun c => ?_
    cases c with
    | none => exact Always.ret ⟨rfl, rfl⟩
    | some c =>
      simp only
      refine Always.seq fun r => ?_
      obtain ⟨l2, ok⟩ := r
      simp only
      split
      · exact Always.seq fun _ => Always.ret ⟨rfl, rfl⟩
      · exact Always.ret ⟨rfl, rfl⟩

/-- `wbxml_tree_node_add_attrs`: the attributes stay the caller's; the node keeps what it had plus the
    copies made so far; a failure is reported. -/
theorem nodeAddAttrs_spec (attrs : List AAttr) (n : ANode) (s : Ledger) (wf : s.WF) (own : Owns s n.owned)
    (hat : ∀ a ∈ attrs, Owns s a.owned ∧ ∀ i ∈ a.owned, i ∉ n.owned) :
    Good (nodeAddAttrs n attrs) s (fun r s' =>
      r.1.hdr = n.hdr ∧ r.1.content = n.content ∧ r.1.name = n.name ∧ Clean s s' n.owned r.1.owned ∧
      (s.hits < s'.hits → r.2 ≠ OK)) := by
  induction attrs generalizing n s with
  | nil =>
    simp only [nodeAddAttrs, pure_eq]
    exact good_ret.2 ⟨rfl, rfl, rfl, Clean.id wf own, fun h => absurd h (Nat.lt_irrefl _)⟩
  | cons a rest ih =>
    obtain ⟨oa, da⟩ := hat a (by simp)
    unfold nodeAddAttrs
    simp only [bind_eq, pure_eq]
    refine Good.bind ((nodeAddAttr_spec n a s wf own oa).and_always (nodeAddAttr_always n a)) ?_
    intro r s1 ⟨⟨eh, c1, h1⟩, ec, en⟩
    obtain ⟨n1, ret⟩ := r
    simp only at eh c1 h1 ec en ⊢
    by_cases hret : ret = OK
    · subst hret
      simp only [bne_self_eq_false, Bool.false_eq_true, if_false]
      have hat1 : ∀ a' ∈ rest, Owns s1 a'.owned ∧ ∀ i ∈ a'.owned, i ∉ n1.owned := by
        intro a' ha'
        obtain ⟨oa', da'⟩ := hat a' (by simp [ha'])
        refine ⟨c1.keeps oa' da', fun i hi hm => ?_⟩
        rcases c1.prod_old_or_new hm with h | h
        · exact da' i hi h
        · have := wf _ (oa'.2 i hi); omega
      refine (ih n1 s1 c1.wf c1.owns hat1).mono ?_
      intro r s2 ⟨eh2, ec2, en2, c2, h2⟩
      have := c1.hits
      refine ⟨eh2.trans eh, ec2.trans ec, en2.trans en, Clean.trans_recycle wf c1 c2, fun hh => ?_⟩
      by_cases hA : s1.hits < s2.hits
      · exact h2 hA
      · exfalso
        have := h1 (by omega)
        simp [ENOMEM, OK] at this
    · have hb : (ret != OK) = true := by simpa using hret
      simp only [hb, if_true]
      exact good_ret.2 ⟨eh, ec, en, c1, fun _ => by simp [ENOMEM, OK]⟩

/-- `wbxml_tree_extract_node` on the node just added: only links are rewritten. -/
theorem extractHead_spec (c : TCtx) (f : Frame) (rest : List Frame) (hf : c.frames = f :: rest) (s : Ledger)
    (own : Owns s c.owned) :
    Good (extractHead c) s (fun r s' => s' = s ∧ r = { c with frames := rest }) := by
  have hfm : f ∈ c.frames := by simp [hf]
  unfold extractHead
  rw [hf]
  simp only [bind_eq, pure_eq]
  refine Good.bind (deref_spec f.node.hdr s (own.2 _ (frame_mem_owned c hfm (by simp [Frame.owned, hdr_mem_owned])))) ?_
  intro _ s0 e0; subst e0
  cases rest with
  | nil =>
    simp only
    refine Good.bind (deref_spec c.tree s0 (own.2 _ (tree_mem_owned c))) ?_
    intro _ s0' e0'; have e0'' := e0'.symm; subst e0''
    exact good_ret.2 ⟨rfl, rfl⟩
  | cons g rest' =>
    simp only
    have hgm : g ∈ c.frames := by simp [hf]
    refine Good.bind (deref_spec g.node.hdr s0 (own.2 _ (frame_mem_owned c hgm (by simp [Frame.owned, hdr_mem_owned])))) ?_
    intro _ s0' e0'; have e0'' := e0'.symm; subst e0''
    cases hp : g.kids.getLast? with
    | none => simp only; exact good_ret.2 ⟨rfl, rfl⟩
    | some last =>
      simp only
      have hlm : last ∈ g.kids := by have := getLast_split _ last hp; rw [this]; simp
      refine Good.bind (deref_spec last.node.hdr s0 (own.2 _ (frame_mem_owned c hgm (kid_hdr_mem g hlm)))) ?_
      intro _ s0' e0'; have e0'' := e0'.symm; subst e0''
      exact good_ret.2 ⟨rfl, rfl⟩

/-- What every function that adds to the tree guarantees. -/
def TreeStep (c : TCtx) (s : Ledger) (r : TCtx × Bool) (s' : Ledger) : Prop :=
  r.1.tree = c.tree ∧ r.1.error = c.error ∧ r.1.ok ∧ Clean s s' c.owned r.1.owned ∧ (s.hits < s'.hits → r.2 = false)

theorem TreeStep.same {c : TCtx} {s : Ledger} (wf : s.WF) (hok : c.ok) (own : Owns s c.owned) : TreeStep c s (c, false) s :=
  ⟨rfl, rfl, hok, Clean.id wf own, fun h => absurd h (Nat.lt_irrefl _)⟩

/-- `wbxml_tree_add_elt(tree, current, tag)`: the tag stays the caller's. -/
theorem treeAddElt_spec (c : TCtx) (tag : AName) (s : Ledger) (wf : s.WF) (hok : c.ok) (own : Owns s c.owned)
    (otag : Owns s tag.owned) :
    Good (treeAddElt c tag) s (fun r s' => TreeStep c s r s' ∧
      (r.2 = true → ∃ n, r.1 = pushFrame c .elt n ∧ n.content = none)) := by
  unfold treeAddElt
  simp only [bind_eq, pure_eq]
  refine Good.bind ((nodeCreate_spec s wf).and_always nodeCreate_always) ?_
  intro n s1 ⟨⟨c1, h1⟩, hfields⟩
  have hh1 := c1.hits
  cases n with
  | none =>
    simp only
    have c1' : Clean s s1 [] [] := by simpa using c1
    have cX := Clean.frame_l c.owned wf c1' (by simpa using own)
    exact good_ret.2 ⟨⟨rfl, rfl, hok, by simpa using cX, fun _ => rfl⟩, fun h => Bool.noConfusion h⟩
  | some n =>
    simp only at c1 ⊢
    obtain ⟨fn, fa, fc⟩ := hfields n rfl
    have hno1 : ¬ s.hits < s1.hits := by intro hh; have := h1 hh; simp at this
    have cX1 : Clean s s1 c.owned (c.owned ++ n.owned) := by
      simpa using Clean.frame_l c.owned wf c1 (by simpa using own)
    refine Good.bind (nameDuplicate_spec (some tag) s1 c1.wf (by simpa [ownedNameOpt] using c1.keeps otag (by simp))) ?_
    intro nm s2 ⟨c2, h2, _⟩
    have hh2 := c2.hits
    have cX2 : Clean s s2 c.owned ((c.owned ++ n.owned) ++ ownedNameOpt nm) := by
      simpa using Clean.step_l (c.owned ++ n.owned) wf (by simpa using cX1) c2
    cases nm with
    | none =>
      simp only
      have cX2' : Clean s s2 c.owned (c.owned ++ n.owned) := by simpa [ownedNameOpt] using cX2
      refine Good.bind (nodeDestroy_spec (some n) s2 c2.wf cX2'.owns.right) ?_
      intro _ s3 ⟨d3, hd3, _⟩
      have d3' : Clean s2 s3 n.owned [] := d3
      have cX3 := Clean.step_l c.owned wf cX2' d3'
      exact good_ret.2 ⟨⟨rfl, rfl, hok, by simpa using cX3, fun _ => rfl⟩, fun h => Bool.noConfusion h⟩
    | some nm =>
      simp only
      have hno2 : ¬ s1.hits < s2.hits := by intro hh; have := h2 hh; simp at this
      have hn'O : ({ n with name := some nm } : ANode).owned = n.hdr :: nm.owned := by
        simp [ANode.owned_eq, fa, fc, ownedNameOpt, attrsOwned, listOwned, ownedBufOpt]
      have hnO : n.owned = [n.hdr] := by
        simp [ANode.owned_eq, fn, fa, fc, ownedNameOpt, attrsOwned, listOwned, ownedBufOpt]
      have cX2' : Clean s s2 c.owned (c.owned ++ ({ n with name := some nm } : ANode).owned) := by
        refine cX2.prod_perm ?_
        rw [hn'O, hnO]
        simp only [ownedNameOpt]
        perm_count
      refine Good.bind (addOpen_spec c .elt { n with name := some nm } s2 cX2'.owns) ?_
      intro r s3 ⟨es, hcase⟩
      obtain ⟨c3, ok⟩ := r
      simp only at es hcase ⊢
      subst es
      rcases hcase with ⟨hok3, hc3⟩ | ⟨hok3, hc3, hroot⟩
      · subst hok3; subst hc3
        simp only [Bool.not_false, if_true]
        refine Good.bind (nodeDestroy_spec (some { n with name := some nm }) s3 c2.wf cX2'.owns.right) ?_
        intro _ s4 ⟨d4, hd4, _⟩
        have d4' : Clean s3 s4 ({ n with name := some nm } : ANode).owned [] := d4
        have cX4 := Clean.step_l c3.owned wf cX2' d4'
        exact good_ret.2 ⟨⟨rfl, rfl, hok, by simpa using cX4, fun _ => rfl⟩, fun h => Bool.noConfusion h⟩
      · subst hok3; subst hc3
        simp only [Bool.not_true, Bool.false_eq_true, if_false]
        have hnok : nodeOk ({ n with name := some nm } : ANode) := by
          intro b hb; simp only [fc] at hb; cases hb
        refine good_ret.2 ⟨⟨rfl, rfl, pushFrame_ok c .elt _ hok hnok (by decide) hroot,
          cX2'.prod_perm (pushFrame_perm c .elt _).symm, fun hh => by exfalso; omega⟩, fun _ => ⟨_, rfl, fc⟩⟩

theorem pushFrame_frames (c : TCtx) (kind : NKind) (n : ANode) : (pushFrame c kind n).frames = ⟨kind, n, []⟩ :: c.frames := rfl

/-- Replacing the node of the head frame by one that owns `B` instead of `A`. -/
theorem setHead_perm (c : TCtx) (f : Frame) (rest : List Frame) (hf : c.frames = f :: rest) (n : ANode) :
    ({ c with frames := { f with node := n } :: rest } : TCtx).owned.Perm
      (n.owned ++ (c.tree :: (ownedKidOpt c.root ++ (f.kids.flatMap Kid.owned ++ rest.flatMap Frame.owned)))) := by
  simp only [TCtx.owned, List.flatMap_cons, Frame.owned]
  perm_count

theorem head_perm (c : TCtx) (f : Frame) (rest : List Frame) (hf : c.frames = f :: rest) :
    c.owned.Perm (f.node.owned ++ (c.tree :: (ownedKidOpt c.root ++ (f.kids.flatMap Kid.owned ++ rest.flatMap Frame.owned)))) := by
  rw [TCtx.owned_cons c f rest hf]
  simp only [Frame.owned]
  perm_count

/-- `wbxml_tree_add_elt_with_attrs(tree, current, tag, attrs)`: the new element with copies of the
    attributes is the new `current`, or nothing was added and everything allocated on the way has
    been released; the tag and the attributes stay the caller's. -/
theorem treeAddEltWithAttrs_spec (c : TCtx) (tag : AName) (attrs : List AAttr) (s : Ledger) (wf : s.WF) (hok : c.ok)
    (own : Owns s c.owned) (otag : Owns s tag.owned)
    (hat : ∀ a ∈ attrs, Owns s a.owned ∧ ∀ i ∈ a.owned, i ∉ c.owned) :
    Good (treeAddEltWithAttrs c tag attrs) s (TreeStep c s) := by
  unfold treeAddEltWithAttrs
  simp only [bind_eq, pure_eq]
  refine Good.bind (treeAddElt_spec c tag s wf hok own otag) ?_
  intro r s1 ⟨⟨et, ee, ok1, c1, h1⟩, hpush⟩
  obtain ⟨c1x, ok⟩ := r
  simp only at et ee ok1 c1 h1 hpush ⊢
  have hh1 := c1.hits
  cases ok with
  | false => simp only [Bool.not_false, if_true]; exact good_ret.2 ⟨et, ee, ok1, c1, fun _ => rfl⟩
  | true =>
    simp only [Bool.not_true, Bool.false_eq_true, if_false]
    have hno1 : ¬ s.hits < s1.hits := by intro hh; have := h1 hh; simp at this
    split
    · exact good_ret.2 ⟨et, ee, ok1, c1, fun hh => absurd hh hno1⟩
    · obtain ⟨n, hc1x, hcont⟩ := hpush rfl
      have hfr : c1x.frames = ⟨.elt, n, []⟩ :: c.frames := by rw [hc1x]; rfl
      rw [hfr]
      simp only
      -- the head node, with the rest of the context as frame
      have hP := head_perm c1x ⟨.elt, n, []⟩ c.frames hfr
      have ownH := c1.owns.perm hP
      have hat1 : ∀ a ∈ attrs, Owns s1 a.owned ∧ ∀ i ∈ a.owned, i ∉ n.owned := by
        intro a ha
        obtain ⟨oa, da⟩ := hat a ha
        refine ⟨c1.keeps oa da, fun i hi hm => ?_⟩
        have hm' : i ∈ c1x.owned := hP.mem_iff.2 (List.mem_append_left _ hm)
        rcases c1.prod_old_or_new hm' with h | h
        · exact da i hi h
        · have := wf _ (oa.2 i hi); omega
      refine Good.bind (nodeAddAttrs_spec attrs n s1 c1.wf ownH.left hat1) ?_
      intro r2 s2 ⟨eh2, ec2, en2, c2, h2⟩
      obtain ⟨n2, ret⟩ := r2
      simp only at eh2 ec2 en2 c2 h2 ⊢
      have hh2 := c2.hits
      have cX2 : Clean s s2 c.owned ({ c1x with frames := { (⟨.elt, n, []⟩ : Frame) with node := n2 } :: c.frames } : TCtx).owned := by
        have a1 : Clean s s1 c.owned (n.owned ++ _) := c1.prod_perm hP
        have a2 := Clean.step_r _ wf a1 c2
        exact a2.prod_perm (setHead_perm c1x ⟨.elt, n, []⟩ c.frames hfr n2).symm
      have hn2ok : nodeOk n2 := by intro b hb; rw [ec2, hcont] at hb; cases hb
      have hok2 : ({ c1x with frames := { (⟨.elt, n, []⟩ : Frame) with node := n2 } :: c.frames } : TCtx).ok := by
        refine ⟨fun _ => ok1.1 (by simp [hfr]), ok1.2.1, ?_⟩
        intro x hx
        simp only [List.mem_cons] at hx
        rcases hx with rfl | hx
        · exact ⟨hn2ok, fun h => NKind.noConfusion h, by simp⟩
        · exact ok1.2.2 x (by simp [hfr, hx])
      by_cases hret : ret = OK
      · subst hret
        simp only [bne_self_eq_false, Bool.false_eq_true, if_false]
        refine good_ret.2 ⟨et, ee, hok2, cX2, fun hh => ?_⟩
        exfalso
        by_cases hA : s1.hits < s2.hits
        · exact h2 hA rfl
        · omega
      · have hb : (ret != OK) = true := by simpa using hret
        simp only [hb, if_true]
        refine Good.bind (extractHead_spec _ { (⟨.elt, n, []⟩ : Frame) with node := n2 } c.frames rfl s2 cX2.owns) ?_
        intro c3 s3 ⟨es3, ec3⟩
        subst es3; subst ec3
        -- back to the context before the call, plus the node
        have hP2 := setHead_perm c1x ⟨.elt, n, []⟩ c.frames hfr n2
        have hback : (n2.owned ++ (c1x.tree :: (ownedKidOpt c1x.root ++ (([] : List Kid).flatMap Kid.owned ++ c.frames.flatMap Frame.owned)))).Perm
            (c.owned ++ n2.owned) := by
          rw [hc1x]
          simp only [pushFrame, TCtx.owned, List.flatMap_nil, List.nil_append]
          perm_count
        have cX3 : Clean s s3 c.owned (c.owned ++ n2.owned) := (cX2.prod_perm hP2).prod_perm hback
        refine Good.bind (nodeDestroy_spec (some n2) s3 c2.wf cX3.owns.right) ?_
        intro _ s4 ⟨d4, hd4, _⟩
        have d4' : Clean s3 s4 n2.owned [] := d4
        have cX4 := Clean.step_l c.owned wf cX3 d4'
        have hcback : ({ c1x with frames := c.frames } : TCtx) = c := by rw [hc1x]; cases c; rfl
        refine good_ret.2 ⟨?_, ?_, ?_, ?_, fun _ => rfl⟩
        · show ({ c1x with frames := c.frames } : TCtx).tree = c.tree; rw [hcback]
        · show ({ c1x with frames := c.frames } : TCtx).error = c.error; rw [hcback]
        · show ({ c1x with frames := c.frames } : TCtx).ok; rw [hcback]; exact hok
        · show Clean s s4 c.owned ({ c1x with frames := c.frames } : TCtx).owned; rw [hcback]; simpa using cX4

/-- `wbxml_tree_add_cdata(tree, current)`. -/
theorem treeAddCdata_spec (c : TCtx) (s : Ledger) (wf : s.WF) (hok : c.ok) (own : Owns s c.owned) :
    Good (treeAddCdata c) s (TreeStep c s) := by
  unfold treeAddCdata
  simp only [bind_eq, pure_eq]
  refine Good.bind ((nodeCreate_spec s wf).and_always nodeCreate_always) ?_
  intro n s1 ⟨⟨c1, h1⟩, hfields⟩
  have hh1 := c1.hits
  cases n with
  | none =>
    simp only
    have c1' : Clean s s1 [] [] := by simpa using c1
    have cX := Clean.frame_l c.owned wf c1' (by simpa using own)
    exact good_ret.2 ⟨rfl, rfl, hok, by simpa using cX, fun _ => rfl⟩
  | some n =>
    simp only at c1 ⊢
    obtain ⟨fn, fa, fc⟩ := hfields n rfl
    have hno1 : ¬ s.hits < s1.hits := by intro hh; have := h1 hh; simp at this
    have cX1 : Clean s s1 c.owned (c.owned ++ n.owned) := by
      simpa using Clean.frame_l c.owned wf c1 (by simpa using own)
    refine Good.bind (addOpen_spec c .cdata n s1 cX1.owns) ?_
    intro r s3 ⟨es, hcase⟩
    obtain ⟨c3, ok⟩ := r
    simp only at es hcase ⊢
    subst es
    rcases hcase with ⟨hok3, hc3⟩ | ⟨hok3, hc3, hroot⟩
    · subst hok3; subst hc3
      simp only [Bool.not_false, if_true]
      refine Good.bind (nodeDestroy_spec (some n) s3 c1.wf cX1.owns.right) ?_
      intro _ s4 ⟨d4, hd4, _⟩
      have d4' : Clean s3 s4 n.owned [] := d4
      have cX4 := Clean.step_l c3.owned wf cX1 d4'
      exact good_ret.2 ⟨rfl, rfl, hok, by simpa using cX4, fun _ => rfl⟩
    · subst hok3; subst hc3
      simp only [Bool.not_true, Bool.false_eq_true, if_false]
      have hnok : nodeOk n := by intro b hb; rw [fc] at hb; cases hb
      exact good_ret.2 ⟨rfl, rfl, pushFrame_ok c .cdata _ hok hnok (by decide) hroot,
        cX1.prod_perm (pushFrame_perm c .cdata _).symm, fun hh => absurd hh hno1⟩

/-- `wbxml_tree_add_text(tree, current, text, len)`. -/
theorem treeAddText_spec (c : TCtx) (text : Bytes) (s : Ledger) (wf : s.WF) (hok : c.ok) (own : Owns s c.owned) :
    Good (treeAddText c text) s (TreeStep c s) := by
  unfold treeAddText
  simp only [bind_eq, pure_eq]
  refine Good.bind ((nodeCreate_spec s wf).and_always nodeCreate_always) ?_
  intro n s1 ⟨⟨c1, h1⟩, hfields⟩
  have hh1 := c1.hits
  cases n with
  | none =>
    simp only
    have c1' : Clean s s1 [] [] := by simpa using c1
    have cX := Clean.frame_l c.owned wf c1' (by simpa using own)
    exact good_ret.2 ⟨rfl, rfl, hok, by simpa using cX, fun _ => rfl⟩
  | some n =>
    simp only at c1 ⊢
    obtain ⟨fn, fa, fc⟩ := hfields n rfl
    have hno1 : ¬ s.hits < s1.hits := by intro hh; have := h1 hh; simp at this
    have cX1 : Clean s s1 c.owned (c.owned ++ n.owned) := by
      simpa using Clean.frame_l c.owned wf c1 (by simpa using own)
    refine Good.bind (bufCreate_spec (some text) text.length s1 c1.wf) ?_
    intro b s2 ⟨c2, h2, _, hbok⟩
    have hh2 := c2.hits
    have cX2 : Clean s s2 c.owned ((c.owned ++ n.owned) ++ ownedBufOpt b) := by
      simpa using Clean.step_l (c.owned ++ n.owned) wf (by simpa using cX1) c2
    cases b with
    | none =>
      simp only
      have cX2' : Clean s s2 c.owned (c.owned ++ n.owned) := by simpa [ownedBufOpt] using cX2
      refine Good.bind (nodeDestroy_spec (some n) s2 c2.wf cX2'.owns.right) ?_
      intro _ s3 ⟨d3, hd3, _⟩
      have d3' : Clean s2 s3 n.owned [] := d3
      have cX3 := Clean.step_l c.owned wf cX2' d3'
      exact good_ret.2 ⟨rfl, rfl, hok, by simpa using cX3, fun _ => rfl⟩
    | some b =>
      simp only
      have hno2 : ¬ s1.hits < s2.hits := by intro hh; have := h2 hh; simp at this
      have hn'O : ({ n with content := some b } : ANode).owned = n.hdr :: b.owned := by
        simp [ANode.owned_eq, fn, fa, ownedNameOpt, attrsOwned, listOwned, ownedBufOpt]
      have hnO : n.owned = [n.hdr] := by
        simp [ANode.owned_eq, fn, fa, fc, ownedNameOpt, attrsOwned, listOwned, ownedBufOpt]
      have cX2' : Clean s s2 c.owned (c.owned ++ ({ n with content := some b } : ANode).owned) := by
        refine cX2.prod_perm ?_
        rw [hn'O, hnO]
        simp only [ownedBufOpt]
        perm_count
      have hnok : nodeOk ({ n with content := some b } : ANode) := by
        intro b' hb'; simp only [Option.some.injEq] at hb'; subst hb'; exact hbok b rfl
      refine Good.bind (addText_spec c { n with content := some b } s2 c2.wf hok hnok cX2'.owns) ?_
      intro r s3 ⟨et, ee, ok3, h3, ct, cf⟩
      obtain ⟨c3, ok⟩ := r
      simp only at et ee ok3 h3 ct cf ⊢
      cases ok with
      | false =>
        simp only [Bool.not_false, if_true]
        have cf' := cf rfl
        have cX3 := Clean.trans_recycle wf cX2' cf'
        refine Good.bind (nodeDestroy_spec (some { n with content := some b }) s3 cf'.wf cX3.owns.right) ?_
        intro _ s4 ⟨d4, hd4, _⟩
        have d4' : Clean s3 s4 ({ n with content := some b } : ANode).owned [] := d4
        have cX4 := Clean.step_l c3.owned wf cX3 d4'
        exact good_ret.2 ⟨et, ee, ok3, by simpa using cX4, fun _ => rfl⟩
      | true =>
        simp only [Bool.not_true, Bool.false_eq_true, if_false]
        have ct' := ct rfl
        have hh3 := ct'.hits
        refine good_ret.2 ⟨et, ee, ok3, Clean.trans_recycle wf cX2' ct', fun hh => ?_⟩
        exfalso
        by_cases hA : s2.hits < s3.hits
        · have := h3 hA; simp at this
        · omega

end Wbxml.Model.Alloc
