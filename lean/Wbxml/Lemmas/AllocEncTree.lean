/-
  C16 — `encoder_encode_tree` and `wbxml_tree_to_wbxml` with and without string table, on top of the
  specification of `wbxml_strtbl_initialize` (`Lemmas/AllocInit.lean`).
-/
import Wbxml.Lemmas.AllocInit
namespace Wbxml.Model.Alloc
open Wbxml
set_option linter.unusedSimpArgs false
set_option linter.unusedVariables false
set_option linter.unnecessarySimpa false

/-! ### Which failed requests are ignored on purpose -/

/-- Request numbers of a run of `wbxml_strtbl_initialize` started in ledger `s` whose failure is
    benign: the `wbxml_list_append` calls of `wbxml_strtbl_collect_strings`, and every request of the
    second `wbxml_strtbl_check_references` (those issued after `initPrefix`). -/
def InitBenign (e : AEnc) (texts : List ABuf) (s : Ledger) (k : Nat) : Prop :=
  collectWindow texts s k ∨
  ((run (initPrefix e texts) s).2.next < k ∧ k ≤ (run (strtblInitialize e texts) s).2.next)

/-- … seen from `encoder_encode_tree` (which first creates the output buffer). -/
def EncBenign (e : AEnc) (texts : List ABuf) (s : Ledger) (k : Nat) : Prop :=
  e.useStrtbl = true ∧ ∃ e1 s1, run (encInitOutput e) s = (.ok (e1, true), s1) ∧ InitBenign e1 texts s1 k

/-- … seen from `wbxml_tree_to_wbxml` (which first creates the encoder). -/
def TreeBenign (useStrtbl : Bool) (texts : List ABuf) (s : Ledger) (k : Nat) : Prop :=
  ∃ e0 s1, run encCreate s = (.ok (some e0), s1) ∧ EncBenign { e0 with useStrtbl := useStrtbl } texts s1 k

/-- An entry of the string table that owns its string: the string is live and is not the output
    buffer. -/
theorem tbl_string_owned {e : AEnc} {l : AList StrElt} (hl : e.strstbl = some l) {x : StrElt} (hx : x ∈ l.items)
    (hs : x.stat = false) {s : Ledger} (own : Owns s e.owned) :
    x.string.hdr ∈ s.live ∧ x.string.hdr ∉ ownedBufOpt e.output := by
  rw [AEnc.owned_eq, hl] at own
  obtain ⟨_, _, own'⟩ := Owns.cons_iff.1 own
  obtain ⟨oL, _, dis⟩ := Owns.append_iff.1 own'
  have hm : x.string.hdr ∈ strListOwned (some l) := by
    obtain ⟨c, hc, rfl⟩ := List.mem_map.1 hx
    simp only [strListOwned, listOwned]
    refine List.mem_cons_of_mem _ (List.mem_flatMap.2 ⟨c, hc, ?_⟩)
    simp [StrElt.owned, hs, ABuf.owned]
  exact ⟨oL.2 _ hm, dis _ hm⟩

/-! ### `encoder_encode_tree` -/

theorem encodeTree_spec (texts : List ABuf) (body : List Bytes) (e : AEnc) (s : Ledger) (wf : s.WF)
    (own : Owns s e.owned) (hout : e.output = none)
    (htx : ∀ t ∈ texts, t.hdr ∈ s.live ∧ t.hdr ∉ e.owned)
    (htbl : ∀ l, e.strstbl = some l → l.items = []) :
    Good (encodeTree e texts body) s (fun r s' =>
      EncStep e s r.1 s' ∧
      (∀ l, r.1.strstbl = some l → ∀ x ∈ l.items, x.string.hdr ∈ s'.live ∧ x.string.hdr ∉ ownedBufOpt r.1.output) ∧
      (e.useStrtbl = false → s.hits < s'.hits → r.2 ≠ OK) ∧ (TblInv e → TblInv r.1) ∧
      (∀ k, s.fails k = true → s.next < k → k ≤ s'.next → ¬ EncBenign e texts s k → r.2 ≠ OK)) := by
  unfold encodeTree
  simp only [bind_eq, pure_eq]
  refine Good.bind (encInitOutput_spec e s wf own (by simp [hout])).with_run ?_
  intro r s1 ⟨⟨st1, et1, el1, h1, ho1⟩, hr1⟩
  obtain ⟨e1, ok⟩ := r
  obtain ⟨eh1, c1, ok1, u1⟩ := st1
  simp only at eh1 c1 ok1 u1 et1 el1 h1 ho1 hr1 ⊢
  have hn1 := c1.next; have hh1' := c1.hits
  have htbl1 : ∀ l, e1.strstbl = some l → ∀ x ∈ l.items, x.string.hdr ∈ s1.live ∧ x.string.hdr ∉ ownedBufOpt e1.output := by
    intro l hl x hx; rw [et1] at hl; rw [htbl l hl] at hx; simp at hx
  have hinv1 : TblInv e → TblInv e1 := by
    rintro ⟨l, hl, a, b⟩
    exact ⟨l, by rw [et1]; exact hl, by rw [el1]; exact a, b⟩
  cases ok with
  | false =>
    simp only [Bool.not_false, if_true, good_ret]
    exact ⟨⟨eh1, c1, ok1, u1⟩, htbl1, fun _ _ => by simp [ENOMEM, OK], hinv1, fun _ _ _ _ _ => by simp [ENOMEM, OK]⟩
  | true =>
    simp only [Bool.not_true, Bool.false_eq_true, if_false]
    have hh1 : ¬ s.hits < s1.hits := by intro hh; have := h1 hh; simp at this
    have hwA : ∀ k, s.fails k = true → s.next < k → ¬ k ≤ s1.next :=
      fun k hf a b => hh1 (hits_of_fail hr1 hf a b)
    have own1 : Owns s1 e1.owned := c1.owns
    obtain ⟨o1, ho1'⟩ : ∃ o, e1.output = some o := by
      have := ho1 rfl; cases h : e1.output <;> simp_all
    have hout1 : ∃ o, e1.output = some o ∧ o.ok := ⟨o1, ho1', ok1 o1 ho1'⟩
    have htx1 : ∀ t ∈ texts, t.hdr ∈ s1.live ∧ t.hdr ∉ e1.owned := by
      intro t ht
      obtain ⟨hl, hn⟩ := htx t ht
      refine ⟨c1.stays hl hn, fun hm => ?_⟩
      rcases c1.prod_old_or_new hm with h | h
      · exact hn h
      · have := wf _ hl; omega
    -- the optional string-table initialisation
    have hstep : Good (if e1.useStrtbl = true then strtblInitialize e1 texts else Prog.ret (e1, OK)) s1 (fun r s' =>
        EncStep e1 s1 r.1 s' ∧ r.1.output.isSome ∧
        (∀ l, r.1.strstbl = some l → ∀ x ∈ l.items, x.string.hdr ∈ s'.live ∧ x.string.hdr ∉ ownedBufOpt r.1.output) ∧
        (e.useStrtbl = false → s' = s1 ∧ r = (e1, OK)) ∧ (TblInv e1 → TblInv r.1) ∧
        (∀ k, s1.fails k = true → s1.next < k → k ≤ s'.next → ¬ (e1.useStrtbl = true ∧ InitBenign e1 texts s1 k) → r.2 ≠ OK)) := by
      by_cases hu : e1.useStrtbl = true
      · simp only [hu, if_true]
        refine (strtblInitialize_spec e1 texts s1 c1.wf own1 htx1).with_run.mono ?_
        intro r s' ⟨⟨a, b, c, d, g, i, h⟩, hr⟩
        refine ⟨⟨a, d, fun o ho => ok1 o (by rw [← b]; exact ho), c⟩, by rw [b, ho1']; rfl, ?_,
          fun hf => by rw [← u1, hu] at hf; simp at hf, i, ?_⟩
        · intro l hl x hx
          have hst : x.stat = false := by
            rcases g l hl x hx with ⟨l0, hl0, hx0⟩ | h'
            · rw [et1] at hl0; rw [htbl l0 hl0] at hx0; simp at hx0
            · exact h'
          exact tbl_string_owned hl hx hst d.owns
        · intro k hf a1 a2 hnb
          refine h k hf a1 a2 (fun hw => hnb ⟨trivial, Or.inl hw⟩) (fun hk => hnb ⟨trivial, Or.inr ⟨hk, ?_⟩⟩)
          rw [hr]; exact a2
      · simp only [hu, Bool.false_eq_true, if_false, good_ret]
        exact ⟨⟨by simp, Clean.id c1.wf own1, ok1, by simp⟩, by simp [ho1'], htbl1, fun _ => ⟨by simp, by simp⟩, id,
          fun k _ a b _ => by omega⟩
    refine Good.bind hstep ?_
    intro r2 s2 ⟨st2, ho2, hs2, hno2, hinv2, hrep2⟩
    obtain ⟨e2, ret2⟩ := r2
    obtain ⟨eh2, c2, ok2, u2⟩ := st2
    simp only at eh2 c2 ok2 u2 ho2 hs2 hno2 hinv2 hrep2 ⊢
    have c12 := Clean.trans_recycle wf c1 c2
    have hn2 := c2.next
    have hsched1 : s1.sched = s.sched := c1.sched
    -- a failed request of the first two phases that is not benign makes `ret2` an error
    have hrep12 : ∀ k, s.fails k = true → s.next < k → k ≤ s2.next → ¬ EncBenign e texts s k → ret2 ≠ OK := by
      intro k hf a b hnb
      by_cases k1 : k ≤ s1.next
      · exact (hwA k hf a k1).elim
      · refine hrep2 k (by rw [fails_of_sched hsched1]; exact hf) (by omega) b ?_
        rintro ⟨hu, hb⟩
        exact hnb ⟨by rw [← u1]; exact hu, e1, s1, hr1, hb⟩
    by_cases hret : ret2 = OK
    · subst hret
      simp only [bne_self_eq_false, Bool.false_eq_true, if_false]
      have own2 : Owns s2 e2.owned := c2.owns
      obtain ⟨o2, ho2'⟩ : ∃ o, e2.output = some o := by cases h : e2.output <;> simp_all
      refine (encodeBody_spec body e2 s2 c2.wf own2 ⟨o2, ho2', ok2 o2 ho2'⟩).with_run.mono ?_
      intro r3 s3 ⟨⟨⟨eh3, c3, ok3, u3⟩, et3, el3, ho3, h3, kp3⟩, hr3⟩
      refine ⟨⟨eh3.trans (eh2.trans eh1), Clean.trans_recycle wf c12 c3, ok3, u3.trans (u2.trans u1)⟩, ?_, ?_, ?_, ?_⟩
      · intro l hl x hx
        rw [et3] at hl
        have ⟨hx2, hn2⟩ := hs2 l hl x hx
        exact kp3 _ hx2 hn2
      · intro hf hh
        obtain ⟨es, er⟩ := hno2 hf
        subst es
        exact h3 (by omega)
      · rintro hi
        obtain ⟨l, hl, a, b⟩ := hinv2 (hinv1 hi)
        exact ⟨l, by rw [et3]; exact hl, by rw [el3]; exact a, b⟩
      · intro k hf a b hnb
        by_cases k2 : k ≤ s2.next
        · exact (hrep12 k hf a k2 hnb rfl).elim
        · have hsched2 : s2.sched = s.sched := by rw [c2.sched, hsched1]
          exact h3 (hits_of_fail hr3 (by rw [fails_of_sched hsched2]; exact hf) (by omega) b)
    · have hb : (ret2 != OK) = true := by simpa using hret
      simp only [hb, if_true, good_ret]
      refine ⟨⟨eh2.trans eh1, c12, ok2, u2.trans u1⟩, hs2, ?_, fun hi => hinv2 (hinv1 hi), fun _ _ _ _ _ => hret⟩
      intro hf _
      obtain ⟨_, er⟩ := hno2 hf
      have : ret2 = OK := by simpa using congrArg Prod.snd er
      exact (hret this).elim

/-! ### `wbxml_tree_to_wbxml` -/

/-- `wbxml_tree_to_wbxml`: create the encoder, `encoder_encode_tree`, `wbxml_build_result`, destroy
    the encoder — once, whatever happened.  With or without string table: no fault, nothing but the
    result stays allocated, no result with an error code, and every failed request that is not one of
    the benign ones (`TreeBenign`) yields an error code. -/
theorem treeToWbxml_spec (useStrtbl : Bool) (texts : List ABuf) (body : List Bytes) (version publicId : Nat)
    (s : Ledger) (wf : s.WF) (htx : ∀ t ∈ texts, t.hdr ∈ s.live) :
    Good (treeToWbxml useStrtbl texts body version publicId) s (fun r s' =>
      Clean s s' [] (ownedResult r.2) ∧ (r.1 ≠ OK → r.2 = none) ∧
      (useStrtbl = false → s.hits < s'.hits → r.1 ≠ OK) ∧
      (∀ k, s.fails k = true → s.next < k → k ≤ s'.next → ¬ TreeBenign useStrtbl texts s k → r.1 ≠ OK)) := by
  unfold treeToWbxml
  simp only [bind_eq, pure_eq]
  refine Good.bind (encCreate_spec s wf).with_run ?_
  intro e s1 ⟨⟨c1, h1, k1⟩, hr1⟩
  have hn1 := c1.next; have hh1 := c1.hits
  cases e with
  | none =>
    simp only [good_ret, ownedResult]
    exact ⟨by simpa [ownedEncOpt] using c1, by simp, fun _ _ => by simp [ENOMEM, OK], fun _ _ _ _ _ => by simp [ENOMEM, OK]⟩
  | some e0 =>
    simp only
    obtain ⟨ho0, l0, hl0, hc0⟩ := k1 e0 rfl
    have hhh1 : ¬ s.hits < s1.hits := by intro hh; have := h1 hh; simp at this
    have hwA : ∀ k, s.fails k = true → s.next < k → ¬ k ≤ s1.next :=
      fun k hf a b => hhh1 (hits_of_fail hr1 hf a b)
    -- the encoder with the caller's setting
    have hownE : ({ e0 with useStrtbl := useStrtbl } : AEnc).owned = e0.owned := by
      simp [AEnc.owned_eq]
    have own1 : Owns s1 ({ e0 with useStrtbl := useStrtbl } : AEnc).owned := by
      rw [hownE]; simpa [ownedEncOpt] using c1.owns
    have hfE : ∀ i ∈ e0.owned, s.next < i ∧ i ≤ s1.next := by
      intro i hi; have := c1.fresh i (by simpa [ownedEncOpt] using hi); simpa using this
    have htx1 : ∀ t ∈ texts, t.hdr ∈ s1.live ∧ t.hdr ∉ ({ e0 with useStrtbl := useStrtbl } : AEnc).owned := by
      intro t ht
      refine ⟨c1.stays (htx t ht) (by simp), fun hm => ?_⟩
      rw [hownE] at hm
      have := hfE _ hm; have := wf _ (htx t ht); omega
    refine Good.bind (encodeTree_spec texts body { e0 with useStrtbl := useStrtbl } s1 c1.wf own1 (by simpa using ho0)
      htx1 (by intro l hl; simp only at hl; rw [hl0] at hl; cases hl; simp [AList.items, hc0])) ?_
    intro r2 s2 ⟨⟨eh2, c2, ok2, u2⟩, hs2, h2, _, hrep2⟩
    obtain ⟨e2, ret⟩ := r2
    simp only at eh2 c2 ok2 u2 hs2 h2 hrep2 ⊢
    rw [hownE] at c2
    have hn2 := c2.next; have hh2 := c2.hits
    have own2 : Owns s2 e2.owned := c2.owns
    have hsched1 : s1.sched = s.sched := c1.sched
    have hfE2 : ∀ i ∈ e2.owned, s.next < i ∧ i ≤ s2.next := by
      intro i hi
      rcases c2.fresh i hi with h | h
      · have := hfE i h; omega
      · omega
    have hrep12 : ∀ k, s.fails k = true → s.next < k → k ≤ s2.next → ¬ TreeBenign useStrtbl texts s k → ret ≠ OK := by
      intro k hf a b hnb
      by_cases k1' : k ≤ s1.next
      · exact (hwA k hf a k1').elim
      · exact hrep2 k (by rw [fails_of_sched hsched1]; exact hf) (by omega) b (fun hb => hnb ⟨e0, s1, hr1, hb⟩)
    -- destroying the encoder gives back the state before the call (plus `extra`)
    have hdestroy : ∀ (s3 : Ledger) (extra : List Nat), s3.WF → Owns s3 e2.owned →
        (∀ i, i ∈ s3.live ↔ i ∈ s2.live ∨ i ∈ extra) → (∀ i ∈ extra, s2.next < i) →
        Good (encDestroy (some e2)) s3 (fun _ s4 =>
          (∀ i, i ∈ s4.live ↔ i ∈ s.live ∨ i ∈ extra) ∧ s4.sched = s3.sched ∧ s4.next = s3.next ∧ s4.hits = s3.hits ∧ s4.WF) := by
      intro s3 extra wf3 own3 hl3 hex
      refine (encDestroy_spec (some e2) s3 wf3 (by simpa [ownedEncOpt] using own3)).mono ?_
      intro _ s4 ⟨c4, h4, n4⟩
      refine ⟨?_, c4.sched, n4, h4, c4.wf⟩
      intro i
      rw [c4.live, hl3, c2.live, c1.live]
      have a1 := hfE i; have a2 := hfE2 i; have a3 := wf i; have a4 := hex i
      simp only [ownedEncOpt, List.not_mem_nil, not_false_eq_true, and_true, or_false]
      clear c1 c2 c4 own1 own2 own3 hfE hfE2 hl3 hex hs2 htx1 hrep2 hrep12 hr1 hwA
      grind
    by_cases hret : ret = OK
    · subst hret
      simp only [bne_self_eq_false, Bool.false_eq_true, if_false]
      have hl2 : e2.hdr ∈ s2.live := own2.2 _ (by simp [AEnc.owned])
      have hout2 : ∀ o, e2.output = some o → o.hdr ∈ s2.live ∧ o.ok := by
        intro o ho
        exact ⟨own2.2 _ (by simp [AEnc.owned_eq, ho, ownedBufOpt, ABuf.owned]), ok2 o ho⟩
      refine Good.bind (buildResult_spec e2 version publicId s2 c2.wf hl2 hout2 (fun l hl x hx => (hs2 l hl x hx).1)).with_run ?_
      intro r3 s3 ⟨⟨c3, e3, h3⟩, hr3⟩
      obtain ⟨ret3, out⟩ := r3
      simp only at c3 e3 h3 ⊢
      have hn3 := c3.next; have hh3 := c3.hits
      have own3 : Owns s3 e2.owned := c3.keeps own2 (by simp)
      refine Good.bind (hdestroy s3 (ownedResult out) c3.wf own3 (by intro i; rw [c3.live]; simp)
        (by intro i hi; have := c3.fresh i hi; simp at this; omega)) ?_
      intro _ s4 ⟨l4, sc4, n4, hh4, wf4⟩
      simp only [good_ret]
      refine ⟨⟨by intro i; rw [l4]; simp, ?_, c3.nodup, by rw [sc4, c3.sched, c2.sched, c1.sched], by omega, by omega, wf4⟩, e3, ?_, ?_⟩
      · intro i hi; have := c3.fresh i hi; simp at this; exact Or.inr ⟨by omega, by omega⟩
      · intro hf hh
        by_cases hA : s2.hits < s3.hits
        · exact h3 hA
        · exfalso
          have := h2 (by simpa using hf) (by omega)
          exact this rfl
      · intro k hf a b hnb
        by_cases k2 : k ≤ s2.next
        · exact (hrep12 k hf a k2 hnb rfl).elim
        · have hsched2 : s2.sched = s.sched := by rw [c2.sched, hsched1]
          exact h3 (hits_of_fail hr3 (by rw [fails_of_sched hsched2]; exact hf) (by omega) (by omega))
    · have hb : (ret != OK) = true := by simpa using hret
      simp only [hb, if_true]
      refine Good.bind (hdestroy s2 [] c2.wf own2 (by simp) (by simp)) ?_
      intro _ s4 ⟨l4, sc4, n4, hh4, wf4⟩
      simp only [good_ret, ownedResult]
      exact ⟨⟨by intro i; rw [l4]; simp, by simp, by simp, by rw [sc4, c2.sched, c1.sched], by omega, by omega, wf4⟩, by simp,
        fun _ _ => hret, fun _ _ _ _ _ => hret⟩

end Wbxml.Model.Alloc
