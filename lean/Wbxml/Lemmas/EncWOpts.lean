/-
  WBXML encoder proofs: option tuples that run the same node walk (C07).

  * Grammar side: the events the specification assigns to a well-formed element depend on the
    reader context only through the language and the strings the string table holds at the indices
    the element uses (`CtxAgree`, `evElem_congr` — a mutual structural induction over `Spec.Elem`).
  * Appending entries to a string table (the textual public identifier `wbxml_fill_header` adds)
    does not change what the earlier indices denote (`strAt_append`).
  * Encoder side: two option tuples with the same white-space options and the same EFFECTIVE
    string-table switch run the same node walk from the same initial state — `produce_anonymous` is
    read by the header only, the version by the header and by embedded documents (`sameWalk`).
-/
import Wbxml.Lemmas.EncWDoc
namespace Wbxml.Lemmas.EncW
open Wbxml Wbxml.Model Wbxml.Spec Wbxml.Lemmas.ParseSer
open Wbxml.Model.Codec (mbEncode)

/-! ### Reader contexts that agree on a document -/

/-- Same language, and the second string table holds the same string as the first at every index
    inside the first. -/
structure CtxAgree (a b : Ctx) : Prop where
  lang : a.lang = b.lang
  str : ∀ off, off < a.tbl.length → strAt a.tbl off = strAt b.tbl off

theorem strText_congr {a b : Ctx} (h : CtxAgree a b) (s : Str) (hw : wfStr a s = true) : strText a s = strText b s := by
  cases s with
  | inl s => rfl
  | tbl off =>
    simp only [wfStr, Bool.and_eq_true, decide_eq_true_eq] at hw
    exact h.str off hw.2

theorem extText_congr {a b : Ctx} (h : CtxAgree a b) (x : Ext) (hw : wfExt a x = true) : extText a x = extText b x := by
  cases x with
  | inl k s => simp only [extText, h.lang]
  | tok k => rfl
  | tbl k v =>
    simp only [extText, ← h.lang]
    by_cases hwml : isWml a.lang.id = true
    · simp only [wfExt, hwml, ↓reduceIte, Bool.and_eq_true, decide_eq_true_eq] at hw
      simp only [hwml, ↓reduceIte, h.str v hw.2.2]
    · simp only [hwml, Bool.false_eq_true, ↓reduceIte]

theorem opaqueText_congr {a b : Ctx} (h : CtxAgree a b) (own : Option TagRow) (d : Bytes) :
    opaqueText a own d = opaqueText b own d := by simp only [opaqueText, h.lang]

theorem opaqueAttrText_congr {a b : Ctx} (h : CtxAgree a b) (d : Bytes) : opaqueAttrText a d = opaqueAttrText b d := by
  simp only [opaqueAttrText, h.lang]

theorem tagRow_congr {a b : Ctx} (h : CtxAgree a b) (p t : Nat) : tagRow a p t = tagRow b p t := by
  simp only [tagRow, h.lang]
theorem attrRow_congr {a b : Ctx} (h : CtxAgree a b) (p t : Nat) : attrRow a p t = attrRow b p t := by
  simp only [attrRow, h.lang]
theorem valRow_congr {a b : Ctx} (h : CtxAgree a b) (p t : Nat) : valRow a p t = valRow b p t := by
  simp only [valRow, h.lang]

theorem avalText_congr {a b : Ctx} (h : CtxAgree a b) (ap : Nat) (v : AVal) (hw : wfAVal a ap v = true) :
    avalText a ap v = avalText b ap v := by
  cases v with
  | tok sw t => simp only [avalText, valRow_congr h]
  | str s => simp only [avalText, strText_congr h s hw]
  | entity c => rfl
  | «opaque» d => simp only [avalText, opaqueAttrText_congr h]
  | ext sw x =>
    simp only [wfAVal, Bool.and_eq_true] at hw
    simp only [avalText, extText_congr h x hw.2]

theorem avalsText_congr {a b : Ctx} (h : CtxAgree a b) (ap : Nat) (vs : List AVal) (hw : wfAVals a ap vs = true) :
    avalsText a ap vs = avalsText b ap vs := by
  induction vs generalizing ap with
  | nil => rfl
  | cons v vs ih =>
    simp only [wfAVals, Bool.and_eq_true] at hw
    simp only [avalsText, ← avalText_congr h ap v hw.1, ih _ hw.2]

theorem astartName_congr {a b : Ctx} (h : CtxAgree a b) (ap : Nat) (s : AStart) (hw : wfAStart a ap s = true) :
    astartName a ap s = astartName b ap s := by
  cases s with
  | tok sw t => simp only [astartName, attrRow_congr h]
  | lit off =>
    simp only [wfAStart, Bool.and_eq_true, decide_eq_true_eq] at hw
    simp only [astartName, h.str off hw.2]

theorem isDatetimeAttr_congr {a b : Ctx} (h : CtxAgree a b) (n : AName) : isDatetimeAttr a n = isDatetimeAttr b n := by
  cases n with
  | token r => simp only [isDatetimeAttr, h.lang]
  | literal s => rfl

theorem attrValueText_congr {a b : Ctx} (h : CtxAgree a b) (n : AName) (raw : Bytes) :
    attrValueText a n raw = attrValueText b n raw := by
  simp only [attrValueText, isDatetimeAttr_congr h]

theorem evPi_congr {a b : Ctx} (h : CtxAgree a b) (ap : Nat) (x : Attribute) (hw : wfPi a ap x = true) :
    evPi a ap x = evPi b ap x := by
  simp only [wfPi, Bool.and_eq_true] at hw
  simp only [evPi, ← astartName_congr h ap x.start hw.1, ← avalsText_congr h _ x.vals hw.2]

theorem evAttr_congr {a b : Ctx} (h : CtxAgree a b) (ap : Nat) (x : Attribute) (hw : wfAttr a ap x = true) :
    evAttr a ap x = evAttr b ap x := by
  simp only [wfAttr, wfPi, Bool.and_eq_true] at hw
  simp only [evAttr, ← astartName_congr h ap x.start hw.1.1, ← avalsText_congr h _ x.vals hw.1.2,
    attrValueText_congr h]

theorem evAttrs_congr {a b : Ctx} (h : CtxAgree a b) (ap : Nat) (xs : List Attribute) (hw : wfAttrs a ap xs = true) :
    evAttrs a ap xs = evAttrs b ap xs := by
  induction xs generalizing ap with
  | nil => rfl
  | cons x xs ih =>
    simp only [wfAttrs, Bool.and_eq_true] at hw
    simp only [evAttrs, ← evAttr_congr h ap x hw.1, ih _ hw.2]

theorem tagName_congr {a b : Ctx} (h : CtxAgree a b) (tp : Nat) (t : Tag) (hw : wfTag a tp t = true) :
    tagName a tp t = tagName b tp t := by
  cases t with
  | tok t => simp only [tagName, tagRow_congr h]
  | lit off =>
    simp only [wfTag, Bool.and_eq_true, decide_eq_true_eq] at hw
    simp only [tagName, h.str off hw.2]

mutual
/-- **The events of a well-formed element do not depend on the rest of the reader context.** -/
theorem evElem_congr {a b : Ctx} (h : CtxAgree a b) : ∀ (e : Elem) (slot : Option TagRow) (pg : Pages),
    wfElem a slot pg e = true → evElem a pg e = evElem b pg e
  | .mk sw tag attrs content, slot, pg, hw => by
    rw [wfElem_mk] at hw
    simp only [Bool.and_eq_true] at hw
    obtain ⟨⟨⟨_, ht⟩, ha⟩, hc⟩ := hw
    have e1 := tagName_congr h (swPage sw pg.tag) tag ht
    have e2 := evAttrs_congr h pg.attr attrs ha
    have e3 := evContent_congr h content _ _ _ hc
    rw [evElem_mk, evElem_mk, ← e1, ← e2, ← e3]
theorem evContent_congr {a b : Ctx} (h : CtxAgree a b) : ∀ (c : Option (List Item)) (own slot : Option TagRow) (pg : Pages),
    wfContent a own slot pg c = true → evContent a own pg c = evContent b own pg c
  | none, own, slot, pg, _ => by rw [evContent_none, evContent_none]
  | some items, own, slot, pg, hw => by
    rw [wfContent_some] at hw
    rw [evContent_some, evContent_some]
    exact evItems_congr h items own slot pg hw
theorem evItems_congr {a b : Ctx} (h : CtxAgree a b) : ∀ (l : List Item) (own slot : Option TagRow) (pg : Pages),
    wfItems a own slot pg l = true → evItems a own pg l = evItems b own pg l
  | [], own, slot, pg, _ => by rw [evItems_nil, evItems_nil]
  | it :: rest, own, slot, pg, hw => by
    rw [wfItems_cons, Bool.and_eq_true] at hw
    have e1 := evItem_congr h it own slot pg hw.1
    have e2 := evItems_congr h rest own _ _ hw.2
    rw [evItems_cons, evItems_cons, ← e1, ← e2]
theorem evItem_congr {a b : Ctx} (h : CtxAgree a b) : ∀ (it : Item) (own slot : Option TagRow) (pg : Pages),
    wfItem a own slot pg it = true → evItem a own pg it = evItem b own pg it
  | .elem e, own, slot, pg, hw => by
    rw [wfItem_elem] at hw
    rw [evItem_elem, evItem_elem]
    exact evElem_congr h e slot pg hw
  | .str s, own, slot, pg, hw => by
    rw [wfItem_str] at hw
    rw [evItem_str, evItem_str, strText_congr h s hw]
  | .entity code, own, slot, pg, _ => by rw [evItem_entity, evItem_entity]
  | .opaque d, own, slot, pg, _ => by rw [evItem_opaque, evItem_opaque, opaqueText_congr h]
  | .ext sw x, own, slot, pg, hw => by
    rw [wfItem_ext, Bool.and_eq_true] at hw
    rw [evItem_ext, evItem_ext, extText_congr h x hw.2]
  | .pi x, own, slot, pg, hw => by
    rw [wfItem_pi] at hw
    rw [evItem_pi, evItem_pi, evPi_congr h pg.attr x hw]
end

/-! ### String tables that grow at their end -/

theorem takeWhile_append_of_mem {α : Type} (p : α → Bool) (l x : List α) (h : ∃ y ∈ l, p y = false) :
    (l ++ x).takeWhile p = l.takeWhile p := by
  induction l with
  | nil => obtain ⟨y, hy, _⟩ := h; cases hy
  | cons z zs ih =>
    simp only [List.cons_append, List.takeWhile_cons]
    cases hz : p z with
    | false => rfl
    | true =>
      simp only [↓reduceIte]
      congr 1
      apply ih
      obtain ⟨y, hy, hp⟩ := h
      rcases List.mem_cons.mp hy with rfl | hy
      · rw [hz] at hp; cases hp
      · exact ⟨y, hy, hp⟩

/-- Octets of a string table: empty, or ending with a terminator. -/
theorem strtblBytes_last (tbl : List StrEntry) : strtblBytes tbl = [] ∨ (strtblBytes tbl).getLast? = some 0 := by
  induction tbl with
  | nil => exact Or.inl rfl
  | cons e es ih =>
    right
    rw [strtblBytes_cons, List.getLast?_append]
    rcases ih with ih | ih
    · rw [ih]; simp
    · rw [ih]; rfl

/-- Appending octets to a table that ends with a terminator does not change what its indices denote. -/
theorem strAt_append (t x : Bytes) (hl : t = [] ∨ t.getLast? = some 0) (off : Nat) (ho : off < t.length) :
    strAt t off = strAt (t ++ x) off := by
  unfold strAt
  rw [List.drop_append_of_le_length (Nat.le_of_lt ho)]
  symm
  apply takeWhile_append_of_mem
  rcases hl with hl | hl
  · subst hl; simp at ho
  · refine ⟨0, ?_, by simp⟩
    have hne : t.drop off ≠ [] := by
      intro hd
      have := congrArg List.length hd
      simp only [List.length_drop, List.length_nil] at this
      omega
    have hlast : (t.drop off).getLast? = some 0 := by
      rw [List.getLast?_drop]
      simp only [hl, ite_eq_right_iff]
      intro hle; omega
    exact List.mem_of_getLast? hlast

/-- The table a header carries (`finalTbl`) extends the octets of the body's table. -/
theorem finalTbl_bytes (c : WCfg) (st : WSt) (hno : c.useStrtbl = false → st.strtbl = []) :
    ∃ x, strtblBytes (finalTbl c st) = strtblBytes st.strtbl ++ x := by
  cases hu : c.useStrtbl with
  | true =>
    obtain ⟨t, ht⟩ := finalTbl_prefix c st hu
    exact ⟨strtblBytes t, by rw [← ht, strtblBytes_append]⟩
  | false => exact ⟨_, by rw [hno hu, strtblBytes_nil, List.nil_append]⟩

/-- A reader context that carries exactly the table the body built agrees with every context that
    carries a header's table for the same final state. -/
theorem ctxAgree_final (c : WCfg) (st : WSt) (hno : c.useStrtbl = false → st.strtbl = []) (lang : Lang) (cs cs' : Nat) :
    CtxAgree { lang := lang, charset := cs, tbl := strtblBytes st.strtbl }
      { lang := lang, charset := cs', tbl := strtblBytes (finalTbl c st) } := by
  obtain ⟨x, hx⟩ := finalTbl_bytes c st hno
  refine ⟨rfl, ?_⟩
  intro off ho
  show strAt (strtblBytes st.strtbl) off = strAt (strtblBytes (finalTbl c st)) off
  rw [hx]
  exact strAt_append _ x (strtblBytes_last _) off ho

/-! ### Option tuples with the same node walk -/

/-- The two parameter blocks make `wbxml_tree_to_wbxml` run the same node walk: same white-space
    options and the same string-table switch after the language switch of `encoder_encode_tree`
    (Wireless Village and OTA settings never use a string table, whatever was asked for). -/
def sameWalk (cfg₁ cfg₂ : X2WCfg) (lang : Lang) : Bool :=
  (cfg₁.keepWs == cfg₂.keepWs) && ((dcfgOf cfg₁ lang).useStrtbl == (dcfgOf cfg₂ lang).useStrtbl)

theorem dcfgOf_core_version (cfg₁ cfg₂ : X2WCfg) (lang : Lang) (h : sameWalk cfg₁ cfg₂ lang = true) :
    core (dcfgOf cfg₂ lang) = core { dcfgOf cfg₁ lang with version := cfg₂.version } := by
  simp only [sameWalk, Bool.and_eq_true, beq_iff_eq] at h
  obtain ⟨hk, hu⟩ := h
  have h1 : (dcfgOf cfg₂ lang).ignoreEmpty = (dcfgOf cfg₁ lang).ignoreEmpty := by
    simp only [dcfgOf, deriveCfg_ignoreEmpty, wcfgOf, hk]
  have h2 : (dcfgOf cfg₂ lang).removeBlanks = (dcfgOf cfg₁ lang).removeBlanks := by
    simp only [dcfgOf, deriveCfg_removeBlanks, wcfgOf, hk]
  simp only [core, dcfgOf_lang, dcfgOf_version, h1, h2, hu]

/-- Under `sameWalk`, and without embedded documents when the versions differ, the second run is
    the first run. -/
theorem sameWalk_run (cfg₁ cfg₂ : X2WCfg) (lang : Lang) (r : Node) (h : sameWalk cfg₁ cfg₂ lang = true)
    (hn : noNested r = true ∨ cfg₁.version = cfg₂.version) :
    encNodeG (dcfgOf cfg₂ lang) none true r (docStartW (dcfgOf cfg₂ lang) r) =
      encNodeG (dcfgOf cfg₁ lang) none true r (docStartW (dcfgOf cfg₁ lang) r) := by
  have hc := dcfgOf_core_version cfg₁ cfg₂ lang h
  rw [docStartW_core _ _ hc, encNodeG_eq_of_core _ _ hc, docStartW_version]
  rcases hn with hn | hv
  · exact (encNodeG_version cfg₂.version).1 _ _ _ _ _ hn
  · have : ({ dcfgOf cfg₁ lang with version := cfg₂.version } : WCfg) = dcfgOf cfg₁ lang := by
      rw [← hv, ← dcfgOf_version cfg₁ lang]
    rw [this]

/-! ### The body of a produced document under any reader context -/

theorem strtbl_offset_lt (st : WSt) (hinv : StrInv st) (e : StrEntry) (he : e ∈ st.strtbl) :
    e.offset < (strtblBytes st.strtbl).length := by
  obtain ⟨pre, post, hs, ho⟩ := offsFrom_split 0 _ hinv.offs e he
  rw [hs, ho]
  simp only [List.length_append, List.length_cons, List.length_nil]
  omega

/-- The reader context that carries exactly the string table the body built. -/
def bodyCtx (lang : Lang) (st : WSt) : Ctx := { lang := lang, charset := 106, tbl := strtblBytes st.strtbl }

/-- The root element a successful run wrote is well-formed for EVERY reader context that agrees
    with the encoder (language, deliverable character set, the body's table entries inside the
    context's table) — under the source hypotheses of `DocRes.wfTyped`. -/
theorem DocRes.wfAt {cfg lang r bs d st} (h : DocRes cfg lang r bs d st) (_hl : langOk lang = true)
    (htl : typedLangOk lang = true)
    (h1 : noCdataInTyped lang false r = true) (h2 : validDatetimeAttrs lang r = true)
    (h3 : b64TextDecodes (dcfgOf cfg lang) none r = true)
    (h4 : keyValueTextFirst (dcfgOf cfg lang) none true r = true)
    (hsize : (serElem d.root).length < 4294967296)
    (ctx : Ctx) (hc : Compat (dcfgOf cfg lang) st.strtbl ctx) : wfElem ctx none ⟨0, 0⟩ d.root = true := by
  have hpos : Pos (dcfgOf cfg lang) ctx none (docStartW (dcfgOf cfg lang) r).curTag false true none none := by
    rw [(docStartW_fields _ r).2.2.2.1]; exact Pos.root _ _ true
  have := h.wfT false true (by rw [dcfgOf_lang]; exact htl) (by rw [dcfgOf_lang]; exact h1)
    (by rw [dcfgOf_lang]; exact h2) h3 h4 ctx hc
    (by intro x hx
        have := h.body.osz x hx
        rw [serItems_single, serItem_elem] at this
        omega) none none hpos
  rw [(docStartW_fields _ r).2.1, (docStartW_fields _ r).2.2.1, wfItems_single, wfItem_elem] at this
  exact this

theorem DocRes.compat_body {cfg lang r bs d st} (h : DocRes cfg lang r bs d st) :
    Compat (dcfgOf cfg lang) st.strtbl (bodyCtx lang st) :=
  ⟨by simp [bodyCtx], rfl, fun e he => strtbl_offset_lt st h.inv e he⟩

/-- Compatibility of the reader context a header selects, for the header of ANY option tuple with
    the same effective string-table switch written over the same final state. -/
theorem compat_header (c c' : WCfg) (st : WSt) (hinv : StrInv st) (hno : c'.useStrtbl = false → st.strtbl = [])
    (_hlang : c.lang = c'.lang) (pcfg : PCfg)
    (hcs : headerCharset pcfg (hdrOf c' st) = 3 ∨ headerCharset pcfg (hdrOf c' st) = 106) :
    Compat c st.strtbl (headerCtx pcfg (hdrOf c' st) c.lang) := by
  refine ⟨rfl, ?_, ?_⟩
  · simp only [csOk, headerCtx, Bool.or_eq_true, beq_iff_eq]; exact hcs
  · intro e he
    show e.offset < (tblBytes (hdrOf c' st).strtbl).length
    have : tblBytes (hdrOf c' st).strtbl = strtblBytes (finalTbl c' st) := tblBytes_map _
    rw [this]
    exact finalTbl_offset_lt c' st hinv e (finalTbl_mem_of_body c' st hno e he)

/-- The events of the root element under the context a header selects are its events under the
    context of the body's own table. -/
theorem DocRes.events_body {cfg lang r bs d st} (_h : DocRes cfg lang r bs d st)
    (hw : wfElem (bodyCtx lang st) none ⟨0, 0⟩ d.root = true)
    (c' : WCfg) (hno : c'.useStrtbl = false → st.strtbl = []) (pcfg : PCfg) :
    evElem (headerCtx pcfg (hdrOf c' st) lang) ⟨0, 0⟩ d.root = evElem (bodyCtx lang st) ⟨0, 0⟩ d.root := by
  have hag : CtxAgree (bodyCtx lang st) (headerCtx pcfg (hdrOf c' st) lang) := by
    have := ctxAgree_final c' st hno lang 106 (headerCharset pcfg (hdrOf c' st))
    have e : Spec.tblBytes (hdrOf c' st).strtbl = strtblBytes (finalTbl c' st) := tblBytes_map _
    simp only [headerCtx, e]
    exact this
  exact (evElem_congr hag d.root none ⟨0, 0⟩ hw).symm

/-- **Same node walk ⇒ same body, and the same events for every pair of readers.** Let the first
    run (`DocRes` for `cfg₁`) have written `d₁`. A second option tuple with the same white-space
    options and the same effective string-table switch (any version — without embedded documents —,
    with or without public identifier) writes `Spec.ser d₂` where `d₂` is `d₁` with the second
    header; `d₂` is well-formed for every reader whose header look-up selects the language, and the
    events of the two documents differ in the `startDoc` event only. -/
theorem DocRes.sameWalk {cfg₁ lang r bs₁ d₁ st} (h : DocRes cfg₁ lang r bs₁ d₁ st) (hl : langOk lang = true)
    (htl : typedLangOk lang = true)
    (h1 : noCdataInTyped lang false r = true) (h2 : validDatetimeAttrs lang r = true)
    (h3 : b64TextDecodes (dcfgOf cfg₁ lang) none r = true)
    (h4 : keyValueTextFirst (dcfgOf cfg₁ lang) none true r = true)
    (cfg₂ : X2WCfg) (t : Tree) (bs₂ : Bytes) (hlang : t.lang = some lang) (hroot : t.root = some r)
    (hsw : sameWalk cfg₁ cfg₂ lang = true) (hn : noNested r = true ∨ cfg₁.version = cfg₂.version)
    (hrun₂ : treeToWbxml cfg₂ t = .ok bs₂) :
    ∃ d₂ : Doc, bs₂ = Spec.ser d₂ ∧ d₂.root = d₁.root ∧ d₂.hdr = hdrOf (dcfgOf cfg₂ lang) st ∧
      ∀ p₁ p₂ : PCfg, headerLang p₁ d₁.hdr = some lang → headerLang p₂ d₂.hdr = some lang →
        (headerCharset p₂ d₂.hdr = 3 ∨ headerCharset p₂ d₂.hdr = 106) →
        p₂.charsets.contains (headerCharset p₂ d₂.hdr) = true →
        cfg₂.version < 256 → bs₁.length < 4294967296 → bs₂.length < 4294967296 →
        d₂.WF p₂ ∧ ∃ evs : List Event,
          Spec.events p₁ d₁ = .startDoc (headerCharset p₁ d₁.hdr) lang.id :: (evs ++ [.endDoc]) ∧
          Spec.events p₂ d₂ = .startDoc (headerCharset p₂ d₂.hdr) lang.id :: (evs ++ [.endDoc]) := by
  obtain ⟨lang', r', st', hl', hr', hrun', hbs'⟩ := treeToWbxml_ok hrun₂
  rw [hlang] at hl'; injection hl' with hl'; subst hl'
  rw [hroot] at hr'; injection hr' with hr'; subst hr'
  rw [sameWalk_run cfg₁ cfg₂ lang r hsw hn, h.run] at hrun'
  injection hrun' with hrun'; subst hrun'
  have hu : (dcfgOf cfg₂ lang).useStrtbl = (dcfgOf cfg₁ lang).useStrtbl := by
    simp only [EncW.sameWalk, Bool.and_eq_true, beq_iff_eq] at hsw; exact hsw.2.symm
  have hno₂ : (dcfgOf cfg₂ lang).useStrtbl = false → st.strtbl = [] := fun hf => h.no (by rw [← hu]; exact hf)
  have hout : st.out = serElem d₁.root := by
    have := h.body.out
    rw [(docStartW_fields _ r).1, List.nil_append, serItems_single, serItem_elem] at this
    exact this
  refine ⟨{ hdr := hdrOf (dcfgOf cfg₂ lang) st, pre := [], root := d₁.root, post := [] }, ?_, rfl, rfl, ?_⟩
  · rw [hbs', fillHeaderW_ser _ _ h.inv hno₂]
    simp [Spec.ser, serBody, serPis, hout]
  intro p₁ p₂ a₁ a₂ b₂ c₂ v₂ s₁ s₂
  have hsz₁ : (serElem d₁.root).length < 4294967296 := by
    have : (serElem d₁.root).length ≤ bs₁.length := by
      rw [h.ser, Spec.ser, serBody]; simp only [List.length_append]; omega
    omega
  have hw0 := h.wfAt hl htl h1 h2 h3 h4 hsz₁ (bodyCtx lang st) h.compat_body
  have hcompat₂ : Compat (dcfgOf cfg₁ lang) st.strtbl (headerCtx p₂ (hdrOf (dcfgOf cfg₂ lang) st) lang) := by
    have := compat_header (dcfgOf cfg₁ lang) (dcfgOf cfg₂ lang) st h.inv hno₂ (by simp) p₂ b₂
    rw [dcfgOf_lang] at this
    exact this
  have hw₂ := h.wfAt hl htl h1 h2 h3 h4 hsz₁ _ hcompat₂
  have e₁ := h.events_body hw0 (dcfgOf cfg₁ lang) h.no p₁
  have e₂ := h.events_body hw0 (dcfgOf cfg₂ lang) hno₂ p₂
  refine ⟨?_, (evElem (bodyCtx lang st) ⟨0, 0⟩ d₁.root).1, ?_, ?_⟩
  · -- well-formedness of the second document
    have htb : Spec.tblBytes (hdrOf (dcfgOf cfg₂ lang) st).strtbl = strtblBytes (finalTbl (dcfgOf cfg₂ lang) st) :=
      tblBytes_map _
    have hlen : (Spec.tblBytes (hdrOf (dcfgOf cfg₂ lang) st).strtbl).length < bs₂.length := by
      rw [hbs', fillHeaderW_ser _ _ h.inv hno₂, serHeader]
      simp only [List.length_append, List.length_cons]
      omega
    unfold Doc.WF Doc.wf
    simp only at a₂ ⊢
    rw [a₂]
    simp only [Bool.and_eq_true]
    refine ⟨?_, ⟨rfl, ?_⟩, rfl⟩
    · refine hdrOf_wf _ st h.inv (by rw [dcfgOf_lang]; exact hl) p₂ b₂ c₂ (by rw [dcfgOf_version]; exact v₂) ?_
      rw [← htb]; omega
    · exact hw₂
  · unfold Spec.events
    rw [a₁, h.pre, h.post]
    simp only [evPis, List.nil_append, headerCtx]
    have : evElem { lang := lang, charset := headerCharset p₁ d₁.hdr, tbl := Spec.tblBytes d₁.hdr.strtbl } ⟨0, 0⟩ d₁.root =
        evElem (bodyCtx lang st) ⟨0, 0⟩ d₁.root := by
      have := e₁; rw [← h.hdr] at this; exact this
    rw [this]
  · unfold Spec.events
    simp only at a₂ ⊢
    rw [a₂]
    simp only [evPis, List.nil_append, headerCtx]
    exact congrArg (fun x => Event.startDoc _ lang.id :: (x.1 ++ [Event.endDoc])) e₂

end Wbxml.Lemmas.EncW
