/-
  WBXML encoder proofs: `wbxml_fill_header` writes the serialisation of a `Spec.Header`, and the
  shape of a successful `treeToWbxml` run (header of the final state ++ body).
-/
import Wbxml.Lemmas.EncWCfg
import Wbxml.Spec.Wbxml
namespace Wbxml.Lemmas.EncW
open Wbxml Wbxml.Model Wbxml.Spec
open Wbxml.Model.Codec (mbEncode)

/-- The encoder options `wbxml_tree_to_wbxml` derives from its parameter block. -/
def wcfgOf (cfg : X2WCfg) (lang : Lang) : WCfg :=
  { lang := lang, ignoreEmpty := !cfg.keepWs, removeBlanks := !cfg.keepWs,
    useStrtbl := cfg.useStrtbl, version := cfg.version, anonymous := cfg.anonymous }

/-- … and after `encoder_encode_tree`'s language switch. -/
def dcfgOf (cfg : X2WCfg) (lang : Lang) : WCfg := deriveCfg (wcfgOf cfg lang)

theorem deriveCfg_lang (c : WCfg) : (deriveCfg c).lang = c.lang := by unfold deriveCfg; split <;> rfl
theorem deriveCfg_version (c : WCfg) : (deriveCfg c).version = c.version := by unfold deriveCfg; split <;> rfl
theorem deriveCfg_anonymous (c : WCfg) : (deriveCfg c).anonymous = c.anonymous := by unfold deriveCfg; split <;> rfl
theorem deriveCfg_textual (c : WCfg) : (deriveCfg c).textualPublicId = c.textualPublicId := by
  unfold deriveCfg; split <;> rfl
theorem deriveCfg_ignoreEmpty (c : WCfg) : (deriveCfg c).ignoreEmpty = c.ignoreEmpty := by unfold deriveCfg; split <;> rfl
theorem deriveCfg_removeBlanks (c : WCfg) : (deriveCfg c).removeBlanks = c.removeBlanks := by
  unfold deriveCfg; split <;> rfl
theorem deriveCfg_useStrtbl (c : WCfg) :
    (deriveCfg c).useStrtbl = (if isWv c.lang.id || c.lang.id == 1901 then false else c.useStrtbl) := by
  unfold deriveCfg; split <;> rfl

@[simp] theorem dcfgOf_lang (cfg lang) : (dcfgOf cfg lang).lang = lang := deriveCfg_lang _
@[simp] theorem dcfgOf_version (cfg lang) : (dcfgOf cfg lang).version = cfg.version := deriveCfg_version _
@[simp] theorem dcfgOf_anonymous (cfg lang) : (dcfgOf cfg lang).anonymous = cfg.anonymous := deriveCfg_anonymous _
@[simp] theorem dcfgOf_textual (cfg lang) : (dcfgOf cfg lang).textualPublicId = false := deriveCfg_textual _

/-- Shape of a successful run: language and root present, the node walk from the initial state
    succeeds with some final state `st`, and the result is `header(st) ++ st.out`. -/
theorem treeToWbxml_ok {cfg : X2WCfg} {t : Tree} {bs : Bytes} (h : treeToWbxml cfg t = .ok bs) :
    ∃ lang r st, t.lang = some lang ∧ t.root = some r ∧
      encNodeG (dcfgOf cfg lang) none true r (docStartW (dcfgOf cfg lang) r) = .ok st ∧
      bs = (fillHeaderW (dcfgOf cfg lang) st).1 ++ st.out := by
  unfold treeToWbxml at h
  cases hl : t.lang with
  | none => simp [hl] at h
  | some lang =>
    simp only [hl] at h
    unfold encodeDocW at h
    cases hr : t.root with
    | none => simp [hr] at h
    | some r =>
      simp only [hr] at h
      change (encNodeW (dcfgOf cfg lang) (docStartW (dcfgOf cfg lang) r) r >>=
        fun st => pure (buildResultW (dcfgOf cfg lang) st)) = .ok bs at h
      cases he : encNodeW (dcfgOf cfg lang) (docStartW (dcfgOf cfg lang) r) r with
      | error e => rw [he] at h; cases h
      | ok st =>
        rw [he] at h
        refine ⟨lang, r, st, rfl, rfl, he, ?_⟩
        have : (Except.ok (buildResultW (dcfgOf cfg lang) st) : Except Err Bytes) = .ok bs := h
        injection this with this
        exact this.symm

/-- Conversely. -/
theorem treeToWbxml_of {cfg : X2WCfg} {t : Tree} {lang r st}
    (hl : t.lang = some lang) (hr : t.root = some r)
    (he : encNodeG (dcfgOf cfg lang) none true r (docStartW (dcfgOf cfg lang) r) = .ok st) :
    treeToWbxml cfg t = .ok ((fillHeaderW (dcfgOf cfg lang) st).1 ++ st.out) := by
  unfold treeToWbxml
  simp only [hl]
  unfold encodeDocW
  simp only [hr]
  have he' : encNodeW (dcfgOf cfg lang) (docStartW (dcfgOf cfg lang) r) r = .ok st := he
  unfold dcfgOf wcfgOf at he'
  rw [he']
  rfl

/-! ### The header as a `Spec.Header` -/

/-- The public identifier `wbxml_fill_header` decides to write in text form, if any. -/
def hdrPid (c : WCfg) : Option Bytes :=
  if (c.textualPublicId || (if c.anonymous then 1 else c.lang.pub.wbxmlId) == 1) && !c.anonymous
  then c.lang.pub.xmlId else none

/-- The string table as it is when the header is written. -/
def finalTbl (c : WCfg) (st : WSt) : List StrEntry :=
  match hdrPid c with
  | some p => if c.useStrtbl then (strtblAdd st p none).1.strtbl else [⟨p, 0, none⟩]
  | none => if c.useStrtbl then st.strtbl else []

def hdrPubid (c : WCfg) (st : WSt) : PubIdent :=
  match hdrPid c with
  | some p => if c.useStrtbl then .str (strtblAdd st p none).2 else .str 0
  | none => .num (if c.anonymous then 1 else c.lang.pub.wbxmlId)

/-- The header `wbxml_fill_header` writes, as a value of the grammar. -/
def hdrOf (c : WCfg) (st : WSt) : Header :=
  { version := c.version, pubid := hdrPubid c st, charset := 106, strtbl := (finalTbl c st).map (·.str) }

theorem tblBytes_map (tbl : List StrEntry) : tblBytes (tbl.map (·.str)) = strtblBytes tbl := by
  induction tbl with
  | nil => rfl
  | cons e es ih => simp only [List.map_cons, tblBytes, ih, strtblBytes_cons]; simp

theorem mb106 : mb 106 = [0x6A] := by decide

/-- `wbxml_fill_header` writes `Spec.serHeader (hdrOf c st)`: in particular the declared
    string-table length is the exact octet length of the table that follows. -/
theorem fillHeaderW_ser (c : WCfg) (st : WSt) (hinv : StrInv st) (hno : c.useStrtbl = false → st.strtbl = []) :
    (fillHeaderW c st).1 = serHeader (hdrOf c st) := by
  unfold fillHeaderW hdrOf serHeader
  simp only [hdrPubid, finalTbl]
  have hp : (if (c.textualPublicId || (if c.anonymous then 1 else c.lang.pub.wbxmlId) == 1) && !c.anonymous
      then c.lang.pub.xmlId else none) = hdrPid c := rfl
  rw [hp]
  have hcs : (if (c.version == 0) = true then ([] : Bytes) else [0x6A]) = (if c.version = 0 then [] else mb 106) := by
    rw [mb106]; by_cases h : c.version = 0 <;> simp [h]
  cases hpid : hdrPid c with
  | some p =>
    simp only
    cases hu : c.useStrtbl with
    | true =>
      have hinv' := strtblAdd_inv st p hinv
      simp only [↓reduceIte, tblBytes_map, strtblBytes_length, hcs, serPubid, ← hinv'.len]
      simp [byte]
    | false =>
      simp only [Bool.false_eq_true, ↓reduceIte, List.map_cons, List.map_nil, tblBytes, hcs, serPubid]
      simp [byte]
  | none =>
    simp only
    cases hu : c.useStrtbl with
    | true =>
      simp only [↓reduceIte, tblBytes_map, strtblBytes_length, hcs, serPubid, ← hinv.len]
      simp [byte]
    | false =>
      have h0 : st.strtblLen = 0 := by rw [hinv.len, hno hu]; rfl
      simp only [Bool.false_eq_true, ↓reduceIte, List.map_nil, tblBytes, hcs, serPubid, h0]
      simp [byte]

/-- The body-relevant part of the final state is untouched by `fillHeaderW`: the table only grows. -/
theorem finalTbl_prefix (c : WCfg) (st : WSt) (hu : c.useStrtbl = true) : st.strtbl <+: finalTbl c st := by
  unfold finalTbl
  split
  · simp only [hu, ↓reduceIte]; exact strtblAdd_prefix _ _ _
  · simp only [hu, ↓reduceIte]; exact List.prefix_refl _

theorem finalTbl_offs (c : WCfg) (st : WSt) (hinv : StrInv st) : OffsFrom 0 (finalTbl c st) := by
  unfold finalTbl
  split
  · split
    · exact (strtblAdd_inv st _ hinv).offs
    · exact ⟨rfl, trivial⟩
  · split
    · exact hinv.offs
    · trivial

/-! ### Option fields and the whole run (used by C07) -/

/-- `wbxml_tree_to_wbxml`, unfolded once. -/
theorem treeToWbxml_eq (cfg : X2WCfg) (t : Tree) :
    treeToWbxml cfg t =
      match t.lang with
      | none => .error (.code EW.badParameter)
      | some lang =>
        match t.root with
        | none => .error (.ub "tree without root node (NULL dereferenced)")
        | some r =>
          encNodeG (dcfgOf cfg lang) none true r (docStartW (dcfgOf cfg lang) r) >>= fun st =>
            pure ((fillHeaderW (dcfgOf cfg lang) st).1 ++ st.out) := by
  unfold treeToWbxml
  cases t.lang with
  | none => rfl
  | some lang =>
    simp only
    unfold encodeDocW
    cases t.root with
    | none => rfl
    | some r => rfl

theorem dcfgOf_version_eq (cfg : X2WCfg) (v : Nat) (lang : Lang) :
    dcfgOf { cfg with version := v } lang = { dcfgOf cfg lang with version := v } := by
  unfold dcfgOf wcfgOf deriveCfg
  simp only
  split <;> rfl

theorem docStartW_version (c : WCfg) (v : Nat) (r : Node) : docStartW { c with version := v } r = docStartW c r := rfl

theorem hdrOf_version (c : WCfg) (v : Nat) (st : WSt) :
    hdrOf { c with version := v } st = { hdrOf c st with version := v } := rfl

theorem dcfgOf_anonymous_core (cfg : X2WCfg) (a : Bool) (lang : Lang) :
    core (dcfgOf { cfg with anonymous := a } lang) = core (dcfgOf cfg lang) := by
  unfold dcfgOf wcfgOf deriveCfg core
  simp only
  split <;> rfl

theorem docStartW_core (c c' : WCfg) (h : core c = core c') (r : Node) : docStartW c r = docStartW c' r := by
  have h1 : c.useStrtbl = c'.useStrtbl := by have := congrArg WCfg.useStrtbl h; exact this
  have h2 : c.lang = c'.lang := by have := congrArg WCfg.lang h; exact this
  unfold docStartW
  rw [h1, h2]

end Wbxml.Lemmas.EncW
