/-
  The specification reader `Spec/Xml.lean` on tags and elements written the way the printer writes
  them (one blank before each attribute, double quotes, `/>` or `>` right after the last attribute,
  `</name>`): attribute lists, empty-element tags, elements with content, elements inside content.
-/
import Wbxml.Lemmas.XmlSpecText
namespace Wbxml.Lemmas.XmlSpec
open Wbxml Wbxml.Model Wbxml.Spec Wbxml.Spec.Xml Wbxml.Lemmas.EncW

/-! ### Tags -/

theorem nameStartByte_facts (a : UInt8) (h : isNameStartByte a = true) :
    a ≠ 62 ∧ a ≠ 47 ∧ a ≠ 33 ∧ isS a = false := by
  refine ⟨?_, ?_, ?_, ?_⟩
  · intro e; subst e; simp [isNameStartByte, isNameStartChar] at h
  · intro e; subst e; simp [isNameStartByte, isNameStartChar] at h
  · intro e; subst e; simp [isNameStartByte, isNameStartChar] at h
  · cases hs : isS a with
    | false => rfl
    | true =>
      simp only [isS, Bool.or_eq_true, beq_iff_eq] at hs
      rcases hs with ((e | e) | e) | e <;> subst e <;> simp [isNameStartByte, isNameStartChar] at h

/-- One attribute as the printer writes it: ` name="ev"`, where `ev` between double quotes is read as `v`. -/
structure PAttr where
  name : Bytes
  ev : Bytes
  v : Bytes

def PAttr.bytes (a : PAttr) : Bytes := 32 :: (a.name ++ 61 :: 34 :: (a.ev ++ [34]))

def PAttr.ok (a : PAttr) : Prop := isName a.name = true ∧ ∀ rest, AReads (a.ev ++ 34 :: rest) (a.v, rest)

def tagEnd (empty : Bool) : Bytes := if empty then b!"/>" else b!">"

/-- `(S Attribute)* S? ('>' | '/>')` on a printed attribute list. -/
theorem attributes_reads (l : List PAttr) (hl : ∀ a ∈ l, a.ok) (e : Bool) (rest : Bytes) :
    ∀ f, (l.flatMap PAttr.bytes ++ (tagEnd e ++ rest)).length < f →
      attributes f (l.flatMap PAttr.bytes ++ (tagEnd e ++ rest)) = some (l.map (fun a => (a.name, a.v)), e, rest) := by
  induction l with
  | nil =>
    intro f hf
    cases f with
    | zero => simp at hf
    | succ f =>
      cases e
      · simp [attributes, tagEnd, skipS, isS, strip]
      · simp [attributes, tagEnd, skipS, isS, strip]
  | cons a l ih =>
    intro f hf
    cases f with
    | zero => simp at hf
    | succ f =>
      obtain ⟨hn, hv⟩ := hl a List.mem_cons_self
      obtain ⟨b0, n', hn', hb0⟩ := isName_head a.name hn
      obtain ⟨h62, h47, _, hS⟩ := nameStartByte_facts b0 hb0
      have ih' := ih (fun x hx => hl x (List.mem_cons_of_mem _ hx))
      have hT := ih' f
      generalize hTd : l.flatMap PAttr.bytes ++ (tagEnd e ++ rest) = T at hT
      have hbs : (a :: l).flatMap PAttr.bytes ++ (tagEnd e ++ rest) = 32 :: (a.name ++ 61 :: 34 :: (a.ev ++ 34 :: T)) := by
        simp [PAttr.bytes, List.flatMap_cons, ← hTd]
      rw [hbs] at hf ⊢
      have hname : name (a.name ++ 61 :: 34 :: (a.ev ++ 34 :: T)) = some (a.name, 61 :: 34 :: (a.ev ++ 34 :: T)) :=
        name_append _ _ hn (by intro b r hbr; injection hbr with hb _; subst hb; decide)
      have hval := hv T ((a.ev ++ 34 :: T).length + 1) (Nat.lt_succ_self _)
      have hrest := hT (by simp at hf ⊢; omega)
      have hsk : skipS (32 :: (a.name ++ 61 :: 34 :: (a.ev ++ 34 :: T))) = a.name ++ 61 :: 34 :: (a.ev ++ 34 :: T) := by
        have h32 : ∀ X, skipS (32 :: X) = skipS X := by intro X; simp [skipS, List.dropWhile, isS]
        rw [h32, hn', List.cons_append, skipS_cons_of_not _ _ hS]
      rw [attributes, hsk]
      have hs1 : strip b!">" (a.name ++ 61 :: 34 :: (a.ev ++ 34 :: T)) = none := by
        rw [hn']; simp [strip, Ne.symm h62]
      have hs2 : strip b!"/>" (a.name ++ 61 :: 34 :: (a.ev ++ 34 :: T)) = none := by
        rw [hn']; simp [strip, Ne.symm h47]
      simp only [hs1, hs2, List.head?_cons, Option.any_some, hname]
      simp [isS, Spec.Xml.eq, skipS, strip, quoted]
      rw [hv T _ (by simp)]
      simp [hrest]


theorem attrs_head (l : List PAttr) (e : Bool) (rest : Bytes) :
    ∀ b r, l.flatMap PAttr.bytes ++ (tagEnd e ++ rest) = b :: r → isNameByte b = false := by
  intro b r h
  cases l with
  | nil =>
    cases e <;> (simp [tagEnd] at h; obtain ⟨rfl, _⟩ := h; decide)
  | cons a l =>
    simp [PAttr.bytes] at h
    obtain ⟨rfl, _⟩ := h; decide

def PAttr.view (a : PAttr) : Bytes × Bytes := (a.name, a.v)

/-- [44] EmptyElemTag as the printer writes it. -/
theorem element_reads_empty (n : Bytes) (hn : isName n = true) (l : List PAttr) (hl : ∀ a ∈ l, a.ok)
    (hnd : nodup (l.map (·.name)) = true) (rest : Bytes) :
    ∀ f, (60 :: (n ++ (l.flatMap PAttr.bytes ++ (tagEnd true ++ rest)))).length ≤ f →
      element f (60 :: (n ++ (l.flatMap PAttr.bytes ++ (tagEnd true ++ rest)))) = some (.elem n (l.map PAttr.view) [], rest) := by
  intro f hf
  cases f with
  | zero => simp at hf
  | succ f =>
    have hname := name_append n _ hn (attrs_head l true rest)
    have hat := attributes_reads l hl true rest _ (Nat.lt_succ_self _)
    have hmap : (l.map (fun a => (a.name, a.v))).map (·.1) = l.map (·.name) := by simp [List.map_map]
    rw [element]
    simp only [strip, beq_self_eq_true, ↓reduceIte, bind, Option.bind, hname, hat, hmap, hnd, Bool.not_true,
      Bool.false_eq_true, pure]
    rfl

/-- [39] element: start tag, content, end tag as the printer writes them. -/
theorem element_reads (n : Bytes) (hn : isName n = true) (l : List PAttr) (hl : ∀ a ∈ l, a.ok)
    (hnd : nodup (l.map (·.name)) = true) (K : Bytes) (items : List XItem) (rest : Bytes)
    (hk : Reads (K ++ (b!"</" ++ n ++ 62 :: rest)) (items, b!"</" ++ n ++ 62 :: rest)) :
    ∀ f, (60 :: (n ++ (l.flatMap PAttr.bytes ++ (tagEnd false ++ (K ++ (b!"</" ++ n ++ 62 :: rest)))))).length ≤ f →
      element f (60 :: (n ++ (l.flatMap PAttr.bytes ++ (tagEnd false ++ (K ++ (b!"</" ++ n ++ 62 :: rest))))))
        = some (.elem n (l.map PAttr.view) items, rest) := by
  intro f hf
  cases f with
  | zero => simp at hf
  | succ f =>
    have hname := name_append n _ hn (attrs_head l false (K ++ (b!"</" ++ n ++ 62 :: rest)))
    have hat := attributes_reads l hl false (K ++ (b!"</" ++ n ++ 62 :: rest)) _ (Nat.lt_succ_self _)
    have hmap : (l.map (fun a => (a.name, a.v))).map (·.1) = l.map (·.name) := by simp [List.map_map]
    have hc := hk f (by simp [tagEnd] at hf ⊢; omega)
    have hst : strip (b!"</" ++ n) (b!"</" ++ n ++ 62 :: rest) = some (62 :: rest) := strip_append _ _
    rw [element]
    simp only [strip, beq_self_eq_true, ↓reduceIte, bind, Option.bind, hname, hat, hmap, hnd, Bool.not_true,
      Bool.false_eq_true, pure, hc]
    rw [hst]
    simp [skipS, isS, strip, PAttr.view]


/-! ### Content -/

/-- `</` ends the content of the enclosing element. -/
theorem reads_endtag (X : Bytes) : Reads (60 :: 47 :: X) ([], 60 :: 47 :: X) := by
  intro f hf
  cases f with
  | zero => simp at hf
  | succ f => simp [content]

/-- An element in content. -/
theorem reads_element (a : UInt8) (E X : Bytes) (e : XItem) (R : List XItem) (rest' : Bytes)
    (h47 : a ≠ 47) (h33 : a ≠ 33)
    (he : ∀ f, (60 :: a :: (E ++ X)).length ≤ f → element f (60 :: a :: (E ++ X)) = some (e, X))
    (h : Reads X (R, rest')) : Reads (60 :: a :: (E ++ X)) (e :: R, rest') := by
  intro f hf
  cases f with
  | zero => simp at hf
  | succ f =>
    have h1 := he f (by simp at hf ⊢; omega)
    have h2 := h f (by simp at hf ⊢; omega)
    simp [content, h47, h33, h1, h2]

end Wbxml.Lemmas.XmlSpec
