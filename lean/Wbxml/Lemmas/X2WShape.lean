/-
  C02, tree-builder half, part 2: over the events of a document Expat accepted (`WfDoc`) the builder
  ends with a root element — unless it stopped with an error or asks for an embedded document.
  (This is what rules out the encoder's "tree without root" dereference.)
-/
import Wbxml.Lemmas.X2WTree
namespace Wbxml.Lemmas.X2W
open Wbxml Wbxml.Model

/-- Not stopped. -/
def NF (b : XBState) : Prop := b.need = none ∧ b.error = none

theorem nf_or_failed (b : XBState) : NF b ∨ Failed b := by
  unfold NF Failed
  cases b.need <;> cases b.error <;> simp

theorem NF.not_need {b : XBState} (h : NF b) : ¬ (b.need.isSome = true) := by rw [h.1]; exact Bool.false_ne_true

def isCdataKind : FrameKind → Bool
  | .cdata => true
  | _ => false

/-- Only the top frame changed, and it kept its kind. -/
def Mod (S S' : List XFrame) : Prop :=
  S' = S ∨ ∃ T T' tl, S = T :: tl ∧ S' = T' :: tl ∧ T'.kind = T.kind

/-- … or, over an element frame, one CDATA frame was opened (the SyncML payload rule). -/
def Top (S S' : List XFrame) : Prop :=
  Mod S S' ∨ ∃ T T' C tl, S = T :: tl ∧ S' = C :: T' :: tl ∧ T'.kind = T.kind ∧ isCdataKind T.kind = false ∧
    C.kind = .cdata

theorem Mod.refl (S : List XFrame) : Mod S S := Or.inl rfl

theorem Mod.trans {S S' S'' : List XFrame} (h1 : Mod S S') (h2 : Mod S' S'') : Mod S S'' := by
  rcases h1 with rfl | ⟨T, T', tl, rfl, rfl, hk⟩
  · exact h2
  · rcases h2 with rfl | ⟨U, U', tl', e1, rfl, hk'⟩
    · exact Or.inr ⟨T, T', tl, rfl, rfl, hk⟩
    · simp only [List.cons.injEq] at e1
      obtain ⟨rfl, rfl⟩ := e1
      exact Or.inr ⟨T, U', tl, rfl, rfl, hk'.trans hk⟩

theorem Mod.ne_nil {S S' : List XFrame} (h : Mod S S') (hS : S ≠ []) : S' ≠ [] := by
  rcases h with rfl | ⟨T, T', tl, rfl, rfl, _⟩
  · exact hS
  · simp

theorem Top.of_mod {S S' : List XFrame} (h : Mod S S') : Top S S' := Or.inl h

theorem Top.trans {S S' S'' : List XFrame} (h1 : Top S S') (h2 : Top S' S'') : Top S S'' := by
  rcases h1 with h1 | ⟨T, T', C, tl, rfl, rfl, hk, hT, hC⟩
  · rcases h2 with h2 | ⟨U, U', D, tl', e1, rfl, hk', hU, hD⟩
    · exact Or.inl (h1.trans h2)
    · rcases h1 with rfl | ⟨T, T', tl, rfl, rfl, hk⟩
      · exact Or.inr ⟨U, U', D, tl', e1, rfl, hk', hU, hD⟩
      · simp only [List.cons.injEq] at e1
        obtain ⟨rfl, rfl⟩ := e1
        exact Or.inr ⟨T, U', D, tl, rfl, rfl, hk'.trans hk, by rw [← hk]; exact hU, hD⟩
  · rcases h2 with h2 | ⟨U, U', D, tl', e1, rfl, hk', hU, hD⟩
    · rcases h2 with rfl | ⟨U, U', tl', e1, rfl, hk'⟩
      · exact Or.inr ⟨T, T', C, tl, rfl, rfl, hk, hT, hC⟩
      · simp only [List.cons.injEq] at e1
        obtain ⟨rfl, rfl⟩ := e1
        exact Or.inr ⟨T, T', U', tl, rfl, rfl, hk, hT, hk'.trans hC⟩
    · simp only [List.cons.injEq] at e1
      obtain ⟨rfl, _⟩ := e1
      rw [hC] at hU
      cases hU

theorem Top.ne_nil {S S' : List XFrame} (h : Top S S') (hS : S ≠ []) : S' ≠ [] := by
  rcases h with h | ⟨T, T', C, tl, rfl, rfl, _⟩
  · exact h.ne_nil hS
  · simp

/-! ### Single steps on a state that has not stopped -/

variable (main : List Lang) (input : Bytes) (sub : Bytes → Option (Except Nat Tree))

theorem attach_cons (b : XBState) (n : Node) (T : XFrame) (tl : List XFrame) (h : b.stack = T :: tl) :
    b.attach n = { b with stack := { T with kids := addKid T.kids n } :: tl } := by
  unfold XBState.attach
  rw [h]

theorem step_pi (b : XBState) : xbuildStep main input sub b .pi = b := by
  unfold xbuildStep
  split <;> rfl

theorem step_startCdata (b : XBState) (h : NF b) (hs : b.skipLvl = 0) :
    xbuildStep main input sub b .startCdata = { b with stack := { kind := .cdata, kids := [] } :: b.stack } := by
  unfold xbuildStep
  rw [if_neg h.not_need]
  simp [h.2, hs]

theorem step_startCdata_skip (b : XBState) (h : NF b) (hs : 0 < b.skipLvl) :
    xbuildStep main input sub b .startCdata = b := by
  unfold xbuildStep
  rw [if_neg h.not_need]
  simp [hs]

theorem step_endCdata_skip (b : XBState) (h : NF b) (hs : 0 < b.skipLvl) :
    xbuildStep main input sub b .endCdata = b := by
  unfold xbuildStep
  rw [if_neg h.not_need]
  simp [hs]

theorem step_chars_skip (b : XBState) (s : Bytes) (h : NF b) (hs : 0 < b.skipLvl) :
    xbuildStep main input sub b (.chars s) = b := by
  unfold xbuildStep
  rw [if_neg h.not_need]
  simp [hs]

theorem step_startElt_skip (b : XBState) (name : Bytes) (attrs : List (Bytes × Bytes)) (idx : Nat) (h : NF b)
    (hs : 0 < b.skipLvl) :
    xbuildStep main input sub b (.startElt name attrs idx) = { b with skipLvl := b.skipLvl + 1 } := by
  unfold xbuildStep
  rw [if_neg h.not_need]
  simp [h.2, hs]

theorem step_endCdata (b : XBState) (h : NF b) (hs : b.skipLvl = 0) (f : XFrame) (rest : List XFrame)
    (hst : b.stack = f :: rest) :
    xbuildStep main input sub b .endCdata = ({ b with stack := rest } : XBState).attach f.close := by
  unfold xbuildStep
  rw [if_neg h.not_need]
  simp [h.2, hs, hst]

/-- Character data on an open frame: the text goes to the top frame, possibly after one CDATA frame
    was opened over an element frame. Never stops the builder. -/
theorem step_chars (b : XBState) (s : Bytes) (h : NF b) (hs : b.skipLvl = 0) (hne : b.stack ≠ []) :
    let b' := xbuildStep main input sub b (.chars s)
    NF b' ∧ b'.skipLvl = 0 ∧ b'.root = b.root ∧ Top b.stack b'.stack := by
  intro b'
  obtain ⟨T, tl, hst⟩ : ∃ T tl, b.stack = T :: tl := by
    cases hb : b.stack with
    | nil => exact absurd hb hne
    | cons T tl => exact ⟨T, tl, rfl⟩
  unfold b' xbuildStep
  rw [if_neg h.not_need]
  simp (config := { zeta := false }) only []
  rw [if_neg (by simp [h.2, hs])]
  extract_lets ty s' b1
  have hb1 : b1 = b ∨ (isCdataKind T.kind = false ∧ b1 = { b with stack := { kind := .cdata, kids := [] } :: b.stack }) := by
    unfold b1
    split
    · split
      · rename_i f tail hft
        have hfT : f = T := by rw [hst] at hft; exact (List.cons.inj hft).1.symm
        subst hfT
        extract_lets fic
        split
        · left; rfl
        · rename_i hk
          split
          · left; rfl
          · right
            refine ⟨?_, rfl⟩
            cases hk' : f.kind with
            | cdata => exact absurd hk' (by intro e; exact hk e)
            | elt n a => rfl
      · left; rfl
    · left; rfl
  rcases hb1 with e | ⟨hT, e⟩
  · rw [e]
    split
    · rename_i f rest hft
      have hfT : f = T ∧ rest = tl := by rw [hst] at hft; exact ⟨(List.cons.inj hft).1.symm, (List.cons.inj hft).2.symm⟩
      obtain ⟨rfl, rfl⟩ := hfT
      split
      · split
        · exact ⟨h, hs, rfl, Or.inl (Or.inr ⟨f, _, rest, hst, rfl, rfl⟩)⟩
        · rw [attach_cons b _ f rest hst]
          exact ⟨h, hs, rfl, Or.inl (Or.inr ⟨f, _, rest, hst, rfl, rfl⟩)⟩
      · rw [attach_cons b _ f rest hst]
        exact ⟨h, hs, rfl, Or.inl (Or.inr ⟨f, _, rest, hst, rfl, rfl⟩)⟩
    · rename_i hnil
      rw [hst] at hnil
      cases hnil
  · rw [e]
    simp only
    rw [attach_cons _ _ { kind := .cdata, kids := [] } b.stack rfl]
    refine ⟨h, hs, rfl, Or.inr ⟨T, T, { kind := .cdata, kids := addKid [] (.text s') }, tl, hst, ?_, rfl, hT, rfl⟩⟩
    simp only [hst]

/-- Character data while the top frame is a CDATA frame: it stays the top frame. -/
theorem step_chars_cdata (b : XBState) (s : Bytes) (h : NF b) (hs : b.skipLvl = 0) (C : XFrame) (tl : List XFrame)
    (hst : b.stack = C :: tl) (hC : C.kind = .cdata) :
    let b' := xbuildStep main input sub b (.chars s)
    NF b' ∧ b'.skipLvl = 0 ∧ b'.root = b.root ∧ ∃ C', C'.kind = .cdata ∧ b'.stack = C' :: tl := by
  intro b'
  obtain ⟨h1, h2, h3, h4⟩ := step_chars main input sub b s h hs (by rw [hst]; simp)
  refine ⟨h1, h2, h3, ?_⟩
  rw [hst] at h4
  rcases h4 with (e | ⟨T, T', tl', e1, e2, hk⟩) | ⟨T, T', D, tl', e1, _, _, hT, _⟩
  · exact ⟨C, hC, e⟩
  · simp only [List.cons.injEq] at e1
    obtain ⟨rfl, rfl⟩ := e1
    exact ⟨T', hk.trans hC, e2⟩
  · simp only [List.cons.injEq] at e1
    obtain ⟨rfl, _⟩ := e1
    rw [hC] at hT
    cases hT

/-- First stage of the end-element callback. -/
theorem decodeTop_res (b : XBState) (h : NF b) :
    let b2 := decodeTop b
    Failed b2 ∨ (NF b2 ∧ b2.skipLvl = b.skipLvl ∧ b2.skipStart = b.skipStart ∧ b2.root = b.root ∧
      b2.lang = b.lang ∧ Mod b.stack b2.stack) := by
  intro b2
  unfold b2 decodeTop
  split
  · rename_i f rest hst
    split
    · split
      · simp only
        split
        · left; right; rfl
        · right
          rw [attach_cons _ _ { f with content := none } rest rfl]
          exact ⟨h, rfl, rfl, rfl, rfl, Or.inr ⟨f, _, rest, hst, rfl, rfl⟩⟩
      · exact Or.inr ⟨h, rfl, rfl, rfl, rfl, Mod.refl _⟩
    · exact Or.inr ⟨h, rfl, rfl, rfl, rfl, Mod.refl _⟩
  · exact Or.inr ⟨h, rfl, rfl, rfl, rfl, Mod.refl _⟩

/-- `decodeTop` leaves a CDATA top frame alone. -/
theorem decodeTop_cdata (b : XBState) (C : XFrame) (tl : List XFrame) (hst : b.stack = C :: tl)
    (hC : C.kind = .cdata) : decodeTop b = b := by
  unfold decodeTop
  rw [hst]
  simp only [hC]

/-- The two element names that start an embedded document. -/
def isSkipName (name : Bytes) : Bool := name == devinfName || name == mgmtName

theorem xmlElt_kind (lang : Lang) (name : Bytes) (attrs : List (Bytes × Bytes)) :
    isCdataKind (xmlElt lang name attrs).1.kind = false := by
  obtain ⟨nsName, e⟩ := xmlElt_eq lang name attrs
  rw [e]
  unfold xmlEltCore
  simp only
  split <;> rfl

/-- Start of a non-root element outside a skipped region: stop, start skipping, or push an
    element frame. -/
theorem step_startElt (b : XBState) (name : Bytes) (attrs : List (Bytes × Bytes)) (idx : Nat) (h : NF b)
    (hs : b.skipLvl = 0) (hne : b.stack ≠ []) :
    let b' := xbuildStep main input sub b (.startElt name attrs idx)
    Failed b' ∨ (isSkipName name = true ∧ b' = { b with skipStart := idx, skipLvl := 1 }) ∨
      (isSkipName name = false ∧ ∃ f page, isCdataKind f.kind = false ∧
        b' = { b with stack := f :: b.stack, curPage := page }) := by
  intro b'
  have hroot : (b.stack.isEmpty && b.root.isNone) = false := by
    cases hb : b.stack with
    | nil => exact absurd hb hne
    | cons _ _ => rfl
  unfold b' xbuildStep
  rw [if_neg h.not_need]
  simp (config := { zeta := false }) only []
  rw [if_neg (by simp [h.2]), if_neg (by simp [hs])]
  extract_lets isRoot b1
  have hr : isRoot = false := hroot
  have hb1 : b1 = b := by unfold b1; rw [hr]; rfl
  rw [hb1, if_neg (by simp [h.2]), hr]
  simp only [Bool.not_false, Bool.and_true]
  by_cases hsk : (name == devinfName || name == mgmtName) = true
  · rw [if_pos hsk]
    exact Or.inr (Or.inl ⟨hsk, rfl⟩)
  · rw [if_neg hsk]
    have hsk' : isSkipName name = false := by simpa [isSkipName] using hsk
    split
    · left; right; rfl
    · rename_i lang _
      split
      · left; right; rfl
      · exact Or.inr (Or.inr ⟨hsk', (xmlElt lang name attrs).1, (xmlElt lang name attrs).2, xmlElt_kind _ _ _, rfl⟩)

/-- Start of the root element on a fresh context. -/
theorem step_startRoot (b : XBState) (name : Bytes) (attrs : List (Bytes × Bytes)) (idx : Nat) (h : NF b)
    (hs : b.skipLvl = 0) (hst : b.stack = []) (hroot : b.root = none) :
    let b' := xbuildStep main input sub b (.startElt name attrs idx)
    Failed b' ∨ (NF b' ∧ b'.skipLvl = 0 ∧ b'.root = none ∧ ∃ f, isCdataKind f.kind = false ∧ b'.stack = [f]) := by
  intro b'
  unfold b' xbuildStep
  rw [if_neg h.not_need]
  simp (config := { zeta := false }) only []
  rw [if_neg (by simp [h.2]), if_neg (by simp [hs])]
  extract_lets isRoot b1
  have hr : isRoot = true := by unfold isRoot; rw [hst, hroot]; rfl
  have hb1 : Failed b1 ∨ (NF b1 ∧ b1.skipLvl = 0 ∧ b1.root = none ∧ b1.stack = []) := by
    unfold b1
    split
    · split
      · exact Or.inr ⟨h, hs, hroot, hst⟩
      · left; right; rfl
    · exact Or.inr ⟨h, hs, hroot, hst⟩
  rcases hb1 with hf | ⟨hnf, hs1, hr1, hst1⟩
  · rcases hf with hf | hf
    · exact absurd hf (by
        have : b1.need = b.need := by unfold b1; split; split <;> rfl; rfl
        rw [this]; exact h.not_need)
    · rw [if_pos hf]; exact Or.inl (Or.inr hf)
  · rw [if_neg (by simp [hnf.2]), hr]
    simp only [Bool.not_true, Bool.and_false, Bool.false_eq_true, ↓reduceIte]
    split
    · left; right; rfl
    · rename_i lang _
      rw [hst1, hr1]
      simp only
      exact Or.inr ⟨⟨hnf.1, hnf.2⟩, hs1, trivial, _, xmlElt_kind lang name attrs, rfl⟩

theorem failed_decodeTop_error (b : XBState) (h : NF b) (hf : Failed (decodeTop b)) :
    (decodeTop b).error.isSome = true := by
  rcases hf with hf | hf
  · rw [decodeTop_need, h.1] at hf; cases hf
  · exact hf

/-- End tag inside a skipped region (not the one that ends it). -/
theorem step_endElt_skip (b : XBState) (name : Bytes) (idx : Nat) (k : Nat) (h : NF b) (hs : b.skipLvl = k + 2) :
    let b' := xbuildStep main input sub b (.endElt name idx)
    Failed b' ∨ (NF b' ∧ b'.skipLvl = k + 1 ∧ b'.skipStart = b.skipStart ∧ b'.root = b.root ∧ Mod b.stack b'.stack) := by
  intro b'
  unfold b'
  rw [step_endElt _ _ _ _ _ _ h.1]
  unfold endTail
  rcases decodeTop_res b h with hf | ⟨hnf, hs2, hss, hr, _, hm⟩
  · have := failed_decodeTop_error b h hf
    rw [if_pos this]
    exact Or.inl (Or.inr this)
  · rw [if_neg (by simp [hnf.2]), if_pos (by rw [hs2, hs]; omega)]
    right
    exact ⟨hnf, by simp only; rw [hs2, hs]; rfl, hss, hr, hm⟩

/-- The end tag that ends a skipped region: the embedded document is built (or requested, or
    refused) and attached as a tree node. -/
theorem step_endElt_embedded (b : XBState) (name : Bytes) (idx : Nat) (h : NF b) (hs : b.skipLvl = 1)
    (hname : isSkipName name = true) (hne : b.stack ≠ []) :
    let b' := xbuildStep main input sub b (.endElt name idx)
    Failed b' ∨ (NF b' ∧ b'.skipLvl = 0 ∧ b'.root = b.root ∧ Mod b.stack b'.stack) := by
  intro b'
  unfold b'
  rw [step_endElt _ _ _ _ _ _ h.1]
  unfold endTail
  rcases decodeTop_res b h with hf | ⟨hnf, hs2, _, hr, _, hm⟩
  · have := failed_decodeTop_error b h hf
    rw [if_pos this]
    exact Or.inl (Or.inr this)
  · have hsk : (name == devinfName || name == mgmtName) = true := hname
    rw [if_neg (by simp [hnf.2]), if_neg (by rw [hs2, hs]; omega), if_pos (by rw [hs2, hs]; rfl), if_pos hsk]
    simp only
    split
    · left; right; rfl
    · split
      · left; right; rfl
      · split
        · left; right; rfl
        · split
          · left; right; rfl
          · split
            · left; left; rfl
            · left; right; rfl
            · rename_i t _
              right
              obtain ⟨T, tl, hst⟩ : ∃ T tl, (decodeTop b).stack = T :: tl := by
                cases hb : (decodeTop b).stack with
                | nil => exact absurd hb (hm.ne_nil hne)
                | cons T tl => exact ⟨T, tl, rfl⟩
              rw [attach_cons ({ decodeTop b with skipLvl := 0 } : XBState) _ T tl hst]
              refine ⟨hnf, rfl, hr, hm.trans ?_⟩
              simp only
              rw [hst]
              exact Or.inr ⟨T, _, tl, rfl, rfl, rfl⟩

/-- An end tag that closes the element on top of the stack (below an optional CDATA frame):
    the element's node is attached one level down. -/
theorem step_endElt_pop (b : XBState) (name : Bytes) (idx : Nat) (h : NF b) (hs : b.skipLvl = 0)
    (F : XFrame) (S : List XFrame) (hF : isCdataKind F.kind = false)
    (hst : b.stack = F :: S ∨ ∃ C, C.kind = .cdata ∧ b.stack = C :: F :: S) :
    let b' := xbuildStep main input sub b (.endElt name idx)
    Failed b' ∨ ∃ b0 n, NF b0 ∧ b0.skipLvl = 0 ∧ b0.root = b.root ∧ b0.stack = S ∧ b' = b0.attach n := by
  intro b'
  unfold b'
  rw [step_endElt _ _ _ _ _ _ h.1]
  unfold endTail
  rcases hst with hst | ⟨C, hC, hst⟩
  · rcases decodeTop_res b h with hf | ⟨hnf, hs2, _, hr, _, hm⟩
    · have := failed_decodeTop_error b h hf
      rw [if_pos this]
      exact Or.inl (Or.inr this)
    · rw [if_neg (by simp [hnf.2]), if_neg (by rw [hs2, hs]; omega), if_neg (by rw [hs2, hs]; decide)]
      obtain ⟨F2, hF2, hst2⟩ : ∃ F2, F2.kind = F.kind ∧ (decodeTop b).stack = F2 :: S := by
        rw [hst] at hm
        rcases hm with e | ⟨T, T', tl, e1, e2, hk⟩
        · exact ⟨F, rfl, e⟩
        · simp only [List.cons.injEq] at e1
          obtain ⟨rfl, rfl⟩ := e1
          exact ⟨T', hk, e2⟩
      right
      refine ⟨{ decodeTop b with stack := S }, F2.close, hnf, by simp only; rw [hs2, hs], hr, rfl, ?_⟩
      unfold xPop
      rw [hst2]
      simp only
      cases hk : F2.kind with
      | cdata => rw [hF2] at hk; rw [hk] at hF; cases hF
      | elt n a => rfl
  · rw [decodeTop_cdata b C (F :: S) hst hC]
    rw [if_neg (by simp [h.2]), if_neg (by rw [hs]; omega), if_neg (by rw [hs]; decide)]
    right
    refine ⟨{ b with stack := S }, ({ F with kids := addKid F.kids C.close } : XFrame).close, h, hs, rfl, rfl, ?_⟩
    unfold xPop
    rw [hst]
    simp only [hC]

/-- Attaching below: the frame underneath takes the node, or — at the bottom — it becomes the root. -/
theorem attach_res (b0 : XBState) (n : Node) (h : NF b0) :
    (∀ T tl, b0.stack = T :: tl → NF (b0.attach n) ∧ (b0.attach n).skipLvl = b0.skipLvl ∧
        (b0.attach n).root = b0.root ∧ Mod b0.stack (b0.attach n).stack) ∧
    (b0.stack = [] → b0.root = none → NF (b0.attach n) ∧ (b0.attach n).skipLvl = b0.skipLvl ∧
        (b0.attach n).stack = [] ∧ (b0.attach n).root = some n) := by
  constructor
  · intro T tl hst
    rw [attach_cons b0 n T tl hst]
    exact ⟨h, rfl, rfl, by rw [hst]; exact Or.inr ⟨T, _, tl, rfl, rfl, rfl⟩⟩
  · intro hst hr
    have e : b0.attach n = { b0 with root := some n } := by
      unfold XBState.attach
      split
      · rename_i f rest hfr; rw [hst] at hfr; cases hfr
      · split
        · rfl
        · rename_i r hr'; rw [hr] at hr'; cases hr'
    rw [e]
    exact ⟨h, rfl, hst, rfl⟩

/-! ### Runs -/

/-- The callbacks over an event sequence. -/
abbrev run (b : XBState) (evs : List XEvent) : XBState := evs.foldl (xbuildStep main input sub) b

theorem run_append (b : XBState) (a c : List XEvent) :
    run main input sub b (a ++ c) = run main input sub (run main input sub b a) c := List.foldl_append

theorem run_cons (b : XBState) (e : XEvent) (c : List XEvent) :
    run main input sub b (e :: c) = run main input sub (xbuildStep main input sub b e) c := rfl

theorem run_failed (b : XBState) (evs : List XEvent) (h : Failed b) : Failed (run main input sub b evs) :=
  fold_failed main input sub evs b h

theorem run_chars_skip : ∀ (inner : List XEvent), inner.all isCharsEv = true → ∀ (b : XBState), NF b →
    0 < b.skipLvl → run main input sub b inner = b
  | [], _, _, _, _ => rfl
  | e :: inner, hin, b, h, hs => by
    simp only [List.all_cons, Bool.and_eq_true] at hin
    cases e with
    | chars s =>
      rw [run_cons, step_chars_skip main input sub b s h hs]
      exact run_chars_skip inner hin.2 b h hs
    | _ => simp [isCharsEv] at hin

theorem run_chars_cdata : ∀ (inner : List XEvent), inner.all isCharsEv = true → ∀ (b : XBState) (C : XFrame)
    (tl : List XFrame), NF b → b.skipLvl = 0 → b.stack = C :: tl → C.kind = .cdata →
    NF (run main input sub b inner) ∧ (run main input sub b inner).skipLvl = 0 ∧
      (run main input sub b inner).root = b.root ∧
      ∃ C', C'.kind = .cdata ∧ (run main input sub b inner).stack = C' :: tl
  | [], _, b, C, tl, h, hs, hst, hC => ⟨h, hs, rfl, C, hC, hst⟩
  | e :: inner, hin, b, C, tl, h, hs, hst, hC => by
    simp only [List.all_cons, Bool.and_eq_true] at hin
    cases e with
    | chars s =>
      rw [run_cons]
      obtain ⟨h1, hs1, hr1, C1, hC1, hst1⟩ := step_chars_cdata main input sub b s h hs C tl hst hC
      obtain ⟨h2, hs2, hr2, C2, hC2, hst2⟩ := run_chars_cdata inner hin.2 _ C1 tl h1 hs1 hst1 hC1
      exact ⟨h2, hs2, hr2.trans hr1, C2, hC2, hst2⟩
    | _ => simp [isCharsEv] at hin

/-- Balanced content inside a skipped region leaves the skipping depth where it was. -/
theorem content_skip {evs : List XEvent} (hc : Content evs) : ∀ (b : XBState) (k : Nat), NF b → b.skipLvl = k + 1 →
    Failed (run main input sub b evs) ∨
      (NF (run main input sub b evs) ∧ (run main input sub b evs).skipLvl = k + 1 ∧
       (run main input sub b evs).root = b.root ∧ Mod b.stack (run main input sub b evs).stack) := by
  induction hc with
  | nil => intro b k h hs; exact Or.inr ⟨h, hs, rfl, Mod.refl _⟩
  | chars s _ ih =>
    intro b k h hs
    rw [run_cons, step_chars_skip main input sub b s h (by omega)]
    exact ih b k h hs
  | pi _ ih =>
    intro b k h hs
    rw [run_cons, step_pi]
    exact ih b k h hs
  | @cdata inner rest hin _ ih =>
    intro b k h hs
    rw [run_cons, step_startCdata_skip main input sub b h (by omega), run_append,
      run_chars_skip main input sub inner hin b h (by omega), run_cons,
      step_endCdata_skip main input sub b h (by omega)]
    exact ih b k h hs
  | @elt name attrs i j inner rest _ _ _ _ ih1 ih2 =>
    intro b k h hs
    rw [run_cons, step_startElt_skip main input sub b name attrs i h (by omega), run_append]
    rcases ih1 { b with skipLvl := b.skipLvl + 1 } (k + 1) h (by simp only; omega) with hf | ⟨h2, hs2, hr2, hm2⟩
    · exact Or.inl (run_failed main input sub _ _ hf)
    · rw [run_cons]
      rcases step_endElt_skip main input sub _ name j k h2 hs2 with hf | ⟨h3, hs3, _, hr3, hm3⟩
      · exact Or.inl (run_failed main input sub _ _ hf)
      · rcases ih2 _ k h3 hs3 with hf | ⟨h4, hs4, hr4, hm4⟩
        · exact Or.inl hf
        · exact Or.inr ⟨h4, hs4, hr4.trans (hr3.trans hr2), (hm2.trans hm3).trans hm4⟩

/-- Balanced content below an open frame: afterwards that frame is still the open one (possibly
    under one CDATA frame), with more children. -/
theorem content_run {evs : List XEvent} (hc : Content evs) : ∀ (b : XBState), NF b → b.skipLvl = 0 → b.stack ≠ [] →
    Failed (run main input sub b evs) ∨
      (NF (run main input sub b evs) ∧ (run main input sub b evs).skipLvl = 0 ∧
       (run main input sub b evs).root = b.root ∧ Top b.stack (run main input sub b evs).stack) := by
  induction hc with
  | nil => intro b h hs _; exact Or.inr ⟨h, hs, rfl, Top.of_mod (Mod.refl _)⟩
  | chars s _ ih =>
    intro b h hs hne
    rw [run_cons]
    obtain ⟨h1, hs1, hr1, ht1⟩ := step_chars main input sub b s h hs hne
    rcases ih _ h1 hs1 (ht1.ne_nil hne) with hf | ⟨h2, hs2, hr2, ht2⟩
    · exact Or.inl hf
    · exact Or.inr ⟨h2, hs2, hr2.trans hr1, ht1.trans ht2⟩
  | pi _ ih =>
    intro b h hs hne
    rw [run_cons, step_pi]
    exact ih b h hs hne
  | @cdata inner rest hin _ ih =>
    intro b h hs hne
    obtain ⟨T, tl, hst⟩ : ∃ T tl, b.stack = T :: tl := by
      cases hb : b.stack with
      | nil => exact absurd hb hne
      | cons T tl => exact ⟨T, tl, rfl⟩
    rw [run_cons, step_startCdata main input sub b h hs, run_append]
    obtain ⟨h2, hs2, hr2, C', hC', hst2⟩ := run_chars_cdata main input sub inner hin
      ({ b with stack := { kind := .cdata, kids := [] } :: b.stack } : XBState) { kind := .cdata, kids := [] } b.stack
      h hs rfl rfl
    rw [run_cons, step_endCdata main input sub _ h2 hs2 C' b.stack hst2]
    obtain ⟨h3, hs3, hr3, hm3⟩ := (attach_res ({ run main input sub _ inner with stack := b.stack } : XBState)
      C'.close h2).1 T tl hst
    rcases ih _ h3 (hs3.trans hs2) (hm3.ne_nil hne) with hf | ⟨h4, hs4, hr4, ht4⟩
    · exact Or.inl hf
    · exact Or.inr ⟨h4, hs4, hr4.trans (hr3.trans hr2), (Top.of_mod hm3).trans ht4⟩
  | @elt name attrs i j inner rest _ _ hci _ ih1 ih2 =>
    intro b h hs hne
    obtain ⟨T, tl, hst⟩ : ∃ T tl, b.stack = T :: tl := by
      cases hb : b.stack with
      | nil => exact absurd hb hne
      | cons T tl => exact ⟨T, tl, rfl⟩
    rw [run_cons]
    rcases step_startElt main input sub b name attrs i h hs hne with hf | ⟨hname, e1⟩ | ⟨_, f, page, hf, e1⟩
    · exact Or.inl (run_failed main input sub _ _ hf)
    · -- an embedded document
      rw [e1, run_append]
      rcases content_skip main input sub hci ({ b with skipStart := i, skipLvl := 1 } : XBState) 0 h rfl
        with hf | ⟨h2, hs2, hr2, hm2⟩
      · exact Or.inl (run_failed main input sub _ _ hf)
      · rw [run_cons]
        rcases step_endElt_embedded main input sub _ name j h2 hs2 hname (hm2.ne_nil hne) with hf | ⟨h3, hs3, hr3, hm3⟩
        · exact Or.inl (run_failed main input sub _ _ hf)
        · rcases ih2 _ h3 hs3 ((hm2.trans hm3).ne_nil hne) with hf | ⟨h4, hs4, hr4, ht4⟩
          · exact Or.inl hf
          · exact Or.inr ⟨h4, hs4, hr4.trans (hr3.trans hr2), (Top.of_mod (hm2.trans hm3)).trans ht4⟩
    · -- an ordinary element
      rw [e1, run_append]
      rcases ih1 ({ b with stack := f :: b.stack, curPage := page } : XBState) h hs (by simp) with hf | ⟨h2, hs2, hr2, ht2⟩
      · exact Or.inl (run_failed main input sub _ _ hf)
      · rw [run_cons]
        have hshape : ∃ F, isCdataKind F.kind = false ∧
            ((run main input sub ({ b with stack := f :: b.stack, curPage := page } : XBState) inner).stack = F :: b.stack ∨
             ∃ C, C.kind = .cdata ∧
              (run main input sub ({ b with stack := f :: b.stack, curPage := page } : XBState) inner).stack = C :: F :: b.stack) := by
          rcases ht2 with (e | ⟨T0, T', tl0, e1, e2, hk⟩) | ⟨T0, T', C, tl0, e1, e2, hk, _, hC⟩
          · exact ⟨f, hf, Or.inl e⟩
          · simp only [List.cons.injEq] at e1
            obtain ⟨rfl, rfl⟩ := e1
            exact ⟨T', by rw [hk]; exact hf, Or.inl e2⟩
          · simp only [List.cons.injEq] at e1
            obtain ⟨rfl, rfl⟩ := e1
            exact ⟨T', by rw [hk]; exact hf, Or.inr ⟨C, hC, e2⟩⟩
        obtain ⟨F, hF, hFs⟩ := hshape
        rcases step_endElt_pop main input sub _ name j h2 hs2 F b.stack hF hFs with hf | ⟨b0, n, h0, hs0, hr0, hst0, e3⟩
        · exact Or.inl (run_failed main input sub _ _ hf)
        · rw [e3]
          obtain ⟨h3, hs3, hr3, hm3⟩ := (attach_res b0 n h0).1 T tl (hst0.trans hst)
          rw [hst0] at hm3
          rcases ih2 _ h3 (hs3.trans hs0) (hm3.ne_nil hne) with hf | ⟨h4, hs4, hr4, ht4⟩
          · exact Or.inl hf
          · exact Or.inr ⟨h4, hs4, hr4.trans (hr3.trans (hr0.trans hr2)), (Top.of_mod hm3).trans ht4⟩

/-! ### A whole document -/

theorem step_prolog (b : XBState) (e : XEvent) (he : isPrologEv e = true) :
    let b' := xbuildStep main input sub b e
    b'.need = b.need ∧ b'.error = b.error ∧ b'.skipLvl = b.skipLvl ∧ b'.stack = b.stack ∧ b'.root = b.root := by
  intro b'
  unfold b' xbuildStep
  split
  · exact ⟨rfl, rfl, rfl, rfl, rfl⟩
  · cases e with
    | xmlDecl v enc =>
      simp only
      split
      · split <;> exact ⟨rfl, rfl, rfl, rfl, rfl⟩
      · exact ⟨rfl, rfl, rfl, rfl, rfl⟩
    | doctype sysid pubid =>
      simp only
      split <;> exact ⟨rfl, rfl, rfl, rfl, rfl⟩
    | pi => exact ⟨rfl, rfl, rfl, rfl, rfl⟩
    | _ => simp [isPrologEv] at he

theorem run_prolog : ∀ (pro : List XEvent), pro.all isPrologEv = true → ∀ (b : XBState),
    (run main input sub b pro).need = b.need ∧ (run main input sub b pro).error = b.error ∧
    (run main input sub b pro).skipLvl = b.skipLvl ∧ (run main input sub b pro).stack = b.stack ∧
    (run main input sub b pro).root = b.root
  | [], _, b => ⟨rfl, rfl, rfl, rfl, rfl⟩
  | e :: pro, hp, b => by
    simp only [List.all_cons, Bool.and_eq_true] at hp
    rw [run_cons]
    obtain ⟨a1, a2, a3, a4, a5⟩ := step_prolog main input sub b e hp.1
    obtain ⟨c1, c2, c3, c4, c5⟩ := run_prolog pro hp.2 (xbuildStep main input sub b e)
    exact ⟨c1.trans a1, c2.trans a2, c3.trans a3, c4.trans a4, c5.trans a5⟩

theorem run_epilog : ∀ (epi : List XEvent), epi.all isPiEv = true → ∀ (b : XBState), run main input sub b epi = b
  | [], _, _ => rfl
  | e :: epi, hp, b => by
    simp only [List.all_cons, Bool.and_eq_true] at hp
    cases e with
    | pi => rw [run_cons, step_pi]; exact run_epilog epi hp.2 b
    | _ => simp [isPiEv] at hp

/-- **Over the events of a document Expat accepted, the builder ends with a root element** — unless
    it stopped with an error code or asks for the events of an embedded document. -/
theorem run_doc {evs : List XEvent} (hw : WfDoc evs) :
    Failed (run main input sub {} evs) ∨ (run main input sub {} evs).root.isSome = true := by
  obtain ⟨pro, name, attrs, i, j, inner, epi, rfl, hp, _, _, hc, he⟩ := hw
  rw [run_append]
  obtain ⟨p1, p2, p3, p4, p5⟩ := run_prolog main input sub pro hp {}
  have hnf : NF (run main input sub {} pro) := ⟨p1, p2⟩
  rw [run_cons]
  rcases step_startRoot main input sub _ name attrs i hnf p3 p4 p5 with hf | ⟨h1, hs1, hr1, f, hf, hst1⟩
  · exact Or.inl (run_failed main input sub _ _ hf)
  · rw [run_append]
    rcases content_run main input sub hc _ h1 hs1 (by rw [hst1]; simp) with hf | ⟨h2, hs2, hr2, ht2⟩
    · exact Or.inl (run_failed main input sub _ _ hf)
    · rw [run_cons]
      rw [hst1] at ht2
      have hshape : ∃ F, isCdataKind F.kind = false ∧
          ((run main input sub (xbuildStep main input sub (run main input sub {} pro) (.startElt name attrs i)) inner).stack = F :: [] ∨
           ∃ C, C.kind = .cdata ∧
            (run main input sub (xbuildStep main input sub (run main input sub {} pro) (.startElt name attrs i)) inner).stack = C :: F :: []) := by
        rcases ht2 with (e | ⟨T0, T', tl0, e1, e2, hk⟩) | ⟨T0, T', C, tl0, e1, e2, hk, _, hC⟩
        · exact ⟨f, hf, Or.inl e⟩
        · simp only [List.cons.injEq] at e1
          obtain ⟨rfl, rfl⟩ := e1
          exact ⟨T', by rw [hk]; exact hf, Or.inl e2⟩
        · simp only [List.cons.injEq] at e1
          obtain ⟨rfl, rfl⟩ := e1
          exact ⟨T', by rw [hk]; exact hf, Or.inr ⟨C, hC, e2⟩⟩
      obtain ⟨F, hF, hFs⟩ := hshape
      rcases step_endElt_pop main input sub _ name j h2 hs2 F [] hF hFs with hf | ⟨b0, n, h0, hs0, hr0, hst0, e3⟩
      · exact Or.inl (run_failed main input sub _ _ hf)
      · rw [e3, run_epilog main input sub epi he]
        obtain ⟨_, _, _, hroot⟩ := (attach_res b0 n h0).2 hst0 (hr0.trans (hr2.trans hr1))
        right
        rw [hroot]
        rfl

end Wbxml.Lemmas.X2W
