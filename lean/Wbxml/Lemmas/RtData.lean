/-
  Round trip (C03): elements called `Data`. `wbxml_tree_node_get_syncml_data_type` (model:
  `syncmlDataType`) is consulted at every character-data event; it answers `normal` — the text
  becomes an ordinary text node — unless the innermost open element is called `Data` AND the
  `Meta`/`Type` look-up among the children its parent / grandparent have SO FAR finds one of the
  special media types, or the grandparent is called `Add` / `Replace`.

  Part 1 (`dataOk*`, `run_*_d`): the builder over the events of a grammar element reconstructs
  `nodeOfElem` whenever `syncmlDataType` answers `normal` at every non-empty character-data event —
  the generalisation of `run_elem` (`RtBuild.lean`) from "no element is called `Data`".
  Part 2 (`dataNormal`, `dataOk_of_normal`): the same condition as a decidable predicate on the
  TREE that is being built (it is in normal form): `dataIsNormal`.
-/
import Wbxml.Lemmas.RtTyped
namespace Wbxml.Lemmas.Rt
open Wbxml Wbxml.Model Wbxml.Spec Wbxml.Lemmas.ParserSafe Wbxml.Lemmas.ParseSer Wbxml.Lemmas.EncW

/-- Character data under this stack of open frames (innermost first) becomes an ordinary text
    node. -/
def normalAt (stack : List Frame) : Bool := syncmlDataType stack == .normal

theorem normalAt_iff (stack : List Frame) : normalAt stack = true ↔ syncmlDataType stack = .normal := by
  unfold normalAt; exact beq_iff_eq

/-! ### Part 1: the condition on a grammar element, relative to the frames below it -/

mutual
/-- At every non-empty character-data event of the element, with the frames as the builder has
    them at that moment (`below` = the open frames under the element), `syncmlDataType` answers
    `normal`. -/
def dataOkElem (c : Ctx) (pg : Pages) (below : List Frame) : Elem → Bool
  | .mk sw tag attrs content =>
    dataOkContent c (tagName c (swPage sw pg.tag) tag).2 ⟨swPage sw pg.tag, (evAttrs c pg.attr attrs).2⟩
      (.elt (tagName c (swPage sw pg.tag) tag).1 (evAttrs c pg.attr attrs).1) below content []
def dataOkContent (c : Ctx) (own : Option TagRow) (pg : Pages) (k : FrameKind) (below : List Frame) :
    Option (List Item) → List Node → Bool
  | none, _ => true
  | some items, acc => dataOkItems c own pg k below items acc
def dataOkItems (c : Ctx) (own : Option TagRow) (pg : Pages) (k : FrameKind) (below : List Frame) :
    List Item → List Node → Bool
  | [], _ => true
  | it :: rest, acc =>
    dataOkItem c own pg k below it acc &&
      dataOkItems c own (evItem c own pg it).2 k below rest (kidOfItem c own pg it acc)
def dataOkItem (c : Ctx) (own : Option TagRow) (pg : Pages) (k : FrameKind) (below : List Frame) :
    Item → List Node → Bool
  | .elem e, acc => dataOkElem c pg ({ kind := k, kids := acc } :: below) e
  | .str s, acc => (strText c s).isEmpty || normalAt ({ kind := k, kids := acc } :: below)
  | .entity code, acc => (entityText code).isEmpty || normalAt ({ kind := k, kids := acc } :: below)
  | .opaque d, acc => ((opaqueText c own d).getD []).isEmpty || normalAt ({ kind := k, kids := acc } :: below)
  | .ext _ x, acc => ((extText c x).getD []).isEmpty || normalAt ({ kind := k, kids := acc } :: below)
  | .pi _, _ => true
end

theorem dataOkElem_mk (c : Ctx) (pg : Pages) (below) (sw tag attrs content) :
    dataOkElem c pg below (.mk sw tag attrs content) =
      dataOkContent c (tagName c (swPage sw pg.tag) tag).2 ⟨swPage sw pg.tag, (evAttrs c pg.attr attrs).2⟩
        (.elt (tagName c (swPage sw pg.tag) tag).1 (evAttrs c pg.attr attrs).1) below content [] := by
  rw [dataOkElem]
theorem dataOkContent_none (c own pg k below acc) : dataOkContent c own pg k below none acc = true := by
  rw [dataOkContent]
theorem dataOkContent_some (c own pg k below items acc) :
    dataOkContent c own pg k below (some items) acc = dataOkItems c own pg k below items acc := by rw [dataOkContent]
theorem dataOkItems_nil (c own pg k below acc) : dataOkItems c own pg k below [] acc = true := by rw [dataOkItems]
theorem dataOkItems_cons (c own pg k below it rest acc) : dataOkItems c own pg k below (it :: rest) acc =
    (dataOkItem c own pg k below it acc &&
      dataOkItems c own (evItem c own pg it).2 k below rest (kidOfItem c own pg it acc)) := by rw [dataOkItems]
theorem dataOkItem_elem (c own pg k below e acc) :
    dataOkItem c own pg k below (.elem e) acc = dataOkElem c pg ({ kind := k, kids := acc } :: below) e := by
  rw [dataOkItem]
theorem dataOkItem_str (c own pg k below s acc) : dataOkItem c own pg k below (.str s) acc =
    ((strText c s).isEmpty || normalAt ({ kind := k, kids := acc } :: below)) := by rw [dataOkItem]
theorem dataOkItem_entity (c own pg k below code acc) : dataOkItem c own pg k below (.entity code) acc =
    ((entityText code).isEmpty || normalAt ({ kind := k, kids := acc } :: below)) := by rw [dataOkItem]
theorem dataOkItem_opaque (c own pg k below d acc) : dataOkItem c own pg k below (.opaque d) acc =
    (((opaqueText c own d).getD []).isEmpty || normalAt ({ kind := k, kids := acc } :: below)) := by rw [dataOkItem]
theorem dataOkItem_ext (c own pg k below sw x acc) : dataOkItem c own pg k below (.ext sw x) acc =
    (((extText c x).getD []).isEmpty || normalAt ({ kind := k, kids := acc } :: below)) := by rw [dataOkItem]

variable (main : List Lang) (emb : Nat → Bytes → Option Tree)

/-- A character-data event where `syncmlDataType` answers `normal`: a text child. -/
theorem step_chars_normal' {b : BState} {f : Frame} {rest : List Frame}
    (herr : b.error = none) (hs : b.stack = f :: rest) (hty : syncmlDataType b.stack = .normal) (s : Bytes) :
    buildStep main emb b (.chars s) = { b with stack := { f with kids := addKid f.kids (.text s) } :: rest } := by
  have he : b.error.isSome = false := by rw [herr]; rfl
  unfold buildStep
  simp only [he, Bool.false_eq_true, if_false, hty]
  exact attach_cons hs _

theorem step_charsEv_d {b : BState} {f : Frame} {rest : List Frame}
    (herr : b.error = none) (hs : b.stack = f :: rest) (s : Bytes)
    (hN : (s.isEmpty || normalAt (f :: rest)) = true) :
    (charsEv s).foldl (buildStep main emb) b = { b with stack := { f with kids := addChars f.kids s } :: rest } := by
  unfold charsEv addChars
  split
  · simp only [List.foldl_nil]
    cases b; simp only at hs; subst hs; rfl
  · rename_i hne
    have hn : normalAt (f :: rest) = true := by
      cases he : s.isEmpty with
      | true => exact absurd he hne
      | false => rw [he] at hN; simpa using hN
    rw [List.foldl_cons, List.foldl_nil,
      step_chars_normal' main emb herr hs (by rw [hs]; exact (normalAt_iff _).mp hn)]

mutual
/-- **Builder reconstruction with `Data` elements, element.** -/
theorem run_elem_d (c : Ctx) : ∀ (e : Elem) (pg : Pages) (b : BState), b.error = none →
    (b.stack = [] → b.root = none) → (∀ f rest, b.stack = f :: rest → IsElt f) →
    dataOkElem c pg b.stack e = true →
    (evElem c pg e).1.foldl (buildStep main emb) b = b.attach (nodeOfElem c pg e)
  | .mk sw tag attrs content, pg, b, herr, hroot, htop, hd => by
    rw [dataOkElem_mk] at hd
    rw [evElem_mk, nodeOfElem_mk]
    simp only
    rw [List.foldl_cons, List.foldl_append, step_start_top main emb herr hroot htop,
      run_content_d c content _ _
        ({ b with stack := { kind := .elt (tagName c (swPage sw pg.tag) tag).1 (evAttrs c pg.attr attrs).1,
                             kids := [] } :: b.stack } : BState)
        _ b.stack herr rfl ⟨_, _, rfl⟩ hd, List.foldl_cons, List.foldl_nil,
      step_endElt_elt main emb (b := { b with stack := _ :: b.stack }) herr rfl ⟨_, _, rfl⟩]
    rfl
theorem run_content_d (c : Ctx) : ∀ (content : Option (List Item)) (own : Option TagRow) (pg : Pages)
    (b : BState) (f : Frame) (rest : List Frame), b.error = none → b.stack = f :: rest → IsElt f →
    dataOkContent c own pg f.kind rest content f.kids = true →
    (evContent c own pg content).1.foldl (buildStep main emb) b =
      { b with stack := { f with kids := kidsOfContent c own pg content f.kids } :: rest }
  | none, own, pg, b, f, rest, herr, hs, hk, hd => by
    rw [evContent_none, kidsOfContent_none, List.foldl_nil, setTop_self hs]
  | some items, own, pg, b, f, rest, herr, hs, hk, hd => by
    rw [dataOkContent_some] at hd
    rw [evContent_some, kidsOfContent_some]
    exact run_items_d c items own pg b f rest herr hs hk hd
theorem run_items_d (c : Ctx) : ∀ (items : List Item) (own : Option TagRow) (pg : Pages)
    (b : BState) (f : Frame) (rest : List Frame), b.error = none → b.stack = f :: rest → IsElt f →
    dataOkItems c own pg f.kind rest items f.kids = true →
    (evItems c own pg items).1.foldl (buildStep main emb) b =
      { b with stack := { f with kids := kidsOfItems c own pg items f.kids } :: rest }
  | [], own, pg, b, f, rest, herr, hs, hk, hd => by
    rw [evItems_nil, kidsOfItems_nil, List.foldl_nil, setTop_self hs]
  | it :: more, own, pg, b, f, rest, herr, hs, hk, hd => by
    rw [dataOkItems_cons, Bool.and_eq_true] at hd
    rw [evItems_cons]
    simp only
    rw [List.foldl_append, run_item_d c it own pg b f rest herr hs hk hd.1,
      run_items_d c more own _
        ({ b with stack := { f with kids := kidOfItem c own pg it f.kids } :: rest } : BState)
        { f with kids := kidOfItem c own pg it f.kids } rest herr rfl hk hd.2,
      kidsOfItems_cons]
theorem run_item_d (c : Ctx) : ∀ (it : Item) (own : Option TagRow) (pg : Pages)
    (b : BState) (f : Frame) (rest : List Frame), b.error = none → b.stack = f :: rest → IsElt f →
    dataOkItem c own pg f.kind rest it f.kids = true →
    (evItem c own pg it).1.foldl (buildStep main emb) b =
      { b with stack := { f with kids := kidOfItem c own pg it f.kids } :: rest }
  | .elem e, own, pg, b, f, rest, herr, hs, hk, hd => by
    rw [dataOkItem_elem] at hd
    rw [evItem_elem, kidOfItem_elem, run_elem_d c e pg b herr (fun h => by rw [hs] at h; cases h)
      (fun f' rest' h => by rw [hs] at h; cases h; exact hk) (by rw [hs]; exact hd), attach_cons hs]
  | .str s, own, pg, b, f, rest, herr, hs, hk, hd => by
    rw [dataOkItem_str] at hd
    rw [evItem_str, kidOfItem_str]; exact step_charsEv_d main emb herr hs _ hd
  | .entity code, own, pg, b, f, rest, herr, hs, hk, hd => by
    rw [dataOkItem_entity] at hd
    rw [evItem_entity, kidOfItem_entity]; exact step_charsEv_d main emb herr hs _ hd
  | .opaque d, own, pg, b, f, rest, herr, hs, hk, hd => by
    rw [dataOkItem_opaque] at hd
    rw [evItem_opaque, kidOfItem_opaque]; exact step_charsEv_d main emb herr hs _ hd
  | .ext sw x, own, pg, b, f, rest, herr, hs, hk, hd => by
    rw [dataOkItem_ext] at hd
    rw [evItem_ext, kidOfItem_ext]; exact step_charsEv_d main emb herr hs _ hd
  | .pi p, own, pg, b, f, rest, herr, hs, hk, hd => by
    rw [evItem_pi, kidOfItem_pi]
    simp only [List.foldl_cons, List.foldl_nil]
    unfold evPi
    rw [step_pi, setTop_self hs]
end

/-- The condition for a whole document: the root element, nothing open below it. -/
def dataOkDoc (cfg : PCfg) (d : Doc) : Bool :=
  match headerLang cfg d.hdr with
  | some l => dataOkElem (headerCtx cfg d.hdr l) ⟨0, (evPis (headerCtx cfg d.hdr l) 0 d.pre).2⟩ [] d.root
  | none => true

/-- **Builder reconstruction, document, with `Data` elements.** -/
theorem run_doc_d (cfg : PCfg) (d : Doc) (l : Lang) (hl : headerLang cfg d.hdr = some l)
    (hd : dataOkDoc cfg d = true) :
    (Spec.events cfg d).foldl (buildStep main emb) {} =
      { stack := [], root := some (rootOfDoc cfg d l), lang := main.find? (fun x => x.id == l.id),
        charset := headerCharset cfg d.hdr, error := none } := by
  unfold dataOkDoc at hd
  rw [hl] at hd
  simp only at hd
  unfold Spec.events
  rw [hl]
  simp only
  have e0 : buildStep main emb {} (Event.startDoc (headerCtx cfg d.hdr l).charset l.id) =
      { charset := headerCharset cfg d.hdr, lang := main.find? (fun x => x.id == l.id) } := rfl
  rw [List.foldl_cons, e0, List.foldl_append, run_onlyPi main emb (evPis_onlyPi _ _ _), List.foldl_append,
    run_elem_d main emb _ d.root _ _ rfl (fun _ => rfl) (fun f rest h => by cases h) hd,
    List.foldl_append, run_onlyPi main emb (evPis_onlyPi _ _ _), List.foldl_cons, List.foldl_nil, step_endDoc]
  rfl

/-! ### The top frame's children do not matter -/

theorem findElt_snoc (l : List Node) (x : Node) (nm : Bytes) :
    findElt (l ++ [x]) nm = (findElt l nm).or (if x.eltName? == some nm then some x else none) := by
  unfold findElt
  rw [List.find?_append]
  congr 1
  simp only [List.find?_cons, List.find?_nil]
  split <;> simp_all

/-- The `Meta`/`Type` look-up among children of which the last is still open. -/
theorem metaType_snoc (l : List Node) (p : Node) :
    metaType (l ++ [p]) =
      match findElt l b!"Meta" with
      | some m => findElt m.kids b!"Type"
      | none => if p.eltName? == some b!"Meta" then findElt p.kids b!"Type" else none := by
  unfold metaType
  rw [findElt_snoc]
  cases findElt l b!"Meta" with
  | some m => rfl
  | none =>
    simp only [Option.none_or]
    by_cases hp : (p.eltName? == some b!"Meta") = true
    · simp only [hp, if_true]
    · simp only [hp]; rfl

theorem syncml_top_kids (k : FrameKind) (x y : List Node) (rest : List Frame) :
    syncmlDataType ({ kind := k, kids := x } :: rest) = syncmlDataType ({ kind := k, kids := y } :: rest) := by
  cases k with
  | cdata => rfl
  | elt n a =>
    cases rest with
    | nil => rfl
    | cons g rest' =>
      unfold syncmlDataType
      simp only [materialize, materialize.materializeAux, Frame.close, Node.eltName?]
      by_cases hn : (some n.xmlName == some b!"Data") = true
      · have hnm : n.xmlName = b!"Data" := by simpa using hn
        have hM : (some n.xmlName == some b!"Meta") = false := by rw [hnm]; decide
        have hT : (some n.xmlName == some b!"Type") = false := by rw [hnm]; decide
        have e2 : ∀ z, findElt (g.kids ++ [Node.elt n a z]) b!"Type" = findElt g.kids b!"Type" := by
          intro z; rw [findElt_snoc]; simp only [Node.eltName?, hT]; simp
        cases hg : g.kind with
        | cdata =>
          cases rest' with
          | nil => simp only [materialize.materializeAux, Node.kids, metaType_snoc, Node.eltName?, hM, Bool.false_eq_true, if_false]
          | cons h rest'' =>
            cases hh : h.kind <;>
            simp only [materialize.materializeAux, Frame.close, hh, Node.kids, metaType_snoc, Node.eltName?, hM, e2,
              Bool.false_eq_true, if_false]
        | elt gn ga =>
          cases rest' with
          | nil => simp only [materialize.materializeAux, Node.kids, metaType_snoc, Node.eltName?, hM, Bool.false_eq_true, if_false]
          | cons h rest'' =>
            cases hh : h.kind <;>
            simp only [materialize.materializeAux, Frame.close, hh, Node.kids, metaType_snoc, Node.eltName?, hM, e2,
              Bool.false_eq_true, if_false]
      · simp only [hn, Bool.false_eq_true, if_false]

/-! ### Part 2: the condition on the tree -/

mutual
def dataNormal (stack : List Frame) : Node → Bool
  | .elt n a kids => dataNormalL (.elt n a) stack [] kids
  | .text s => s.isEmpty || normalAt stack
  | .cdata _ => true
  | .tree _ _ _ => true
def dataNormalL (k : FrameKind) (below : List Frame) : List Node → List Node → Bool
  | _, [] => true
  | done, n :: todo => dataNormal ({ kind := k, kids := done } :: below) n && dataNormalL k below (done ++ [n]) todo
end

theorem dataNormal_elt (stack n a kids) : dataNormal stack (.elt n a kids) = dataNormalL (.elt n a) stack [] kids := by
  rw [dataNormal]
theorem dataNormal_text (stack s) : dataNormal stack (.text s) = (s.isEmpty || normalAt stack) := by rw [dataNormal]
theorem dataNormalL_nil (k below done) : dataNormalL k below done [] = true := by rw [dataNormalL]
theorem dataNormalL_cons (k below done n todo) : dataNormalL k below done (n :: todo) =
    (dataNormal ({ kind := k, kids := done } :: below) n && dataNormalL k below (done ++ [n]) todo) := by rw [dataNormalL]

def baseOf (acc : List Node) : List Node := if lastText acc then acc.dropLast else acc

theorem baseOf_nil : baseOf [] = [] := rfl
theorem baseOf_snoc_text (B : List Node) (t : Bytes) : baseOf (B ++ [.text t]) = B := by
  unfold baseOf; rw [lastText_snoc]; simp [isText]
theorem baseOf_snoc_nontext (B : List Node) (n : Node) (h : isText n = false) : baseOf (B ++ [n]) = B ++ [n] := by
  unfold baseOf; rw [lastText_snoc, h]; rfl
theorem baseOf_of_not (acc : List Node) (h : lastText acc = false) : baseOf acc = acc := by
  unfold baseOf; rw [h]; rfl

/-- How the last child may have changed: a text node has grown, anything else is as it was. -/
def Ext (x x' : Node) : Prop := (isText x = false ∧ x' = x) ∨ ∃ u u', x = .text u ∧ x' = .text (u ++ u')

theorem Ext.refl (x : Node) : Ext x x := by
  cases x with
  | text u => exact Or.inr ⟨u, [], rfl, by rw [List.append_nil]⟩
  | elt n a k => exact Or.inl ⟨rfl, rfl⟩
  | cdata k => exact Or.inl ⟨rfl, rfl⟩
  | tree l cs r => exact Or.inl ⟨rfl, rfl⟩

theorem Ext.trans {x y z : Node} (h1 : Ext x y) (h2 : Ext y z) : Ext x z := by
  rcases h1 with ⟨hx, rfl⟩ | ⟨u, u', rfl, rfl⟩
  · exact h2
  · rcases h2 with ⟨hy, _⟩ | ⟨v, v', hv, rfl⟩
    · cases hy
    · injection hv with hv; subst hv
      exact Or.inr ⟨u, u' ++ v', rfl, by rw [List.append_assoc]⟩

theorem addChars_snoc (B : List Node) (x : Node) (t : Bytes) :
    (∃ x', addChars (B ++ [x]) t = B ++ [x'] ∧ Ext x x') ∨ (∃ y, addChars (B ++ [x]) t = B ++ [x] ++ [y]) := by
  cases t with
  | nil => exact Or.inl ⟨x, rfl, Ext.refl x⟩
  | cons b t =>
    rw [addChars_cons]
    cases x with
    | text u => rw [addKid_text_merge]; exact Or.inl ⟨_, rfl, Or.inr ⟨u, b :: t, rfl, rfl⟩⟩
    | elt n a k => rw [addKid_text_after _ _ (by rw [lastText_snoc]; rfl)]; exact Or.inr ⟨_, rfl⟩
    | cdata k => rw [addKid_text_after _ _ (by rw [lastText_snoc]; rfl)]; exact Or.inr ⟨_, rfl⟩
    | tree l cs r => rw [addKid_text_after _ _ (by rw [lastText_snoc]; rfl)]; exact Or.inr ⟨_, rfl⟩

theorem kidOfItem_snoc (c : Ctx) (own : Option TagRow) (pg : Pages) (it : Item) (B : List Node) (x : Node) :
    (∃ x', kidOfItem c own pg it (B ++ [x]) = B ++ [x'] ∧ Ext x x') ∨
    (∃ y, kidOfItem c own pg it (B ++ [x]) = B ++ [x] ++ [y]) := by
  cases it with
  | elem e =>
    rw [kidOfItem_elem, addKid_not_text _ _ (isText_nodeOfElem c pg e)]
    exact Or.inr ⟨_, rfl⟩
  | str s => rw [kidOfItem_str]; exact addChars_snoc B x _
  | entity code => rw [kidOfItem_entity]; exact addChars_snoc B x _
  | «opaque» d => rw [kidOfItem_opaque]; exact addChars_snoc B x _
  | ext sw e => rw [kidOfItem_ext]; exact addChars_snoc B x _
  | pi a => rw [kidOfItem_pi]; exact Or.inl ⟨x, rfl, Ext.refl x⟩

/-- **Prefix stability**: more items only extend the child list behind its last member, which —
    if it is a text node — may grow. -/
theorem kidsOfItems_snoc (c : Ctx) (own : Option TagRow) : ∀ (items : List Item) (pg : Pages) (B : List Node) (x : Node),
    ∃ x' more, kidsOfItems c own pg items (B ++ [x]) = B ++ (x' :: more) ∧ Ext x x'
  | [], pg, B, x => ⟨x, [], by rw [kidsOfItems_nil], Ext.refl x⟩
  | it :: rest, pg, B, x => by
    rw [kidsOfItems_cons]
    rcases kidOfItem_snoc c own pg it B x with ⟨x', h1, h2⟩ | ⟨y, h1⟩
    · rw [h1]
      obtain ⟨x'', more, h3, h4⟩ := kidsOfItems_snoc c own rest (evItem c own pg it).2 B x'
      exact ⟨x'', more, h3, h2.trans h4⟩
    · rw [h1]
      obtain ⟨y', more, h3, _⟩ := kidsOfItems_snoc c own rest (evItem c own pg it).2 (B ++ [x]) y
      exact ⟨x, y' :: more, by rw [h3, List.append_assoc]; rfl, Ext.refl x⟩

theorem acc_split (acc : List Node) :
    (lastText acc = false ∧ baseOf acc = acc) ∨ ∃ B t, acc = B ++ [.text t] ∧ baseOf acc = B := by
  cases h : lastText acc with
  | false => exact Or.inl ⟨rfl, baseOf_of_not acc h⟩
  | true =>
    obtain ⟨B, t, rfl⟩ := lastText_split acc h
    exact Or.inr ⟨B, t, rfl, baseOf_snoc_text B t⟩

theorem addChars_form (acc : List Node) (b : UInt8) (t : Bytes) :
    ∃ u, addChars acc (b :: t) = baseOf acc ++ [.text u] ∧ u ≠ [] := by
  rw [addChars_cons]
  rcases acc_split acc with ⟨h1, h2⟩ | ⟨B, t0, rfl, h2⟩
  · rw [addKid_text_after _ _ h1, h2]; exact ⟨b :: t, rfl, by intro h; cases h⟩
  · rw [addKid_text_merge, h2]
    exact ⟨t0 ++ b :: t, rfl, by intro h; have := congrArg List.length h; simp at this⟩

theorem baseOf_addChars (acc : List Node) (t : Bytes) : baseOf (addChars acc t) = baseOf acc := by
  cases t with
  | nil => rfl
  | cons b t =>
    obtain ⟨u, hu, _⟩ := addChars_form acc b t
    rw [hu, baseOf_snoc_text]

theorem normalAt_top (k : FrameKind) (x y : List Node) (rest : List Frame) :
    normalAt ({ kind := k, kids := x } :: rest) = normalAt ({ kind := k, kids := y } :: rest) := by
  unfold normalAt; rw [syncml_top_kids k x y rest]

theorem leaf_step (c : Ctx) (own : Option TagRow) (pg : Pages) (k : FrameKind) (below : List Frame)
    (rest : List Item) (acc : List Node) (t : Bytes) (T : List Node)
    (hK : kidsOfItems c own pg rest (addChars acc t) = baseOf acc ++ T)
    (hN : dataNormalL k below (baseOf acc) T = true) :
    (t.isEmpty || normalAt ({ kind := k, kids := acc } :: below)) = true := by
  cases t with
  | nil => rfl
  | cons b t' =>
    obtain ⟨u, hu, hne⟩ := addChars_form acc b t'
    rw [hu] at hK
    obtain ⟨x', more, h3, h4⟩ := kidsOfItems_snoc c own rest pg (baseOf acc) (.text u)
    rw [h3] at hK
    have hT := List.append_cancel_left hK
    subst hT
    rcases h4 with ⟨h5, _⟩ | ⟨v, v', hv, rfl⟩
    · cases h5
    · injection hv with hv; subst hv
      rw [dataNormalL_cons, Bool.and_eq_true, dataNormal_text] at hN
      have hne' : (u ++ v').isEmpty = false := by
        cases u with
        | nil => exact absurd rfl hne
        | cons _ _ => rfl
      rw [hne', Bool.false_or] at hN
      rw [normalAt_top k acc (baseOf acc) below, hN.1]
      rfl

theorem elem_step (c : Ctx) (own : Option TagRow) (pg : Pages) (k : FrameKind) (below : List Frame)
    (rest : List Item) (acc : List Node) (node : Node) (hnt : isText node = false) (T : List Node)
    (hK : kidsOfItems c own pg rest (acc ++ [node]) = baseOf acc ++ T)
    (hN : dataNormalL k below (baseOf acc) T = true) :
    ∃ more, kidsOfItems c own pg rest (acc ++ [node]) = baseOf (acc ++ [node]) ++ more ∧
      dataNormal ({ kind := k, kids := acc } :: below) node = true ∧
      dataNormalL k below (baseOf (acc ++ [node])) more = true := by
  obtain ⟨x', more, h3, h4⟩ := kidsOfItems_snoc c own rest pg acc node
  have hx : x' = node := by
    rcases h4 with ⟨_, h⟩ | ⟨u, u', hu, _⟩
    · exact h
    · rw [hu] at hnt; cases hnt
  subst hx
  rw [baseOf_snoc_nontext acc x' hnt]
  refine ⟨more, by rw [h3, List.append_assoc]; rfl, ?_⟩
  rw [h3] at hK
  rcases acc_split acc with ⟨_, h2⟩ | ⟨B, t0, rfl, h2⟩
  · rw [h2] at hK hN
    have hT := List.append_cancel_left hK
    subst hT
    rw [dataNormalL_cons, Bool.and_eq_true] at hN
    exact hN
  · rw [h2] at hK hN
    rw [List.append_assoc] at hK
    have hT := List.append_cancel_left hK
    subst hT
    rw [List.singleton_append, dataNormalL_cons, Bool.and_eq_true, dataNormalL_cons, Bool.and_eq_true] at hN
    exact hN.2

mutual
/-- **From the tree to the grammar element**: if the tree read off an element satisfies the
    tree-level condition under the frames `below`, the builder meets `normal` at every non-empty
    character-data event of the element. -/
theorem dataOk_of_normal_elem (c : Ctx) : ∀ (e : Elem) (pg : Pages) (below : List Frame),
    dataNormal below (nodeOfElem c pg e) = true → dataOkElem c pg below e = true
  | .mk sw tag attrs content, pg, below, h => by
    rw [nodeOfElem_mk, dataNormal_elt] at h
    rw [dataOkElem_mk]
    exact dataOk_of_normal_content c content _ _ _ below h
theorem dataOk_of_normal_content (c : Ctx) : ∀ (content : Option (List Item)) (own : Option TagRow) (pg : Pages)
    (k : FrameKind) (below : List Frame),
    dataNormalL k below [] (kidsOfContent c own pg content []) = true → dataOkContent c own pg k below content [] = true
  | none, own, pg, k, below, _ => by rw [dataOkContent_none]
  | some items, own, pg, k, below, h => by
    rw [kidsOfContent_some] at h
    rw [dataOkContent_some]
    exact dataOk_of_normal_items c items own pg k below [] _ rfl h
theorem dataOk_of_normal_items (c : Ctx) : ∀ (items : List Item) (own : Option TagRow) (pg : Pages)
    (k : FrameKind) (below : List Frame) (acc T : List Node),
    kidsOfItems c own pg items acc = baseOf acc ++ T → dataNormalL k below (baseOf acc) T = true →
    dataOkItems c own pg k below items acc = true
  | [], own, pg, k, below, acc, T, _, _ => by rw [dataOkItems_nil]
  | it :: rest, own, pg, k, below, acc, T, hK, hN => by
    rw [kidsOfItems_cons] at hK
    rw [dataOkItems_cons, Bool.and_eq_true]
    exact dataOk_of_normal_item c it own pg k below acc T rest hK hN
      (fun acc' T' h1 h2 => dataOk_of_normal_items c rest own _ k below acc' T' h1 h2)
theorem dataOk_of_normal_item (c : Ctx) : ∀ (it : Item) (own : Option TagRow) (pg : Pages)
    (k : FrameKind) (below : List Frame) (acc T : List Node) (rest : List Item),
    kidsOfItems c own (evItem c own pg it).2 rest (kidOfItem c own pg it acc) = baseOf acc ++ T →
    dataNormalL k below (baseOf acc) T = true →
    (∀ acc' T', kidsOfItems c own (evItem c own pg it).2 rest acc' = baseOf acc' ++ T' →
      dataNormalL k below (baseOf acc') T' = true → dataOkItems c own (evItem c own pg it).2 k below rest acc' = true) →
    dataOkItem c own pg k below it acc = true ∧
      dataOkItems c own (evItem c own pg it).2 k below rest (kidOfItem c own pg it acc) = true
  | .elem e, own, pg, k, below, acc, T, rest, hK, hN, ih => by
    rw [kidOfItem_elem, addKid_not_text _ _ (isText_nodeOfElem c pg e)] at hK ⊢
    obtain ⟨more, h1, h2, h3⟩ := elem_step c own _ k below rest acc _ (isText_nodeOfElem c pg e) T hK hN
    rw [dataOkItem_elem]
    exact ⟨dataOk_of_normal_elem c e pg _ h2, ih _ more h1 h3⟩
  | .str s, own, pg, k, below, acc, T, rest, hK, hN, ih => by
    rw [kidOfItem_str] at hK ⊢
    rw [dataOkItem_str]
    exact ⟨leaf_step c own _ k below rest acc _ T hK hN, ih _ T (by rw [baseOf_addChars]; exact hK) (by rw [baseOf_addChars]; exact hN)⟩
  | .entity code, own, pg, k, below, acc, T, rest, hK, hN, ih => by
    rw [kidOfItem_entity] at hK ⊢
    rw [dataOkItem_entity]
    exact ⟨leaf_step c own _ k below rest acc _ T hK hN, ih _ T (by rw [baseOf_addChars]; exact hK) (by rw [baseOf_addChars]; exact hN)⟩
  | .opaque d, own, pg, k, below, acc, T, rest, hK, hN, ih => by
    rw [kidOfItem_opaque] at hK ⊢
    rw [dataOkItem_opaque]
    exact ⟨leaf_step c own _ k below rest acc _ T hK hN, ih _ T (by rw [baseOf_addChars]; exact hK) (by rw [baseOf_addChars]; exact hN)⟩
  | .ext sw x, own, pg, k, below, acc, T, rest, hK, hN, ih => by
    rw [kidOfItem_ext] at hK ⊢
    rw [dataOkItem_ext]
    exact ⟨leaf_step c own _ k below rest acc _ T hK hN, ih _ T (by rw [baseOf_addChars]; exact hK) (by rw [baseOf_addChars]; exact hN)⟩
  | .pi p, own, pg, k, below, acc, T, rest, hK, hN, ih => by
    rw [kidOfItem_pi] at hK ⊢
    exact ⟨by rw [dataOkItem], ih _ T hK hN⟩
end


/-! ### The decidable predicate -/

/-- **`dataIsNormal n`**: in the tree `n` (in the normal form the builders deliver) every text node
    stands where `wbxml_tree_node_get_syncml_data_type` answers `normal` when the text arrives — i.e.
    its parent is not called `Data`, or the `Meta`/`Type` look-up among the children its
    grandparent / great-grandparent have at that moment (the preceding siblings of the path) finds
    none of the special media types and the great-grandparent is not called `Add` / `Replace`.
    Evaluated with the model's own `syncmlDataType` on the frames the builder has at that moment. -/
def dataIsNormal (n : Node) : Bool := dataNormal [] n

theorem dataOkDoc_of_normal (cfg : PCfg) (d : Doc) (l : Lang) (hl : headerLang cfg d.hdr = some l)
    (h : dataIsNormal (rootOfDoc cfg d l) = true) : dataOkDoc cfg d = true := by
  unfold dataOkDoc
  rw [hl]
  exact dataOk_of_normal_elem _ d.root _ [] h

mutual
/-- No element is called `Data` (XML names). -/
def noDataX : Node → Bool
  | .elt n _ kids => !(n.xmlName == dataName) && noDataXL kids
  | .text _ => true
  | .cdata _ => true
  | .tree _ _ _ => true
def noDataXL : List Node → Bool
  | [] => true
  | k :: r => noDataX k && noDataXL r
end

mutual
/-- Without an element called `Data` the condition holds under any frames. -/
theorem dataNormal_of_noData : ∀ (n : Node) (stack : List Frame), (∀ f rest, stack = f :: rest →
      ∃ nm a, f.kind = .elt nm a ∧ (nm.xmlName == dataName) = false) → noDataX n = true → dataNormal stack n = true
  | .elt n a kids, stack, _, h => by
    rw [noDataX, Bool.and_eq_true, Bool.not_eq_true'] at h
    rw [dataNormal_elt]
    exact dataNormalL_of_noData kids n a stack [] h.1 h.2
  | .text s, stack, hs, _ => by
    rw [dataNormal_text]
    cases stack with
    | nil => simp [normalAt, syncmlDataType, materialize]
    | cons f rest =>
      obtain ⟨nm, a, hk, hn⟩ := hs f rest rfl
      rw [(normalAt_iff _).mpr (syncml_normal hk hn), Bool.or_true]
  | .cdata _, _, _, _ => by rw [dataNormal]
  | .tree _ _ _, _, _, _ => by rw [dataNormal]
theorem dataNormalL_of_noData : ∀ (todo : List Node) (n : Name) (a : List Attr) (below : List Frame) (done : List Node),
    (n.xmlName == dataName) = false → noDataXL todo = true → dataNormalL (.elt n a) below done todo = true
  | [], n, a, below, done, _, _ => by rw [dataNormalL_nil]
  | k :: rest, n, a, below, done, hn, h => by
    rw [noDataXL, Bool.and_eq_true] at h
    rw [dataNormalL_cons, Bool.and_eq_true]
    exact ⟨dataNormal_of_noData k _ (fun f r hfr => by injection hfr with h1 _; subst h1; exact ⟨n, a, rfl, hn⟩) h.1,
      dataNormalL_of_noData rest n a below _ hn h.2⟩
end

theorem dataIsNormal_of_noData (n : Node) (h : noDataX n = true) : dataIsNormal n = true :=
  dataNormal_of_noData n [] (fun _ _ h => by cases h) h

end Wbxml.Lemmas.Rt
