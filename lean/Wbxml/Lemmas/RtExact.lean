/-
  Round trip (C03), exact form — definitions shared by the encoder induction and the tree-level
  round-trip theorems. Moved here (unchanged) from `RtBuild.lean` / `RtNorm.lean` so that
  `EncWNode.lean` can state its tree-level conjunct (`TreeT`): the tree read off a grammar element
  (`nodeOfElem`, `kidsOfItems`), `addChars` / `addN`, the `addKid` lemmas. New: character data added
  piecewise is character data added at once (`addChars_addChars`), the children read off a
  concatenation (`kidsOfItems_append`), and the children read off items that are neither elements
  nor processing instructions are ONE run of character data (`kidsOfItems_leaves`).
-/
import Wbxml.Lemmas.EncWPos
namespace Wbxml.Lemmas.Rt
open Wbxml Wbxml.Model Wbxml.Spec Wbxml.Lemmas.ParseSer Wbxml.Lemmas.EncW

/-! ### The tree read off a grammar element -/

/-- Character data joins the children as a text node — merged into a preceding text sibling —
    unless it is empty (`charsEv` reports nothing then). -/
def addChars (kids : List Node) (s : Bytes) : List Node :=
  if s.isEmpty then kids else addKid kids (.text s)

mutual
/-- The node an element of the grammar stands for (pages threaded as in `evElem`). -/
def nodeOfElem (c : Ctx) (pg : Pages) : Elem → Node
  | .mk sw tag attrs content =>
    .elt (tagName c (swPage sw pg.tag) tag).1 (evAttrs c pg.attr attrs).1
      (kidsOfContent c (tagName c (swPage sw pg.tag) tag).2 ⟨swPage sw pg.tag, (evAttrs c pg.attr attrs).2⟩ content [])
def kidsOfContent (c : Ctx) (own : Option TagRow) (pg : Pages) : Option (List Item) → List Node → List Node
  | none, acc => acc
  | some items, acc => kidsOfItems c own pg items acc
/-- The children a content sequence adds to the children `acc` collected so far. -/
def kidsOfItems (c : Ctx) (own : Option TagRow) (pg : Pages) : List Item → List Node → List Node
  | [], acc => acc
  | it :: rest, acc => kidsOfItems c own (evItem c own pg it).2 rest (kidOfItem c own pg it acc)
def kidOfItem (c : Ctx) (own : Option TagRow) (pg : Pages) : Item → List Node → List Node
  | .elem e, acc => addKid acc (nodeOfElem c pg e)
  | .str s, acc => addChars acc (strText c s)
  | .entity code, acc => addChars acc (entityText code)
  | .opaque d, acc => addChars acc ((opaqueText c own d).getD [])
  | .ext _ x, acc => addChars acc ((extText c x).getD [])
  | .pi _, acc => acc
end


theorem kidsOfItems_nil (c own pg acc) : kidsOfItems c own pg [] acc = acc := by rw [kidsOfItems]
theorem kidsOfItems_cons (c own pg it rest acc) : kidsOfItems c own pg (it :: rest) acc =
    kidsOfItems c own (evItem c own pg it).2 rest (kidOfItem c own pg it acc) := by rw [kidsOfItems]
theorem kidsOfContent_none (c own pg acc) : kidsOfContent c own pg none acc = acc := by rw [kidsOfContent]
theorem kidsOfContent_some (c own pg items acc) :
    kidsOfContent c own pg (some items) acc = kidsOfItems c own pg items acc := by rw [kidsOfContent]
theorem nodeOfElem_mk (c : Ctx) (pg : Pages) (sw tag attrs content) : nodeOfElem c pg (.mk sw tag attrs content) =
    .elt (tagName c (swPage sw pg.tag) tag).1 (evAttrs c pg.attr attrs).1
      (kidsOfContent c (tagName c (swPage sw pg.tag) tag).2 ⟨swPage sw pg.tag, (evAttrs c pg.attr attrs).2⟩ content []) := by
  rw [nodeOfElem]
theorem kidOfItem_elem (c own pg e acc) : kidOfItem c own pg (.elem e) acc = addKid acc (nodeOfElem c pg e) := by
  rw [kidOfItem]
theorem kidOfItem_str (c own pg s acc) : kidOfItem c own pg (.str s) acc = addChars acc (strText c s) := by rw [kidOfItem]
theorem kidOfItem_entity (c own pg code acc) : kidOfItem c own pg (.entity code) acc = addChars acc (entityText code) := by
  rw [kidOfItem]
theorem kidOfItem_opaque (c own pg d acc) :
    kidOfItem c own pg (.opaque d) acc = addChars acc ((opaqueText c own d).getD []) := by rw [kidOfItem]
theorem kidOfItem_ext (c own pg sw x acc) : kidOfItem c own pg (.ext sw x) acc = addChars acc ((extText c x).getD []) := by
  rw [kidOfItem]
theorem kidOfItem_pi (c own pg a acc) : kidOfItem c own pg (.pi a) acc = acc := by rw [kidOfItem]


def isText : Node → Bool
  | .text _ => true
  | _ => false

/-- Append a normalised child: an empty text node is dropped, a text node is merged into a
    preceding text sibling (`addKid`). -/
def addN (acc : List Node) (n : Node) : List Node :=
  match n with
  | .text s => addChars acc s
  | _ => addKid acc n


/-! ### Child lists: `addKid` at the end -/

def lastText (l : List Node) : Bool :=
  match l.getLast? with
  | some k => isText k
  | none => false

def headText (l : List Node) : Bool :=
  match l with
  | k :: _ => isText k
  | [] => false

theorem addKid_not_text (kids : List Node) (n : Node) (h : isText n = false) : addKid kids n = kids ++ [n] := by
  unfold addKid
  cases n with
  | text s => cases h
  | elt _ _ _ => rfl
  | cdata _ => rfl
  | tree _ _ _ => rfl

theorem addKid_text_after (kids : List Node) (s : Bytes) (h : lastText kids = false) :
    addKid kids (.text s) = kids ++ [.text s] := by
  unfold addKid
  unfold lastText at h
  cases hl : kids.getLast? with
  | none => rfl
  | some k =>
    rw [hl] at h
    cases k with
    | text t => cases h
    | elt _ _ _ => rfl
    | cdata _ => rfl
    | tree _ _ _ => rfl

theorem addKid_text_merge (pre : List Node) (t s : Bytes) :
    addKid (pre ++ [.text t]) (.text s) = pre ++ [.text (t ++ s)] := by
  unfold addKid
  simp only [List.getLast?_append, List.getLast?_singleton, Option.some_or, List.dropLast_concat]

theorem lastText_snoc (l : List Node) (k : Node) : lastText (l ++ [k]) = isText k := by
  unfold lastText
  simp only [List.getLast?_append, List.getLast?_singleton, Option.some_or]

/-- A list whose last element is a text node ends in that node. -/
theorem lastText_split (l : List Node) (h : lastText l = true) : ∃ pre t, l = pre ++ [.text t] := by
  unfold lastText at h
  cases hl : l.getLast? with
  | none => rw [hl] at h; cases h
  | some k =>
    rw [hl] at h
    obtain ⟨pre, rfl⟩ : ∃ pre, l = pre ++ [k] := by
      have hne : l ≠ [] := by intro hn; rw [hn] at hl; cases hl
      refine ⟨l.dropLast, ?_⟩
      have h1 := List.dropLast_concat_getLast hne
      have h2 : l.getLast hne = k := by
        rw [List.getLast?_eq_some_getLast hne] at hl; injection hl
      rw [h2] at h1; exact h1.symm
    cases k with
    | text t => exact ⟨pre, t, rfl⟩
    | elt _ _ _ => cases h
    | cdata _ => cases h
    | tree _ _ _ => cases h



/-! ### Character data added piecewise -/

theorem addChars_nil (acc : List Node) : addChars acc [] = acc := rfl

theorem addChars_cons (acc : List Node) (b : UInt8) (s : Bytes) : addChars acc (b :: s) = addKid acc (.text (b :: s)) := rfl

/-- Two pieces of character data added one after the other are one piece (`addKid` merges). -/
theorem addChars_addChars (acc : List Node) (a b : Bytes) : addChars (addChars acc a) b = addChars acc (a ++ b) := by
  cases a with
  | nil => rfl
  | cons x a =>
    cases b with
    | nil => rw [addChars_nil, List.append_nil]
    | cons y b =>
      rw [addChars_cons, addChars_cons, List.cons_append, addChars_cons]
      cases hl : lastText acc with
      | false => rw [addKid_text_after _ _ hl, addKid_text_merge, addKid_text_after _ _ hl]; rfl
      | true =>
        obtain ⟨pre, t, rfl⟩ := lastText_split acc hl
        rw [addKid_text_merge, addKid_text_merge, addKid_text_merge, List.append_assoc]; rfl

theorem addN_text (acc : List Node) (s : Bytes) : addN acc (.text s) = addChars acc s := rfl
theorem addN_elt (acc : List Node) (n a k) : addN acc (.elt n a k) = addKid acc (.elt n a k) := rfl

/-! ### The children read off a concatenation -/

theorem kidsOfItems_append (c : Ctx) (own : Option TagRow) : ∀ (a b : List Item) (pg : Pages) (acc : List Node),
    kidsOfItems c own pg (a ++ b) acc = kidsOfItems c own (evItems c own pg a).2 b (kidsOfItems c own pg a acc)
  | [], b, pg, acc => by rw [List.nil_append, evItems_nil, kidsOfItems_nil]
  | x :: a, b, pg, acc => by
    rw [List.cons_append, kidsOfItems_cons, kidsOfItems_cons, evItems_cons, kidsOfItems_append c own a b]

theorem kidsOfItems_single (c : Ctx) (own : Option TagRow) (pg : Pages) (it : Item) (acc : List Node) :
    kidsOfItems c own pg [it] acc = kidOfItem c own pg it acc := by
  rw [kidsOfItems_cons, kidsOfItems_nil]

/-! ### Items that are neither elements nor processing instructions: one run of character data -/

def leafItem : Item → Bool
  | .elem _ => false
  | .pi _ => false
  | _ => true

def charsOf : Event → Bytes
  | .chars s => s
  | _ => []

/-- The character data of an event list. -/
def evText (es : List Event) : Bytes := es.flatMap charsOf

theorem evText_charsEv (b : Bytes) : evText (charsEv b) = b := by
  unfold charsEv evText
  split
  · rename_i h; rw [List.isEmpty_iff.mp h]; rfl
  · simp [charsOf]

theorem evText_append (a b : List Event) : evText (a ++ b) = evText a ++ evText b := by
  simp [evText]

/-- A leaf item adds its character data and reports it as one `chars` event (none when empty). -/
theorem leafItem_spec (c : Ctx) (own : Option TagRow) (pg : Pages) (it : Item) (h : leafItem it = true) (acc : List Node) :
    kidOfItem c own pg it acc = addChars acc (evText (evItem c own pg it).1) ∧
    (evItem c own pg it).1.flatMap toks = (evText (evItem c own pg it).1).map .ch := by
  cases it with
  | elem e => cases h
  | pi a => cases h
  | str s => rw [kidOfItem_str, evItem_str, evText_charsEv, toks_charsEv]; exact ⟨rfl, rfl⟩
  | entity code => rw [kidOfItem_entity, evItem_entity, evText_charsEv, toks_charsEv]; exact ⟨rfl, rfl⟩
  | «opaque» d => rw [kidOfItem_opaque, evItem_opaque, evText_charsEv, toks_charsEv]; exact ⟨rfl, rfl⟩
  | ext sw x => rw [kidOfItem_ext, evItem_ext, evText_charsEv, toks_charsEv]; exact ⟨rfl, rfl⟩

/-- **Leaves only**: the children read off the items are the children so far plus ONE run of
    character data — the character data of the items' events — and the view of those events is
    that run octet by octet. -/
theorem kidsOfItems_leaves (c : Ctx) (own : Option TagRow) : ∀ (items : List Item) (pg : Pages) (acc : List Node),
    items.all leafItem = true →
    kidsOfItems c own pg items acc = addChars acc (evText (evItems c own pg items).1) ∧
    (evItems c own pg items).1.flatMap toks = (evText (evItems c own pg items).1).map .ch
  | [], pg, acc, _ => by rw [kidsOfItems_nil, evItems_nil]; exact ⟨rfl, rfl⟩
  | it :: rest, pg, acc, h => by
    rw [List.all_cons, Bool.and_eq_true] at h
    obtain ⟨h1, h2⟩ := leafItem_spec c own pg it h.1 acc
    obtain ⟨h3, h4⟩ := kidsOfItems_leaves c own rest (evItem c own pg it).2 (kidOfItem c own pg it acc) h.2
    rw [kidsOfItems_cons, evItems_cons, h3, h1, addChars_addChars, evText_append, List.flatMap_append, h2, h4,
      List.map_append]
    exact ⟨rfl, rfl⟩

theorem map_ch_inj : ∀ (a b : Bytes), a.map Tok.ch = b.map Tok.ch → a = b
  | [], [], _ => rfl
  | [], _ :: _, h => by cases h
  | _ :: _, [], h => by cases h
  | x :: a, y :: b, h => by
    simp only [List.map_cons, List.cons.injEq, Tok.ch.injEq] at h
    rw [h.1, map_ch_inj a b h.2]

theorem leaf_of_Leaf {c : WCfg} {tbl : List StrEntry} {it : Item} (h : Leaf c tbl it) : leafItem it = true := by
  cases h <;> rfl

/-- Leaves whose view is the octets of `t` add exactly `t` as character data. -/
theorem kidsOfItems_of_view (c : Ctx) (own : Option TagRow) (items : List Item) (pg : Pages) (acc : List Node)
    (hl : items.all leafItem = true) (t : Bytes) (hv : (evItems c own pg items).1.flatMap toks = t.map .ch) :
    kidsOfItems c own pg items acc = addChars acc t := by
  obtain ⟨h1, h2⟩ := kidsOfItems_leaves c own items pg acc hl
  rw [h1, map_ch_inj _ _ (h2.symm.trans hv)]

end Wbxml.Lemmas.Rt
